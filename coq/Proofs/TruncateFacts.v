(* Proofs/TruncateFacts.v — facts about Model/Truncate.v (vertices_to_polygon, C13).
   Self-contained (stdlib + the two models).  All statements are for every lattice with
   wf_lattice L = true and no_self_loops L = true and every selection vs; proofs by induction, no
   computation on examples.  Main results (end of the file):
     first_or_second_spec, outvec_fosf          the first_or_second column lemma
     vertices_to_polygon_spec                   the function never raises and equals the closed form trunc_spec
     truncate_counts   (+ truncate_counts_total/_lengths/_lattice/_corners/_untouched, base_index_closed)
     truncate_vectors  (+ truncate_vectors_original, truncate_vectors_polygon) *)
From Coq Require Import List ZArith Bool Arith Lia ZifyBool Permutation.
From Koala Require Import Model.Lattice Model.Truncate.
Import ListNotations.
Local Open Scope nat_scope.

(* ================================================================== 0. generic list facts *)
Lemma fold_left_ext_in {A B} (f g : A -> B -> A) l a :
  (forall a x, In x l -> f a x = g a x) -> fold_left f l a = fold_left g l a.
Proof.
  revert a; induction l as [|x l IH]; intros a H; cbn [fold_left]; [reflexivity|].
  rewrite H by (left; reflexivity). apply IH. intros a' y Hy. apply H. right; exact Hy.
Qed.

Lemma fold_left_map {A B C} (f : A -> B -> A) (g : C -> B) l a :
  fold_left f (map g l) a = fold_left (fun a x => f a (g x)) l a.
Proof. revert a; induction l as [|x l IH]; intros a; cbn [fold_left map]; auto. Qed.

Lemma fold_left_triple {A B C X} (f1 : A -> X -> A) (f2 : B -> X -> B) (f3 : C -> X -> C) l a b c :
  fold_left (fun (s : A * B * C) x => let '(a, b, c) := s in (f1 a x, f2 b x, f3 c x)) l (a, b, c)
  = (fold_left f1 l a, fold_left f2 l b, fold_left f3 l c).
Proof. revert a b c; induction l as [|x l IH]; intros a b c; cbn [fold_left]; auto. Qed.

Lemma nth_map_seq {A} (f : nat -> A) n u d : u < n -> nth u (map f (seq 0 n)) d = f u.
Proof.
  intros Hu. rewrite (nth_indep _ d (f 0)) by (rewrite map_length, seq_length; exact Hu).
  rewrite map_nth, seq_nth by exact Hu. reflexivity.
Qed.

Lemma map_nth_seq (l : list nat) : l = map (fun u => nth u l 0) (seq 0 (length l)).
Proof.
  apply (nth_ext _ _ 0 0).
  - rewrite map_length, seq_length. reflexivity.
  - intros n Hn. rewrite nth_map_seq by exact Hn. reflexivity.
Qed.

Lemma fold_left_nth_seq {A} (f : A -> nat -> A) (l : list nat) a :
  fold_left f l a = fold_left (fun a u => f a (nth u l 0)) (seq 0 (length l)) a.
Proof. rewrite <- (fold_left_map f (fun u => nth u l 0)). rewrite <- map_nth_seq. reflexivity. Qed.

Lemma combine_map_r {A B} (g : A -> B) l : combine l (map g l) = map (fun e => (e, g e)) l.
Proof. induction l as [|x l IH]; cbn [map combine]; [reflexivity|]. rewrite IH. reflexivity. Qed.

Lemma nth_map_in {A B} (f : A -> B) l u dA dB : u < length l -> nth u (map f l) dB = f (nth u l dA).
Proof.
  intros Hu. rewrite (nth_indep _ dB (f dA)) by (rewrite map_length; exact Hu). apply map_nth.
Qed.

(* blocks appended one after the other: flat_map over seq *)
Lemma flat_map_seq_S {A} (blk : nat -> list A) n :
  flat_map blk (seq 0 (S n)) = flat_map blk (seq 0 n) ++ blk n.
Proof. rewrite seq_S, flat_map_app. cbn [flat_map]. rewrite app_nil_r. reflexivity. Qed.

Lemma nth_flat_map_seq {A} (blk : nat -> list A) n w u d :
  w < n -> u < length (blk w) ->
  nth (length (flat_map blk (seq 0 w)) + u) (flat_map blk (seq 0 n)) d = nth u (blk w) d.
Proof.
  intros Hw Hu.
  replace n with (w + S (n - w - 1)) by lia.
  rewrite seq_app, flat_map_app. cbn [seq flat_map].
  rewrite app_nth2_plus, app_nth1 by exact Hu. reflexivity.
Qed.

(* index of the first occurrence *)
Fixpoint pos_in (e : nat) (l : list nat) : nat :=
  match l with
  | [] => 0
  | y :: r => if y =? e then 0 else S (pos_in e r)
  end.

Lemma pos_in_lt e l : In e l -> pos_in e l < length l.
Proof.
  induction l as [|y r IH]; intros H; [destruct H|]. cbn [pos_in length].
  destruct (Nat.eqb_spec y e); [lia|]. destruct H as [H|H]; [congruence|]. specialize (IH H). lia.
Qed.

Lemma nth_pos_in e l : In e l -> nth (pos_in e l) l 0 = e.
Proof.
  induction l as [|y r IH]; intros H; [destruct H|]. cbn [pos_in].
  destruct (Nat.eqb_spec y e); [exact e0|]. destruct H as [H|H]; [congruence|]. cbn [nth]. auto.
Qed.

Lemma pos_in_nth l u : NoDup l -> u < length l -> pos_in (nth u l 0) l = u.
Proof.
  intros Hnd; revert u; induction Hnd as [|y r Hy Hnd IH]; intros u Hu; cbn [length] in Hu; [lia|].
  destruct u as [|u]; cbn [nth pos_in]; [rewrite Nat.eqb_refl; reflexivity|].
  destruct (Nat.eqb_spec y (nth u r 0)) as [E|E].
  - exfalso. apply Hy. rewrite E. apply nth_In. lia.
  - rewrite IH by lia. reflexivity.
Qed.

(* ================================================================== 1. sorted_adj *)
Lemma insert_desc_perm key x l : Permutation (insert_desc key x l) (x :: l).
Proof.
  induction l as [|y r IH]; cbn [insert_desc]; [reflexivity|].
  destruct (ang_lt (key y) (key x)); [reflexivity|].
  rewrite IH. apply perm_swap.
Qed.

Lemma sort_desc_perm_gen key l acc :
  Permutation (fold_left (fun a x => insert_desc key x a) l acc) (l ++ acc).
Proof.
  revert acc; induction l as [|x l IH]; intros acc; cbn [fold_left app]; [reflexivity|].
  rewrite IH, insert_desc_perm. symmetry. apply Permutation_middle.
Qed.

Lemma sort_desc_perm key l : Permutation (sort_desc key l) l.
Proof. unfold sort_desc. rewrite sort_desc_perm_gen, app_nil_r. reflexivity. Qed.

Lemma incident_NoDup L v : NoDup (incident L v).
Proof. unfold incident. apply NoDup_filter, seq_NoDup. Qed.

Lemma in_incident L v e : In e (incident L v) <-> e < nE L /\ incident_b L v e = true.
Proof. unfold incident. rewrite filter_In, in_seq. split; intros [H1 H2]; split; auto; lia. Qed.

Lemma sorted_adj_perm L v : Permutation (sorted_adj L v) (incident L v).
Proof. apply sort_desc_perm. Qed.

Lemma sorted_adj_NoDup L v : NoDup (sorted_adj L v).
Proof. eapply Permutation_NoDup; [symmetry; apply sorted_adj_perm | apply incident_NoDup]. Qed.

Lemma in_sorted_adj L v e : In e (sorted_adj L v) <-> e < nE L /\ incident_b L v e = true.
Proof.
  rewrite <- in_incident. split; apply Permutation_in; [apply sorted_adj_perm | symmetry; apply sorted_adj_perm].
Qed.

(* ================================================================== 2. tables *)
Lemma set_nth_length {A} n (x : A) l : length (set_nth n x l) = length l.
Proof. revert n; induction l as [|y r IH]; intros [|n]; simpl; auto. Qed.

Lemma nth_set_nth_eq {A} n (x d : A) l : n < length l -> nth n (set_nth n x l) d = x.
Proof.
  revert n; induction l as [|y r IH]; intros [|n] H; simpl in *; try lia; [reflexivity|]. apply IH. lia.
Qed.

Lemma nth_set_nth_neq {A} n m (x d : A) l : n <> m -> nth m (set_nth n x l) d = nth m l d.
Proof. revert n m; induction l as [|y r IH]; intros [|n] [|m] H; simpl; auto. lia. Qed.

Lemma set_nth_oob {A} n (x : A) l : length l <= n -> set_nth n x l = l.
Proof. revert n; induction l as [|y r IH]; intros [|n] H; simpl in *; auto; [lia|]. f_equal. apply IH. lia. Qed.

Lemma nth_set_nth {A} n m (x d : A) l :
  m < length l -> nth m (set_nth n x l) d = if n =? m then x else nth m l d.
Proof.
  intros H. destruct (Nat.eqb_spec n m) as [E|E].
  - subst. apply nth_set_nth_eq; exact H.
  - apply nth_set_nth_neq; exact E.
Qed.

(* --- original_edges table --- *)
Definition oe_get (tab : list oe_row) (e c : nat) : option nat :=
  if c =? 0 then fst (nth e tab (None, None)) else snd (nth e tab (None, None)).

Lemma oe_write_length tab e c x : length (oe_write tab e c x) = length tab.
Proof. unfold oe_write. apply set_nth_length. Qed.

Lemma oe_write_get tab e c x e' c' :
  e' < length tab ->
  oe_get (oe_write tab e c x) e' c' =
  if (e =? e') && Bool.eqb (c =? 0) (c' =? 0) then Some x else oe_get tab e' c'.
Proof.
  intros H. unfold oe_get, oe_write. rewrite nth_set_nth by exact H.
  destruct (Nat.eqb_spec e e') as [E|E]; cbn [andb]; [subst e'|reflexivity].
  destruct (c =? 0), (c' =? 0); reflexivity.
Qed.

Definition oe_op := (nat * nat * nat)%type.   (* row, column, value *)
Definition oe_apply (tab : list oe_row) (op : oe_op) : list oe_row :=
  oe_write tab (fst (fst op)) (snd (fst op)) (snd op).

Lemma oe_fold_length ops tab : length (fold_left oe_apply ops tab) = length tab.
Proof.
  revert tab; induction ops as [|op ops IH]; intros tab; cbn [fold_left]; [reflexivity|].
  rewrite IH. apply oe_write_length.
Qed.

Lemma oe_fold_untouched ops tab e' c' :
  e' < length tab -> ~ In e' (map (fun op : oe_op => fst (fst op)) ops) ->
  oe_get (fold_left oe_apply ops tab) e' c' = oe_get tab e' c'.
Proof.
  revert tab; induction ops as [|op ops IH]; intros tab Hlen Hnin; cbn [fold_left]; [reflexivity|].
  cbn [map In] in Hnin.
  rewrite IH by (try (unfold oe_apply; rewrite oe_write_length); tauto).
  unfold oe_apply. rewrite oe_write_get by exact Hlen.
  destruct (Nat.eqb_spec (fst (fst op)) e'); [tauto|reflexivity].
Qed.

Lemma oe_fold_written ops tab e' c x c' :
  e' < length tab -> NoDup (map (fun op : oe_op => fst (fst op)) ops) -> In (e', c, x) ops ->
  oe_get (fold_left oe_apply ops tab) e' c' =
  if Bool.eqb (c =? 0) (c' =? 0) then Some x else oe_get tab e' c'.
Proof.
  revert tab; induction ops as [|op ops IH]; intros tab Hlen Hnd Hin; [destruct Hin|].
  cbn [fold_left]. cbn [map] in Hnd. inversion Hnd as [|? ? Hnotin Hnd']; subst.
  destruct Hin as [Hin|Hin].
  - subst op. cbn [fst snd] in *.
    rewrite oe_fold_untouched by (try (unfold oe_apply; rewrite oe_write_length); assumption).
    unfold oe_apply; cbn [fst snd]. rewrite oe_write_get by exact Hlen.
    rewrite Nat.eqb_refl. reflexivity.
  - rewrite IH by (try (unfold oe_apply; rewrite oe_write_length); assumption).
    unfold oe_apply. rewrite oe_write_get by exact Hlen.
    destruct (Nat.eqb_spec (fst (fst op)) e') as [E|E]; [|reflexivity].
    exfalso. apply Hnotin. rewrite E.
    exact (in_map (fun op : oe_op => fst (fst op)) ops (e', c, x) Hin).
Qed.

(* --- vectors --- *)
Local Open Scope Z_scope.

Ltac vec_tac :=
  repeat match goal with
         | v : vec |- _ => destruct v
         end;
  unfold vadd, vsub, vscale, vneg, vzero in *; cbn [fst snd] in *;
  try (f_equal; lia).

Lemma vadd_zero_r a : vadd a vzero = a.
Proof. vec_tac. Qed.
Lemma vadd_zero_l a : vadd vzero a = a.
Proof. vec_tac. Qed.
Lemma vadd_assoc a b c : vadd (vadd a b) c = vadd a (vadd b c).
Proof. vec_tac. Qed.

Lemma vsum_cons a l : vsum (a :: l) = vadd a (vsum l).
Proof. reflexivity. Qed.

Lemma vsum_map_add {A} (f g : A -> vec) l :
  vsum (map (fun a => vadd (f a) (g a)) l) = vadd (vsum (map f l)) (vsum (map g l)).
Proof.
  induction l as [|x l IH]; cbn [map]; [reflexivity|]. rewrite !vsum_cons, IH.
  generalize (f x) (g x) (vsum (map f l)) (vsum (map g l)). intros. vec_tac.
Qed.

Lemma vsum_ind_zero {A} (p : A -> bool) (g : A -> vec) l :
  (forall a, In a l -> p a = false) -> vsum (map (fun a => if p a then g a else vzero) l) = vzero.
Proof.
  induction l as [|x l IH]; intros H; cbn [map]; [reflexivity|].
  rewrite vsum_cons, H, IH by (try intros; try apply H; simpl; auto). reflexivity.
Qed.

Lemma vsum_ind_one (p : nat -> bool) (g : nat -> vec) l a :
  NoDup l -> In a l -> (forall u, In u l -> (p u = true <-> u = a)) ->
  vsum (map (fun u => if p u then g u else vzero) l) = g a.
Proof.
  intros Hnd; induction Hnd as [|y r Hy Hnd IH]; intros Hin Hp; [destruct Hin|].
  cbn [map]. rewrite vsum_cons. destruct (Nat.eq_dec y a) as [E|E].
  - subst y. replace (p a) with true by (symmetry; apply Hp; simpl; auto).
    rewrite vsum_ind_zero; [apply vadd_zero_r|].
    intros u Hu. destruct (p u) eqn:Epu; [|reflexivity].
    exfalso. apply Hy. apply Hp in Epu; [subst; exact Hu | right; exact Hu].
  - destruct Hin as [Hin|Hin]; [congruence|].
    replace (p y) with false.
    2:{ destruct (p y) eqn:Epy; [|reflexivity]. exfalso. apply E. apply Hp; simpl; auto. }
    rewrite IH; [apply vadd_zero_l | exact Hin |]. intros u Hu. apply Hp. right; exact Hu.
Qed.

Lemma set_nth_same {A} i (l : list A) d : set_nth i (nth i l d) l = l.
Proof. revert i; induction l as [|y r IH]; intros [|i]; simpl; auto. f_equal. apply IH. Qed.

Lemma nth_repeat_lt {A} (a d : A) n i : nth i (repeat a n) a = a.
Proof. revert i; induction n as [|n IH]; intros [|i]; simpl; auto. Qed.

(* --- arr[i] += d --- *)
Lemma vaa_length t i d : length (vec_add_at t i d) = length t.
Proof. unfold vec_add_at. apply set_nth_length. Qed.

Lemma vaa_nth t i d j :
  (j < length t)%nat ->
  nth j (vec_add_at t i d) vzero = if (i =? j)%nat then vadd (nth j t vzero) d else nth j t vzero.
Proof.
  intros H. unfold vec_add_at. rewrite nth_set_nth by exact H.
  destruct (Nat.eqb_spec i j); [subst|]; reflexivity.
Qed.

Lemma vaa_zero t i : vec_add_at t i vzero = t.
Proof. unfold vec_add_at. rewrite vadd_zero_r. apply set_nth_same. Qed.

Lemma vaa_fold_length {A} (ix : A -> nat) (val : A -> vec) l t :
  length (fold_left (fun t a => vec_add_at t (ix a) (val a)) l t) = length t.
Proof.
  revert t; induction l as [|x l IH]; intros t; cbn [fold_left]; [reflexivity|].
  rewrite IH. apply vaa_length.
Qed.

Lemma vaa_fold {A} (ix : A -> nat) (val : A -> vec) l t i :
  (i < length t)%nat ->
  nth i (fold_left (fun t a => vec_add_at t (ix a) (val a)) l t) vzero =
  vadd (nth i t vzero) (vsum (map (fun a => if (ix a =? i)%nat then val a else vzero) l)).
Proof.
  revert t; induction l as [|x l IH]; intros t H; cbn [fold_left map].
  - cbn. symmetry. apply vadd_zero_r.
  - rewrite IH by (rewrite vaa_length; exact H). rewrite vaa_nth by exact H. rewrite vsum_cons.
    destruct (ix x =? i)%nat; [apply vadd_assoc|]. rewrite vadd_zero_l. reflexivity.
Qed.

Lemma vaa2_fold_length {A} (ix1 ix2 : A -> nat) (v1 v2 : A -> vec) l t :
  length (fold_left (fun t a => vec_add_at (vec_add_at t (ix1 a) (v1 a)) (ix2 a) (v2 a)) l t) = length t.
Proof.
  revert t; induction l as [|x l IH]; intros t; cbn [fold_left]; [reflexivity|].
  rewrite IH. rewrite !vaa_length. reflexivity.
Qed.

Lemma vaa2_fold {A} (ix1 ix2 : A -> nat) (v1 v2 : A -> vec) l t i :
  (i < length t)%nat ->
  nth i (fold_left (fun t a => vec_add_at (vec_add_at t (ix1 a) (v1 a)) (ix2 a) (v2 a)) l t) vzero =
  vadd (nth i t vzero)
       (vsum (map (fun a => vadd (if (ix1 a =? i)%nat then v1 a else vzero)
                                 (if (ix2 a =? i)%nat then v2 a else vzero)) l)).
Proof.
  revert t; induction l as [|x l IH]; intros t H; cbn [fold_left map].
  - cbn. symmetry. apply vadd_zero_r.
  - rewrite IH by (rewrite !vaa_length; exact H).
    rewrite vaa_nth by (rewrite vaa_length; exact H). rewrite vaa_nth by exact H.
    rewrite vsum_cons.
    destruct (ix1 x =? i)%nat, (ix2 x =? i)%nat;
      generalize (nth i t vzero) (v1 x) (v2 x)
                 (vsum (map (fun a => vadd (if (ix1 a =? i)%nat then v1 a else vzero)
                                           (if (ix2 a =? i)%nat then v2 a else vzero)) l));
      intros; vec_tac.
Qed.

(* ================================================================== 3. the inner loop *)
Lemma vnonzero_false sh : vnonzero sh = false -> sh = vzero.
Proof.
  destruct sh as [a b]. unfold vnonzero, vzero. cbn [fst snd]. intros H.
  apply orb_false_iff in H as [H1 H2]. apply negb_false_iff in H1, H2.
  apply Z.eqb_eq in H1, H2. subst. reflexivity.
Qed.

(* the guard "if np.any(shifted[u])" is a no-op *)
Lemma corner_step_eq d E F SH rt oc ca oe u :
  corner_step d E F SH rt (oc, ca, oe) u =
  (vec_add_at oc (nth u E 0%nat) (vscale (1 - 2 * Z.of_nat (nth u F 0%nat)) (nth u SH vzero)),
   vec_add_at (vec_add_at ca u (vneg (nth u SH vzero))) (Nat.modulo (u + d - 1) d) (nth u SH vzero),
   oe_write oe (nth u E 0%nat) (1 - nth u F 0%nat)%nat (rt + u)%nat).
Proof.
  unfold corner_step. destruct (vnonzero (nth u SH vzero)) eqn:Hnz; [reflexivity|].
  apply vnonzero_false in Hnz. rewrite Hnz.
  replace (vscale (1 - 2 * Z.of_nat (nth u F 0%nat)) vzero) with vzero
    by (unfold vscale, vzero; cbn [fst snd]; f_equal; lia).
  replace (vneg vzero) with vzero by reflexivity.
  rewrite !vaa_zero. reflexivity.
Qed.

Lemma corner_fold d E F SH rt l oc ca oe :
  fold_left (corner_step d E F SH rt) l (oc, ca, oe) =
  (fold_left (fun t u => vec_add_at t (nth u E 0%nat)
                                    (vscale (1 - 2 * Z.of_nat (nth u F 0%nat)) (nth u SH vzero))) l oc,
   fold_left (fun t u => vec_add_at (vec_add_at t u (vneg (nth u SH vzero)))
                                    (Nat.modulo (u + d - 1) d) (nth u SH vzero)) l ca,
   fold_left (fun t u => oe_write t (nth u E 0%nat) (1 - nth u F 0%nat)%nat (rt + u)%nat) l oe).
Proof.
  rewrite <- fold_left_triple. apply fold_left_ext_in.
  intros [[a b] c] x _. apply corner_step_eq.
Qed.

Lemma pred_mod_iff d u u0 :
  (u < d)%nat -> (u0 < d)%nat -> (Nat.modulo (u + d - 1) d = u0 <-> u = Nat.modulo (u0 + 1) d).
Proof.
  intros Hu Hu0. destruct (Nat.eq_dec (u0 + 1) d) as [E|E].
  - rewrite E, Nat.mod_same by lia. destruct u as [|u].
    + replace (0 + d - 1)%nat with (d - 1)%nat by lia. rewrite Nat.mod_small by lia. lia.
    + replace (S u + d - 1)%nat with (u + 1 * d)%nat by lia.
      rewrite Nat.mod_add, Nat.mod_small by lia. lia.
  - rewrite (Nat.mod_small (u0 + 1)) by lia. destruct u as [|u].
    + replace (0 + d - 1)%nat with (d - 1)%nat by lia. rewrite Nat.mod_small by lia. lia.
    + replace (S u + d - 1)%nat with (u + 1 * d)%nat by lia.
      rewrite Nat.mod_add, Nat.mod_small by lia. lia.
Qed.

(* crossing_around after the loop: ca[u] = shifted[(u+1) mod d] - shifted[u] *)
Lemma ca_fold_spec d (S : nat -> vec) :
  fold_left (fun t u => vec_add_at (vec_add_at t u (vneg (S u))) (Nat.modulo (u + d - 1) d) (S u))
            (seq 0 d) (repeat vzero d)
  = map (fun u => vsub (S (Nat.modulo (u + 1) d)) (S u)) (seq 0 d).
Proof.
  apply (nth_ext _ _ vzero vzero).
  - rewrite vaa2_fold_length, repeat_length, map_length, seq_length. reflexivity.
  - intros u0 Hu0. rewrite vaa2_fold_length, repeat_length in Hu0.
    rewrite vaa2_fold by (rewrite repeat_length; exact Hu0).
    rewrite nth_map_seq by exact Hu0.
    change vzero with (0, 0) at 1. fold vzero. rewrite (nth_repeat_lt vzero vzero).
    rewrite vsum_map_add.
    assert (Hm : (Nat.modulo (u0 + 1) d < d)%nat) by (apply Nat.mod_upper_bound; lia).
    rewrite (vsum_ind_one (fun u => (u =? u0)%nat) (fun u => vneg (S u)) (seq 0 d) u0).
    2: apply seq_NoDup. 2: apply in_seq; lia. 2: intros u _; apply Nat.eqb_eq.
    rewrite (vsum_ind_one (fun u => (Nat.modulo (u + d - 1) d =? u0)%nat) S (seq 0 d) (Nat.modulo (u0 + 1) d)).
    2: apply seq_NoDup. 2: apply in_seq; lia.
    2:{ intros u Hu. apply in_seq in Hu. rewrite Nat.eqb_eq. apply pred_mod_iff; lia. }
    generalize (S u0) (S (Nat.modulo (u0 + 1) d)). intros. vec_tac.
Qed.

(* ================================================================== 4. well-formedness, first_or_second *)
Definition good (L : lattice) : Prop := wf_lattice L = true /\ no_self_loops L = true.

Lemma good_scale L : good L -> 0 < scale L.
Proof.
  intros [Hwf _]. unfold wf_lattice in Hwf.
  apply andb_prop in Hwf as [Hwf _]. apply andb_prop in Hwf as [Hwf _]. apply Z.ltb_lt. exact Hwf.
Qed.

Lemma good_crossing_length L : good L -> length (crossing L) = nE L.
Proof.
  intros [Hwf _]. unfold wf_lattice in Hwf.
  apply andb_prop in Hwf as [Hwf _]. apply andb_prop in Hwf as [_ Hwf]. apply Nat.eqb_eq. exact Hwf.
Qed.

Lemma good_edge L e :
  good L -> (e < nE L)%nat ->
  (fst (edge_at L e) < nV L)%nat /\ (snd (edge_at L e) < nV L)%nat /\ fst (edge_at L e) <> snd (edge_at L e).
Proof.
  intros [Hwf Hnl] He.
  assert (Hin : In (edge_at L e) (edges L)) by (unfold edge_at; apply nth_In; exact He).
  unfold wf_lattice in Hwf. apply andb_prop in Hwf as [_ Hall].
  rewrite forallb_forall in Hall. specialize (Hall _ Hin).
  unfold no_self_loops in Hnl. rewrite forallb_forall in Hnl. specialize (Hnl _ Hin).
  unfold wf_edge in Hall. apply andb_prop in Hall as [H1 H2].
  apply Nat.ltb_lt in H1. apply Nat.ltb_lt in H2.
  apply negb_true_iff, Nat.eqb_neq in Hnl. auto.
Qed.

Lemma incident_b_iff L v e :
  incident_b L v e = true <-> fst (edge_at L e) = v \/ snd (edge_at L e) = v.
Proof.
  unfold incident_b. destruct (edge_at L e) as [j k]. cbn [fst snd].
  rewrite orb_true_iff, !Nat.eqb_eq. reflexivity.
Qed.

Lemma in_sorted_adj_ends L v e :
  In e (sorted_adj L v) <-> (e < nE L)%nat /\ (fst (edge_at L e) = v \/ snd (edge_at L e) = v).
Proof. rewrite in_sorted_adj, incident_b_iff. reflexivity. Qed.

(* first_or_second[u] = 1 if n is the FIRST end of edges_from[u], 0 if it is the second end *)
Definition fosf (L : lattice) (n e : nat) : nat := if (fst (edge_at L e) =? n)%nat then 1%nat else 0%nat.

Lemma first_or_second_map L n l :
  (forall e, In e l -> incident_b L n e = true /\ fst (edge_at L e) <> snd (edge_at L e)) ->
  first_or_second L n l = map (fosf L n) l.
Proof.
  induction l as [|e l IH]; intros H; [reflexivity|].
  unfold first_or_second in *. cbn [flat_map map].
  rewrite IH by (intros e' He'; apply H; right; exact He').
  destruct (H e (or_introl eq_refl)) as [Hinc Hne].
  set (r := map (fosf L n) l). unfold fosf. unfold incident_b in Hinc. destruct (edge_at L e) as [j k]. cbn [fst snd] in *.
  destruct (Nat.eqb_spec j n), (Nat.eqb_spec k n); cbn [orb] in Hinc; try discriminate; try reflexivity.
  congruence.
Qed.

Lemma first_or_second_adj L n :
  good L -> first_or_second L n (sorted_adj L n) = map (fosf L n) (sorted_adj L n).
Proof.
  intros Hg. apply first_or_second_map. intros e He. apply in_sorted_adj in He as [He Hinc].
  split; [exact Hinc|]. apply good_edge; assumption.
Qed.

(* the requested form: same length, entry u is 0 / 1 according to which end n is *)
Lemma first_or_second_spec L n :
  good L ->
  length (first_or_second L n (sorted_adj L n)) = length (sorted_adj L n) /\
  forall u, (u < length (sorted_adj L n))%nat ->
    nth u (first_or_second L n (sorted_adj L n)) 0%nat =
    if (fst (edge_at L (nth u (sorted_adj L n) 0%nat)) =? n)%nat then 1%nat else 0%nat.
Proof.
  intros Hg. rewrite first_or_second_adj by exact Hg. split; [apply map_length|].
  intros u Hu. rewrite (nth_map_in _ _ _ 0%nat) by exact Hu. reflexivity.
Qed.

Lemma fos_nth L n u :
  good L -> (u < length (sorted_adj L n))%nat ->
  nth u (first_or_second L n (sorted_adj L n)) 0%nat = fosf L n (nth u (sorted_adj L n) 0%nat).
Proof. intros Hg Hu. apply (proj2 (first_or_second_spec L n Hg)). exact Hu. Qed.

(* vectors = -(1 - 2*first_or_second) * edge_vectors  is the outward vector *)
Lemma outvec_fosf L n e :
  outvec L n e = vscale (- (1 - 2 * Z.of_nat (fosf L n e))) (evec L e).
Proof.
  unfold outvec, fosf. destruct (fst (edge_at L e) =? n)%nat; generalize (evec L e); intros v; vec_tac.
Qed.

(* ================================================================== 5. one outer iteration, field by field *)
Definition rawc (L : lattice) (n e : nat) : vec := vadd (vscale 3 (pos_at L n)) (outvec L n e).
Definition shf (L : lattice) (n e : nat) : vec := vfloor (3 * scale L) (rawc L n e).
Definition corner (L : lattice) (n e : nat) : vec := vmod (3 * scale L) (rawc L n e).

Definition posblk (L : lattice) (vs : option (list nat)) (n : nat) : list vec :=
  if is_truncated L vs n then map (corner L n) (sorted_adj L n) else [vscale 3 (pos_at L n)].
Definition aeblk_rt (L : lattice) (vs : option (list nat)) (n rt : nat) : list (nat * nat) :=
  if is_truncated L vs n
  then map (fun u => (rt + u, rt + Nat.modulo (u + 1) (length (sorted_adj L n)))%nat)
           (seq 0 (length (sorted_adj L n)))
  else [].
Definition acblk (L : lattice) (vs : option (list nat)) (n : nat) : list vec :=
  if is_truncated L vs n
  then map (fun u => vsub (shf L n (nth (Nat.modulo (u + 1) (length (sorted_adj L n))) (sorted_adj L n) 0%nat))
                          (shf L n (nth u (sorted_adj L n) 0%nat)))
           (seq 0 (length (sorted_adj L n)))
  else [].
Definition oeops (L : lattice) (vs : option (list nat)) (n rt : nat) : list oe_op :=
  map (fun u => (nth u (sorted_adj L n) 0%nat,
                 (1 - fosf L n (nth u (sorted_adj L n) 0%nat))%nat,
                 (rt + (if is_truncated L vs n then u else 0))%nat))
      (seq 0 (length (sorted_adj L n))).
Definition ocstep (L : lattice) (vs : option (list nat)) (n : nat) (oc : list vec) : list vec :=
  if is_truncated L vs n
  then fold_left (fun t e => vec_add_at t e (vscale (1 - 2 * Z.of_nat (fosf L n e)) (shf L n e)))
                 (sorted_adj L n) oc
  else oc.
Definition blklen (L : lattice) (vs : option (list nat)) (n : nat) : nat :=
  if is_truncated L vs n then length (sorted_adj L n) else 1%nat.

Lemma raw_eq L n :
  good L ->
  map (fun u => vadd (vscale 3 (pos_at L n))
                     (vscale (- (1 - 2 * Z.of_nat (nth u (first_or_second L n (sorted_adj L n)) 0%nat)))
                             (evec L (nth u (sorted_adj L n) 0%nat))))
      (seq 0 (length (sorted_adj L n)))
  = map (rawc L n) (sorted_adj L n).
Proof.
  intros Hg.
  transitivity (map (rawc L n) (map (fun u => nth u (sorted_adj L n) 0%nat) (seq 0 (length (sorted_adj L n))))).
  2:{ rewrite <- map_nth_seq. reflexivity. }
  rewrite map_map.
  apply map_ext_in. intros u Hu. apply in_seq in Hu.
  rewrite fos_nth by (try exact Hg; lia). unfold rawc. rewrite outvec_fosf. reflexivity.
Qed.

Lemma vertex_step_eq L vs st n :
  good L ->
  vertex_step L vs st n =
  mkT (t_positions st ++ posblk L vs n)
      (fold_left oe_apply (oeops L vs n (t_total st)) (t_oedges st))
      (ocstep L vs n (t_ocross st))
      (t_aedges st ++ aeblk_rt L vs n (t_total st))
      (t_across st ++ acblk L vs n)
      (t_total st + blklen L vs n)%nat.
Proof.
  intros Hg. unfold vertex_step, posblk, aeblk_rt, acblk, oeops, ocstep, blklen.
  change (in_sel vs n && (2 <? length (sorted_adj L n))%nat) with (is_truncated L vs n).
  destruct (is_truncated L vs n) eqn:Htr.
  - rewrite raw_eq by exact Hg. rewrite corner_fold.
    set (d := length (sorted_adj L n)).
    f_equal.
    + rewrite !map_map. reflexivity.
    + (* original_edges *)
      rewrite fold_left_map. apply fold_left_ext_in. intros t u Hu. apply in_seq in Hu.
      unfold oe_apply. cbn [fst snd]. rewrite fos_nth by (try exact Hg; fold d; lia). reflexivity.
    + (* original_crossing *)
      rewrite (fold_left_nth_seq _ (sorted_adj L n)). fold d.
      apply fold_left_ext_in. intros t u Hu. apply in_seq in Hu.
      rewrite fos_nth by (try exact Hg; fold d; lia).
      rewrite map_map. rewrite (nth_map_in _ _ _ 0%nat vzero) by (fold d; lia). reflexivity.
    + (* added_edges *)
      f_equal. apply map_ext. intros u. f_equal; lia.
    + (* added_crossing *)
      f_equal.
      rewrite (fold_left_ext_in _
                 (fun t u => vec_add_at (vec_add_at t u (vneg (shf L n (nth u (sorted_adj L n) 0%nat))))
                                        (Nat.modulo (u + d - 1) d) (shf L n (nth u (sorted_adj L n) 0%nat)))).
      * apply (ca_fold_spec d (fun u => shf L n (nth u (sorted_adj L n) 0%nat))).
      * intros t u Hu. apply in_seq in Hu. rewrite map_map.
        rewrite (nth_map_in _ _ _ 0%nat vzero) by (fold d; lia). reflexivity.
  - f_equal.
    + rewrite first_or_second_adj by exact Hg.
      rewrite combine_map_r, !fold_left_map, (fold_left_nth_seq _ (sorted_adj L n)).
      apply fold_left_ext_in. intros t u _.
      unfold oe_apply. cbn [fst snd]. f_equal. lia.
    + rewrite app_nil_r. reflexivity.
    + rewrite app_nil_r. reflexivity.
    + lia.
Qed.

(* ================================================================== 6. the outer loop *)
Definition run (L : lattice) (vs : option (list nat)) (n : nat) : tstate :=
  fold_left (vertex_step L vs) (seq 0 n) (init_state L).

Lemma run_S L vs n : run L vs (S n) = vertex_step L vs (run L vs n) n.
Proof. unfold run. rewrite seq_S, fold_left_app. reflexivity. Qed.

Lemma final_state_run L vs : final_state L vs = run L vs (nV L).
Proof. reflexivity. Qed.

Lemma fold_right_add_acc {A} (g : A -> nat) l a :
  fold_right (fun m acc => (g m + acc)%nat) a l = (fold_right (fun m acc => (g m + acc)%nat) 0 l + a)%nat.
Proof. induction l as [|x l IH]; cbn [fold_right]; [reflexivity|]. rewrite IH. lia. Qed.

Lemma base_index_S L vs n : base_index L vs (S n) = (base_index L vs n + blklen L vs n)%nat.
Proof.
  unfold base_index, blklen. rewrite seq_S, fold_right_app. cbn [fold_right].
  rewrite (fold_right_add_acc (fun m => if is_truncated L vs m then length (sorted_adj L m) else 1%nat)).
  cbn [Nat.add]. lia.
Qed.

Lemma base_index_0 L vs : base_index L vs 0 = 0%nat.
Proof. reflexivity. Qed.

(* running_total *)
Lemma run_total L vs n : good L -> t_total (run L vs n) = base_index L vs n.
Proof.
  intros Hg. induction n as [|n IH]; [reflexivity|].
  rewrite run_S, vertex_step_eq by exact Hg. cbn [t_total]. rewrite IH, base_index_S. reflexivity.
Qed.

Definition aeblk (L : lattice) (vs : option (list nat)) (n : nat) : list (nat * nat) :=
  aeblk_rt L vs n (base_index L vs n).

Lemma run_positions L vs n : good L -> t_positions (run L vs n) = flat_map (posblk L vs) (seq 0 n).
Proof.
  intros Hg. induction n as [|n IH]; [reflexivity|].
  rewrite run_S, vertex_step_eq by exact Hg. cbn [t_positions]. rewrite IH, flat_map_seq_S. reflexivity.
Qed.

Lemma run_aedges L vs n : good L -> t_aedges (run L vs n) = flat_map (aeblk L vs) (seq 0 n).
Proof.
  intros Hg. induction n as [|n IH]; [reflexivity|].
  rewrite run_S, vertex_step_eq by exact Hg. cbn [t_aedges].
  rewrite IH, flat_map_seq_S, run_total by exact Hg. reflexivity.
Qed.

Lemma run_across L vs n : good L -> t_across (run L vs n) = flat_map (acblk L vs) (seq 0 n).
Proof.
  intros Hg. induction n as [|n IH]; [reflexivity|].
  rewrite run_S, vertex_step_eq by exact Hg. cbn [t_across]. rewrite IH, flat_map_seq_S. reflexivity.
Qed.

(* --- block lengths --- *)
Definition polylen (L : lattice) (vs : option (list nat)) (n : nat) : nat :=
  if is_truncated L vs n then length (sorted_adj L n) else 0%nat.
(* number of polygon edges created by the vertices below n = sum of deg over truncated vertices below n *)
Definition sumdeg (L : lattice) (vs : option (list nat)) (n : nat) : nat :=
  fold_right (fun m acc => (polylen L vs m + acc)%nat) 0%nat (seq 0 n).
Definition ntrunc (L : lattice) (vs : option (list nat)) (n : nat) : nat :=
  length (filter (is_truncated L vs) (seq 0 n)).

Lemma sumdeg_S L vs n : sumdeg L vs (S n) = (sumdeg L vs n + polylen L vs n)%nat.
Proof.
  unfold sumdeg. rewrite seq_S, fold_right_app. cbn [fold_right].
  rewrite (fold_right_add_acc (polylen L vs)). cbn [Nat.add]. lia.
Qed.

Lemma posblk_length L vs n : length (posblk L vs n) = blklen L vs n.
Proof. unfold posblk, blklen. destruct (is_truncated L vs n); [apply map_length|reflexivity]. Qed.
Lemma aeblk_length L vs n : length (aeblk L vs n) = polylen L vs n.
Proof.
  unfold aeblk, aeblk_rt, polylen. destruct (is_truncated L vs n); [|reflexivity].
  rewrite map_length, seq_length. reflexivity.
Qed.
Lemma acblk_length L vs n : length (acblk L vs n) = polylen L vs n.
Proof.
  unfold acblk, polylen. destruct (is_truncated L vs n); [|reflexivity].
  rewrite map_length, seq_length. reflexivity.
Qed.

Lemma positions_length L vs n : length (flat_map (posblk L vs) (seq 0 n)) = base_index L vs n.
Proof.
  induction n as [|n IH]; [reflexivity|].
  rewrite flat_map_seq_S, app_length, IH, posblk_length, base_index_S. reflexivity.
Qed.
Lemma aedges_length L vs n : length (flat_map (aeblk L vs) (seq 0 n)) = sumdeg L vs n.
Proof.
  induction n as [|n IH]; [reflexivity|].
  rewrite flat_map_seq_S, app_length, IH, aeblk_length, sumdeg_S. reflexivity.
Qed.
Lemma across_length L vs n : length (flat_map (acblk L vs) (seq 0 n)) = sumdeg L vs n.
Proof.
  induction n as [|n IH]; [reflexivity|].
  rewrite flat_map_seq_S, app_length, IH, acblk_length, sumdeg_S. reflexivity.
Qed.

(* closed form of base_index, without nat subtraction *)
Lemma base_index_closed L vs n :
  (base_index L vs n + ntrunc L vs n = n + sumdeg L vs n)%nat.
Proof.
  induction n as [|n IH]; [reflexivity|].
  rewrite base_index_S, sumdeg_S. unfold ntrunc in *. rewrite seq_S, filter_app, app_length.
  cbn [filter Nat.add]. unfold blklen, polylen. destruct (is_truncated L vs n); cbn [length]; lia.
Qed.

(* --- original_edges --- *)
Definition newidx (L : lattice) (vs : option (list nat)) (w e : nat) : nat :=
  (base_index L vs w + (if is_truncated L vs w then pos_in e (sorted_adj L w) else 0))%nat.

Lemma oeops_rows L vs n rt :
  map (fun op : oe_op => fst (fst op)) (oeops L vs n rt) = sorted_adj L n.
Proof. unfold oeops. rewrite map_map. cbn [fst snd]. symmetry. apply map_nth_seq. Qed.

Lemma oeops_in L vs n rt e :
  In e (sorted_adj L n) ->
  In (e, (1 - fosf L n e)%nat, (rt + (if is_truncated L vs n then pos_in e (sorted_adj L n) else 0))%nat)
     (oeops L vs n rt).
Proof.
  intros He. unfold oeops. apply in_map_iff. exists (pos_in e (sorted_adj L n)).
  rewrite nth_pos_in by exact He. split; [reflexivity|]. apply in_seq. pose proof (pos_in_lt _ _ He). lia.
Qed.

Lemma run_oedges_length L vs n : good L -> length (t_oedges (run L vs n)) = nE L.
Proof.
  intros Hg. induction n as [|n IH]; [apply repeat_length|].
  rewrite run_S, vertex_step_eq by exact Hg. cbn [t_oedges]. rewrite oe_fold_length. exact IH.
Qed.

Lemma ltb_S_neq j n : j <> n -> (j <? S n)%nat = (j <? n)%nat.
Proof. intros H. destruct (Nat.ltb_spec j (S n)), (Nat.ltb_spec j n); try reflexivity; lia. Qed.

Lemma run_oedges L vs n e :
  good L -> (e < nE L)%nat ->
  oe_get (t_oedges (run L vs n)) e 0 =
    (if (fst (edge_at L e) <? n)%nat then Some (newidx L vs (fst (edge_at L e)) e) else None) /\
  oe_get (t_oedges (run L vs n)) e 1 =
    (if (snd (edge_at L e) <? n)%nat then Some (newidx L vs (snd (edge_at L e)) e) else None).
Proof.
  intros Hg He. destruct (good_edge L e Hg He) as (_ & _ & Hjk).
  induction n as [|n [IH0 IH1]].
  - unfold oe_get. cbn [run seq fold_left init_state t_oedges Nat.eqb Nat.ltb Nat.leb].
    rewrite (@nth_repeat_lt oe_row (None, None) (None, None)). split; reflexivity.
  - pose proof (run_oedges_length L vs n Hg) as Hlen.
    rewrite run_S, vertex_step_eq by exact Hg. cbn [t_oedges]. rewrite run_total by exact Hg.
    set (j := fst (edge_at L e)) in *. set (k := snd (edge_at L e)) in *.
    destruct (Nat.eq_dec j n) as [Ej|Ej]; [|destruct (Nat.eq_dec k n) as [Ek|Ek]].
    + assert (Hin : In e (sorted_adj L n)) by (apply in_sorted_adj_ends; split; [exact He|left; exact Ej]).
      pose proof (oeops_in L vs n (base_index L vs n) e Hin) as Hop.
      rewrite !(oe_fold_written _ _ _ _ _ _ (eq_ind_r (fun x => (e < x)%nat) He Hlen)
                                (eq_ind_r (fun l => NoDup l) (sorted_adj_NoDup L n) (oeops_rows L vs n _)) Hop).
      assert (Hf : fosf L n e = 1%nat) by (unfold fosf; fold j; rewrite Ej, Nat.eqb_refl; reflexivity).
      rewrite Hf. cbn [Nat.sub Nat.eqb Bool.eqb].
      rewrite (ltb_S_neq k n) by congruence. rewrite Ej.
      replace (n <? S n)%nat with true by (symmetry; apply Nat.ltb_lt; lia).
      split; [reflexivity|exact IH1].
    + assert (Hin : In e (sorted_adj L n)) by (apply in_sorted_adj_ends; split; [exact He|right; exact Ek]).
      pose proof (oeops_in L vs n (base_index L vs n) e Hin) as Hop.
      rewrite !(oe_fold_written _ _ _ _ _ _ (eq_ind_r (fun x => (e < x)%nat) He Hlen)
                                (eq_ind_r (fun l => NoDup l) (sorted_adj_NoDup L n) (oeops_rows L vs n _)) Hop).
      assert (Hf : fosf L n e = 0%nat).
      { unfold fosf; fold j. destruct (Nat.eqb_spec j n); [contradiction|reflexivity]. }
      rewrite Hf. cbn [Nat.sub Nat.eqb Bool.eqb].
      rewrite (ltb_S_neq j n) by exact Ej. rewrite Ek.
      replace (n <? S n)%nat with true by (symmetry; apply Nat.ltb_lt; lia).
      split; [exact IH0|reflexivity].
    + assert (Hnin : ~ In e (map (fun op : oe_op => fst (fst op)) (oeops L vs n (base_index L vs n)))).
      { rewrite oeops_rows, in_sorted_adj_ends. fold j k. tauto. }
      rewrite !oe_fold_untouched by (try exact Hnin; rewrite Hlen; exact He).
      rewrite (ltb_S_neq j n), (ltb_S_neq k n) by assumption. split; assumption.
Qed.

(* --- original_crossing --- *)
Lemma ocstep_length L vs n oc : length (ocstep L vs n oc) = length oc.
Proof. unfold ocstep. destruct (is_truncated L vs n); [apply vaa_fold_length|reflexivity]. Qed.

Lemma ocstep_in L vs n oc e :
  is_truncated L vs n = true -> (e < length oc)%nat -> In e (sorted_adj L n) ->
  nth e (ocstep L vs n oc) vzero =
  vadd (nth e oc vzero) (vscale (1 - 2 * Z.of_nat (fosf L n e)) (shf L n e)).
Proof.
  intros Htr He Hin. unfold ocstep. rewrite Htr.
  rewrite (vaa_fold (fun a : nat => a)) by exact He. f_equal.
  apply (vsum_ind_one (fun a => (a =? e)%nat)
                      (fun a => vscale (1 - 2 * Z.of_nat (fosf L n a)) (shf L n a))).
  - apply sorted_adj_NoDup.
  - exact Hin.
  - intros u _. apply Nat.eqb_eq.
Qed.

Lemma ocstep_notin L vs n oc e :
  (e < length oc)%nat -> ~ In e (sorted_adj L n) -> nth e (ocstep L vs n oc) vzero = nth e oc vzero.
Proof.
  intros He Hnin. unfold ocstep. destruct (is_truncated L vs n); [|reflexivity].
  rewrite (vaa_fold (fun a : nat => a)) by exact He.
  rewrite (vsum_ind_zero (fun a => (a =? e)%nat)); [apply vadd_zero_r|].
  intros a Ha. apply Nat.eqb_neq. intros ->. contradiction.
Qed.

Definition ocspec (L : lattice) (vs : option (list nat)) (n e : nat) : vec :=
  vadd (vadd (cross_at L e)
             (if (fst (edge_at L e) <? n)%nat && is_truncated L vs (fst (edge_at L e))
              then vneg (shf L (fst (edge_at L e)) e) else vzero))
       (if (snd (edge_at L e) <? n)%nat && is_truncated L vs (snd (edge_at L e))
        then shf L (snd (edge_at L e)) e else vzero).

Lemma run_ocross_length L vs n : good L -> length (t_ocross (run L vs n)) = nE L.
Proof.
  intros Hg. induction n as [|n IH]; [apply good_crossing_length; exact Hg|].
  rewrite run_S, vertex_step_eq by exact Hg. cbn [t_ocross]. rewrite ocstep_length. exact IH.
Qed.

Lemma run_ocross L vs n e :
  good L -> (e < nE L)%nat -> nth e (t_ocross (run L vs n)) vzero = ocspec L vs n e.
Proof.
  intros Hg He. destruct (good_edge L e Hg He) as (_ & _ & Hjk).
  induction n as [|n IH].
  - unfold ocspec. cbn [run seq fold_left init_state t_ocross Nat.ltb Nat.leb andb].
    unfold cross_at. generalize (nth e (crossing L) vzero). intros v. vec_tac.
  - pose proof (run_ocross_length L vs n Hg) as Hlen.
    rewrite run_S, vertex_step_eq by exact Hg. cbn [t_ocross].
    unfold ocspec in *.
    set (j := fst (edge_at L e)) in *. set (k := snd (edge_at L e)) in *.
    destruct (Nat.eq_dec j n) as [Ej|Ej]; [|destruct (Nat.eq_dec k n) as [Ek|Ek]].
    + assert (Hin : In e (sorted_adj L n)) by (apply in_sorted_adj_ends; split; [exact He|left; exact Ej]).
      assert (Hf : fosf L n e = 1%nat) by (unfold fosf; fold j; rewrite Ej, Nat.eqb_refl; reflexivity).
      rewrite (ltb_S_neq k n) by congruence.
      rewrite Ej in *. replace (n <? S n)%nat with true by (symmetry; apply Nat.ltb_lt; lia).
      replace (n <? n)%nat with false in IH by (symmetry; apply Nat.ltb_ge; lia).
      cbn [andb] in *.
      destruct (is_truncated L vs n) eqn:Htr.
      * rewrite ocstep_in by (try assumption; rewrite Hlen; exact He). rewrite IH, Hf.
        generalize (cross_at L e) (shf L n e)
                   (if (k <? n)%nat && is_truncated L vs k then shf L k e else vzero).
        intros. vec_tac.
      * unfold ocstep. rewrite Htr. exact IH.
    + assert (Hin : In e (sorted_adj L n)) by (apply in_sorted_adj_ends; split; [exact He|right; exact Ek]).
      assert (Hf : fosf L n e = 0%nat).
      { unfold fosf; fold j. destruct (Nat.eqb_spec j n); [contradiction|reflexivity]. }
      rewrite (ltb_S_neq j n) by exact Ej.
      rewrite Ek in *. replace (n <? S n)%nat with true by (symmetry; apply Nat.ltb_lt; lia).
      replace (n <? n)%nat with false in IH by (symmetry; apply Nat.ltb_ge; lia).
      cbn [andb] in *.
      destruct (is_truncated L vs n) eqn:Htr.
      * rewrite ocstep_in by (try assumption; rewrite Hlen; exact He). rewrite IH, Hf.
        generalize (cross_at L e) (shf L n e)
                   (if (j <? n)%nat && is_truncated L vs j then vneg (shf L j e) else vzero).
        intros. vec_tac.
      * unfold ocstep. rewrite Htr. exact IH.
    + rewrite ocstep_notin.
      * rewrite (ltb_S_neq j n), (ltb_S_neq k n) by assumption. exact IH.
      * rewrite Hlen; exact He.
      * rewrite in_sorted_adj_ends. fold j k. tauto.
Qed.

(* ================================================================== 7. the result, in closed form *)
Definition oe_spec (L : lattice) (vs : option (list nat)) : list (nat * nat) :=
  map (fun e => (newidx L vs (fst (edge_at L e)) e, newidx L vs (snd (edge_at L e)) e)) (seq 0 (nE L)).
Definition oc_spec (L : lattice) (vs : option (list nat)) : list vec :=
  map (ocspec L vs (nV L)) (seq 0 (nE L)).
Definition trunc_spec (L : lattice) (vs : option (list nat)) : lattice :=
  mkLattice (3 * scale L)
            (flat_map (posblk L vs) (seq 0 (nV L)))
            (oe_spec L vs ++ flat_map (aeblk L vs) (seq 0 (nV L)))
            (oc_spec L vs ++ flat_map (acblk L vs) (seq 0 (nV L))).

Lemma all_some_map (l : list (nat * nat)) :
  all_some (map (fun p => (Some (fst p), Some (snd p))) l) = Some l.
Proof.
  induction l as [|[a b] l IH]; [reflexivity|]. cbn [map all_some fst snd]. rewrite IH. reflexivity.
Qed.

Lemma oe_spec_length L vs : length (oe_spec L vs) = nE L.
Proof. unfold oe_spec. rewrite map_length, seq_length. reflexivity. Qed.
Lemma oc_spec_length L vs : length (oc_spec L vs) = nE L.
Proof. unfold oc_spec. rewrite map_length, seq_length. reflexivity. Qed.

Lemma final_oedges L vs :
  good L -> t_oedges (final_state L vs) = map (fun p => (Some (fst p), Some (snd p))) (oe_spec L vs).
Proof.
  intros Hg. rewrite final_state_run.
  apply (nth_ext _ _ (None, None) (None, None)).
  - rewrite run_oedges_length, map_length, oe_spec_length by exact Hg. reflexivity.
  - intros e He. rewrite run_oedges_length in He by exact Hg.
    destruct (good_edge L e Hg He) as (Hj & Hk & _).
    destruct (run_oedges L vs (nV L) e Hg He) as [H0 H1].
    apply Nat.ltb_lt in Hj, Hk. rewrite Hj in H0. rewrite Hk in H1.
    unfold oe_get in H0, H1. cbn [Nat.eqb] in H0, H1.
    rewrite (nth_map_in _ _ _ (0, 0)%nat) by (rewrite oe_spec_length; exact He).
    unfold oe_spec. rewrite nth_map_seq by exact He. cbn [fst snd].
    rewrite <- H0, <- H1. apply surjective_pairing.
Qed.

Lemma final_ocross L vs : good L -> t_ocross (final_state L vs) = oc_spec L vs.
Proof.
  intros Hg. rewrite final_state_run.
  apply (nth_ext _ _ vzero vzero).
  - rewrite run_ocross_length, oc_spec_length by exact Hg. reflexivity.
  - intros e He. rewrite run_ocross_length in He by exact Hg.
    rewrite run_ocross by assumption. unfold oc_spec. rewrite nth_map_seq by exact He. reflexivity.
Qed.

(* The whole function in closed form: it never raises on a well-formed lattice without self-loops
   (every original edge gets both columns written) and its result is [trunc_spec]. *)
Theorem vertices_to_polygon_spec L vs :
  good L -> vertices_to_polygon L vs = Some (trunc_spec L vs).
Proof.
  intros Hg. unfold vertices_to_polygon.
  rewrite final_oedges, all_some_map by exact Hg.
  rewrite final_ocross by exact Hg. rewrite !final_state_run.
  rewrite run_positions, run_aedges, run_across by exact Hg. reflexivity.
Qed.

(* ================================================================== (A) truncate_counts *)
(* (A) bullet 1: running total and number of new positions *)
Theorem truncate_counts_total L vs :
  good L ->
  t_total (final_state L vs) = base_index L vs (nV L) /\
  length (t_positions (final_state L vs)) = base_index L vs (nV L) /\
  (base_index L vs (nV L) + ntrunc L vs (nV L) = nV L + sumdeg L vs (nV L))%nat.
Proof.
  intros Hg. rewrite final_state_run. rewrite run_total, run_positions, positions_length by exact Hg.
  split; [reflexivity|]. split; [reflexivity|]. apply base_index_closed.
Qed.

(* (A) bullet 2: table lengths; sumdeg = sum of deg over the truncated vertices *)
Theorem truncate_counts_lengths L vs :
  good L ->
  length (t_aedges (final_state L vs)) = sumdeg L vs (nV L) /\
  length (t_across (final_state L vs)) = sumdeg L vs (nV L) /\
  length (t_oedges (final_state L vs)) = nE L /\
  length (t_ocross (final_state L vs)) = nE L.
Proof.
  intros Hg. rewrite final_state_run.
  rewrite run_aedges, run_across, aedges_length, across_length, run_oedges_length, run_ocross_length by exact Hg.
  auto.
Qed.

(* (A) bullet 3: the function returns a lattice, with these sizes *)
Theorem truncate_counts_lattice L vs :
  good L ->
  exists L', vertices_to_polygon L vs = Some L' /\
             nE L' = (nE L + sumdeg L vs (nV L))%nat /\
             length (crossing L') = (nE L + sumdeg L vs (nV L))%nat /\
             nV L' = base_index L vs (nV L) /\
             scale L' = 3 * scale L.
Proof.
  intros Hg. exists (trunc_spec L vs). split; [apply vertices_to_polygon_spec; exact Hg|].
  unfold nE, nV, trunc_spec. cbn [edges pos crossing scale].
  rewrite !app_length, oe_spec_length, oc_spec_length, aedges_length, across_length, positions_length.
  auto.
Qed.

Lemma pos_spec_trunc L vs v u :
  (v < nV L)%nat -> is_truncated L vs v = true -> (u < length (sorted_adj L v))%nat ->
  pos_at (trunc_spec L vs) (base_index L vs v + u) = corner L v (nth u (sorted_adj L v) 0%nat).
Proof.
  intros Hv Htr Hu. unfold pos_at, trunc_spec. cbn [pos].
  rewrite <- (positions_length L vs v).
  rewrite nth_flat_map_seq by (try exact Hv; rewrite posblk_length; unfold blklen; rewrite Htr; exact Hu).
  unfold posblk. rewrite Htr. apply nth_map_in. exact Hu.
Qed.

Lemma pos_spec_keep L vs v :
  (v < nV L)%nat -> is_truncated L vs v = false ->
  pos_at (trunc_spec L vs) (base_index L vs v) = vscale 3 (pos_at L v).
Proof.
  intros Hv Htr. unfold pos_at at 1. unfold trunc_spec. cbn [pos].
  rewrite <- (Nat.add_0_r (base_index L vs v)).
  rewrite <- (positions_length L vs v).
  rewrite nth_flat_map_seq by (try exact Hv; rewrite posblk_length; unfold blklen; rewrite Htr; lia).
  unfold posblk. rewrite Htr. reflexivity.
Qed.

(* (A) bullet 4: every new corner is pos[v] + outvec/3 reduced mod 1, i.e. lies in [0,1)^2 *)
Theorem truncate_counts_corners L vs v u :
  good L -> (v < nV L)%nat -> is_truncated L vs v = true -> (u < length (sorted_adj L v))%nat ->
  exists L', vertices_to_polygon L vs = Some L' /\
    let p := nth (base_index L vs v + u) (pos L') vzero in
    p = vmod (3 * scale L)
             (vadd (vscale 3 (pos_at L v)) (outvec L v (nth u (sorted_adj L v) 0%nat))) /\
    0 <= fst p < 3 * scale L /\ 0 <= snd p < 3 * scale L.
Proof.
  intros Hg Hv Htr Hu. exists (trunc_spec L vs). split; [apply vertices_to_polygon_spec; exact Hg|].
  cbv zeta. fold (pos_at (trunc_spec L vs) (base_index L vs v + u)).
  rewrite pos_spec_trunc by assumption. unfold corner, rawc. split; [reflexivity|].
  pose proof (good_scale L Hg) as Hs. unfold vmod. cbn [fst snd].
  split; apply Z.mod_pos_bound; lia.
Qed.

(* (A) bullet 5: vertices that are not truncated keep their position *)
Theorem truncate_counts_untouched L vs v :
  good L -> (v < nV L)%nat -> is_truncated L vs v = false ->
  exists L', vertices_to_polygon L vs = Some L' /\
             pos_at L' (base_index L vs v) = vscale 3 (pos_at L v).
Proof.
  intros Hg Hv Htr. exists (trunc_spec L vs). split; [apply vertices_to_polygon_spec; exact Hg|].
  apply pos_spec_keep; assumption.
Qed.

(* ================================================================== (B) truncate_vectors *)
Lemma corner_eq L w e :
  good L -> corner L w e = vsub (rawc L w e) (vscale (3 * scale L) (shf L w e)).
Proof.
  intros Hg. pose proof (good_scale L Hg) as Hs.
  unfold corner, shf, vmod, vfloor, vsub, vscale. cbn [fst snd].
  f_equal; apply Z.mod_eq; lia.
Qed.

Lemma evec_ends L e :
  evec L e = vadd (vsub (pos_at L (snd (edge_at L e))) (pos_at L (fst (edge_at L e))))
                  (vscale (scale L) (cross_at L e)).
Proof. unfold evec. destruct (edge_at L e). reflexivity. Qed.

Lemma edge_at_spec_orig L vs e :
  (e < nE L)%nat ->
  edge_at (trunc_spec L vs) e = (newidx L vs (fst (edge_at L e)) e, newidx L vs (snd (edge_at L e)) e).
Proof.
  intros He. unfold edge_at at 1. unfold trunc_spec. cbn [edges].
  rewrite app_nth1 by (rewrite oe_spec_length; exact He).
  unfold oe_spec. rewrite nth_map_seq by exact He. reflexivity.
Qed.

Lemma cross_at_spec_orig L vs e :
  (e < nE L)%nat -> cross_at (trunc_spec L vs) e = ocspec L vs (nV L) e.
Proof.
  intros He. unfold cross_at at 1. unfold trunc_spec. cbn [crossing].
  rewrite app_nth1 by (rewrite oc_spec_length; exact He).
  unfold oc_spec. rewrite nth_map_seq by exact He. reflexivity.
Qed.

Lemma pos_newidx L vs w e :
  (w < nV L)%nat -> In e (sorted_adj L w) ->
  pos_at (trunc_spec L vs) (newidx L vs w e) =
  if is_truncated L vs w then corner L w e else vscale 3 (pos_at L w).
Proof.
  intros Hw Hin. unfold newidx. destruct (is_truncated L vs w) eqn:Htr.
  - rewrite pos_spec_trunc by (try assumption; apply pos_in_lt; exact Hin).
    rewrite nth_pos_in by exact Hin. reflexivity.
  - rewrite Nat.add_0_r. apply pos_spec_keep; assumption.
Qed.

(* (B) bullet 1: every original edge keeps its direction; its vector is (1 - k/3) * vector, k = number
   of truncated ends.  In units of 1/(3*scale):  evec L' e = (3 - k) * evec L e. *)
Theorem truncate_vectors_original L vs e :
  good L -> (e < nE L)%nat ->
  exists L', vertices_to_polygon L vs = Some L' /\
    evec L' e =
    vscale (3 - Z.of_nat ((if is_truncated L vs (fst (edge_at L e)) then 1 else 0) +
                          (if is_truncated L vs (snd (edge_at L e)) then 1 else 0)))
           (evec L e).
Proof.
  intros Hg He. exists (trunc_spec L vs). split; [apply vertices_to_polygon_spec; exact Hg|].
  destruct (good_edge L e Hg He) as (Hj & Hk & Hjk).
  unfold evec at 1. rewrite edge_at_spec_orig by exact He.
  rewrite cross_at_spec_orig by exact He.
  rewrite !pos_newidx by (try assumption; apply in_sorted_adj_ends; auto).
  unfold ocspec. apply Nat.ltb_lt in Hj, Hk. rewrite Hj, Hk. cbn [andb].
  rewrite !corner_eq by exact Hg. unfold rawc, outvec.
  rewrite Nat.eqb_refl.
  replace (fst (edge_at L e) =? snd (edge_at L e))%nat with false by (symmetry; apply Nat.eqb_neq; exact Hjk).
  rewrite (evec_ends L e).
  change (scale (trunc_spec L vs)) with (3 * scale L).
  generalize (shf L (fst (edge_at L e)) e) (shf L (snd (edge_at L e)) e).
  generalize (pos_at L (fst (edge_at L e))) (pos_at L (snd (edge_at L e))) (cross_at L e) (scale L).
  intros Pj Pk c S sj sk.
  destruct (is_truncated L vs (fst (edge_at L e))), (is_truncated L vs (snd (edge_at L e)));
    cbn [Nat.add Z.of_nat Pos.of_succ_nat Pos.succ]; destruct Pj, Pk, c, sj, sk;
    unfold vadd, vsub, vscale, vneg, vzero; cbn [fst snd]; f_equal; ring.
Qed.

Lemma edge_at_spec_poly L vs v u :
  (v < nV L)%nat -> is_truncated L vs v = true -> (u < length (sorted_adj L v))%nat ->
  edge_at (trunc_spec L vs) (nE L + sumdeg L vs v + u) =
  (base_index L vs v + u, base_index L vs v + Nat.modulo (u + 1) (length (sorted_adj L v)))%nat.
Proof.
  intros Hv Htr Hu. unfold edge_at, trunc_spec. cbn [edges].
  rewrite <- Nat.add_assoc. rewrite <- (oe_spec_length L vs) at 1. rewrite app_nth2_plus.
  rewrite <- (aedges_length L vs v).
  rewrite nth_flat_map_seq by (try exact Hv; rewrite aeblk_length; unfold polylen; rewrite Htr; exact Hu).
  unfold aeblk, aeblk_rt. rewrite Htr. rewrite nth_map_seq by exact Hu. reflexivity.
Qed.

Lemma cross_at_spec_poly L vs v u :
  (v < nV L)%nat -> is_truncated L vs v = true -> (u < length (sorted_adj L v))%nat ->
  cross_at (trunc_spec L vs) (nE L + sumdeg L vs v + u) =
  vsub (shf L v (nth (Nat.modulo (u + 1) (length (sorted_adj L v))) (sorted_adj L v) 0%nat))
       (shf L v (nth u (sorted_adj L v) 0%nat)).
Proof.
  intros Hv Htr Hu. unfold cross_at, trunc_spec. cbn [crossing].
  rewrite <- Nat.add_assoc. rewrite <- (oc_spec_length L vs) at 1. rewrite app_nth2_plus.
  rewrite <- (across_length L vs v).
  rewrite nth_flat_map_seq by (try exact Hv; rewrite acblk_length; unfold polylen; rewrite Htr; exact Hu).
  unfold acblk. rewrite Htr. rewrite nth_map_seq by exact Hu. reflexivity.
Qed.

(* (B) bullet 2: the polygon around a truncated vertex v.  Its u-th edge has index
   nE + (sum of deg over truncated vertices below v) + u, joins corner u to corner (u+1) mod d, and its
   vector is (w_{u+1} - w_u)/3, w_u the outward vector of the u-th edge of the rotation system at v.
   In units of 1/(3*scale): evec L' = outvec_{u+1} - outvec_u. *)
Theorem truncate_vectors_polygon L vs v u :
  good L -> (v < nV L)%nat -> is_truncated L vs v = true -> (u < length (sorted_adj L v))%nat ->
  exists L', vertices_to_polygon L vs = Some L' /\
    let d := length (sorted_adj L v) in
    let i := (nE L + sumdeg L vs v + u)%nat in
    edge_at L' i = (base_index L vs v + u, base_index L vs v + Nat.modulo (u + 1) d)%nat /\
    evec L' i = vsub (outvec L v (nth (Nat.modulo (u + 1) d) (sorted_adj L v) 0%nat))
                     (outvec L v (nth u (sorted_adj L v) 0%nat)).
Proof.
  intros Hg Hv Htr Hu. exists (trunc_spec L vs). split; [apply vertices_to_polygon_spec; exact Hg|].
  cbv zeta. split; [apply edge_at_spec_poly; assumption|].
  assert (Hm : (Nat.modulo (u + 1) (length (sorted_adj L v)) < length (sorted_adj L v))%nat)
    by (apply Nat.mod_upper_bound; lia).
  unfold evec. rewrite edge_at_spec_poly by assumption.
  rewrite cross_at_spec_poly by assumption.
  rewrite !pos_spec_trunc by assumption.
  rewrite !corner_eq by exact Hg. unfold rawc.
  change (scale (trunc_spec L vs)) with (3 * scale L).
  generalize (shf L v (nth (Nat.modulo (u + 1) (length (sorted_adj L v))) (sorted_adj L v) 0%nat))
             (shf L v (nth u (sorted_adj L v) 0%nat))
             (outvec L v (nth (Nat.modulo (u + 1) (length (sorted_adj L v))) (sorted_adj L v) 0%nat))
             (outvec L v (nth u (sorted_adj L v) 0%nat))
             (pos_at L v) (scale L).
  intros s1 s0 w1 w0 P S. destruct s1, s0, w1, w0, P.
  unfold vadd, vsub, vscale; cbn [fst snd]; f_equal; ring.
Qed.

(* ================================================================== the two goal theorems, assembled *)
Lemma of_spec L vs (P : lattice -> Prop) :
  good L -> (exists L', vertices_to_polygon L vs = Some L' /\ P L') -> P (trunc_spec L vs).
Proof.
  intros Hg (L' & HL' & HP). rewrite vertices_to_polygon_spec in HL' by exact Hg.
  injection HL' as <-. exact HP.
Qed.

(* (A), all bullets.  sumdeg L vs n = sum of deg v over the truncated v < n (polylen v = deg v if truncated else 0),
   ntrunc L vs n = number of truncated v < n. *)
Theorem truncate_counts L vs :
  wf_lattice L = true -> no_self_loops L = true ->
  let st := final_state L vs in
  let N := base_index L vs (nV L) in
  let D := sumdeg L vs (nV L) in
  t_total st = N /\ length (t_positions st) = N /\
  (N + ntrunc L vs (nV L) = nV L + D)%nat /\
  length (t_aedges st) = D /\ length (t_across st) = D /\
  length (t_oedges st) = nE L /\ length (t_ocross st) = nE L /\
  exists L', vertices_to_polygon L vs = Some L' /\
    nE L' = (nE L + D)%nat /\ length (crossing L') = (nE L + D)%nat /\ nV L' = N /\ scale L' = 3 * scale L /\
    (forall v u, (v < nV L)%nat -> is_truncated L vs v = true -> (u < length (sorted_adj L v))%nat ->
       let p := nth (base_index L vs v + u) (pos L') vzero in
       p = vmod (3 * scale L) (vadd (vscale 3 (pos_at L v)) (outvec L v (nth u (sorted_adj L v) 0%nat))) /\
       0 <= fst p < 3 * scale L /\ 0 <= snd p < 3 * scale L) /\
    (forall v, (v < nV L)%nat -> is_truncated L vs v = false ->
       pos_at L' (base_index L vs v) = vscale 3 (pos_at L v)).
Proof.
  intros Hwf Hnl. assert (Hg : good L) by (split; assumption). cbv zeta.
  destruct (truncate_counts_total L vs Hg) as (H1 & H2 & H3).
  destruct (truncate_counts_lengths L vs Hg) as (H4 & H5 & H6 & H7).
  repeat (split; [assumption|]).
  exists (trunc_spec L vs). split; [apply vertices_to_polygon_spec; exact Hg|].
  pose proof (of_spec L vs _ Hg (truncate_counts_lattice L vs Hg)) as (H8 & H9 & H10 & H11).
  repeat (split; [assumption|]). split.
  - intros v u Hv Htr Hu.
    exact (of_spec L vs _ Hg (truncate_counts_corners L vs v u Hg Hv Htr Hu)).
  - intros v Hv Htr.
    exact (of_spec L vs _ Hg (truncate_counts_untouched L vs v Hg Hv Htr)).
Qed.

(* (B), both bullets *)
Theorem truncate_vectors L vs :
  wf_lattice L = true -> no_self_loops L = true ->
  exists L', vertices_to_polygon L vs = Some L' /\
    (forall e, (e < nE L)%nat ->
       evec L' e =
       vscale (3 - Z.of_nat ((if is_truncated L vs (fst (edge_at L e)) then 1 else 0) +
                             (if is_truncated L vs (snd (edge_at L e)) then 1 else 0)))
              (evec L e)) /\
    (forall v u, (v < nV L)%nat -> is_truncated L vs v = true -> (u < length (sorted_adj L v))%nat ->
       let d := length (sorted_adj L v) in
       let i := (nE L + sumdeg L vs v + u)%nat in
       edge_at L' i = (base_index L vs v + u, base_index L vs v + Nat.modulo (u + 1) d)%nat /\
       evec L' i = vsub (outvec L v (nth (Nat.modulo (u + 1) d) (sorted_adj L v) 0%nat))
                        (outvec L v (nth u (sorted_adj L v) 0%nat))).
Proof.
  intros Hwf Hnl. assert (Hg : good L) by (split; assumption).
  exists (trunc_spec L vs). split; [apply vertices_to_polygon_spec; exact Hg|]. split.
  - intros e He. exact (of_spec L vs _ Hg (truncate_vectors_original L vs e Hg He)).
  - intros v u Hv Htr Hu.
    exact (of_spec L vs _ Hg (truncate_vectors_polygon L vs v u Hg Hv Htr Hu)).
Qed.
