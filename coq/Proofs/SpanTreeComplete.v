(* Proofs/SpanTreeComplete.v — completeness of the Prim loop of Model/SpanTree.v: when the
   plaquette graph is connected, every iteration finds a linking edge (no -1 is left in edges_in).
   Invariant (graph_utils.py:117-123): boundary_edges has no repeated entry, every entry is an edge
   of some inside plaquette, and every edge joining an inside plaquette to an outside one is in it. *)
From Coq Require Import List ZArith Bool Arith Lia Permutation.
From Koala Require Import Model.Lattice Model.Flux Model.SpanTree Proofs.FluxFacts Proofs.SpanTreeFacts.
Import ListNotations.
Local Open Scope nat_scope.

(* ------------------------------------------------------------------ counting, np.unique *)
Lemma count_nat_app : forall x l1 l2, count_nat x (l1 ++ l2) = count_nat x l1 + count_nat x l2.
Proof. intros. unfold count_nat. now rewrite filter_app, app_length. Qed.

Lemma count_nat_cons : forall x y l,
  count_nat x (y :: l) = (if x =? y then 1 else 0) + count_nat x l.
Proof. intros. unfold count_nat. simpl. destruct (x =? y); reflexivity. Qed.

Lemma count_nat_zero : forall x l, count_nat x l = 0 <-> ~ In x l.
Proof.
  intros x. induction l as [|y l IH]; [simpl; tauto|].
  rewrite count_nat_cons. destruct (Nat.eqb_spec x y) as [->|N]; simpl.
  - split; [lia|]. intros H. exfalso. apply H. now left.
  - rewrite IH. split; [intros H [E|Hin]; [congruence|tauto]|tauto].
Qed.

Lemma count_nat_nodup : forall x l, NoDup l -> In x l -> count_nat x l = 1.
Proof.
  intros x. induction l as [|y l IH]; intros Hnd Hin; [destruct Hin|].
  inversion Hnd as [|? ? Hn Hnd']; subst. rewrite count_nat_cons.
  destruct (Nat.eqb_spec x y) as [->|N].
  - apply count_nat_zero in Hn. lia.
  - destruct Hin as [E|Hin]; [congruence|]. rewrite IH by assumption. lia.
Qed.

Lemma count_insert_nat : forall x y l, count_nat x (insert_nat y l) = count_nat x (y :: l).
Proof.
  intros x y. induction l as [|z l IH]; [reflexivity|]. simpl insert_nat.
  destruct (y <=? z); [reflexivity|].
  rewrite count_nat_cons, IH, !count_nat_cons. lia.
Qed.

Lemma count_sort_nat : forall x l, count_nat x (sort_nat l) = count_nat x l.
Proof.
  intros x. induction l as [|y l IH]; [reflexivity|].
  simpl sort_nat. rewrite count_insert_nat, !count_nat_cons, IH. reflexivity.
Qed.

Lemma in_uniq1 : forall x l, In x (uniq1 l) <-> count_nat x l = 1.
Proof.
  intros x l. unfold uniq1. rewrite filter_In, Nat.eqb_eq. split; [tauto|].
  intros H. split; [|assumption].
  destruct (in_dec Nat.eq_dec x (sort_nat l)) as [i|n]; [assumption|].
  apply count_nat_zero in n. rewrite count_sort_nat in n. lia.
Qed.

Lemma filter_le1_nodup : forall (P : nat -> bool) m,
  (forall x, P x = true -> count_nat x m <= 1) -> NoDup (filter P m).
Proof.
  intros P. induction m as [|y m IH]; intros H; simpl; [constructor|].
  assert (Hm : forall x, P x = true -> count_nat x m <= 1).
  { intros x Hx. specialize (H x Hx). rewrite count_nat_cons in H. lia. }
  destruct (P y) eqn:Py; [|now apply IH].
  constructor; [|now apply IH].
  intros Hin. apply filter_In in Hin. destruct Hin as [Hin _].
  specialize (H y Py). rewrite count_nat_cons, Nat.eqb_refl in H.
  assert (count_nat y m = 0) by lia. apply count_nat_zero in H0. contradiction.
Qed.

Lemma uniq1_nodup : forall l, NoDup (uniq1 l).
Proof.
  intros l. unfold uniq1. apply filter_le1_nodup.
  intros x Hx. apply Nat.eqb_eq in Hx. rewrite count_sort_nat. lia.
Qed.

(* ------------------------------------------------------------------ the plaquette graph *)
Definition sides (ep : list ep_row) (e a b : nat) : Prop :=
  two_sided ep e = Some (a, b) \/ two_sided ep e = Some (b, a).

Inductive gconn (ep : list ep_row) : nat -> nat -> Prop :=
| gconn_refl : forall q, gconn ep q q
| gconn_step : forall q a b e, gconn ep q a -> sides ep e a b -> gconn ep q b.

(* "a lattice whose plaquettes are connected through shared edges" *)
Definition plaquette_graph_connected (ep : list ep_row) (F : nat) : Prop :=
  forall q, q < F -> gconn ep 0 q.

Lemma crossing_edge : forall ep pin s q,
  gconn ep s q -> In s pin -> ~ In q pin ->
  exists e a b, sides ep e a b /\ In a pin /\ ~ In b pin.
Proof.
  intros ep pin s q H. induction H as [q|q a b e Hp IH Hs]; intros Hin Hout; [contradiction|].
  destruct (in_dec Nat.eq_dec a pin) as [Ha|Ha].
  - exists e, a, b. auto.
  - apply IH; assumption.
Qed.

Lemma sides_is_side : forall ep e a b q, sides ep e a b -> (is_side ep e q = true <-> q = a \/ q = b).
Proof.
  intros ep e a b q [H|H]; rewrite (is_side_two_sided _ _ _ _ q H); tauto.
Qed.

(* ------------------------------------------------------------------ the loop invariant *)
Section Complete.
Variable ep : list ep_row.
Variable pes : list (list nat).
Hypothesis Hagree : tables_agree ep pes.
Hypothesis Hnodup : forall q, q < length pes -> NoDup (nth q pes []).

Record inv (pin bnd : list nat) : Prop := {
  inv_pin_nd : NoDup pin;
  inv_pin_lt : forall x, In x pin -> x < length pes;
  inv_bnd_nd : NoDup bnd;
  inv_own : forall e, In e bnd -> exists x, In x pin /\ In e (nth x pes []);
  inv_cross : forall e a b, sides ep e a b -> In a pin -> ~ In b pin -> In e bnd
}.

Lemma side_in_edges : forall e a b, sides ep e a b -> In e (nth a pes []) /\ In e (nth b pes []).
Proof.
  intros e a b Hs. destruct Hagree as [Hr Hside].
  assert (Hlt : a < length pes /\ b < length pes).
  { destruct Hs as [H|H]; destruct (Hr _ _ _ H); auto. }
  split; apply Hside; try tauto; apply (sides_is_side _ _ _ _ _ Hs); auto.
Qed.

Lemma edge_owner_is_side : forall e a b x,
  sides ep e a b -> x < length pes -> In e (nth x pes []) -> x = a \/ x = b.
Proof.
  intros e a b x Hs Hx Hin. destruct Hagree as [_ Hside].
  apply (sides_is_side _ _ _ _ x Hs). now apply Hside.
Qed.

Lemma inv_init : 0 < length pes -> inv [0] (nth 0 pes []).
Proof.
  intros HF. constructor.
  - constructor; [intros []|constructor].
  - intros x [<-|[]]. exact HF.
  - now apply Hnodup.
  - intros e He. exists 0. split; [now left|assumption].
  - intros e a b Hs [<-|[]] _. apply (side_in_edges e 0 b Hs).
Qed.

Lemma inv_step : forall pin bnd e q,
  inv pin bnd -> link_ok ep pin (e, q) -> inv (pin ++ [q]) (uniq1 (bnd ++ nth q pes [])).
Proof.
  intros pin bnd e q HI (a & b & H2 & Hnot & Hcase). simpl in *.
  destruct HI as [Hpn Hpl Hbn Hown Hcross].
  destruct Hagree as [Hr Hside].
  assert (Hq : q < length pes) by (destruct (Hr _ _ _ H2); destruct Hcase as [[-> _]|[-> _]]; assumption).
  constructor.
  - apply Permutation_NoDup with (l := q :: pin); [apply Permutation_cons_append|now constructor].
  - intros x Hx. apply in_app_or in Hx. destruct Hx as [Hx|[<-|[]]]; auto.
  - apply uniq1_nodup.
  - intros f Hf. apply in_uniq1 in Hf.
    assert (Hin : In f (bnd ++ nth q pes [])).
    { destruct (in_dec Nat.eq_dec f (bnd ++ nth q pes [])) as [i|n]; [assumption|].
      apply count_nat_zero in n. lia. }
    apply in_app_or in Hin. destruct Hin as [Hin|Hin].
    + destruct (Hown f Hin) as (x & Hx & Hfx). exists x. split; [apply in_or_app; now left|assumption].
    + exists q. split; [apply in_or_app; right; now left|assumption].
  - intros f x y Hs Hx Hy. apply in_uniq1. rewrite count_nat_app.
    assert (Hyq : y <> q) by (intros ->; apply Hy; apply in_or_app; right; now left).
    assert (Hy' : ~ In y pin) by (intros H; apply Hy; apply in_or_app; now left).
    apply in_app_or in Hx. destruct Hx as [Hx|[E|[]]].
    + (* x was already inside: f is an old boundary edge and not an edge of q *)
      rewrite (count_nat_nodup f bnd Hbn (Hcross f x y Hs Hx Hy')).
      assert (Hnq : ~ In f (nth q pes [])).
      { intros Hin. destruct (edge_owner_is_side f x y q Hs Hq Hin) as [->| ->]; [contradiction|congruence]. }
      apply count_nat_zero in Hnq. lia.
    + (* x is the new plaquette: f is one of its edges and was not a boundary edge *)
      subst x. destruct (side_in_edges f q y Hs) as [Hfx _].
      rewrite (count_nat_nodup f _ (Hnodup q Hq) Hfx).
      assert (Hnb : ~ In f bnd).
      { intros Hin. destruct (Hown f Hin) as (z & Hz & Hfz).
        destruct (edge_owner_is_side f q y z Hs (Hpl z Hz) Hfz) as [->| ->]; contradiction. }
      apply count_nat_zero in Hnb. lia.
Qed.

Lemma find_link_complete : forall pin cands e a b,
  In e cands -> sides ep e a b -> In a pin -> ~ In b pin ->
  exists r, find_link ep pin cands = Some r.
Proof.
  intros pin. induction cands as [|c r IH]; intros e a b Hin Hs Ha Hb; [destruct Hin|].
  simpl. destruct (two_sided ep c) as [[x y]|] eqn:E.
  - destruct ((negb (memb x pin) || negb (memb y pin)) && (memb x pin || memb y pin)) eqn:T; [eexists; reflexivity|].
    destruct Hin as [->|Hin]; [|eapply IH; eauto].
    exfalso. apply memb_In in Ha. apply memb_false in Hb.
    destruct Hs as [H|H]; rewrite H in E; inversion E; subst; rewrite Ha, Hb in T; discriminate.
  - destruct Hin as [->|Hin]; [|eapply IH; eauto].
    destruct Hs as [H|H]; rewrite H in E; discriminate.
Qed.

Lemma outside_exists : forall pin, NoDup pin -> length pin < length pes ->
  exists q, q < length pes /\ ~ In q pin.
Proof.
  intros pin Hnd Hlen.
  destruct (forallb (fun q => memb q pin) (seq 0 (length pes))) eqn:E.
  - exfalso. rewrite forallb_forall in E.
    assert (Hincl : incl (seq 0 (length pes)) pin).
    { intros q Hq. apply memb_In. now apply E. }
    pose proof (NoDup_incl_length (seq_NoDup (length pes) 0) Hincl) as H. rewrite seq_length in H. lia.
  - assert (H : exists q, In q (seq 0 (length pes)) /\ memb q pin = false).
    { clear Hlen. induction (seq 0 (length pes)) as [|q l IH]; [discriminate|].
      simpl in E. destruct (memb q pin) eqn:M.
      - simpl in E. destruct (IH E) as (q' & Hq' & Hm). exists q'. split; [now right|assumption].
      - exists q. split; [now left|assumption]. }
    destruct H as (q & Hq & Hm). exists q. apply in_seq in Hq. split; [lia|now apply memb_false].
Qed.

Variable order : order_fn.
Hypothesis Horder : forall n b, incl b (order n b).
Hypothesis Hconn : plaquette_graph_connected ep (length pes).

Lemma tree_loop_complete : forall iters n pin bnd,
  inv pin bnd -> In 0 pin -> length pin + iters <= length pes ->
  exists l, all_some (tree_loop order ep pes n iters pin bnd) = Some l.
Proof.
  induction iters as [|k IH]; intros n pin bnd HI H0 Hlen; simpl; [eexists; reflexivity|].
  destruct (outside_exists pin (inv_pin_nd _ _ HI)) as (q & Hq & Hout); [lia|].
  destruct (crossing_edge ep pin 0 q (Hconn q Hq) H0 Hout) as (e & a & b & Hs & Ha & Hb).
  pose proof (inv_cross _ _ HI e a b Hs Ha Hb) as Hbnd.
  destruct (find_link_complete pin (order n bnd) e a b (Horder n bnd e Hbnd) Hs Ha Hb) as [[e' q'] Hf].
  rewrite Hf. destruct (find_link_spec _ _ _ _ _ Hf) as [_ Hl].
  destruct (IH (S n) (pin ++ [q']) (uniq1 (bnd ++ nth q' pes [])) (inv_step _ _ _ _ HI Hl)) as [l Hl'].
  - apply in_or_app. now left.
  - rewrite app_length. simpl. lia.
  - simpl. rewrite Hl'. eexists. reflexivity.
Qed.

End Complete.

(* every iteration finds a linking edge *)
Lemma spanning_tree_complete : forall (order : order_fn) ep pes t,
  tables_agree ep pes ->
  (forall q, q < length pes -> NoDup (nth q pes [])) ->
  (forall n b, incl b (order n b)) ->
  plaquette_graph_connected ep (length pes) ->
  plaquette_spanning_tree order ep pes = Some t -> exists tree, all_some t = Some tree.
Proof.
  intros order ep pes t Hag Hnd Hord Hconn Ht. unfold plaquette_spanning_tree, spanning_trace in Ht.
  destruct pes as [|p0 pes'] eqn:Epes; [discriminate|]. rewrite <- Epes in *.
  simpl in Ht. inversion Ht; subst t. clear Ht.
  assert (HF : 0 < length pes) by (rewrite Epes; simpl; lia).
  destruct (tree_loop_complete ep pes Hag Hnd order Hord Hconn (length pes - 1) 0 [0] p0) as [l Hl].
  - pose proof (inv_init ep pes Hag Hnd HF) as Hi. rewrite Epes in Hi. simpl in Hi. rewrite Epes. exact Hi.
  - now left.
  - simpl. lia.
  - revert l Hl. generalize (tree_loop order ep pes 0 (length pes - 1) [0] p0).
    induction l as [|[[e q]|] l IH]; intros r Hr; simpl in *; try discriminate.
    + eexists; reflexivity.
    + destruct (all_some l) as [r'|]; [|discriminate]. destruct (IH r' eq_refl) as [tree Ht].
      rewrite Ht. eexists; reflexivity.
Qed.

(* tree_spec without the proviso: connected plaquette graph => the routine returns a spanning tree *)
Lemma tree_spec_complete : forall (order : order_fn) ep pes t,
  tables_agree ep pes ->
  (forall q, q < length pes -> NoDup (nth q pes [])) ->
  (forall n b, incl b (order n b)) ->
  plaquette_graph_connected ep (length pes) ->
  plaquette_spanning_tree order ep pes = Some t ->
  exists tree, all_some t = Some tree /\ spanning ep (length pes) tree.
Proof.
  intros order ep pes t Hag Hnd Hord Hconn Ht.
  destruct (spanning_tree_complete order ep pes t Hag Hnd Hord Hconn Ht) as [tree Hall].
  exists tree. split; [assumption|]. destruct Hag as [Hr _]. eapply tree_spec; eauto.
Qed.

(* the three oracles used by the harness scan every boundary edge *)
Lemma order_id_incl : forall n b, incl b (order_id n b).
Proof. intros n b. apply incl_refl. Qed.

Lemma order_front_incl : forall choice n b, incl b (order_front choice n b).
Proof.
  intros choice n b. unfold order_front. destruct (nth_error choice n); [apply incl_tl|]; apply incl_refl.
Qed.

Lemma insert_key_in : forall key x l y, In y (insert_key key x l) <-> y = x \/ In y l.
Proof.
  intros key x. induction l as [|z l IH]; intros y; simpl; [intuition|].
  destruct (Z.leb (key x) (key z)); simpl; [intuition|]. rewrite IH. intuition.
Qed.

Lemma order_by_key_incl : forall keys n b, incl b (order_by_key keys n b).
Proof.
  intros keys n b. unfold order_by_key, sort_key. induction b as [|x b IH]; [apply incl_refl|].
  intros y Hy. simpl. apply insert_key_in. destruct Hy as [->|Hy]; [now left|right; now apply IH].
Qed.

(* a spanning tree witnesses connectivity of the plaquette graph (used for non-vacuity) *)
Lemma tconn_gconn : forall ep tree a b, tconn ep tree a b -> gconn ep a b.
Proof.
  intros ep tree a b H. induction H as [q|q x y e Hp IH Hin Hs]; [constructor|].
  eapply gconn_step; [exact IH|exact Hs].
Qed.

Lemma spanning_connected : forall ep F tree, spanning ep F tree -> plaquette_graph_connected ep F.
Proof.
  intros ep F tree (_ & _ & _ & Hc) q Hq. eapply tconn_gconn. now apply Hc.
Qed.
