(* Proofs/TablesFacts.v — facts about the constructor-time tables of Model/Lattice.v (C02):
   vectors, coordination numbers, edge neighbours, adjacency matrix. *)
From Coq Require Import List ZArith Bool Arith Lia ZifyBool Permutation Sorted.
From Koala Require Import Model.Lattice.
Import ListNotations.

(* ---------- vectors ---------- *)
Lemma vectors_length : forall L, length (vectors L) = nE L.
Proof. intros L. unfold vectors. now rewrite map_length, seq_length. Qed.

Lemma vectors_nth : forall L e, (e < nE L)%nat -> nth e (vectors L) vzero = evec L e.
Proof.
  intros L e He. unfold vectors.
  rewrite nth_indep with (d' := evec L 0%nat) by now rewrite map_length, seq_length.
  rewrite map_nth, seq_nth by assumption. reflexivity.
Qed.

Lemma vectors_def_lemma : forall L,
  length (vectors L) = nE L /\
  forall e, (e < nE L)%nat ->
    nth e (vectors L) vzero =
    vadd (vsub (pos_at L (snd (edge_at L e))) (pos_at L (fst (edge_at L e))))
         (vscale (scale L) (cross_at L e)).
Proof.
  intros L. split. apply vectors_length.
  intros e He. rewrite vectors_nth by assumption. unfold evec. now destruct (edge_at L e).
Qed.

(* ---------- coordination ---------- *)
Definition ends_at (v : nat) (es : list (nat * nat)) : nat :=
  (length (filter (fun e => fst e =? v) es) + length (filter (fun e => snd e =? v) es))%nat.

Lemma count_ends_spec : forall L v, count_ends L v = ends_at v (edges L).
Proof.
  intros L v. unfold count_ends, ends_at. induction (edges L) as [|e r IH]; simpl. reflexivity.
  rewrite IH. destruct (fst e =? v)%nat, (snd e =? v)%nat; simpl; lia.
Qed.

Lemma coordination_lemma : forall L,
  length (coordination L) = nV L /\
  forall v, (v < nV L)%nat -> nth v (coordination L) 0%nat = ends_at v (edges L).
Proof.
  intros L. unfold coordination. split. now rewrite map_length, seq_length.
  intros v Hv. rewrite nth_indep with (d' := count_ends L 0%nat) by now rewrite map_length, seq_length.
  rewrite map_nth, seq_nth by assumption. apply count_ends_spec.
Qed.

(* ---------- edge neighbours ---------- *)
Lemma edge_neighbours_in : forall L e f,
  In f (edge_neighbours L e) <->
  (f < nE L)%nat /\ f <> e /\ share_vertex (edge_at L e) (edge_at L f) = true.
Proof.
  intros L e f. unfold edge_neighbours. rewrite filter_In, in_seq.
  rewrite andb_true_iff, negb_true_iff, Nat.eqb_neq. intuition lia.
Qed.

Lemma filter_seq_sorted : forall (p : nat -> bool) n s,
  StronglySorted lt (filter p (seq s n)).
Proof.
  intros p n. induction n as [|n IH]; intros s; simpl. constructor.
  destruct (p s). 2: apply IH.
  constructor. apply IH.
  apply Forall_forall. intros x Hx. apply filter_In in Hx. destruct Hx as [Hx _].
  apply in_seq in Hx. lia.
Qed.

Lemma edge_neighbours_sorted : forall L e, StronglySorted lt (edge_neighbours L e).
Proof. intros. apply filter_seq_sorted. Qed.

Lemma edge_neighbours_nodup : forall L e, NoDup (edge_neighbours L e).
Proof. intros. apply NoDup_filter, seq_NoDup. Qed.

Lemma share_vertex_spec : forall a b,
  share_vertex a b = true <->
  (fst a = fst b \/ fst a = snd b \/ snd a = fst b \/ snd a = snd b).
Proof.
  intros a b. unfold share_vertex. rewrite !orb_true_iff, !Nat.eqb_eq. tauto.
Qed.

Lemma edge_neighbours_exact_lemma : forall L e,
  (forall f, In f (edge_neighbours L e) <->
     (f < nE L)%nat /\ f <> e /\
     (fst (edge_at L e) = fst (edge_at L f) \/ fst (edge_at L e) = snd (edge_at L f) \/
      snd (edge_at L e) = fst (edge_at L f) \/ snd (edge_at L e) = snd (edge_at L f)))
  /\ NoDup (edge_neighbours L e) /\ StronglySorted lt (edge_neighbours L e).
Proof.
  intros L e. split; [|split]. 
  - intros f. rewrite edge_neighbours_in, share_vertex_spec. tauto.
  - apply edge_neighbours_nodup.
  - apply edge_neighbours_sorted.
Qed.

(* ---------- adjacency matrix ---------- *)
Lemma adjacency_true_spec : forall L i j,
  adjacency_true L i j = true <-> (In (i, j) (edges L) \/ In (j, i) (edges L)).
Proof.
  intros L i j. unfold adjacency_true. rewrite existsb_exists. split.
  - intros [[a b] [Hin H]]. simpl in H.
    rewrite orb_true_iff, !andb_true_iff, !Nat.eqb_eq in H.
    destruct H as [[-> ->]|[-> ->]]; auto.
  - intros [H|H]; [exists (i, j)|exists (j, i)]; (split; [assumption|]); simpl;
      rewrite !Nat.eqb_refl; simpl; auto using orb_true_r.
Qed.

Lemma adjacency_sym_exact_lemma : forall L i j,
  adjacency_true L i j = adjacency_true L j i /\
  (adjacency_true L i j = true <-> (In (i, j) (edges L) \/ In (j, i) (edges L))).
Proof.
  intros L i j. split. 2: apply adjacency_true_spec.
  apply eq_true_iff_eq. rewrite !adjacency_true_spec. tauto.
Qed.

(* the bincount-without-minlength version (as coded before fix 6a0729e) is NOT one entry per vertex *)
Lemma coordination_bincount_short :
  exists L v, wf_lattice L = true /\ (v < nV L)%nat /\ nth_error (coordination_bincount L) v = None.
Proof.
  exists (mkLattice 1 [(0,0);(4,0);(2,3);(3,1)]%Z [(0,1);(1,2);(2,0)]%nat [(0,0);(0,0);(0,0)]%Z), 3%nat.
  vm_compute. repeat split; auto.
Qed.
