(* Proofs/TablesFacts.v — facts about the constructor-time tables of Model/Lattice.v (C02):
   vectors, coordination numbers, edge neighbours, adjacency matrix. *)
From Coq Require Import List ZArith Bool Arith Lia ZifyBool Permutation.
From Koala Require Import Model.Lattice.
Import ListNotations.

(* ---------- vectors ---------- *)
Lemma vectors_length : forall L, length (vectors L) = nE L.
Proof. intros L. unfold vectors. now rewrite map_length, seq_length. Qed.

Lemma vectors_nth : forall L e, (e < nE L)%nat -> nth e (vectors L) vzero = evec L e.
Proof.
  intros L e He. unfold vectors.
  rewrite nth_indep with (d' := evec L 0%nat) by now rewrite map_length, seq_length.
  rewrite map_nth, seq_nth by assumption. reflexivity.
Qed.

Lemma vectors_def_lemma : forall L,
  length (vectors L) = nE L /\
  forall e, (e < nE L)%nat ->
    nth e (vectors L) vzero =
    vadd (vsub (pos_at L (snd (edge_at L e))) (pos_at L (fst (edge_at L e))))
         (vscale (scale L) (cross_at L e)).
Proof.
  intros L. split. apply vectors_length.
  intros e He. rewrite vectors_nth by assumption. unfold evec. now destruct (edge_at L e).
Qed.

(* ---------- coordination ---------- *)
Definition ends_at (v : nat) (es : list (nat * nat)) : nat :=
  (length (filter (fun e => fst e =? v) es) + length (filter (fun e => snd e =? v) es))%nat.

Lemma count_ends_spec : forall L v, count_ends L v = ends_at v (edges L).
Proof.
  intros L v. unfold count_ends, ends_at. induction (edges L) as [|e r IH]; simpl. reflexivity.
  rewrite IH. destruct (fst e =? v)%nat, (snd e =? v)%nat; simpl; lia.
Qed.

Lemma coordination_lemma : forall L,
  length (coordination L) = nV L /\
  forall v, (v < nV L)%nat -> nth v (coordination L) 0%nat = ends_at v (edges L).
Proof.
  intros L. unfold coordination. split. now rewrite map_length, seq_length.
  intros v Hv. rewrite nth_indep with (d' := count_ends L 0%nat) by now rewrite map_length, seq_length.
  rewrite map_nth, seq_nth by assumption. apply count_ends_spec.
Qed.
