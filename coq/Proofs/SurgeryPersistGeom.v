(* Proofs/SurgeryPersistGeom.v — "same geometry" for C12's persistence clause: the polygon of a rotated
   face walk is the rotated polygon shifted by a lattice translation (scale * integer vector: the periodic
   image through which the new start vertex is seen), hence twice-the-area is unchanged and the centroid
   numerator changes by 3 * area2 * (that translation), i.e. the centre moves by that lattice translation. *)
From Coq Require Import List ZArith Bool Arith Lia ZifyBool Permutation.
From Koala Require Import Model.Lattice.
From Koala Require Import Proofs.LatticeFacts Proofs.SurgeryPersistLists.
Import ListNotations.
Open Scope Z_scope.

Fixpoint zsum (l : list Z) : Z := match l with [] => 0 | a :: r => a + zsum r end.

Lemma zsum_fold l : fold_right Z.add 0 l = zsum l.
Proof. induction l as [|a l IH]; [reflexivity|]. cbn [fold_right zsum]. rewrite IH. reflexivity. Qed.

Lemma zsum_app l1 l2 : zsum (l1 ++ l2) = zsum l1 + zsum l2.
Proof. induction l1 as [|a l1 IH]; cbn [app zsum]; [lia|]. rewrite IH. lia. Qed.

Lemma zsum_rotl l : zsum (rotl l) = zsum l.
Proof. destruct l as [|a l]; [reflexivity|]. cbn [rotl]. rewrite zsum_app. cbn [zsum]. lia. Qed.

Lemma zsum_map_add {A} (f g : A -> Z) l : zsum (map (fun x => f x + g x) l) = zsum (map f l) + zsum (map g l).
Proof. induction l as [|a l IH]; cbn [map zsum]; [lia|]. rewrite IH. lia. Qed.

Lemma zsum_map_scale {A} k (f : A -> Z) l : zsum (map (fun x => k * f x) l) = k * zsum (map f l).
Proof. induction l as [|a l IH]; cbn [map zsum]; [lia|]. rewrite IH. lia. Qed.

Lemma zsum_tele {A} (g : A -> Z) (l1 : list A) : forall l2, length l1 = length l2 ->
  zsum (map (fun pq => g (fst pq) - g (snd pq)) (combine l1 l2)) = zsum (map g l1) - zsum (map g l2).
Proof.
  induction l1 as [|a l1 IH]; intros [|b l2] H; try discriminate; [reflexivity|].
  cbn [combine map zsum fst snd]. injection H as H. rewrite (IH l2 H). lia.
Qed.

Definition cyc {A} (l : list A) : list (A * A) := combine l (rotl l).

Lemma zsum_cyc_tele {A} (g : A -> Z) l : zsum (map (fun pq => g (fst pq) - g (snd pq)) (cyc l)) = 0.
Proof.
  unfold cyc. rewrite zsum_tele by (symmetry; apply rotl_length).
  rewrite map_rotl, zsum_rotl. lia.
Qed.

Lemma combine_app_eq {A B} (l1 : list A) : forall (l2 : list B) l1' l2', length l1 = length l2 ->
  combine (l1 ++ l1') (l2 ++ l2') = combine l1 l2 ++ combine l1' l2'.
Proof.
  induction l1 as [|a l1 IH]; intros [|b l2] l1' l2' H; try discriminate; [reflexivity|].
  cbn [app combine]. injection H as H. rewrite IH by exact H. reflexivity.
Qed.

Lemma cyc_rotl {A} (l : list A) : cyc (rotl l) = rotl (cyc l).
Proof.
  destruct l as [|a r]; [reflexivity|]. destruct r as [|b r]; [reflexivity|].
  change (cyc (rotl (a :: b :: r))) with (combine ((b :: r) ++ [a]) ((r ++ [a]) ++ [b])).
  change (rotl (cyc (a :: b :: r))) with (combine (b :: r) (r ++ [a]) ++ combine [a] [b]).
  apply combine_app_eq. rewrite app_length. cbn [length]. lia.
Qed.

Lemma cyc_map {A B} (f : A -> B) l : cyc (map f l) = map (fun pq => (f (fst pq), f (snd pq))) (cyc l).
Proof.
  unfold cyc. rewrite <- map_rotl. generalize (rotl l) as l2. induction l as [|a l IH]; intros [|b l2]; try reflexivity.
  cbn [map combine fst snd]. rewrite IH. reflexivity.
Qed.

(* the cyclic sum of F over the translated polygon, when F(T+d,T+e) = F(d,e) + k*C(d,e) + (h d - h e) *)
Lemma zsum_cyc_shift (T : vec) (F' F C : vec -> vec -> Z) (h : vec -> Z) (k : Z) pts :
  (forall d e, F' (vadd T d) (vadd T e) = F d e + k * C d e + (h d - h e)) ->
  zsum (map (fun pq => F' (fst pq) (snd pq)) (cyc (map (vadd T) pts)))
  = zsum (map (fun pq => F (fst pq) (snd pq)) (cyc pts)) + k * zsum (map (fun pq => C (fst pq) (snd pq)) (cyc pts)).
Proof.
  intros H. rewrite cyc_map, map_map. cbn [fst snd].
  rewrite (map_ext _ (fun pq => (F (fst pq) (snd pq) + k * C (fst pq) (snd pq)) + (h (fst pq) - h (snd pq)))) by (intros pq; apply H).
  rewrite zsum_map_add, zsum_map_add, zsum_map_scale, zsum_cyc_tele. lia.
Qed.

Lemma area2_zsum pts : area2 pts = zsum (map (fun pq => vcross (fst pq) (snd pq)) (cyc pts)).
Proof. unfold area2. rewrite zsum_fold. reflexivity. Qed.

Lemma vsum_components l : vsum l = (zsum (map fst l), zsum (map snd l)).
Proof.
  induction l as [|a l IH]; [reflexivity|]. rewrite vsum_cons, IH. unfold vadd. cbn [map zsum fst snd]. reflexivity.
Qed.

Definition cx (d e : vec) : Z := vcross d e * (fst d + fst e).
Definition cy (d e : vec) : Z := vcross d e * (snd d + snd e).

Lemma centroid_components pts :
  centroid_num pts = (zsum (map (fun pq => cx (fst pq) (snd pq)) (cyc pts)),
                      zsum (map (fun pq => cy (fst pq) (snd pq)) (cyc pts))).
Proof.
  unfold centroid_num. rewrite vsum_components, !map_map. reflexivity.
Qed.

Lemma area2_rotl pts : area2 (rotl pts) = area2 pts.
Proof. rewrite !area2_zsum, cyc_rotl, map_rotl, zsum_rotl. reflexivity. Qed.

Lemma centroid_rotl pts : centroid_num (rotl pts) = centroid_num pts.
Proof. rewrite !centroid_components, cyc_rotl, !map_rotl, !zsum_rotl. reflexivity. Qed.

Lemma area2_shift T pts : area2 (map (vadd T) pts) = area2 pts.
Proof.
  rewrite !area2_zsum.
  rewrite (zsum_cyc_shift T vcross vcross vcross (fun q => vcross q T) 0).
  - lia.
  - intros d e. unfold vcross, vadd. cbn [fst snd]. ring.
Qed.

Lemma centroid_shift T pts :
  centroid_num (map (vadd T) pts) = vadd (centroid_num pts) (vscale (3 * area2 pts) T).
Proof.
  rewrite !centroid_components, area2_zsum.
  rewrite (zsum_cyc_shift T cx cx vcross (fun q => vcross q T * (fst q + 2 * fst T)) (3 * fst T)).
  2:{ intros d e. unfold cx, vcross, vadd. cbn [fst snd]. ring. }
  rewrite (zsum_cyc_shift T cy cy vcross (fun q => vcross q T * (snd q + 2 * snd T)) (3 * snd T)).
  2:{ intros d e. unfold cy, vcross, vadd. cbn [fst snd]. ring. }
  unfold vadd, vscale. cbn [fst snd]. apply f_equal2; ring.
Qed.

(* ------------------------------------------------------------------ polygons of rotated walks *)
Lemma cumsum_from_app p l1 : forall l2,
  cumsum_from p (l1 ++ l2) = cumsum_from p l1 ++ cumsum_from (vadd p (vsum l1)) l2.
Proof.
  revert p. induction l1 as [|v l1 IH]; intros p l2.
  - cbn [app cumsum_from]. f_equal. destruct p as [x y]. unfold vsum, vadd, vzero. cbn [fold_right fst snd].
    apply f_equal2; ring.
  - cbn [app cumsum_from]. rewrite IH. rewrite vsum_cons, <- vadd_assoc. reflexivity.
Qed.

Lemma cumsum_from_shift T l : forall p, cumsum_from (vadd T p) l = map (vadd T) (cumsum_from p l).
Proof.
  induction l as [|v l IH]; intros p; [reflexivity|]. cbn [cumsum_from map].
  rewrite <- IH, vadd_assoc. reflexivity.
Qed.

Lemma poly_points_eq L w : w <> [] ->
  poly_points L w = cumsum_from (pos_at L (snd (fst (hd dflt w)))) (map (dvec L) w).
Proof. destruct w; [contradiction|reflexivity]. Qed.

Lemma poly_points_rotl L w :
  good L -> orbit_walk L w -> vsum (map (dvec L) w) = vzero ->
  exists t, poly_points L (rotl w) = map (vadd (vscale (scale L) t)) (rotl (poly_points L w)).
Proof.
  intros HG HO Hz. destruct w as [|a r]; [exfalso; apply (ow_ne _ _ HO); reflexivity|].
  pose proof (orbit_walk_consistent L _ HG HO) as Hok. cbn [hd walk_ok] in Hok.
  destruct Hok as (Ht & Hh & _).
  assert (Hstart : dhead L (sdart a) = snd (fst (hd dflt (r ++ [a])))).
  { rewrite Hh. destruct r; reflexivity. }
  exists (vneg (dcross L a)).
  cbn [rotl]. rewrite poly_points_eq by (destruct r; discriminate).
  rewrite <- Hstart. rewrite map_app. cbn [map]. rewrite cumsum_from_app.
  cbn [poly_points map cumsum_from rotl]. rewrite Ht.
  set (P0 := pos_at L (dtail L (sdart a))).
  set (T := vscale (scale L) (vneg (dcross L a))).
  assert (HP : pos_at L (dhead L (sdart a)) = vadd T (vadd P0 (dvec L a))).
  { rewrite (dvec_decomp L a). fold P0. apply injective_projections;
      unfold T, vadd, vsub, vscale, vneg; cbn [fst snd]; ring. }
  rewrite HP, cumsum_from_shift, map_app. f_equal. cbn [map]. f_equal.
  cbn [map] in Hz. rewrite vsum_cons in Hz.
  assert (H1 : fst (dvec L a) + fst (vsum (map (dvec L) r)) = 0) by (apply (f_equal fst) in Hz; exact Hz).
  assert (H2 : snd (dvec L a) + snd (vsum (map (dvec L) r)) = 0) by (apply (f_equal snd) in Hz; exact Hz).
  unfold vadd. cbn [fst snd]. apply f_equal2; lia.
Qed.

(* area and centroid of the polygon of a rotated valid face walk *)
Lemma geometry_rotk L k : forall w,
  good L -> orbit_walk L w -> walk_valid L w = true ->
  area2 (poly_points L (rotk k w)) = area2 (poly_points L w) /\
  exists t, centroid_num (poly_points L (rotk k w))
            = vadd (centroid_num (poly_points L w)) (vscale (3 * area2 (poly_points L w) * scale L) t).
Proof.
  induction k as [|k IH]; intros w HG HO Hv.
  - split; [reflexivity|]. exists vzero. cbn [rotk].
    apply injective_projections; unfold vadd, vscale, vzero; cbn [fst snd]; ring.
  - cbn [rotk].
    destruct (IH (rotl w) HG (orbit_walk_rotl L w HO)) as (IA & t1 & IC); [rewrite walk_valid_rotl; exact Hv|].
    destruct (poly_points_rotl L w HG HO (valid_walk_vectors_sum_zero L w HG HO Hv)) as (t0 & Hp).
    assert (HA : area2 (poly_points L (rotl w)) = area2 (poly_points L w)) by (rewrite Hp, area2_shift, area2_rotl; reflexivity).
    split; [rewrite IA; exact HA|].
    exists (vadd t0 t1). rewrite IC, HA, Hp, centroid_shift, centroid_rotl, area2_rotl.
    apply injective_projections; unfold vadd, vscale; cbn [fst snd]; ring.
Qed.
