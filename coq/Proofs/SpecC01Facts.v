(* Proofs/SpecC01Facts.v — the spec checker of C01 (Model/SpecC01.v) is sound and complete:
     spec_c01 L P = true  <->  legit_enumeration L P        (for every good L)
   where legit_enumeration is the property restated on orbits of the dart successor nd, without reference
   to the model's face list; and the model's own plaquette list is accepted whenever geometry fact G1
   holds on L (g1_holds L = true, evaluated per input by the driver). *)
From Coq Require Import List ZArith Bool Arith Lia Permutation.
From Koala Require Import Model.Lattice Model.SpecC01 Proofs.LatticeFacts.
Import ListNotations.

Notation wstep := (nat * nat * bool)%type (only parsing).
Notation dflt := (0%nat, 0%nat, true).

(* ================================================================== rotations of lists *)
Definition rot {A} (l1 l2 : list A) : Prop := exists k, l2 = rotn k l1.

Lemma rotl_length {A} (l : list A) : length (rotl l) = length l.
Proof. destruct l as [|x r]; [reflexivity|]. cbn [rotl]. rewrite app_length. cbn. lia. Qed.

Lemma rotn_length {A} k (l : list A) : length (rotn k l) = length l.
Proof. revert l; induction k as [|k IH]; intros l; [reflexivity|]. cbn [rotn]. rewrite IH. apply rotl_length. Qed.

Lemma rotn_add {A} j k (l : list A) : rotn (j + k) l = rotn k (rotn j l).
Proof. revert l; induction j as [|j IH]; intros l; [reflexivity|]. cbn [rotn Nat.add]. apply IH. Qed.

Lemma rotn_app {A} (a b : list A) : rotn (length a) (a ++ b) = b ++ a.
Proof.
  revert b; induction a as [|x a IH]; intros b; [cbn; rewrite app_nil_r; reflexivity|].
  cbn [length rotn app rotl]. rewrite <- app_assoc. rewrite IH. rewrite <- app_assoc. reflexivity.
Qed.

Lemma rotn_full {A} (l : list A) : rotn (length l) l = l.
Proof. pose proof (rotn_app l []) as H. rewrite app_nil_r in H. exact H. Qed.

Lemma rotn_mul_full {A} q (l : list A) : rotn (q * length l) l = l.
Proof.
  induction q as [|q IH]; [reflexivity|]. cbn [Nat.mul]. rewrite rotn_add, rotn_full. exact IH.
Qed.

Lemma rotn_nil {A} k : rotn k (@nil A) = [].
Proof. induction k as [|k IH]; [reflexivity|exact IH]. Qed.

Lemma rot_refl {A} (l : list A) : rot l l.
Proof. exists 0%nat. reflexivity. Qed.

Lemma rot_trans {A} (l1 l2 l3 : list A) : rot l1 l2 -> rot l2 l3 -> rot l1 l3.
Proof. intros [j ->] [k ->]. exists (j + k)%nat. symmetry. apply rotn_add. Qed.

Lemma rot_sym {A} (l1 l2 : list A) : rot l1 l2 -> rot l2 l1.
Proof.
  intros [k ->]. destruct l1 as [|x r].
  - rewrite rotn_nil. apply rot_refl.
  - (* k + k * n' = k * n with n = S n' *)
    exists (k * length r)%nat. rewrite <- rotn_add.
    replace (k + k * length r)%nat with (k * length (x :: r))%nat by (cbn [length]; lia).
    symmetry. apply rotn_mul_full.
Qed.

Lemma rot_split {A} (a b : list A) : rot (a ++ b) (b ++ a).
Proof. exists (length a). symmetry. apply rotn_app. Qed.

Lemma rot_length {A} (l1 l2 : list A) : rot l1 l2 -> length l1 = length l2.
Proof. intros [k ->]. symmetry. apply rotn_length. Qed.

Lemma rotl_perm {A} (l : list A) : Permutation l (rotl l).
Proof. destruct l as [|x r]; [reflexivity|]. cbn [rotl]. apply Permutation_cons_append. Qed.

Lemma rot_perm {A} (l1 l2 : list A) : rot l1 l2 -> Permutation l1 l2.
Proof.
  intros [k ->]. revert l1; induction k as [|k IH]; intros l1; [reflexivity|].
  cbn [rotn]. etransitivity; [apply rotl_perm|apply IH].
Qed.

Lemma rotl_map {A B} (f : A -> B) l : rotl (map f l) = map f (rotl l).
Proof. destruct l as [|x r]; [reflexivity|]. cbn [map rotl]. rewrite map_app. reflexivity. Qed.

Lemma rotn_map {A B} (f : A -> B) k l : rotn k (map f l) = map f (rotn k l).
Proof. revert l; induction k as [|k IH]; intros l; [reflexivity|]. cbn [rotn]. rewrite rotl_map. apply IH. Qed.

Lemma rot_map {A B} (f : A -> B) l1 l2 : rot l1 l2 -> rot (map f l1) (map f l2).
Proof. intros [k ->]. exists k. symmetry. apply rotn_map. Qed.

Lemma rot_nil {A} (l : list A) : rot [] l -> l = [].
Proof. intros [k ->]. apply rotn_nil. Qed.

(* every rotation is one of the first [length l] ones *)
Lemma rot_small {A} (l1 l2 : list A) : rot l1 l2 -> exists k, (k <= length l1)%nat /\ l2 = rotn k l1.
Proof.
  intros [k ->]. destruct l1 as [|x r].
  - exists 0%nat. split; [lia|]. rewrite rotn_nil. reflexivity.
  - set (l := x :: r). exists (k mod length l)%nat. split.
    + apply Nat.lt_le_incl, Nat.mod_upper_bound. discriminate.
    + rewrite (Nat.div_mod k (length l)) at 1 by discriminate.
      rewrite rotn_add, (Nat.mul_comm (length l)), rotn_mul_full. reflexivity.
Qed.

(* ------------------------------------------------------------------ the boolean test *)
Section ListEqb.
  Context {A : Type} (eqb : A -> A -> bool).
  Hypothesis eqb_eq : forall a b, eqb a b = true <-> a = b.

  Lemma list_eqb_eq l1 l2 : list_eqb eqb l1 l2 = true <-> l1 = l2.
  Proof.
    revert l2; induction l1 as [|x r IH]; intros [|y r2]; cbn [list_eqb];
      try (split; [discriminate|discriminate]); [split; reflexivity|].
    rewrite andb_true_iff, eqb_eq, IH. split; [intros []; congruence|intros [=]; auto].
  Qed.

  Lemma is_rot_aux_spec k l1 l2 :
    is_rot_aux eqb k l1 l2 = true <-> exists j, (j <= k)%nat /\ l2 = rotn j l1.
  Proof.
    revert l1; induction k as [|k IH]; intros l1; cbn [is_rot_aux].
    - rewrite orb_false_r, list_eqb_eq. split.
      + intros ->. exists 0%nat. split; [lia|reflexivity].
      + intros (j & Hj & ->). assert (j = 0)%nat as -> by lia. reflexivity.
    - rewrite orb_true_iff, list_eqb_eq, IH. split.
      + intros [->|(j & Hj & ->)]; [exists 0%nat; split; [lia|reflexivity]|].
        exists (S j). split; [lia|reflexivity].
      + intros ([|j] & Hj & ->); [left; reflexivity|]. right. exists j. split; [lia|reflexivity].
  Qed.

  Lemma is_rot_spec l1 l2 : is_rot eqb l1 l2 = true <-> rot l1 l2.
  Proof.
    unfold is_rot. rewrite andb_true_iff, Nat.eqb_eq, is_rot_aux_spec. split.
    - intros (_ & j & _ & ->). exists j. reflexivity.
    - intros H. split; [apply rot_length, H|]. apply rot_small, H.
  Qed.
End ListEqb.

Lemma is_rot_darts l1 l2 : is_rot dart_eqb l1 l2 = true <-> rot l1 l2.
Proof. apply is_rot_spec. apply dart_eqb_eq. Qed.

(* ================================================================== orbit walks up to rotation *)
Lemma step_ok_eq L (s1 s2 : wstep) : step_ok L s1 -> step_ok L s2 -> sdart s1 = sdart s2 -> s1 = s2.
Proof.
  intros [_ H1] [_ H2] E. destruct s1 as [[e1 v1] d1], s2 as [[e2 v2] d2].
  unfold sdart in *. cbn [fst snd] in *. injection E as -> ->. congruence.
Qed.

Lemma last_cons_ne (a : wstep) l : l <> [] -> last (a :: l) dflt = last l dflt.
Proof. destruct l; [contradiction|reflexivity]. Qed.

(* a rotation of an orbit walk is an orbit walk *)
Lemma orbit_rotl L w : orbit_walk L w -> orbit_walk L (rotl w).
Proof.
  intros HO. destruct w as [|s r]; [exact HO|]. cbn [rotl].
  destruct HO as [Hne Hok Hc Hcl Hnd]. constructor.
  - destruct r; discriminate.
  - intros x Hx. apply Hok. apply in_app_or in Hx as [Hx|[<-|[]]]; [right; exact Hx|left; reflexivity].
  - apply chain_snoc.
    + destruct r as [|b r]; [exact I|apply Hc].
    + intros Hr. cbn [hd] in Hcl. rewrite last_cons_ne in Hcl by exact Hr. exact Hcl.
  - rewrite last_last. destruct r as [|b r].
    + cbn [app hd]. cbn [last hd] in Hcl. exact Hcl.
    + cbn [app hd]. apply Hc.
  - rewrite map_app. cbn [map] in *. eapply Permutation_NoDup; [|exact Hnd]. apply Permutation_cons_append.
Qed.

Lemma orbit_rotn L k w : orbit_walk L w -> orbit_walk L (rotn k w).
Proof. revert w; induction k as [|k IH]; intros w H; [exact H|]. cbn [rotn]. apply IH, orbit_rotl, H. Qed.

Lemma orbit_rot L w w' : orbit_walk L w -> rot w w' -> orbit_walk L w'.
Proof. intros H [k ->]. apply orbit_rotn, H. Qed.

(* walks along nd from the same step run along each other *)
Lemma chain_det L w1 : forall s w2,
  (forall x, In x (s :: w1) -> step_ok L x) -> (forall x, In x (s :: w2) -> step_ok L x) ->
  chain L (s :: w1) -> chain L (s :: w2) ->
  exists r, w2 = w1 ++ r \/ w1 = w2 ++ r.
Proof.
  induction w1 as [|a w1 IH]; intros s w2 Hok1 Hok2 Hc1 Hc2.
  - exists w2. left. reflexivity.
  - destruct w2 as [|b w2]; [exists (a :: w1); right; reflexivity|].
    destruct Hc1 as [Ha Hc1], Hc2 as [Hb Hc2].
    assert (a = b).
    { apply (step_ok_eq L); [apply Hok1; right; left; reflexivity|apply Hok2; right; left; reflexivity|congruence]. }
    subst b.
    destruct (IH a w2 (fun x Hx => Hok1 x (or_intror Hx)) (fun x Hx => Hok2 x (or_intror Hx)) Hc1 Hc2)
      as (r & [->| ->]); exists r; [left|right]; reflexivity.
Qed.

Lemma chain_mid L l1 (a b : wstep) l2 : chain L (l1 ++ a :: b :: l2) -> nd L (sdart a) = Some (sdart b).
Proof. intros H. apply chain_app_r in H. apply H. Qed.

Lemma orbit_longer_absurd L s w1 y r :
  orbit_walk L (s :: w1) -> orbit_walk L (s :: w1 ++ y :: r) -> False.
Proof.
  intros H1 H2.
  pose proof (ow_close _ _ H1) as Hcl. cbn [hd] in Hcl.
  pose proof (ow_chain _ _ H2) as Hc.
  assert (E : s :: w1 ++ y :: r = removelast (s :: w1) ++ last (s :: w1) dflt :: y :: r).
  { change (s :: w1 ++ y :: r) with ((s :: w1) ++ y :: r).
    rewrite (app_removelast_last dflt (l := s :: w1)) at 1 by discriminate.
    rewrite <- app_assoc. reflexivity. }
  rewrite E in Hc. apply chain_mid in Hc. rewrite Hcl in Hc.
  assert (Hys : sdart y = sdart s) by congruence.
  pose proof (ow_nodup _ _ H2) as Hnd. cbn [map] in Hnd. apply NoDup_cons_iff in Hnd as [Hnot _].
  apply Hnot. rewrite map_app. apply in_or_app. right. left. exact Hys.
Qed.

Lemma orbit_same_head L s w1 w2 : orbit_walk L (s :: w1) -> orbit_walk L (s :: w2) -> w1 = w2.
Proof.
  intros H1 H2.
  destruct (chain_det L w1 s w2 (ow_ok _ _ H1) (ow_ok _ _ H2) (ow_chain _ _ H1) (ow_chain _ _ H2))
    as (r & [E|E]); destruct r as [|y r]; try (rewrite app_nil_r in E; congruence); subst; exfalso.
  - eapply orbit_longer_absurd; [exact H1|exact H2].
  - eapply orbit_longer_absurd; [exact H2|exact H1].
Qed.

(* two orbit walks through a common directed edge are rotations of each other *)
Theorem orbit_rot_common L w1 w2 s1 s2 :
  orbit_walk L w1 -> orbit_walk L w2 -> In s1 w1 -> In s2 w2 -> sdart s1 = sdart s2 -> rot w1 w2.
Proof.
  intros H1 H2 I1 I2 E.
  assert (s1 = s2) by (eapply step_ok_eq; [apply (ow_ok _ _ H1), I1|apply (ow_ok _ _ H2), I2|exact E]).
  subst s2.
  apply in_split in I1 as (a1 & b1 & ->). apply in_split in I2 as (a2 & b2 & ->).
  assert (O1 : orbit_walk L ((s1 :: b1) ++ a1)) by (rewrite <- rotn_app; apply orbit_rotn, H1).
  assert (O2 : orbit_walk L ((s1 :: b2) ++ a2)) by (rewrite <- rotn_app; apply orbit_rotn, H2).
  cbn [app] in O1, O2. pose proof (orbit_same_head L _ _ _ O1 O2) as Eq.
  eapply rot_trans; [apply rot_split|]. apply rot_sym. eapply rot_trans; [apply rot_split|].
  cbn [app]. rewrite Eq. apply rot_refl.
Qed.

(* a step of an orbit walk is determined by its directed edge *)
Definition step_of (L : lattice) (d : dart) : nat * nat * bool := (fst d, dtail L d, snd d).

Lemma step_of_sdart L (s : wstep) : step_ok L s -> step_of L (sdart s) = s.
Proof.
  intros [_ H]. destruct s as [[e v] d]. unfold step_of, sdart in *. cbn [fst snd] in *. congruence.
Qed.

Lemma walk_of_darts L w : (forall s, In s w -> step_ok L s) -> map (step_of L) (walk_darts w) = w.
Proof.
  intros H. rewrite walk_darts_sdart, map_map. rewrite <- (map_id w) at 2. apply map_ext_in.
  intros s Hs. apply step_of_sdart, H, Hs.
Qed.

Lemma orbit_rot_of_darts L w1 w2 :
  orbit_walk L w1 -> orbit_walk L w2 -> rot (walk_darts w1) (walk_darts w2) -> rot w1 w2.
Proof.
  intros H1 H2 Hr. apply (rot_map (step_of L)) in Hr.
  rewrite !walk_of_darts in Hr by (apply ow_ok; assumption). exact Hr.
Qed.

(* ================================================================== legitimacy is invariant under rotation *)
Definition legit_walk (L : lattice) (w : list wstep) : Prop :=
  NoDup (walk_edges w) /\ net_crossing L w = vzero /\ (0 < area2 (poly_points L w))%Z.

Lemma vec_eq (a b : vec) : fst a = fst b -> snd a = snd b -> a = b.
Proof. destruct a, b. cbn. congruence. Qed.
Ltac vring := apply vec_eq; unfold vadd, vsub, vscale, vneg, vzero; cbn [fst snd]; ring.

Lemma vsum_app a b : vsum (a ++ b) = vadd (vsum a) (vsum b).
Proof.
  induction a as [|x a IH]; [cbn [app]; change (vsum []) with vzero; vring|].
  cbn [app]. rewrite !vsum_cons, IH. vring.
Qed.

Lemma net_crossing_rotl L w : net_crossing L (rotl w) = net_crossing L w.
Proof.
  destruct w as [|s r]; [reflexivity|]. unfold net_crossing. cbn [rotl map].
  rewrite map_app, vsum_app, vsum_cons. cbn [map]. rewrite vsum_cons. change (vsum []) with vzero. vring.
Qed.

(* shoelace sum as a sum over adjacent pairs of the closed point list *)
Fixpoint adjsum (l : list vec) : Z :=
  match l with
  | a :: ((b :: _) as r) => (vcross a b + adjsum r)%Z
  | _ => 0%Z
  end.

Lemma area2_adjsum_gen r : forall p x,
  fold_right Z.add 0%Z (map (fun pq : vec * vec => vcross (fst pq) (snd pq)) (combine (p :: r) (r ++ [x])))
  = adjsum (p :: r ++ [x]).
Proof.
  induction r as [|b r IH]; intros p x; [cbn; reflexivity|].
  cbn [app]. change (combine (p :: b :: r) (b :: r ++ [x])) with ((p, b) :: combine (b :: r) (r ++ [x])).
  cbn [map fold_right fst snd]. rewrite IH. reflexivity.
Qed.

Lemma area2_adjsum p r : area2 (p :: r) = adjsum (p :: r ++ [p]).
Proof. unfold area2. cbn [rotl]. apply area2_adjsum_gen. Qed.

Lemma adjsum_snoc a l x : adjsum ((a :: l) ++ [x]) = (adjsum (a :: l) + vcross (last (a :: l) vzero) x)%Z.
Proof.
  revert a; induction l as [|b l IH]; intros a; [cbn; ring|].
  change ((a :: b :: l) ++ [x]) with (a :: (b :: l) ++ [x]).
  change (adjsum (a :: (b :: l) ++ [x])) with (vcross a b + adjsum ((b :: l) ++ [x]))%Z.
  rewrite IH. change (last (a :: b :: l) vzero) with (last (b :: l) vzero).
  change (adjsum (a :: b :: l)) with (vcross a b + adjsum (b :: l))%Z. ring.
Qed.

Lemma area2_rotl pts : area2 (rotl pts) = area2 pts.
Proof.
  destruct pts as [|p [|b r]]; [reflexivity|reflexivity|].
  cbn [rotl]. change ((b :: r) ++ [p]) with (b :: r ++ [p]).
  rewrite !area2_adjsum.
  change (b :: (r ++ [p]) ++ [b]) with ((b :: r ++ [p]) ++ [b]). rewrite adjsum_snoc.
  change (b :: r ++ [p]) with ((b :: r) ++ [p]) at 2. rewrite last_last.
  change (adjsum (p :: (b :: r) ++ [p])) with (vcross p b + adjsum (b :: r ++ [p]))%Z. ring.
Qed.

Lemma adjsum_translate t l : forall a,
  adjsum (map (fun q => vsub q t) (a :: l))
  = (adjsum (a :: l) + vcross t a - vcross t (last (a :: l) vzero))%Z.
Proof.
  induction l as [|b l IH]; intros a; [cbn; ring|].
  change (map (fun q => vsub q t) (a :: b :: l)) with (vsub a t :: map (fun q => vsub q t) (b :: l)).
  change (adjsum (vsub a t :: map (fun q => vsub q t) (b :: l)))
    with (vcross (vsub a t) (vsub b t) + adjsum (map (fun q => vsub q t) (b :: l)))%Z.
  rewrite IH. change (last (a :: b :: l) vzero) with (last (b :: l) vzero).
  change (adjsum (a :: b :: l)) with (vcross a b + adjsum (b :: l))%Z.
  unfold vcross, vsub. cbn [fst snd]. ring.
Qed.

Lemma area2_translate t pts : area2 (map (fun q => vsub q t) pts) = area2 pts.
Proof.
  destruct pts as [|p r]; [reflexivity|].
  cbn [map]. rewrite !area2_adjsum.
  change (vsub p t :: map (fun q => vsub q t) r ++ [vsub p t])
    with (vsub p t :: (map (fun q => vsub q t) r ++ map (fun q => vsub q t) [p])).
  rewrite <- map_app. change (vsub p t :: map (fun q => vsub q t) (r ++ [p])) with (map (fun q => vsub q t) (p :: r ++ [p])).
  rewrite adjsum_translate.
  change (p :: r ++ [p]) with ((p :: r) ++ [p]) at 2. rewrite last_last. ring.
Qed.

Lemma cumsum_from_app l1 : forall p l2,
  cumsum_from p (l1 ++ l2) = cumsum_from p l1 ++ cumsum_from (vadd p (vsum l1)) l2.
Proof.
  induction l1 as [|x l1 IH]; intros p l2.
  - cbn [app cumsum_from]. f_equal. change (vsum []) with vzero. vring.
  - cbn [app cumsum_from]. rewrite IH. cbn [app]. do 3 f_equal. rewrite vsum_cons. vring.
Qed.

Lemma cumsum_from_shift t l : forall p,
  cumsum_from (vsub p t) l = map (fun q => vsub q t) (cumsum_from p l).
Proof.
  induction l as [|x l IH]; intros p; [reflexivity|].
  cbn [cumsum_from map]. replace (vadd (vsub p t) x) with (vsub (vadd p x) t) by vring.
  rewrite IH. reflexivity.
Qed.

Lemma poly_points_rotl L w :
  good L -> orbit_walk L w -> net_crossing L w = vzero ->
  exists t, poly_points L (rotl w) = map (fun q => vsub q t) (rotl (poly_points L w)).
Proof.
  intros HG HO Hnet. destruct w as [|s [|b r]].
  - exists vzero. reflexivity.
  - exists vzero. cbn [rotl app poly_points map cumsum_from]. f_equal. vring.
  - pose proof (orbit_vectors_sum L _ HG HO) as Hsum. rewrite Hnet in Hsum.
    assert (Hs : step_ok L s) by (apply (ow_ok _ _ HO); left; reflexivity).
    assert (Hb : step_ok L b) by (apply (ow_ok _ _ HO); right; left; reflexivity).
    destruct (ow_chain _ _ HO) as [Hsb _].
    destruct (nd_valid L _ _ HG (proj1 Hs) Hsb) as [_ Hth].
    pose proof (dvec_decomp L s) as Hd. rewrite <- Hth, <- (proj2 Hs), <- (proj2 Hb) in Hd.
    set (t := vscale (scale L) (dcross L s)) in *. exists t.
    set (q1 := vadd (pos_at L (snd (fst s))) (dvec L s)).
    assert (Hpb : pos_at L (snd (fst b)) = vsub q1 t) by (unfold q1; rewrite Hd; vring).
    cbn [rotl].
    change (poly_points L ((b :: r) ++ [s]))
      with (cumsum_from (pos_at L (snd (fst b))) (map (dvec L) ((b :: r) ++ [s]))).
    change (poly_points L (s :: b :: r)) with (q1 :: cumsum_from q1 (map (dvec L) (b :: r))).
    rewrite map_app, cumsum_from_app, Hpb, cumsum_from_shift. cbn [rotl]. rewrite map_app. f_equal.
    cbn [map cumsum_from]. f_equal.
    (* the walk is closed: the last point is the first *)
    change (map (dvec L) (s :: b :: r)) with (dvec L s :: map (dvec L) (b :: r)) in Hsum.
    rewrite vsum_cons in Hsum.
    apply (f_equal fst) in Hsum as E1. apply (f_equal snd) in Hsum as E2.
    unfold vadd, vscale, vzero in E1, E2. cbn [fst snd] in E1, E2.
    change (dvec L b :: map (dvec L) r) with (map (dvec L) (b :: r)).
    apply vec_eq; unfold vadd, vsub; cbn [fst snd]; lia.
Qed.

Lemma walk_edges_rotl w : walk_edges (rotl w) = rotl (walk_edges w).
Proof. unfold walk_edges. symmetry. apply rotl_map. Qed.

Lemma legit_rotl L w : good L -> orbit_walk L w -> legit_walk L w -> legit_walk L (rotl w).
Proof.
  intros HG HO (Hnd & Hnet & Ha). split; [|split].
  - rewrite walk_edges_rotl. eapply Permutation_NoDup; [apply rotl_perm|exact Hnd].
  - rewrite net_crossing_rotl. exact Hnet.
  - destruct (poly_points_rotl L w HG HO Hnet) as (t & ->).
    rewrite area2_translate, area2_rotl. exact Ha.
Qed.

Lemma legit_rotn L k : forall w, good L -> orbit_walk L w -> legit_walk L w -> legit_walk L (rotn k w).
Proof.
  induction k as [|k IH]; intros w HG HO Hl; [exact Hl|].
  cbn [rotn]. apply IH; [exact HG|apply orbit_rotl, HO|apply legit_rotl; assumption].
Qed.

(* no edge twice, zero net crossing and positive area do not depend on the directed edge the walk starts on *)
Theorem legit_rot L w w' : good L -> orbit_walk L w -> rot w w' -> legit_walk L w -> legit_walk L w'.
Proof. intros HG HO [k ->]. apply legit_rotn; assumption. Qed.

(* ================================================================== the property, on orbits of nd *)
(* a reported plaquette t = (vertices, edges, directions) *)
Definition tlen_ok (t : triple) : Prop :=
  length (t_verts t) = length (t_edges t) /\ length (t_dirs t) = length (t_edges t).

(* consistent closed walk: every edge id exists, the i-th edge in the i-th direction leads from the i-th
   vertex to the (i+1)-th, the successor of the last vertex being the first *)
Definition closed_walk (L : lattice) (w : list wstep) : Prop :=
  (forall s, In s w -> valid_dart L (sdart s)) /\ walk_ok L w (snd (fst (hd dflt w))).

(* the sequence of directed edges l is, up to the edge it starts on, a closed orbit of the dart successor
   (= a face of the embedding) that uses no edge twice, has no net boundary crossing and positive area *)
Definition legit_face_darts (L : lattice) (l : list dart) : Prop :=
  exists w, orbit_walk L w /\ legit_walk L w /\ rot (walk_darts w) l.

Record legit_enumeration (L : lattice) (P : list triple) : Prop := {
  (* n_sides = length of each of the three arrays *)
  le_len : forall t, In t P -> tlen_ok t;
  (* every plaquette is a consistent closed walk *)
  le_walk : forall t, In t P -> closed_walk L (tsteps t);
  (* every reported plaquette is a legitimate face *)
  le_sound : forall t, In t P -> legit_face_darts L (tdarts t);
  (* ... each one once: no two entries of the list are the same cyclic sequence *)
  le_once : ForallOrdPairs (fun t1 t2 => ~ rot (tdarts t1) (tdarts t2)) P;
  (* every legitimate face is reported *)
  le_complete : forall w, orbit_walk L w -> legit_walk L w -> exists t, In t P /\ rot (walk_darts w) (tdarts t);
  (* no directed edge belongs to two plaquettes (nor twice to one) *)
  le_darts : NoDup (flat_map tdarts P)
}.

(* ------------------------------------------------------------------ reflection of the per-item checks *)
Lemma t_len_ok_iff t : t_len_ok t = true <-> tlen_ok t.
Proof. unfold t_len_ok, tlen_ok. rewrite andb_true_iff, !Nat.eqb_eq. reflexivity. Qed.

Lemma walk_okb_iff L w : forall vend,
  walk_okb L w vend = true <-> (forall s, In s w -> valid_dart L (sdart s)) /\ walk_ok L w vend.
Proof.
  induction w as [|s r IH]; intros vend.
  - cbn. split; [intros _; split; [intros s []|exact I]|reflexivity].
  - cbn [walk_okb walk_ok]. change (st_dart s) with (sdart s).
    rewrite !andb_true_iff, Nat.ltb_lt, !Nat.eqb_eq, IH. unfold valid_dart at 2. cbn [sdart fst].
    split.
    + intros (((H1 & H2) & H3) & H4 & H5). split; [|auto].
      intros x [<-|Hx]; [exact H1|apply H4, Hx].
    + intros (H1 & H2 & H3 & H4). repeat split; auto.
      * apply (H1 s). left. reflexivity.
      * intros x Hx. apply H1. right. exact Hx.
Qed.

Lemma t_walk_ok_iff L t : t_walk_ok L t = true <-> closed_walk L (tsteps t).
Proof.
  unfold t_walk_ok, closed_walk. destruct (tsteps t) as [|s r] eqn:E.
  - split; [intros _; split; [intros s []|exact I]|reflexivity].
  - rewrite walk_okb_iff. reflexivity.
Qed.

Lemma existsb_mono {A} (p q : A -> bool) l :
  (forall x, p x = true -> q x = true) -> existsb p l = true -> existsb q l = true.
Proof.
  intros H. rewrite !existsb_exists. intros (x & Hx & Hp). exists x. split; [exact Hx|apply H, Hp].
Qed.

Lemma no_rot_pair_iff P :
  no_rot_pair P = true <-> ForallOrdPairs (fun t1 t2 => ~ rot (tdarts t1) (tdarts t2)) P.
Proof.
  induction P as [|t r IH]; [split; [constructor|reflexivity]|].
  cbn [no_rot_pair]. rewrite andb_true_iff, negb_true_iff, IH. split.
  - intros [H1 H2]. constructor; [|exact H2]. apply Forall_forall. intros t' Ht' Hr.
    assert (existsb (fun t' => is_rot dart_eqb (tdarts t) (tdarts t')) r = true); [|congruence].
    apply existsb_exists. exists t'. split; [exact Ht'|apply is_rot_darts, Hr].
  - intros H. inversion H as [|a l Hfa Hr]; subst. split; [|exact Hr].
    destruct (existsb _ r) eqn:E; [|reflexivity]. exfalso.
    apply existsb_exists in E as (t' & Ht' & Hr'). apply is_rot_darts in Hr'.
    rewrite Forall_forall in Hfa. exact (Hfa t' Ht' Hr').
Qed.

(* ------------------------------------------------------------------ the model's face list *)
(* what all_faces_spec says about fs *)
Definition faces_ok (L : lattice) (fs : list face) : Prop :=
  (forall f, In f fs -> orbit_walk L (f_walk f) /\ f = mk_face L (f_walk f)) /\
  (forall d, valid_dart L d <-> In d (face_darts fs)).

Lemma face_legit_iff L f :
  f = mk_face L (f_walk f) -> (face_legit f = true <-> legit_walk L (f_walk f)).
Proof.
  intros E. unfold face_legit, legit_walk. rewrite E. cbn [f_nodup f_netzero f_area2 f_walk mk_face].
  rewrite !andb_true_iff, nodupb_NoDup, veqb_eq, Z.ltb_lt. tauto.
Qed.

(* every closed orbit of nd is, up to rotation, one of the listed face walks *)
Lemma orbit_in_faces L fs w :
  good L -> faces_ok L fs -> orbit_walk L w -> exists f, In f fs /\ rot (f_walk f) w.
Proof.
  intros HG [Hf Hall] HO. destruct w as [|s r] eqn:Ew; [exfalso; apply (ow_ne _ _ HO); reflexivity|].
  rewrite <- Ew in *. assert (Hs : In s w) by (rewrite Ew; left; reflexivity).
  pose proof (proj1 (ow_ok _ _ HO s Hs)) as Hv. apply Hall in Hv.
  unfold face_darts in Hv. apply in_flat_map in Hv as (w' & Hw' & Hd).
  apply in_map_iff in Hw' as (f & <- & Hfin). exists f. split; [exact Hfin|].
  rewrite walk_darts_sdart in Hd. apply in_map_iff in Hd as (s' & Es & Hs').
  eapply orbit_rot_common; [apply (Hf f Hfin)|exact HO|exact Hs'|exact Hs|exact Es].
Qed.

Lemma face_rot_iff f t : face_rot f t = true <-> rot (walk_darts (f_walk f)) (tdarts t).
Proof. apply is_rot_darts. Qed.

Lemma t_legit_iff L fs t :
  good L -> faces_ok L fs -> (t_legit fs t = true <-> legit_face_darts L (tdarts t)).
Proof.
  intros HG HF. unfold t_legit, legit_face_darts. rewrite existsb_exists. split.
  - intros (f & Hfin & H). apply andb_prop in H as [Hr Hl]. apply face_rot_iff in Hr.
    destruct (proj1 HF f Hfin) as [HO E]. exists (f_walk f). split; [exact HO|]. split; [|exact Hr].
    apply (face_legit_iff L f E), Hl.
  - intros (w & HO & Hl & Hr). destruct (orbit_in_faces L fs w HG HF HO) as (f & Hfin & Hfw).
    destruct (proj1 HF f Hfin) as [HOf E]. exists f. split; [exact Hfin|]. apply andb_true_intro. split.
    + apply face_rot_iff. eapply rot_trans; [|exact Hr]. rewrite !walk_darts_sdart. apply rot_map, Hfw.
    + apply (face_legit_iff L f E). apply (legit_rot L w); [exact HG|exact HO|apply rot_sym, Hfw|exact Hl].
Qed.

Lemma all_reported_iff L fs P :
  good L -> faces_ok L fs ->
  (all_reported fs P = true <->
   forall w, orbit_walk L w -> legit_walk L w -> exists t, In t P /\ rot (walk_darts w) (tdarts t)).
Proof.
  intros HG HF. unfold all_reported. rewrite forallb_forall. split.
  - intros H w HO Hl. destruct (orbit_in_faces L fs w HG HF HO) as (f & Hfin & Hfw).
    destruct (proj1 HF f Hfin) as [HOf E]. specialize (H f Hfin).
    assert (Hlf : face_legit f = true).
    { apply (face_legit_iff L f E). apply (legit_rot L w); [exact HG|exact HO|apply rot_sym, Hfw|exact Hl]. }
    rewrite Hlf in H. cbn [implb] in H. unfold f_reported in H. apply existsb_exists in H as (t & Ht & Hr).
    exists t. split; [exact Ht|]. apply face_rot_iff in Hr. eapply rot_trans; [|exact Hr].
    rewrite !walk_darts_sdart. apply rot_map, rot_sym, Hfw.
  - intros H f Hfin. destruct (face_legit f) eqn:Hlf; [|reflexivity]. cbn [implb].
    destruct (proj1 HF f Hfin) as [HOf E].
    destruct (H (f_walk f) HOf (proj1 (face_legit_iff L f E) Hlf)) as (t & Ht & Hr).
    unfold f_reported. apply existsb_exists. exists t. split; [exact Ht|apply face_rot_iff, Hr].
Qed.

(* ------------------------------------------------------------------ "no directed edge in two plaquettes" follows *)
Lemma legit_face_darts_NoDup L l : legit_face_darts L l -> NoDup l.
Proof.
  intros (w & HO & _ & Hr). eapply Permutation_NoDup; [apply rot_perm, Hr|].
  rewrite walk_darts_sdart. apply (ow_nodup _ _ HO).
Qed.

Lemma legit_face_darts_share L l1 l2 d :
  legit_face_darts L l1 -> legit_face_darts L l2 -> In d l1 -> In d l2 -> rot l1 l2.
Proof.
  intros (w1 & O1 & _ & R1) (w2 & O2 & _ & R2) I1 I2.
  apply (Permutation_in _ (Permutation_sym (rot_perm _ _ R1))) in I1.
  apply (Permutation_in _ (Permutation_sym (rot_perm _ _ R2))) in I2.
  rewrite walk_darts_sdart in I1, I2.
  apply in_map_iff in I1 as (s1 & E1 & I1). apply in_map_iff in I2 as (s2 & E2 & I2).
  pose proof (orbit_rot_common L w1 w2 s1 s2 O1 O2 I1 I2 ltac:(congruence)) as Hr.
  eapply rot_trans; [apply rot_sym, R1|]. eapply rot_trans; [|exact R2].
  rewrite !walk_darts_sdart. apply rot_map, Hr.
Qed.

Lemma enumeration_darts_NoDup L P :
  (forall t, In t P -> legit_face_darts L (tdarts t)) ->
  ForallOrdPairs (fun t1 t2 => ~ rot (tdarts t1) (tdarts t2)) P ->
  NoDup (flat_map tdarts P).
Proof.
  induction P as [|t r IH]; intros Hs Ho; [constructor|].
  inversion Ho as [|a l Hfa Hr]; subst. cbn [flat_map].
  apply NoDup_app_intro.
  - eapply legit_face_darts_NoDup. apply Hs. left. reflexivity.
  - apply IH; [intros t' Ht'; apply Hs; right; exact Ht'|exact Hr].
  - intros d Hd Hd'. apply in_flat_map in Hd' as (t' & Ht' & Hd').
    rewrite Forall_forall in Hfa. apply (Hfa t' Ht').
    eapply legit_face_darts_share; [apply Hs; left; reflexivity|apply Hs; right; exact Ht'|exact Hd|exact Hd'].
Qed.

(* ================================================================== soundness and completeness *)
Lemma spec_c01_unfold L fs P :
  all_faces L = Some fs ->
  (spec_c01 L P = true <->
   forallb t_len_ok P = true /\ forallb (t_walk_ok L) P = true /\ forallb (t_is_face fs) P = true /\
   forallb (t_nodup fs) P = true /\ forallb (t_netzero fs) P = true /\ forallb (t_area fs) P = true /\
   forallb (t_legit fs) P = true /\ no_rot_pair P = true /\ all_reported fs P = true).
Proof.
  intros E. unfold spec_c01, spec_checks. rewrite E. cbn [forallb]. rewrite !andb_true_iff. tauto.
Qed.

Theorem spec_c01_correct L P : good L -> (spec_c01 L P = true <-> legit_enumeration L P).
Proof.
  intros HG. destruct (all_faces_spec L HG) as (fs & E & Hf & _ & Hall).
  assert (HF : faces_ok L fs) by (split; assumption).
  rewrite (spec_c01_unfold L fs P E). split.
  - intros (H1 & H2 & _ & _ & _ & _ & H7 & H8 & H9).
    rewrite forallb_forall in H1, H2, H7.
    assert (Hs : forall t, In t P -> legit_face_darts L (tdarts t)).
    { intros t Ht. apply (t_legit_iff L fs t HG HF), H7, Ht. }
    apply no_rot_pair_iff in H8.
    constructor.
    + intros t Ht. apply t_len_ok_iff, H1, Ht.
    + intros t Ht. apply t_walk_ok_iff, H2, Ht.
    + exact Hs.
    + exact H8.
    + apply (all_reported_iff L fs P HG HF), H9.
    + eapply enumeration_darts_NoDup; eassumption.
  - intros [K1 K2 K3 K4 K5 _].
    assert (H7 : forall t, In t P -> t_legit fs t = true).
    { intros t Ht. apply (t_legit_iff L fs t HG HF), K3, Ht. }
    repeat split.
    + apply forallb_forall; intros t Ht. apply t_len_ok_iff, K1, Ht.
    + apply forallb_forall; intros t Ht. apply t_walk_ok_iff, K2, Ht.
    + apply forallb_forall; intros t Ht. refine (existsb_mono _ _ _ _ (H7 t Ht)). intros f H. apply andb_prop in H. apply H.
    + apply forallb_forall; intros t Ht. refine (existsb_mono _ _ _ _ (H7 t Ht)). intros f H. apply andb_prop in H as [Hr Hl].
      unfold face_legit in Hl. apply andb_prop in Hl as [Hl _]. apply andb_prop in Hl as [Hl _].
      rewrite Hr, Hl. reflexivity.
    + apply forallb_forall; intros t Ht. refine (existsb_mono _ _ _ _ (H7 t Ht)). intros f H. apply andb_prop in H as [Hr Hl].
      unfold face_legit in Hl. apply andb_prop in Hl as [Hl _]. apply andb_prop in Hl as [_ Hl].
      rewrite Hr, Hl. reflexivity.
    + apply forallb_forall; intros t Ht. refine (existsb_mono _ _ _ _ (H7 t Ht)). intros f H. apply andb_prop in H as [Hr Hl].
      unfold face_legit in Hl. apply andb_prop in Hl as [_ Hl].
      rewrite Hr, Hl. reflexivity.
    + apply forallb_forall; intros t Ht. apply H7, Ht.
    + apply no_rot_pair_iff, K4.
    + apply (all_reported_iff L fs P HG HF), K5.
Qed.

(* the first failing sub-check is reported iff the checker rejects *)
Lemma first_false_None l : forall i, first_false i l = None <-> forallb (fun b => b) l = true.
Proof.
  induction l as [|b r IH]; intros i; [split; reflexivity|].
  cbn [first_false forallb]. destruct b; [apply IH|split; discriminate].
Qed.

Lemma spec_c01_first_fail_None L P : spec_c01_first_fail L P = None <-> spec_c01 L P = true.
Proof. apply first_false_None. Qed.

(* with the reported n_sides *)
Theorem spec_c01n_correct L (P : list (nat * triple)) :
  good L ->
  (spec_c01n L P = true <->
   (forall nt, In nt P -> fst nt = length (t_edges (snd nt))) /\ legit_enumeration L (map snd P)).
Proof.
  intros HG. unfold spec_c01n. rewrite andb_true_iff, forallb_forall, (spec_c01_correct L _ HG).
  split; intros [H1 H2]; (split; [|exact H2]); intros nt Hnt; [apply Nat.eqb_eq|apply Nat.eqb_eq]; apply H1, Hnt.
Qed.

(* ================================================================== the model's own list is accepted under G1 *)
Definition triple_of_walk (w : list wstep) : triple := (walk_verts w, walk_edges w, walk_dirs w).

Lemma triple_of_mk L w : triple_of (mk_plaquette L w) = triple_of_walk w.
Proof. reflexivity. Qed.

Lemma tdarts_of_walk w : tdarts (triple_of_walk w) = walk_darts w.
Proof. unfold tdarts, triple_of_walk, t_edges, t_dirs. cbn [fst snd]. apply combine_walk. Qed.

Lemma tsteps_of_walk w : tsteps (triple_of_walk w) = w.
Proof.
  unfold tsteps, triple_of_walk, t_edges, t_verts, t_dirs, walk_edges, walk_verts, walk_dirs. cbn [fst snd].
  induction w as [|[[e v] d] w IH]; [reflexivity|]. cbn [map combine fst snd]. rewrite IH. reflexivity.
Qed.

Lemma NoDup_flat_map_no_rot {A B} (g : A -> list B) l :
  NoDup (flat_map g l) -> (forall x, In x l -> g x <> []) ->
  ForallOrdPairs (fun a b => ~ rot (g a) (g b)) l.
Proof.
  induction l as [|a l IH]; intros Hnd Hne; [constructor|].
  cbn [flat_map] in Hnd. destruct (NoDup_app_elim _ _ Hnd) as (_ & H2 & H3).
  constructor; [|apply IH; [exact H2|intros x Hx; apply Hne; right; exact Hx]].
  apply Forall_forall. intros b Hb Hr.
  destruct (g a) as [|d r] eqn:Ea; [apply (Hne a); [left; reflexivity|exact Ea]|].
  apply (H3 d); [left; reflexivity|]. apply in_flat_map. exists b. split; [exact Hb|].
  apply (Permutation_in _ (rot_perm _ _ Hr)). left. reflexivity.
Qed.

(* under G1 the coded filter and the property's wording select the same faces *)
Lemma g1_walk_valid_iff L f :
  f = mk_face L (f_walk f) -> g1_face f = true ->
  (walk_valid L (f_walk f) = true <-> face_legit f = true).
Proof.
  intros E. unfold g1_face, walk_valid, face_legit. rewrite E.
  cbn [f_nodup f_netzero f_winding f_area2 f_walk mk_face].
  destruct (nodupb (walk_edges (f_walk f))), (veqb (net_crossing L (f_walk f)) vzero);
    cbn [andb implb]; try (intros _; split; discriminate).
  destruct (winding (map (dvec L) (f_walk f)) =? -1)%Z, (0 <? area2 (poly_points L (f_walk f)))%Z;
    cbn [Bool.eqb]; intros H; try discriminate; split; auto.
Qed.

Theorem model_enumeration_under_G1 L :
  good L -> g1_holds L = true ->
  exists ps, find_all_plaquettes L = Some ps /\ legit_enumeration L (map triple_of ps).
Proof.
  intros HG HG1. destruct (all_faces_spec L HG) as (fs & E & Hf & Hnd & Hall).
  assert (HF : faces_ok L fs) by (split; assumption).
  unfold g1_holds in HG1. rewrite E in HG1. rewrite forallb_forall in HG1.
  exists (plaq_of_faces L fs). split; [rewrite plaquettes_are_valid_faces, E; reflexivity|].
  unfold plaq_of_faces. rewrite map_map.
  set (ws := filter (walk_valid L) (map f_walk fs)).
  assert (Hws : forall w, In w ws <-> exists f, In f fs /\ w = f_walk f /\ walk_valid L w = true).
  { intros w. unfold ws. rewrite filter_In, in_map_iff. split.
    - intros ((f & <- & Hfin) & Hv). exists f. auto.
    - intros (f & Hfin & -> & Hv). split; [exists f; auto|exact Hv]. }
  assert (Hmap : map (fun x => triple_of (mk_plaquette L x)) ws = map triple_of_walk ws)
    by (apply map_ext; intros w; apply triple_of_mk).
  rewrite Hmap.
  assert (Hin : forall t, In t (map triple_of_walk ws) ->
                exists f, In f fs /\ t = triple_of_walk (f_walk f) /\ walk_valid L (f_walk f) = true).
  { intros t Ht. apply in_map_iff in Ht as (w & <- & Hw). apply Hws in Hw as (f & Hfin & -> & Hv). exists f. auto. }
  assert (Hdarts : NoDup (flat_map tdarts (map triple_of_walk ws))).
  { rewrite flat_map_map. erewrite flat_map_ext; [|intros w; apply tdarts_of_walk].
    unfold ws. apply NoDup_flat_map_filter. exact Hnd. }
  constructor.
  - intros t Ht. destruct (Hin t Ht) as (f & _ & -> & _).
    unfold tlen_ok, triple_of_walk, t_verts, t_edges, t_dirs, walk_verts, walk_edges, walk_dirs. cbn [fst snd].
    rewrite !map_length. split; reflexivity.
  - intros t Ht. destruct (Hin t Ht) as (f & Hfin & -> & _). rewrite tsteps_of_walk.
    destruct (Hf f Hfin) as [HO _]. split.
    + intros s Hs. apply (ow_ok _ _ HO s Hs).
    + apply orbit_walk_consistent; assumption.
  - intros t Ht. destruct (Hin t Ht) as (f & Hfin & -> & Hv). rewrite tdarts_of_walk.
    destruct (Hf f Hfin) as [HO Emk]. exists (f_walk f). split; [exact HO|]. split; [|apply rot_refl].
    apply (face_legit_iff L f Emk). apply (g1_walk_valid_iff L f Emk (HG1 f Hfin)), Hv.
  - apply NoDup_flat_map_no_rot; [exact Hdarts|].
    intros t Ht. destruct (Hin t Ht) as (f & Hfin & -> & _). rewrite tdarts_of_walk.
    destruct (Hf f Hfin) as [HO _]. rewrite walk_darts_sdart. intros Hnil.
    apply map_eq_nil in Hnil. exact (ow_ne _ _ HO Hnil).
  - intros w HO Hl. destruct (orbit_in_faces L fs w HG HF HO) as (f & Hfin & Hfw).
    destruct (Hf f Hfin) as [HOf Emk].
    assert (Hlf : face_legit f = true).
    { apply (face_legit_iff L f Emk). apply (legit_rot L w); [exact HG|exact HO|apply rot_sym, Hfw|exact Hl]. }
    apply (g1_walk_valid_iff L f Emk (HG1 f Hfin)) in Hlf.
    exists (triple_of_walk (f_walk f)). split.
    + apply in_map. apply Hws. exists f. auto.
    + rewrite tdarts_of_walk, !walk_darts_sdart. apply rot_map, rot_sym, Hfw.
  - exact Hdarts.
Qed.

Theorem spec_accepts_model_under_G1 L :
  good L -> g1_holds L = true ->
  exists ps, find_all_plaquettes L = Some ps /\
             spec_c01 L (map triple_of ps) = true /\
             spec_c01n L (map (fun p => (n_sides p, triple_of p)) ps) = true.
Proof.
  intros HG HG1. destruct (model_enumeration_under_G1 L HG HG1) as (ps & E & HE).
  exists ps. split; [exact E|]. split; [apply (spec_c01_correct L _ HG), HE|].
  apply (spec_c01n_correct L _ HG). split.
  - intros nt Hnt. apply in_map_iff in Hnt as (p & <- & _). reflexivity.
  - rewrite map_map. cbn [snd]. exact HE.
Qed.

(* "each legitimate face is represented exactly once": positions in the reported list *)
Lemma FOP_nth {A} (R : A -> A -> Prop) d l :
  ForallOrdPairs R l -> forall i j, (i < j)%nat -> (j < length l)%nat -> R (nth i l d) (nth j l d).
Proof.
  induction 1 as [|a l Hfa _ IH]; intros i j Hij Hj; [cbn in Hj; lia|].
  destruct j as [|j]; [lia|]. cbn [length] in Hj. destruct i as [|i]; cbn [nth].
  - rewrite Forall_forall in Hfa. apply Hfa, nth_In. lia.
  - apply IH; lia.
Qed.

Definition tnil : triple := ([], [], []).

Corollary enumeration_exactly_once L P w :
  legit_enumeration L P -> orbit_walk L w -> legit_walk L w ->
  exists i, (i < length P)%nat /\ rot (walk_darts w) (tdarts (nth i P tnil)) /\
            forall j, (j < length P)%nat -> rot (walk_darts w) (tdarts (nth j P tnil)) -> j = i.
Proof.
  intros HE HO Hl. destruct (le_complete _ _ HE w HO Hl) as (t & Ht & Hr).
  apply (In_nth _ _ tnil) in Ht as (i & Hi & Ei). exists i. split; [exact Hi|].
  split; [rewrite Ei; exact Hr|].
  intros j Hj Hrj. pose proof (le_once _ _ HE) as Ho.
  assert (Hij : rot (tdarts (nth i P tnil)) (tdarts (nth j P tnil)))
    by (rewrite Ei; eapply rot_trans; [apply rot_sym, Hr|exact Hrj]).
  destruct (Nat.lt_trichotomy j i) as [Hlt|[Heq|Hgt]]; [|exact Heq|]; exfalso.
  - apply (FOP_nth _ tnil _ Ho j i Hlt Hi). apply rot_sym, Hij.
  - apply (FOP_nth _ tnil _ Ho i j Hgt Hj). exact Hij.
Qed.

(* the closed-walk clause in the property's own words, by position *)
Lemma walk_ok_nth L w : forall vend i,
  walk_ok L w vend -> (i < length w)%nat ->
  snd (fst (nth i w dflt)) = dtail L (sdart (nth i w dflt)) /\
  dhead L (sdart (nth i w dflt)) = (if (S i <? length w)%nat then snd (fst (nth (S i) w dflt)) else vend).
Proof.
  induction w as [|s r IH]; intros vend i Hw Hi; [cbn in Hi; lia|].
  destruct Hw as (H1 & H2 & H3). destruct i as [|i].
  - cbn [nth]. split; [exact H1|]. rewrite H2. destruct r as [|s' r]; reflexivity.
  - cbn [length] in Hi. destruct (IH vend i H3 ltac:(lia)) as [K1 K2].
    change (nth (S i) (s :: r) dflt) with (nth i r dflt). split; [exact K1|]. rewrite K2.
    change (nth (S (S i)) (s :: r) dflt) with (nth (S i) r dflt). cbn [length].
    change (S (S i) <? S (length r))%nat with (S i <? length r)%nat. reflexivity.
Qed.

Theorem closed_walk_indexed L t :
  tlen_ok t -> closed_walk L (tsteps t) ->
  let n := length (t_edges t) in
  forall i, (i < n)%nat ->
    let e := nth i (t_edges t) 0%nat in let d := nth i (t_dirs t) true in
    (e < nE L)%nat /\
    dtail L (e, d) = nth i (t_verts t) 0%nat /\
    dhead L (e, d) = nth (S i mod n) (t_verts t) 0%nat.
Proof.
  intros [Hlv Hld] [Hval Hw] n i Hi e d.
  assert (Hlen : length (tsteps t) = n).
  { unfold tsteps. rewrite !combine_length, Hlv, Hld. fold n. lia. }
  assert (Hnth : forall k, nth k (tsteps t) dflt = (nth k (t_edges t) 0%nat, nth k (t_verts t) 0%nat, nth k (t_dirs t) true)).
  { intros k. unfold tsteps. rewrite combine_nth by (rewrite combine_length; lia).
    rewrite combine_nth by lia. reflexivity. }
  destruct (walk_ok_nth L _ _ i Hw ltac:(lia)) as [K1 K2].
  assert (Hin : In (nth i (tsteps t) dflt) (tsteps t)) by (apply nth_In; lia).
  specialize (Hval _ Hin). rewrite Hlen in K2. rewrite !Hnth in *.
  unfold sdart, valid_dart in *. cbn [fst snd] in *. fold e d in Hval, K1, K2.
  split; [exact Hval|]. split; [symmetry; exact K1|]. rewrite K2.
  destruct (Nat.ltb_spec (S i) n) as [Hlt|Hge].
  - rewrite Nat.mod_small by exact Hlt. reflexivity.
  - assert (S i = n) as -> by lia. rewrite Nat.mod_same by lia.
    assert (Hhd : forall l : list wstep, hd dflt l = nth 0 l dflt) by (intros [|? ?]; reflexivity).
    rewrite Hhd, Hnth. reflexivity.
Qed.
