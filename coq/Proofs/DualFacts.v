(* Proofs/DualFacts.v — lemmas about Model/Dual.v (make_dual over Q).  (C13) *)
From Coq Require Import List ZArith Bool Arith QArith Qround Lia Lqa.
From Koala Require Import Model.Lattice Model.Dual.
Import ListNotations.
Open Scope Q_scope.

(* ------------------------------------------------------------------ floor, mod 1, rounding on Q *)
Lemma qfloor_unique (x : Q) (n : Z) : inject_Z n <= x -> x < inject_Z (n + 1) -> Qfloor x = n.
Proof.
  intros Hle Hlt.
  pose proof (Qfloor_le x) as H1. pose proof (Qlt_floor x) as H2.
  assert (A : (Qfloor x < n + 1)%Z).
  { rewrite Zlt_Qlt. eapply Qle_lt_trans; [exact H1 | exact Hlt]. }
  assert (B : (n < Qfloor x + 1)%Z).
  { rewrite Zlt_Qlt. eapply Qle_lt_trans; [exact Hle | exact H2]. }
  lia.
Qed.

Lemma inject_Z_pred (n : Z) : inject_Z (n - 1) == inject_Z n - 1.
Proof. unfold Z.sub. rewrite inject_Z_plus. reflexivity. Qed.
Lemma inject_Z_succ (n : Z) : inject_Z (n + 1) == inject_Z n + 1.
Proof. rewrite inject_Z_plus. reflexivity. Qed.

Lemma qmod1_range (x : Q) : 0 <= qmod1 x /\ qmod1 x < 1.
Proof.
  unfold qmod1. pose proof (Qfloor_le x) as H1. pose proof (Qlt_floor x) as H2.
  rewrite inject_Z_succ in H2. split; lra.
Qed.

Lemma qmod1_shift (x : Q) : qmod1 x == x - inject_Z (Qfloor x).
Proof. reflexivity. Qed.

(* round-half-even recovers the integer part when the fractional offset is strictly inside (-1/2, 1/2) *)
Lemma qround_near (x s : Q) (n : Z) :
  x == inject_Z n + s -> -(1 # 2) < s -> s < 1 # 2 -> qround_half_even x = n.
Proof.
  intros Hx Hlo Hhi. unfold qround_half_even.
  destruct (Qlt_le_dec s 0) as [Hneg | Hpos].
  - assert (Hf : Qfloor x = (n - 1)%Z).
    { apply qfloor_unique.
      - rewrite inject_Z_pred, Hx. lra.
      - replace (n - 1 + 1)%Z with n by lia. rewrite Hx. lra. }
    rewrite Hf.
    assert (Hr : x - inject_Z (n - 1) > 1 # 2).
    { rewrite inject_Z_pred, Hx. lra. }
    destruct (Qcompare (x - inject_Z (n - 1)) (1 # 2)) eqn:E.
    + apply Qeq_alt in E. lra.
    + apply Qlt_alt in E. lra.
    + lia.
  - assert (Hf : Qfloor x = n).
    { apply qfloor_unique.
      - rewrite Hx. lra.
      - rewrite inject_Z_succ, Hx. lra. }
    rewrite Hf.
    assert (Hr : x - inject_Z n < 1 # 2) by (rewrite Hx; lra).
    destruct (Qcompare (x - inject_Z n) (1 # 2)) eqn:E.
    + apply Qeq_alt in E. lra.
    + reflexivity.
    + apply Qgt_alt in E. lra.
Qed.

(* the crossing computed by rounding recovers the true displacement t: if the two stored positions differ
   from t by an integer and |t| < 1/2 then  pb - pa + round(pa - pb) = t *)
Lemma round_recovers_displacement (pa pb t : Q) (m : Z) :
  pb - pa == t + inject_Z m -> -(1 # 2) < t -> t < 1 # 2 ->
  pb - pa + inject_Z (qround_half_even (pa - pb)) == t.
Proof.
  intros H Hlo Hhi.
  assert (Hr : qround_half_even (pa - pb) = (- m)%Z).
  { apply (qround_near _ (- t)); [ rewrite inject_Z_opp; lra | lra | lra ]. }
  rewrite Hr, inject_Z_opp. lra.
Qed.
