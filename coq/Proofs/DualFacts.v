(* Proofs/DualFacts.v — lemmas about Model/Dual.v (make_dual over Q).  (C13) *)
From Coq Require Import List ZArith Bool Arith QArith Qround Lia Lqa.
From Koala Require Import Model.Lattice Model.Dual.
Import ListNotations.
Open Scope Q_scope.

(* ------------------------------------------------------------------ floor, mod 1, rounding on Q *)
Lemma qfloor_unique (x : Q) (n : Z) : inject_Z n <= x -> x < inject_Z (n + 1) -> Qfloor x = n.
Proof.
  intros Hle Hlt.
  pose proof (Qfloor_le x) as H1. pose proof (Qlt_floor x) as H2.
  assert (A : (Qfloor x < n + 1)%Z).
  { rewrite Zlt_Qlt. eapply Qle_lt_trans; [exact H1 | exact Hlt]. }
  assert (B : (n < Qfloor x + 1)%Z).
  { rewrite Zlt_Qlt. eapply Qle_lt_trans; [exact Hle | exact H2]. }
  lia.
Qed.

Lemma inject_Z_pred (n : Z) : inject_Z (n - 1) == inject_Z n - 1.
Proof. unfold Z.sub. rewrite inject_Z_plus. reflexivity. Qed.
Lemma inject_Z_succ (n : Z) : inject_Z (n + 1) == inject_Z n + 1.
Proof. rewrite inject_Z_plus. reflexivity. Qed.

Lemma qmod1_range (x : Q) : 0 <= qmod1 x /\ qmod1 x < 1.
Proof.
  unfold qmod1. pose proof (Qfloor_le x) as H1. pose proof (Qlt_floor x) as H2.
  rewrite inject_Z_succ in H2. split; lra.
Qed.

Lemma qmod1_shift (x : Q) : qmod1 x == x - inject_Z (Qfloor x).
Proof. reflexivity. Qed.

(* round-half-even recovers the integer part when the fractional offset is strictly inside (-1/2, 1/2) *)
Lemma qround_near (x s : Q) (n : Z) :
  x == inject_Z n + s -> -(1 # 2) < s -> s < 1 # 2 -> qround_half_even x = n.
Proof.
  intros Hx Hlo Hhi. unfold qround_half_even.
  destruct (Qlt_le_dec s 0) as [Hneg | Hpos].
  - assert (Hf : Qfloor x = (n - 1)%Z).
    { apply qfloor_unique.
      - rewrite inject_Z_pred, Hx. lra.
      - replace (n - 1 + 1)%Z with n by lia. rewrite Hx. lra. }
    rewrite Hf.
    assert (Hr : x - inject_Z (n - 1) > 1 # 2).
    { rewrite inject_Z_pred, Hx. lra. }
    destruct (Qcompare (x - inject_Z (n - 1)) (1 # 2)) eqn:E.
    + apply Qeq_alt in E. lra.
    + apply Qlt_alt in E. lra.
    + lia.
  - assert (Hf : Qfloor x = n).
    { apply qfloor_unique.
      - rewrite Hx. lra.
      - rewrite inject_Z_succ, Hx. lra. }
    rewrite Hf.
    assert (Hr : x - inject_Z n < 1 # 2) by (rewrite Hx; lra).
    destruct (Qcompare (x - inject_Z n) (1 # 2)) eqn:E.
    + apply Qeq_alt in E. lra.
    + reflexivity.
    + apply Qgt_alt in E. lra.
Qed.

(* the crossing computed by rounding recovers the true displacement t: if the two stored positions differ
   from t by an integer and |t| < 1/2 then  pb - pa + round(pa - pb) = t *)
Lemma round_recovers_displacement (pa pb t : Q) (m : Z) :
  pb - pa == t + inject_Z m -> -(1 # 2) < t -> t < 1 # 2 ->
  pb - pa + inject_Z (qround_half_even (pa - pb)) == t.
Proof.
  intros H Hlo Hhi.
  assert (Hr : qround_half_even (pa - pb) = (- m)%Z).
  { apply (qround_near _ (- t)); [ rewrite inject_Z_opp; lra | lra | lra ]. }
  rewrite Hr, inject_Z_opp. lra.
Qed.

(* ================================================================== the model make_dual *)
From Koala Require Import Proofs.SurgeryFacts Proofs.SurgeryPerm.
Open Scope nat_scope.

Definition darts_of (p : plaquette) : list (nat * bool) := combine (p_edges p) (p_dirs p).
Definition no_plaquette : plaquette := mkPlaq [] [] [] vzero 0%Z 0%Z.

(* ---- unfolding ---- *)
Lemma make_dual_spec L D : make_dual L = DualOk D ->
  exists ps, find_all_plaquettes L = Some ps /\
    qpos D = map (fun p => qmod1v (centre L p)) ps /\
    qedges D = cleaned_edges (edges_plaquettes L ps) /\
    qcrossing D = map (dual_crossing_of (qpos D)) (qedges D).
Proof.
  unfold make_dual. destruct (find_all_plaquettes L) as [ps|]; [|discriminate].
  destruct (rows_nodup _); [|discriminate].
  intro H. injection H as <-. exists ps. repeat split; reflexivity.
Qed.

(* ---- the two-sided edges, in edge order ---- *)
Definition both_sides (r : ep_row) : bool :=
  match r with (Some _, Some _) => true | _ => false end.
Definition sides_of (r : ep_row) : nat * nat :=
  match r with (Some a, Some b) => (a, b) | _ => (0, 0) end.
Definition two_sided (ep : list ep_row) : list nat :=
  filter (fun e => both_sides (nth e ep (None, None))) (seq 0 (length ep)).

Lemma cleaned_edges_filter ep : cleaned_edges ep = map sides_of (filter both_sides ep).
Proof.
  unfold cleaned_edges. induction ep as [|[[a|] [b|]] ep IH]; cbn [flat_map filter both_sides map sides_of app]; rewrite ?IH; reflexivity.
Qed.

(* dual edge list = one edge per two-sided edge e, in edge order, joining (forward plaquette of e,
   backward plaquette of e) *)
Lemma cleaned_edges_spec ep :
  cleaned_edges ep = map (fun e => sides_of (nth e ep (None, None))) (two_sided ep).
Proof.
  rewrite cleaned_edges_filter. unfold two_sided.
  rewrite <- (map_nth_filter_seq (None, None) both_sides ep) at 1. rewrite map_map. reflexivity.
Qed.

(* ---- the edge -> plaquette table really holds the plaquettes on the two sides ---- *)
Definition ep_inv (qs : list plaquette) (tab : list ep_row) : Prop :=
  forall e a,
    (fst (nth e tab (None, None)) = Some a -> a < length qs /\ In (e, true) (darts_of (nth a qs no_plaquette))) /\
    (snd (nth e tab (None, None)) = Some a -> a < length qs /\ In (e, false) (darts_of (nth a qs no_plaquette))).

Lemma nth_set_nth_any {A} (x d : A) l n m :
  nth m (set_nth n x l) d = if (n =? m) && (n <? length l) then x else nth m l d.
Proof.
  destruct (Nat.eqb_spec n m) as [->|NE]; cbn [andb].
  - destruct (Nat.ltb_spec m (length l)) as [Hlt|Hge].
    + apply nth_set_nth_eq. exact Hlt.
    + rewrite !nth_overflow; [reflexivity | exact Hge | rewrite set_nth_length; exact Hge].
  - apply nth_set_nth_neq. exact NE.
Qed.

Lemma ep_write_inv qs n p tab ed :
  nth n qs no_plaquette = p -> n < length qs -> In ed (darts_of p) ->
  ep_inv qs tab -> ep_inv qs (ep_write n tab ed).
Proof.
  intros Hp Hn Hin Hinv e a. unfold ep_write.
  rewrite nth_set_nth_any.
  destruct ((fst ed =? e) && (fst ed <? length tab)) eqn:C.
  - apply andb_true_iff in C. destruct C as [C _]. apply Nat.eqb_eq in C. subst e.
    destruct ed as [e d]. cbn [fst snd] in *. destruct d; cbn [fst snd]; split; intro H.
    + injection H as <-. rewrite Hp. split; assumption.
    + apply (Hinv e a). exact H.
    + apply (Hinv e a). exact H.
    + injection H as <-. rewrite Hp. split; assumption.
  - apply Hinv.
Qed.

Lemma ep_fold_inner qs n p : nth n qs no_plaquette = p -> n < length qs ->
  forall l tab, incl l (darts_of p) -> ep_inv qs tab -> ep_inv qs (fold_left (ep_write n) l tab).
Proof.
  intros Hp Hn. induction l as [|ed l IH]; intros tab Hincl Hinv; [exact Hinv|].
  cbn [fold_left]. apply IH.
  - intros x Hx. apply Hincl. right. exact Hx.
  - apply (ep_write_inv qs n p); auto. apply Hincl. left. reflexivity.
Qed.

Lemma ep_inv_app qs p tab : ep_inv qs tab -> ep_inv (qs ++ [p]) tab.
Proof.
  intros H e a. destruct (H e a) as [H1 H2]. split; intro Hs.
  - destruct (H1 Hs) as [Hlt Hin]. rewrite app_length, app_nth1 by exact Hlt. split; [simpl; lia | exact Hin].
  - destruct (H2 Hs) as [Hlt Hin]. rewrite app_length, app_nth1 by exact Hlt. split; [simpl; lia | exact Hin].
Qed.

Lemma ep_fold_outer : forall rest done tab, ep_inv done tab ->
  ep_inv (done ++ rest)
    (fst (fold_left (fun (st : list ep_row * nat) (p : plaquette) =>
            (fold_left (ep_write (snd st)) (combine (p_edges p) (p_dirs p)) (fst st), S (snd st)))
          rest (tab, length done))).
Proof.
  induction rest as [|p rest IH]; intros done tab Hinv.
  - rewrite app_nil_r. exact Hinv.
  - cbn [fold_left fst snd].
    replace (done ++ p :: rest) with ((done ++ [p]) ++ rest) by (rewrite <- app_assoc; reflexivity).
    replace (S (length done)) with (length (done ++ [p])) by (rewrite app_length; simpl; lia).
    apply IH.
    apply (ep_fold_inner (done ++ [p]) (length done) p).
    + rewrite app_nth2, Nat.sub_diag by lia. reflexivity.
    + rewrite app_length. simpl. lia.
    + apply incl_refl.
    + apply ep_inv_app. exact Hinv.
Qed.

Lemma edges_plaquettes_inv L ps : ep_inv ps (edges_plaquettes L ps).
Proof.
  unfold edges_plaquettes.
  apply (ep_fold_outer ps [] (repeat (None, None) (nE L))).
  intros e a.
  match goal with |- context [nth e ?t ?d] =>
    assert (H : nth e t d = (None, None))
  end.
  { destruct (Nat.lt_ge_cases e (nE L)); [apply nth_repeat | apply nth_overflow; rewrite repeat_length; lia]. }
  unfold ep_row. rewrite H. split; discriminate.
Qed.

(* dual_vertices_edges: one dual vertex per plaquette at its centre mod 1 (inside [0,1)); the dual edge list
   is one edge per edge of L having a plaquette on both sides, in edge order; dual edge i, coming from the
   i-th two-sided edge e, joins (a, b) where the dart (e, +1) lies on plaquette a and the dart (e, -1) on
   plaquette b; crossing = round-half-even of pos[a] - pos[b] *)
Lemma dual_vertices_edges L D : make_dual L = DualOk D ->
  exists ps, find_all_plaquettes L = Some ps /\
    length (qpos D) = length ps /\
    (forall n, n < length ps ->
       nth n (qpos D) qvzero = qmod1v (centre L (nth n ps no_plaquette)) /\
       (0 <= fst (nth n (qpos D) qvzero) /\ fst (nth n (qpos D) qvzero) < 1)%Q /\
       (0 <= snd (nth n (qpos D) qvzero) /\ snd (nth n (qpos D) qvzero) < 1)%Q) /\
    let ep := edges_plaquettes L ps in
    qedges D = map (fun e => sides_of (nth e ep (None, None))) (two_sided ep) /\
    length (qcrossing D) = length (qedges D) /\
    (forall i, i < length (qedges D) ->
       let e := nth i (two_sided ep) 0 in
       let ab := nth i (qedges D) (0, 0) in
       fst ab < length ps /\ snd ab < length ps /\
       In (e, true) (darts_of (nth (fst ab) ps no_plaquette)) /\
       In (e, false) (darts_of (nth (snd ab) ps no_plaquette)) /\
       nth i (qcrossing D) vzero = dual_crossing_of (qpos D) ab).
Proof.
  intro H. destruct (make_dual_spec L D H) as (ps & Hps & Hpos & Hed & Hcr).
  exists ps. split; [exact Hps|]. split; [rewrite Hpos; apply map_length|]. split.
  - intros n Hn.
    assert (E : nth n (qpos D) qvzero = qmod1v (centre L (nth n ps no_plaquette))).
    { rewrite Hpos. rewrite (nth_indep _ _ (qmod1v (centre L no_plaquette))) by (rewrite map_length; exact Hn).
      apply (map_nth (fun p => qmod1v (centre L p))). }
    split; [exact E|]. rewrite E. unfold qmod1v. cbn [fst snd]. split; apply qmod1_range.
  - cbv zeta. rewrite Hed, cleaned_edges_spec. split; [reflexivity|].
    split; [rewrite Hcr, map_length, Hed, cleaned_edges_spec; reflexivity|].
    intros i Hi. rewrite map_length in Hi.
    set (ep := edges_plaquettes L ps) in *.
    set (f := fun e => sides_of (nth e ep (None, None))).
    assert (Enth : nth i (map f (two_sided ep)) (0, 0) = f (nth i (two_sided ep) 0)).
    { rewrite (nth_indep _ _ (f 0)) by (rewrite map_length; exact Hi). apply map_nth. }
    rewrite Enth.
    set (e := nth i (two_sided ep) 0) in *.
    assert (Hb : both_sides (nth e ep (None, None)) = true).
    { assert (Hin : In e (two_sided ep)) by (apply nth_In; exact Hi).
      unfold two_sided in Hin. apply filter_In in Hin. exact (proj2 Hin). }
    pose proof (edges_plaquettes_inv L ps e) as Hinv. fold ep in Hinv.
    unfold f. destruct (nth e ep (None, None)) as [[a|] [b|]] eqn:Er; try discriminate Hb.
    cbn [sides_of fst snd]. cbn [fst snd] in Hinv.
    destruct (proj1 (Hinv a) eq_refl) as [Ha Hda]. destruct (proj2 (Hinv b) eq_refl) as [Hb' Hdb].
    split; [exact Ha|]. split; [exact Hb'|]. split; [exact Hda|]. split; [exact Hdb|].
    rewrite Hcr, Hed, cleaned_edges_spec. fold ep.
    rewrite (nth_indep _ _ (dual_crossing_of (qpos D) (0, 0))) by (rewrite !map_length; exact Hi).
    rewrite (map_nth (dual_crossing_of (qpos D))). fold f. rewrite Enth. unfold f. fold e. rewrite Er. reflexivity.
Qed.

(* dual_vector_true: if t is congruent to (centre of b) - (centre of a) modulo the integer lattice (the true
   centre-to-centre displacement, unwrapped through the shared edge, is such a t) and |t_x|, |t_y| < 1/2,
   then the dual edge vector pos[b] - pos[a] + crossing equals t *)
Lemma dual_vector_true L D ps i (t : qvec) (m : Z * Z) :
  make_dual L = DualOk D -> find_all_plaquettes L = Some ps -> i < length (qedges D) ->
  let ab := nth i (qedges D) (0, 0) in
  let ca := centre L (nth (fst ab) ps no_plaquette) in
  let cb := centre L (nth (snd ab) ps no_plaquette) in
  (fst cb - fst ca == fst t + inject_Z (fst m))%Q -> (snd cb - snd ca == snd t + inject_Z (snd m))%Q ->
  (-(1 # 2) < fst t)%Q -> (fst t < 1 # 2)%Q -> (-(1 # 2) < snd t)%Q -> (snd t < 1 # 2)%Q ->
  (fst (qevec D i) == fst t)%Q /\ (snd (qevec D i) == snd t)%Q.
Proof.
  intros HD Hps Hi. cbv zeta. intros Hx Hy Hx1 Hx2 Hy1 Hy2.
  destruct (dual_vertices_edges L D HD) as (ps' & Hps' & _ & Hpos & Hrest).
  rewrite Hps in Hps'. injection Hps' as <-.
  cbv zeta in Hrest. destruct Hrest as (_ & _ & Hedge).
  destruct (Hedge i Hi) as (Ha & Hb & _ & _ & Hc). cbv zeta in Hc.
  unfold qevec. rewrite Hc.
  destruct (Hpos _ Ha) as (Epa & _). destruct (Hpos _ Hb) as (Epb & _).
  set (ab := nth i (qedges D) (0, 0)) in *.
  unfold dual_crossing_of, qvsub. cbn [fst snd].
  set (pa := nth (fst ab) (qpos D) qvzero) in *. set (pb := nth (snd ab) (qpos D) qvzero) in *.
  set (ca := centre L (nth (fst ab) ps no_plaquette)) in *.
  set (cb := centre L (nth (snd ab) ps no_plaquette)) in *.
  assert (Fa1 : (fst pa == fst ca - inject_Z (Qfloor (fst ca)))%Q) by (rewrite Epa; reflexivity).
  assert (Fa2 : (snd pa == snd ca - inject_Z (Qfloor (snd ca)))%Q) by (rewrite Epa; reflexivity).
  assert (Fb1 : (fst pb == fst cb - inject_Z (Qfloor (fst cb)))%Q) by (rewrite Epb; reflexivity).
  assert (Fb2 : (snd pb == snd cb - inject_Z (Qfloor (snd cb)))%Q) by (rewrite Epb; reflexivity).
  split.
  - apply (round_recovers_displacement _ _ _ (fst m - Qfloor (fst cb) + Qfloor (fst ca))%Z); [|assumption|assumption].
    rewrite Fa1, Fb1. unfold Z.sub. rewrite !inject_Z_plus, inject_Z_opp. lra.
  - apply (round_recovers_displacement _ _ _ (snd m - Qfloor (snd cb) + Qfloor (snd ca))%Z); [|assumption|assumption].
    rewrite Fa2, Fb2. unfold Z.sub. rewrite !inject_Z_plus, inject_Z_opp. lra.
Qed.
