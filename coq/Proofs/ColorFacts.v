(* Proofs/ColorFacts.v — soundness, completeness and exactness of the CNF encodings of
   Model/Color.v (edge colouring, vertex colouring, dimerisation), for every graph and every
   number of colours, and the end-to-end corollaries under the SAT-solver contract. *)
From Coq Require Import List ZArith Bool Arith Lia ZifyBool.
From Koala Require Import Model.Cnf Model.Color Proofs.CnfFacts.
Import ListNotations.

(* ------------------------------------------------------------------ small list facts *)

Lemma nth_map_seq {A} (f : nat -> A) (d : A) n q : q < n -> nth q (map f (seq 0 n)) d = f q.
Proof.
  intros H. rewrite nth_indep with (d' := f 0) by (now rewrite map_length, seq_length).
  rewrite map_nth, seq_nth by auto. reflexivity.
Qed.

Lemma eval_cnf_flat_map {A} nu (g : A -> cnf) (l : list A) :
  eval_cnf nu (flat_map g l) = true <-> forall x, In x l -> eval_cnf nu (g x) = true.
Proof.
  rewrite eval_cnf_forall. split.
  - intros H x Hx. apply eval_cnf_forall. intros c Hc. apply H. apply in_flat_map. eauto.
  - intros H c Hc. apply in_flat_map in Hc as [x [Hx Hc]]. specialize (H x Hx).
    rewrite eval_cnf_forall in H. auto.
Qed.

Lemma eval_cnf_map {A} nu (g : A -> clause) (l : list A) :
  eval_cnf nu (map g l) = true <-> forall x, In x l -> eval_clause nu (g x) = true.
Proof.
  rewrite eval_cnf_forall. split.
  - intros H x Hx. apply H. now apply in_map.
  - intros H c Hc. apply in_map_iff in Hc as [x [<- Hx]]. auto.
Qed.

Lemma amo_lits l cl x : In cl (amo l) -> In x cl -> exists a, In a l /\ x = (- a)%Z.
Proof.
  induction l as [|a l IH]; simpl; intros Hc Hx; [contradiction|].
  apply in_app_iff in Hc as [Hc|Hc].
  - apply in_map_iff in Hc as [b [<- Hb]]. destruct Hx as [<-|[<-|[]]]; eauto.
  - destruct (IH Hc Hx) as [b [Hb ->]]. eauto.
Qed.

(* ------------------------------------------------------------------ variable numbering *)

Lemma lit_pos n i c : (0 < lit n i c)%Z.
Proof. unfold lit. lia. Qed.

Lemma lit_range k n i c : i < k -> c < n -> (1 <= lit n i c <= Z.of_nat (k * n))%Z.
Proof. unfold lit. intros. nia. Qed.

Lemma lit_index n i c : Z.to_nat (lit n i c - 1) = i * n + c.
Proof. unfold lit. lia. Qed.

Lemma lit_succ n i c : Z.of_nat (S (i * n + c)) = lit n i c.
Proof. unfold lit. lia. Qed.

Lemma divmod_pos k n p : 0 < n -> p < k * n -> p / n < k /\ p mod n < n /\ p = (p / n) * n + p mod n.
Proof.
  intros Hn Hp. assert (Hm := Nat.mod_upper_bound p n ltac:(lia)).
  assert (Hd := Nat.div_mod p n ltac:(lia)).
  repeat split; auto; [|lia]. apply Nat.div_lt_upper_bound; lia.
Qed.

Lemma div_lit n i c : c < n -> (i * n + c) / n = i.
Proof. intros. rewrite Nat.div_add_l by lia. rewrite Nat.div_small by auto. lia. Qed.

Lemma mod_lit n i c : c < n -> (i * n + c) mod n = c.
Proof. intros. rewrite Nat.add_comm, Nat.mod_add by lia. now apply Nat.mod_small. Qed.

Lemma row_lits_pos n i : Forall (fun a => (0 < a)%Z) (row_lits n i).
Proof. apply Forall_forall. intros a Ha. apply in_map_iff in Ha as [c [<- _]]. apply lit_pos. Qed.

(* ------------------------------------------------------------------ semantics of color_cnf *)

Definition colour_count (nu : valuation) (n i : nat) : nat :=
  length (filter (fun c => nu (lit n i c)) (seq 0 n)).

Lemma eval_color_cnf nu k n conf fixed :
  eval_cnf nu (color_cnf k n conf fixed) = true <->
  (forall i, i < k -> colour_count nu n i = 1)
  /\ (forall i j c, In (i, j) conf -> c < n -> nu (lit n i c) = true -> nu (lit n j c) = true -> False)
  /\ (forall col e, In (col, e) fixed -> nu (lit n e col) = true).
Proof.
  unfold color_cnf. rewrite !eval_cnf_app, !andb_true_iff.
  rewrite !eval_cnf_flat_map, eval_cnf_map.
  split; intros [H1 [H2 H3]]; repeat split.
  - intros i Hi. specialize (H1 i ltac:(apply in_seq; lia)).
    rewrite eval_equals1 in H1 by apply row_lits_pos.
    unfold count, row_lits in H1. rewrite filter_length_map in H1. unfold colour_count. lia.
  - intros i j c Hin Hc Hi Hj. specialize (H2 (i, j) Hin). rewrite eval_cnf_map in H2.
    specialize (H2 c ltac:(apply in_seq; lia)). unfold eval_clause in H2. simpl in H2.
    rewrite !eval_lit_neg in H2 by apply lit_pos. rewrite Hi, Hj in H2. discriminate.
  - intros col e Hin. specialize (H3 (col, e) Hin). unfold eval_clause in H3. simpl in H3.
    rewrite eval_lit_pos in H3 by apply lit_pos. now rewrite orb_false_r in H3.
  - intros i Hi. apply in_seq in Hi. rewrite eval_equals1 by apply row_lits_pos.
    unfold count, row_lits. rewrite filter_length_map. specialize (H1 i ltac:(lia)).
    unfold colour_count in H1. rewrite H1. reflexivity.
  - intros [i j] Hin. rewrite eval_cnf_map. intros c Hc. apply in_seq in Hc.
    unfold eval_clause. simpl. rewrite !eval_lit_neg by apply lit_pos.
    destruct (nu (lit n i c)) eqn:Ei, (nu (lit n j c)) eqn:Ej; simpl; auto.
    exfalso. eapply (H2 i j c); eauto. lia.
  - intros [col e] Hin. unfold eval_clause. simpl. rewrite eval_lit_pos by apply lit_pos.
    rewrite (H3 col e Hin). reflexivity.
Qed.

Lemma colour_count_1_elim nu n i :
  colour_count nu n i = 1 -> exists c, c < n /\ forall j, j < n -> nu (lit n i j) = (j =? c).
Proof.
  intros H. unfold colour_count in H.
  destruct (count1_unique _ _ (seq_NoDup n 0) H) as [c [_ [Hin [Hc Hu]]]].
  apply in_seq in Hin. exists c. split; [lia|]. intros j Hj.
  destruct (nu (lit n i j)) eqn:E.
  - symmetry. apply Nat.eqb_eq. apply Hu; auto. apply in_seq. lia.
  - symmetry. apply Nat.eqb_neq. intros ->. congruence.
Qed.

Lemma colour_count_1_intro nu n i c :
  c < n -> (forall j, j < n -> nu (lit n i j) = (j =? c)) -> colour_count nu n i = 1.
Proof.
  intros Hc H. unfold colour_count.
  rewrite (count1_intro (fun c0 => nu (lit n i c0)) (seq 0 n) c); auto.
  - apply seq_NoDup.
  - apply in_seq. lia.
  - rewrite H by auto. apply Nat.eqb_refl.
  - intros y Hy Hp. apply in_seq in Hy. rewrite H in Hp by lia. now apply Nat.eqb_eq.
Qed.

(* ------------------------------------------------------------------ decoding *)

Lemma row_length m n i : length (row m n i) = n.
Proof. unfold row. now rewrite map_length, seq_length. Qed.

Lemma row_nth m n i q : q < n -> nth q (row m n i) 0%Z = nth (i * n + q) m 0%Z.
Proof. intros H. unfold row. now rewrite nth_map_seq. Qed.

Lemma decode_colors_length k n m : length (decode_colors k n m) = k.
Proof. unfold decode_colors. now rewrite map_length, seq_length. Qed.

Lemma decode_colors_nth k n m i : i < k -> nth i (decode_colors k n m) 0 = argmax (row m n i).
Proof. intros H. unfold decode_colors. now rewrite nth_map_seq. Qed.

Lemma decode_row m k n i c :
  wf_model (k * n) m = true -> i < k -> c < n ->
  (forall j, j < n -> val m (lit n i j) = (j =? c)) -> argmax (row m n i) = c.
Proof.
  intros Hwf Hi Hc H. apply argmax_unique_max.
  - now rewrite row_length.
  - rewrite row_length. intros q Hq Hne. rewrite !row_nth by auto.
    rewrite (wf_model_nth_sign (k * n) m (i * n + q)) by (auto; nia).
    rewrite (wf_model_nth_sign (k * n) m (i * n + c)) by (auto; nia).
    rewrite !lit_succ, (H q Hq), (H c Hc), Nat.eqb_refl.
    destruct (q =? c) eqn:E; [apply Nat.eqb_eq in E; lia|].
    pose proof (lit_pos n i q). pose proof (lit_pos n i c). lia.
Qed.

(* ------------------------------------------------------------------ the generic colouring problem *)

Section Generic.
  Variables k n : nat.
  Variable conf fixed : list (nat * nat).
  Hypothesis n_pos : 0 < n.
  Hypothesis conf_ok : forall i j, In (i, j) conf -> i < k /\ j < k.
  Hypothesis fixed_ok : forall col e, In (col, e) fixed -> col < n /\ e < k.

  (* what a valid assignment is: one colour in range per item, listed pairs differ, fixed honoured *)
  Definition coloring_ok (c : list nat) : Prop :=
    length c = k
    /\ (forall i, i < k -> nth i c 0 < n)
    /\ (forall i j, In (i, j) conf -> nth i c 0 <> nth j c 0)
    /\ (forall col e, In (col, e) fixed -> nth e c 0 = col).

  Let f := color_cnf k n conf fixed.

  Lemma generic_decode_val m :
    wf_model (k * n) m = true -> eval_cnf (val m) f = true ->
    forall i j, i < k -> j < n -> val m (lit n i j) = (j =? nth i (decode_colors k n m) 0).
  Proof.
    intros Hwf He i j Hi Hj. apply eval_color_cnf in He as [H1 _].
    destruct (colour_count_1_elim _ _ _ (H1 i Hi)) as [c [Hc H]].
    rewrite decode_colors_nth by auto. rewrite (decode_row m k n i c); auto.
  Qed.

  Theorem generic_sound m :
    wf_model (k * n) m = true -> eval_cnf (val m) f = true -> coloring_ok (decode_colors k n m).
  Proof.
    intros Hwf He. pose proof (generic_decode_val m Hwf He) as Hv.
    apply eval_color_cnf in He as [H1 [H2 H3]].
    repeat split.
    - apply decode_colors_length.
    - intros i Hi. destruct (colour_count_1_elim _ _ _ (H1 i Hi)) as [c [Hc H]].
      rewrite decode_colors_nth by auto. rewrite (decode_row m k n i c); auto.
    - intros i j Hin Heq. destruct (conf_ok i j Hin) as [Hi Hj].
      set (c := nth i (decode_colors k n m) 0) in *.
      assert (Hc : c < n).
      { destruct (colour_count_1_elim _ _ _ (H1 i Hi)) as [c' [Hc' H]].
        unfold c. rewrite decode_colors_nth by auto. rewrite (decode_row m k n i c'); auto. }
      apply (H2 i j c Hin Hc).
      + rewrite Hv by auto. apply Nat.eqb_refl.
      + rewrite Hv by auto. rewrite <- Heq. apply Nat.eqb_refl.
    - intros col e Hin. destruct (fixed_ok col e Hin) as [Hc Hek].
      specialize (H3 col e Hin). rewrite Hv in H3 by auto. apply Nat.eqb_eq in H3. auto.
  Qed.

  Lemma encode_val c i j :
    i < k -> j < n -> val (encode_colors k n c) (lit n i j) = (j =? nth i c 0).
  Proof.
    intros Hi Hj. unfold encode_colors. rewrite val_model_of_val by (apply lit_range; auto).
    unfold val_of_colors. cbv zeta. rewrite lit_index, div_lit, mod_lit by auto. apply Nat.eqb_sym.
  Qed.

  Theorem generic_complete c :
    coloring_ok c ->
    wf_model (k * n) (encode_colors k n c) = true
    /\ eval_cnf (val (encode_colors k n c)) f = true
    /\ decode_colors k n (encode_colors k n c) = c.
  Proof.
    intros [Hl [Hr [Hc Hf]]].
    assert (Hwf : wf_model (k * n) (encode_colors k n c) = true) by apply wf_model_of_val.
    assert (He : eval_cnf (val (encode_colors k n c)) f = true).
    { apply eval_color_cnf. repeat split.
      - intros i Hi. apply colour_count_1_intro with (c := nth i c 0); auto.
        intros j Hj. now apply encode_val.
      - intros i j col Hin Hcol Hi Hj. destruct (conf_ok i j Hin) as [Hik Hjk].
        rewrite encode_val in Hi, Hj by auto. apply Nat.eqb_eq in Hi, Hj.
        apply (Hc i j Hin). congruence.
      - intros col e Hin. destruct (fixed_ok col e Hin) as [Hcn Hek].
        rewrite encode_val by auto. apply Nat.eqb_eq. symmetry. now apply Hf. }
    repeat split; auto.
    apply nth_ext with (d := 0) (d' := 0).
    - now rewrite decode_colors_length.
    - rewrite decode_colors_length. intros i Hi. rewrite decode_colors_nth by auto.
      apply (decode_row _ k n i); auto. intros j Hj. now apply encode_val.
  Qed.

  (* decoding loses nothing: a satisfying total assignment is the encoding of its decoding *)
  Theorem generic_exact m :
    wf_model (k * n) m = true -> eval_cnf (val m) f = true ->
    encode_colors k n (decode_colors k n m) = m.
  Proof.
    intros Hwf He. rewrite (wf_model_eq _ _ Hwf) at 2. unfold encode_colors.
    apply model_of_val_ext. intros v Hv.
    destruct (divmod_pos k n (Z.to_nat (v - 1)) n_pos ltac:(lia)) as [Hd [Hm Hp]].
    assert (Ev : v = lit n (Z.to_nat (v - 1) / n) (Z.to_nat (v - 1) mod n)) by (unfold lit; lia).
    rewrite Ev at 2. rewrite (generic_decode_val m Hwf He) by auto.
    unfold val_of_colors. cbv zeta. apply Nat.eqb_sym.
  Qed.

  Theorem generic_decode_inj m1 m2 :
    wf_model (k * n) m1 = true -> eval_cnf (val m1) f = true ->
    wf_model (k * n) m2 = true -> eval_cnf (val m2) f = true ->
    decode_colors k n m1 = decode_colors k n m2 -> m1 = m2.
  Proof.
    intros W1 E1 W2 E2 H. rewrite <- (generic_exact m1 W1 E1), <- (generic_exact m2 W2 E2). now rewrite H.
  Qed.

  Theorem generic_maxvar : maxvar f = k * n.
  Proof.
    apply maxvar_eq.
    - intros cl l Hcl Hl. unfold f, color_cnf in Hcl. rewrite !in_app_iff in Hcl.
      assert (Hb : forall i c, i < k -> c < n -> Z.to_nat (Z.abs (lit n i c)) <= k * n
                                             /\ Z.to_nat (Z.abs (- lit n i c)) <= k * n).
      { intros i c Hi Hc. pose proof (lit_range k n i c Hi Hc). lia. }
      destruct Hcl as [Hcl|[Hcl|Hcl]].
      + apply in_flat_map in Hcl as [i [Hi Hcl]]. apply in_seq in Hi.
        destruct Hcl as [<-|Hcl].
        * apply in_map_iff in Hl as [c [<- Hc]]. apply in_seq in Hc. apply Hb; lia.
        * destruct (amo_lits _ _ _ Hcl Hl) as [a [Ha ->]].
          apply in_map_iff in Ha as [c [<- Hc]]. apply in_seq in Hc. apply Hb; lia.
      + apply in_flat_map in Hcl as [[i j] [Hin Hcl]]. destruct (conf_ok i j Hin).
        apply in_map_iff in Hcl as [c [<- Hc]]. apply in_seq in Hc. simpl in Hl.
        destruct Hl as [<-|[<-|[]]]; apply Hb; lia.
      + apply in_map_iff in Hcl as [[col e] [<- Hin]]. destruct (fixed_ok col e Hin).
        simpl in Hl. destruct Hl as [<-|[]]. apply Hb; lia.
    - destruct k as [|k']; [left; lia|right].
      exists (row_lits n k'), (lit n k' (n - 1)). repeat split.
      + unfold f, color_cnf. apply in_app_iff. left. apply in_flat_map. exists k'. split.
        * apply in_seq. lia.
        * left. reflexivity.
      + unfold row_lits. apply in_map. apply in_seq. lia.
      + unfold lit. nia.
  Qed.
End Generic.

(* ------------------------------------------------------------------ edge colouring *)

(* two edges meet at a vertex *)
Definition meet (e1 e2 : edge) : Prop :=
  fst e1 = fst e2 \/ fst e1 = snd e2 \/ snd e1 = fst e2 \/ snd e1 = snd e2.

Lemma shares_meet e1 e2 : shares e1 e2 = true <-> meet e1 e2.
Proof. unfold shares, touches, meet. destruct e1, e2; simpl. lia. Qed.

Lemma meet_sym e1 e2 : meet e1 e2 -> meet e2 e1.
Proof. unfold meet. intuition. Qed.

(* the property's notion: colours in range, edges meeting at a vertex differ, fixed honoured *)
Definition proper_edge_coloring (edges : list edge) (n : nat) (fixed : list (nat * nat)) (c : list nat) : Prop :=
  length c = length edges
  /\ (forall i, i < length edges -> nth i c 0 < n)
  /\ (forall i j, i < length edges -> j < length edges -> i <> j ->
                  meet (nth i edges e0) (nth j edges e0) -> nth i c 0 <> nth j c 0)
  /\ (forall col e, In (col, e) fixed -> nth e c 0 = col).

Lemma edge_neighbours_spec edges i j :
  In j (edge_neighbours edges i) <->
  j < length edges /\ j <> i /\ meet (nth i edges e0) (nth j edges e0).
Proof.
  unfold edge_neighbours. rewrite filter_In, in_seq, andb_true_iff, shares_meet.
  rewrite negb_true_iff, Nat.eqb_neq. intuition lia.
Qed.

Lemma edge_conflicts_spec edges i j :
  In (i, j) (edge_conflicts edges) <->
  i < length edges /\ j < length edges /\ i <> j /\ meet (nth i edges e0) (nth j edges e0).
Proof.
  unfold edge_conflicts. rewrite in_flat_map. split.
  - intros [i' [Hi' Hin]]. apply in_map_iff in Hin as [j' [Heq Hj']]. inversion Heq; subst.
    apply in_seq in Hi'. apply edge_neighbours_spec in Hj'. intuition lia.
  - intros [Hi [Hj [Hne Hm]]]. exists i. split; [apply in_seq; lia|].
    apply in_map. apply edge_neighbours_spec. intuition.
Qed.

Lemma coloring_ok_edge edges n fixed c :
  coloring_ok (length edges) n (edge_conflicts edges) fixed c <-> proper_edge_coloring edges n fixed c.
Proof.
  unfold coloring_ok, proper_edge_coloring. split; intros [Hl [Hr [Hc Hf]]]; repeat split; auto.
  - intros i j Hi Hj Hne Hm. apply Hc. apply edge_conflicts_spec. auto.
  - intros i j Hin. apply edge_conflicts_spec in Hin as [Hi [Hj [Hne Hm]]]. auto.
Qed.

Lemma edge_conflicts_ok edges i j : In (i, j) (edge_conflicts edges) -> i < length edges /\ j < length edges.
Proof. intros H. apply edge_conflicts_spec in H. intuition. Qed.

Lemma edge_color_cnf_some edges n fixed f :
  edge_color_cnf edges n fixed = Some f <->
  0 < n /\ (forall col e, In (col, e) fixed -> col < n /\ e < length edges)
  /\ f = color_cnf (length edges) n (edge_conflicts edges) fixed.
Proof.
  unfold edge_color_cnf.
  destruct ((1 <=? n) && forallb (fun p => (fst p <? n) && (snd p <? length edges)) fixed) eqn:E.
  - apply andb_true_iff in E as [En Ef]. rewrite forallb_forall in Ef. split.
    + intros H. inversion H; subst. repeat split; try lia; specialize (Ef (col, e) H0); simpl in Ef; lia.
    + intros [_ [_ ->]]. reflexivity.
  - split; [discriminate|]. intros [Hn [Hf _]]. exfalso.
    apply andb_false_iff in E as [E|E]; [lia|].
    assert (forallb (fun p => (fst p <? n) && (snd p <? length edges)) fixed = true); [|congruence].
    apply forallb_forall. intros [col e] Hin. specialize (Hf col e Hin). simpl. lia.
Qed.

(* ------------------------------------------------------------------ vertex colouring *)

Definition proper_vertex_coloring (adj : list edge) (n : nat) (c : list nat) : Prop :=
  length c = nverts adj
  /\ (forall v, v < nverts adj -> nth v c 0 < n)
  /\ (forall i j, In (i, j) adj -> nth i c 0 <> nth j c 0).

Lemma list_max_ge l x : In x l -> x <= list_max l.
Proof.
  intros H. assert (Hf : Forall (fun k => k <= list_max l) l) by (apply list_max_le; lia).
  rewrite Forall_forall in Hf. auto.
Qed.

Lemma adj_ok adj i j : In (i, j) adj -> i < nverts adj /\ j < nverts adj.
Proof.
  intros H. unfold nverts.
  assert (In i (flat_map (fun p : edge => [fst p; snd p]) adj)) by (apply in_flat_map; exists (i, j); simpl; auto).
  assert (In j (flat_map (fun p : edge => [fst p; snd p]) adj)) by (apply in_flat_map; exists (i, j); simpl; auto).
  split; apply Nat.lt_succ_r; now apply list_max_ge.
Qed.

Lemma coloring_ok_vertex adj n c :
  coloring_ok (nverts adj) n adj [] c <-> proper_vertex_coloring adj n c.
Proof.
  unfold coloring_ok, proper_vertex_coloring. split; intros H; intuition. contradiction.
Qed.

Lemma vertex_color_cnf_some adj n f :
  vertex_color_cnf adj n = Some f <-> adj <> [] /\ 0 < n /\ f = color_cnf (nverts adj) n adj [].
Proof.
  unfold vertex_color_cnf. destruct adj as [|a adj].
  - split; [discriminate|]. intros [H _]. congruence.
  - destruct (1 <=? n) eqn:E.
    + split; [intros H; inversion H; repeat split; auto; [discriminate|lia]|intros [_ [_ ->]]; reflexivity].
    + split; [discriminate|]. intros [_ [Hn _]]. lia.
Qed.

(* ------------------------------------------------------------------ dimerisation *)

(* d is a 0/1 edge labelling in which every vertex v < nv touches exactly one chosen edge *)
Definition perfect_matching (nv : nat) (edges : list edge) (d : list nat) : Prop :=
  length d = length edges
  /\ (forall e, e < length edges -> nth e d 0 = 0 \/ nth e d 0 = 1)
  /\ (forall v, v < nv ->
        exists e, (e < length edges /\ (fst (nth e edges e0) = v \/ snd (nth e edges e0) = v) /\ nth e d 0 = 1)
                  /\ forall e', e' < length edges -> (fst (nth e' edges e0) = v \/ snd (nth e' edges e0) = v) ->
                                nth e' d 0 = 1 -> e' = e).

Lemma incident_spec edges v e :
  In e (incident edges v) <-> e < length edges /\ (fst (nth e edges e0) = v \/ snd (nth e edges e0) = v).
Proof.
  unfold incident, touches. rewrite filter_In, in_seq, orb_true_iff, !Nat.eqb_eq. intuition lia.
Qed.

Lemma incident_NoDup edges v : NoDup (incident edges v).
Proof. unfold incident. apply NoDup_filter. apply seq_NoDup. Qed.

Lemma dlit_pos e : (0 < dlit e)%Z.
Proof. unfold dlit. lia. Qed.

Lemma eval_dimer_cnf nu nv edges :
  eval_cnf nu (dimer_cnf nv edges) = true <->
  forall v, v < nv -> length (filter (fun e => nu (dlit e)) (incident edges v)) = 1.
Proof.
  unfold dimer_cnf. rewrite eval_cnf_flat_map.
  assert (Hp : forall v, Forall (fun a => (0 < a)%Z) (map dlit (incident edges v))).
  { intros v. apply Forall_forall. intros a Ha. apply in_map_iff in Ha as [e [<- _]]. apply dlit_pos. }
  split; intros H v Hv.
  - specialize (H v ltac:(apply in_seq; lia)). rewrite eval_equals1 in H by auto.
    unfold count in H. rewrite filter_length_map in H. lia.
  - apply in_seq in Hv. rewrite eval_equals1 by auto. unfold count. rewrite filter_length_map.
    rewrite H by lia. reflexivity.
Qed.

Lemma decode_dimer_length m : length (decode_dimer m) = length m.
Proof. unfold decode_dimer. now rewrite map_length. Qed.

Lemma decode_dimer_nth m e :
  e < length m -> nth e (decode_dimer m) 0 = if val m (dlit e) then 1 else 0.
Proof.
  intros H. unfold decode_dimer.
  set (g := fun x : Z => if (0 <? x)%Z then 1 else 0).
  rewrite nth_indep with (d' := g 0%Z) by (now rewrite map_length).
  rewrite map_nth. unfold g. unfold val, dlit. replace (Z.to_nat (Z.of_nat e + 1 - 1)) with e by lia. reflexivity.
Qed.

Lemma matching_count nv edges (p : nat -> bool) (d : list nat) :
  (forall e, e < length edges -> p e = (nth e d 0 =? 1)) ->
  (forall v, v < nv -> length (filter p (incident edges v)) = 1) <->
  (forall v, v < nv ->
        exists e, (e < length edges /\ (fst (nth e edges e0) = v \/ snd (nth e edges e0) = v) /\ nth e d 0 = 1)
                  /\ forall e', e' < length edges -> (fst (nth e' edges e0) = v \/ snd (nth e' edges e0) = v) ->
                                nth e' d 0 = 1 -> e' = e).
Proof.
  intros Hp. split; intros H v Hv; specialize (H v Hv).
  - destruct (count1_unique _ _ (incident_NoDup edges v) H) as [e [_ [Hin [Hpe Hu]]]].
    apply incident_spec in Hin as [He Ht]. exists e. repeat split; auto.
    + rewrite Hp in Hpe by auto. now apply Nat.eqb_eq.
    + intros e' He' Ht' Hd'. apply Hu; [apply incident_spec; auto|]. rewrite Hp by auto. now apply Nat.eqb_eq.
  - destruct H as [e [[He [Ht Hd]] Hu]].
    rewrite (count1_intro p (incident edges v) e); auto.
    + apply incident_NoDup.
    + apply incident_spec; auto.
    + rewrite Hp by auto. now apply Nat.eqb_eq.
    + intros y Hy Hpy. apply incident_spec in Hy as [Hy Hty]. apply Hu; auto.
      rewrite Hp in Hpy by auto. now apply Nat.eqb_eq.
Qed.

Theorem dimer_sound nv edges m :
  wf_model (length edges) m = true -> eval_cnf (val m) (dimer_cnf nv edges) = true ->
  perfect_matching nv edges (decode_dimer m).
Proof.
  intros Hwf He. pose proof Hwf as Hwf'. apply wf_model_spec in Hwf' as [Hl _].
  repeat split.
  - now rewrite decode_dimer_length.
  - intros e Hlt. rewrite decode_dimer_nth by lia. destruct (val m (dlit e)); auto.
  - apply (matching_count nv edges (fun e => val m (dlit e))).
    + intros e Hlt. rewrite decode_dimer_nth by lia. destruct (val m (dlit e)); reflexivity.
    + now apply eval_dimer_cnf.
Qed.

Lemma encode_dimer_val d e : e < length d -> val (encode_dimer d) (dlit e) = (nth e d 0 =? 1).
Proof.
  intros H. unfold encode_dimer. rewrite val_model_of_val by (unfold dlit; lia).
  unfold val_of_dimer, dlit. replace (Z.to_nat (Z.of_nat e + 1 - 1)) with e by lia. reflexivity.
Qed.

Theorem dimer_complete nv edges d :
  perfect_matching nv edges d ->
  wf_model (length edges) (encode_dimer d) = true
  /\ eval_cnf (val (encode_dimer d)) (dimer_cnf nv edges) = true
  /\ decode_dimer (encode_dimer d) = d.
Proof.
  intros [Hl [H01 Hm]].
  assert (Hwf : wf_model (length edges) (encode_dimer d) = true).
  { unfold encode_dimer. rewrite Hl. apply wf_model_of_val. }
  repeat split; auto.
  - apply eval_dimer_cnf. apply (matching_count nv edges _ d); auto.
    intros e He. apply encode_dimer_val. lia.
  - assert (Hlen : length (encode_dimer d) = length d) by (unfold encode_dimer; apply model_of_val_length).
    apply nth_ext with (d := 0) (d' := 0).
    + now rewrite decode_dimer_length.
    + rewrite decode_dimer_length, Hlen. intros e He. rewrite decode_dimer_nth by lia.
      rewrite encode_dimer_val by auto. destruct (H01 e ltac:(lia)) as [-> | ->]; reflexivity.
Qed.

Theorem dimer_exact N m : wf_model N m = true -> encode_dimer (decode_dimer m) = m.
Proof.
  intros Hwf. pose proof Hwf as Hwf'. apply wf_model_spec in Hwf' as [Hl _].
  rewrite (wf_model_eq _ _ Hwf) at 2. unfold encode_dimer. rewrite decode_dimer_length, Hl.
  apply model_of_val_ext. intros v Hv. unfold val_of_dimer.
  rewrite decode_dimer_nth by lia. unfold dlit.
  replace (Z.of_nat (Z.to_nat (v - 1)) + 1)%Z with v by lia. destruct (val m v); reflexivity.
Qed.

Theorem dimer_maxvar nv edges :
  (forall e, In e edges -> fst e < nv /\ snd e < nv) -> maxvar (dimer_cnf nv edges) = length edges.
Proof.
  intros Hok. apply maxvar_eq.
  - intros cl l Hcl Hl. unfold dimer_cnf in Hcl. apply in_flat_map in Hcl as [v [_ Hcl]].
    assert (Hb : forall a, In a (map dlit (incident edges v)) ->
                           Z.to_nat (Z.abs a) <= length edges /\ Z.to_nat (Z.abs (- a)) <= length edges).
    { intros a Ha. apply in_map_iff in Ha as [e [<- He]]. apply incident_spec in He as [He _].
      unfold dlit. unfold edge in *. lia. }
    destruct Hcl as [<-|Hcl]; [now apply Hb|].
    destruct (amo_lits _ _ _ Hcl Hl) as [a [Ha ->]]. now apply Hb.
  - unfold edge in *. destruct (length edges) as [|E'] eqn:EE; [left; reflexivity|right].
    set (v := fst (nth E' edges e0)).
    assert (Hv : v < nv) by (apply Hok; apply nth_In; lia).
    exists (map dlit (incident edges v)), (dlit E'). repeat split.
    + unfold dimer_cnf. apply in_flat_map. exists v. split; [apply in_seq; lia|]. left. reflexivity.
    + apply in_map. apply incident_spec. unfold edge in *. split; [lia|]. left. reflexivity.
    + unfold dlit. lia.
Qed.

(* ------------------------------------------------------------------ the three encodings, uniformly *)

(* the formula f, read back by dec, encodes exactly the assignments satisfying P:
   sound, complete, and dec is injective on the total models over 1..maxvar f *)
Definition encodes (f : cnf) (dec : model -> list nat) (P : list nat -> Prop) : Prop :=
  (forall m, wf_model (maxvar f) m = true -> eval_cnf (val m) f = true -> P (dec m))
  /\ (forall c, P c -> exists m, wf_model (maxvar f) m = true /\ eval_cnf (val m) f = true /\ dec m = c)
  /\ (forall m1 m2, wf_model (maxvar f) m1 = true -> eval_cnf (val m1) f = true ->
                    wf_model (maxvar f) m2 = true -> eval_cnf (val m2) f = true ->
                    dec m1 = dec m2 -> m1 = m2).

Definition fixed_in_range (E n : nat) (fixed : list (nat * nat)) : Prop :=
  forall col e, In (col, e) fixed -> col < n /\ e < E.

Theorem edge_encodes edges n fixed f :
  edge_color_cnf edges n fixed = Some f ->
  encodes f (decode_colors (length edges) n) (proper_edge_coloring edges n fixed).
Proof.
  intros H. apply edge_color_cnf_some in H as [Hn [Hf ->]].
  pose proof (edge_conflicts_ok edges) as Hc.
  unfold encodes. rewrite (generic_maxvar _ _ _ _ Hn Hc Hf). split; [|split].
  - intros m Hwf He. apply coloring_ok_edge. now apply generic_sound.
  - intros c Hp. apply coloring_ok_edge in Hp.
    destruct (generic_complete _ _ _ _ Hc Hf c Hp) as [H1 [H2 H3]]. eauto.
  - intros m1 m2 W1 E1 W2 E2. now apply (generic_decode_inj _ _ (edge_conflicts edges) fixed).
Qed.

Theorem vertex_encodes adj n f :
  vertex_color_cnf adj n = Some f ->
  encodes f (decode_colors (nverts adj) n) (proper_vertex_coloring adj n).
Proof.
  intros H. apply vertex_color_cnf_some in H as [_ [Hn ->]].
  pose proof (adj_ok adj) as Hc.
  assert (Hf : forall col e, In (col, e) (@nil (nat * nat)) -> col < n /\ e < nverts adj) by (intros ? ? []).
  unfold encodes. rewrite (generic_maxvar _ _ _ _ Hn Hc Hf). split; [|split].
  - intros m Hwf He. apply coloring_ok_vertex. now apply generic_sound.
  - intros c Hp. apply coloring_ok_vertex in Hp.
    destruct (generic_complete _ _ _ _ Hc Hf c Hp) as [H1 [H2 H3]]. eauto.
  - intros m1 m2 W1 E1 W2 E2. now apply (generic_decode_inj _ _ adj []).
Qed.

Definition edges_in_range (nv : nat) (edges : list edge) : Prop :=
  forall e, In e edges -> fst e < nv /\ snd e < nv.

Theorem dimer_encodes nv edges :
  edges_in_range nv edges -> encodes (dimer_cnf nv edges) decode_dimer (perfect_matching nv edges).
Proof.
  intros Hok. unfold encodes. rewrite (dimer_maxvar nv edges Hok). split; [|split].
  - intros m Hwf He. now apply dimer_sound.
  - intros d Hp. destruct (dimer_complete nv edges d Hp) as [H1 [H2 H3]]. eauto.
  - intros m1 m2 W1 _ W2 _ H. rewrite <- (dimer_exact _ _ W1), <- (dimer_exact _ _ W2). now rewrite H.
Qed.

(* ------------------------------------------------------------------ more list facts *)

Lemma NoDup_firstn {A} j (l : list A) : NoDup l -> NoDup (firstn j l).
Proof.
  revert j. induction l as [|a l IH]; intros [|j] H; simpl; try constructor.
  - inversion H; subst. intros Hin. apply H2.
    rewrite <- (firstn_skipn j l). apply in_or_app. auto.
  - inversion H; subst. auto.
Qed.

Lemma firstn_In {A} j (l : list A) x : In x (firstn j l) -> In x l.
Proof. intros H. rewrite <- (firstn_skipn j l). apply in_or_app. auto. Qed.

Lemma in_combine_seq {A} (l : list A) (d : A) : forall s a x,
  In (a, x) (combine (seq s (length l)) l) <-> s <= a < s + length l /\ nth (a - s) l d = x.
Proof.
  induction l as [|y l IH]; simpl; intros s a x.
  - split; [contradiction|lia].
  - rewrite IH. split.
    + intros [H|[H1 H2]].
      * inversion H; subst. rewrite Nat.sub_diag. split; [lia|reflexivity].
      * split; [lia|]. destruct (a - s) as [|q] eqn:E; [lia|]. replace q with (a - S s) by lia. auto.
    + intros [H1 H2]. destruct (Nat.eq_dec a s) as [->|Hne].
      * left. rewrite Nat.sub_diag in H2. now subst.
      * right. split; [lia|]. destruct (a - s) as [|q] eqn:E; [lia|]. replace (a - S s) with q by lia. auto.
Qed.

(* ------------------------------------------------------------------ end to end, under the solver contract *)

Section Solver.
  Variable solve : cnf -> bool.
  Variable get_model : cnf -> model.
  Variable enum_models : cnf -> list model.

  (* pysat/glucose3 contract (trusted; exercised at run time by harness/c04.py):
     solve answers whether a total model over the variables 1..maxvar f exists, get_model returns
     one after a successful solve, enum_models lists every such model exactly once. *)
  Hypothesis solve_iff : forall f,
    solve f = true <-> exists m, wf_model (maxvar f) m = true /\ eval_cnf (val m) f = true.
  Hypothesis get_model_ok : forall f,
    solve f = true -> wf_model (maxvar f) (get_model f) = true /\ eval_cnf (val (get_model f)) f = true.
  Hypothesis enum_models_ok : forall f,
    NoDup (enum_models f)
    /\ forall m, In m (enum_models f) <-> wf_model (maxvar f) m = true /\ eval_cnf (val m) f = true.

  Lemma enum_decoded f dec P :
    encodes f dec P ->
    NoDup (map dec (enum_models f)) /\ forall c, In c (map dec (enum_models f)) <-> P c.
  Proof.
    intros [Hs [Hc Hi]]. destruct (enum_models_ok f) as [Hnd Hin]. split.
    - apply NoDup_map_inj; auto. intros x y Hx Hy. apply Hin in Hx as [? ?]. apply Hin in Hy as [? ?]. now apply Hi.
    - intros c. rewrite in_map_iff. split.
      + intros [m [<- Hm]]. apply Hin in Hm as [? ?]. now apply Hs.
      + intros Hp. destruct (Hc c Hp) as [m [Hw [He Hd]]]. exists m. split; auto. apply Hin. auto.
  Qed.

  Lemma solve_decoded f dec P : encodes f dec P -> (solve f = true <-> exists c, P c).
  Proof.
    intros [Hs [Hc Hi]]. rewrite solve_iff. split.
    - intros [m [Hw He]]. eauto.
    - intros [c Hp]. destruct (Hc c Hp) as [m [Hw [He _]]]. eauto.
  Qed.

  Lemma get_model_decoded f dec P : encodes f dec P -> solve f = true -> P (dec (get_model f)).
  Proof. intros [Hs _] H. destruct (get_model_ok f H). now apply Hs. Qed.

  Lemma firstn_decoded f dec P j :
    encodes f dec P ->
    exists all, NoDup all /\ (forall c, In c all <-> P c) /\ map dec (firstn j (enum_models f)) = firstn j all.
  Proof.
    intros H. destruct (enum_decoded f dec P H) as [H1 H2].
    exists (map dec (enum_models f)). repeat split; auto; try apply H2. symmetry. apply firstn_map.
  Qed.

  (* ---- edge_color: every outcome of every mode *)
  Theorem edge_color_spec edges n md fixed :
    let P := proper_edge_coloring edges n fixed in
    match edge_color solve get_model enum_models edges n md fixed with
    | Invalid => ~ (0 < n /\ fixed_in_range (length edges) n fixed)
    | Unsolvable => forall c, ~ P c
    | Solution c => md = Single /\ P c
    | Solutions cs =>
        NoDup cs /\ (forall c, In c cs -> P c)
        /\ match md with
           | AllSolutions => forall c, P c -> In c cs
           | FirstN j => exists all, NoDup all /\ (forall c, In c all <-> P c) /\ cs = firstn j all
           | Single => False
           end
    end.
  Proof.
    intros P. unfold edge_color. destruct (edge_color_cnf edges n fixed) as [f|] eqn:Ef.
    - pose proof (edge_encodes _ _ _ _ Ef) as Henc. fold P in Henc.
      destruct (solve f) eqn:Es.
      + destruct md as [|j|].
        * split; auto. now apply (get_model_decoded f _ P).
        * destruct (firstn_decoded f _ P j Henc) as [all [Hnd [Hin Heq]]]. rewrite Heq.
          split; [|split].
          -- now apply NoDup_firstn.
          -- intros c Hc. apply Hin. eapply firstn_In; eauto.
          -- exists all. auto.
        * destruct (enum_decoded f _ P Henc) as [Hnd Hin]. split; [|split]; auto; intros c Hc; now apply Hin.
      + intros c Hp. assert (solve f = true) by (apply (solve_decoded f _ P Henc); eauto). congruence.
    - intros [Hn Hf].
      assert (edge_color_cnf edges n fixed = Some (color_cnf (length edges) n (edge_conflicts edges) fixed))
        by (apply edge_color_cnf_some; auto).
      congruence.
  Qed.

  (* ---- vertex_color *)
  Theorem vertex_color_spec adj n all_solutions :
    let P := proper_vertex_coloring adj n in
    match vertex_color solve get_model enum_models adj n all_solutions with
    | Invalid => ~ (0 < n /\ adj <> [])
    | Unsolvable => forall c, ~ P c
    | Solution c => all_solutions = false /\ P c
    | Solutions cs => all_solutions = true /\ NoDup cs /\ (forall c, In c cs <-> P c)
    end.
  Proof.
    intros P. unfold vertex_color. destruct (vertex_color_cnf adj n) as [f|] eqn:Ef.
    - pose proof (vertex_encodes _ _ _ Ef) as Henc. fold P in Henc.
      destruct (solve f) eqn:Es.
      + destruct all_solutions.
        * destruct (enum_decoded f _ P Henc) as [Hnd Hin]. auto.
        * split; auto. now apply (get_model_decoded f _ P).
      + intros c Hp. assert (solve f = true) by (apply (solve_decoded f _ P Henc); eauto). congruence.
    - intros [Hn Ha].
      assert (vertex_color_cnf adj n = Some (color_cnf (nverts adj) n adj [])) by (apply vertex_color_cnf_some; auto).
      congruence.
  Qed.

  (* ---- dimerise *)
  Theorem dimerise_spec nv edges ns :
    edges_in_range nv edges ->
    let P := perfect_matching nv edges in
    match dimerise solve enum_models nv edges ns with
    | Invalid => False
    | Unsolvable => forall d, ~ P d
    | Solution d => ns = Some 1 /\ P d
    | Solutions ds =>
        NoDup ds /\ (forall d, In d ds -> P d)
        /\ match ns with
           | None => forall d, P d -> In d ds
           | Some j => exists all, NoDup all /\ (forall d, In d all <-> P d) /\ ds = firstn j all
           end
    end.
  Proof.
    intros Hok P. unfold dimerise. pose proof (dimer_encodes nv edges Hok) as Henc. fold P in Henc.
    set (f := dimer_cnf nv edges) in *. destruct (solve f) eqn:Es.
    - assert (Hfirst : forall j, let ds := map decode_dimer (firstn j (enum_models f)) in
                NoDup ds /\ (forall d, In d ds -> P d)
                /\ exists all, NoDup all /\ (forall d, In d all <-> P d) /\ ds = firstn j all).
      { intros j ds. destruct (firstn_decoded f _ P j Henc) as [all [Hnd [Hin Heq]]].
        unfold ds. rewrite Heq. split; [|split].
        - now apply NoDup_firstn.
        - intros d Hd. apply Hin. eapply firstn_In; eauto.
        - exists all. auto. }
      destruct ns as [[|[|j]]|].
      + apply Hfirst.
      + destruct (enum_models f) as [|m ms] eqn:Een.
        * apply solve_iff in Es as [m [Hw He]].
          assert (In m (enum_models f)) by (apply enum_models_ok; auto). rewrite Een in H. contradiction.
        * split; auto. destruct Henc as [Hs _]. 
          assert (Hm : In m (enum_models f)) by (rewrite Een; left; auto).
          apply enum_models_ok in Hm as [Hw He]. now apply Hs.
      + apply Hfirst.
      + destruct (enum_decoded f _ P Henc) as [Hnd Hin]. split; [|split]; auto; intros d Hd; now apply Hin.
    - intros d Hp. assert (solve f = true) by (apply (solve_decoded f _ P Henc); eauto). congruence.
  Qed.

  (* ---- color_lattice: the edges listed by clockwise_edges_about(0) get colours 0,1,2 in that order *)
  Theorem color_lattice_spec edges cw :
    let P := fun c => proper_edge_coloring edges 3 [] c /\ forall i, i < length cw -> nth (nth i cw 0) c 0 = i in
    match color_lattice solve get_model enum_models edges cw with
    | Invalid => ~ (length cw <= 3 /\ forall e, In e cw -> e < length edges)
    | Unsolvable => forall c, ~ P c          (* ValueError("No coloring exists") *)
    | Solution c => P c
    | Solutions _ => False
    end.
  Proof.
    intros P. unfold color_lattice.
    set (fixed := combine (seq 0 (length cw)) cw).
    assert (Hfx : forall col e, In (col, e) fixed <-> col < length cw /\ nth col cw 0 = e).
    { intros col e. unfold fixed. rewrite (in_combine_seq cw 0). rewrite Nat.sub_0_r. intuition lia. }
    assert (HP : forall c, proper_edge_coloring edges 3 fixed c <-> P c).
    { intros c. unfold P, proper_edge_coloring. split.
      - intros [H1 [H2 [H3 H4]]]. repeat split; auto; try (intros ? ? []).
        intros i Hi. apply H4. apply Hfx. auto.
      - intros [[H1 [H2 [H3 _]]] H5]. repeat split; auto.
        intros col e Hin. apply Hfx in Hin as [Hc <-]. auto. }
    pose proof (edge_color_spec edges 3 Single fixed) as H. cbv zeta in H.
    destruct (edge_color solve get_model enum_models edges 3 Single fixed).
    - intros c Hc. apply (H c). now apply HP.
    - destruct H as [_ H]. now apply HP.
    - destruct H as [_ [_ []]].
    - intros [Hl Hr]. apply H. split; [lia|]. intros col e Hin. apply Hfx in Hin as [Hc <-].
      split; [lia|]. apply Hr. apply nth_In. auto.
  Qed.
End Solver.

(* ------------------------------------------------------------------ closed forms for Props/C04.v *)

(* the solver contract as one proposition *)
Definition solver_contract (solve : cnf -> bool) (get_model : cnf -> model) (enum_models : cnf -> list model) : Prop :=
  (forall f, solve f = true <-> exists m, wf_model (maxvar f) m = true /\ eval_cnf (val m) f = true)
  /\ (forall f, solve f = true -> wf_model (maxvar f) (get_model f) = true /\ eval_cnf (val (get_model f)) f = true)
  /\ (forall f, NoDup (enum_models f)
                /\ forall m, In m (enum_models f) <-> wf_model (maxvar f) m = true /\ eval_cnf (val m) f = true).

(* the contract is realisable (by exhaustive search), so theorems assuming it are not vacuous *)
Definition brute_solve (f : cnf) : bool := match brute_models (maxvar f) f with [] => false | _ => true end.
Definition brute_get (f : cnf) : model := hd [] (brute_models (maxvar f) f).
Definition brute_enum (f : cnf) : list model := brute_models (maxvar f) f.

Lemma brute_solver_contract : solver_contract brute_solve brute_get brute_enum.
Proof.
  unfold solver_contract, brute_solve, brute_get, brute_enum. split; [|split].
  - intros f. split.
    + destruct (brute_models (maxvar f) f) as [|m l] eqn:E; [discriminate|]. intros _.
      exists m. apply brute_models_spec. rewrite E. left. reflexivity.
    + intros [m H]. apply brute_models_spec in H. destruct (brute_models (maxvar f) f); [contradiction|reflexivity].
  - intros f. destruct (brute_models (maxvar f) f) as [|m l] eqn:E; [discriminate|]. intros _.
    apply brute_models_spec. rewrite E. left. reflexivity.
  - intros f. split; [apply brute_models_NoDup|]. intros m. apply brute_models_spec.
Qed.

Lemma edge_color_cnf_sound edges n fixed f m :
  edge_color_cnf edges n fixed = Some f ->
  wf_model (maxvar f) m = true -> eval_cnf (val m) f = true ->
  proper_edge_coloring edges n fixed (decode_colors (length edges) n m).
Proof. intros H. apply (edge_encodes _ _ _ _ H). Qed.

Lemma edge_color_cnf_complete edges n fixed f c :
  edge_color_cnf edges n fixed = Some f -> proper_edge_coloring edges n fixed c ->
  exists m, wf_model (maxvar f) m = true /\ eval_cnf (val m) f = true /\ decode_colors (length edges) n m = c.
Proof. intros H. apply (edge_encodes _ _ _ _ H). Qed.

Lemma edge_color_cnf_exact edges n fixed f m1 m2 :
  edge_color_cnf edges n fixed = Some f ->
  wf_model (maxvar f) m1 = true -> eval_cnf (val m1) f = true ->
  wf_model (maxvar f) m2 = true -> eval_cnf (val m2) f = true ->
  decode_colors (length edges) n m1 = decode_colors (length edges) n m2 -> m1 = m2.
Proof. intros H. apply (edge_encodes _ _ _ _ H). Qed.

Lemma edge_color_cnf_defined edges n fixed :
  0 < n -> fixed_in_range (length edges) n fixed -> exists f, edge_color_cnf edges n fixed = Some f.
Proof. intros Hn Hf. eexists. apply edge_color_cnf_some. eauto. Qed.

Lemma vertex_color_cnf_sound adj n f m :
  vertex_color_cnf adj n = Some f ->
  wf_model (maxvar f) m = true -> eval_cnf (val m) f = true ->
  proper_vertex_coloring adj n (decode_colors (nverts adj) n m).
Proof. intros H. apply (vertex_encodes _ _ _ H). Qed.

Lemma vertex_color_cnf_complete adj n f c :
  vertex_color_cnf adj n = Some f -> proper_vertex_coloring adj n c ->
  exists m, wf_model (maxvar f) m = true /\ eval_cnf (val m) f = true /\ decode_colors (nverts adj) n m = c.
Proof. intros H. apply (vertex_encodes _ _ _ H). Qed.

Lemma vertex_color_cnf_exact adj n f m1 m2 :
  vertex_color_cnf adj n = Some f ->
  wf_model (maxvar f) m1 = true -> eval_cnf (val m1) f = true ->
  wf_model (maxvar f) m2 = true -> eval_cnf (val m2) f = true ->
  decode_colors (nverts adj) n m1 = decode_colors (nverts adj) n m2 -> m1 = m2.
Proof. intros H. apply (vertex_encodes _ _ _ H). Qed.

Lemma vertex_color_cnf_defined adj n :
  0 < n -> adj <> [] -> exists f, vertex_color_cnf adj n = Some f.
Proof. intros Hn Ha. eexists. apply vertex_color_cnf_some. eauto. Qed.

Lemma dimer_cnf_sound nv edges m :
  edges_in_range nv edges ->
  wf_model (maxvar (dimer_cnf nv edges)) m = true -> eval_cnf (val m) (dimer_cnf nv edges) = true ->
  perfect_matching nv edges (decode_dimer m).
Proof. intros H. apply (dimer_encodes _ _ H). Qed.

Lemma dimer_cnf_complete nv edges d :
  edges_in_range nv edges -> perfect_matching nv edges d ->
  exists m, wf_model (maxvar (dimer_cnf nv edges)) m = true /\ eval_cnf (val m) (dimer_cnf nv edges) = true
            /\ decode_dimer m = d.
Proof. intros H. apply (dimer_encodes _ _ H). Qed.

Lemma dimer_cnf_exact nv edges m1 m2 :
  edges_in_range nv edges ->
  wf_model (maxvar (dimer_cnf nv edges)) m1 = true -> eval_cnf (val m1) (dimer_cnf nv edges) = true ->
  wf_model (maxvar (dimer_cnf nv edges)) m2 = true -> eval_cnf (val m2) (dimer_cnf nv edges) = true ->
  decode_dimer m1 = decode_dimer m2 -> m1 = m2.
Proof. intros H. apply (dimer_encodes _ _ H). Qed.

(* the end-to-end statements with the contract as a premise *)
Lemma edge_color_end_to_end solve get_model enum_models :
  solver_contract solve get_model enum_models ->
  forall edges n md fixed,
    let P := proper_edge_coloring edges n fixed in
    match edge_color solve get_model enum_models edges n md fixed with
    | Invalid => ~ (0 < n /\ fixed_in_range (length edges) n fixed)
    | Unsolvable => forall c, ~ P c
    | Solution c => md = Single /\ P c
    | Solutions cs =>
        NoDup cs /\ (forall c, In c cs -> P c)
        /\ match md with
           | AllSolutions => forall c, P c -> In c cs
           | FirstN j => exists all, NoDup all /\ (forall c, In c all <-> P c) /\ cs = firstn j all
           | Single => False
           end
    end.
Proof. intros [H1 [H2 H3]]. now apply edge_color_spec. Qed.

Lemma vertex_color_end_to_end solve get_model enum_models :
  solver_contract solve get_model enum_models ->
  forall adj n all_solutions,
    let P := proper_vertex_coloring adj n in
    match vertex_color solve get_model enum_models adj n all_solutions with
    | Invalid => ~ (0 < n /\ adj <> [])
    | Unsolvable => forall c, ~ P c
    | Solution c => all_solutions = false /\ P c
    | Solutions cs => all_solutions = true /\ NoDup cs /\ (forall c, In c cs <-> P c)
    end.
Proof. intros [H1 [H2 H3]]. now apply vertex_color_spec. Qed.

Lemma dimerise_end_to_end solve get_model enum_models :
  solver_contract solve get_model enum_models ->
  forall nv edges ns, edges_in_range nv edges ->
    let P := perfect_matching nv edges in
    match dimerise solve enum_models nv edges ns with
    | Invalid => False
    | Unsolvable => forall d, ~ P d
    | Solution d => ns = Some 1 /\ P d
    | Solutions ds =>
        NoDup ds /\ (forall d, In d ds -> P d)
        /\ match ns with
           | None => forall d, P d -> In d ds
           | Some j => exists all, NoDup all /\ (forall d, In d all <-> P d) /\ ds = firstn j all
           end
    end.
Proof. intros [H1 [H2 H3]] nv edges ns. now apply dimerise_spec. Qed.

Lemma color_lattice_end_to_end solve get_model enum_models :
  solver_contract solve get_model enum_models ->
  forall edges cw,
    let P := fun c => proper_edge_coloring edges 3 [] c /\ forall i, i < length cw -> nth (nth i cw 0) c 0 = i in
    match color_lattice solve get_model enum_models edges cw with
    | Invalid => ~ (length cw <= 3 /\ forall e, In e cw -> e < length edges)
    | Unsolvable => forall c, ~ P c
    | Solution c => P c
    | Solutions _ => False
    end.
Proof. intros [H1 [H2 H3]]. now apply color_lattice_spec. Qed.
