(* Proofs/SurgeryEquivariant.v — the plaquette finder is equivariant under vertex relabelling:
   same edge vectors => same rotation system => same face walks, vertices renamed.  (C12) *)
From Coq Require Import List ZArith Bool Arith Lia ZifyBool Permutation.
From Koala Require Import Model.Lattice Model.Surgery Proofs.SurgeryFacts Proofs.SurgeryPerm.
Import ListNotations.
Open Scope nat_scope.

Definition ren_step (ren : nat -> nat) (s : nat * nat * bool) : nat * nat * bool :=
  (fst (fst s), ren (snd (fst s)), snd s).
Definition ren_result (ren : nat -> nat) (r : trace_result) : trace_result :=
  match r with Closed w => Closed (map (ren_step ren) w) | x => x end.
Definition ren_plaq (ren : nat -> nat) (p : plaquette) : plaquette :=
  mkPlaq (map ren (p_verts p)) (p_edges p) (p_dirs p) (p_cnum p) (p_area2 p) (p_winding p).

(* ------------------------------------------------------------------ sorting depends on keys of the elements only *)
Lemma insert_desc_In key x l y : In y (insert_desc key x l) -> y = x \/ In y l.
Proof.
  induction l as [|z l IH]; cbn [insert_desc]; intro H.
  - destruct H as [<-|[]]. left; reflexivity.
  - destruct (ang_lt (key z) (key x)).
    + destruct H as [<-|H]; [left; reflexivity | right; exact H].
    + destruct H as [<-|H]; [right; left; reflexivity|].
      destruct (IH H) as [->|H']; [left; reflexivity | right; right; exact H'].
Qed.

Lemma insert_desc_ext key key' x l :
  key x = key' x -> (forall y, In y l -> key y = key' y) -> insert_desc key x l = insert_desc key' x l.
Proof.
  intros Hx Hl. induction l as [|z l IH]; [reflexivity|]. cbn [insert_desc].
  rewrite Hx, (Hl z (or_introl eq_refl)). destruct (ang_lt (key' z) (key' x)); [reflexivity|].
  rewrite IH; [reflexivity|]. intros y Hy. apply Hl. right. exact Hy.
Qed.

Lemma fold_insert_desc_ext key key' l : forall acc,
  (forall y, In y (acc ++ l) -> key y = key' y) ->
  fold_left (fun a x => insert_desc key x a) l acc = fold_left (fun a x => insert_desc key' x a) l acc.
Proof.
  induction l as [|x l IH]; intros acc H; [reflexivity|].
  cbn [fold_left].
  rewrite (insert_desc_ext key key' x acc).
  - apply IH. intros y Hy. apply in_app_or in Hy. destruct Hy as [Hy|Hy].
    + apply insert_desc_In in Hy. destruct Hy as [->|Hy]; apply H; apply in_or_app; [right; left; reflexivity | left; exact Hy].
    + apply H. apply in_or_app. right. right. exact Hy.
  - apply H. apply in_or_app. right. left. reflexivity.
  - intros y Hy. apply H. apply in_or_app. left. exact Hy.
Qed.

Lemma sort_desc_ext key key' l : (forall y, In y l -> key y = key' y) -> sort_desc key l = sort_desc key' l.
Proof. intro H. unfold sort_desc. apply fold_insert_desc_ext. exact H. Qed.

Lemma fold_insert_desc_In key l : forall acc y,
  In y (fold_left (fun a x => insert_desc key x a) l acc) -> In y acc \/ In y l.
Proof.
  induction l as [|x l IH]; intros acc y H; [left; exact H|].
  cbn [fold_left] in H. apply IH in H. destruct H as [H|H].
  - apply insert_desc_In in H. destruct H as [->|H]; [right; left; reflexivity | left; exact H].
  - right. right. exact H.
Qed.

Lemma sort_desc_In key l y : In y (sort_desc key l) -> In y l.
Proof.
  unfold sort_desc. intro H. apply fold_insert_desc_In in H. destruct H as [H|H]; [destruct H | exact H].
Qed.

Lemma sorted_adj_lt L v e : In e (sorted_adj L v) -> e < nE L.
Proof.
  intro H. apply sort_desc_In in H. unfold incident in H. apply filter_seq_lt in H. lia.
Qed.

(* ------------------------------------------------------------------ rotation system *)
Section Equivariance.
  Variables (L L' : lattice) (ren : nat -> nat).
  Hypothesis Hwf : wf_lattice L = true.
  Hypothesis HR : relabelled L L' ren.

  Let HnE : nE L' = nE L := relabelled_nE L L' ren HR.

  Lemma ren_lt v : v < nV L -> ren v < nV L.
  Proof. intro H. pose proof HR as (_ & _ & _ & _ & Hp & _). apply Hp. exact H. Qed.

  Lemma ren_eqb v w : v < nV L -> w < nV L -> (ren v =? ren w) = (v =? w).
  Proof.
    intros Hv Hw. pose proof HR as (_ & _ & _ & _ & _ & Hi).
    destruct (Nat.eqb_spec v w) as [->|NE]; [apply Nat.eqb_refl|].
    apply Nat.eqb_neq. intro E. apply NE. apply Hi; assumption.
  Qed.

  Lemma rel_incident_b v e : v < nV L -> e < nE L -> incident_b L' (ren v) e = incident_b L v e.
  Proof.
    intros Hv He. unfold incident_b. rewrite (relabelled_edge_at L L' ren e HR He).
    destruct (wf_edge_at L e Hwf He) as [Hj Hk]. destruct (edge_at L e) as [j k]. cbn [fst snd] in *.
    rewrite !ren_eqb by assumption. reflexivity.
  Qed.

  Lemma rel_incident v : v < nV L -> incident L' (ren v) = incident L v.
  Proof.
    intro Hv. unfold incident. rewrite HnE. apply filter_ext_in. intros e He. apply in_seq in He.
    apply rel_incident_b; lia.
  Qed.

  Lemma rel_outvec v e : v < nV L -> e < nE L -> outvec L' (ren v) e = outvec L v e.
  Proof.
    intros Hv He. unfold outvec. rewrite (relabelled_edge_at L L' ren e HR He). cbn [fst].
    destruct (wf_edge_at L e Hwf He) as [Hj _].
    rewrite ren_eqb by assumption. rewrite (relabelled_evec L L' ren Hwf HR). reflexivity.
  Qed.

  Lemma rel_sorted_adj v : v < nV L -> sorted_adj L' (ren v) = sorted_adj L v.
  Proof.
    intro Hv. unfold sorted_adj. rewrite (rel_incident v Hv).
    apply sort_desc_ext. intros e He. unfold incident in He. apply filter_seq_lt in He.
    apply rel_outvec; lia.
  Qed.

  Lemma adj_table_nth M v : v < nV M -> nth v (adj_table M) [] = sorted_adj M v.
  Proof.
    intro Hv. unfold adj_table.
    rewrite (nth_indep _ _ (sorted_adj M 0)) by (rewrite map_length, seq_length; exact Hv).
    rewrite map_nth, seq_nth by exact Hv. reflexivity.
  Qed.

  Lemma rel_adj_row v : v < nV L -> nth (ren v) (adj_table L') [] = nth v (adj_table L) [].
  Proof.
    intro Hv. pose proof HR as (_ & _ & _ & Hn & _ & _).
    rewrite !adj_table_nth; [apply rel_sorted_adj; exact Hv | exact Hv | rewrite Hn; apply ren_lt; exact Hv].
  Qed.

  (* ---------------------------------------------------------------- one step of the walk *)
  Lemma index_of_lt x l i : index_of x l = Some i -> i < length l.
  Proof.
    revert i. induction l as [|y l IH]; intros i H; [discriminate|].
    cbn [index_of] in H. destruct (y =? x); [injection H as <-; simpl; lia|].
    destruct (index_of x l) as [k|]; [|discriminate]. injection H as <-. specialize (IH k eq_refl). simpl. lia.
  Qed.

  Lemma succ_in_In row e f : succ_in row e = Some f -> In f row.
  Proof.
    unfold succ_in. destruct (index_of e row) as [i|] eqn:E; [|discriminate].
    intro H. injection H as <-. apply index_of_lt in E. apply nth_In.
    apply Nat.mod_upper_bound. lia.
  Qed.

  Lemma other_end_lt e cv : e < nE L -> other_end L e cv < nV L.
  Proof.
    intro He. unfold other_end. destruct (wf_edge_at L e Hwf He) as [Hj Hk].
    destruct (edge_at L e) as [j k]. cbn [fst snd] in *. destruct (k =? cv); assumption.
  Qed.

  Lemma rel_other_end e cv : e < nE L -> cv < nV L -> other_end L' e (ren cv) = ren (other_end L e cv).
  Proof.
    intros He Hcv. unfold other_end. rewrite (relabelled_edge_at L L' ren e HR He).
    destruct (wf_edge_at L e Hwf He) as [Hj Hk]. destruct (edge_at L e) as [j k]. cbn [fst snd] in *.
    rewrite ren_eqb by assumption. destruct (k =? cv); reflexivity.
  Qed.

  Lemma rel_step_walk ce cv : ce < nE L -> cv < nV L ->
    step_walk L' (adj_table L') ce (ren cv) =
    match step_walk L (adj_table L) ce cv with
    | None => None
    | Some (v, f, b) => Some (ren v, f, b)
    end
    /\ (forall v f b, step_walk L (adj_table L) ce cv = Some (v, f, b) -> v < nV L /\ f < nE L).
  Proof.
    intros Hce Hcv. unfold step_walk.
    rewrite (rel_other_end ce cv Hce Hcv).
    pose proof (other_end_lt ce cv Hce) as Hv.
    rewrite (rel_adj_row _ Hv).
    destruct (succ_in (nth (other_end L ce cv) (adj_table L) []) ce) as [f|] eqn:E.
    - assert (Hf : f < nE L).
      { apply succ_in_In in E. rewrite adj_table_nth in E by exact Hv. apply sorted_adj_lt in E. exact E. }
      split.
      + rewrite (relabelled_edge_at L L' ren f HR Hf). cbn [fst].
        destruct (wf_edge_at L f Hwf Hf) as [Hj _]. rewrite ren_eqb by assumption. reflexivity.
      + intros v f0 b H. injection H as <- <- <-. split; assumption.
    - split; [reflexivity | intros v f b H; discriminate H].
  Qed.

  (* ---------------------------------------------------------------- the traced walk *)
  Lemma removelast_map {A B} (f : A -> B) l : removelast (map f l) = map f (removelast l).
  Proof.
    induction l as [|x l IH]; [reflexivity|]. destruct l as [|y l]; [reflexivity|].
    change (removelast (map f (x :: y :: l))) with (f x :: removelast (map f (y :: l))).
    rewrite IH. reflexivity.
  Qed.

  Lemma existsb_step_ren s l :
    existsb (step_eqb (ren_step ren s)) (map (ren_step ren) l) = existsb (step_eqb s) l.
  Proof.
    induction l as [|x l IH]; [reflexivity|]. cbn [map existsb]. rewrite IH. reflexivity.
  Qed.

  Lemma rel_trace_loop fuel se sd : forall ce cv acc, ce < nE L -> cv < nV L ->
    trace_loop fuel L' (adj_table L') se sd ce (ren cv) (map (ren_step ren) acc)
    = ren_result ren (trace_loop fuel L (adj_table L) se sd ce cv acc).
  Proof.
    induction fuel as [|fuel IH]; intros ce cv acc Hce Hcv; [reflexivity|].
    cbn [trace_loop].
    destruct (rel_step_walk ce cv Hce Hcv) as [E Hb]. rewrite E.
    destruct (step_walk L (adj_table L) ce cv) as [[[v f] b]|] eqn:Es; [|reflexivity].
    destruct (Hb v f b eq_refl) as [Hv Hf].
    destruct ((f =? se) && eqb b sd).
    - cbn [ren_result]. rewrite map_rev. reflexivity.
    - rewrite removelast_map.
      change (f, ren v, b) with (ren_step ren (f, v, b)).
      rewrite existsb_step_ren.
      destruct (existsb (step_eqb (f, v, b)) (removelast acc)); [reflexivity|].
      change (ren_step ren (f, v, b) :: map (ren_step ren) acc) with (map (ren_step ren) ((f, v, b) :: acc)).
      apply IH; assumption.
  Qed.

  Lemma trace_loop_verts fuel se sd : forall ce cv acc w, ce < nE L -> cv < nV L ->
    Forall (fun s : nat * nat * bool => snd (fst s) < nV L) acc ->
    trace_loop fuel L (adj_table L) se sd ce cv acc = Closed w ->
    Forall (fun s : nat * nat * bool => snd (fst s) < nV L) w.
  Proof.
    induction fuel as [|fuel IH]; intros ce cv acc w Hce Hcv Hacc H; [discriminate|].
    cbn [trace_loop] in H.
    destruct (rel_step_walk ce cv Hce Hcv) as [_ Hb].
    destruct (step_walk L (adj_table L) ce cv) as [[[v f] b]|] eqn:Es; [|discriminate].
    destruct (Hb v f b eq_refl) as [Hv Hf].
    destruct ((f =? se) && eqb b sd).
    - injection H as <-. apply Forall_rev. exact Hacc.
    - destruct (existsb (step_eqb (f, v, b)) (removelast acc)); [discriminate|].
      apply (IH f v ((f, v, b) :: acc) w Hf Hv); [|exact H]. constructor; [exact Hv | exact Hacc].
  Qed.

  Lemma start_vertex_lt se (sd : bool) : se < nE L ->
    (let '(j, k) := edge_at L se in if sd then j else k) < nV L.
  Proof.
    intro H. destruct (wf_edge_at L se Hwf H) as [Hj Hk]. destruct (edge_at L se) as [j k]. cbn [fst snd] in *.
    destruct sd; assumption.
  Qed.

  Lemma rel_trace se sd : se < nE L ->
    trace L' (adj_table L') se sd = ren_result ren (trace L (adj_table L) se sd)
    /\ (forall w, trace L (adj_table L) se sd = Closed w -> Forall (fun s : nat * nat * bool => snd (fst s) < nV L) w).
  Proof.
    intro Hse. unfold trace. rewrite HnE.
    pose proof (start_vertex_lt se sd Hse) as Hsv.
    rewrite (relabelled_edge_at L L' ren se HR Hse).
    set (sv := let '(j, k) := edge_at L se in if sd then j else k) in *.
    assert (Esv : (let '(j, k) := (ren (fst (edge_at L se)), ren (snd (edge_at L se))) in if sd then j else k) = ren sv).
    { unfold sv. destruct (edge_at L se) as [j k]. cbn [fst snd]. destruct sd; reflexivity. }
    rewrite Esv. split.
    - change [(se, ren sv, sd)] with (map (ren_step ren) [(se, sv, sd)]).
      apply rel_trace_loop; assumption.
    - intros w H. apply (trace_loop_verts (S (2 * nE L)) se sd se sv [(se, sv, sd)] w Hse Hsv); [|exact H].
      constructor; [exact Hsv | constructor].
  Qed.

  (* ---------------------------------------------------------------- filters and the plaquette record *)
  Lemma rel_dvec s : dvec L' (ren_step ren s) = dvec L s.
  Proof. unfold dvec, ren_step. cbn [fst snd]. rewrite (relabelled_evec L L' ren Hwf HR). reflexivity. Qed.

  Lemma rel_dcross s : dcross L' (ren_step ren s) = dcross L s.
  Proof. unfold dcross, ren_step. cbn [fst snd]. rewrite (relabelled_cross_at L L' ren _ HR). reflexivity. Qed.

  Lemma walk_edges_ren w : walk_edges (map (ren_step ren) w) = walk_edges w.
  Proof. unfold walk_edges. rewrite map_map. reflexivity. Qed.
  Lemma walk_dirs_ren w : walk_dirs (map (ren_step ren) w) = walk_dirs w.
  Proof. unfold walk_dirs. rewrite map_map. reflexivity. Qed.
  Lemma walk_verts_ren w : walk_verts (map (ren_step ren) w) = map ren (walk_verts w).
  Proof. unfold walk_verts. rewrite !map_map. reflexivity. Qed.
  Lemma walk_darts_ren w : walk_darts (map (ren_step ren) w) = walk_darts w.
  Proof. unfold walk_darts. rewrite map_map. reflexivity. Qed.
  Lemma map_dvec_ren w : map (dvec L') (map (ren_step ren) w) = map (dvec L) w.
  Proof. rewrite map_map. apply map_ext. intro s. apply rel_dvec. Qed.
  Lemma map_dcross_ren w : map (dcross L') (map (ren_step ren) w) = map (dcross L) w.
  Proof. rewrite map_map. apply map_ext. intro s. apply rel_dcross. Qed.

  Lemma rel_walk_valid w : walk_valid L' (map (ren_step ren) w) = walk_valid L w.
  Proof.
    unfold walk_valid, net_crossing. rewrite walk_edges_ren, map_dcross_ren, map_dvec_ren. reflexivity.
  Qed.

  Lemma rel_poly_points w : Forall (fun s : nat * nat * bool => snd (fst s) < nV L) w ->
    poly_points L' (map (ren_step ren) w) = poly_points L w.
  Proof.
    intro Hw. destruct w as [|s w]; [reflexivity|].
    unfold poly_points. change (map (ren_step ren) (s :: w)) with (ren_step ren s :: map (ren_step ren) w).
    cbv beta iota. change (ren_step ren s :: map (ren_step ren) w) with (map (ren_step ren) (s :: w)).
    rewrite map_dvec_ren. unfold ren_step at 1. cbn [fst snd].
    inversion Hw as [|? ? Hs _]; subst.
    pose proof HR as (_ & _ & _ & _ & Hp & _). rewrite (proj2 (Hp _ Hs)). reflexivity.
  Qed.

  Lemma rel_mk_plaquette w : Forall (fun s : nat * nat * bool => snd (fst s) < nV L) w ->
    mk_plaquette L' (map (ren_step ren) w) = ren_plaq ren (mk_plaquette L w).
  Proof.
    intro Hw. unfold mk_plaquette, ren_plaq. cbn [p_verts p_edges p_dirs p_cnum p_area2 p_winding].
    rewrite (rel_poly_points w Hw), walk_verts_ren, walk_edges_ren, walk_dirs_ren, map_dvec_ren. reflexivity.
  Qed.

  (* ---------------------------------------------------------------- the sweep *)
  Definition ren_state (st : option (list dart * list plaquette)) : option (list dart * list plaquette) :=
    match st with
    | None => None
    | Some (vis, acc) => Some (vis, map (ren_plaq ren) acc)
    end.

  Lemma rel_sweep_one d st : fst d < nE L ->
    sweep_one L' (adj_table L') d (ren_state st) = ren_state (sweep_one L (adj_table L) d st).
  Proof.
    intro Hd. destruct st as [[vis acc]|]; [|reflexivity].
    cbn [ren_state sweep_one].
    destruct (visited vis d); [reflexivity|].
    destruct (rel_trace (fst d) (snd d) Hd) as [E Hverts]. rewrite E.
    destruct (trace L (adj_table L) (fst d) (snd d)) as [w| | |]; cbn [ren_result]; try reflexivity.
    rewrite walk_darts_ren, rel_walk_valid.
    destruct (walk_valid L w); cbn [ren_state]; [|reflexivity].
    rewrite (rel_mk_plaquette w (Hverts w eq_refl)). reflexivity.
  Qed.

  Lemma rel_sweep l : forall st, (forall d, In d l -> fst d < nE L) ->
    fold_left (fun s d => sweep_one L' (adj_table L') d s) l (ren_state st)
    = ren_state (fold_left (fun s d => sweep_one L (adj_table L) d s) l st).
  Proof.
    induction l as [|d l IH]; intros st H; [reflexivity|].
    cbn [fold_left]. rewrite rel_sweep_one by (apply H; left; reflexivity).
    apply IH. intros d0 Hd0. apply H. right. exact Hd0.
  Qed.

  Lemma all_darts_lt d : In d (all_darts L) -> fst d < nE L.
  Proof.
    unfold all_darts. intro H. apply in_flat_map in H. destruct H as (e & He & Hd).
    apply in_seq in He. destruct Hd as [<-|[<-|[]]]; cbn [fst]; lia.
  Qed.

  (* plaquettes_equivariant: the plaquette list of the relabelled lattice is the original list, in the same
     order, same edges, directions, centres, areas and winding numbers, with the vertices renamed; the
     finder raises on one iff it raises on the other *)
  Lemma plaquettes_equivariant :
    find_all_plaquettes L' = option_map (map (ren_plaq ren)) (find_all_plaquettes L).
  Proof.
    unfold find_all_plaquettes.
    assert (Ed : all_darts L' = all_darts L) by (unfold all_darts; rewrite HnE; reflexivity).
    rewrite Ed.
    change (Some (@nil dart, @nil plaquette)) with (ren_state (Some (@nil dart, @nil plaquette))) at 1.
    rewrite (rel_sweep (all_darts L) _ all_darts_lt).
    destruct (fold_left (fun s d => sweep_one L (adj_table L) d s) (all_darts L) (Some ([], []))) as [[vis acc]|];
      cbn [ren_state option_map]; [|reflexivity].
    rewrite map_rev. reflexivity.
  Qed.
End Equivariance.
