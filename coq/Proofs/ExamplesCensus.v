(* Proofs/ExamplesCensus.v — polygon census, area sum, two-sidedness, Euler characteristic and degrees of the
   generator models, by vm_compute through the shared plaquette finder (Model/Lattice.v find_all_plaquettes),
   for EXACTLY the finite size ranges of property C10's quantifier (the bounds are part of each statement).
   The honeycomb range 2..16 is split over ExamplesCensusHC1/2/3.v so that make can run them in parallel. *)
From Coq Require Import List ZArith Bool Arith Lia.
From Koala Require Import Gen.TilingGen Model.Lattice Model.Tiling Model.Examples Proofs.TilingFacts.
Import ListNotations.
Open Scope Z_scope.

(* the integers a, a+1, ..., b *)
Definition zrange_from (a b : Z) : list Z := map (Z.add a) (zrange (b - a + 1)).
Lemma In_zrange_from a b x : a <= x <= b -> In x (zrange_from a b).
Proof.
  intros H. unfold zrange_from. apply in_map_iff. exists (x - a). split; [lia|]. apply In_zrange. lia.
Qed.
Lemma forallb_zrange_from (f : Z -> bool) a b :
  forallb f (zrange_from a b) = true -> forall x, a <= x <= b -> f x = true.
Proof. intros H x Hx. rewrite forallb_forall in H. apply H. now apply In_zrange_from. Qed.
Lemma forallb2_zrange_from (f : Z -> Z -> bool) a b a' b' :
  forallb (fun x => forallb (f x) (zrange_from a' b')) (zrange_from a b) = true ->
  forall x y, a <= x <= b -> a' <= y <= b' -> f x y = true.
Proof.
  intros H x y Hx Hy. apply (forallb_zrange_from (f x) a' b'); [|exact Hy].
  apply (forallb_zrange_from (fun x => forallb (f x) (zrange_from a' b')) a b H x Hx).
Qed.

(* what the boolean checkers say, as propositions *)
Lemma closed_tiling_spec (L : lattice) (census : list (nat * nat)) :
  closed_tiling L census = true ->
  exists ps, find_all_plaquettes L = Some ps /\
    (forall k c, In (k, c) census -> count_sides ps k = c) /\
    length ps = fold_right Nat.add 0%nat (map snd census) /\
    area2_sum ps = 2 * scale L * scale L /\
    two_sided L ps = true /\
    (nV L + length ps = nE L)%nat.
Proof.
  unfold closed_tiling. destruct (find_all_plaquettes L) as [ps|]; [|discriminate].
  rewrite !andb_true_iff. intros ((((H1 & H2) & H3) & H4) & H5). exists ps. split; [reflexivity|].
  split; [|split; [|split; [|split]]].
  - intros k c Hin. rewrite forallb_forall in H1. specialize (H1 _ Hin). now apply Nat.eqb_eq in H1.
  - now apply Nat.eqb_eq.
  - now apply Z.eqb_eq.
  - exact H4.
  - now apply Nat.eqb_eq.
Qed.
Lemma open_census_spec (L : lattice) (census : list (nat * nat)) :
  open_census L census = true ->
  exists ps, find_all_plaquettes L = Some ps /\
    (forall k c, In (k, c) census -> count_sides ps k = c) /\
    length ps = fold_right Nat.add 0%nat (map snd census) /\
    (forall p, In p ps -> 0 < p_area2 p).
Proof.
  unfold open_census. destruct (find_all_plaquettes L) as [ps|]; [|discriminate].
  rewrite !andb_true_iff. intros ((H1 & H2) & H3). exists ps. split; [reflexivity|]. split; [|split].
  - intros k c Hin. rewrite forallb_forall in H1. specialize (H1 _ Hin). now apply Nat.eqb_eq in H1.
  - now apply Nat.eqb_eq.
  - intros p Hp. rewrite forallb_forall in H3. specialize (H3 _ Hp). lia.
Qed.
Lemma all_degree_spec (L : lattice) d : all_degree L d = true ->
  length (coordination L) = nV L /\ forall x, In x (coordination L) -> x = d.
Proof.
  unfold all_degree. intros H. split; [unfold coordination; now rewrite map_length, seq_length|].
  intros x Hx. rewrite forallb_forall in H. specialize (H _ Hx). now apply Nat.eqb_eq in H.
Qed.

(* hex-square-oct n = 2..8: n^2 squares, n^2 hexagons, n^2 octagons and nothing else; area 1; two-sided;
   V - E + F = 0; 3-regular *)
Lemma hso_census_2_8 : forall n, 2 <= n <= 8 -> hso_ok n = true.
Proof. apply forallb_zrange_from. vm_compute. reflexivity. Qed.

(* tri-non for all (nx, ny) in 2..6: nx*ny triangles and nx*ny nonagons *)
Lemma tri_non_census_2_6 : forall nx ny, 2 <= nx <= 6 -> 2 <= ny <= 6 -> tri_non_ok nx ny = true.
Proof. apply forallb2_zrange_from. vm_compute. reflexivity. Qed.

(* square lattice for all (nx, ny) in 2..8: nx*ny squares, 4-regular *)
Lemma square_census_2_8 : forall nx ny, 2 <= nx <= 8 -> 2 <= ny <= 8 -> square_ok nx ny = true.
Proof. apply forallb2_zrange_from. vm_compute. reflexivity. Qed.

(* n_ladder(n) without wobble, n = 3..30: exactly n quadrilaterals *)
Lemma ladder_census_3_30 : forall n, 3 <= n <= 30 -> ladder_ok n = true.
Proof. apply forallb_zrange_from. vm_compute. reflexivity. Qed.

(* make_honeycomb(L), L = 2..12: the all-ones bonds put flux +1 = ground_state_ansatz(6) through every hexagon *)
Lemma honeycomb_flux_2_12 : forall n, 2 <= n <= 12 -> honeycomb_flux_sector_ok n = true.
Proof. apply forallb_zrange_from. vm_compute. reflexivity. Qed.
