(* Proofs/FluxSolverLatticeExamples.v — non-vacuity of the hypotheses of the lattice-level C06 theorems:
   a closed lattice (2 x 2 square grid on the torus, Proofs/FluxFacts.torus22) and an open one (two unit squares
   side by side, no crossing edges: 6 boundary edges, 1 two-sided edge). *)
From Coq Require Import List ZArith Bool Arith Lia.
From Koala Require Import Model.Lattice Model.AStar Model.Flux Model.SpanTree Model.FluxSolver Model.FluxSolverLattice.
From Koala Require Import Proofs.FluxFacts Proofs.SpanTreeComplete Proofs.FluxSolverFacts Proofs.GreedyPairingFacts
  Proofs.FluxSolverLatticeFacts Proofs.FluxSolverOpen.
Import ListNotations.

Definition strip2 : lattice := mkLattice 4
  [(0,0);(1,0);(2,0);(0,1);(1,1);(2,1)]%Z
  [(0,1);(1,2);(3,4);(4,5);(0,3);(1,4);(2,5)]%nat
  [(0,0);(0,0);(0,0);(0,0);(0,0);(0,0);(0,0)]%Z.

Definition ex_pick (l : list nat) : nat := hd 0%nat l.
Definition ex_nearest (c : nat) (l : list nat) : nat := hd 0%nat l.

(* closed lattice: all hypotheses of lat_solver_contract_ujk hold; an even target is reached exactly, an odd one up to
   one plaquette *)
Lemma lat_example_closed :
  exists ps,
    wf_lattice torus22 = true /\ no_self_loops torus22 = true /\ find_all_plaquettes torus22 = Some ps /\ length ps = 4%nat /\
    plaquette_graph_connected (edges_plaquettes torus22 ps) (length ps) /\
    fsl_cost_ok (fsl_adj ps (edges_plaquettes torus22 ps)) fsl_discrete /\
    (forall l, l <> [] -> In (ex_pick l) l) /\ (forall c l, l <> [] -> In (ex_nearest c l) l) /\
    fluxes_from_ujk torus22 [1;1;1;1;1;1;1;1]%Z = Some [1;1;1;1]%Z /\
    lat_ujk_from_fluxes torus22 fsl_discrete ex_pick ex_nearest [1;-1;-1;1]%Z [1;1;1;1;1;1;1;1]%Z
      = Some (FS_Ok [-1;1;1;1;1;1;-1;1]%Z) /\
    fluxes_from_ujk torus22 [-1;1;1;1;1;1;-1;1]%Z = Some [1;-1;-1;1]%Z /\
    lat_ujk_from_fluxes torus22 fsl_discrete ex_pick ex_nearest [1;-1;1;1]%Z [1;1;1;1;1;1;1;1]%Z
      = Some (FS_Ok [1;1;1;1;1;1;1;1]%Z).
Proof.
  destruct (find_all_plaquettes torus22) as [ps|] eqn:E; [|vm_compute in E; discriminate].
  exists ps. vm_compute in E. injection E as <-.
  split; [reflexivity|]. split; [reflexivity|]. split; [reflexivity|]. split; [reflexivity|].
  split; [apply fs_connected_b_sound; vm_compute; reflexivity|].
  split; [apply fsl_discrete_ok|]. split; [exact hd_In|]. split; [intros c; exact hd_In|].
  repeat split; vm_compute; reflexivity.
Qed.

(* open lattice: the hypotheses of lat_open_all_sectors_reachable hold; from the all +1 guess the target [-1; 1] has one
   defect: the solver returns the guess unchanged (one plaquette off, as the property allows), yet the target IS
   realised: flipping boundary edge 0 of plaquette 0 gives it, and this is what fs_complete_open computes *)
Lemma lat_example_open :
  exists ps,
    wf_lattice strip2 = true /\ no_self_loops strip2 = true /\ find_all_plaquettes strip2 = Some ps /\ length ps = 2%nat /\
    plaquette_graph_connected (edges_plaquettes strip2 ps) (length ps) /\
    fs_boundary_of (edges_plaquettes strip2 ps) 0 = Some 0%nat /\
    fluxes_from_ujk strip2 [1;1;1;1;1;1;1]%Z = Some [1;1]%Z /\
    lat_ujk_from_fluxes strip2 fsl_discrete ex_pick ex_nearest [-1;1]%Z [1;1;1;1;1;1;1]%Z
      = Some (FS_Ok [1;1;1;1;1;1;1]%Z) /\
    fs_complete_open (fs_fluxes_ujk (fsl_plaqs ps)) (edges_plaquettes strip2 ps)
       (fsl_path ps (edges_plaquettes strip2 ps) fsl_discrete 7) [-1;1]%Z [1;1;1;1;1;1;1]%Z = Some [-1;1;1;1;1;1;1]%Z /\
    fluxes_from_ujk strip2 [-1;1;1;1;1;1;1]%Z = Some [-1;1]%Z /\
    fs_complete_open (fs_fluxes_ujk (fsl_plaqs ps)) (edges_plaquettes strip2 ps)
       (fsl_path ps (edges_plaquettes strip2 ps) fsl_discrete 7) [1;-1]%Z [1;1;1;1;1;1;1]%Z = Some [-1;1;1;1;1;-1;1]%Z /\
    fluxes_from_ujk strip2 [-1;1;1;1;1;-1;1]%Z = Some [1;-1]%Z.
Proof.
  destruct (find_all_plaquettes strip2) as [ps|] eqn:E; [|vm_compute in E; discriminate].
  exists ps. vm_compute in E. injection E as <-.
  split; [reflexivity|]. split; [reflexivity|]. split; [reflexivity|]. split; [reflexivity|].
  split; [apply fs_connected_b_sound; vm_compute; reflexivity|].
  repeat split; vm_compute; reflexivity.
Qed.

(* "the solver returns the target whenever the target is reachable" is FALSE on lattices with a boundary
   (it is true on closed ones, where reachable = parity-compatible): the witness above *)
Lemma lat_open_solver_stops_short :
  exists L ps target guess u u',
    wf_lattice L = true /\ no_self_loops L = true /\ find_all_plaquettes L = Some ps /\
    plaquette_graph_connected (edges_plaquettes L ps) (length ps) /\
    lat_ujk_from_fluxes L fsl_discrete ex_pick ex_nearest target guess = Some (FS_Ok u) /\
    fluxes_from_ujk L u <> Some target /\
    all_pm1 u' = true /\ length u' = Lattice.nE L /\ fluxes_from_ujk L u' = Some target.
Proof.
  destruct lat_example_open as (ps & H1 & H2 & H3 & _ & H5 & _ & H7 & H8 & _ & H10 & _).
  exists strip2, ps, [-1;1]%Z, [1;1;1;1;1;1;1]%Z, [1;1;1;1;1;1;1]%Z, [-1;1;1;1;1;1;1]%Z.
  repeat split; auto. rewrite H7. discriminate.
Qed.

(* the closedness hypothesis of lat_closed_reachable_iff holds on torus22: each of its 16 directed edges lies in a plaquette;
   total flux of every realisable sector is (-1)^8 = +1 *)
Lemma lat_example_closed_cover :
  exists ps, find_all_plaquettes torus22 = Some ps /\
    (forall d, In d (all_darts torus22) -> In d (flat_map Flux.plaq_darts ps)) /\
    zprod [1;-1;-1;1]%Z = ((-1) ^ Z.of_nat (Lattice.nE torus22))%Z.
Proof.
  destruct (find_all_plaquettes torus22) as [ps|] eqn:E; [|vm_compute in E; discriminate].
  exists ps. vm_compute in E. injection E as <-.
  split; [reflexivity|]. split; [|reflexivity].
  intros d Hd. vm_compute in Hd.
  repeat (destruct Hd as [<-|Hd]; [vm_compute; tauto|]). contradiction.
Qed.
