(* Proofs/PeriodicRot.v — C10, polygons for ALL sizes, part 1: the rotation system and the dart successor of a
   PERIODIC lattice are those of its base cell, transported to every cell.

   Setting (Section Periodic): a good lattice L whose vertices are  n*ns + s  (cell n < N, site s < ns) and whose
   edges are  eid n e  (cell n, base edge e < ne; eid any bijection onto [0, nE L) with inverse (ecell, ebase)),
   copy n of base edge e = (bj e, bk e) joining site bj e of cell n to site bk e of cell  sh e n  (sh e a
   permutation of the cells with inverse shi e), with edge vector (al * x, be * y) for the base vector (x, y) of e
   (al, be > 0: the anisotropic rescaling of a tiling nx x ny).  brot s is the list of half-edges (e, is_tail) at
   base site s in strictly descending angle.  Then for EVERY cell
       sorted_adj L (n*ns+s) = map (hedge n) (brot s)                         (periodic_row)
       nd L (copy n of dart d) = copy (ncell n d d') of d',  d' = bnd d       (periodic_nd)
   where bnd is the successor computed on the base cell alone. *)
From Coq Require Import List ZArith Bool Arith Lia ZifyBool Permutation Sorted.
From Koala Require Import Model.Lattice Proofs.SortFacts Proofs.LatticeFacts.
Import ListNotations.
Open Scope nat_scope.

(* ---------- a strictly sorted list is the only sorted arrangement of its elements ---------- *)
Lemma sorted_unique (key : nat -> vec) : forall l1 l2,
  Permutation l1 l2 ->
  StronglySorted (desc_ok key) l1 ->
  StronglySorted (fun a b => ang_lt (key b) (key a) = true) l2 ->
  l1 = l2.
Proof.
  induction l1 as [|a r1 IH]; intros l2 P S1 S2.
  - apply Permutation_nil in P. now subst.
  - destruct l2 as [|b r2]. { symmetry in P. apply Permutation_nil in P. discriminate. }
    inversion S1 as [|? ? S1r F1]; subst. inversion S2 as [|? ? S2r F2]; subst.
    assert (a = b).
    { destruct (Nat.eq_dec a b) as [|Hne]; [assumption|exfalso].
      assert (Ia : In a r2).
      { assert (H : In a (b :: r2)) by (eapply Permutation_in; [exact P|left; reflexivity]).
        destruct H; [congruence|assumption]. }
      assert (Ib : In b r1).
      { assert (H : In b (a :: r1)) by (eapply Permutation_in; [symmetry; exact P|left; reflexivity]).
        destruct H; [congruence|assumption]. }
      rewrite Forall_forall in F1, F2. specialize (F1 _ Ib). specialize (F2 _ Ia).
      unfold desc_ok in F1. congruence. }
    subst b. f_equal. apply IH; [eapply Permutation_cons_inv; exact P|assumption|assumption].
Qed.

Lemma strict_sorted_NoDup {A} (R : A -> A -> Prop) l :
  (forall x, ~ R x x) -> StronglySorted R l -> NoDup l.
Proof.
  intros Hirr. induction 1 as [|a l S IH F]; constructor; [|exact IH].
  intro Hin. rewrite Forall_forall in F. exact (Hirr a (F a Hin)).
Qed.

Lemma NoDup_map_local {A B} (f : A -> B) l :
  (forall x y, In x l -> In y l -> f x = f y -> x = y) -> NoDup l -> NoDup (map f l).
Proof.
  induction l as [|a l IH]; intros Hinj Hnd; [constructor|].
  inversion Hnd as [|? ? Hni Hnd']; subst. cbn [map]. constructor.
  - intro Hin. apply in_map_iff in Hin as (y & Hy & Hiny).
    assert (y = a) by (apply Hinj; [right; exact Hiny|left; reflexivity|exact Hy]). subst y. contradiction.
  - apply IH; [|exact Hnd']. intros x y Hx Hy. apply Hinj; right; assumption.
Qed.

Lemma StronglySorted_map {A B} (R : A -> A -> Prop) (R' : B -> B -> Prop) (f : A -> B) l :
  (forall x y, In x l -> In y l -> R x y -> R' (f x) (f y)) ->
  StronglySorted R l -> StronglySorted R' (map f l).
Proof.
  induction l as [|a l IH]; intros Himp S; [constructor|].
  inversion S as [|? ? S' F]; subst. cbn [map]. constructor.
  - apply IH; [|exact S']. intros x y Hx Hy. apply Himp; right; assumption.
  - rewrite Forall_forall in *. intros y Hy. apply in_map_iff in Hy as (x & <- & Hx).
    apply Himp; [left; reflexivity|right; exact Hx|apply F, Hx].
Qed.

(* ---------- cyclic successor in a list over any type with a boolean equality ---------- *)
Section GenSucc.
  Context {A : Type} (eqb : A -> A -> bool) (eqb_spec : forall a b, eqb a b = true <-> a = b).

  Fixpoint gindex (x : A) (l : list A) : option nat :=
    match l with
    | [] => None
    | y :: r => if eqb y x then Some 0 else option_map S (gindex x r)
    end.
  Definition gsucc (d : A) (row : list A) (x : A) : option A :=
    match gindex x row with
    | None => None
    | Some i => Some (nth (Nat.modulo (S i) (length row)) row d)
    end.

  Lemma gindex_lt x l i : gindex x l = Some i -> i < length l /\ nth i l x = x.
  Proof.
    revert i; induction l as [|y r IH]; intros i; cbn [gindex]; [discriminate|].
    destruct (eqb y x) eqn:E.
    - intros [= <-]. apply eqb_spec in E. subst. cbn. split; [lia|reflexivity].
    - destruct (gindex x r) as [j|]; [|discriminate]. intros [= <-].
      destruct (IH j eq_refl) as [H1 H2]. cbn. split; [lia|exact H2].
  Qed.

  Lemma gindex_In x l : In x l -> exists i, gindex x l = Some i.
  Proof.
    induction l as [|y r IH]; [intros []|]. intros Hin. cbn [gindex].
    destruct (eqb y x) eqn:E; [eauto|].
    destruct Hin as [->|Hin]; [assert (eqb x x = true) by (apply eqb_spec; reflexivity); congruence|].
    destruct (IH Hin) as [i ->]. cbn. eauto.
  Qed.

  Lemma gsucc_In d row x y : gsucc d row x = Some y -> In x row /\ In y row.
  Proof.
    unfold gsucc. destruct (gindex x row) as [i|] eqn:E; [|discriminate]. intros [= <-].
    destruct (gindex_lt _ _ _ E) as [Hi Hx]. split.
    - rewrite <- Hx. apply nth_In, Hi.
    - apply nth_In. apply Nat.mod_upper_bound. lia.
  Qed.

  (* transport along a map into nat that is injective on the row *)
  Lemma index_of_map (f : A -> nat) x l :
    (forall y, In y l -> f y = f x -> y = x) -> index_of (f x) (map f l) = gindex x l.
  Proof.
    induction l as [|y r IH]; intros Hinj; [reflexivity|]. cbn [map index_of gindex].
    destruct (eqb y x) eqn:E.
    - apply eqb_spec in E. subst. rewrite Nat.eqb_refl. reflexivity.
    - destruct (Nat.eqb_spec (f y) (f x)) as [Hf|Hf].
      + assert (y = x) by (apply Hinj; [left; reflexivity|exact Hf]).
        assert (eqb y x = true) by (apply eqb_spec; assumption). congruence.
      + rewrite IH; [reflexivity|]. intros z Hz. apply Hinj. right. exact Hz.
  Qed.

  Lemma succ_in_map (f : A -> nat) d x row :
    (forall y, In y row -> f y = f x -> y = x) ->
    succ_in (map f row) (f x) = option_map f (gsucc d row x).
  Proof.
    intros Hinj. unfold succ_in, gsucc. rewrite index_of_map by exact Hinj.
    destruct (gindex x row) as [i|] eqn:E; [|reflexivity]. cbn [option_map]. f_equal.
    destruct (gindex_lt _ _ _ E) as [Hi _]. rewrite map_length.
    rewrite nth_indep with (d' := f d) by (rewrite map_length; apply Nat.mod_upper_bound; lia).
    apply map_nth.
  Qed.
End GenSucc.

(* ---------- the comparator is invariant under positive anisotropic rescaling ---------- *)
Definition asc (al be : Z) (v : vec) : vec := (al * fst v, be * snd v)%Z.

Lemma pos_mul_ltb a x : (0 < a)%Z -> (0 <? a * x)%Z = (0 <? x)%Z.
Proof. intros Ha. destruct (Z.ltb_spec 0 (a * x)), (Z.ltb_spec 0 x); try reflexivity; nia. Qed.
Lemma pos_mul_ltb_neg a x : (0 < a)%Z -> (0 <? - (a * x))%Z = (0 <? - x)%Z.
Proof. intros Ha. destruct (Z.ltb_spec 0 (- (a * x))), (Z.ltb_spec 0 (- x)); try reflexivity; nia. Qed.
Lemma pos_mul_eqb_neg a x : (0 < a)%Z -> (- (a * x) =? 0)%Z = (- x =? 0)%Z.
Proof. intros Ha. destruct (Z.eqb_spec (- (a * x)) 0), (Z.eqb_spec (- x) 0); try reflexivity; nia. Qed.

Lemma half_asc al be v : (0 < al)%Z -> (0 < be)%Z -> half (asc al be v) = half v.
Proof.
  intros Ha Hb. unfold half, asc. cbn [fst snd].
  rewrite pos_mul_ltb_neg, pos_mul_eqb_neg, pos_mul_ltb by assumption. reflexivity.
Qed.

Lemma ang_lt_asc al be v w : (0 < al)%Z -> (0 < be)%Z -> ang_lt (asc al be v) (asc al be w) = ang_lt v w.
Proof.
  intros Ha Hb. unfold ang_lt. rewrite !half_asc by assumption. unfold asc. cbn [fst snd].
  replace (be * snd v * - (al * fst w) - - (al * fst v) * (be * snd w))%Z
    with ((al * be) * (snd v * - fst w - - fst v * snd w))%Z by ring.
  rewrite pos_mul_ltb by nia. reflexivity.
Qed.

Lemma asc_vneg al be v : vneg (asc al be v) = asc al be (vneg v).
Proof. unfold vneg, asc. cbn [fst snd]. f_equal; ring. Qed.

Lemma asc_nonzero al be v : (0 < al)%Z -> (0 < be)%Z -> v <> vzero -> asc al be v <> vzero.
Proof.
  intros Ha Hb Hv E. apply Hv. destruct v as [x y]. unfold asc, vzero in *. cbn [fst snd] in E.
  injection E as E1 E2. f_equal; nia.
Qed.

Lemma cell_site_inj ns m a n s : a < ns -> s < ns -> m * ns + a = n * ns + s -> m = n /\ a = s.
Proof. intros Ha Hs E. destruct (Nat.lt_trichotomy m n) as [H|[H|H]]; nia. Qed.

(* ================================================================== the periodic setting *)
Section Periodic.
  Variable L : lattice.
  Hypothesis HG : good L.
  Variables N ns ne : nat.
  Variables bj bk : nat -> nat.
  Variables sh shi : nat -> nat -> nat.
  Variable eid : nat -> nat -> nat.
  Variables ecell ebase : nat -> nat.
  Variable bvec : nat -> vec.
  Variables al be : Z.
  Variable brot : nat -> list (nat * bool).

  (* half-edge (e, true) = tail end of base edge e, (e, false) = head end; outward vector *)
  Definition hvec (h : nat * bool) : vec := if snd h then bvec (fst h) else vneg (bvec (fst h)).
  (* the copy of half-edge h that sits at a vertex of cell n *)
  Definition hedge (n : nat) (h : nat * bool) : nat := if snd h then eid n (fst h) else eid (shi (fst h) n) (fst h).

  Hypothesis Hal : (0 < al)%Z.
  Hypothesis Hbe : (0 < be)%Z.
  Hypothesis Hb_lt : forall e, e < ne -> bj e < ns /\ bk e < ns.
  Hypothesis Hsh : forall e n, e < ne -> n < N ->
    sh e n < N /\ shi e n < N /\ sh e (shi e n) = n /\ shi e (sh e n) = n.
  Hypothesis Heid_lt : forall n e, n < N -> e < ne -> eid n e < nE L.
  Hypothesis Hdec : forall x, x < nE L -> ecell x < N /\ ebase x < ne /\ eid (ecell x) (ebase x) = x.
  Hypothesis Heid_inj : forall n e n' e', n < N -> e < ne -> n' < N -> e' < ne ->
    eid n e = eid n' e' -> n = n' /\ e = e'.
  Hypothesis Hedge : forall n e, n < N -> e < ne ->
    edge_at L (eid n e) = (n * ns + bj e, sh e n * ns + bk e).
  Hypothesis Hvec : forall n e, n < N -> e < ne -> evec L (eid n e) = asc al be (bvec e).
  Hypothesis Hnz : forall e, e < ne -> bvec e <> vzero.
  Hypothesis Hrot_in : forall s e b, s < ns ->
    (In (e, b) (brot s) <-> e < ne /\ (if b then bj e else bk e) = s).
  Hypothesis Hrot_sorted : forall s, s < ns ->
    StronglySorted (fun h1 h2 => ang_lt (hvec h2) (hvec h1) = true) (brot s).

  Lemma brot_NoDup s : s < ns -> NoDup (brot s).
  Proof.
    intros Hs. eapply strict_sorted_NoDup; [|apply Hrot_sorted, Hs].
    intros x H. cbv beta in H. rewrite ang_lt_irrefl in H. discriminate.
  Qed.

  (* the edge of L behind a half-edge copy: the named end is the vertex, the other end is not *)
  Lemma edge_hedge n s e b : n < N -> s < ns -> In (e, b) (brot s) ->
    hedge n (e, b) < nE L /\
    (if b then fst (edge_at L (hedge n (e, b))) else snd (edge_at L (hedge n (e, b)))) = n * ns + s /\
    (if b then snd (edge_at L (hedge n (e, b))) else fst (edge_at L (hedge n (e, b)))) <> n * ns + s.
  Proof.
    intros Hn Hs Hin. apply Hrot_in in Hin as [He Hend]; [|exact Hs].
    destruct (Hsh e n He Hn) as (H1 & H2 & H3 & H4).
    unfold hedge. cbn [fst snd]. destruct b.
    - pose proof (Heid_lt n e Hn He) as Hlt. pose proof (Hedge n e Hn He) as E.
      destruct (good_edge L _ _ _ HG Hlt E) as (_ & _ & Hne).
      rewrite E. cbn [fst snd]. subst s. repeat split; [exact Hlt|]. intro X. apply Hne. symmetry. exact X.
    - pose proof (Heid_lt _ e H2 He) as Hlt. pose proof (Hedge _ e H2 He) as E.
      rewrite H3 in E. destruct (good_edge L _ _ _ HG Hlt E) as (_ & _ & Hne).
      rewrite E. cbn [fst snd]. subst s. repeat split; [exact Hlt|]. exact Hne.
  Qed.

  Lemma outvec_hedge n s h : n < N -> s < ns -> In h (brot s) ->
    outvec L (n * ns + s) (hedge n h) = asc al be (hvec h).
  Proof.
    intros Hn Hs Hin. destruct h as [e b].
    destruct (edge_hedge n s e b Hn Hs Hin) as (_ & Hend & Hoth).
    pose proof Hin as Hin'. apply Hrot_in in Hin' as [He _]; [|exact Hs].
    destruct (Hsh e n He Hn) as (H1 & H2 & H3 & H4).
    unfold outvec, hvec. cbn [fst snd]. destruct b.
    - rewrite Hend, Nat.eqb_refl. unfold hedge. cbn [fst snd]. apply Hvec; assumption.
    - destruct (Nat.eqb_spec (fst (edge_at L (hedge n (e, false)))) (n * ns + s)) as [X|_]; [contradiction|].
      unfold hedge. cbn [fst snd]. rewrite Hvec by assumption. apply asc_vneg.
  Qed.

  Lemma hedge_inj n s h1 h2 : n < N -> s < ns -> In h1 (brot s) -> In h2 (brot s) ->
    hedge n h1 = hedge n h2 -> h1 = h2.
  Proof.
    intros Hn Hs I1 I2 E. destruct h1 as [e1 b1], h2 as [e2 b2].
    destruct (edge_hedge n s e1 b1 Hn Hs I1) as (_ & A1 & B1).
    destruct (edge_hedge n s e2 b2 Hn Hs I2) as (_ & A2 & B2).
    pose proof I1 as J1. apply Hrot_in in J1 as [He1 _]; [|exact Hs].
    pose proof I2 as J2. apply Hrot_in in J2 as [He2 _]; [|exact Hs].
    destruct (Hsh e1 n He1 Hn) as (_ & S1 & _). destruct (Hsh e2 n He2 Hn) as (_ & S2 & _).
    assert (e1 = e2).
    { unfold hedge in E. cbn [fst snd] in E.
      destruct b1, b2; eapply Heid_inj in E; try eassumption; tauto. }
    subst e2. rewrite <- E in A2, B2. destruct b1, b2; try reflexivity; congruence.
  Qed.

  Lemma incident_periodic n s x : n < N -> s < ns ->
    (In x (incident L (n * ns + s)) <-> In x (map (hedge n) (brot s))).
  Proof.
    intros Hn Hs. rewrite incident_in, in_map_iff. split.
    - intros [Hx Hend]. destruct (Hdec x Hx) as (Hm & He & Ex).
      remember (ecell x) as m eqn:Em. remember (ebase x) as e eqn:Ee. clear Em Ee.
      pose proof (Hedge m e Hm He) as E. rewrite Ex in E. rewrite E in Hend. cbn [fst snd] in Hend.
      destruct (Hb_lt e He) as [Hj Hk]. destruct (Hsh e m He Hm) as (H1 & H2 & H3 & H4).
      destruct Hend as [Hend|Hend]; apply cell_site_inj in Hend as [Hc Hsite]; try assumption.
      + exists (e, true). split; [unfold hedge; cbn [fst snd]; rewrite <- Hc; exact Ex|].
        apply Hrot_in; [exact Hs|]. split; assumption.
      + exists (e, false). split.
        * unfold hedge. cbn [fst snd]. rewrite <- Hc, H4. exact Ex.
        * apply Hrot_in; [exact Hs|]. split; assumption.
    - intros ([e b] & <- & Hin). destruct (edge_hedge n s e b Hn Hs Hin) as (Hlt & Hend & _).
      split; [exact Hlt|]. destruct b; [left|right]; exact Hend.
  Qed.

  (* ---- the rotation system at every vertex of every cell is the base rotation, transported ---- *)
  Theorem periodic_row n s : n < N -> s < ns ->
    sorted_adj L (n * ns + s) = map (hedge n) (brot s).
  Proof.
    intros Hn Hs. set (v := n * ns + s).
    assert (Hnd : NoDup (map (hedge n) (brot s))).
    { apply NoDup_map_local; [|apply brot_NoDup, Hs]. intros x y Hx Hy. apply (hedge_inj n s); assumption. }
    assert (P : Permutation (sorted_adj L v) (map (hedge n) (brot s))).
    { apply NoDup_Permutation; [apply sorted_adj_NoDup|exact Hnd|].
      intros x. rewrite in_sorted_adj. rewrite <- (incident_periodic n s x Hn Hs).
      rewrite incident_in. unfold incident_b. destruct (edge_at L x) as [j k]. cbn [fst snd].
      rewrite orb_true_iff, !Nat.eqb_eq. reflexivity. }
    apply (sorted_unique (outvec L v)); [exact P| |].
    - apply sorted_strongly; [|apply (sort_desc_sorted (outvec L v))].
      intros x Hx. apply (Permutation_in _ P) in Hx. apply in_map_iff in Hx as (h & <- & Hh).
      unfold v. rewrite outvec_hedge by assumption. apply asc_nonzero; try assumption.
      destruct h as [e b]. apply Hrot_in in Hh as [He _]; [|exact Hs]. unfold hvec. cbn [fst snd].
      pose proof (Hnz e He) as Hz. destruct b; [exact Hz|].
      intro X. apply Hz. destruct (bvec e) as [x y]. unfold vneg, vzero in *. cbn [fst snd] in X.
      injection X as X1 X2. f_equal; lia.
    - eapply StronglySorted_map; [|apply Hrot_sorted, Hs].
      intros h1 h2 I1 I2 R. cbv beta in R. unfold v. rewrite !outvec_hedge by assumption.
      rewrite ang_lt_asc by assumption. exact R.
  Qed.

  (* ---- darts: copy n of base dart d = (e, along?) ---- *)
  Definition tdart (n : nat) (d : nat * bool) : dart := (eid n (fst d), snd d).
  Definition hsite (d : nat * bool) : nat := if snd d then bk (fst d) else bj (fst d).
  Definition hcell (n : nat) (d : nat * bool) : nat := if snd d then sh (fst d) n else n.
  (* successor on the base cell: the half-edge after the arriving one in the rotation at the head site *)
  Definition bnd (d : nat * bool) : option (nat * bool) :=
    gsucc dart_eqb (0, true) (brot (hsite d)) (fst d, negb (snd d)).
  (* the cell of the successor's copy *)
  Definition ncell (n : nat) (d d' : nat * bool) : nat :=
    if snd d' then hcell n d else shi (fst d') (hcell n d).

  Lemma tdart_valid n d : n < N -> fst d < ne -> valid_dart L (tdart n d).
  Proof. intros Hn He. unfold valid_dart, tdart. cbn [fst]. apply Heid_lt; assumption. Qed.

  Lemma tdart_head n d : n < N -> fst d < ne ->
    dhead L (tdart n d) = hcell n d * ns + hsite d /\ hcell n d < N /\ hsite d < ns /\
    dtail L (tdart n d) = (if snd d then n else sh (fst d) n) * ns + (if snd d then bj (fst d) else bk (fst d)).
  Proof.
    intros Hn He. destruct d as [e b]. cbn [fst snd] in *.
    unfold dhead, dtail, tdart, hcell, hsite. cbn [fst snd]. rewrite (Hedge n e Hn He).
    destruct (Hb_lt e He) as [Hj Hk]. destruct (Hsh e n He Hn) as (H1 & _).
    destruct b; repeat split; assumption.
  Qed.

  Theorem periodic_nd n d : n < N -> fst d < ne ->
    exists d', bnd d = Some d' /\ fst d' < ne /\ ncell n d d' < N /\
               nd L (tdart n d) = Some (tdart (ncell n d d') d').
  Proof.
    intros Hn He. destruct (tdart_head n d Hn He) as (Hh & Hc & Hs & _).
    set (n' := hcell n d) in *. set (s' := hsite d) in *.
    destruct (nd_spec L (tdart n d) HG (tdart_valid n d Hn He)) as (f & Hsucc & Hnd).
    rewrite Hh in Hsucc, Hnd. rewrite (periodic_row n' s' Hc Hs) in Hsucc.
    set (h := (fst d, negb (snd d))).
    assert (Hin : In h (brot s')).
    { apply Hrot_in; [exact Hs|]. split; [exact He|]. unfold s', hsite. destruct (snd d); reflexivity. }
    assert (Eh : fst (tdart n d) = hedge n' h).
    { unfold tdart, hedge, h, n', hcell. cbn [fst snd]. destruct (Hsh (fst d) n He Hn) as (_ & _ & _ & H4).
      destruct (snd d); cbn [negb]; [rewrite H4|]; reflexivity. }
    rewrite Eh in Hsucc.
    rewrite (succ_in_map dart_eqb dart_eqb_eq (hedge n') (0, true)) in Hsucc.
    2:{ intros y Hy E. apply (hedge_inj n' s'); assumption. }
    change (gsucc dart_eqb (0, true) (brot s') h) with (bnd d) in Hsucc. destruct (bnd d) as [d'|] eqn:Eb; [|discriminate].
    cbn [option_map] in Hsucc. injection Hsucc as <-.
    change (bnd d) with (gsucc dart_eqb (0, true) (brot s') h) in Eb.
    destruct (gsucc_In dart_eqb dart_eqb_eq _ _ _ _ Eb) as [_ Hd'].
    destruct d' as [e' b']. pose proof Hd' as Hd''. apply Hrot_in in Hd'' as [He' _]; [|exact Hs].
    destruct (Hsh e' n' He' Hc) as (_ & Hshi & _).
    destruct (edge_hedge n' s' e' b' Hc Hs Hd') as (_ & Hend & Hoth).
    exists (e', b'). split; [reflexivity|]. split; [exact He'|].
    assert (Hnc : ncell n d (e', b') < N).
    { unfold ncell. cbn [fst snd]. fold n'. destruct b'; assumption. }
    split; [exact Hnc|]. rewrite Hnd. f_equal.
    unfold out_dart, tdart, ncell. cbn [fst snd]. fold n'. destruct b'.
    - rewrite Hend, Nat.eqb_refl. reflexivity.
    - destruct (Nat.eqb_spec (fst (edge_at L (hedge n' (e', false)))) (n' * ns + s')) as [X|_]; [contradiction|].
      reflexivity.
  Qed.
End Periodic.
