(* Proofs/CycListFacts.v — generic facts about StronglySorted lists (used by Proofs/CyclicFacts.v, C02). *)
From Coq Require Import List ZArith Bool Arith Lia Permutation Sorted.
Import ListNotations.

Section SS.
Variable A : Type.
Variables R R' : A -> A -> Prop.

Lemma SS_app_iff : forall l1 l2,
  StronglySorted R (l1 ++ l2) <->
  StronglySorted R l1 /\ StronglySorted R l2 /\ (forall a b, In a l1 -> In b l2 -> R a b).
Proof.
  induction l1 as [|x l1 IH]; intros l2; simpl.
  - split. intros H. repeat split. constructor. assumption. intros a b []. intros (_ & H & _). assumption.
  - split.
    + intros H. inversion H as [|? ? Hs Hf]; subst. apply IH in Hs. destruct Hs as (S1 & S2 & S12).
      rewrite Forall_app in Hf. destruct Hf as [F1 F2]. repeat split.
      * constructor; assumption.
      * assumption.
      * intros a b [->|Ha] Hb. rewrite Forall_forall in F2. apply F2; assumption. apply S12; assumption.
    + intros (S1 & S2 & S12). inversion S1 as [|? ? Hs Hf]; subst. constructor.
      * apply IH. repeat split; try assumption. intros a b Ha Hb. apply S12; [right|]; assumption.
      * apply Forall_app. split. assumption. apply Forall_forall. intros b Hb. apply S12; [left; reflexivity|assumption].
Qed.

Lemma SS_impl_in : forall l,
  StronglySorted R l -> NoDup l ->
  (forall a b, In a l -> In b l -> a <> b -> R a b -> R' a b) -> StronglySorted R' l.
Proof.
  intros l H. induction H as [|x l Hs IH Hf]; intros Hnd Himp. constructor.
  inversion Hnd as [|? ? Hx Hr]; subst. constructor.
  - apply IH. assumption. intros a b Ha Hb. apply Himp; right; assumption.
  - rewrite Forall_forall in *. intros y Hy. apply Himp. left; reflexivity. right; assumption.
    intros ->. contradiction. apply Hf. assumption.
Qed.

(* a sorted list splits along a predicate that is monotone along the order *)
Lemma split_sorted : forall (q : A -> bool) l,
  StronglySorted R l ->
  (forall a b, In a l -> In b l -> R a b -> q a = true -> q b = true) ->
  l = filter (fun x => negb (q x)) l ++ filter q l.
Proof.
  intros q l H. induction H as [|x l Hs IH Hf]; intros Hm; simpl. reflexivity.
  destruct (q x) eqn:Ex; simpl.
  - assert (Hall : forall y, In y l -> q y = true).
    { intros y Hy. rewrite Forall_forall in Hf. apply (Hm x y); [left; reflexivity|right; assumption|apply Hf; assumption|assumption]. }
    assert (E1 : filter (fun x => negb (q x)) l = []).
    { clear -Hall. induction l as [|y l IH]; simpl. reflexivity. rewrite (Hall y) by (left; reflexivity). simpl.
      apply IH. intros z Hz. apply Hall. right; assumption. }
    assert (E2 : filter q l = l).
    { clear -Hall. induction l as [|y l IH]; simpl. reflexivity. rewrite (Hall y) by (left; reflexivity).
      f_equal. apply IH. intros z Hz. apply Hall. right; assumption. }
    rewrite E1, E2. reflexivity.
  - f_equal. apply IH. intros a b Ha Hb. apply Hm; right; assumption.
Qed.

Lemma sorted_perm_unique : forall l1 l2,
  (forall a b, R a b -> R b a -> False) ->
  StronglySorted R l1 -> StronglySorted R l2 -> NoDup l1 -> Permutation l1 l2 -> l1 = l2.
Proof.
  intros l1 l2 Hasym H1. revert l2. induction H1 as [|a l1 Hs IH Hf]; intros l2 H2 Hnd HP.
  - apply Permutation_nil in HP. subst. reflexivity.
  - destruct l2 as [|b l2]. apply Permutation_sym, Permutation_nil in HP. discriminate.
    inversion H2 as [|? ? Hs2 Hf2]; subst. inversion Hnd as [|? ? Ha Hr]; subst.
    assert (E : a = b).
    { assert (Hin : In a (b :: l2)) by (eapply Permutation_in; [exact HP|left; reflexivity]).
      destruct Hin as [->|Hin]. reflexivity.
      assert (Hin' : In b (a :: l1)) by (eapply Permutation_in; [symmetry; exact HP|left; reflexivity]).
      destruct Hin' as [->|Hin']. reflexivity.
      exfalso. rewrite Forall_forall in Hf, Hf2. apply (Hasym a b). apply Hf; assumption. apply Hf2; assumption. }
    subst b. f_equal. apply IH. assumption. assumption. eapply Permutation_cons_inv. exact HP.
Qed.
End SS.

Lemma SS_rev : forall A (R : A -> A -> Prop) l,
  StronglySorted R l -> StronglySorted (fun a b => R b a) (rev l).
Proof.
  intros A R l H. induction H as [|x l Hs IH Hf]; simpl. constructor.
  apply SS_app_iff. repeat split. assumption. repeat constructor.
  intros a b Ha [<-|[]]. rewrite Forall_forall in Hf. apply Hf. apply in_rev. assumption.
Qed.

Lemma SS_filter : forall A (R : A -> A -> Prop) f l, StronglySorted R l -> StronglySorted R (filter f l).
Proof.
  intros A R f l H. induction H as [|x l Hs IH Hf]; simpl. constructor.
  destruct (f x); [|assumption]. constructor. assumption.
  rewrite Forall_forall in Hf |- *. intros y Hy. apply filter_In in Hy. apply Hf. tauto.
Qed.

