(* Proofs/SpanTreeFacts.v — lemmas about Model/SpanTree.v used by Props/C14.v *)
From Coq Require Import List ZArith Bool Arith Lia ZifyBool Permutation.
From Koala Require Import Model.Lattice Model.Flux Model.SpanTree Proofs.FluxFacts.
Import ListNotations.
Open Scope Z_scope.

(* ------------------------------------------------------------------ output length *)
Lemma tree_loop_length : forall order ep pes iters n pin bnd,
  length (tree_loop order ep pes n iters pin bnd) = iters.
Proof.
  intros order ep pes. induction iters as [|k IH]; intros n pin bnd; simpl.
  - reflexivity.
  - destruct (find_link ep pin (order n bnd)) as [[e q]|]; simpl; now rewrite IH.
Qed.

Lemma spanning_tree_length : forall order ep pes t,
  plaquette_spanning_tree order ep pes = Some t -> length t = (length pes - 1)%nat.
Proof.
  intros order ep pes t H. unfold plaquette_spanning_tree, spanning_trace in H.
  destruct pes as [|p0 pes']; [discriminate|]. simpl in H. inversion H; subst.
  rewrite map_length, tree_loop_length. reflexivity.
Qed.

(* ------------------------------------------------------------------ set_nth *)
Lemma set_nth_length : forall (A : Type) (l : list A) i x, length (set_nth i x l) = length l.
Proof. induction l as [|y l IH]; intros [|i] x; simpl; auto. Qed.

Lemma nth_set_nth_same : forall (A : Type) (l : list A) i x d,
  (i < length l)%nat -> nth i (set_nth i x l) d = x.
Proof.
  induction l as [|y l IH]; intros [|i] x d H; simpl in *; try lia; auto.
  apply IH. lia.
Qed.

Lemma nth_set_nth_other : forall (A : Type) (l : list A) i j x d,
  i <> j -> nth j (set_nth i x l) d = nth j l d.
Proof.
  induction l as [|y l IH]; intros [|i] [|j] x d H; simpl; auto; try lia.
Qed.

(* ------------------------------------------------------------------ n_to_ujk_flipped *)
Lemma write_bond_length : forall u eb, length (write_bond u eb) = length u.
Proof. intros. apply set_nth_length. Qed.

Lemma fold_write_length : forall ebs u, length (fold_left write_bond ebs u) = length u.
Proof.
  induction ebs as [|eb ebs IH]; intros u; simpl; [reflexivity|].
  now rewrite IH, write_bond_length.
Qed.

Lemma fold_write_notin : forall ebs u e,
  ~ In e (map fst ebs) -> bond (fold_left write_bond ebs u) e = bond u e.
Proof.
  induction ebs as [|[e0 b0] ebs IH]; intros u e H; simpl in *; [reflexivity|].
  rewrite IH by tauto. unfold bond, write_bond. simpl. apply nth_set_nth_other. tauto.
Qed.

Lemma fold_write_in : forall ebs u e b,
  NoDup (map fst ebs) -> (forall x, In x (map fst ebs) -> (x < length u)%nat) ->
  In (e, b) ebs -> bond (fold_left write_bond ebs u) e = 1 - 2 * b2z b.
Proof.
  induction ebs as [|[e0 b0] ebs IH]; intros u e b Hnd Hr Hin; simpl in *; [destruct Hin|].
  inversion Hnd as [|x l Hn Hnd']; subst.
  destruct Hin as [E|Hin].
  - inversion E; subst. rewrite fold_write_notin by assumption.
    unfold bond, write_bond. simpl. apply nth_set_nth_same. apply Hr. now left.
  - apply IH; [assumption| |assumption].
    intros x Hx. rewrite write_bond_length. apply Hr. now right.
Qed.

Lemma bits_be_length : forall k n, length (bits_be k n) = k.
Proof. induction k as [|k IH]; intros n; simpl; auto. Qed.

Lemma bits_be_nth : forall k n j, (j < k)%nat ->
  nth j (bits_be k n) false = Z.testbit n (Z.of_nat (k - 1 - j)).
Proof.
  induction k as [|k IH]; intros n j H; [lia|]. simpl bits_be.
  destruct j as [|j]; simpl nth.
  - f_equal. f_equal. lia.
  - rewrite IH by lia. f_equal. f_equal. lia.
Qed.

Lemma map_fst_combine_le : forall (A B : Type) (l : list A) (l' : list B),
  length l = length l' -> map fst (combine l l') = l.
Proof.
  induction l as [|x l IH]; intros [|y l'] H; simpl in *; try discriminate; auto.
  f_equal. apply IH. lia.
Qed.

Lemma in_combine_nth : forall (A B : Type) (l : list A) (l' : list B) j da db,
  (j < length l)%nat -> length l = length l' -> In (nth j l da, nth j l' db) (combine l l').
Proof.
  induction l as [|x l IH]; intros [|y l'] j da db Hj Hl; simpl in *; try lia.
  destruct j as [|j]; [now left|right]. apply IH; lia.
Qed.

Definition in_range (n : Z) (k : nat) : Prop := 0 <= n < 2 ^ Z.of_nat k.

Lemma n_to_ujk_flipped_defined : forall n u tree,
  (exists r, n_to_ujk_flipped n u tree = Some r) <-> in_range n (length tree).
Proof.
  intros n u tree. unfold n_to_ujk_flipped, in_range.
  destruct (0 <=? n) eqn:E1; destruct (n <? 2 ^ Z.of_nat (length tree)) eqn:E2; simpl; split;
    try (intros [r H]; discriminate); try lia; intros _; eexists; reflexivity.
Qed.

(* flipped_spec *)
Lemma flipped_spec : forall n u tree,
  NoDup tree -> (forall e, In e tree -> (e < length u)%nat) -> in_range n (length tree) ->
  exists r, n_to_ujk_flipped n u tree = Some r
    /\ length r = length u
    /\ (forall e, ~ In e tree -> bond r e = bond u e)
    /\ (forall j, (j < length tree)%nat ->
          bond r (nth j tree 0%nat) = 1 - 2 * b2z (Z.testbit n (Z.of_nat (length tree - 1 - j))))
    /\ (forall e, In e tree -> bond r e = 1 \/ bond r e = -1).
Proof.
  intros n u tree Hnd Hr Hn. unfold n_to_ujk_flipped. unfold in_range in Hn.
  replace ((0 <=? n) && (n <? 2 ^ Z.of_nat (length tree))) with true by lia.
  eexists. split; [reflexivity|].
  set (k := length tree). set (ebs := combine tree (bits_be k n)).
  assert (Hfst : map fst ebs = tree) by (apply map_fst_combine_le; now rewrite bits_be_length).
  assert (Hj : forall j, (j < k)%nat ->
     bond (fold_left write_bond ebs u) (nth j tree 0%nat) = 1 - 2 * b2z (Z.testbit n (Z.of_nat (k - 1 - j)))).
  { intros j Hlt. rewrite <- (bits_be_nth k n j Hlt).
    apply fold_write_in; [now rewrite Hfst|now rewrite Hfst|].
    apply in_combine_nth; [exact Hlt|now rewrite bits_be_length]. }
  split; [apply fold_write_length|]. split; [|split].
  - intros e He. apply fold_write_notin. now rewrite Hfst.
  - exact Hj.
  - intros e He. destruct (In_nth tree e 0%nat He) as [j [Hlt <-]].
    rewrite (Hj j Hlt). destruct (Z.testbit n _); simpl; auto.
Qed.

(* ------------------------------------------------------------------ the Prim loop: invariants *)
Fixpoint somes {A : Type} (l : list (option A)) : list A :=
  match l with
  | [] => []
  | None :: r => somes r
  | Some x :: r => x :: somes r
  end.

Lemma memb_In : forall x l, memb x l = true <-> In x l.
Proof.
  intros x l. unfold memb. rewrite existsb_exists. split.
  - intros [y [Hy E]]. apply Nat.eqb_eq in E. now subst.
  - intros H. exists x. split; [assumption|apply Nat.eqb_refl].
Qed.

Lemma memb_false : forall x l, memb x l = false <-> ~ In x l.
Proof.
  intros x l. rewrite <- memb_In. destruct (memb x l); split; intros; congruence.
Qed.

(* the link found in one iteration: a two-sided edge, one side already in, the other one new *)
Definition link_ok (ep : list ep_row) (pin : list nat) (x : nat * nat) : Prop :=
  exists a b, two_sided ep (fst x) = Some (a, b) /\ ~ In (snd x) pin /\
    ((snd x = a /\ In b pin) \/ (snd x = b /\ In a pin)).

Lemma find_link_spec : forall ep pin cands e q,
  find_link ep pin cands = Some (e, q) -> In e cands /\ link_ok ep pin (e, q).
Proof.
  intros ep pin. induction cands as [|c r IH]; intros e q H; simpl in H; [discriminate|].
  destruct (two_sided ep c) as [[a b]|] eqn:E.
  - destruct ((negb (memb a pin) || negb (memb b pin)) && (memb a pin || memb b pin)) eqn:T.
    + inversion H; subst. split; [now left|].
      exists a, b. simpl. split; [assumption|].
      destruct (memb a pin) eqn:Ma; destruct (memb b pin) eqn:Mb; simpl in *; try discriminate.
      * split; [now apply memb_false|]. right. split; [reflexivity|now apply memb_In].
      * split; [now apply memb_false|]. left. split; [reflexivity|now apply memb_In].
    + destruct (IH e q H) as [Hin Hl]. split; [now right|assumption].
  - destruct (IH e q H) as [Hin Hl]. split; [now right|assumption].
Qed.

Fixpoint trace_ok (ep : list ep_row) (pin : list nat) (l : list (nat * nat)) : Prop :=
  match l with
  | [] => True
  | x :: r => link_ok ep pin x /\ trace_ok ep (pin ++ [snd x]) r
  end.

Lemma tree_loop_trace_ok : forall order ep pes iters n pin bnd,
  trace_ok ep pin (somes (tree_loop order ep pes n iters pin bnd)).
Proof.
  intros order ep pes. induction iters as [|k IH]; intros n pin bnd; simpl; [exact I|].
  destruct (find_link ep pin (order n bnd)) as [[e q]|] eqn:E; simpl.
  - split; [apply (find_link_spec _ _ _ _ _ E)|apply IH].
  - apply IH.
Qed.

(* every link comes from the candidate list, i.e. (for an order oracle that only permutes)
   from boundary_edges *)
Lemma is_side_two_sided : forall ep e a b q,
  two_sided ep e = Some (a, b) -> (is_side ep e q = true <-> q = a \/ q = b).
Proof.
  intros ep e a b q H. unfold two_sided in H. unfold is_side.
  destruct (ep_at ep e) as [[x|] [y|]]; try discriminate. inversion H; subst.
  rewrite orb_true_iff, !Nat.eqb_eq. split; intros [?|?]; auto.
Qed.

Lemma trace_ok_app : forall ep l1 l2 pin,
  trace_ok ep pin (l1 ++ l2) -> trace_ok ep pin l1 /\ trace_ok ep (pin ++ map snd l1) l2.
Proof.
  intros ep. induction l1 as [|x l1 IH]; intros l2 pin H; simpl in *.
  - rewrite app_nil_r. auto.
  - destruct H as [Hl Hr]. destruct (IH l2 _ Hr) as [H1 H2].
    rewrite <- app_assoc in H2. simpl in H2. auto.
Qed.

Lemma sides_in : forall ep l pin e q x,
  trace_ok ep pin l -> In (e, q) l -> is_side ep e x = true -> In x (pin ++ map snd l).
Proof.
  intros ep. induction l as [|[e0 q0] r IH]; intros pin e q x Ht Hin Hs; [destruct Hin|].
  simpl in Ht. destruct Ht as [Hl Hr]. destruct Hin as [E|Hin].
  - inversion E; subst. destruct Hl as (a & b & H2 & Hnot & Hcase). simpl in *.
    apply (is_side_two_sided _ _ _ _ x H2) in Hs. apply in_or_app.
    destruct Hcase as [[-> Hb]|[-> Ha]]; destruct Hs as [->| ->]; auto; right; now left.
  - specialize (IH _ e q x Hr Hin Hs). rewrite <- app_assoc in IH. exact IH.
Qed.

(* the plaquette added by a link is a side of that link's edge, was not in before, and is not a
   side of any EARLIER tree edge: it is a leaf of the tree built so far *)
Lemma trace_leaf : forall ep pin l1 e q l2,
  trace_ok ep pin (l1 ++ (e, q) :: l2) ->
  is_side ep e q = true /\ ~ In q (pin ++ map snd l1)
  /\ (forall e' q', In (e', q') l1 -> is_side ep e' q = false).
Proof.
  intros ep pin l1 e q l2 H. destruct (trace_ok_app _ _ _ _ H) as [H1 H2].
  simpl in H2. destruct H2 as [(a & b & H2 & Hnot & Hcase) _]. simpl in *.
  split; [|split].
  - apply (is_side_two_sided _ _ _ _ q H2). destruct Hcase as [[-> _]|[-> _]]; auto.
  - exact Hnot.
  - intros e' q' Hin. destruct (is_side ep e' q) eqn:Hs; [|reflexivity].
    exfalso. apply Hnot. eapply sides_in; eauto.
Qed.

Lemma trace_edges_nodup : forall ep l pin, trace_ok ep pin l -> NoDup (map fst l).
Proof.
  intros ep. induction l as [|[e0 q0] r IH]; intros pin H; simpl; [constructor|].
  constructor.
  - intros Hin. apply in_map_iff in Hin. destruct Hin as [[e' q'] [E Hin]]. simpl in E. subst e'.
    destruct (in_split _ _ Hin) as (r1 & r2 & ->).
    destruct (trace_leaf ep pin ((e0, q0) :: r1) e0 q' r2 H) as (Hs & _ & Hearlier).
    rewrite (Hearlier e0 q0 (or_introl eq_refl)) in Hs. discriminate.
  - simpl in H. destruct H as [_ Hr]. eapply IH; eauto.
Qed.

Lemma trace_plaquettes_nodup : forall ep l pin,
  trace_ok ep pin l -> NoDup pin -> NoDup (pin ++ map snd l).
Proof.
  intros ep. induction l as [|[e0 q0] r IH]; intros pin H Hnd; simpl.
  - now rewrite app_nil_r.
  - simpl in H. destruct H as [(a & b & _ & Hnot & _) Hr]. simpl in Hnot.
    assert (Hnd' : NoDup (pin ++ [q0])).
    { apply Permutation_NoDup with (l := q0 :: pin); [|now constructor].
      apply Permutation_cons_append. }
    specialize (IH _ Hr Hnd'). rewrite <- app_assoc in IH. exact IH.
Qed.

Lemma trace_two_sided : forall ep l pin e q,
  trace_ok ep pin l -> In (e, q) l -> exists a b, two_sided ep e = Some (a, b) /\ (q = a \/ q = b).
Proof.
  intros ep. induction l as [|[e0 q0] r IH]; intros pin e q H Hin; [destruct Hin|].
  simpl in H. destruct H as [(a & b & H2 & _ & Hcase) Hr]. destruct Hin as [E|Hin].
  - inversion E; subst. exists a, b. simpl in *. split; [assumption|]. destruct Hcase as [[-> _]|[-> _]]; auto.
  - eapply IH; eauto.
Qed.

(* connectivity through tree edges *)
Inductive tconn (ep : list ep_row) (tree : list nat) : nat -> nat -> Prop :=
| tconn_refl : forall q, tconn ep tree q q
| tconn_step : forall q a b e, tconn ep tree q a -> In e tree ->
    (two_sided ep e = Some (a, b) \/ two_sided ep e = Some (b, a)) -> tconn ep tree q b.

Lemma trace_connected : forall ep T l pin,
  trace_ok ep pin l -> incl (map fst l) T ->
  (forall x, In x pin -> tconn ep T 0%nat x) ->
  forall x, In x (pin ++ map snd l) -> tconn ep T 0%nat x.
Proof.
  intros ep T. induction l as [|[e0 q0] r IH]; intros pin H Hincl Hpin x Hx; simpl in *.
  - rewrite app_nil_r in Hx. auto.
  - destruct H as [(a & b & H2 & Hnot & Hcase) Hr]. simpl in *.
    apply (IH (pin ++ [q0])); [assumption| | |now rewrite <- app_assoc].
    + intros y Hy. apply Hincl. now right.
    + intros y Hy. apply in_app_or in Hy. destruct Hy as [Hy|[<-|[]]]; [auto|].
      assert (He : In e0 T) by (apply Hincl; now left).
      destruct Hcase as [[-> Hb]|[-> Ha]].
      * eapply tconn_step; [apply (Hpin _ Hb)|exact He|now right].
      * eapply tconn_step; [apply (Hpin _ Ha)|exact He|now left].
Qed.

(* ------------------------------------------------------------------ all_some / somes *)
Lemma all_some_somes : forall (A : Type) (l : list (option A)) r,
  all_some l = Some r -> somes l = r /\ length r = length l.
Proof.
  induction l as [|[x|] l IH]; intros r H; simpl in *; try discriminate.
  - inversion H. auto.
  - destruct (all_some l) as [r'|]; [|discriminate]. inversion H; subst.
    destruct (IH r' eq_refl) as [-> Hl]. simpl. auto.
Qed.

Lemma all_some_map_fst : forall (tr : list (option (nat * nat))) tree,
  all_some (map (option_map fst) tr) = Some tree ->
  exists l, all_some tr = Some l /\ map fst l = tree.
Proof.
  induction tr as [|[[e q]|] tr IH]; intros tree H; simpl in *; try discriminate.
  - inversion H. exists []. auto.
  - destruct (all_some (map (option_map fst) tr)) as [t'|] eqn:E; [|discriminate].
    inversion H; subst. destruct (IH t' eq_refl) as [l [Hl Hm]].
    exists ((e, q) :: l). rewrite Hl. simpl. now rewrite Hm.
Qed.

(* ------------------------------------------------------------------ tree_spec *)
Definition ep_in_range (ep : list ep_row) (F : nat) : Prop :=
  forall e a b, two_sided ep e = Some (a, b) -> (a < F)%nat /\ (b < F)%nat.

(* what "plaquette spanning tree" means: F-1 distinct two-sided edges that connect every
   plaquette to plaquette 0 *)
Definition spanning (ep : list ep_row) (F : nat) (tree : list nat) : Prop :=
  S (length tree) = F /\ NoDup tree
  /\ (forall e, In e tree -> exists a b, two_sided ep e = Some (a, b) /\ (a < F)%nat /\ (b < F)%nat)
  /\ (forall q, (q < F)%nat -> tconn ep tree 0%nat q).

Lemma pigeonhole : forall (P : list nat) F,
  NoDup P -> length P = F -> (forall x, In x P -> (x < F)%nat) -> forall q, (q < F)%nat -> In q P.
Proof.
  intros P F Hnd Hlen Hlt q Hq.
  apply (NoDup_length_incl Hnd (l' := seq 0 F)).
  - rewrite seq_length. lia.
  - intros x Hx. apply in_seq. specialize (Hlt x Hx). lia.
  - apply in_seq. lia.
Qed.

(* the links of a trace as a structured statement *)
Lemma spanning_trace_links : forall order ep pes tr,
  spanning_trace order ep pes = Some tr ->
  length tr = (length pes - 1)%nat /\ trace_ok ep [0%nat] (somes tr).
Proof.
  intros order ep pes tr H. unfold spanning_trace in H. destruct pes as [|p0 pes']; [discriminate|].
  inversion H; subst. split; [apply tree_loop_length|apply tree_loop_trace_ok].
Qed.

Lemma tree_spec : forall order ep pes t tree,
  ep_in_range ep (length pes) ->
  plaquette_spanning_tree order ep pes = Some t -> all_some t = Some tree ->
  spanning ep (length pes) tree.
Proof.
  intros order ep pes t tree Hrange Ht Hall. unfold plaquette_spanning_tree in Ht.
  destruct (spanning_trace order ep pes) as [tr|] eqn:E; [|discriminate]. simpl in Ht. inversion Ht; subst t.
  destruct (all_some_map_fst tr tree Hall) as [l [Hl Hm]].
  destruct (all_some_somes _ tr l Hl) as [Hs Hlen].
  destruct (spanning_trace_links _ _ _ _ E) as [Hlt Hok]. rewrite Hs in Hok.
  assert (HF : (1 <= length pes)%nat).
  { unfold spanning_trace in E. destruct pes; [discriminate|simpl; lia]. }
  assert (Hlen' : length tree = (length pes - 1)%nat) by (rewrite <- Hm, map_length; lia).
  unfold spanning. split; [lia|]. split; [rewrite <- Hm; eapply trace_edges_nodup; eauto|]. split.
  - intros e He. rewrite <- Hm in He. apply in_map_iff in He. destruct He as [[e' q] [<- Hin]].
    destruct (trace_two_sided _ _ _ _ _ Hok Hin) as (a & b & H2 & _). exists a, b. simpl.
    split; [assumption|apply (Hrange _ _ _ H2)].
  - assert (Hconn : forall x, In x ([0%nat] ++ map snd l) -> tconn ep tree 0%nat x).
    { apply (trace_connected ep tree l [0%nat] Hok).
      - rewrite Hm. apply incl_refl.
      - intros x [<-|[]]. constructor. }
    intros q Hq. apply Hconn.
    apply (pigeonhole ([0%nat] ++ map snd l) (length pes)); [| | |exact Hq].
    + apply (trace_plaquettes_nodup _ _ _ Hok). constructor; [intros []|constructor].
    + simpl. rewrite map_length. lia.
    + intros x [<-|Hx]; [lia|]. apply in_map_iff in Hx. destruct Hx as [[e q'] [<- Hin]].
      destruct (trace_two_sided _ _ _ _ _ Hok Hin) as (a & b & H2 & Hc). simpl.
      destruct (Hrange _ _ _ H2). destruct Hc as [-> | ->]; assumption.
Qed.

(* ------------------------------------------------------------------ the boolean checker is sound *)
Lemma grow_once_conn : forall ep T tree reach,
  incl tree T -> (forall x, In x reach -> tconn ep T 0%nat x) ->
  forall x, In x (grow_once ep tree reach) -> tconn ep T 0%nat x.
Proof.
  intros ep T. unfold grow_once. induction tree as [|e tree IH]; intros reach Hincl Hr x Hx; simpl in Hx.
  - auto.
  - apply (IH _ (fun y Hy => Hincl y (or_intror Hy))) in Hx; [assumption|].
    intros y Hy. assert (He : In e T) by (apply Hincl; now left).
    destruct (two_sided ep e) as [[a b]|] eqn:E2; [|auto].
    destruct (memb a reach && negb (memb b reach)) eqn:C1.
    + destruct Hy as [<-|Hy]; [|auto].
      apply andb_true_iff in C1. destruct C1 as [Ma _]. apply memb_In in Ma.
      eapply tconn_step; [apply (Hr _ Ma)|exact He|now left].
    + destruct (memb b reach && negb (memb a reach)) eqn:C2; [|auto].
      destruct Hy as [<-|Hy]; [|auto].
      apply andb_true_iff in C2. destruct C2 as [Mb _]. apply memb_In in Mb.
      eapply tconn_step; [apply (Hr _ Mb)|exact He|now right].
Qed.

Lemma grow_conn : forall ep tree rounds reach,
  (forall x, In x reach -> tconn ep tree 0%nat x) ->
  forall x, In x (grow ep tree rounds reach) -> tconn ep tree 0%nat x.
Proof.
  intros ep tree. induction rounds as [|k IH]; intros reach Hr x Hx; simpl in Hx; [auto|].
  apply (IH _ (grow_once_conn ep tree tree reach (incl_refl _) Hr) x Hx).
Qed.

Lemma is_spanning_tree_sound : forall ep F tree,
  is_spanning_tree ep F tree = true -> spanning ep F tree.
Proof.
  intros ep F tree H. unfold is_spanning_tree in H.
  apply andb_true_iff in H. destruct H as [H H4].
  apply andb_true_iff in H. destruct H as [H H3].
  apply andb_true_iff in H. destruct H as [H1 H2].
  apply Nat.eqb_eq in H1. rewrite forallb_forall in H3. rewrite forallb_forall in H4.
  unfold spanning. split; [exact H1|]. split; [now apply nodupb_sound|]. split.
  - intros e He. specialize (H3 e He). unfold sides_ok in H3.
    destruct (two_sided ep e) as [[a b]|]; [|discriminate]. exists a, b.
    apply andb_true_iff in H3. destruct H3 as [Ha Hb].
    apply Nat.ltb_lt in Ha. apply Nat.ltb_lt in Hb. auto.
  - intros q Hq. assert (Hin : In q (seq 0 F)) by (apply in_seq; lia).
    specialize (H4 q Hin). apply memb_In in H4.
    apply (grow_conn ep tree F [0%nat]); [|exact H4].
    intros x [<-|[]]. constructor.
Qed.

(* ------------------------------------------------------------------ sectors are pairwise different *)
Lemma flux_darts_ext : forall u1 u2 ds,
  (forall d, In d ds -> bond u1 (fst d) = bond u2 (fst d)) -> flux_darts u1 ds = flux_darts u2 ds.
Proof.
  intros u1 u2 ds H. unfold flux_darts. f_equal. apply map_ext_in. intros d Hd.
  unfold dart_factor. now rewrite (H d Hd).
Qed.

Lemma flux_real_ext : forall u1 u2 p,
  (forall f, In f (p_edges p) -> bond u1 f = bond u2 f) -> flux_real u1 p = flux_real u2 p.
Proof.
  intros u1 u2 p H. apply flux_darts_ext. intros [e d] Hd. simpl. apply H.
  unfold plaq_darts in Hd. eapply in_combine_l; eauto.
Qed.

Lemma ep_at_overflow : forall ep e, (length ep <= e)%nat -> ep_at ep e = (None, None).
Proof. intros. unfold ep_at. now apply nth_overflow. Qed.

(* the incidence tables agree: every table entry is a plaquette index, and plaquette q is a side
   of edge e exactly when e is in q's edge list *)
Definition tables_agree (ep : list ep_row) (pes : list (list nat)) : Prop :=
  ep_in_range ep (length pes)
  /\ (forall q e, (q < length pes)%nat -> (In e (nth q pes []) <-> is_side ep e q = true)).

Lemma ep_agrees_sound : forall ep pes, ep_agrees ep pes = true -> tables_agree ep pes.
Proof.
  intros ep pes H. unfold tables_agree, ep_agrees in H |- *. apply andb_true_iff in H. destruct H as [H1 H2].
  rewrite forallb_forall in H1. rewrite forallb_forall in H2. split.
  - intros e a b E. unfold two_sided in E.
    destruct (Nat.lt_ge_cases e (length ep)) as [Hlt|Hge].
    + assert (Hin : In (ep_at ep e) ep) by (unfold ep_at; now apply nth_In).
      specialize (H1 _ Hin). destruct (ep_at ep e) as [[x|] [y|]]; try discriminate.
      inversion E; subst. simpl in H1. apply andb_true_iff in H1. destruct H1 as [Ha Hb].
      apply Nat.ltb_lt in Ha. apply Nat.ltb_lt in Hb. auto.
    + rewrite ep_at_overflow in E by assumption. discriminate.
  - intros q e Hq. assert (Hin : In q (seq 0 (length pes))) by (apply in_seq; lia).
    specialize (H2 q Hin). apply andb_true_iff in H2. destruct H2 as [Ha Hb].
    rewrite forallb_forall in Ha. rewrite forallb_forall in Hb. split.
    + apply Ha.
    + intros Hs. destruct (Nat.lt_ge_cases e (length ep)) as [Hlt|Hge].
      * assert (He : In e (seq 0 (length ep))) by (apply in_seq; lia).
        specialize (Hb e He). rewrite Hs in Hb. simpl in Hb. now apply memb_In.
      * unfold is_side in Hs. rewrite ep_at_overflow in Hs by assumption. discriminate.
Qed.

(* two different numbers below 2^k differ in a lowest binary digit *)
Lemma lowest_differing_bit : forall k n m,
  0 <= n < 2 ^ Z.of_nat k -> 0 <= m < 2 ^ Z.of_nat k -> n <> m ->
  exists p, (p < k)%nat /\ Z.testbit n (Z.of_nat p) <> Z.testbit m (Z.of_nat p)
    /\ (forall p', (p' < p)%nat -> Z.testbit n (Z.of_nat p') = Z.testbit m (Z.of_nat p')).
Proof.
  induction k as [|k IH]; intros n m Hn Hm Hne.
  - simpl in *. lia.
  - destruct (Bool.bool_dec (Z.testbit n 0) (Z.testbit m 0)) as [E0|N0].
    + rewrite Nat2Z.inj_succ, Z.pow_succ_r in Hn, Hm by lia.
      pose proof (Z.div2_odd n) as Dn. pose proof (Z.div2_odd m) as Dm.
      rewrite <- Z.bit0_odd in Dn, Dm.
      assert (Hn2 : 0 <= Z.div2 n < 2 ^ Z.of_nat k) by (destruct (Z.testbit n 0); cbn [Z.b2z] in Dn; lia).
      assert (Hm2 : 0 <= Z.div2 m < 2 ^ Z.of_nat k) by (destruct (Z.testbit m 0); cbn [Z.b2z] in Dm; lia).
      assert (Hne2 : Z.div2 n <> Z.div2 m) by (intros E; rewrite E0, E in Dn; lia).
      destruct (IH _ _ Hn2 Hm2 Hne2) as (p & Hp & Hd & Hl).
      exists (S p). split; [lia|]. split.
      * rewrite Nat2Z.inj_succ, <- !Z.div2_bits, <- !Z.div2_div by lia. exact Hd.
      * intros [|p'] Hp'; [exact E0|].
        rewrite Nat2Z.inj_succ, <- !Z.div2_bits, <- !Z.div2_div by lia. apply Hl. lia.
    + exists 0%nat. split; [lia|]. split; [exact N0|]. intros p' Hp'. lia.
Qed.

Definition empty_plaq : plaquette := plaq_of_arrays [] [] [].

Lemma nth_pes : forall ps q, nth q (map p_edges ps) [] = p_edges (nth q ps empty_plaq).
Proof. intros. apply (map_nth p_edges ps empty_plaq q). Qed.

Definition plaqs_ok (ps : list plaquette) : Prop :=
  forall p, In p ps -> length (p_dirs p) = length (p_edges p) /\ NoDup (p_edges p).

Lemma b2z_flip : forall a b : bool, a <> b -> 1 - 2 * b2z b = - (1 - 2 * b2z a).
Proof. intros [] [] H; simpl; try reflexivity; congruence. Qed.

(* sectors_distinct *)
Lemma sectors_distinct : forall order ep ps t tree u n m rn rm,
  plaqs_ok ps ->
  tables_agree ep (map p_edges ps) ->
  plaquette_spanning_tree order ep (map p_edges ps) = Some t -> all_some t = Some tree ->
  (forall p f, In p ps -> In f (p_edges p) -> is_pm1 (bond u f)) ->
  in_range n (length tree) -> in_range m (length tree) -> n <> m ->
  n_to_ujk_flipped n u tree = Some rn -> n_to_ujk_flipped m u tree = Some rm ->
  fluxes_real rn ps <> fluxes_real rm ps.
Proof.
  intros order ep ps t tree u n m rn rm Hshape Hag Ht Hall Hu Hn Hm Hne Hrn Hrm.
  set (pes := map p_edges ps) in *.
  destruct Hag as [Hrange Hside].
  assert (HF : length pes = length ps) by (unfold pes; apply map_length).
  (* the trace *)
  unfold plaquette_spanning_tree in Ht.
  destruct (spanning_trace order ep pes) as [tr|] eqn:E; [|discriminate]. simpl in Ht. inversion Ht; subst t.
  destruct (all_some_map_fst tr tree Hall) as [l [Hl Hm']].
  destruct (all_some_somes _ tr l Hl) as [Hs _].
  destruct (spanning_trace_links _ _ _ _ E) as [_ Hok]. rewrite Hs in Hok.
  assert (Hnd : NoDup tree) by (rewrite <- Hm'; eapply trace_edges_nodup; eauto).
  assert (Hklen : length l = length tree) by (rewrite <- Hm'; now rewrite map_length).
  (* a link's new plaquette contains the link's edge *)
  assert (Hlink : forall e q, In (e, q) l -> (q < length ps)%nat /\ In e (p_edges (nth q ps empty_plaq))).
  { intros e q Hin. destruct (trace_two_sided _ _ _ _ _ Hok Hin) as (a & b & H2 & Hc).
    assert (Hq : (q < length pes)%nat) by (destruct (Hrange _ _ _ H2); destruct Hc as [-> | ->]; assumption).
    split; [lia|]. rewrite <- nth_pes. apply (Hside q e Hq).
    apply (is_side_two_sided _ _ _ _ q H2). exact Hc. }
  (* tree edges carry +-1 in u, hence are indices into u *)
  assert (Htree_u : forall e, In e tree -> (e < length u)%nat).
  { intros e He. rewrite <- Hm' in He. apply in_map_iff in He. destruct He as [[e' q] [<- Hin]]. simpl.
    destruct (Hlink _ _ Hin) as [Hq Hine].
    assert (Hp : is_pm1 (bond u e')) by (apply (Hu (nth q ps empty_plaq)); [now apply nth_In|assumption]).
    destruct (Nat.lt_ge_cases e' (length u)) as [Hlt|Hge]; [assumption|].
    unfold bond in Hp. rewrite nth_overflow in Hp by assumption. destruct Hp; discriminate. }
  destruct (flipped_spec n u tree Hnd Htree_u Hn) as (rn' & Ern & _ & Hoff_n & Hon_n & Hpm_n).
  destruct (flipped_spec m u tree Hnd Htree_u Hm) as (rm' & Erm & _ & Hoff_m & Hon_m & _).
  rewrite Hrn in Ern. inversion Ern; subst rn'. rewrite Hrm in Erm. inversion Erm; subst rm'.
  set (k := length tree) in *.
  destruct (lowest_differing_bit k n m Hn Hm Hne) as (p & Hp & Hdiff & Hlow).
  set (j := (k - 1 - p)%nat).
  assert (Hj : (j < length l)%nat) by (unfold j; lia).
  destruct (nth_split l (0%nat, 0%nat) Hj) as (l1 & l2 & Hsplit & Hl1).
  destruct (nth j l (0%nat, 0%nat)) as [ej qj] eqn:Enth.
  assert (Hej : nth j tree 0%nat = ej).
  { rewrite <- Hm'. change 0%nat with (fst (0%nat, 0%nat)) at 1. rewrite map_nth, Enth. reflexivity. }
  rewrite Hsplit in Hok.
  destruct (trace_leaf ep [0%nat] l1 ej qj l2 Hok) as (Hside_j & _ & Hearlier).
  assert (Hinl : In (ej, qj) l) by (rewrite Hsplit; apply in_or_app; right; now left).
  destruct (Hlink _ _ Hinl) as [Hq Hin_ej].
  set (P := nth qj ps empty_plaq) in *.
  assert (HP : In P ps) by (apply nth_In; exact Hq).
  destruct (Hshape P HP) as [Hlen_P Hnd_P].
  (* bonds of rn and rm on the edges of P *)
  assert (Hkp : (k - 1 - j = p)%nat) by (unfold j; lia).
  assert (Hflip_j : bond rm ej = - bond rn ej).
  { rewrite <- Hej. rewrite (Hon_n j), (Hon_m j) by lia. rewrite Hkp. now apply b2z_flip. }
  assert (Hsame : forall f, In f (p_edges P) -> f <> ej -> bond rm f = bond rn f).
  { intros f Hf Hfe. destruct (in_dec Nat.eq_dec f tree) as [Hin|Hnot].
    - destruct (In_nth tree f 0%nat Hin) as [i [Hi Hfi]]. fold k in Hi.
      destruct (Nat.lt_trichotomy i j) as [Hlt|[Heq|Hgt]].
      + (* an earlier tree edge cannot be an edge of P *)
        exfalso.
        assert (Hi1 : (i < length l1)%nat) by lia.
        assert (Hin1 : In (nth i l (0%nat, 0%nat)) l1).
        { rewrite Hsplit, app_nth1 by exact Hi1. now apply nth_In. }
        destruct (nth i l (0%nat, 0%nat)) as [ei qi] eqn:Ei.
        assert (Hei : ei = f).
        { rewrite <- Hfi, <- Hm'. change 0%nat with (fst (0%nat, 0%nat)) at 1. rewrite map_nth, Ei. reflexivity. }
        subst ei. pose proof (Hearlier _ _ Hin1) as Hno.
        assert (Hyes : is_side ep f qj = true).
        { apply (Hside qj f); [lia|]. unfold pes. rewrite nth_pes. exact Hf. }
        congruence.
      + subst i. congruence.
      + rewrite <- Hfi. rewrite (Hon_n i), (Hon_m i) by lia. f_equal. f_equal. f_equal.
        symmetry. apply Hlow. lia.
    - now rewrite Hoff_n, Hoff_m by assumption. }
  assert (Hext : forall f, In f (p_edges P) -> bond rm f = bond (flip_at ej rn) f).
  { intros f Hf. rewrite bond_flip. destruct (Nat.eqb_spec f ej) as [->|Hfe]; [exact Hflip_j|now apply Hsame]. }
  assert (Hpm_P : forall f, In f (p_edges P) -> is_pm1 (bond rn f)).
  { intros f Hf. destruct (in_dec Nat.eq_dec f tree) as [Hin|Hnot].
    - apply Hpm_n, Hin.
    - rewrite Hoff_n by assumption. apply (Hu P f HP Hf). }
  destruct (flux_real_flip rn ej P Hlen_P Hnd_P Hpm_P) as [Hiff _].
  assert (Hneg : flux_real rm P = - flux_real rn P).
  { rewrite (flux_real_ext rm (flip_at ej rn) P Hext). apply Hiff. exact Hin_ej. }
  assert (Hval : is_pm1 (flux_real rn P)) by (apply flux_real_pm1; exact Hpm_P).
  intros Heq.
  assert (Hq_eq : nth qj (fluxes_real rn ps) 0 = nth qj (fluxes_real rm ps) 0) by (now rewrite Heq).
  unfold fluxes_real in Hq_eq.
  rewrite (nth_indep _ 0 (flux_real rn empty_plaq)) in Hq_eq by (rewrite map_length; exact Hq).
  rewrite (nth_indep (map (flux_real rm) ps) 0 (flux_real rm empty_plaq)) in Hq_eq by (rewrite map_length; exact Hq).
  rewrite !map_nth in Hq_eq. fold P in Hq_eq.
  destruct Hval as [Hv|Hv]; rewrite Hneg, Hv in Hq_eq; discriminate.
Qed.

(* ------------------------------------------------------------------ statements in the form used by Props/C14.v *)
Lemma tree_spec_lemma : forall order ep pes t,
  tables_agree ep pes ->
  plaquette_spanning_tree order ep pes = Some t ->
  length t = (length pes - 1)%nat
  /\ (forall tree, all_some t = Some tree -> spanning ep (length pes) tree).
Proof.
  intros order ep pes t [Hr _] Ht. split; [eapply spanning_tree_length; eauto|].
  intros tree Hall. eapply tree_spec; eauto.
Qed.

(* the links found, whether or not every iteration found one *)
Lemma tree_links_lemma : forall order ep pes tr,
  spanning_trace order ep pes = Some tr ->
  length tr = (length pes - 1)%nat
  /\ trace_ok ep [0%nat] (somes tr)
  /\ NoDup (map fst (somes tr))
  /\ NoDup (0%nat :: map snd (somes tr))
  /\ (forall x, In x (0%nat :: map snd (somes tr)) -> tconn ep (map fst (somes tr)) 0%nat x).
Proof.
  intros order ep pes tr H. destruct (spanning_trace_links _ _ _ _ H) as [Hl Hok].
  split; [exact Hl|]. split; [exact Hok|]. split; [eapply trace_edges_nodup; eauto|]. split.
  - apply (trace_plaquettes_nodup ep (somes tr) [0%nat] Hok). constructor; [intros []|constructor].
  - apply (trace_connected ep _ (somes tr) [0%nat] Hok (incl_refl _)).
    intros x [<-|[]]. constructor.
Qed.

Lemma sectors_distinct_checked : forall order ep ps t tree u n m rn rm,
  plaqs_ok ps ->
  ep_agrees ep (map p_edges ps) = true ->
  plaquette_spanning_tree order ep (map p_edges ps) = Some t -> all_some t = Some tree ->
  (forall p f, In p ps -> In f (p_edges p) -> is_pm1 (bond u f)) ->
  in_range n (length tree) -> in_range m (length tree) -> n <> m ->
  n_to_ujk_flipped n u tree = Some rn -> n_to_ujk_flipped m u tree = Some rm ->
  fluxes_real rn ps <> fluxes_real rm ps.
Proof.
  intros order ep ps t tree u n m rn rm Hs Hag. apply sectors_distinct; [exact Hs|].
  now apply ep_agrees_sound.
Qed.
