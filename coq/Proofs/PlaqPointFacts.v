(* Proofs/PlaqPointFacts.v — the plaquette clause of C16 pointwise, for strictly convex plaquettes
   in general position: every point of the plaquette that shows up in the open unit cell (under
   any integer offset) lies in the clipped piece of a polygon that plot_plaquettes draws. *)
From Coq Require Import List ZArith QArith Bool Qminmax Lqa Lia.
From Koala Require Import Model.Clip Model.Plot Proofs.ClipFacts Proofs.PlaqFacts Proofs.PolyAreaFacts Proofs.PolyCellFacts
  Proofs.PolyRegionFacts Proofs.PlaqCoverFacts.
Import ListNotations.
Open Scope Q_scope.

Definition etr (d : point) (e : point * point) : point * point := (padd (fst e) d, padd (snd e) d).

Lemma edges_from_translate (d : point) (l : list point) (prev : point) :
  edges_from (tr d prev) (map (tr d) l) = map (etr d) (edges_from prev l).
Proof. revert prev. induction l as [|c r IH]; intro prev; [reflexivity|]. cbn [map edges_from]. rewrite IH. reflexivity. Qed.

Lemma edges_translate (P : polygon) (d : point) : edges (ptranslate P d) = map (etr d) (edges P).
Proof.
  destruct P as [|p0 r]; [reflexivity|]. unfold edges, ptranslate. change (fun p : point => padd p d) with (tr d).
  rewrite (last_map_ne (tr d) (p0 :: r) (0, 0) (0, 0)) by discriminate. apply edges_from_translate.
Qed.

Lemma side_translate (a b p d : point) : side (padd a d) (padd b d) (padd p d) == side a b p.
Proof. unfold side, padd, px, py. cbn [fst snd]. ring. Qed.

Lemma in_poly_translate (P : polygon) (r d : point) : in_poly P r -> in_poly (ptranslate P d) (padd r d).
Proof.
  intros H e He. rewrite edges_translate in He. apply in_map_iff in He. destruct He as ([a b] & <- & Hab).
  unfold left_of, etr. cbn [fst snd]. rewrite side_translate. exact (H (a, b) Hab).
Qed.

Lemma convex_ccw_translate (P : polygon) (d : point) : convex_ccw P -> convex_ccw (ptranslate P d).
Proof.
  intros H w Hw. unfold ptranslate in Hw. apply in_map_iff in Hw. destruct Hw as (w0 & <- & Hw0).
  apply in_poly_translate. exact (H w0 Hw0).
Qed.

(* EVERY POINT OF THE UNIT CELL INSIDE THE PLAQUETTE IS COVERED: r a point of the (unwrapped)
   plaquette, (dx,dy) any integer offset that brings it into the open cell; then the translate by
   (dx,dy) is among the drawn polygons and the point lies in the region of its clipped piece *)
Theorem plaquette_point_covered (pts : polygon) (r : point) (dx dy : Z) :
  convex_ccw pts -> strictly_convex pts ->
  off_line pts true 0 -> off_line pts true 1 -> off_line pts false 0 -> off_line pts false 1 ->
  has_cell_vertex pts -> in_block pts ->
  in_poly pts r -> in_open_cell (padd r (zpoint (dx, dy))) ->
  exists Q0, In Q0 (replicate_polygon pts (pads (poly_lines pts) true) (pads (poly_lines pts) false)) /\
             Q0 = ptranslate pts (zpoint (dx, dy)) /\
             in_poly Q0 (padd r (zpoint (dx, dy))) /\
             in_poly (clip_polygon Q0) (padd r (zpoint (dx, dy))).
Proof.
  intros HC HS Hx0 Hx1 Hy0 Hy1 Hv HB Hr Hcell.
  exists (ptranslate pts (zpoint (dx, dy))). split; [apply (plaquette_cover_pointwise pts r dx dy); assumption|].
  split; [reflexivity|]. pose proof (in_poly_translate pts r (zpoint (dx, dy)) Hr) as Hin. split; [exact Hin|].
  apply cell_complete; [apply convex_ccw_translate; exact HC|exact Hin|].
  destruct Hcell as (C1 & C2 & C3 & C4). unfold in_unit_square. repeat split; lra.
Qed.
