(* Proofs/SamplingCount.v — the sampling points of Model/Sampling.v as an integer index set: closed-form point
   COUNTS for both schemes, ORDER (strictly increasing in (Jy, Jx)) and DISTINCTNESS, for every samples >= 2. *)
From Coq Require Import List ZArith QArith Bool Arith Lia Lqa Sorted.
From Koala Require Import Model.Sampling Proofs.SamplingFacts.
Import ListNotations.
Open Scope Q_scope.

(* ------------------------------------------------------------------ the grid as an index set *)
Definition gden (s : nat) : positive := Pos.of_nat (2 * (s - 1)).
Definition qpt (s : nat) (ij : nat * nat) : Q * Q := (Z.of_nat (fst ij) # gden s, Z.of_nat (snd ij) # gden s).
Definition igrid (s : nat) : list (nat * nat) := flat_map (fun j => map (fun i => (i, j)) (seq 0 s)) (seq 0 s).
(* the filter of the symmetric scheme in integers: Jx <= Jy and Jy <= Jz *)
Definition ikeep (s : nat) (ij : nat * nat) : bool :=
  (fst ij <=? snd ij)%nat && (fst ij + 2 * snd ij <=? 2 * (s - 1))%nat.

Lemma grid_product : forall {X Y : Type} (g : X -> Y) (l1 l2 : list X),
  flat_map (fun y => map (fun x => (x, y)) (map g l2)) (map g l1) =
  map (fun ij => (g (fst ij), g (snd ij))) (flat_map (fun j => map (fun i => (i, j)) l2) l1).
Proof.
  intros X Y g l1 l2. induction l1 as [|a l1 IH]; simpl; [reflexivity|].
  rewrite map_app, IH. f_equal. rewrite !map_map. reflexivity.
Qed.

Lemma grid_igrid : forall s, grid s = map (qpt s) (igrid s).
Proof.
  intros s. unfold grid, linspace_half, igrid.
  rewrite (grid_product (fun i => Z.of_nat i # Pos.of_nat (2 * (s - 1)))). reflexivity.
Qed.

Lemma in_igrid : forall s i j, In (i, j) (igrid s) <-> (i < s /\ j < s)%nat.
Proof.
  intros s i j. unfold igrid. rewrite in_flat_map. split.
  - intros (j' & Hj & H). apply in_map_iff in H. destruct H as (i' & E & Hi). inversion E; subst.
    apply in_seq in Hj. apply in_seq in Hi. lia.
  - intros [Hi Hj]. exists j. split; [apply in_seq; lia|]. apply in_map_iff. exists i. split; [reflexivity|apply in_seq; lia].
Qed.

Lemma filter_map_comm : forall {X Y : Type} (g : X -> Y) (p : Y -> bool) (l : list X),
  filter p (map g l) = map g (filter (fun x => p (g x)) l).
Proof.
  intros X Y g p l. induction l as [|a l IH]; simpl; [reflexivity|].
  destruct (p (g a)); simpl; now rewrite IH.
Qed.

(* ------------------------------------------------------------------ the symmetric filter in integers *)
Lemma gden_Z : forall s, (2 <= s)%nat -> Zpos (gden s) = (2 * (Z.of_nat s - 1))%Z.
Proof. intros s Hs. unfold gden. rewrite Zpos_of_nat by lia. lia. Qed.

Lemma frac_sub : forall (a b : Z) (p : positive), (a # p) - (b # p) == (a - b) # p.
Proof. intros. unfold Qeq, Qminus, Qplus, Qopp. simpl. rewrite Pos2Z.inj_mul. ring. Qed.

Lemma one_sub : forall (a : Z) (p : positive), 1 - (a # p) == (Zpos p - a) # p.
Proof. intros. unfold Qeq, Qminus, Qplus, Qopp. cbn [Qnum Qden]. rewrite ?Pos2Z.inj_mul. ring. Qed.

Lemma half_spacing : forall s, - grid_spacing s / 2 == (-1) # (Pos.of_nat s * 2).
Proof. intros. unfold grid_spacing, Qeq, Qdiv, Qmult, Qinv, Qopp. simpl. reflexivity. Qed.

Lemma Qle_bool_frac : forall (a b : Z) (p q : positive),
  Qle_bool (a # p) (b # q) = (a * Zpos q <=? b * Zpos p)%Z.
Proof. reflexivity. Qed.

(* -1/(2s) <= t / (2(s-1))  iff  0 <= t, for an integer t *)
Lemma threshold_integer : forall (t s : Z), (2 <= s)%Z ->
  ((-1 * (2 * (s - 1)) <=? t * (s * 2)) = (0 <=? t))%Z.
Proof.
  intros t s Hs. apply Bool.eq_iff_eq_true. rewrite !Z.leb_le. split; intros H; nia.
Qed.

Lemma sym_keep_ikeep : forall s i j, (2 <= s)%nat -> (i < s)%nat -> (j < s)%nat ->
  sym_keep s (qpt s (i, j)) = ikeep s (i, j).
Proof.
  intros s i j Hs Hi Hj. unfold sym_keep, qpt, ikeep. cbn [fst snd].
  set (d := gden s). set (x := Z.of_nat i # d). set (y := Z.of_nat j # d).
  assert (E1 : 1 - x - y - y == (Zpos d - Z.of_nat i - Z.of_nat j - Z.of_nat j) # d).
  { unfold x, y. rewrite one_sub, !frac_sub. reflexivity. }
  assert (E2 : y - x == (Z.of_nat j - Z.of_nat i) # d) by (unfold x, y; apply frac_sub).
  rewrite E1, E2, half_spacing, !Qle_bool_frac.
  unfold d. rewrite gden_Z by exact Hs. rewrite Pos2Z.inj_mul, Zpos_of_nat by lia.
  rewrite !threshold_integer by lia.
  apply Bool.eq_iff_eq_true. rewrite !andb_true_iff, !Z.leb_le, !Nat.leb_le. lia.
Qed.

Lemma sym_filter_igrid : forall s, (2 <= s)%nat ->
  filter (sym_keep s) (grid s) = map (qpt s) (filter (ikeep s) (igrid s)).
Proof.
  intros s Hs. rewrite grid_igrid, filter_map_comm. f_equal.
  apply filter_ext_in. intros [i j] H. apply in_igrid in H. now apply sym_keep_ikeep.
Qed.

(* ------------------------------------------------------------------ counting *)
Close Scope Q_scope.
Open Scope nat_scope.

Lemma filter_flat_map_length : forall {X Y : Type} (p : Y -> bool) (f : X -> list Y) (l : list X),
  length (filter p (flat_map f l)) = list_sum (map (fun a => length (filter p (f a))) l).
Proof.
  intros X Y p f l. induction l as [|a l IH]; simpl; [reflexivity|].
  rewrite filter_app, app_length, IH. reflexivity.
Qed.

Lemma count_le_seq : forall b n, length (filter (fun i => i <=? b) (seq 0 n)) = Nat.min (b + 1) n.
Proof.
  intros b n. induction n as [|n IH]; [simpl; lia|].
  rewrite seq_S, filter_app, app_length, IH. simpl.
  destruct (n <=? b) eqn:E; [apply Nat.leb_le in E|apply Nat.leb_gt in E]; simpl; lia.
Qed.

(* number of kept points in row j (Jy = j / (2(s-1))) *)
Lemma row_count : forall s j, 2 <= s -> j < s ->
  length (filter (ikeep s) (map (fun i => (i, j)) (seq 0 s))) = Nat.min j (2 * (s - 1) - 2 * j) + 1.
Proof.
  intros s j Hs Hj. rewrite filter_map_comm, map_length.
  rewrite (filter_ext_in _ (fun i => i <=? Nat.min j (2 * (s - 1) - 2 * j))).
  - rewrite count_le_seq. lia.
  - intros i Hi. unfold ikeep. cbn [fst snd]. apply Bool.eq_iff_eq_true.
    rewrite andb_true_iff, !Nat.leb_le. lia.
Qed.

Lemma sum_lin : forall n, 2 * list_sum (map (fun j => j + 1) (seq 0 n)) = n * (n + 1).
Proof.
  induction n as [|n IH]; [reflexivity|].
  rewrite seq_S, map_app, list_sum_app. simpl list_sum. simpl map. simpl list_sum. lia.
Qed.

Lemma sum_odd_desc : forall n a, list_sum (map (fun j => 2 * (a + n) - 2 * j - 1) (seq a n)) = n * n.
Proof.
  induction n as [|n IH]; intros a; [reflexivity|].
  simpl seq. simpl map. simpl list_sum.
  rewrite (map_ext_in _ (fun j => 2 * (S a + n) - 2 * j - 1)) by (intros; lia).
  rewrite IH. lia.
Qed.

(* the closed form: sum over the rows j = 0 .. m of min(j, 2m - 2j) + 1, with m = s - 1 *)
Lemma rows_sum : forall m,
  list_sum (map (fun j => Nat.min j (2 * m - 2 * j) + 1) (seq 0 (m + 1))) = ((m + 1) * (m + 1) + (m + 1) + 1) / 3.
Proof.
  intros m. set (k := 2 * m / 3).
  assert (Hk : 3 * k <= 2 * m < 3 * k + 3).
  { unfold k. pose proof (Nat.div_mod (2 * m) 3). pose proof (Nat.mod_upper_bound (2 * m) 3). lia. }
  assert (Hkm : k <= m) by lia.
  replace (m + 1) with ((k + 1) + (m - k)) at 1 by lia.
  rewrite seq_app, map_app, list_sum_app. simpl (0 + (k + 1)).
  rewrite (map_ext_in _ (fun j => j + 1) (seq 0 (k + 1))) by (intros j Hj; apply in_seq in Hj; lia).
  rewrite (map_ext_in _ (fun j => 2 * ((k + 1) + (m - k)) - 2 * j - 1) (seq (k + 1) (m - k)))
    by (intros j Hj; apply in_seq in Hj; lia).
  rewrite sum_odd_desc.
  pose proof (sum_lin (k + 1)) as H1.
  set (S1 := list_sum (map (fun j => j + 1) (seq 0 (k + 1)))) in *.
  assert (Hcases : (2 * m = 3 * k \/ 2 * m = 3 * k + 1 \/ 2 * m = 3 * k + 2)) by lia.
  destruct Hcases as [E|[E|E]].
  - apply Nat.div_unique with (r := 0); nia.
  - apply Nat.div_unique with (r := 1); nia.
  - apply Nat.div_unique with (r := 1); nia.
Qed.

Lemma sym_grid_count : forall s, 2 <= s ->
  length (filter (ikeep s) (igrid s)) = (s * s + s + 1) / 3.
Proof.
  intros s Hs. unfold igrid. rewrite filter_flat_map_length.
  rewrite (map_ext_in _ (fun j => Nat.min j (2 * (s - 1) - 2 * j) + 1))
    by (intros j Hj; apply in_seq in Hj; apply row_count; lia).
  pose proof (rows_sum (s - 1)) as H. replace (s - 1 + 1) with s in H by lia. exact H.
Qed.

(* ★ COUNT, symmetric scheme: (s^2 + s + 1) div 3 grid points plus the appended centre *)
Theorem sym_count : forall s, 2 <= s -> length (sym_triples s) = (s * s + s + 1) / 3 + 1.
Proof.
  intros s Hs. unfold sym_triples, sym_points.
  rewrite map_length, app_length, sym_filter_igrid, map_length, sym_grid_count by exact Hs. reflexivity.
Qed.

(* ------------------------------------------------------------------ order and distinctness *)
Open Scope Q_scope.

(* strictly earlier in the order of the two loops: smaller Jy, or equal Jy and smaller Jx (as rationals) *)
Definition lex_lt (p q : Q * Q) : Prop := snd p < snd q \/ (snd p == snd q /\ fst p < fst q).
Definition ilex (a b : nat * nat) : Prop := (snd a < snd b \/ (snd a = snd b /\ fst a < fst b))%nat.

Lemma lex_lt_distinct : forall p q, lex_lt p q -> ~ (fst p == fst q /\ snd p == snd q).
Proof. intros p q [H|[H1 H2]] [E1 E2]; [rewrite E2 in H|rewrite E1 in H2]; eapply Qlt_irrefl; eauto. Qed.

Lemma qpt_mono : forall s a b, ilex a b -> lex_lt (qpt s a) (qpt s b).
Proof.
  intros s [i j] [i' j']. unfold ilex, lex_lt, qpt. cbn [fst snd]. intros [H|[H1 H2]].
  - left. unfold Qlt. cbn [Qnum Qden]. apply Z.mul_lt_mono_pos_r; lia.
  - right. subst j'. split; [reflexivity|]. unfold Qlt. cbn [Qnum Qden]. apply Z.mul_lt_mono_pos_r; lia.
Qed.

Lemma SS_map : forall {X Y : Type} (R : X -> X -> Prop) (R' : Y -> Y -> Prop) (g : X -> Y) (l : list X),
  (forall a b, R a b -> R' (g a) (g b)) -> StronglySorted R l -> StronglySorted R' (map g l).
Proof.
  intros X Y R R' g l Hg H. induction H as [|a l Hs IH Hf]; simpl; constructor; [exact IH|].
  rewrite Forall_forall in *. intros y Hy. apply in_map_iff in Hy. destruct Hy as (x & E & Hx). subst y. auto.
Qed.

Lemma SS_filter : forall {X : Type} (R : X -> X -> Prop) (p : X -> bool) (l : list X),
  StronglySorted R l -> StronglySorted R (filter p l).
Proof.
  intros X R p l H. induction H as [|a l Hs IH Hf]; simpl; [constructor|].
  destruct (p a); [|exact IH]. constructor; [exact IH|].
  rewrite Forall_forall in *. intros y Hy. apply filter_In in Hy. apply Hf. tauto.
Qed.

Lemma SS_app : forall {X : Type} (R : X -> X -> Prop) (l1 l2 : list X),
  StronglySorted R l1 -> StronglySorted R l2 -> (forall x y, In x l1 -> In y l2 -> R x y) ->
  StronglySorted R (l1 ++ l2).
Proof.
  intros X R l1 l2 H1 H2 H. induction H1 as [|a l Hs IH Hf]; simpl; [exact H2|].
  constructor.
  - apply IH. intros x y Hx Hy. apply H; [now right|exact Hy].
  - rewrite Forall_forall in *. intros y Hy. apply in_app_or in Hy. destruct Hy as [Hy|Hy]; [now apply Hf|].
    apply H; [now left|exact Hy].
Qed.

Lemma SS_seq : forall n a, StronglySorted lt (seq a n).
Proof.
  induction n as [|n IH]; intros a; simpl; constructor; [apply IH|].
  rewrite Forall_forall. intros y Hy. apply in_seq in Hy. lia.
Qed.

Lemma SS_nth : forall {X : Type} (R : X -> X -> Prop) (l : list X), StronglySorted R l ->
  forall a b x y, (a < b)%nat -> nth_error l a = Some x -> nth_error l b = Some y -> R x y.
Proof.
  intros X R l H. induction H as [|h l Hs IH Hf]; intros a b x y Hab Ea Eb.
  - destruct a; discriminate.
  - destruct b as [|b]; [lia|]. simpl in Eb. destruct a as [|a]; simpl in Ea.
    + inversion Ea; subst. rewrite Forall_forall in Hf. apply Hf. eapply nth_error_In; eauto.
    + apply (IH a b); auto. lia.
Qed.

Lemma igrid_rows_sorted : forall s n a, StronglySorted ilex (flat_map (fun j => map (fun i => (i, j)) (seq 0 s)) (seq a n)).
Proof.
  intros s. induction n as [|n IH]; intros a; simpl; [constructor|].
  apply SS_app.
  - apply (SS_map lt); [|apply SS_seq]. intros i i' H. right. cbn [fst snd]. split; [reflexivity|exact H].
  - apply IH.
  - intros x y Hx Hy. apply in_map_iff in Hx. destruct Hx as (i & E & _). subst x.
    apply in_flat_map in Hy. destruct Hy as (j & Hj & Hy). apply in_map_iff in Hy. destruct Hy as (i' & E & _). subst y.
    apply in_seq in Hj. left. cbn [snd]. lia.
Qed.

Lemma igrid_sorted : forall s, StronglySorted ilex (igrid s).
Proof. intros. apply igrid_rows_sorted. Qed.

(* ★ ORDER: the grid, hence the plain scheme's points and the grid part of the symmetric scheme's, is strictly
   increasing in (Jy, Jx) *)
Theorem grid_sorted : forall s, StronglySorted lex_lt (grid s).
Proof. intros s. rewrite grid_igrid. apply (SS_map ilex); [apply qpt_mono|apply igrid_sorted]. Qed.

Theorem nonsym_points_sorted : forall s, StronglySorted lex_lt (nonsym_points s).
Proof. intros. apply SS_filter, grid_sorted. Qed.

Theorem sym_grid_points_sorted : forall s, StronglySorted lex_lt (filter (sym_keep s) (grid s)).
Proof. intros. apply SS_filter, grid_sorted. Qed.

(* ★ DISTINCTNESS, plain scheme: two different positions never hold the same point (as rationals) *)
Theorem nonsym_points_distinct : forall s a b p q, (a < b)%nat ->
  nth_error (nonsym_points s) a = Some p -> nth_error (nonsym_points s) b = Some q ->
  lex_lt p q /\ ~ (fst p == fst q /\ snd p == snd q).
Proof.
  intros s a b p q Hab Ea Eb.
  assert (H : lex_lt p q) by (eapply SS_nth; eauto using nonsym_points_sorted).
  split; [exact H|now apply lex_lt_distinct].
Qed.

(* the triples inherit it: z is a function of (x, y) *)
Theorem nonsym_triples_distinct : forall s a b t u, (a < b)%nat ->
  nth_error (nonsym_triples s) a = Some t -> nth_error (nonsym_triples s) b = Some u ->
  ~ (fst (fst t) == fst (fst u) /\ snd (fst t) == snd (fst u)).
Proof.
  intros s a b t u Hab Ea Eb. unfold nonsym_triples in *. rewrite nth_error_map in Ea, Eb.
  destruct (nth_error (nonsym_points s) a) as [p|] eqn:Ep; [|discriminate].
  destruct (nth_error (nonsym_points s) b) as [q|] eqn:Eq; [|discriminate].
  inversion Ea; inversion Eb; subst. unfold triple. cbn [fst snd].
  eapply nonsym_points_distinct; eauto.
Qed.

(* ------------------------------------------------------------------ symmetric scheme: grid part + centre *)
Theorem sym_points_structure : forall s, sym_points s = filter (sym_keep s) (grid s) ++ [centre].
Proof. reflexivity. Qed.

(* ★ DISTINCTNESS, symmetric scheme: the grid part is strictly increasing (so its points are pairwise distinct);
   the appended centre (1/3, 1/3) coincides with a grid point exactly when samples = 1 (mod 3) *)
Theorem centre_in_grid_iff : forall s, (2 <= s)%nat -> (centre_in_grid s = true <-> s mod 3 = 1%nat).
Proof.
  intros s Hs. unfold centre_in_grid. rewrite sym_filter_igrid by exact Hs. rewrite existsb_exists.
  pose proof (Nat.div_mod s 3) as Hdm. pose proof (Nat.mod_upper_bound s 3) as Hr.
  split.
  - intros (p & Hp & Hc). apply in_map_iff in Hp. destruct Hp as ([i j] & E & Hij). subst p.
    apply andb_true_iff in Hc. destruct Hc as [Hc _]. apply Qeq_bool_iff in Hc.
    unfold qpt, Qeq in Hc. cbn [fst snd Qnum Qden] in Hc. rewrite gden_Z in Hc by exact Hs. lia.
  - intros Hm. set (q := (s / 3)%nat) in *.
    exists (qpt s (2 * q, 2 * q)%nat). split.
    + apply in_map. apply filter_In. split; [apply in_igrid; lia|].
      unfold ikeep. cbn [fst snd]. apply andb_true_iff. rewrite !Nat.leb_le. lia.
    + unfold qpt. cbn [fst snd]. apply andb_true_iff.
      split; apply Qeq_bool_iff; unfold Qeq; cbn [Qnum Qden]; rewrite gden_Z by exact Hs; lia.
Qed.

Theorem sym_points_distinct_iff : forall s, (2 <= s)%nat ->
  StronglySorted lex_lt (filter (sym_keep s) (grid s)) /\
  ((exists p, In p (filter (sym_keep s) (grid s)) /\ fst p == fst centre /\ snd p == snd centre) <-> s mod 3 = 1%nat).
Proof.
  intros s Hs. split; [apply sym_grid_points_sorted|].
  rewrite <- (centre_in_grid_iff s Hs). unfold centre_in_grid. rewrite existsb_exists.
  split; intros (p & Hp & H); exists p; (split; [exact Hp|]).
  - destruct H as [H1 H2]. apply andb_true_iff. split; now apply Qeq_bool_iff.
  - apply andb_true_iff in H. destruct H as [H1 H2]. split; now apply Qeq_bool_iff.
Qed.

(* the grid part of the symmetric scheme, explicitly: the points (i, j) / (2 (s - 1)) with i <= j and i + 2 j <= 2 (s - 1),
   i.e. Jx <= Jy <= Jz — one sixth of the simplex *)
Theorem sym_grid_points_explicit : forall s p, (2 <= s)%nat ->
  (In p (filter (sym_keep s) (grid s)) <->
   exists i j, p = qpt s (i, j) /\ (i <= j /\ i + 2 * j <= 2 * (s - 1))%nat).
Proof.
  intros s p Hs. rewrite sym_filter_igrid by exact Hs. rewrite in_map_iff. split.
  - intros ([i j] & E & H). apply filter_In in H. destruct H as [_ H]. unfold ikeep in H. cbn [fst snd] in H.
    apply andb_true_iff in H. rewrite !Nat.leb_le in H. exists i, j. split; [now symmetry|exact H].
  - intros (i & j & E & H1 & H2). exists (i, j). split; [now symmetry|]. apply filter_In. split; [apply in_igrid; lia|].
    unfold ikeep. cbn [fst snd]. apply andb_true_iff. rewrite !Nat.leb_le. lia.
Qed.

(* the complete distinctness statement for the symmetric scheme: the returned points are pairwise distinct (as
   rationals) exactly when samples <> 1 (mod 3) *)
Theorem sym_points_pairwise_distinct_iff : forall s, (2 <= s)%nat ->
  ((forall a b p q, (a < b)%nat -> nth_error (sym_points s) a = Some p -> nth_error (sym_points s) b = Some q ->
      ~ (fst p == fst q /\ snd p == snd q)) <-> s mod 3 <> 1%nat).
Proof.
  intros s Hs. rewrite sym_points_structure.
  set (g := filter (sym_keep s) (grid s)).
  destruct (sym_points_distinct_iff s Hs) as [Hsorted Hdup]. fold g in Hsorted, Hdup.
  split.
  - intros Hall Hm. apply Hdup in Hm. destruct Hm as (p & Hp & E1 & E2).
    apply In_nth_error in Hp. destruct Hp as [a Ha].
    assert (Hlt : (a < length g)%nat) by (apply nth_error_Some; congruence).
    apply (Hall a (length g) p centre Hlt).
    + rewrite nth_error_app1 by exact Hlt. exact Ha.
    + rewrite nth_error_app2 by lia. now rewrite Nat.sub_diag.
    + split; assumption.
  - intros Hm a b p q Hab Ea Eb.
    assert (Hb : (b < length (g ++ [centre]))%nat) by (apply nth_error_Some; congruence).
    rewrite app_length in Hb. simpl in Hb.
    rewrite nth_error_app1 in Ea by lia.
    destruct (Nat.eq_dec b (length g)) as [E|E].
    + subst b. rewrite nth_error_app2, Nat.sub_diag in Eb by lia. simpl in Eb. inversion Eb; subst q.
      intros [E1 E2]. apply Hm, Hdup. exists p. split; [eapply nth_error_In; eauto|]. split; assumption.
    + rewrite nth_error_app1 in Eb by lia. apply lex_lt_distinct. exact (SS_nth lex_lt g Hsorted a b p q Hab Ea Eb).
Qed.

(* ------------------------------------------------------------------ why the float filter cannot flip
   Every grid value of z - y and of y - x is either >= 0 or <= -1/(2(s-1)); the thresholds of the code,
   -grid_spacing/2 = -1/(2s), lie strictly between 0 and -1/(2(s-1)).  So a float evaluation of the two
   differences decides like the exact one as long as its error stays below 1/(2s) - 0 resp.
   1/(2(s-1)) - 1/(2s) = 1/(2 s (s-1)) (about 3e-4 for samples = 40; double rounding errors are ~1e-16). *)
Theorem sym_filter_margin : forall s p, (2 <= s)%nat -> In p (grid s) ->
  let x := fst p in let y := snd p in let z := 1 - x - y in
  (0 <= z - y \/ z - y <= - (1 # gden s)) /\ (0 <= y - x \/ y - x <= - (1 # gden s)) /\
  - (1 # gden s) < - grid_spacing s / 2 /\ - grid_spacing s / 2 < 0.
Proof.
  intros s p Hs Hp. rewrite grid_igrid in Hp. apply in_map_iff in Hp. destruct Hp as ([i j] & E & _). subst p.
  unfold qpt. cbn [fst snd]. cbv zeta.
  set (d := gden s). set (x := Z.of_nat i # d). set (y := Z.of_nat j # d).
  assert (E1 : 1 - x - y - y == (Zpos d - Z.of_nat i - Z.of_nat j - Z.of_nat j) # d).
  { unfold x, y. rewrite one_sub, !frac_sub. reflexivity. }
  assert (E2 : y - x == (Z.of_nat j - Z.of_nat i) # d) by (unfold x, y; apply frac_sub).
  assert (Hfr : forall t : Z, 0 <= t # d \/ t # d <= - (1 # d)).
  { intros t. destruct (Z.le_gt_cases 0 t) as [H|H]; [left|right]; unfold Qle, Qopp; cbn [Qnum Qden]; nia. }
  rewrite E1, E2. split; [apply Hfr|]. split; [apply Hfr|].
  rewrite half_spacing. unfold Qlt, Qopp. cbn [Qnum Qden]. unfold d. rewrite gden_Z by exact Hs.
  rewrite Pos2Z.inj_mul, Zpos_of_nat by lia. lia.
Qed.

(* the four facts about the symmetric scheme's list in one statement (the form quoted in Props/C20.v) *)
Theorem sym_points_order_and_duplicate : forall s, (2 <= s)%nat ->
  sym_points s = filter (sym_keep s) (grid s) ++ [centre] /\
  StronglySorted lex_lt (filter (sym_keep s) (grid s)) /\
  ((exists p, In p (filter (sym_keep s) (grid s)) /\ fst p == 1 # 3 /\ snd p == 1 # 3) <-> s mod 3 = 1%nat) /\
  (centre_in_grid s = true <-> s mod 3 = 1%nat).
Proof.
  intros s Hs. split; [apply sym_points_structure|].
  destruct (sym_points_distinct_iff s Hs) as [H1 H2]. split; [exact H1|]. split; [exact H2|].
  exact (centre_in_grid_iff s Hs).
Qed.
