(* Proofs/AStarFacts.v — facts about the A* model (Model/AStar.v). *)
From Coq Require Import List ZArith Bool Arith Lia ZifyBool.
From Koala Require Import Model.AStar.
Import ListNotations.
Open Scope Z_scope.

(* start = goal: the first pop is the goal, the backward pass does not iterate:
   the result is ([start], []) for every positive budget, both stopping modes *)
Lemma as_path_start_eq_goal :
  forall adj h s early n, as_path adj h s s early (S n) = AS_Path [s] [] None.
Proof.
  intros. unfold as_path, as_forward, as_init. simpl.
  rewrite Nat.eqb_refl. simpl. unfold as_backward. simpl. rewrite Nat.eqb_refl. reflexivity.
Qed.
