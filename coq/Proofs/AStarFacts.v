(* Proofs/AStarFacts.v — facts about the A* model (Model/AStar.v):
   forward-pass invariant, validity of the chain rebuilt by the backward pass, start = goal,
   soundness of the chain checker. *)
From Coq Require Import List ZArith Bool Arith Lia ZifyBool.
From Koala Require Import Model.AStar.
Import ListNotations.
Open Scope Z_scope.

(* ------------------------------------------------------------------ association lists *)
Lemma as_lookup_cons_eq : forall (A : Type) k (v : A) l, as_lookup k ((k, v) :: l) = Some v.
Proof. intros. simpl. now rewrite Nat.eqb_refl. Qed.
Lemma as_lookup_cons_neq : forall (A : Type) k k' (v : A) l, k <> k' -> as_lookup k ((k', v) :: l) = as_lookup k l.
Proof. intros. simpl. destruct (Nat.eqb_spec k k'); [contradiction | reflexivity]. Qed.
Lemma as_lookup_in_keys : forall (A : Type) k (l : list (nat * A)), as_lookup k l <> None -> In k (map fst l).
Proof.
  induction l as [| [k' v] l IH]; simpl; intros Hk; [congruence |].
  destruct (Nat.eqb_spec k k'); [left; now subst | right; auto].
Qed.

(* ------------------------------------------------------------------ priority queue *)
Lemma as_pq_min_in : forall l x, as_pq_min x l = x \/ In (as_pq_min x l) l.
Proof.
  induction l as [| y l IH]; intros x; simpl; [now left |].
  destruct (IH (if as_entry_ltb y x then y else x)) as [H | H]; [| now right; right].
  rewrite H. destruct (as_entry_ltb y x); [right; now left | now left].
Qed.
Lemma as_pq_remove_incl : forall x l y, In y (as_pq_remove x l) -> In y l.
Proof.
  induction l as [| z l IH]; simpl; intros y Hy; [contradiction |].
  destruct (as_entry_eqb x z); [now right |].
  destruct Hy as [-> | Hy]; [now left | right; auto].
Qed.
Lemma as_pq_get_some : forall q m rest, as_pq_get q = Some (m, rest) ->
  In m q /\ (forall y, In y rest -> In y q).
Proof.
  intros [| x r] m rest H; simpl in H; [discriminate |].
  injection H as <- <-. split.
  - destruct (as_pq_min_in r x) as [-> | Hin]; [now left | now right].
  - intros y Hy. eapply as_pq_remove_incl; exact Hy.
Qed.

(* ------------------------------------------------------------------ chains *)
(* ns = [goal; ...; start], es[i] joins ns[i] and ns[i+1]; [adj p] lists (neighbour, shared edge):
   each node of the chain is a neighbour of its successor in ns (its parent) through the listed edge *)
Inductive as_chain (adj : nat -> list (nat * nat)) : list nat -> list nat -> Prop :=
| as_chain_one : forall a, as_chain adj [a] []
| as_chain_cons : forall a b e ns es,
    In (a, e) (adj b) -> as_chain adj (b :: ns) es -> as_chain adj (a :: b :: ns) (e :: es).

Definition as_valid_chain (adj : nat -> list (nat * nat)) (start goal : nat) (ns es : list nat) : Prop :=
  hd_error ns = Some goal /\ last ns goal = start /\ S (length es) = length ns
  /\ as_chain adj ns es /\ NoDup ns.

(* the forward-pass invariant on came_from: every recorded node other than start has a recorded parent,
   it is a neighbour of that parent through the recorded edge, and the parent pointers are acyclic
   (a rank decreases strictly towards the start: in the forward pass the rank is cost_so_far) *)
Definition as_cf_inv (adj : nat -> list (nat * nat)) (start : nat) (cf : list (nat * option (nat * nat))) : Prop :=
  exists rank : nat -> Z,
  forall n v, n <> start -> as_lookup n cf = Some v ->
    exists p e, v = Some (p, e) /\ as_lookup p cf <> None /\ In (n, e) (adj p) /\ 0 <= rank p < rank n.

Section Backward.
  Variable adj : nat -> list (nat * nat).
  Variable start : nat.
  Variable cf : list (nat * option (nat * nat)).
  Variable rank : nat -> Z.
  Hypothesis Hinv : forall n v, n <> start -> as_lookup n cf = Some v ->
    exists p e, v = Some (p, e) /\ as_lookup p cf <> None /\ In (n, e) (adj p) /\ 0 <= rank p < rank n.

  Lemma as_backward_chain_aux : forall k n, Z.to_nat (rank n) = k \/ n = start ->
    (as_lookup n cf <> None \/ n = start) ->
    exists ns es,
      (forall fuel, (length ns <= S fuel)%nat -> as_backward_loop fuel cf start n = Some (ns, es))
      /\ hd_error ns = Some n /\ (forall d, last ns d = start) /\ S (length es) = length ns
      /\ as_chain adj ns es
      /\ (forall m, In m ns -> m = start \/ (as_lookup m cf <> None /\ rank m <= rank n))
      /\ NoDup ns.
  Proof.
    induction k as [k IH] using lt_wf_ind. intros n Hk Hrec.
    destruct (Nat.eq_dec n start) as [-> | Hne].
    - exists [start], []. repeat split; simpl; auto.
      + intros fuel _. destruct fuel; simpl; now rewrite Nat.eqb_refl.
      + constructor.
      + intros m [<- | []]. now left.
      + constructor; [intros [] | constructor].
    - destruct Hrec as [Hrec | ->]; [| contradiction].
      destruct Hk as [Hk | ->]; [| contradiction].
      destruct (as_lookup n cf) as [v |] eqn:Hl; [| congruence].
      destruct (Hinv n v Hne Hl) as (p & e & -> & Hp & Hadj & Hr).
      destruct (IH (Z.to_nat (rank p)) ltac:(lia) p (or_introl eq_refl) (or_introl Hp))
        as (ns & es & Hrun & Hhd & Hlast & Hlen & Hch & Hall & Hnd).
      destruct ns as [| b ns']; [discriminate |]. injection Hhd as ->.
      exists (n :: p :: ns'), (e :: es). repeat split.
      + intros fuel Hf. destruct fuel as [| f]; [simpl in Hf; lia |].
        simpl. destruct (Nat.eqb_spec n start); [contradiction |].
        rewrite Hl. simpl in Hrun. rewrite (Hrun f) by (simpl in Hf |- *; lia). reflexivity.
      + intros d. specialize (Hlast d). simpl in Hlast |- *. exact Hlast.
      + simpl in Hlen |- *. lia.
      + constructor; assumption.
      + intros m [<- | Hm].
        * right. split; [congruence | lia].
        * destruct (Hall m Hm) as [-> | [Hm1 Hm2]]; [now left | right; split; [assumption | lia]].
      + constructor; [| assumption].
        intros Hin. destruct (Hall n Hin) as [-> | [_ Hle]]; [contradiction | lia].
  Qed.
End Backward.

(* backward_valid_chain: under the forward-pass invariant the backward pass terminates (the model's fuel
   1 + len(came_from) is enough), raises nothing, and returns a valid simple chain goal ... start *)
Lemma as_backward_valid_chain : forall adj start goal cf,
  as_cf_inv adj start cf -> (as_lookup goal cf <> None \/ goal = start) ->
  exists ns es, as_backward cf start goal = Some (ns, es) /\ as_valid_chain adj start goal ns es.
Proof.
  intros adj start goal cf [rank Hinv] Hg.
  destruct (as_backward_chain_aux adj start cf rank Hinv _ goal (or_introl eq_refl) Hg)
    as (ns & es & Hrun & Hhd & Hlast & Hlen & Hch & Hall & Hnd).
  exists ns, es. split.
  - unfold as_backward. apply Hrun.
    (* ns is duplicate-free and all its nodes except possibly start are keys of cf *)
    destruct (in_dec Nat.eq_dec start ns) as [Hin | Hnin].
    + (* remove start: the rest injects into the keys *)
      destruct (in_split _ _ Hin) as (l1 & l2 & ->).
      assert (Hnd' : NoDup (l1 ++ l2)) by (eapply NoDup_remove_1; exact Hnd).
      assert (Hincl : incl (l1 ++ l2) (map fst cf)).
      { intros m Hm. assert (Hm' : In m (l1 ++ start :: l2)).
        { apply in_app_or in Hm. apply in_or_app. destruct Hm; [now left | right; now right]. }
        destruct (Hall m Hm') as [-> | [Hrec _]].
        - exfalso. eapply NoDup_remove_2; eassumption.
        - now apply as_lookup_in_keys. }
      pose proof (NoDup_incl_length Hnd' Hincl) as Hle.
      rewrite map_length in Hle. rewrite app_length in *. simpl. lia.
    + assert (Hincl : incl ns (map fst cf)).
      { intros m Hm. destruct (Hall m Hm) as [-> | [Hrec _]]; [contradiction | now apply as_lookup_in_keys]. }
      pose proof (NoDup_incl_length Hnd Hincl) as Hle. rewrite map_length in Hle. lia.
  - repeat split; auto.
Qed.

(* ------------------------------------------------------------------ forward pass *)
Section Forward.
  Variable adj : nat -> list (nat * nat).
  Variable h : nat -> nat -> Z.
  Variable start goal : nat.
  Variable early : bool.
  (* the heuristic is a cost: non-negative on graph edges, positive between distinct adjacent nodes *)
  Hypothesis Hh : forall a b e, In (b, e) (adj a) -> 0 <= h a b /\ (a <> b -> 0 < h a b).

  (* loop invariant of a_star_search_forward_pass *)
  Record as_st_inv (st : as_state) : Prop := {
    si_start : as_lookup start (as_cost st) = Some 0;
    si_keys : forall n, as_lookup n (as_came st) <> None <-> as_lookup n (as_cost st) <> None;
    si_nonneg : forall n c, as_lookup n (as_cost st) = Some c -> 0 <= c;
    si_parent : forall n v, n <> start -> as_lookup n (as_came st) = Some v ->
        exists p e cp cn, v = Some (p, e) /\ In (n, e) (adj p)
                          /\ as_lookup p (as_cost st) = Some cp /\ as_lookup n (as_cost st) = Some cn /\ cp < cn;
    si_frontier : forall p c, In (p, c) (as_frontier st) -> as_lookup c (as_cost st) <> None;
    si_goal : early = true -> goal <> start -> as_lookup goal (as_came st) = None
  }.

  Lemma as_init_inv : as_st_inv (as_init start).
  Proof.
    unfold as_init. constructor; simpl.
    - now rewrite Nat.eqb_refl.
    - intros n. destruct (n =? start)%nat; split; congruence.
    - intros n c. destruct (n =? start)%nat; intros H; inversion H; lia.
    - intros n v Hn. destruct (Nat.eqb_spec n start); [contradiction | discriminate].
    - intros p c [H | []]. inversion H; subst. now rewrite Nat.eqb_refl.
    - intros _ Hg. destruct (Nat.eqb_spec goal start); [contradiction | reflexivity].
  Qed.

  (* the invariant as seen from came_from alone (what the backward pass needs) *)
  Lemma as_st_inv_cf : forall st, as_st_inv st -> as_cf_inv adj start (as_came st).
  Proof.
    intros st I.
    exists (fun n => match as_lookup n (as_cost st) with Some c => c | None => 0 end).
    intros n v Hn Hl. destruct (si_parent st I n v Hn Hl) as (p & e & cp & cn & -> & Hadj & Hp & Hc & Hlt).
    exists p, e. repeat split; auto.
    - apply (si_keys st I). congruence.
    - rewrite Hp. eapply si_nonneg; eauto.
    - rewrite Hp, Hc. exact Hlt.
  Qed.

  (* early return: came_from gets goal |-> (cur, e) without a cost entry *)
  Lemma as_early_cf : forall st cur e, as_st_inv st -> early = true -> goal <> start ->
    as_lookup cur (as_cost st) <> None -> In (goal, e) (adj cur) ->
    as_cf_inv adj start ((goal, Some (cur, e)) :: as_came st).
  Proof.
    intros st cur e I He Hgs Hcur Hadj.
    pose proof (si_goal st I He Hgs) as Hgn.
    assert (Hgc : as_lookup goal (as_cost st) = None).
    { destruct (as_lookup goal (as_cost st)) eqn:E; [| reflexivity].
      exfalso. apply (proj2 (si_keys st I goal)); congruence. }
    destruct (as_lookup cur (as_cost st)) as [cc |] eqn:Hcc; [| congruence].
    exists (fun n => if (n =? goal)%nat then cc + 1
                     else match as_lookup n (as_cost st) with Some c => c | None => 0 end).
    intros n v Hn Hl. destruct (Nat.eq_dec n goal) as [-> | Hng].
    - rewrite as_lookup_cons_eq in Hl. injection Hl as <-.
      exists cur, e. repeat split; auto.
      + rewrite as_lookup_cons_neq by congruence. apply (si_keys st I). congruence.
      + destruct (Nat.eqb_spec cur goal); [congruence |]. rewrite Hcc. eapply si_nonneg; eauto.
      + rewrite Nat.eqb_refl. destruct (Nat.eqb_spec cur goal); [congruence |]. rewrite Hcc. lia.
    - rewrite as_lookup_cons_neq in Hl by assumption.
      destruct (si_parent st I n v Hn Hl) as (p & e' & cp & cn & -> & Hadj' & Hp & Hc & Hlt).
      assert (Hpg : p <> goal) by congruence.
      exists p, e'. repeat split; auto.
      + rewrite as_lookup_cons_neq by assumption. apply (si_keys st I). congruence.
      + destruct (Nat.eqb_spec p goal); [contradiction |]. rewrite Hp. eapply si_nonneg; eauto.
      + destruct (Nat.eqb_spec p goal); [contradiction |].
        destruct (Nat.eqb_spec n goal); [contradiction |]. rewrite Hp, Hc. exact Hlt.
  Qed.

  (* recording nxt |-> (cur, e) with cost nc = cost[cur] + h cur nxt *)
  Lemma as_update_inv : forall st cur nxt e cc mg,
    as_st_inv st -> as_lookup cur (as_cost st) = Some cc -> In (nxt, e) (adj cur) ->
    (early && (nxt =? goal)%nat = false) ->
    (match as_lookup nxt (as_cost st) with Some old => cc + h cur nxt < old | None => True end) ->
    as_st_inv (mkAS ((cc + h cur nxt + h nxt goal, nxt) :: as_frontier st)
                    ((nxt, Some (cur, e)) :: as_came st)
                    ((nxt, cc + h cur nxt) :: as_cost st) mg).
  Proof.
    intros st cur nxt e cc mg I Hcc Hadj Hng Hlt.
    destruct (Hh cur nxt e Hadj) as [Hh0 Hhpos].
    pose proof (si_nonneg st I cur cc Hcc) as Hcc0.
    (* nxt is neither start nor cur *)
    assert (Hns : nxt <> start).
    { intros ->. rewrite (si_start st I) in Hlt. lia. }
    assert (Hnc : nxt <> cur).
    { intros ->. rewrite Hcc in Hlt. lia. }
    constructor; simpl.
    - destruct (Nat.eqb_spec start nxt); [congruence | apply (si_start st I)].
    - intros n. destruct (Nat.eqb_spec n nxt); [split; congruence | apply (si_keys st I)].
    - intros n c. destruct (Nat.eqb_spec n nxt); [intros H; inversion H; lia | apply (si_nonneg st I)].
    - intros n v Hn. destruct (Nat.eqb_spec n nxt) as [-> | Hne].
      + intros H; injection H as <-.
        exists cur, e, cc, (cc + h cur nxt). repeat split; auto.
        * destruct (Nat.eqb_spec cur nxt); [congruence | assumption].
        * specialize (Hhpos (not_eq_sym Hnc)). lia.
      + intros Hl. destruct (si_parent st I n v Hn Hl) as (p & e' & cp & cn & -> & Hadj' & Hp & Hc & Hlt').
        destruct (Nat.eq_dec p nxt) as [-> | Hpn].
        * (* the parent's cost just decreased (or it is re-recorded): still below cn *)
          exists nxt, e', (cc + h cur nxt), cn. repeat split; auto.
          -- now rewrite Nat.eqb_refl.
          -- rewrite Hp in Hlt. lia.
        * exists p, e', cp, cn. repeat split; auto.
          destruct (Nat.eqb_spec p nxt); [contradiction | assumption].
    - intros p c [H | H].
      + inversion H; subst. rewrite Nat.eqb_refl. congruence.
      + destruct (Nat.eqb_spec c nxt); [congruence | eapply (si_frontier st I); eauto].
    - intros He Hgs. destruct (Nat.eqb_spec goal nxt) as [<- | Hne].
      + rewrite He, Nat.eqb_refl in Hng. discriminate.
      + apply (si_goal st I He Hgs).
  Qed.

  Lemma as_st_inv_margin : forall st mg, as_st_inv st ->
    as_st_inv (mkAS (as_frontier st) (as_came st) (as_cost st) mg).
  Proof. intros st mg I. destruct I; constructor; simpl; auto. Qed.

  (* the loop over the neighbours (pathfinding.py:37-48) *)
  Lemma as_relax_spec : forall nbrs cur st,
    as_st_inv st -> as_lookup cur (as_cost st) <> None ->
    (forall x, In x nbrs -> In x (adj cur)) ->
    match as_relax h goal early cur nbrs st with
    | AS_Continue st' => as_st_inv st'
    | AS_Return st' => early = true /\ exists st0 e, as_st_inv st0 /\ as_lookup cur (as_cost st0) <> None /\ In (goal, e) (adj cur)
                         /\ as_came st' = (goal, Some (cur, e)) :: as_came st0
    | AS_KeyError => False
    end.
  Proof.
    induction nbrs as [| [nxt e] r IH]; intros cur st I Hcur Hsub; simpl.
    - exact I.
    - destruct (early && (nxt =? goal)%nat) eqn:Heg.
      + apply andb_prop in Heg as [He Hng]. apply Nat.eqb_eq in Hng. subst nxt.
        split; [assumption |]. exists st, e. simpl.
        split; [assumption |]. split; [assumption |]. split; [apply Hsub; now left | reflexivity].
      + destruct (as_lookup cur (as_cost st)) as [cc |] eqn:Hcc; [| congruence].
        assert (Hadj : In (nxt, e) (adj cur)) by (apply Hsub; now left).
        assert (Hsub' : forall x, In x r -> In x (adj cur)) by (intros x Hx; apply Hsub; now right).
        destruct (as_lookup nxt (as_cost st)) as [old |] eqn:Hold.
        * destruct (Z.ltb_spec (cc + h cur nxt) old) as [Hlt | Hge].
          -- apply IH; auto.
             ++ apply as_update_inv; auto. now rewrite Hold.
             ++ simpl. destruct (Nat.eqb_spec cur nxt); congruence.
          -- apply IH; auto.
             ++ now apply as_st_inv_margin.
             ++ simpl. congruence.
        * apply IH; auto.
          -- apply as_update_inv; auto. now rewrite Hold.
          -- simpl. destruct (Nat.eqb_spec cur nxt); congruence.
  Qed.

  (* forward_invariant: whatever the budget and the stopping mode, a returned came_from satisfies the
     invariant and records the goal; cost_so_far[current] never raises KeyError *)
  Lemma as_loop_spec : forall fuel st, as_st_inv st ->
    match as_loop adj h goal early fuel st with
    | AS_Found cf _ _ => as_cf_inv adj start cf /\ (as_lookup goal cf <> None)
    | AS_NotFound _ => True
    | AS_Err => False
    end.
  Proof.
    induction fuel as [| f IH]; intros st I; simpl;
      (destruct (as_pq_get (as_frontier st)) as [[[p cur] rest] |] eqn:Hget; [| exact Logic.I]);
      destruct (as_pq_get_some _ _ _ Hget) as [Hin Hrest];
      pose proof (si_frontier st I p cur Hin) as Hcur;
      (destruct (Nat.eqb_spec cur goal) as [-> | Hcg];
       [split; [now apply as_st_inv_cf | now apply (si_keys st I)] |]).
    - exact Logic.I.
    - set (st1 := mkAS rest (as_came st) (as_cost st) (as_pop_margin (as_margin st) p rest)).
      assert (I1 : as_st_inv st1).
      { destruct I; constructor; simpl; auto. intros p' c' H'. eapply si_frontier0. apply Hrest. exact H'. }
      pose proof (as_relax_spec (adj cur) cur st1 I1 Hcur (fun x H => H)) as Hr.
      destruct (as_relax h goal early cur (adj cur) st1) as [st' | st' |].
      + apply IH. exact Hr.
      + destruct Hr as (He & st0 & e & I0 & Hc0 & Hadj & Hcame). rewrite Hcame. split.
        * destruct (Nat.eq_dec goal start) as [Hgs | Hgs].
          -- (* goal = start was popped first, so this branch has cur <> start = goal ... still fine:
                came_from[start] is overwritten, the invariant only speaks about nodes <> start *)
             destruct (as_st_inv_cf st0 I0) as [rank Hrk]. exists rank.
             intros n v Hn Hl. rewrite as_lookup_cons_neq in Hl by congruence.
             destruct (Hrk n v Hn Hl) as (p' & e' & -> & Hp' & Hadj' & Hr').
             exists p', e'. repeat split; auto; try lia.
             destruct (Nat.eq_dec p' goal) as [-> | Hpg]; [rewrite as_lookup_cons_eq; congruence |].
             rewrite as_lookup_cons_neq by assumption. assumption.
          -- apply as_early_cf; auto.
        * rewrite as_lookup_cons_eq. congruence.
      + exact Hr.
  Qed.

  Lemma as_forward_invariant : forall maxits,
    match as_forward adj h start goal early maxits with
    | AS_Found cf _ _ => as_cf_inv adj start cf /\ (as_lookup goal cf <> None)
    | AS_NotFound _ => True
    | AS_Err => False
    end.
  Proof. intros. unfold as_forward. apply as_loop_spec. apply as_init_inv. Qed.

  (* the public function: never crashes; a returned path is a valid simple chain from goal back to start *)
  Lemma as_path_valid : forall maxits,
    match as_path adj h start goal early maxits with
    | AS_Path ns es _ => as_valid_chain adj start goal ns es
    | AS_PathFindingError _ => True
    | AS_Crash => False
    end.
  Proof.
    intros maxits. unfold as_path. pose proof (as_forward_invariant maxits) as Hf.
    destruct (as_forward adj h start goal early maxits) as [cf cs mg | mg |]; auto.
    destruct Hf as [Hinv Hg].
    destruct (as_backward_valid_chain adj start goal cf Hinv (or_introl Hg)) as (ns & es & -> & Hv).
    exact Hv.
  Qed.
End Forward.

(* a chain that is valid w.r.t. the adjacency lists passes the boolean checker for any edge test
   [joined] that accepts the adjacency lists' entries *)
Lemma as_chain_checker : forall adj joined, (forall a e b, In (a, e) (adj b) -> joined e a b = true) ->
  forall ns es, as_chain adj ns es -> as_chain_ok joined ns es = true.
Proof.
  intros adj joined Hj ns es H. induction H as [a | a b e ns es Hin Hc IH]; [reflexivity |].
  change (joined e a b && as_chain_ok joined (b :: ns) es = true). now rewrite (Hj _ _ _ Hin), IH.
Qed.

(* ------------------------------------------------------------------ concrete instances *)
Lemma as_path_example :
  let adj := (fun n => match n with
                       | 0 => [(1, 0); (2, 2)] | 1 => [(0, 0); (2, 1); (3, 3)]
                       | 2 => [(1, 1); (0, 2); (3, 4)] | 3 => [(1, 3); (2, 4)] | _ => [] end)%nat in
  let h := (fun a b => if (a =? b)%nat then 0 else 3 + Z.of_nat (a + b))%Z in
  (forall a b e, In (b, e) (adj a) -> (0 <= h a b)%Z /\ (a <> b -> (0 < h a b)%Z)) /\
  as_path adj h 0 3 false 5 = AS_Path [3; 1; 0]%nat [3; 0]%nat (Some 2%Z) /\
  as_path adj h 0 3 true 5 = AS_Path [3; 1; 0]%nat [3; 0]%nat (Some 2%Z).
Proof.
  split; [| split; vm_compute; reflexivity].
  intros a b e _. destruct (Nat.eqb_spec a b); split; intros; try lia; contradiction.
Qed.

(* start = goal: the first pop is the goal, the backward pass does not iterate:
   the result is ([start], []) for every positive budget, both stopping modes *)
Lemma as_path_start_eq_goal :
  forall adj h s early n, as_path adj h s s early n = AS_Path [s] [] None.
Proof.
  intros. unfold as_path, as_forward, as_init. destruct n; simpl;
  unfold as_entry_eqb; simpl; rewrite !Nat.eqb_refl; simpl;
  unfold as_backward; simpl; rewrite Nat.eqb_refl; reflexivity.
Qed.
