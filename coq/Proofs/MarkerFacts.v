(* Proofs/MarkerFacts.v — stdlib facts about the executable marker model (Model/Marker.v):
   the step function of crosshair_marker is STRICT (chern_number.py:23-24, `<`). *)
From Coq Require Import List ZArith Bool Arith Lia.
From Koala Require Import Model.Marker.
Import ListNotations.
Open Scope Z_scope.

Lemma theta_length : forall xs X, length (theta xs X) = length xs.
Proof. intros xs X; unfold theta; apply map_length. Qed.

(* entry j of theta: 1 when x_j < X, 0 otherwise (in particular 0 when x_j = X) *)
Lemma theta_nth : forall xs X j, (j < length xs)%nat ->
  nth j (theta xs X) gz0 = if nth j xs 0 <? X then gz1 else gz0.
Proof.
  intros xs X j Hj. unfold theta.
  rewrite (nth_indep _ gz0 (gz_of_bool (0 <? X))) by (rewrite map_length; exact Hj).
  rewrite (map_nth (fun x => gz_of_bool (x <? X)) xs 0 j). reflexivity.
Qed.

Lemma theta_on_vertex_is_zero : forall xs X j, (j < length xs)%nat -> nth j xs 0 = X ->
  nth j (theta xs X) gz0 = gz0.
Proof. intros xs X j Hj HX. rewrite theta_nth by exact Hj. rewrite HX, Z.ltb_irrefl. reflexivity. Qed.

Lemma theta_below_is_one : forall xs X j, (j < length xs)%nat -> nth j xs 0 < X ->
  nth j (theta xs X) gz0 = gz1.
Proof. intros xs X j Hj HX. rewrite theta_nth by exact Hj. apply Z.ltb_lt in HX. rewrite HX. reflexivity. Qed.

Lemma theta_above_is_zero : forall xs X j, (j < length xs)%nat -> X <= nth j xs 0 ->
  nth j (theta xs X) gz0 = gz0.
Proof. intros xs X j Hj HX. rewrite theta_nth by exact Hj. apply Z.ltb_ge in HX. rewrite HX. reflexivity. Qed.

(* ---------- the generic list model commutes with any structure-preserving map phi : T -> T'
   (used in Proofs/MarkerBridge.v with phi : Gaussian integers -> a numClosedFieldType) ---------- *)
Section Morph.
  Variables (T I T' I' : Type).
  Variables (t0 : T) (tadd tmul : T -> T -> T) (tim : T -> I).
  Variables (s0 : T') (sadd smul : T' -> T' -> T') (sim : T' -> I').
  Variables (phi : T -> T') (psi : I -> I').
  Hypothesis phi0 : phi t0 = s0.
  Hypothesis phiD : forall x y, phi (tadd x y) = sadd (phi x) (phi y).
  Hypothesis phiM : forall x y, phi (tmul x y) = smul (phi x) (phi y).
  Hypothesis phi_im : forall x, sim (phi x) = psi (tim x).

  Let mmap (M : list (list T)) := map (map phi) M.

  Lemma nthd_map : forall l k, nthd T' s0 (map phi l) k = phi (nthd T t0 l k).
  Proof. induction l as [|x l IH]; intros [|k]; simpl; auto. Qed.

  Lemma nthr_map : forall M k, nthr T' (mmap M) k = map phi (nthr T M k).
  Proof. induction M as [|r M IH]; intros [|k]; simpl; auto. Qed.

  Lemma dot_map : forall u v, dot T' s0 sadd smul (map phi u) (map phi v) = phi (dot T t0 tadd tmul u v).
  Proof.
    induction u as [|x u IH]; intros [|y v]; simpl; auto.
    rewrite IH, phiD, phiM. reflexivity.
  Qed.

  Lemma col_map : forall j B, col T' s0 j (mmap B) = map phi (col T t0 j B).
  Proof.
    intros j B. unfold col, mmap. rewrite !map_map. apply map_ext. intros r. apply nthd_map.
  Qed.

  Lemma mm_map : forall n A B,
    mm T' s0 sadd smul n (mmap A) (mmap B) = mmap (mm T t0 tadd tmul n A B).
  Proof.
    intros n A B. unfold mm, mmap. rewrite !map_map. apply map_ext. intros r.
    rewrite map_map. apply map_ext. intros j. fold (mmap B). rewrite col_map. apply dot_map.
  Qed.

  Lemma diagm_map : forall n a, diagm T' s0 n (map phi a) = mmap (diagm T t0 n a).
  Proof.
    intros n a. unfold diagm, mmap. rewrite map_map. apply map_ext. intros i.
    rewrite map_map. apply map_ext. intros j. destruct (Nat.eqb i j); auto. apply nthd_map.
  Qed.

  Lemma diagv_map : forall n M, diagv T' s0 n (mmap M) = map phi (diagv T t0 n M).
  Proof.
    intros n M. unfold diagv. rewrite map_map. apply map_ext. intros i.
    rewrite nthr_map. apply nthd_map.
  Qed.

  Lemma triple_map : forall n P a b,
    triple T' s0 sadd smul n (mmap P) (map phi a) (map phi b) = mmap (triple T t0 tadd tmul n P a b).
  Proof.
    intros n P a b. unfold triple. rewrite !diagm_map.
    fold (mmap (diagm T t0 n a)). fold (mmap (diagm T t0 n b)).
    rewrite !mm_map. reflexivity.
  Qed.

  Lemma lmarker_map : forall n P a b,
    lmarker T' I' s0 sadd smul sim n (mmap P) (map phi a) (map phi b)
    = map psi (lmarker T I t0 tadd tmul tim n P a b).
  Proof.
    intros n P a b. unfold lmarker. rewrite triple_map, diagv_map, !map_map.
    apply map_ext. intros x. apply phi_im.
  Qed.

  Lemma wf_shape_map : forall n P a b,
    wf_shape T' n (mmap P) (map phi a) (map phi b) = wf_shape T n P a b.
  Proof.
    intros n P a b. unfold wf_shape, mmap. rewrite !map_length.
    f_equal. f_equal. f_equal.
    induction P as [|r P IH]; simpl; auto. rewrite map_length, IH. reflexivity.
  Qed.
End Morph.

(* ---------- a concrete non-trivial instance (rank 2 in dimension 4, P = P4z / 4) ---------- *)
Definition P4z : list (list gz) :=
  [[(2, 0); (1, -1); (0, 1); (1, 0)];
   [(1, 1); (2, 0); (0, -1); (1, 0)];
   [(0, -1); (0, 1); (3, 0); (1, 0)];
   [(1, 0); (1, 0); (1, 0); (1, 0)]].
Definition xs4 : list Z := [0; 1; 2; 3].     (* x coordinates *)
Definition ys4 : list Z := [0; 2; 1; 3].     (* y coordinates *)

Lemma P4z_example :
  gz_projb 4 4 P4z = true /\
  crosshair_num P4z xs4 ys4 2 2 = Some [1; -1; -1; 1] /\
  crosshair_num P4z ys4 xs4 2 2 = Some [-1; 1; 1; -1] /\      (* x <-> y: sign flips *)
  (* crosshair exactly on x_1 = 1: site 1 is NOT below (a `<=` would give the previous line's value) *)
  crosshair_num P4z xs4 ys4 1 2 = Some [0; -1; 0; 1] /\
  chern_num P4z xs4 ys4 = Some [3; -3; -3; 3] /\
  chern_num P4z ys4 xs4 = Some [-3; 3; 3; -3].
Proof. vm_compute. repeat split. Qed.
