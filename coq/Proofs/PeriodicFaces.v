(* Proofs/PeriodicFaces.v — C10, polygons for ALL sizes, part 2: the faces of a periodic lattice are the
   translates of the faces of its base cell.

   Setting: Proofs/PeriodicRot.v with the cell permutations given by a group action  tr : Z^2 -> cells
   (sh e = tr (bc e), bc e the crossing of base edge e), plus a list bfaces of closed walks of base darts
   ("the faces of the cell in the universal cover"): each is a cycle of the base successor bnd, duplicate free,
   returns to the cell it started in (net shift zero), convex anticlockwise, and together they contain every
   base dart once.  Then (periodic_plaquettes), whatever the numbers of cells:
     * every face walk of L is  twalk t c'  — the copy with tail cell t of a rotation c' of some c in bfaces;
     * every face passes the three filters of the plaquette finder (no edge twice: hypothesis Hbf_edges, the only
       size-dependent one; zero net crossing; winding -1), has positive area;
     * the multiset of side counts of find_all_plaquettes L is N copies of that of bfaces; every directed edge
       lies on exactly one plaquette. *)
From Coq Require Import List ZArith Bool Arith Lia ZifyBool Permutation Sorted.
From Koala Require Import Model.Lattice Proofs.SortFacts Proofs.LatticeFacts Proofs.SpecC01Facts
     Proofs.WindingConvexTri Proofs.WindingConvex Proofs.PeriodicRot.
Import ListNotations.
Open Scope nat_scope.

(* ---------- small vector facts ---------- *)
Lemma vadd_zero_r v : vadd v vzero = v.
Proof. destruct v. unfold vadd, vzero. cbn [fst snd]. f_equal; lia. Qed.
Lemma vadd_comm a b : vadd a b = vadd b a.
Proof. unfold vadd. f_equal; lia. Qed.
Lemma vadd_vneg_l a : vadd (vneg a) a = vzero.
Proof. unfold vadd, vneg, vzero. cbn [fst snd]. f_equal; lia. Qed.
Lemma vadd_vneg_r a : vadd a (vneg a) = vzero.
Proof. unfold vadd, vneg, vzero. cbn [fst snd]. f_equal; lia. Qed.
Lemma vsum_app_add l1 l2 : vsum (l1 ++ l2) = vadd (vsum l1) (vsum l2).
Proof.
  induction l1 as [|a l1 IH]; cbn [app].
  - unfold vsum at 2. cbn [fold_right]. destruct (vsum l2). unfold vadd, vzero. cbn [fst snd]. f_equal; lia.
  - change (vsum (a :: l1 ++ l2)) with (vadd a (vsum (l1 ++ l2))). change (vsum (a :: l1)) with (vadd a (vsum l1)).
    rewrite IH. unfold vadd. cbn [fst snd]. f_equal; lia.
Qed.
Lemma asc_vzero al be : asc al be vzero = vzero.
Proof. unfold asc, vzero. cbn [fst snd]. f_equal; lia. Qed.
Lemma asc_vadd al be a b : asc al be (vadd a b) = vadd (asc al be a) (asc al be b).
Proof. unfold asc, vadd. cbn [fst snd]. f_equal; lia. Qed.
Lemma asc_vsum al be l : vsum (map (asc al be) l) = asc al be (vsum l).
Proof.
  induction l as [|a l IH]; [symmetry; apply asc_vzero|].
  cbn [map]. change (vsum (asc al be a :: map (asc al be) l)) with (vadd (asc al be a) (vsum (map (asc al be) l))).
  change (vsum (a :: l)) with (vadd a (vsum l)). rewrite IH, asc_vadd. reflexivity.
Qed.
Lemma vcross_asc al be a b : vcross (asc al be a) (asc al be b) = (al * be * vcross a b)%Z.
Proof. unfold vcross, asc. cbn [fst snd]. ring. Qed.

(* ---------- convexity is invariant under rotation of the walk and under positive rescaling ---------- *)
Lemma app_eq_app_cases {A} (a b c d : list A) : a ++ b = c ++ d ->
  exists m, (a = c ++ m /\ d = m ++ b) \/ (c = a ++ m /\ b = m ++ d).
Proof.
  revert c; induction a as [|x a IH]; intros c E.
  - exists c. right. split; [reflexivity|exact E].
  - destruct c as [|y c].
    + exists (x :: a). left. split; [reflexivity|symmetry; exact E].
    + cbn [app] in E. injection E as -> E. destruct (IH c E) as (m & [[-> ->]|[-> ->]]); exists m; [left|right]; split; reflexivity.
Qed.

Lemma convex_ccw_rot l1 l2 : convex_ccw (l1 ++ l2) -> convex_ccw (l2 ++ l1).
Proof.
  intros (Hne & Hs & Hlt & a & b & E & Hsort). repeat split.
  - intro X. apply app_eq_nil in X as [-> ->]. apply Hne. reflexivity.
  - rewrite vsum_rot. exact Hs.
  - apply left_turns_rot, Hlt.
  - destruct (app_eq_app_cases _ _ _ _ E) as (m & [[-> ->]|[-> ->]]).
    + (* l1 = a ++ m, b = m ++ l2 : sorted (m ++ l2 ++ a) *)
      exists (l2 ++ a), m. split; [rewrite <- app_assoc; reflexivity|]. rewrite <- app_assoc in Hsort. exact Hsort.
    + (* a = l1 ++ m, l2 = m ++ b : sorted (b ++ l1 ++ m) *)
      exists m, (b ++ l1). split; [rewrite <- !app_assoc; reflexivity|]. rewrite <- app_assoc. exact Hsort.
Qed.

Lemma adj_map {A B} (f : A -> B) l : adj (map f l) = map (fun ab => (f (fst ab), f (snd ab))) (adj l).
Proof.
  induction l as [|x l IH]; [reflexivity|]. destruct l as [|y l]; [reflexivity|].
  change (map f (x :: y :: l)) with (f x :: map f (y :: l)) in *.
  change (map f (y :: l)) with (f y :: map f l) in *.
  change (adj (f x :: f y :: map f l)) with ((f x, f y) :: adj (f y :: map f l)).
  change (adj (x :: y :: l)) with ((x, y) :: adj (y :: l)). cbn [map fst snd]. f_equal. exact IH.
Qed.
Lemma last_map {A B} (f : A -> B) l d : last (map f l) (f d) = f (last l d).
Proof. induction l as [|x l IH]; [reflexivity|]. destruct l as [|y l]; [reflexivity|]. exact IH. Qed.
Lemma cycp_map {A B} (f : A -> B) d l : cycp (f d) (map f l) = map (fun ab => (f (fst ab), f (snd ab))) (cycp d l).
Proof.
  destruct l as [|x r]; [reflexivity|]. change (map f (x :: r)) with (f x :: map f r).
  rewrite !cycp_cons. cbn [map fst snd]. f_equal.
  - f_equal. change (f x :: map f r) with (map f (x :: r)). apply last_map.
  - change (f x :: map f r) with (map f (x :: r)). apply adj_map.
Qed.

Lemma pos_mul_eqb0 a x : (0 < a)%Z -> (a * x =? 0)%Z = (x =? 0)%Z.
Proof. intros Ha. destruct (Z.eqb_spec (a * x) 0), (Z.eqb_spec x 0); try reflexivity; nia. Qed.
Lemma pos_mul_ltb0 a x : (0 < a)%Z -> (a * x <? 0)%Z = (x <? 0)%Z.
Proof. intros Ha. destruct (Z.ltb_spec (a * x) 0), (Z.ltb_spec x 0); try reflexivity; nia. Qed.
Lemma vup_asc al be v : (0 < al)%Z -> (0 < be)%Z -> vup (asc al be v) = vup v.
Proof.
  intros Ha Hb. unfold vup, w_up, wP, asc. cbn [fst snd].
  rewrite pos_mul_ltb, pos_mul_eqb0, pos_mul_ltb0 by assumption. reflexivity.
Qed.
Lemma wc_ang_lt_asc al be v w : (0 < al)%Z -> (0 < be)%Z ->
  WindingConvex.ang_lt (asc al be v) (asc al be w) = WindingConvex.ang_lt v w.
Proof.
  intros Ha Hb. unfold WindingConvex.ang_lt. rewrite !vup_asc, vcross_asc by assumption.
  rewrite pos_mul_ltb by nia. reflexivity.
Qed.

Lemma ang_sorted_asc al be l : (0 < al)%Z -> (0 < be)%Z -> ang_sorted l -> ang_sorted (map (asc al be) l).
Proof.
  intros Ha Hb. unfold ang_sorted. induction 1 as [|x l S IH Hd]; cbn [map]; constructor; [exact IH|].
  destruct Hd as [|y l Hxy]; cbn [map]; constructor. rewrite wc_ang_lt_asc by assumption. exact Hxy.
Qed.

Lemma convex_ccw_asc al be vs : (0 < al)%Z -> (0 < be)%Z -> convex_ccw vs -> convex_ccw (map (asc al be) vs).
Proof.
  intros Ha Hb (Hne & Hs & Hlt & a & b & E & Hsort). repeat split.
  - intro X. apply map_eq_nil in X. contradiction.
  - rewrite asc_vsum, Hs. apply asc_vzero.
  - unfold left_turns in *. rewrite <- (asc_vzero al be), cycp_map. rewrite Forall_forall in *.
    intros ab Hin. apply in_map_iff in Hin as (xy & <- & Hxy). cbn [fst snd]. rewrite vcross_asc.
    specialize (Hlt _ Hxy). nia.
  - exists (map (asc al be) a), (map (asc al be) b). split; [rewrite E; apply map_app|].
    rewrite <- map_app. apply ang_sorted_asc; assumption.
Qed.

(* ---------- list counting helpers ---------- *)
Lemma filter_all {A} (p : A -> bool) l : (forall x, In x l -> p x = true) -> filter p l = l.
Proof.
  induction l as [|a l IH]; intros H; [reflexivity|]. cbn [filter]. rewrite (H a (or_introl eq_refl)).
  f_equal. apply IH. intros x Hx. apply H. right. exact Hx.
Qed.

Lemma filter_flat_map {A B} (p : B -> bool) (f : A -> list B) l :
  filter p (flat_map f l) = flat_map (fun x => filter p (f x)) l.
Proof.
  induction l as [|a l IH]; [reflexivity|]. cbn [flat_map]. rewrite filter_app, IH. reflexivity.
Qed.

Lemma Permutation_filter {A} (p : A -> bool) l1 l2 : Permutation l1 l2 -> Permutation (filter p l1) (filter p l2).
Proof.
  induction 1 as [|x l1 l2 P IH|x y l|l1 l2 l3 P1 IH1 P2 IH2]; cbn [filter].
  - constructor.
  - destruct (p x); [constructor|]; exact IH.
  - destruct (p x), (p y); try reflexivity. apply perm_swap.
  - etransitivity; eassumption.
Qed.

(* in a list whose images under g are distinct, the elements whose image satisfies p — p singling out h —
   are exactly one *)
Lemma filter_single {A B} (g : A -> B) (p : B -> bool) (h : B) : forall l,
  NoDup (map g l) -> In h (map g l) -> (forall x, In x (map g l) -> p x = true -> x = h) -> p h = true ->
  exists a, filter (fun x => p (g x)) l = [a] /\ g a = h /\ In a l.
Proof.
  induction l as [|a l IH]; intros Hnd Hin Huniq Hp; [destruct Hin|].
  cbn [map] in *. inversion Hnd as [|? ? Hni Hnd']; subst. cbn [filter].
  destruct (p (g a)) eqn:E.
  - assert (Ea : g a = h) by (apply Huniq; [left; reflexivity|exact E]).
    exists a. split; [|split; [exact Ea|left; reflexivity]]. f_equal.
    assert (F : forall x, In x l -> p (g x) = false).
    { intros x Hx. destruct (p (g x)) eqn:Ex; [|reflexivity]. exfalso. apply Hni.
      assert (g x = h) by (apply Huniq; [right; apply in_map; exact Hx|exact Ex]).
      rewrite Ea, <- H. apply in_map. exact Hx. }
    clear -F. induction l as [|b l IH]; [reflexivity|]. cbn [filter]. rewrite (F b (or_introl eq_refl)).
    apply IH. intros x Hx. apply F. right. exact Hx.
  - destruct Hin as [Hin|Hin]; [rewrite Hin in E; congruence|].
    destruct (IH Hnd' Hin (fun x Hx => Huniq x (or_intror Hx)) Hp) as (b & Hf & Hb & Hinb).
    exists b. split; [exact Hf|split; [exact Hb|right; exact Hinb]].
Qed.

(* the lists of a duplicate-free concatenation are pairwise disjoint *)
Lemma concat_disjoint {A} (ls : list (list A)) l1 l2 x :
  NoDup (concat ls) -> In l1 ls -> In l2 ls -> In x l1 -> In x l2 -> l1 = l2.
Proof.
  induction ls as [|a ls IH]; intros Hnd H1 H2 X1 X2; [destruct H1|].
  cbn [concat] in Hnd. destruct (NoDup_app_elim _ _ Hnd) as (_ & Hnd' & Hdis).
  assert (Hc : forall l, In l ls -> In x l -> In x (concat ls)).
  { intros l Hl Hx. apply in_concat. exists l. split; assumption. }
  destruct H1 as [<-|H1], H2 as [<-|H2]; [reflexivity| | |apply IH; assumption].
  - exfalso. apply (Hdis x X1). apply (Hc l2); assumption.
  - exfalso. apply (Hdis x X2). apply (Hc l1); assumption.
Qed.

Lemma pairsum_asc al be l : pairsum (map (asc al be) l) = (al * be * pairsum l)%Z.
Proof.
  induction l as [|v r IH]; [cbn; ring|]. cbn [map pairsum]. rewrite IH, asc_vsum, vcross_asc. ring.
Qed.

Lemma zsum_flat_const (l : list Z) n : zsum (flat_map (fun _ : nat => l) (seq 0 n)) = (Z.of_nat n * zsum l)%Z.
Proof.
  generalize 0. induction n as [|n IH]; intros a; [reflexivity|]. cbn [seq flat_map].
  assert (A : forall l1 l2, zsum (l1 ++ l2) = (zsum l1 + zsum l2)%Z).
  { induction l1 as [|x l1 IH1]; intros l2; [reflexivity|]. cbn [app]. unfold zsum in *. cbn [fold_right]. rewrite IH1. ring. }
  rewrite A, IH. lia.
Qed.

(* ================================================================== faces of a periodic lattice *)
Section Faces.
  Variable L : lattice.
  Hypothesis HG : good L.
  Variables N ns ne : nat.
  Variables bj bk : nat -> nat.
  Variable bc : nat -> vec.
  Variable tr : vec -> nat -> nat.
  Variable eid : nat -> nat -> nat.
  Variables ecell ebase : nat -> nat.
  Variable bvec : nat -> vec.
  Variables al be : Z.
  Variable brot : nat -> list (nat * bool).

  Definition psh (e n : nat) : nat := tr (bc e) n.
  Definition pshi (e n : nat) : nat := tr (vneg (bc e)) n.

  Hypothesis Hal : (0 < al)%Z.
  Hypothesis Hbe : (0 < be)%Z.
  Hypothesis Hb_lt : forall e, e < ne -> bj e < ns /\ bk e < ns.
  Hypothesis Htr_lt : forall a n, n < N -> tr a n < N.
  Hypothesis Htr0 : forall n, n < N -> tr vzero n = n.
  Hypothesis Htr_add : forall a b n, n < N -> tr a (tr b n) = tr (vadd a b) n.
  Hypothesis Heid_lt : forall n e, n < N -> e < ne -> eid n e < nE L.
  Hypothesis Hdec : forall x, x < nE L -> ecell x < N /\ ebase x < ne /\ eid (ecell x) (ebase x) = x.
  Hypothesis Heid_inj : forall n e n' e', n < N -> e < ne -> n' < N -> e' < ne ->
    eid n e = eid n' e' -> n = n' /\ e = e'.
  Hypothesis Hedge : forall n e, n < N -> e < ne ->
    edge_at L (eid n e) = (n * ns + bj e, psh e n * ns + bk e).
  Hypothesis Hvec : forall n e, n < N -> e < ne -> evec L (eid n e) = asc al be (bvec e).
  Hypothesis Hnz : forall e, e < ne -> bvec e <> vzero.
  Hypothesis Hrot_in : forall s e b, s < ns ->
    (In (e, b) (brot s) <-> e < ne /\ (if b then bj e else bk e) = s).
  Hypothesis Hrot_sorted : forall s, s < ns ->
    StronglySorted (fun h1 h2 => Lattice.ang_lt (hvec bvec h2) (hvec bvec h1) = true) (brot s).

  Lemma Hpsh : forall e n, e < ne -> n < N ->
    psh e n < N /\ pshi e n < N /\ psh e (pshi e n) = n /\ pshi e (psh e n) = n.
  Proof.
    intros e n _ Hn. unfold psh, pshi. repeat split; try (apply Htr_lt; exact Hn).
    - rewrite Htr_add, vadd_vneg_r by exact Hn. apply Htr0, Hn.
    - rewrite Htr_add, vadd_vneg_l by exact Hn. apply Htr0, Hn.
  Qed.

  Notation bnd' := (bnd bj bk brot).
  Notation tdart' := (tdart eid).
  Notation bdart := (nat * bool)%type (only parsing).
  Notation d0 := (0, true) (only parsing).

  (* walks are described by the cell of the TAIL vertex of each dart *)
  Definition dshift (d : bdart) : vec := if snd d then bc (fst d) else vneg (bc (fst d)).
  Definition ecl (t : nat) (d : bdart) : nat := if snd d then t else tr (vneg (bc (fst d))) t.
  Definition mkstep (n : nat) (d : bdart) : wstep := (eid n (fst d), dtail L (tdart' n d), snd d).
  Fixpoint twalk (t : nat) (c : list bdart) : list wstep :=
    match c with
    | [] => []
    | d :: r => mkstep (ecl t d) d :: twalk (tr (dshift d) t) r
    end.

  Lemma ecl_lt t d : t < N -> ecl t d < N.
  Proof. intros Ht. unfold ecl. destruct (snd d); [exact Ht|apply Htr_lt, Ht]. Qed.

  Lemma pnd t d : t < N -> fst d < ne ->
    exists d', bnd' d = Some d' /\ fst d' < ne /\
               nd L (tdart' (ecl t d) d) = Some (tdart' (ecl (tr (dshift d) t) d') d').
  Proof.
    intros Ht He. pose proof (ecl_lt t d Ht) as Hc.
    destruct (periodic_nd L HG N ns ne bj bk psh pshi eid ecell ebase bvec al be brot Hal Hbe Hb_lt Hpsh
                Heid_lt Hdec Heid_inj Hedge Hvec Hnz Hrot_in Hrot_sorted (ecl t d) d Hc He)
      as (d' & Hb & He' & _ & Hnd).
    exists d'. split; [exact Hb|]. split; [exact He'|]. rewrite Hnd. f_equal. f_equal.
    assert (Hh : hcell psh (ecl t d) d = tr (dshift d) t).
    { unfold hcell, ecl, dshift, psh. destruct (snd d); reflexivity. }
    unfold ncell. rewrite Hh. unfold ecl, pshi. destruct (snd d'); reflexivity.
  Qed.

  Lemma mkstep_ok n d : n < N -> fst d < ne -> step_ok L (mkstep n d).
  Proof.
    intros Hn He. split; [|reflexivity]. unfold sdart, mkstep. cbn [fst snd].
    apply (tdart_valid L N ne eid Heid_lt n d Hn He).
  Qed.

  Fixpoint bchain (c : list bdart) : Prop :=
    match c with
    | a :: ((b :: _) as r) => bnd' a = Some b /\ bchain r
    | _ => True
    end.

  Lemma twalk_ok : forall c t, t < N -> (forall d, In d c -> fst d < ne) ->
    forall s, In s (twalk t c) -> step_ok L s.
  Proof.
    induction c as [|d r IH]; intros t Ht He s Hs; [destruct Hs|]. cbn [twalk] in Hs. destruct Hs as [<-|Hs].
    - apply mkstep_ok; [apply ecl_lt, Ht|apply He; left; reflexivity].
    - apply (IH (tr (dshift d) t)); [apply Htr_lt, Ht|intros x Hx; apply He; right; exact Hx|exact Hs].
  Qed.

  Lemma twalk_chain : forall c t, t < N -> (forall d, In d c -> fst d < ne) -> bchain c -> chain L (twalk t c).
  Proof.
    induction c as [|a r IH]; intros t Ht He Hc; [exact I|]. destruct r as [|b r]; [exact I|].
    destruct Hc as [Hab Hc]. change (twalk t (a :: b :: r)) with (mkstep (ecl t a) a :: twalk (tr (dshift a) t) (b :: r)).
    change (twalk (tr (dshift a) t) (b :: r))
      with (mkstep (ecl (tr (dshift a) t) b) b :: twalk (tr (dshift b) (tr (dshift a) t)) r).
    split.
    - destruct (pnd t a Ht (He a (or_introl eq_refl))) as (d' & Hb & _ & Hnd).
      rewrite Hab in Hb. injection Hb as <-. exact Hnd.
    - apply (IH (tr (dshift a) t)); [apply Htr_lt, Ht|intros x Hx; apply He; right; exact Hx|exact Hc].
  Qed.

  Lemma twalk_close : forall c t d1, t < N -> c <> [] -> (forall d, In d c -> fst d < ne) ->
    bnd' (last c d0) = Some d1 ->
    nd L (sdart (last (twalk t c) dflt)) = Some (tdart' (ecl (tr (vsum (map dshift c)) t) d1) d1).
  Proof.
    induction c as [|a r IH]; intros t d1 Ht Hne He Hl; [congruence|]. destruct r as [|b r].
    - cbn [last twalk map] in *. destruct (pnd t a Ht (He a (or_introl eq_refl))) as (d' & Hb & _ & Hnd).
      rewrite Hl in Hb. injection Hb as <-. rewrite vsum_single. exact Hnd.
    - change (last (a :: b :: r) d0) with (last (b :: r) d0) in Hl.
      change (twalk t (a :: b :: r)) with (mkstep (ecl t a) a :: twalk (tr (dshift a) t) (b :: r)).
      assert (X : twalk (tr (dshift a) t) (b :: r) <> []) by (cbn [twalk]; discriminate).
      destruct (twalk (tr (dshift a) t) (b :: r)) as [|s0 w0] eqn:Ew; [congruence|].
      change (last (mkstep (ecl t a) a :: s0 :: w0) dflt) with (last (s0 :: w0) dflt). rewrite <- Ew.
      rewrite (IH (tr (dshift a) t) d1); [|apply Htr_lt, Ht|discriminate|intros x Hx; apply He; right; exact Hx|exact Hl].
      rewrite Htr_add by exact Ht. cbn [map].
      change (vsum (dshift a :: dshift b :: map dshift r)) with (vadd (dshift a) (vsum (dshift b :: map dshift r))).
      rewrite (vadd_comm (dshift a)). reflexivity.
  Qed.

  Lemma ebase_eid n e : n < N -> e < ne -> ecell (eid n e) = n /\ ebase (eid n e) = e.
  Proof.
    intros Hn He. destruct (Hdec _ (Heid_lt n e Hn He)) as (H1 & H2 & H3).
    destruct (Heid_inj _ _ _ _ H1 H2 Hn He H3). split; assumption.
  Qed.

  Definition bproj (d : dart) : bdart := (ebase (fst d), snd d).

  Lemma twalk_bproj : forall c t, t < N -> (forall d, In d c -> fst d < ne) ->
    map bproj (map sdart (twalk t c)) = c.
  Proof.
    induction c as [|d r IH]; intros t Ht He; [reflexivity|]. cbn [twalk map]. f_equal.
    - unfold bproj, sdart, mkstep. cbn [fst snd].
      destruct (ebase_eid (ecl t d) (fst d) (ecl_lt t d Ht) (He d (or_introl eq_refl))) as [_ ->].
      destruct d; reflexivity.
    - apply IH; [apply Htr_lt, Ht|intros x Hx; apply He; right; exact Hx].
  Qed.

  Lemma twalk_length c : forall t, length (twalk t c) = length c.
  Proof. induction c as [|d r IH]; intros t; [reflexivity|]. cbn [twalk length]. f_equal. apply IH. Qed.

  (* a closed base walk, whatever dart it is started on *)
  Definition bcycle (c : list bdart) : Prop :=
    c <> [] /\ (forall d, In d c -> fst d < ne) /\ bchain c /\ bnd' (last c d0) = Some (hd d0 c) /\
    NoDup c /\ vsum (map dshift c) = vzero.

  Theorem twalk_orbit t c : t < N -> bcycle c -> orbit_walk L (twalk t c).
  Proof.
    intros Ht (Hne & He & Hc & Hl & Hnd & Hsum). constructor.
    - destruct c; [congruence|cbn [twalk]; discriminate].
    - apply twalk_ok; assumption.
    - apply twalk_chain; assumption.
    - rewrite (twalk_close c t (hd d0 c) Ht Hne He Hl), Hsum, Htr0 by exact Ht.
      destruct c as [|a r]; [congruence|]. reflexivity.
    - apply (NoDup_map_inv bproj). rewrite twalk_bproj by assumption. exact Hnd.
  Qed.

  Lemma twalk_app : forall l1 l2 t, t < N ->
    twalk t (l1 ++ l2) = twalk t l1 ++ twalk (tr (vsum (map dshift l1)) t) l2.
  Proof.
    induction l1 as [|a l1 IH]; intros l2 t Ht.
    - cbn [app twalk map]. change (vsum []) with vzero. rewrite Htr0 by exact Ht. reflexivity.
    - cbn [app twalk map]. f_equal. rewrite IH by (apply Htr_lt, Ht). f_equal. rewrite Htr_add by exact Ht.
      change (vsum (dshift a :: map dshift l1)) with (vadd (dshift a) (vsum (map dshift l1))).
      rewrite (vadd_comm (dshift a)). reflexivity.
  Qed.

  Lemma adj_bchain l : Forall (fun ab => bnd' (fst ab) = Some (snd ab)) (adj l) -> bchain l.
  Proof.
    induction l as [|x l IH]; [intros; exact I|]. destruct l as [|y l]; [intros; exact I|].
    change (adj (x :: y :: l)) with ((x, y) :: adj (y :: l)). intros H. inversion H as [|? ? H1 H2]; subst.
    split; [exact H1|apply IH, H2].
  Qed.

  (* ---------- the faces of the base cell ---------- *)
  Variable bfaces : list (list bdart).
  Hypothesis Hbf_ne : forall c, In c bfaces -> c <> [].
  Hypothesis Hbf_e : forall c, In c bfaces -> forall d, In d c -> fst d < ne.
  Hypothesis Hbf_cyc : forall c, In c bfaces ->
    Forall (fun ab => bnd' (fst ab) = Some (snd ab)) (cycp d0 c).
  Hypothesis Hbf_shift : forall c, In c bfaces -> vsum (map dshift c) = vzero.
  Hypothesis Hbf_part : NoDup (concat bfaces).
  Hypothesis Hbf_cover : forall e b, e < ne -> In (e, b) (concat bfaces).
  Hypothesis Hbf_convex : forall c, In c bfaces -> convex_ccw (map (hvec bvec) c).
  Hypothesis Hbf_edges : forall c t, In c bfaces -> t < N -> NoDup (walk_edges (twalk t c)).

  Lemma rot_bcycle c l1 l2 : In c bfaces -> c = l1 ++ l2 -> bcycle (l2 ++ l1).
  Proof.
    intros Hc E. assert (Hne : l2 ++ l1 <> []).
    { intro X. apply app_eq_nil in X as [-> ->]. apply (Hbf_ne c Hc). exact E. }
    split; [exact Hne|]. split; [|split; [|split; [|split]]].
    - intros d Hd. apply (Hbf_e c Hc). rewrite E. apply in_or_app. apply in_app_or in Hd. tauto.
    - pose proof (Hbf_cyc c Hc) as F. rewrite E in F.
      assert (F' : Forall (fun ab => bnd' (fst ab) = Some (snd ab)) (cycp d0 (l2 ++ l1))).
      { rewrite Forall_forall in *. intros x Hx. apply F. eapply Permutation_in; [apply cycp_rot|exact Hx]. }
      destruct (l2 ++ l1) as [|x r]; [congruence|]. rewrite cycp_cons in F'. inversion F'; subst. apply adj_bchain. assumption.
    - pose proof (Hbf_cyc c Hc) as F. rewrite E in F.
      assert (F' : Forall (fun ab => bnd' (fst ab) = Some (snd ab)) (cycp d0 (l2 ++ l1))).
      { rewrite Forall_forall in *. intros x Hx. apply F. eapply Permutation_in; [apply cycp_rot|exact Hx]. }
      destruct (l2 ++ l1) as [|x r]; [congruence|]. rewrite cycp_cons in F'. inversion F' as [|? ? H1 _]; subst. exact H1.
    - pose proof Hbf_part as P. apply (Permutation_NoDup (l := l1 ++ l2)); [apply Permutation_app_comm|].
      rewrite <- E. clear -P Hc. induction bfaces as [|a ls IH]; [destruct Hc|]. cbn [concat] in P.
      destruct (NoDup_app_elim _ _ P) as (Pa & Pl & _). destruct Hc as [<-|Hc]; [exact Pa|apply IH; assumption].
    - rewrite map_app, <- vsum_rot, <- map_app, <- E. apply Hbf_shift, Hc.
  Qed.

  (* every face walk of L is the copy of a (rotated) base face *)
  Theorem face_is_twalk w : orbit_walk L w ->
    exists t c l1 l2, t < N /\ In c bfaces /\ c = l1 ++ l2 /\ w = twalk t (l2 ++ l1).
  Proof.
    intros HO. destruct w as [|s w']; [exfalso; apply (ow_ne _ _ HO); reflexivity|].
    pose proof (ow_ok _ _ HO s (or_introl eq_refl)) as [Hv Hs]. destruct s as [[x v] b].
    unfold valid_dart, sdart in Hv. cbn [fst snd] in Hv, Hs.
    destruct (Hdec x Hv) as (Hm & He & Ex). set (m := ecell x) in *. set (e := ebase x) in *.
    pose proof (Hbf_cover e b He) as Hin. apply in_concat in Hin as (c & Hc & Hd).
    apply in_split in Hd as (l1 & l2' & E). set (l2 := (e, b) :: l2') in *.
    set (t := if b then m else tr (bc e) m).
    assert (Ht : t < N) by (unfold t; destruct b; [exact Hm|apply Htr_lt, Hm]).
    assert (Ecl : ecl t (e, b) = m).
    { unfold ecl, t. cbn [fst snd]. destruct b; [reflexivity|].
      rewrite Htr_add, vadd_vneg_l by exact Hm. apply Htr0, Hm. }
    exists t, c, l1, l2. split; [exact Ht|]. split; [exact Hc|]. split; [exact E|].
    pose proof (twalk_orbit t (l2 ++ l1) Ht (rot_bcycle c l1 l2 Hc E)) as HO2.
    unfold l2 in *. cbn [app twalk] in *. rewrite Ecl in *.
    assert (Es : mkstep m (e, b) = (x, v, b)).
    { apply (step_ok_eq L); [apply (ow_ok _ _ HO2); left; reflexivity|apply (ow_ok _ _ HO); left; reflexivity|].
      unfold sdart, mkstep. cbn [fst snd]. rewrite Ex. reflexivity. }
    rewrite Es in *. f_equal. eapply orbit_same_head; eassumption.
  Qed.

  Lemma vscale_one v : vscale 1 v = v.
  Proof. destruct v. unfold vscale. cbn [fst snd]. f_equal; lia. Qed.

  Lemma dvec_twalk : forall c t, t < N -> (forall d, In d c -> fst d < ne) ->
    map (dvec L) (twalk t c) = map (asc al be) (map (hvec bvec) c).
  Proof.
    induction c as [|d r IH]; intros t Ht He; [reflexivity|]. cbn [twalk map]. f_equal.
    - unfold dvec, mkstep, hvec. cbn [fst snd].
      rewrite (Hvec _ _ (ecl_lt t d Ht) (He d (or_introl eq_refl))).
      destruct (snd d); cbn [sgn]; [apply vscale_one|].
      unfold vscale, asc, vneg. cbn [fst snd]. f_equal; ring.
    - apply IH; [apply Htr_lt, Ht|intros x Hx; apply He; right; exact Hx].
  Qed.

  Lemma scale_pos : (0 < scale L)%Z.
  Proof. destruct HG as [Hwf _]. unfold wf_lattice in Hwf. lia. Qed.

  Theorem face_valid t c l1 l2 : t < N -> In c bfaces -> c = l1 ++ l2 ->
    let w := twalk t (l2 ++ l1) in
    walk_valid L w = true /\ winding (map (dvec L) w) = (-1)%Z /\ (0 < area2 (poly_points L w))%Z /\
    length w = length c.
  Proof.
    intros Ht Hc E w. pose proof (rot_bcycle c l1 l2 Hc E) as Hb. pose proof (twalk_orbit t _ Ht Hb) as HO.
    destruct Hb as (Hne & He & _).
    assert (Hcv : convex_ccw (map (dvec L) w)).
    { unfold w. rewrite dvec_twalk by assumption. apply convex_ccw_asc; try assumption.
      rewrite map_app. apply convex_ccw_rot. rewrite <- map_app, <- E. apply Hbf_convex, Hc. }
    assert (Hw : winding (map (dvec L) w) = (-1)%Z) by (apply convex_winding, Hcv).
    split; [|split; [exact Hw|split]].
    - unfold walk_valid. rewrite Hw. rewrite !andb_true_iff. split; [split|reflexivity].
      + apply nodupb_NoDup. unfold w.
        assert (T0 : tr (vsum (map dshift l2)) t < N) by (apply Htr_lt, Ht).
        pose proof (Hbf_edges c _ Hc T0) as Hnd. rewrite E in Hnd.
        rewrite twalk_app in Hnd by exact T0. rewrite twalk_app by exact Ht.
        rewrite Htr_add in Hnd by exact Ht.
        assert (Z0 : vadd (vsum (map dshift l1)) (vsum (map dshift l2)) = vzero).
        { rewrite <- vsum_app_add, <- map_app, <- E. apply Hbf_shift, Hc. }
        rewrite Z0, Htr0 in Hnd by exact Ht.
        unfold walk_edges in *. rewrite map_app in *. eapply Permutation_NoDup; [apply Permutation_app_comm|exact Hnd].
      + apply veqb_eq. pose proof (orbit_vectors_sum L w HG HO) as Hsum.
        destruct Hcv as (_ & Hz & _). rewrite Hz in Hsum. pose proof scale_pos as Sp.
        destruct (net_crossing L w) as [a b]. unfold vscale, vzero in *. cbn [fst snd] in Hsum.
        injection Hsum as H1 H2. f_equal; nia.
    - assert (Hnew : w <> []) by (apply (ow_ne _ _ HO)). clearbody w. unfold poly_points.
      destruct w as [|s w0]; [congruence|]. apply convex_area, Hcv.
    - unfold w. rewrite twalk_length, E, !app_length. lia.
  Qed.

  (* ---------- counting: one canonical dart (copy of the first dart of a base face) per face ---------- *)
  Definition heads : list bdart := map (hd d0) bfaces.
  Definition cand (d : dart) : bool := existsb (dart_eqb (bproj d)) heads.
  Lemma hd_In (c : list bdart) : c <> [] -> In (hd d0 c) c.
  Proof. destruct c; [congruence|left; reflexivity]. Qed.

  Lemma bfaces_disjoint c1 c2 x : In c1 bfaces -> In c2 bfaces -> In x c1 -> In x c2 -> c1 = c2.
  Proof. apply concat_disjoint, Hbf_part. Qed.

  Definition can_darts : list dart := flat_map (fun n => map (tdart' n) heads) (seq 0 N).

  Lemma heads_lt h : In h heads -> fst h < ne.
  Proof.
    intros Hh. apply in_map_iff in Hh as (c & <- & Hc). apply (Hbf_e c Hc), hd_In, Hbf_ne, Hc.
  Qed.

  Lemma heads_NoDup : NoDup heads.
  Proof.
    unfold heads. pose proof Hbf_part as P. pose proof Hbf_ne as Hn. clear -P Hn.
    induction bfaces as [|a ls IH]; [constructor|]. cbn [map concat] in *.
    destruct (NoDup_app_elim _ _ P) as (_ & Pl & Hdis). constructor.
    - intro Hin. apply in_map_iff in Hin as (c2 & E2 & H2).
      apply (Hdis (hd d0 a)); [apply hd_In, Hn; left; reflexivity|].
      apply in_concat. exists c2. split; [exact H2|]. rewrite <- E2. apply hd_In, Hn. right. exact H2.
    - apply IH; [exact Pl|]. intros c Hc. apply Hn. right. exact Hc.
  Qed.

  Lemma NoDup_flat_map_disjoint {A B} (f : A -> list B) l :
    NoDup l -> (forall x, In x l -> NoDup (f x)) ->
    (forall x y z, In x l -> In y l -> In z (f x) -> In z (f y) -> x = y) -> NoDup (flat_map f l).
  Proof.
    induction l as [|a l IH]; intros Hnd Hf Hdis; [constructor|]. cbn [flat_map].
    inversion Hnd as [|? ? Hni Hnd']; subst. apply NoDup_app_intro.
    - apply Hf. left. reflexivity.
    - apply IH; [exact Hnd'|intros x Hx; apply Hf; right; exact Hx|].
      intros x y z Hx Hy. apply Hdis; right; assumption.
    - intros z Hz1 Hz2. apply in_flat_map in Hz2 as (y & Hy & Hzy).
      assert (a = y) by (apply (Hdis a y z); [left; reflexivity|right; exact Hy|exact Hz1|exact Hzy]).
      subst y. contradiction.
  Qed.

  Lemma can_darts_NoDup : NoDup can_darts.
  Proof.
    unfold can_darts. apply NoDup_flat_map_disjoint; [apply seq_NoDup| |].
    - intros n Hn. apply in_seq in Hn. apply NoDup_map_local; [|apply heads_NoDup].
      intros h1 h2 H1 H2 Eq. unfold tdart in Eq. injection Eq as Eq1 Eq2.
      destruct (Heid_inj n (fst h1) n (fst h2)) as [_ Ee]; try lia; try (apply heads_lt; assumption).
      destruct h1, h2. cbn [fst snd] in *. congruence.
    - intros n1 n2 z H1 H2 Z1 Z2. apply in_seq in H1. apply in_seq in H2.
      apply in_map_iff in Z1 as (h1 & <- & Hh1). apply in_map_iff in Z2 as (h2 & Eq & Hh2).
      unfold tdart in Eq. injection Eq as Eq1 Eq2.
      destruct (Heid_inj n2 (fst h2) n1 (fst h1)) as [En _]; try lia; try (apply heads_lt; assumption).
  Qed.

  Lemma can_darts_spec d : In d can_darts <-> valid_dart L d /\ cand d = true.
  Proof.
    unfold can_darts, cand. rewrite in_flat_map. split.
    - intros (n & Hn & Hd). apply in_seq in Hn. apply in_map_iff in Hd as (h & <- & Hh).
      pose proof (heads_lt h Hh) as He. split; [apply (tdart_valid L N ne eid Heid_lt); [lia|exact He]|].
      apply existsb_exists. exists h. split; [exact Hh|]. apply dart_eqb_eq.
      unfold bproj, tdart. cbn [fst snd]. destruct (ebase_eid n (fst h)) as [_ ->]; [lia|exact He|].
      destruct h; reflexivity.
    - intros [Hv Hex]. apply existsb_exists in Hex as (h & Hh & Eq). apply dart_eqb_eq in Eq.
      destruct d as [x b]. unfold valid_dart in Hv. cbn [fst] in Hv. destruct (Hdec x Hv) as (Hm & He & Ex).
      exists (ecell x). split; [apply in_seq; lia|]. apply in_map_iff. exists h. split; [|exact Hh].
      rewrite <- Eq. unfold tdart, bproj. cbn [fst snd]. rewrite Ex. reflexivity.
  Qed.

  Lemma flat_map_ext_in {A B} (f g : A -> list B) l : (forall a, In a l -> f a = g a) -> flat_map f l = flat_map g l.
  Proof.
    induction l as [|a l IH]; intros H; [reflexivity|]. cbn [flat_map]. rewrite (H a (or_introl eq_refl)).
    f_equal. apply IH. intros x Hx. apply H. right. exact Hx.
  Qed.

  (* ---------- any quantity of a face that depends only on the base face it is a copy of ---------- *)
  Section Val.
    Variable X : Type.
    Variable bv : list bdart -> X.
    Variable x0 : X.
    Variable fv : list wstep -> X.
    Hypothesis Hfv : forall t c l1 l2, t < N -> In c bfaces -> c = l1 ++ l2 -> fv (twalk t (l2 ++ l1)) = bv c.

    Definition bval (d : dart) : X :=
      match find (fun c => dart_eqb (hd d0 c) (bproj d)) bfaces with Some c => bv c | None => x0 end.

    Lemma bval_head c x : In c bfaces -> bproj x = hd d0 c -> bval x = bv c.
    Proof.
      intros Hc Ex. unfold bval. rewrite Ex.
      destruct (find (fun c0 => dart_eqb (hd d0 c0) (hd d0 c)) bfaces) as [c2|] eqn:F.
      - apply find_some in F as [H2 Eq]. apply dart_eqb_eq in Eq. f_equal.
        apply (bfaces_disjoint c2 c (hd d0 c)); [exact H2|exact Hc| |apply hd_In, Hbf_ne, Hc].
        rewrite <- Eq. apply hd_In, Hbf_ne, H2.
      - pose proof (find_none _ _ F c Hc) as Y. cbv beta in Y.
        assert (dart_eqb (hd d0 c) (hd d0 c) = true) by (apply dart_eqb_eq; reflexivity). congruence.
    Qed.

    Lemma face_can t c l1 l2 : t < N -> In c bfaces -> c = l1 ++ l2 ->
      exists x, filter cand (walk_darts (twalk t (l2 ++ l1))) = [x] /\ bval x = fv (twalk t (l2 ++ l1)).
    Proof.
      intros Ht Hc E. destruct (rot_bcycle c l1 l2 Hc E) as (Hne & He & _ & _ & Hnd & _).
      pose proof (twalk_bproj (l2 ++ l1) t Ht He) as Hp.
      destruct (filter_single bproj (fun x => existsb (dart_eqb x) heads) (hd d0 c)
                  (walk_darts (twalk t (l2 ++ l1)))) as (x & Hf & Hx & _).
      - rewrite walk_darts_sdart, Hp. exact Hnd.
      - rewrite walk_darts_sdart, Hp.
        assert (Hh : In (hd d0 c) (l1 ++ l2)) by (rewrite <- E; apply hd_In, Hbf_ne, Hc).
        apply in_or_app. apply in_app_or in Hh. tauto.
      - rewrite walk_darts_sdart, Hp. intros y Hy Hex. apply existsb_exists in Hex as (h & Hh & Eq).
        apply dart_eqb_eq in Eq. subst h. unfold heads in Hh. apply in_map_iff in Hh as (c2 & E2 & H2).
        assert (c2 = c).
        { apply (bfaces_disjoint c2 c y); [exact H2|exact Hc|rewrite <- E2; apply hd_In, Hbf_ne, H2|].
          rewrite E. apply in_or_app. apply in_app_or in Hy. tauto. }
        subst c2. symmetry. exact E2.
      - apply existsb_exists. exists (hd d0 c). split; [apply in_map, Hc|apply dart_eqb_eq; reflexivity].
      - exists x. split; [exact Hf|]. rewrite (bval_head c x Hc Hx). symmetry. apply Hfv; assumption.
    Qed.

    Lemma count_via_can (ws : list (list wstep)) :
      (forall w, In w ws -> exists x, filter cand (walk_darts w) = [x] /\ bval x = fv w) ->
      map bval (filter cand (flat_map walk_darts ws)) = map fv ws.
    Proof.
      induction ws as [|w ws IH]; intros H; [reflexivity|]. cbn [flat_map map].
      rewrite filter_app, map_app. destruct (H w (or_introl eq_refl)) as (x & Hf & Hb). rewrite Hf. cbn [map app]. rewrite Hb.
      f_equal. apply IH. intros w' Hw'. apply H. right. exact Hw'.
    Qed.

    Lemma can_darts_bval : map bval can_darts = flat_map (fun _ => map bv bfaces) (seq 0 N).
    Proof.
      unfold can_darts.
      assert (MF : forall l, map bval (flat_map (fun n => map (tdart' n) heads) l)
                             = flat_map (fun n => map bval (map (tdart' n) heads)) l).
      { induction l as [|a l IH]; [reflexivity|]. cbn [flat_map]. rewrite map_app, IH. reflexivity. }
      rewrite MF. apply flat_map_ext_in. intros n Hn. apply in_seq in Hn. unfold heads. rewrite !map_map.
      apply map_ext_in. intros c Hc. apply bval_head; [exact Hc|].
      pose proof (Hbf_e c Hc _ (hd_In c (Hbf_ne c Hc))) as He.
      unfold bproj, tdart. cbn [fst snd]. destruct (ebase_eid n (fst (hd d0 c))) as [_ ->]; [lia|exact He|].
      destruct (hd d0 c); reflexivity.
    Qed.

    (* the values of the faces of L are N copies of the values of the base faces *)
    Theorem faces_values fs :
      (forall f, In f fs -> orbit_walk L (f_walk f)) -> NoDup (face_darts fs) ->
      (forall d, valid_dart L d <-> In d (face_darts fs)) ->
      Permutation (map fv (map f_walk fs)) (flat_map (fun _ => map bv bfaces) (seq 0 N)).
    Proof.
      intros Hfs Hfnd Hfd. set (ws := map f_walk fs).
      rewrite <- can_darts_bval. rewrite <- (count_via_can ws).
      2:{ intros w Hw. apply in_map_iff in Hw as (f & <- & Hf).
          destruct (face_is_twalk _ (Hfs f Hf)) as (t & c & l1 & l2 & Ht & Hc & E & ->). apply (face_can t c l1 l2 Ht Hc E). }
      apply Permutation_map. apply NoDup_Permutation.
      - apply NoDup_filter. exact Hfnd.
      - apply can_darts_NoDup.
      - intros d. rewrite filter_In, can_darts_spec. change (flat_map walk_darts ws) with (face_darts fs).
        rewrite <- Hfd. reflexivity.
    Qed.
  End Val.

  (* ================================================================== the result *)
  Theorem periodic_plaquettes :
    exists ps, find_all_plaquettes L = Some ps /\
      Permutation (map n_sides ps) (flat_map (fun _ => map (@length _) bfaces) (seq 0 N)) /\
      (forall p, In p ps -> p_winding p = (-1)%Z /\ (0 < p_area2 p)%Z /\ NoDup (p_edges p)) /\
      NoDup (flat_map plaq_darts ps) /\
      (forall d, valid_dart L d <-> In d (flat_map plaq_darts ps)).
  Proof.
    destruct (plaquettes_spec L HG) as (fs & Hall & Hfind & _ & _).
    destruct (all_faces_spec L HG) as (fs' & Hall' & Hfs & Hfnd & Hfd).
    rewrite Hall in Hall'. injection Hall' as <-.
    set (ws := map f_walk fs).
    assert (A : forall w, In w ws -> exists t c l1 l2, t < N /\ In c bfaces /\ c = l1 ++ l2 /\ w = twalk t (l2 ++ l1)).
    { intros w Hw. apply in_map_iff in Hw as (f & <- & Hf). apply face_is_twalk, (Hfs f Hf). }
    assert (B : filter (walk_valid L) ws = ws).
    { apply filter_all. intros w Hw. destruct (A w Hw) as (t & c & l1 & l2 & Ht & Hc & E & ->).
      apply (face_valid t c l1 l2 Ht Hc E). }
    assert (Eps : plaq_of_faces L fs = map (mk_plaquette L) ws).
    { unfold plaq_of_faces. fold ws. rewrite B. reflexivity. }
    assert (Ed : flat_map plaq_darts (map (mk_plaquette L) ws) = face_darts fs).
    { unfold face_darts. fold ws. clear. induction ws as [|w l IH]; [reflexivity|].
      cbn [map flat_map]. rewrite plaq_darts_mk, IH. reflexivity. }
    exists (map (mk_plaquette L) ws). split; [rewrite Hfind, Eps; reflexivity|]. split; [|split; [|split]].
    - assert (E1 : map n_sides (map (mk_plaquette L) ws) = map (@length _) ws).
      { rewrite map_map. apply map_ext. intros w. unfold n_sides, mk_plaquette, walk_edges. cbn [p_edges].
        apply map_length. }
      rewrite E1. apply (faces_values nat (@length _) 0 (@length _)); [|intros f Hf; apply (Hfs f Hf)|exact Hfnd|exact Hfd].
      intros t c l1 l2 Ht Hc E. apply (face_valid t c l1 l2 Ht Hc E).
    - intros p Hp. apply in_map_iff in Hp as (w & <- & Hw).
      destruct (A w Hw) as (t & c & l1 & l2 & Ht & Hc & E & ->).
      destruct (face_valid t c l1 l2 Ht Hc E) as (Hv & Hwd & Ha & _).
      unfold mk_plaquette. cbn [p_winding p_area2 p_edges]. split; [exact Hwd|]. split; [exact Ha|].
      unfold walk_valid in Hv. rewrite !andb_true_iff in Hv. apply nodupb_NoDup. tauto.
    - rewrite Ed. exact Hfnd.
    - intros d. rewrite Ed. apply Hfd.
  Qed.

  (* areas: every plaquette has al*be times the (shoelace) area of its base face, so twice the areas sum to
     N * al * be * (sum over the base faces) *)
  Definition barea2 (c : list bdart) : Z := (al * be * pairsum (map (hvec bvec) c))%Z.

  Theorem periodic_areas :
    exists ps, find_all_plaquettes L = Some ps /\
      Permutation (map p_area2 ps) (flat_map (fun _ => map barea2 bfaces) (seq 0 N)) /\
      zsum (map p_area2 ps) = (Z.of_nat N * zsum (map barea2 bfaces))%Z.
  Proof.
    destruct (plaquettes_spec L HG) as (fs & Hall & Hfind & _ & _).
    destruct (all_faces_spec L HG) as (fs' & Hall' & Hfs & Hfnd & Hfd).
    rewrite Hall in Hall'. injection Hall' as <-.
    set (ws := map f_walk fs).
    assert (A : forall w, In w ws -> exists t c l1 l2, t < N /\ In c bfaces /\ c = l1 ++ l2 /\ w = twalk t (l2 ++ l1)).
    { intros w Hw. apply in_map_iff in Hw as (f & <- & Hf). apply face_is_twalk, (Hfs f Hf). }
    assert (B : filter (walk_valid L) ws = ws).
    { apply filter_all. intros w Hw. destruct (A w Hw) as (t & c & l1 & l2 & Ht & Hc & E & ->).
      apply (face_valid t c l1 l2 Ht Hc E). }
    assert (Eps : plaq_of_faces L fs = map (mk_plaquette L) ws).
    { unfold plaq_of_faces. fold ws. rewrite B. reflexivity. }
    assert (P : Permutation (map p_area2 (map (mk_plaquette L) ws)) (flat_map (fun _ => map barea2 bfaces) (seq 0 N))).
    { rewrite map_map. change (map (fun w => p_area2 (mk_plaquette L w)) ws) with (map (fun w => area2 (poly_points L w)) ws).
      apply (faces_values Z barea2 0%Z (fun w => area2 (poly_points L w))); [|intros f Hf; apply (Hfs f Hf)|exact Hfnd|exact Hfd].
      intros t c l1 l2 Ht Hc E. pose proof (rot_bcycle c l1 l2 Hc E) as Hb.
      pose proof (twalk_orbit t _ Ht Hb) as HO. destruct Hb as (Hne & He & _).
      assert (Hz : vsum (map (hvec bvec) (l2 ++ l1)) = vzero).
      { destruct (Hbf_convex c Hc) as (_ & Hs & _). rewrite map_app, <- vsum_rot, <- map_app, <- E. exact Hs. }
      assert (Hnew : twalk t (l2 ++ l1) <> []) by (apply (ow_ne _ _ HO)).
      unfold poly_points. destruct (twalk t (l2 ++ l1)) as [|s0 w0] eqn:Ew; [congruence|]. rewrite <- Ew.
      rewrite area2_pairsum by (rewrite dvec_twalk, asc_vsum, Hz by assumption; apply asc_vzero).
      rewrite dvec_twalk, pairsum_asc by assumption. unfold barea2. f_equal.
      rewrite E, !map_app. symmetry. apply pairsum_rot. rewrite <- map_app, <- E.
      destruct (Hbf_convex c Hc) as (_ & Hs & _). exact Hs. }
    exists (map (mk_plaquette L) ws). split; [rewrite Hfind, Eps; reflexivity|]. split; [exact P|].
    rewrite (zsum_perm _ _ P). apply zsum_flat_const.
  Qed.

  (* any quantity of a plaquette that depends only on the base face: every plaquette has one of the base values *)
  Theorem periodic_plaquette_value (X : Type) (bv : list bdart -> X) (gv : plaquette -> X) :
    (forall t c l1 l2, t < N -> In c bfaces -> c = l1 ++ l2 -> gv (mk_plaquette L (twalk t (l2 ++ l1))) = bv c) ->
    forall ps, find_all_plaquettes L = Some ps -> forall p, In p ps -> In (gv p) (map bv bfaces).
  Proof.
    intros Hgv ps Hps p Hp.
    destruct (plaquettes_spec L HG) as (fs & Hall & Hfind & _ & Hin).
    destruct (all_faces_spec L HG) as (fs' & Hall' & Hfs & _ & _).
    rewrite Hall in Hall'. injection Hall' as <-. rewrite Hps in Hfind. injection Hfind as ->.
    apply Hin in Hp as (f & Hf & _ & ->).
    destruct (face_is_twalk _ (proj1 (Hfs f Hf))) as (t & c & l1 & l2 & Ht & Hc & E & ->).
    rewrite (Hgv t c l1 l2 Ht Hc E). apply in_map, Hc.
  Qed.

  (* the directed edges of a copy: valid edges, directions of the base face *)
  Lemma twalk_darts : forall c t, t < N -> (forall d, In d c -> fst d < ne) ->
    map snd (walk_darts (twalk t c)) = map snd c /\ (forall d, In d (walk_darts (twalk t c)) -> fst d < nE L).
  Proof.
    induction c as [|d r IH]; intros t Ht He; [split; [reflexivity|intros ? []]|].
    destruct (IH (tr (dshift d) t) (Htr_lt _ _ Ht) (fun x Hx => He x (or_intror Hx))) as [I1 I2].
    cbn [twalk walk_darts map]. split.
    - cbn [snd]. f_equal. exact I1.
    - intros x [<-|Hx]; [|apply I2, Hx]. cbn [fst]. apply Heid_lt; [apply ecl_lt, Ht|apply He; left; reflexivity].
  Qed.
End Faces.
