(* Proofs/SurgeryFacts.v — lemmas about Model/Surgery.v: general list facts, cut_boundaries,
   remove_vertices.  (C12) *)
From Coq Require Import List ZArith Bool Arith Lia ZifyBool Permutation Sorted.
From Koala Require Import Model.Lattice Model.Surgery.
Import ListNotations.
Open Scope nat_scope.

(* ------------------------------------------------------------------ general list facts *)
Lemma filter_map_comm {A B} (f : A -> B) (p : B -> bool) (l : list A) :
  filter p (map f l) = map f (filter (fun x => p (f x)) l).
Proof.
  induction l as [|x l IH]; simpl; [reflexivity|].
  destruct (p (f x)); simpl; rewrite IH; reflexivity.
Qed.

Lemma filter_filter {A} (p q : A -> bool) (l : list A) :
  filter q (filter p l) = filter (fun x => p x && q x) l.
Proof.
  induction l as [|x l IH]; simpl; [reflexivity|].
  destruct (p x); simpl; [destruct (q x); simpl; rewrite IH; reflexivity | exact IH].
Qed.

Lemma seq_S_map (a n : nat) : seq a (S n) = a :: map S (seq a n).
Proof. simpl. rewrite seq_shift. reflexivity. Qed.

(* selecting by index and then reading back = filtering the list itself *)
Lemma map_nth_filter_seq {A} (d : A) (p : A -> bool) (l : list A) :
  map (fun i => nth i l d) (filter (fun i => p (nth i l d)) (seq 0 (length l))) = filter p l.
Proof.
  induction l as [|x l IH]; [reflexivity|].
  change (length (x :: l)) with (S (length l)).
  rewrite seq_S_map. cbn [filter nth].
  rewrite filter_map_comm.
  destruct (p x); cbn [map nth]; rewrite map_map; cbn [nth]; rewrite IH; reflexivity.
Qed.

Lemma map_nth_seq {A} (d : A) (l : list A) : map (fun i => nth i l d) (seq 0 (length l)) = l.
Proof.
  induction l as [|x l IH]; [reflexivity|].
  change (length (x :: l)) with (S (length l)).
  rewrite seq_S_map. cbn [map nth]. rewrite map_map. cbn [nth]. rewrite IH. reflexivity.
Qed.

Lemma filter_seq_lt (p : nat -> bool) (a n i : nat) : In i (filter p (seq a n)) -> a <= i < a + n.
Proof. intro H. apply filter_In in H. destruct H as [H _]. apply in_seq in H. exact H. Qed.

Lemma map_ext_in' {A B} (f g : A -> B) (l : list A) :
  (forall x, In x l -> f x = g x) -> map f l = map g l.
Proof. apply map_ext_in. Qed.

(* ------------------------------------------------------------------ select_edges *)
Lemma nE_select L idx : nE (select_edges L idx) = length idx.
Proof. unfold nE, select_edges. simpl. apply map_length. Qed.

Lemma nV_select L idx : nV (select_edges L idx) = nV L.
Proof. reflexivity. Qed.

Lemma edge_at_select L idx i : i < length idx ->
  edge_at (select_edges L idx) i = edge_at L (nth i idx 0).
Proof.
  intro H. unfold edge_at at 1. unfold select_edges. simpl.
  rewrite (nth_indep _ _ (edge_at L 0)) by (rewrite map_length; exact H).
  apply map_nth.
Qed.

Lemma cross_at_select L idx i : i < length idx ->
  cross_at (select_edges L idx) i = cross_at L (nth i idx 0).
Proof.
  intro H. unfold cross_at at 1. unfold select_edges. simpl.
  rewrite (nth_indep _ _ (cross_at L 0)) by (rewrite map_length; exact H).
  apply map_nth.
Qed.

Lemma pos_at_select L idx v : pos_at (select_edges L idx) v = pos_at L v.
Proof. reflexivity. Qed.

Lemma evec_select L idx i : i < length idx ->
  evec (select_edges L idx) i = evec L (nth i idx 0).
Proof.
  intro H. unfold evec. rewrite edge_at_select, cross_at_select by exact H.
  reflexivity.
Qed.

Lemma select_select L I J : (forall j, In j J -> j < length I) ->
  select_edges (select_edges L I) J = select_edges L (map (fun j => nth j I 0) J).
Proof.
  intro H.
  assert (He : map (edge_at (select_edges L I)) J = map (edge_at L) (map (fun j => nth j I 0) J)).
  { rewrite map_map. apply map_ext_in. intros j Hj. apply edge_at_select. auto. }
  assert (Hc : map (cross_at (select_edges L I)) J = map (cross_at L) (map (fun j => nth j I 0) J)).
  { rewrite map_map. apply map_ext_in. intros j Hj. apply cross_at_select. auto. }
  change (select_edges (select_edges L I) J)
    with (mkLattice (scale L) (pos L) (map (edge_at (select_edges L I)) J) (map (cross_at (select_edges L I)) J)).
  rewrite He, Hc. reflexivity.
Qed.

Lemma select_all L : length (crossing L) = nE L -> select_edges L (seq 0 (nE L)) = L.
Proof.
  intro H. destruct L as [s p e c]. unfold select_edges, nE, edge_at, cross_at in *. simpl in *.
  f_equal.
  - apply map_nth_seq.
  - rewrite <- H. apply map_nth_seq.
Qed.

(* ------------------------------------------------------------------ cut_boundaries *)
Lemma cut_cond_spec bx by_ c : Z.eqb (cut_cond bx by_ c) 0 = crosses_selected bx by_ c.
Proof.
  unfold cut_cond, crosses_selected, b2z.
  destruct bx, by_, (Z.eqb (fst c) 0), (Z.eqb (snd c) 0); reflexivity.
Qed.

Definition cut_kept (L : lattice) (bx by_ : bool) : list nat :=
  filter (fun e => negb (crosses_selected bx by_ (cross_at L e))) (seq 0 (nE L)).

Lemma internal_edge_ind_spec L bx by_ : internal_edge_ind L bx by_ = cut_kept L bx by_.
Proof.
  unfold internal_edge_ind, cut_kept. apply filter_ext. intro e. rewrite cut_cond_spec. reflexivity.
Qed.

(* cut_spec: positions and scale untouched; the edges are the input's edges that do not cross a
   selected boundary, in the input's order, each with its own crossing *)
Lemma cut_spec_idx L bx by_ :
  scale (cut_boundaries L bx by_) = scale L /\
  pos (cut_boundaries L bx by_) = pos L /\
  edges (cut_boundaries L bx by_) = map (edge_at L) (cut_kept L bx by_) /\
  crossing (cut_boundaries L bx by_) = map (cross_at L) (cut_kept L bx by_).
Proof.
  unfold cut_boundaries. rewrite internal_edge_ind_spec. repeat split; reflexivity.
Qed.

(* the same without indices: filter the (edge, crossing) rows themselves *)
Lemma cut_spec_rows L bx by_ : length (crossing L) = nE L ->
  combine (edges (cut_boundaries L bx by_)) (crossing (cut_boundaries L bx by_)) =
  filter (fun ec : (nat * nat) * vec => negb (crosses_selected bx by_ (snd ec))) (combine (edges L) (crossing L)).
Proof.
  intro Hlen.
  destruct (cut_spec_idx L bx by_) as (_ & _ & He & Hc). rewrite He, Hc. clear He Hc.
  set (rows := combine (edges L) (crossing L)).
  assert (Hrl : length rows = nE L).
  { unfold rows. rewrite combine_length. unfold nE in *. lia. }
  assert (Hrow : forall e, e < nE L -> nth e rows ((0, 0), vzero) = (edge_at L e, cross_at L e)).
  { intros e He. unfold rows. rewrite combine_nth by (unfold nE in *; lia). reflexivity. }
  rewrite <- (map_nth_filter_seq ((0, 0), vzero) (fun ec => negb (crosses_selected bx by_ (snd ec))) rows).
  rewrite Hrl.
  assert (Hf : filter (fun i => negb (crosses_selected bx by_ (snd (nth i rows ((0, 0), vzero))))) (seq 0 (nE L))
               = cut_kept L bx by_).
  { unfold cut_kept. apply filter_ext_in. intros e He. apply in_seq in He.
    rewrite Hrow by lia. reflexivity. }
  rewrite Hf.
  assert (Hm : map (fun i => nth i rows ((0, 0), vzero)) (cut_kept L bx by_)
               = map (fun e => (edge_at L e, cross_at L e)) (cut_kept L bx by_)).
  { apply map_ext_in. intros e He. apply filter_seq_lt in He. apply Hrow. lia. }
  rewrite Hm. clear.
  induction (cut_kept L bx by_) as [|e l IH]; simpl; [reflexivity | rewrite IH; reflexivity].
Qed.

Lemma cut_kept_select L I bx by_ :
  map (fun j => nth j I 0) (cut_kept (select_edges L I) bx by_)
  = filter (fun e => negb (crosses_selected bx by_ (cross_at L e))) I.
Proof.
  unfold cut_kept. rewrite nE_select.
  rewrite <- (map_nth_filter_seq 0 (fun e => negb (crosses_selected bx by_ (cross_at L e))) I).
  f_equal. apply filter_ext_in. intros i Hi. apply in_seq in Hi.
  rewrite cross_at_select by lia. reflexivity.
Qed.

(* cut after cut = cut of the union of the selections (any lattice, no hypothesis) *)
Lemma cut_cut L bx by_ bx' by' :
  cut_boundaries (cut_boundaries L bx by_) bx' by' = cut_boundaries L (bx || bx') (by_ || by').
Proof.
  unfold cut_boundaries. rewrite !internal_edge_ind_spec.
  rewrite select_select.
  2:{ intros j Hj. apply filter_seq_lt in Hj. rewrite nE_select in Hj. lia. }
  rewrite cut_kept_select. unfold cut_kept at 1. rewrite filter_filter.
  f_equal. unfold cut_kept. apply filter_ext. intro e.
  unfold crosses_selected.
  destruct bx, by_, bx', by', (Z.eqb (fst (cross_at L e)) 0), (Z.eqb (snd (cross_at L e)) 0); reflexivity.
Qed.

Lemma cut_idempotent L bx by_ :
  cut_boundaries (cut_boundaries L bx by_) bx by_ = cut_boundaries L bx by_.
Proof. rewrite cut_cut. rewrite !orb_diag. reflexivity. Qed.

Lemma cut_nothing L : length (crossing L) = nE L -> cut_boundaries L false false = L.
Proof.
  intro H. unfold cut_boundaries. rewrite internal_edge_ind_spec.
  unfold cut_kept.
  rewrite (filter_ext _ (fun _ => true)) by (intro; reflexivity).
  assert (Hf : forall l : list nat, filter (fun _ => true) l = l).
  { induction l as [|x l IH]; simpl; [reflexivity | rewrite IH; reflexivity]. }
  rewrite Hf. apply select_all. exact H.
Qed.

(* an edge survives iff it does not cross a selected boundary; survivors keep their vectors *)
Lemma cut_kept_In L bx by_ e :
  In e (cut_kept L bx by_) <-> e < nE L /\ crosses_selected bx by_ (cross_at L e) = false.
Proof.
  unfold cut_kept. rewrite filter_In, in_seq, negb_true_iff. lia.
Qed.

Lemma cut_evec L bx by_ i : i < nE (cut_boundaries L bx by_) ->
  evec (cut_boundaries L bx by_) i = evec L (nth i (cut_kept L bx by_) 0).
Proof.
  unfold cut_boundaries. rewrite internal_edge_ind_spec, nE_select. apply evec_select.
Qed.

(* ================================================================== remove_vertices *)
Lemma filter_length_compl {A} (p : A -> bool) (l : list A) :
  length (filter p l) + length (filter (fun x => negb (p x)) l) = length l.
Proof.
  induction l as [|x l IH]; simpl; [reflexivity|].
  destruct (p x); simpl; lia.
Qed.

Lemma memb_In v l : memb v l = true <-> In v l.
Proof.
  unfold memb. rewrite existsb_exists. split.
  - intros (x & Hx & E). apply Nat.eqb_eq in E. subst. exact Hx.
  - intro H. exists v. split; [exact H | apply Nat.eqb_refl].
Qed.

(* ---- new_index: closed form ---- *)
Section NewIndex.
  Variable rem : nat -> bool.

  Definition ni_gen (a : nat) (acc : Z) (len : nat) : list Z :=
    let sfr := map rem (seq a len) in
    map (fun vs : nat * (bool * Z) =>
           let '(v, (removed, s)) := vs in if removed then (-1)%Z else (Z.of_nat v - s)%Z)
        (combine (seq a len) (combine sfr (cumsum_b acc sfr))).

  Lemma ni_gen_nth len : forall a acc i, i < len ->
    nth i (ni_gen a acc len) (-1)%Z =
    if rem (a + i) then (-1)%Z
    else (Z.of_nat (a + i) - acc - Z.of_nat (length (filter rem (seq a (S i)))))%Z.
  Proof.
    induction len as [|len IH]; intros a acc i Hi; [lia|].
    unfold ni_gen. cbn [seq map cumsum_b combine].
    destruct i as [|i].
    - cbn [nth]. rewrite Nat.add_0_r. cbn [seq filter].
      destruct (rem a) eqn:Ha; [reflexivity|]. cbn [b2z length]. lia.
    - cbn [nth]. fold (ni_gen (S a) (acc + b2z (rem a))%Z len).
      rewrite IH by lia.
      replace (S a + i) with (a + S i) by lia.
      destruct (rem (a + S i)); [reflexivity|].
      change (seq a (S (S i))) with (a :: seq (S a) (S i)). cbn [filter].
      destruct (rem a); cbn [b2z length]; lia.
  Qed.

  Lemma ni_gen_length a acc len : length (ni_gen a acc len) = len.
  Proof.
    unfold ni_gen. rewrite map_length, combine_length, seq_length, combine_length, map_length, seq_length.
    assert (H : forall l acc0, length (cumsum_b acc0 l) = length l).
    { induction l as [|b l IHl]; intro acc0; simpl; [reflexivity | rewrite IHl; reflexivity]. }
    rewrite H, map_length, seq_length. lia.
  Qed.

  Definition rankf (v : nat) : nat := length (filter (fun u => negb (rem u)) (seq 0 v)).

  Lemma ni_closed n v : v < n ->
    nth v (ni_gen 0 0 n) (-1)%Z = if rem v then (-1)%Z else Z.of_nat (rankf v).
  Proof.
    intro Hv. rewrite ni_gen_nth by exact Hv. cbn [Nat.add].
    destruct (rem v) eqn:Hr; [reflexivity|].
    rewrite seq_S, filter_app. cbn [Nat.add filter]. rewrite Hr. rewrite app_nil_r.
    unfold rankf. pose proof (filter_length_compl rem (seq 0 v)) as H. rewrite seq_length in H. lia.
  Qed.
End NewIndex.

Lemma new_index_eq n idx : new_index n idx = ni_gen (fun v => memb v idx) 0 0 n.
Proof. reflexivity. Qed.

(* ---- np.delete and boolean-mask selection as index selections ---- *)
Lemma np_delete_aux {A} (d : A) (q : nat -> bool) (l : list A) : forall a,
  map snd (filter (fun ix : nat * A => q (fst ix)) (combine (seq a (length l)) l))
  = map (fun i => nth (i - a) l d) (filter q (seq a (length l))).
Proof.
  induction l as [|x l IH]; intro a; [reflexivity|].
  cbn [length seq combine filter fst].
  assert (Hshift : map (fun i => nth (i - a) (x :: l) d) (filter q (seq (S a) (length l)))
                   = map (fun i => nth (i - S a) l d) (filter q (seq (S a) (length l)))).
  { apply map_ext_in. intros i Hi. apply filter_seq_lt in Hi.
    replace (i - a) with (S (i - S a)) by lia. reflexivity. }
  destruct (q a).
  - cbn [map snd]. rewrite IH, Nat.sub_diag, Hshift. reflexivity.
  - rewrite IH, Hshift. reflexivity.
Qed.

Lemma np_delete_spec {A} (d : A) (l : list A) (rows : list nat) :
  np_delete l rows = map (fun i => nth i l d) (filter (fun i => negb (memb i rows)) (seq 0 (length l))).
Proof.
  unfold np_delete. rewrite (np_delete_aux d (fun i => negb (memb i rows)) l 0).
  apply map_ext. intro i. rewrite Nat.sub_0_r. reflexivity.
Qed.

Lemma mask_select_aux {A} (d : A) (rem : nat -> bool) (l : list A) : forall a,
  mask_select l (map rem (seq a (length l)))
  = map (fun i => nth (i - a) l d) (filter (fun i => negb (rem i)) (seq a (length l))).
Proof.
  unfold mask_select.
  induction l as [|x l IH]; intro a; [reflexivity|].
  cbn [length seq map combine filter fst].
  assert (Hshift : map (fun i => nth (i - a) (x :: l) d) (filter (fun i => negb (rem i)) (seq (S a) (length l)))
                   = map (fun i => nth (i - S a) l d) (filter (fun i => negb (rem i)) (seq (S a) (length l)))).
  { apply map_ext_in. intros i Hi. apply filter_seq_lt in Hi.
    replace (i - a) with (S (i - S a)) by lia. reflexivity. }
  destruct (rem a); cbn [negb].
  - rewrite IH, Hshift. reflexivity.
  - cbn [map snd]. rewrite IH, Nat.sub_diag, Hshift. reflexivity.
Qed.

Lemma mask_select_spec {A} (d : A) (rem : nat -> bool) (l : list A) :
  mask_select l (map rem (seq 0 (length l)))
  = map (fun i => nth i l d) (filter (fun i => negb (rem i)) (seq 0 (length l))).
Proof.
  rewrite (mask_select_aux d rem l 0). apply map_ext. intro i. rewrite Nat.sub_0_r. reflexivity.
Qed.

(* ---- rank in a filtered range = number of kept predecessors ---- *)
Lemma rank_filter_seq (keep : nat -> bool) n : forall a v, a <= v < a + n -> keep v = true ->
  rank (filter keep (seq a n)) v = length (filter keep (seq a (v - a))).
Proof.
  induction n as [|n IH]; intros a v Hv Hk; [lia|].
  cbn [seq filter].
  destruct (Nat.eq_dec a v) as [->|Hne].
  - rewrite Hk. cbn [rank]. rewrite Nat.eqb_refl, Nat.sub_diag. reflexivity.
  - replace (v - a) with (S (v - S a)) by lia. cbn [seq filter].
    destruct (keep a) eqn:Ha.
    + cbn [rank length]. destruct (Nat.eqb_spec a v) as [E|_]; [contradiction|].
      rewrite IH by (try lia; exact Hk). reflexivity.
    + apply IH; [lia | exact Hk].
Qed.

(* wf facts *)
Lemma wf_parts L : wf_lattice L = true ->
  (0 < scale L)%Z /\ length (crossing L) = nE L /\ Forall (fun e => fst e < nV L /\ snd e < nV L) (edges L).
Proof.
  unfold wf_lattice. rewrite !andb_true_iff. intros [[Hs Hc] He].
  split; [lia|]. split; [apply Nat.eqb_eq; exact Hc|].
  rewrite forallb_forall in He. apply Forall_forall. intros e Hin. specialize (He e Hin).
  unfold wf_edge in He. lia.
Qed.

Lemma wf_edge_at L e : wf_lattice L = true -> e < nE L ->
  fst (edge_at L e) < nV L /\ snd (edge_at L e) < nV L.
Proof.
  intros Hwf He. destruct (wf_parts L Hwf) as (_ & _ & HF).
  rewrite Forall_forall in HF. apply HF. unfold edge_at. apply nth_In. exact He.
Qed.

Definition keepf (idx : list nat) (v : nat) : bool := negb (memb v idx).

Lemma kept_vertices_eq L idx : kept_vertices L idx = filter (keepf idx) (seq 0 (nV L)).
Proof. reflexivity. Qed.
Lemma kept_edges_eq L idx : kept_edges L idx = filter (both_ends L (keepf idx)) (seq 0 (nE L)).
Proof. reflexivity. Qed.

Lemma new_adjacency_nth L idx e : e < nE L ->
  nth e (new_adjacency L idx) ((-1)%Z, (-1)%Z)
  = (nth (fst (edge_at L e)) (new_index (nV L) idx) (-1)%Z, nth (snd (edge_at L e)) (new_index (nV L) idx) (-1)%Z).
Proof.
  intro He. unfold new_adjacency.
  set (f := fun e0 : nat * nat => (nth (fst e0) (new_index (nV L) idx) (-1)%Z, nth (snd e0) (new_index (nV L) idx) (-1)%Z)).
  rewrite (nth_indep _ _ (f (0, 0))) by (rewrite map_length; exact He).
  rewrite map_nth. reflexivity.
Qed.

Lemma new_adjacency_length L idx : length (new_adjacency L idx) = nE L.
Proof. unfold new_adjacency. apply map_length. Qed.

Lemma ni_value L idx v : v < nV L ->
  nth v (new_index (nV L) idx) (-1)%Z = if memb v idx then (-1)%Z else Z.of_nat (rankf (fun u => memb u idx) v).
Proof. intro Hv. rewrite new_index_eq. apply ni_closed. exact Hv. Qed.

(* membership in edges_to_remove *)
Lemma edges_to_remove_In_gen (rows : list (Z * Z)) : forall a e,
  In e (flat_map (fun er : nat * (Z * Z) =>
              let '(e0, (x, y)) := er in
              (if Z.eqb x (-1) then [e0] else []) ++ (if Z.eqb y (-1) then [e0] else []))
           (combine (seq a (length rows)) rows))
  <-> a <= e < a + length rows /\
      (fst (nth (e - a) rows (0%Z, 0%Z)) = (-1)%Z \/ snd (nth (e - a) rows (0%Z, 0%Z)) = (-1)%Z).
Proof.
  induction rows as [|[x y] rows IH]; intros a e.
  - simpl. split; [intros [] | intros [H _]; lia].
  - cbn [length seq combine flat_map]. rewrite in_app_iff, IH.
    split.
    + intros [H | (Hr & Hv)].
      * assert (e = a /\ (x = (-1)%Z \/ y = (-1)%Z)) as [-> Hxy].
        { apply in_app_or in H. destruct H as [H|H].
          - destruct (Z.eqb_spec x (-1)); [|destruct H]. destruct H as [<-|[]]. auto.
          - destruct (Z.eqb_spec y (-1)); [|destruct H]. destruct H as [<-|[]]. auto. }
        split; [lia|]. rewrite Nat.sub_diag. exact Hxy.
      * split; [lia|]. replace (e - a) with (S (e - S a)) by lia. exact Hv.
    + intros (Hr & Hv).
      destruct (Nat.eq_dec e a) as [->|Hne].
      * left. rewrite Nat.sub_diag in Hv. cbn [nth fst snd] in Hv. apply in_or_app.
        destruct Hv as [-> | ->]; [left | right]; simpl; auto.
      * right. split; [lia|]. replace (e - a) with (S (e - S a)) in Hv by lia. exact Hv.
Qed.

Lemma edges_to_remove_In L idx e : wf_lattice L = true ->
  In e (edges_to_remove L idx) <-> e < nE L /\ both_ends L (keepf idx) e = false.
Proof.
  intro Hwf. unfold edges_to_remove.
  rewrite <- (new_adjacency_length L idx) at 1.
  rewrite edges_to_remove_In_gen, new_adjacency_length, Nat.sub_0_r.
  split.
  - intros ((_ & He) & Hv). split; [lia|].
    rewrite (nth_indep _ _ ((-1)%Z, (-1)%Z)) in Hv by (rewrite new_adjacency_length; lia).
    rewrite new_adjacency_nth in Hv by lia. cbn [fst snd] in Hv.
    destruct (wf_edge_at L e Hwf) as [Hj Hk]; [lia|].
    rewrite !ni_value in Hv by assumption.
    unfold both_ends, keepf.
    destruct (memb (fst (edge_at L e)) idx); [reflexivity|].
    destruct (memb (snd (edge_at L e)) idx); [reflexivity|].
    destruct Hv as [Hv|Hv]; lia.
  - intros (He & Hb). split; [lia|].
    rewrite (nth_indep _ _ ((-1)%Z, (-1)%Z)) by (rewrite new_adjacency_length; lia).
    rewrite new_adjacency_nth by lia. cbn [fst snd].
    destruct (wf_edge_at L e Hwf He) as [Hj Hk].
    rewrite !ni_value by assumption.
    unfold both_ends, keepf in Hb.
    destruct (memb (fst (edge_at L e)) idx); [left; reflexivity|].
    destruct (memb (snd (edge_at L e)) idx); [right; reflexivity|].
    discriminate Hb.
Qed.

Lemma kept_edges_filter L idx : wf_lattice L = true ->
  filter (fun i => negb (memb i (edges_to_remove L idx))) (seq 0 (nE L)) = kept_edges L idx.
Proof.
  intro Hwf. rewrite kept_edges_eq. apply filter_ext_in. intros e He. apply in_seq in He.
  destruct (both_ends L (keepf idx) e) eqn:Hb.
  - apply negb_true_iff. destruct (memb e (edges_to_remove L idx)) eqn:Hm; [|reflexivity].
    apply memb_In in Hm. apply (edges_to_remove_In L idx e Hwf) in Hm. destruct Hm as [_ Hm]. congruence.
  - apply negb_false_iff. apply memb_In. apply (edges_to_remove_In L idx e Hwf). split; [lia | exact Hb].
Qed.

Lemma rank_kept_vertices L idx v : v < nV L -> keepf idx v = true ->
  rank (kept_vertices L idx) v = rankf (fun u => memb u idx) v.
Proof.
  intros Hv Hk. rewrite kept_vertices_eq, rank_filter_seq by (try lia; exact Hk).
  rewrite Nat.sub_0_r. reflexivity.
Qed.

(* remove_vertices_spec: the result is exactly the sub-lattice on the kept vertices (ascending) and the
   edges with both ends kept (ascending), renumbered by rank, with positions and crossings carried over;
   the reported edges are, as a set, exactly the other edges. *)
Lemma remove_vertices_spec L idx : wf_lattice L = true -> Forall (fun i => i < nV L) idx ->
  exists rep,
    remove_vertices L idx = Some (sub_lattice L (kept_vertices L idx) (kept_edges L idx), rep) /\
    (forall e, In e rep <-> e < nE L /\ both_ends L (keepf idx) e = false).
Proof.
  intros Hwf Hidx. exists (edges_to_remove L idx). split; [|intro e; apply edges_to_remove_In; exact Hwf].
  unfold remove_vertices.
  assert (Hall : forallb (fun i => i <? nV L) idx = true).
  { apply forallb_forall. intros i Hi. rewrite Forall_forall in Hidx. apply Nat.ltb_lt. auto. }
  rewrite Hall. f_equal. f_equal.
  destruct (wf_parts L Hwf) as (_ & Hc & _).
  unfold sub_lattice. f_equal.
  - (* positions *)
    unfold set_for_removal, nV. rewrite (mask_select_spec vzero). reflexivity.
  - (* edges *)
    rewrite (np_delete_spec ((-1)%Z, (-1)%Z)), new_adjacency_length, kept_edges_filter by exact Hwf.
    rewrite map_map. apply map_ext_in. intros e He.
    rewrite kept_edges_eq in He. apply filter_In in He. destruct He as [He Hb]. apply in_seq in He.
    rewrite new_adjacency_nth by lia. cbn [fst snd].
    destruct (wf_edge_at L e Hwf) as [Hj Hk]; [lia|].
    unfold both_ends in Hb. apply andb_true_iff in Hb. destruct Hb as [Hbj Hbk].
    rewrite !ni_value by assumption.
    pose proof Hbj as Hbj'. pose proof Hbk as Hbk'. unfold keepf in Hbj', Hbk'.
    apply negb_true_iff in Hbj'. apply negb_true_iff in Hbk'. rewrite Hbj', Hbk'.
    rewrite !Nat2Z.id, !rank_kept_vertices by assumption. reflexivity.
  - (* crossing *)
    rewrite (np_delete_spec vzero), Hc, kept_edges_filter by exact Hwf. reflexivity.
Qed.
