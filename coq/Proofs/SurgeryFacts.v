(* Proofs/SurgeryFacts.v — lemmas about Model/Surgery.v: general list facts, cut_boundaries,
   remove_vertices.  (C12) *)
From Coq Require Import List ZArith Bool Arith Lia ZifyBool Permutation Sorted.
From Koala Require Import Model.Lattice Model.Surgery.
Import ListNotations.
Open Scope nat_scope.

(* ------------------------------------------------------------------ general list facts *)
Lemma filter_map_comm {A B} (f : A -> B) (p : B -> bool) (l : list A) :
  filter p (map f l) = map f (filter (fun x => p (f x)) l).
Proof.
  induction l as [|x l IH]; simpl; [reflexivity|].
  destruct (p (f x)); simpl; rewrite IH; reflexivity.
Qed.

Lemma filter_filter {A} (p q : A -> bool) (l : list A) :
  filter q (filter p l) = filter (fun x => p x && q x) l.
Proof.
  induction l as [|x l IH]; simpl; [reflexivity|].
  destruct (p x); simpl; [destruct (q x); simpl; rewrite IH; reflexivity | exact IH].
Qed.

Lemma seq_S_map (a n : nat) : seq a (S n) = a :: map S (seq a n).
Proof. simpl. rewrite seq_shift. reflexivity. Qed.

(* selecting by index and then reading back = filtering the list itself *)
Lemma map_nth_filter_seq {A} (d : A) (p : A -> bool) (l : list A) :
  map (fun i => nth i l d) (filter (fun i => p (nth i l d)) (seq 0 (length l))) = filter p l.
Proof.
  induction l as [|x l IH]; [reflexivity|].
  change (length (x :: l)) with (S (length l)).
  rewrite seq_S_map. cbn [filter nth].
  rewrite filter_map_comm.
  destruct (p x); cbn [map nth]; rewrite map_map; cbn [nth]; rewrite IH; reflexivity.
Qed.

Lemma map_nth_seq {A} (d : A) (l : list A) : map (fun i => nth i l d) (seq 0 (length l)) = l.
Proof.
  induction l as [|x l IH]; [reflexivity|].
  change (length (x :: l)) with (S (length l)).
  rewrite seq_S_map. cbn [map nth]. rewrite map_map. cbn [nth]. rewrite IH. reflexivity.
Qed.

Lemma filter_seq_lt (p : nat -> bool) (a n i : nat) : In i (filter p (seq a n)) -> a <= i < a + n.
Proof. intro H. apply filter_In in H. destruct H as [H _]. apply in_seq in H. exact H. Qed.

Lemma map_ext_in' {A B} (f g : A -> B) (l : list A) :
  (forall x, In x l -> f x = g x) -> map f l = map g l.
Proof. apply map_ext_in. Qed.

(* ------------------------------------------------------------------ select_edges *)
Lemma nE_select L idx : nE (select_edges L idx) = length idx.
Proof. unfold nE, select_edges. simpl. apply map_length. Qed.

Lemma nV_select L idx : nV (select_edges L idx) = nV L.
Proof. reflexivity. Qed.

Lemma edge_at_select L idx i : i < length idx ->
  edge_at (select_edges L idx) i = edge_at L (nth i idx 0).
Proof.
  intro H. unfold edge_at at 1. unfold select_edges. simpl.
  rewrite (nth_indep _ _ (edge_at L 0)) by (rewrite map_length; exact H).
  apply map_nth.
Qed.

Lemma cross_at_select L idx i : i < length idx ->
  cross_at (select_edges L idx) i = cross_at L (nth i idx 0).
Proof.
  intro H. unfold cross_at at 1. unfold select_edges. simpl.
  rewrite (nth_indep _ _ (cross_at L 0)) by (rewrite map_length; exact H).
  apply map_nth.
Qed.

Lemma pos_at_select L idx v : pos_at (select_edges L idx) v = pos_at L v.
Proof. reflexivity. Qed.

Lemma evec_select L idx i : i < length idx ->
  evec (select_edges L idx) i = evec L (nth i idx 0).
Proof.
  intro H. unfold evec. rewrite edge_at_select, cross_at_select by exact H.
  reflexivity.
Qed.

Lemma select_select L I J : (forall j, In j J -> j < length I) ->
  select_edges (select_edges L I) J = select_edges L (map (fun j => nth j I 0) J).
Proof.
  intro H.
  assert (He : map (edge_at (select_edges L I)) J = map (edge_at L) (map (fun j => nth j I 0) J)).
  { rewrite map_map. apply map_ext_in. intros j Hj. apply edge_at_select. auto. }
  assert (Hc : map (cross_at (select_edges L I)) J = map (cross_at L) (map (fun j => nth j I 0) J)).
  { rewrite map_map. apply map_ext_in. intros j Hj. apply cross_at_select. auto. }
  change (select_edges (select_edges L I) J)
    with (mkLattice (scale L) (pos L) (map (edge_at (select_edges L I)) J) (map (cross_at (select_edges L I)) J)).
  rewrite He, Hc. reflexivity.
Qed.

Lemma select_all L : length (crossing L) = nE L -> select_edges L (seq 0 (nE L)) = L.
Proof.
  intro H. destruct L as [s p e c]. unfold select_edges, nE, edge_at, cross_at in *. simpl in *.
  f_equal.
  - apply map_nth_seq.
  - rewrite <- H. apply map_nth_seq.
Qed.

(* ------------------------------------------------------------------ cut_boundaries *)
Lemma cut_cond_spec bx by_ c : Z.eqb (cut_cond bx by_ c) 0 = crosses_selected bx by_ c.
Proof.
  unfold cut_cond, crosses_selected, b2z.
  destruct bx, by_, (Z.eqb (fst c) 0), (Z.eqb (snd c) 0); reflexivity.
Qed.

Definition cut_kept (L : lattice) (bx by_ : bool) : list nat :=
  filter (fun e => negb (crosses_selected bx by_ (cross_at L e))) (seq 0 (nE L)).

Lemma internal_edge_ind_spec L bx by_ : internal_edge_ind L bx by_ = cut_kept L bx by_.
Proof.
  unfold internal_edge_ind, cut_kept. apply filter_ext. intro e. rewrite cut_cond_spec. reflexivity.
Qed.

(* cut_spec: positions and scale untouched; the edges are the input's edges that do not cross a
   selected boundary, in the input's order, each with its own crossing *)
Lemma cut_spec_idx L bx by_ :
  scale (cut_boundaries L bx by_) = scale L /\
  pos (cut_boundaries L bx by_) = pos L /\
  edges (cut_boundaries L bx by_) = map (edge_at L) (cut_kept L bx by_) /\
  crossing (cut_boundaries L bx by_) = map (cross_at L) (cut_kept L bx by_).
Proof.
  unfold cut_boundaries. rewrite internal_edge_ind_spec. repeat split; reflexivity.
Qed.

(* the same without indices: filter the (edge, crossing) rows themselves *)
Lemma cut_spec_rows L bx by_ : length (crossing L) = nE L ->
  combine (edges (cut_boundaries L bx by_)) (crossing (cut_boundaries L bx by_)) =
  filter (fun ec : (nat * nat) * vec => negb (crosses_selected bx by_ (snd ec))) (combine (edges L) (crossing L)).
Proof.
  intro Hlen.
  destruct (cut_spec_idx L bx by_) as (_ & _ & He & Hc). rewrite He, Hc. clear He Hc.
  set (rows := combine (edges L) (crossing L)).
  assert (Hrl : length rows = nE L).
  { unfold rows. rewrite combine_length. unfold nE in *. lia. }
  assert (Hrow : forall e, e < nE L -> nth e rows ((0, 0), vzero) = (edge_at L e, cross_at L e)).
  { intros e He. unfold rows. rewrite combine_nth by (unfold nE in *; lia). reflexivity. }
  rewrite <- (map_nth_filter_seq ((0, 0), vzero) (fun ec => negb (crosses_selected bx by_ (snd ec))) rows).
  rewrite Hrl.
  assert (Hf : filter (fun i => negb (crosses_selected bx by_ (snd (nth i rows ((0, 0), vzero))))) (seq 0 (nE L))
               = cut_kept L bx by_).
  { unfold cut_kept. apply filter_ext_in. intros e He. apply in_seq in He.
    rewrite Hrow by lia. reflexivity. }
  rewrite Hf.
  assert (Hm : map (fun i => nth i rows ((0, 0), vzero)) (cut_kept L bx by_)
               = map (fun e => (edge_at L e, cross_at L e)) (cut_kept L bx by_)).
  { apply map_ext_in. intros e He. apply filter_seq_lt in He. apply Hrow. lia. }
  rewrite Hm. clear.
  induction (cut_kept L bx by_) as [|e l IH]; simpl; [reflexivity | rewrite IH; reflexivity].
Qed.

Lemma cut_kept_select L I bx by_ :
  map (fun j => nth j I 0) (cut_kept (select_edges L I) bx by_)
  = filter (fun e => negb (crosses_selected bx by_ (cross_at L e))) I.
Proof.
  unfold cut_kept. rewrite nE_select.
  rewrite <- (map_nth_filter_seq 0 (fun e => negb (crosses_selected bx by_ (cross_at L e))) I).
  f_equal. apply filter_ext_in. intros i Hi. apply in_seq in Hi.
  rewrite cross_at_select by lia. reflexivity.
Qed.

(* cut after cut = cut of the union of the selections (any lattice, no hypothesis) *)
Lemma cut_cut L bx by_ bx' by' :
  cut_boundaries (cut_boundaries L bx by_) bx' by' = cut_boundaries L (bx || bx') (by_ || by').
Proof.
  unfold cut_boundaries. rewrite !internal_edge_ind_spec.
  rewrite select_select.
  2:{ intros j Hj. apply filter_seq_lt in Hj. rewrite nE_select in Hj. lia. }
  rewrite cut_kept_select. unfold cut_kept at 1. rewrite filter_filter.
  f_equal. unfold cut_kept. apply filter_ext. intro e.
  unfold crosses_selected.
  destruct bx, by_, bx', by', (Z.eqb (fst (cross_at L e)) 0), (Z.eqb (snd (cross_at L e)) 0); reflexivity.
Qed.

Lemma cut_idempotent L bx by_ :
  cut_boundaries (cut_boundaries L bx by_) bx by_ = cut_boundaries L bx by_.
Proof. rewrite cut_cut. rewrite !orb_diag. reflexivity. Qed.

Lemma cut_nothing L : length (crossing L) = nE L -> cut_boundaries L false false = L.
Proof.
  intro H. unfold cut_boundaries. rewrite internal_edge_ind_spec.
  unfold cut_kept.
  rewrite (filter_ext _ (fun _ => true)) by (intro; reflexivity).
  assert (Hf : forall l : list nat, filter (fun _ => true) l = l).
  { induction l as [|x l IH]; simpl; [reflexivity | rewrite IH; reflexivity]. }
  rewrite Hf. apply select_all. exact H.
Qed.

(* an edge survives iff it does not cross a selected boundary; survivors keep their vectors *)
Lemma cut_kept_In L bx by_ e :
  In e (cut_kept L bx by_) <-> e < nE L /\ crosses_selected bx by_ (cross_at L e) = false.
Proof.
  unfold cut_kept. rewrite filter_In, in_seq, negb_true_iff. lia.
Qed.

Lemma cut_evec L bx by_ i : i < nE (cut_boundaries L bx by_) ->
  evec (cut_boundaries L bx by_) i = evec L (nth i (cut_kept L bx by_) 0).
Proof.
  unfold cut_boundaries. rewrite internal_edge_ind_spec, nE_select. apply evec_select.
Qed.
