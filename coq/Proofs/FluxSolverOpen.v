(* Proofs/FluxSolverOpen.v — C06 on lattices with a boundary: which sectors are reachable.
   An edge with exactly one plaquette (INVALID on the other side) flips that plaquette alone, so a single leftover
   defect can be pushed out through the boundary: on a connected plaquette graph with at least one boundary edge
   EVERY flux pattern is realised by some bond configuration (no parity obstruction), although koala's solver, whose
   paths only use two-sided edges, stops one plaquette short when the number of defects is odd.
   fs_complete_open (Model/FluxSolverLattice.v) is the witness: solver output + one boundary chain. *)
From Coq Require Import List ZArith Bool Arith Lia.
From Koala Require Import Model.Lattice Model.AStar Model.Flux Model.SpanTree Model.FluxSolver Model.FluxSolverLattice.
From Koala Require Import Proofs.LatticeFacts Proofs.FluxFacts Proofs.SpanTreeFacts Proofs.SpanTreeComplete
  Proofs.SpanTreeLattice Proofs.ChainFlipFacts Proofs.FluxSolverFacts Proofs.GreedyPairingFacts
  Proofs.PlaqTablesFacts Proofs.FluxLattice Proofs.FluxSolverLatticeFacts.
Import ListNotations.
Local Open Scope nat_scope.

(* ------------------------------------------------------------------ first differing index *)
Lemma ndiff_cons_eq : forall x a b, ndiff (x :: a) (x :: b) = ndiff a b.
Proof. intros. unfold ndiff, fs_count. simpl. rewrite Z.sub_diag. reflexivity. Qed.
Lemma ndiff_cons_neq : forall x y a b, x <> y -> ndiff (x :: a) (y :: b) = S (ndiff a b).
Proof.
  intros x y a b H. unfold ndiff, fs_count. simpl.
  assert (E : fs_nonzero (x - y) = true) by (unfold fs_nonzero; apply negb_true_iff; apply Z.eqb_neq; lia).
  rewrite E. reflexivity.
Qed.

Lemma fs_first_diff_none : forall a b k, length a = length b -> fs_first_diff_from k a b = None -> a = b.
Proof.
  induction a as [|x a IH]; intros [|y b] k Hl H; simpl in *; try discriminate; [reflexivity|].
  destruct (Z.eqb_spec x y) as [->|Hne]; [|discriminate]. f_equal. apply (IH b (S k)); [lia|exact H].
Qed.

Lemma fs_first_diff_some : forall a b k r, length a = length b -> fs_first_diff_from k a b = Some r ->
  ndiff a b <= 1 ->
  exists i, r = k + i /\ i < length a /\ fs_at a i <> fs_at b i /\ forall j, j <> i -> fs_at a j = fs_at b j.
Proof.
  induction a as [|x a IH]; intros [|y b] k r Hl H Hn; simpl in *; try discriminate.
  destruct (Z.eqb_spec x y) as [->|Hne].
  - rewrite ndiff_cons_eq in Hn. destruct (IH b (S k) r ltac:(lia) H Hn) as (i & -> & Hi & Hd & Ho).
    exists (S i). split; [lia|]. split; [lia|]. split; [exact Hd|].
    intros [|j] Hj; [reflexivity|]. apply (Ho j). lia.
  - injection H as <-. rewrite (ndiff_cons_neq x y a b Hne) in Hn.
    assert (E : a = b) by (apply ndiff_zero_eq; lia). subst b.
    exists 0. split; [lia|]. split; [lia|]. split; [exact Hne|].
    intros [|j] Hj; [contradiction|reflexivity].
Qed.

(* ------------------------------------------------------------------ boundary edges *)
Lemma fs_find_boundary_from_spec : forall ep k e0 q0, fs_find_boundary_from k ep = Some (e0, q0) ->
  exists i, e0 = k + i /\ (nth_error ep i = Some (Some q0, None) \/ nth_error ep i = Some (None, Some q0)).
Proof.
  induction ep as [|[[a|] [b|]] ep IH]; intros k e0 q0 H; simpl in H; try discriminate.
  - destruct (IH (S k) e0 q0 H) as (i & -> & Hi). exists (S i). split; [lia|exact Hi].
  - injection H as <- <-. exists 0. split; [lia|]. now left.
  - injection H as <- <-. exists 0. split; [lia|]. now right.
  - destruct (IH (S k) e0 q0 H) as (i & -> & Hi). exists (S i). split; [lia|exact Hi].
Qed.

Lemma fs_find_boundary_from_complete : forall ep k e q, fs_boundary_of ep e = Some q ->
  exists e0 q0, fs_find_boundary_from k ep = Some (e0, q0).
Proof.
  unfold fs_boundary_of. induction ep as [|[[a|] [b|]] ep IH]; intros k e q H.
  - destruct e; discriminate.
  - destruct e as [|e]; [discriminate|]. simpl in H. simpl. apply (IH (S k) e q H).
  - simpl. eauto.
  - simpl. eauto.
  - destruct e as [|e]; [discriminate|]. simpl in H. simpl. apply (IH (S k) e q H).
Qed.

Lemma fs_boundary_sides : forall ep e0 q0 q,
  (nth_error ep e0 = Some (Some q0, None) \/ nth_error ep e0 = Some (None, Some q0)) ->
  fs_sides ep e0 q = fs_b2n (q0 =? q).
Proof. intros ep e0 q0 q [H|H]; unfold fs_sides; rewrite H; simpl; lia. Qed.

Lemma fs_wf_boundary_range : forall P ep e0 q0, fs_wf P ep = true ->
  (nth_error ep e0 = Some (Some q0, None) \/ nth_error ep e0 = Some (None, Some q0)) ->
  e0 < length ep /\ q0 < length P.
Proof.
  intros P ep e0 q0 Hwf H. split.
  - apply nth_error_Some. destruct H as [H|H]; congruence.
  - unfold fs_wf in Hwf. apply andb_prop in Hwf as [_ H2]. rewrite forallb_forall in H2.
    destruct H as [H|H]; specialize (H2 _ (nth_error_In _ _ H)); simpl in H2;
      rewrite ?andb_true_r in H2; apply Nat.ltb_lt in H2; exact H2.
Qed.

Lemma pm_neq_opp : forall x y, pm x -> pm y -> x <> y -> x = (- y)%Z.
Proof. unfold pm. intros. lia. Qed.

(* ------------------------------------------------------------------ pushing the last defect out through the boundary *)
Section Open.
  Variable f : Z -> Z -> Z.
  Variable pre : fs_plaq -> Z.
  Hypothesis f_odd : forall x d, f (- x)%Z d = (- f x d)%Z.
  Hypothesis f_pm : forall x d, pm x -> pm d -> pm (f x d).
  Hypothesis pre_pm : forall p, pm (pre p).
  Variable P : list fs_plaq.
  Variable ep : list (option nat * option nat).
  Hypothesis Hwf : fs_wf P ep = true.
  Variable path : nat -> nat -> option (list nat * list nat).
  Hypothesis Hpath : forall a b, a < length P -> b < length P -> a <> b -> fs_path_ok ep a b (path a b) = true.

  Notation FL := (fluxes f pre P).

  Lemma fluxes_ext : forall u target, length target = length P ->
    (forall q, q < length P -> gflux f pre u (nth q P []) = fs_at target q) -> FL u = target.
  Proof.
    intros u target Htl H. apply (nth_ext _ _ 0%Z 0%Z).
    - rewrite fluxes_length. unfold nF. now rewrite Htl.
    - intros q Hq. rewrite fluxes_length in Hq. unfold nF in Hq.
      change (nth q (FL u) 0%Z) with (fs_at (FL u) q). rewrite fluxes_at by exact Hq. now apply H.
  Qed.

  Theorem fs_complete_open_spec : forall target u e0 q0,
    fs_find_boundary ep = Some (e0, q0) ->
    length target = length P -> PMF target -> length u = length ep -> PMF u ->
    ndiff (FL u) target <= 1 ->
    exists u', fs_complete_open FL ep path target u = Some u'
      /\ length u' = length ep /\ PMF u' /\ FL u' = target.
  Proof.
    intros target u e0 q0 Hb Htl Htpm Hul Hupm Hn.
    assert (Hfl : length (FL u) = length target) by (rewrite fluxes_length; unfold nF; now rewrite Htl).
    unfold fs_complete_open.
    destruct (fs_first_diff_from 0 (FL u) target) as [r|] eqn:Hd.
    2:{ exists u. split; [reflexivity|]. split; [exact Hul|]. split; [exact Hupm|].
        apply (fs_first_diff_none _ _ 0 Hfl Hd). }
    destruct (fs_first_diff_some _ _ 0 r Hfl Hd Hn) as (i & Hr & Hi & Hne & Hoth). simpl in Hr. subst i.
    rewrite fluxes_length in Hi. unfold nF in Hi.
    rewrite Hb.
    destruct (fs_find_boundary_from_spec ep 0 e0 q0 Hb) as (i & He0 & Hrow). simpl in He0. subst i.
    destruct (fs_wf_boundary_range P ep e0 q0 Hwf Hrow) as [He0 Hq0].
    assert (Hflip : gflux f pre u (nth r P []) = (- fs_at target r)%Z).
    { rewrite fluxes_at in Hne by exact Hi. apply pm_neq_opp; [|apply PMF_at; [exact Htpm|lia]|exact Hne].
      apply (gflux_pm f pre f_pm pre_pm P ep Hwf u r Hupm Hul Hi). }
    assert (Hsame : forall q, q < length P -> q <> r -> gflux f pre u (nth q P []) = fs_at target q).
    { intros q Hq Hqr. rewrite <- (fluxes_at f pre P u q Hq). now apply Hoth. }
    destruct (Nat.eqb_spec r q0) as [Hrq|Hrq].
    - subst q0. exists (fs_neg_at e0 u). split; [reflexivity|]. split; [now rewrite fs_neg_at_length|].
      split; [now apply PMF_neg_at|]. apply fluxes_ext; [exact Htl|]. intros q Hq.
      rewrite (gflux_single_flip f pre f_odd P ep Hwf e0 u q He0 Hq), (fs_boundary_sides ep e0 r q Hrow).
      destruct (Nat.eqb_spec r q) as [<-|Hne'].
      + rewrite Hflip. change (fs_sgn (fs_b2n true)) with (-1)%Z. ring.
      + rewrite Hsame by auto. change (fs_sgn (fs_b2n false)) with 1%Z. ring.
    - pose proof (Hpath r q0 Hi Hq0 Hrq) as Hok.
      destruct (path r q0) as [[ns es]|]; [|discriminate].
      exists (fs_neg_at e0 (fs_neg_set es u)). split; [reflexivity|].
      split; [now rewrite fs_neg_at_length, fs_neg_set_length|].
      split; [now apply PMF_neg_at, PMF_neg_set|]. apply fluxes_ext; [exact Htl|]. intros q Hq.
      rewrite (gflux_single_flip f pre f_odd P ep Hwf e0 _ q He0 Hq), (fs_boundary_sides ep e0 q0 q Hrow).
      rewrite (gflux_path_flip f pre f_odd P ep Hwf r q0 ns es u q Hok Hq).
      destruct (Nat.eqb_spec q0 q) as [E1|Hq0q]; destruct (Nat.eqb_spec r q) as [E2|Hrq'].
      + congruence.
      + rewrite Hsame by auto.
        change (fs_sgn (fs_b2n true)) with (-1)%Z. change (fs_sgn (fs_b2n true + fs_b2n false)) with (-1)%Z. ring.
      + subst q. rewrite Hflip.
        change (fs_sgn (fs_b2n false)) with 1%Z. change (fs_sgn (fs_b2n false + fs_b2n true)) with (-1)%Z. ring.
      + rewrite Hsame by auto.
        change (fs_sgn (fs_b2n false)) with 1%Z. change (fs_sgn (fs_b2n false + fs_b2n false)) with 1%Z. ring.
  Qed.
End Open.

(* ------------------------------------------------------------------ the two conventions *)
Lemma fs_complete_open_ext : forall flux1 flux2 ep path target u, (forall v, flux1 v = flux2 v) ->
  fs_complete_open flux1 ep path target u = fs_complete_open flux2 ep path target u.
Proof. intros flux1 flux2 ep path target u H. unfold fs_complete_open. now rewrite H. Qed.

Definition fs_open_statement (flux : list fs_plaq -> list Z -> list Z) : Prop :=
  forall (P : list fs_plaq) (ep : list (option nat * option nat)) (path : nat -> nat -> option (list nat * list nat))
         (target u : list Z) (e0 q0 : nat),
    fs_wf P ep = true ->
    (forall a b, a < length P -> b < length P -> a <> b -> fs_path_ok ep a b (path a b) = true) ->
    fs_find_boundary ep = Some (e0, q0) ->
    length target = length P -> fs_pm1 target = true -> length u = length ep -> fs_pm1 u = true ->
    ndiff (flux P u) target <= 1 ->
    exists u', fs_complete_open (flux P) ep path target u = Some u'
      /\ length u' = length ep /\ fs_pm1 u' = true /\ flux P u' = target.

Lemma fs_open_generic : forall f pre,
  (forall x d, f (- x)%Z d = (- f x d)%Z) -> (forall x d, pm x -> pm d -> pm (f x d)) -> (forall p, pm (pre p)) ->
  fs_open_statement (fluxes f pre).
Proof.
  intros f pre Hodd Hpm Hpre P ep path target u e0 q0 Hwf Hpath Hb Htl Htpm Hul Hupm Hn.
  destruct (fs_complete_open_spec f pre Hodd Hpm Hpre P ep Hwf path Hpath target u e0 q0 Hb Htl
              (fs_pm1_PMF _ Htpm) Hul (fs_pm1_PMF _ Hupm) Hn) as (u' & H1 & H2 & H3 & H4).
  exists u'. repeat split; auto. now apply PMF_fs_pm1.
Qed.

Lemma fs_open_transfer : forall flux1 flux2, (forall P u, flux1 P u = flux2 P u) ->
  fs_open_statement flux1 -> fs_open_statement flux2.
Proof.
  intros flux1 flux2 H H1 P ep path target u e0 q0 Hwf Hpath Hb Htl Htpm Hul Hupm Hn.
  rewrite <- H in Hn.
  destruct (H1 P ep path target u e0 q0 Hwf Hpath Hb Htl Htpm Hul Hupm Hn) as (u' & R1 & R2 & R3 & R4).
  exists u'. rewrite <- (fs_complete_open_ext (flux1 P) (flux2 P)) by (intros; apply H).
  rewrite <- H. repeat split; auto.
Qed.

Lemma fs_open_ujk : fs_open_statement fs_fluxes_ujk.
Proof.
  apply (fs_open_transfer _ _ fluxes_ujk). apply fs_open_generic.
  - intros. ring.
  - intros x d Hx Hd. unfold pm in *. nia.
  - intros. now left.
Qed.
Lemma fs_open_bonds : fs_open_statement fs_fluxes_bonds.
Proof.
  apply (fs_open_transfer _ _ fluxes_bonds). apply fs_open_generic.
  - intros. ring.
  - intros x d Hx Hd. unfold pm in *. nia.
  - intros. apply fs_sign_real_pm.
Qed.

(* ------------------------------------------------------------------ on the lattice: every sector is reachable *)
Lemma ndiff_refl : forall a, ndiff a a = 0.
Proof. induction a as [|x a IH]; [reflexivity|]. now rewrite ndiff_cons_eq. Qed.

Lemma all_pm1_repeat : forall n, all_pm1 (repeat 1%Z n) = true.
Proof. induction n; simpl; auto. Qed.

Lemma lat_open_all_sectors_reachable : forall L ps target,
  wf_lattice L = true -> no_self_loops L = true -> find_all_plaquettes L = Some ps ->
  plaquette_graph_connected (edges_plaquettes L ps) (length ps) ->
  (exists e q, fs_boundary_of (edges_plaquettes L ps) e = Some q) ->
  length target = length ps -> all_pm1 target = true ->
  exists u, length u = Lattice.nE L /\ all_pm1 u = true /\ fluxes_from_ujk L u = Some target.
Proof.
  intros L ps target Hwf Hnl Hf Hconn (e & q & Hbd) Htl Htpm.
  assert (HG : good L) by (split; assumption).
  set (ep := edges_plaquettes L ps) in *.
  pose proof (edges_plaquettes_length L ps) as Hlen. fold ep in Hlen.
  assert (Hlen2 : @length (option nat * option nat) ep = Lattice.nE L) by exact Hlen.
  set (guess := repeat 1%Z (Lattice.nE L)).
  destruct (lat_contract_generic _ fs_solver_contract_greedy_ujk L ps fsl_discrete (hd 0) (fun _ => hd 0) target guess
              HG Hf Hconn (fsl_discrete_ok _) hd_In (fun _ => hd_In) Htl Htpm (repeat_length _ _) (all_pm1_repeat _))
    as (u0 & _ & Hul & Hupm & He & Ho).
  fold ep in He, Ho.
  assert (Hn : ndiff (fs_fluxes_ujk (fsl_plaqs ps) u0) target <= 1).
  { destruct (Nat.even (ndiff (fs_fluxes_ujk (fsl_plaqs ps) guess) target)).
    - rewrite (He eq_refl), ndiff_refl. lia.
    - rewrite (Ho eq_refl). lia. }
  destruct (fs_find_boundary_from_complete ep 0 e q Hbd) as (e0 & q0 & Hfb).
  pose proof (model_tables_agree L ps HG Hf) as Hag. fold ep in Hag.
  destruct (fs_open_ujk (fsl_plaqs ps) ep (fsl_path ps ep fsl_discrete (length ep)) target u0 e0 q0) as (u' & _ & Hul' & Hupm' & Hfl); auto.
  - apply fsl_wf; assumption.
  - rewrite fsl_plaqs_length. intros a b Ha Hb Hab.
    apply (fsl_path_contract ps ep fsl_discrete Hag Hconn (fsl_discrete_ok _) a b Ha Hb Hab).
  - now rewrite fsl_plaqs_length.
  - congruence.
  - exists u'. split; [congruence|]. split; [exact Hupm'|].
    unfold fluxes_from_ujk. rewrite Hf. cbn [option_map]. now rewrite <- fsl_fluxes_ujk_eq, Hfl.
Qed.

(* ------------------------------------------------------------------ closed lattices: reachable = parity-compatible *)
Lemma zprod_ndiff : forall a b, PMF a -> PMF b -> length a = length b ->
  (zprod a * zprod b = fs_sgn (ndiff a b))%Z.
Proof.
  induction a as [|x a IH]; intros [|y b] Ha Hb Hl; simpl in Hl; try discriminate; [reflexivity|].
  inversion Ha as [|? ? Hx Ha']; inversion Hb as [|? ? Hy Hb']; subst.
  specialize (IH b Ha' Hb' ltac:(lia)). cbn [zprod fold_right]. fold (zprod a). fold (zprod b).
  destruct (Z.eq_dec x y) as [->|Hne].
  - rewrite ndiff_cons_eq, <- IH. pose proof (pm_sq y Hy) as Hs.
    replace (y * zprod a * (y * zprod b))%Z with ((y * y) * (zprod a * zprod b))%Z by ring. rewrite Hs. ring.
  - rewrite (ndiff_cons_neq x y a b Hne), fs_sgn_S, <- IH.
    assert (Hxy : (x * y = -1)%Z) by (destruct Hx, Hy; subst; lia).
    replace (x * zprod a * (y * zprod b))%Z with ((x * y) * (zprod a * zprod b))%Z by ring. rewrite Hxy. ring.
Qed.

Lemma zprod_pm : forall a, PMF a -> pm (zprod a).
Proof.
  induction a as [|x a IH]; intros H; [now left|]. inversion H; subst. cbn [zprod fold_right]. fold (zprod a).
  apply pm_mul; auto.
Qed.

Lemma zprod_eq_even : forall a b, PMF a -> PMF b -> length a = length b ->
  (zprod a = zprod b <-> Nat.even (ndiff a b) = true).
Proof.
  intros a b Ha Hb Hl. pose proof (zprod_ndiff a b Ha Hb Hl) as H.
  pose proof (zprod_pm a Ha) as Pa. pose proof (zprod_pm b Hb) as Pb. unfold fs_sgn in H. unfold pm in Pa, Pb.
  destruct (Nat.even (ndiff a b)); split; intros; try reflexivity; try discriminate; nia.
Qed.

Lemma model_fluxes_PMF : forall L ps u, good L -> find_all_plaquettes L = Some ps ->
  all_pm1 u = true -> length u = Lattice.nE L -> PMF (fluxes_real u ps).
Proof.
  intros L ps u HG Hf Hu Hl. unfold fluxes_real. apply Forall_forall. intros x Hx.
  apply in_map_iff in Hx. destruct Hx as (p & <- & Hp).
  apply flux_real_pm1. intros e He. apply all_pm1_bond; [exact Hu|]. rewrite Hl.
  destruct (model_plaquette_shape L ps p Hf Hp) as (_ & Hlen & _).
  destruct (in_combine_exists _ _ (p_edges p) (p_dirs p) e He Hlen) as [d Hd].
  apply (model_plaquette_darts_valid L ps p (e, d) HG Hf Hp Hd).
Qed.

(* on a closed lattice (every directed edge lies in a plaquette) with a connected plaquette graph the sectors realised by
   bond configurations are EXACTLY those of total flux (-1)^n_edges, and the modelled solver reaches each of them from the
   all +1 guess *)
Lemma lat_closed_reachable_iff : forall L ps target,
  wf_lattice L = true -> no_self_loops L = true -> find_all_plaquettes L = Some ps ->
  plaquette_graph_connected (edges_plaquettes L ps) (length ps) ->
  (forall d, In d (all_darts L) -> In d (flat_map Flux.plaq_darts ps)) ->
  length target = length ps -> all_pm1 target = true ->
  ((exists u, length u = Lattice.nE L /\ all_pm1 u = true /\ fluxes_from_ujk L u = Some target)
   <-> zprod target = ((-1) ^ Z.of_nat (Lattice.nE L))%Z).
Proof.
  intros L ps target Hwf Hnl Hf Hconn Hcov Htl Htpm.
  assert (HG : good L) by (split; assumption).
  split.
  - intros (u & Hul & Hupm & Hfl). unfold fluxes_from_ujk in Hfl. rewrite Hf in Hfl. cbn [option_map] in Hfl.
    injection Hfl as <-. apply (model_global_parity L ps u Hwf Hnl Hf Hcov).
    intros e He. apply all_pm1_bond; [exact Hupm|now rewrite Hul].
  - intros Hpar. set (guess := repeat 1%Z (Lattice.nE L)).
    assert (Hgl : length guess = Lattice.nE L) by apply repeat_length.
    assert (Hgpm : all_pm1 guess = true) by apply all_pm1_repeat.
    destruct (lat_solver_contract_ujk L ps fsl_discrete (hd 0) (fun _ => hd 0) target guess Hwf Hnl Hf Hconn
                (fsl_discrete_ok _) hd_In (fun _ => hd_In) Htl Htpm Hgl Hgpm) as (u & _ & Hul & Hupm & He & _).
    exists u. split; [exact Hul|]. split; [exact Hupm|]. apply He.
    apply zprod_eq_even.
    + apply (model_fluxes_PMF L ps guess HG Hf Hgpm Hgl).
    + apply fs_pm1_PMF. exact Htpm.
    + unfold fluxes_real. now rewrite map_length.
    + rewrite Hpar. apply (model_global_parity L ps guess Hwf Hnl Hf Hcov).
      intros e He'. apply all_pm1_bond; [exact Hgpm|now rewrite Hgl].
Qed.
