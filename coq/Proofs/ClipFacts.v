(* Proofs/ClipFacts.v — facts about Model/Clip.v (Liang–Barsky clip interval). *)
From Coq Require Import List ZArith QArith Bool Qminmax Lqa Lia.
From Koala Require Import Model.Clip.
Import ListNotations.
Open Scope Q_scope.

Lemma Qltb_iff (a b : Q) : Qltb a b = true <-> a < b.
Proof.
  unfold Qltb. rewrite negb_true_iff. split.
  - intro H. apply Qnot_le_lt. intro Hle. apply Qle_bool_iff in Hle. congruence.
  - intro H. destruct (Qle_bool b a) eqn:E; auto. apply Qle_bool_iff in E. apply Qle_not_lt in E. contradiction.
Qed.
Lemma Qleb_iff (a b : Q) : Qleb a b = true <-> a <= b.
Proof. apply Qle_bool_iff. Qed.
Lemma Qeqb_iff (a b : Q) : Qeqb a b = true <-> a == b.
Proof. apply Qeq_bool_iff. Qed.

(* ---------- division / multiplication shifting ---------- *)
Lemma div_mul_cancel (n d : Q) : ~ d == 0 -> n / d * d == n.
Proof. intro H. field. exact H. Qed.

Lemma div_le_iff_pos (n d t : Q) : 0 < d -> (n / d <= t <-> n <= t * d).
Proof.
  intro Hd. assert (H : n / d * d == n) by (apply div_mul_cancel; lra).
  set (q := n / d) in *. split; intro; nra.
Qed.
Lemma le_div_iff_pos (n d t : Q) : 0 < d -> (t <= n / d <-> t * d <= n).
Proof.
  intro Hd. assert (H : n / d * d == n) by (apply div_mul_cancel; lra).
  set (q := n / d) in *. split; intro; nra.
Qed.
Lemma div_le_iff_neg (n d t : Q) : d < 0 -> (n / d <= t <-> t * d <= n).
Proof.
  intro Hd. assert (H : n / d * d == n) by (apply div_mul_cancel; lra).
  set (q := n / d) in *. split; intro; nra.
Qed.
Lemma le_div_iff_neg (n d t : Q) : d < 0 -> (t <= n / d <-> n <= t * d).
Proof.
  intro Hd. assert (H : n / d * d == n) by (apply div_mul_cancel; lra).
  set (q := n / d) in *. split; intro; nra.
Qed.

Lemma lerp_eq (a b t : Q) : lerp a b t == b + t * (a - b).
Proof. unfold lerp. ring. Qed.

(* ---------- one coordinate ---------- *)
Lemma Qltb_false_both (d : Q) : Qltb 0 d = false -> Qltb d 0 = false -> d == 0.
Proof.
  intros H1 H2.
  assert (~ 0 < d) by (intro K; apply Qltb_iff in K; congruence).
  assert (~ d < 0) by (intro K; apply Qltb_iff in K; congruence).
  lra.
Qed.

Lemma axis_correct (a b t : Q) :
  axis_ok a b = true -> 0 <= t -> t <= 1 ->
  (axis_lo a b <= t /\ t <= axis_hi a b <-> 0 <= lerp a b t /\ lerp a b t <= 1).
Proof.
  unfold axis_ok, axis_lo, axis_hi. intros Hok Ht0 Ht1. rewrite !lerp_eq.
  destruct (Qltb 0 (a - b)) eqn:Hp.
  - apply Qltb_iff in Hp. rewrite (div_le_iff_pos _ _ _ Hp), (le_div_iff_pos _ _ _ Hp). split; intros [? ?]; split; lra.
  - destruct (Qltb (a - b) 0) eqn:Hn.
    + apply Qltb_iff in Hn. rewrite (div_le_iff_neg _ _ _ Hn), (le_div_iff_neg _ _ _ Hn). split; intros [? ?]; split; lra.
    + assert (Hz : a - b == 0) by (apply Qltb_false_both; assumption).
      assert (E : Qeqb (a - b) 0 = true) by (apply Qeqb_iff; exact Hz).
      rewrite E in Hok. apply andb_true_iff in Hok. destruct Hok as [H0 H1].
      apply Qleb_iff in H0. apply Qleb_iff in H1.
      split; intros _; split; nra.
Qed.

Lemma axis_not_ok (a b t : Q) :
  axis_ok a b = false -> ~ (0 <= lerp a b t /\ lerp a b t <= 1).
Proof.
  unfold axis_ok. intros Hok. rewrite !lerp_eq.
  destruct (Qeqb (a - b) 0) eqn:E; [|discriminate].
  apply Qeqb_iff in E. intros [H0 H1].
  assert (Hb : 0 <= b /\ b <= 1) by (split; nra).
  destruct Hb as [Hb0 Hb1]. apply Qleb_iff in Hb0. apply Qleb_iff in Hb1.
  rewrite Hb0, Hb1 in Hok. discriminate.
Qed.

(* ---------- the clip interval is exactly the set of parameters inside the closed cell ---------- *)
Theorem clip_interval_correct (s : seg) (t : Q) :
  (exists lo hi, clip_interval s = Some (lo, hi) /\ lo <= t /\ t <= hi)
  <-> (0 <= t /\ t <= 1 /\ in_unit_square (seg_point s t)).
Proof.
  unfold clip_interval, in_unit_square, seg_point. cbn [px py fst snd].
  set (xs := px (seg_start s)). set (xe := px (seg_end s)).
  set (ys := py (seg_start s)). set (ye := py (seg_end s)).
  destruct (axis_ok xs xe) eqn:Hx; [destruct (axis_ok ys ye) eqn:Hy|]; cbn [andb].
  - split.
    + intros (lo & hi & Hs & Hlo & Hhi).
      destruct (Qleb _ _) eqn:Hle in Hs; [|discriminate]. injection Hs as <- <-.
      apply Q.max_lub_iff in Hlo. destruct Hlo as [Ht0 Hlo]. apply Q.max_lub_iff in Hlo. destruct Hlo as [Hlx Hly].
      apply Q.min_glb_iff in Hhi. destruct Hhi as [Ht1 Hhi]. apply Q.min_glb_iff in Hhi. destruct Hhi as [Hhx Hhy].
      destruct (proj1 (axis_correct xs xe t Hx Ht0 Ht1) (conj Hlx Hhx)).
      destruct (proj1 (axis_correct ys ye t Hy Ht0 Ht1) (conj Hly Hhy)).
      tauto.
    + intros (Ht0 & Ht1 & Hx0 & Hx1 & Hy0 & Hy1).
      destruct (proj2 (axis_correct xs xe t Hx Ht0 Ht1) (conj Hx0 Hx1)) as [Hlx Hhx].
      destruct (proj2 (axis_correct ys ye t Hy Ht0 Ht1) (conj Hy0 Hy1)) as [Hly Hhy].
      assert (Hlo : Qmax 0 (Qmax (axis_lo xs xe) (axis_lo ys ye)) <= t)
        by (apply Q.max_lub_iff; split; [exact Ht0|apply Q.max_lub_iff; split; assumption]).
      assert (Hhi : t <= Qmin 1 (Qmin (axis_hi xs xe) (axis_hi ys ye)))
        by (apply Q.min_glb_iff; split; [exact Ht1|apply Q.min_glb_iff; split; assumption]).
      assert (Hle : Qleb (Qmax 0 (Qmax (axis_lo xs xe) (axis_lo ys ye))) (Qmin 1 (Qmin (axis_hi xs xe) (axis_hi ys ye))) = true)
        by (apply Qleb_iff; eapply Qle_trans; eassumption).
      rewrite Hle. eexists _, _. split; [reflexivity|]. split; assumption.
  - split.
    + intros (lo & hi & Hs & _). discriminate.
    + intros (_ & _ & _ & _ & H0 & H1). exfalso. exact (axis_not_ok ys ye t Hy (conj H0 H1)).
  - split.
    + intros (lo & hi & Hs & _). discriminate.
    + intros (_ & _ & H0 & H1 & _). exfalso. exact (axis_not_ok xs xe t Hx (conj H0 H1)).
Qed.
