(* Proofs/ClipFacts.v — facts about Model/Clip.v (Liang–Barsky clip interval). *)
From Coq Require Import List ZArith QArith Bool Qminmax Lqa Lia.
From Koala Require Import Model.Clip.
Import ListNotations.
Open Scope Q_scope.

Lemma Qltb_iff (a b : Q) : Qltb a b = true <-> a < b.
Proof.
  unfold Qltb. rewrite negb_true_iff. split.
  - intro H. apply Qnot_le_lt. intro Hle. apply Qle_bool_iff in Hle. congruence.
  - intro H. destruct (Qle_bool b a) eqn:E; auto. apply Qle_bool_iff in E. apply Qle_not_lt in E. contradiction.
Qed.
Lemma Qleb_iff (a b : Q) : Qleb a b = true <-> a <= b.
Proof. apply Qle_bool_iff. Qed.
Lemma Qeqb_iff (a b : Q) : Qeqb a b = true <-> a == b.
Proof. apply Qeq_bool_iff. Qed.
