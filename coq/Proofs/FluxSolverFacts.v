(* Proofs/FluxSolverFacts.v — the flux-sector solver contract (Model/FluxSolver.v):
   for every target, guess, pairing function and path oracle meeting their contracts the solver
   returns bonds in {-1,+1}, reaches the target exactly when the number of plaquettes to change is even
   and up to exactly one plaquette when it is odd, and neither ValueError branch is reachable. *)
From Coq Require Import List ZArith Bool Arith Lia ZifyBool.
From Koala Require Import Model.AStar Model.FluxSolver Proofs.ChainFlipFacts Proofs.AStarFacts Proofs.AStarBudget.
Import ListNotations.
Open Scope Z_scope.

(* ------------------------------------------------------------------ +-1 lists *)
Definition pm (x : Z) : Prop := x = 1 \/ x = -1.
Definition PMF (l : list Z) : Prop := Forall pm l.

Lemma fs_pm1_PMF : forall l, fs_pm1 l = true -> PMF l.
Proof.
  unfold fs_pm1, PMF. intros l H. apply Forall_forall. intros x Hx.
  rewrite forallb_forall in H. specialize (H x Hx). unfold pm. lia.
Qed.
Lemma PMF_fs_pm1 : forall l, PMF l -> fs_pm1 l = true.
Proof.
  unfold fs_pm1, PMF. intros l H. apply forallb_forall. intros x Hx.
  rewrite Forall_forall in H. specialize (H x Hx). unfold pm in H. lia.
Qed.
Lemma PMF_at : forall l i, PMF l -> (i < length l)%nat -> pm (fs_at l i).
Proof. intros l i H Hi. unfold fs_at. unfold PMF in H. rewrite Forall_forall in H. apply H. now apply nth_In. Qed.
Lemma PMF_neg_at : forall i l, PMF l -> PMF (fs_neg_at i l).
Proof.
  induction i as [| i IH]; intros [| x l] H; simpl; auto; inversion H; subst; constructor; auto.
  - unfold pm in *. lia.
  - now apply IH.
Qed.
Lemma PMF_neg_set_from : forall idx l k, PMF l -> PMF (fs_neg_set_from k idx l).
Proof.
  induction l as [| x l IH]; intros k H; simpl; [constructor |].
  inversion H; subst. constructor; [| now apply IH].
  destruct (existsb _ idx); unfold pm in *; lia.
Qed.
Lemma PMF_neg_set : forall idx l, PMF l -> PMF (fs_neg_set idx l).
Proof. intros. now apply PMF_neg_set_from. Qed.

Lemma pm_mul : forall x y, pm x -> pm y -> pm (x * y).
Proof. unfold pm. intros. nia. Qed.
Lemma pm_sq : forall x, pm x -> x * x = 1.
Proof. unfold pm. intros. nia. Qed.
Lemma pm_div : forall x y, pm x -> pm y -> x / y = x * y.
Proof. unfold pm. intros x y [-> | ->] [-> | ->]; reflexivity. Qed.

(* ------------------------------------------------------------------ map2, counts *)
Lemma fs_map2_length : forall g a b, length a = length b -> length (fs_map2 g a b) = length a.
Proof. induction a as [| x a IH]; intros [| y b] H; simpl in *; auto; try lia. Qed.
Lemma fs_map2_at : forall g a b i, length a = length b -> (i < length a)%nat ->
  fs_at (fs_map2 g a b) i = g (fs_at a i) (fs_at b i).
Proof.
  unfold fs_at. induction a as [| x a IH]; intros [| y b] i H Hi; simpl in *; try lia.
  destruct i; [reflexivity | apply IH; lia].
Qed.

Lemma fs_count_ext : forall (P1 P2 : Z -> bool) l1 l2, length l1 = length l2 ->
  (forall i, (i < length l1)%nat -> P1 (fs_at l1 i) = P2 (fs_at l2 i)) -> fs_count P1 l1 = fs_count P2 l2.
Proof.
  unfold fs_count, fs_at. induction l1 as [| x l1 IH]; intros [| y l2] Hl H; simpl in *; try lia.
  pose proof (H 0%nat ltac:(lia)) as H0. simpl in H0. rewrite H0.
  assert (IH' : length (filter P1 l1) = length (filter P2 l2)).
  { apply IH; [lia |]. intros i Hi. apply (H (S i)). lia. }
  destruct (P2 y); simpl; lia.
Qed.

(* M f = number of -1 entries = length of np.where(f == -1) *)
Lemma fs_where_neg_from_spec : forall f k q,
  In q (fs_where_neg_from k f) <-> (k <= q)%nat /\ (q - k < length f)%nat /\ fs_at f (q - k) = -1.
Proof.
  unfold fs_at. induction f as [| x f IH]; intros k q; simpl.
  - split; [intros [] | intros (_ & H & _); lia].
  - assert (Hrec : In q (fs_where_neg_from (S k) f) <-> (S k <= q)%nat /\ (q - S k < length f)%nat /\ nth (q - S k) f 0 = -1)
      by apply IH.
    destruct (Z.eqb_spec x (-1)) as [Hx | Hx].
    + simpl. rewrite Hrec. split.
      * intros [<- | (H1 & H2 & H3)].
        -- rewrite Nat.sub_diag. repeat split; auto; lia.
        -- replace (q - k)%nat with (S (q - S k)) by lia. repeat split; auto; lia.
      * intros (H1 & H2 & H3). destruct (Nat.eq_dec k q) as [-> | Hne]; [now left | right].
        replace (q - k)%nat with (S (q - S k)) in H2, H3 by lia. repeat split; auto; lia.
    + rewrite Hrec. split.
      * intros (H1 & H2 & H3). replace (q - k)%nat with (S (q - S k)) by lia. repeat split; auto; lia.
      * intros (H1 & H2 & H3). destruct (Nat.eq_dec k q) as [-> | Hne].
        -- rewrite Nat.sub_diag in H3. contradiction.
        -- replace (q - k)%nat with (S (q - S k)) in H2, H3 by lia. repeat split; auto; lia.
Qed.
Lemma fs_where_neg_spec : forall f q, In q (fs_where_neg f) <-> (q < length f)%nat /\ fs_at f q = -1.
Proof.
  intros. unfold fs_where_neg. rewrite fs_where_neg_from_spec, Nat.sub_0_r. split; intros; intuition; lia.
Qed.
Lemma fs_where_neg_from_NoDup : forall f k, NoDup (fs_where_neg_from k f).
Proof.
  induction f as [| x f IH]; intros k; simpl; [constructor |].
  destruct (x =? -1); [| apply IH]. constructor; [| apply IH].
  intros H. apply fs_where_neg_from_spec in H. lia.
Qed.
Lemma fs_where_neg_from_length : forall f k, length (fs_where_neg_from k f) = fs_count fs_is_m1 f.
Proof.
  unfold fs_count, fs_is_m1. induction f as [| x f IH]; intros k; simpl; [reflexivity |].
  destruct (x =? -1); simpl; rewrite IH; reflexivity.
Qed.
Lemma fs_where_neg_length : forall f, length (fs_where_neg f) = fs_count fs_is_m1 f.
Proof. intros. apply fs_where_neg_from_length. Qed.

(* negating one entry of a +-1 list flips the parity of the number of -1 entries *)
Lemma fs_sgn_S : forall n, fs_sgn (S n) = - fs_sgn n.
Proof. intros. change (S n) with (1 + n)%nat. rewrite fs_sgn_add, fs_sgn_1. ring. Qed.
Lemma even_S_negb : forall n, Nat.even (S n) = negb (Nat.even n).
Proof. intros. now rewrite Nat.even_succ, <- Nat.negb_even. Qed.
Lemma fs_count_m1_cons : forall x f, fs_count fs_is_m1 (x :: f) = (fs_b2n (x =? -1)%Z + fs_count fs_is_m1 f)%nat.
Proof. intros. unfold fs_count, fs_is_m1. simpl. destruct (x =? -1); reflexivity. Qed.
Lemma fs_count_neg_at_parity : forall i f, PMF f -> (i < length f)%nat ->
  Nat.even (fs_count fs_is_m1 (fs_neg_at i f)) = negb (Nat.even (fs_count fs_is_m1 f)).
Proof.
  induction i as [| i IH]; intros [| x f] H Hi; simpl in Hi; try lia; inversion H as [| ? ? Hx Hf]; subst.
  - change (fs_neg_at 0 (x :: f)) with ((- x) :: f). rewrite !fs_count_m1_cons, !Nat.even_add.
    destruct Hx as [-> | ->]; simpl; destruct (Nat.even (fs_count fs_is_m1 f)); reflexivity.
  - change (fs_neg_at (S i) (x :: f)) with (x :: fs_neg_at i f). rewrite !fs_count_m1_cons, !Nat.even_add.
    rewrite (IH f Hf ltac:(lia)). destruct (Nat.even (fs_b2n (x =? -1)%Z)), (Nat.even (fs_count fs_is_m1 f)); reflexivity.
Qed.

Definition ndiff (a b : list Z) : nat := fs_count fs_nonzero (fs_map2 Z.sub a b).
  (* ndiff = 0 means equality on every plaquette *)
Lemma ndiff_zero_eq : forall a b, length a = length b -> ndiff a b = 0%nat -> a = b.
Proof.
  unfold ndiff, fs_count, fs_nonzero. induction a as [| x a IH]; intros [| y b] Hl H; simpl in *; try lia; [reflexivity |].
  destruct (Z.eqb_spec (x - y) 0) as [Hxy | Hxy]; simpl in H; [| lia].
  f_equal; [lia | apply IH; [lia | assumption]].
Qed.

(* ------------------------------------------------------------------ the solver *)
Section Contract.
  (* flux convention: flux u p = pre p * prod over (e, d) in p of f u_e d, f odd in u, +-1 valued *)
  Variable f : Z -> Z -> Z.
  Variable pre : fs_plaq -> Z.
  Hypothesis f_odd : forall x d, f (- x) d = - f x d.
  Hypothesis f_pm : forall x d, pm x -> pm d -> pm (f x d).
  Hypothesis pre_pm : forall p, pm (pre p).
  Definition gflux (u : list Z) (p : fs_plaq) : Z := pre p * fs_gprod f u p.

  Variable P : list fs_plaq.
  Variable ep : list (option nat * option nat).
  Hypothesis Hwf : fs_wf P ep = true.
  Definition nF := length P.
  Definition nE := length ep.
  Definition fluxes (u : list Z) : list Z := map (gflux u) P.

  Variable pairing : list nat -> list (nat * nat).
  Variable path : nat -> nat -> option (list nat * list nat).
  (* contracts of the two oracles *)
  Hypothesis Hpairing : forall defects, NoDup defects -> fs_pairing_ok defects (pairing defects) = true.
  Hypothesis Hpath : forall a b, (a < nF)%nat -> (b < nF)%nat -> a <> b -> fs_path_ok ep a b (path a b) = true.

  (* --- consequences of fs_wf *)
  Lemma wf_count : forall e q, (e < length ep)%nat -> (q < length P)%nat ->
    fs_count_edge (nth q P []) e = fs_sides ep e q.
  Proof.
    intros e q He Hq. unfold fs_wf in Hwf. apply andb_prop in Hwf as [H1 _].
    rewrite forallb_forall in H1. specialize (H1 q ltac:(apply in_seq; lia)).
    apply andb_prop in H1 as [_ H1]. rewrite forallb_forall in H1.
    specialize (H1 e ltac:(apply in_seq; lia)). now apply Nat.eqb_eq in H1.
  Qed.
  Lemma wf_entries : forall q ed, (q < length P)%nat -> In ed (nth q P []) -> (fst ed < length ep)%nat /\ pm (snd ed).
  Proof.
    intros q ed Hq Hin. unfold fs_wf in Hwf. apply andb_prop in Hwf as [H1 _].
    rewrite forallb_forall in H1. specialize (H1 q ltac:(apply in_seq; lia)).
    apply andb_prop in H1 as [H1 _]. rewrite forallb_forall in H1. specialize (H1 ed Hin). unfold pm. lia.
  Qed.
  Lemma wf_ep : forall e a b, nth_error ep e = Some (Some a, Some b) -> (a < nF)%nat /\ (b < nF)%nat.
  Proof.
    intros e a b He. unfold fs_wf in Hwf. apply andb_prop in Hwf as [_ H2].
    rewrite forallb_forall in H2. specialize (H2 _ (nth_error_In _ _ He)). unfold nF. simpl in H2. lia.
  Qed.

  Lemma fluxes_length : forall u, length (fluxes u) = nF.
  Proof. intros. unfold fluxes. now rewrite map_length. Qed.
  Lemma fluxes_at : forall u q, (q < nF)%nat -> fs_at (fluxes u) q = gflux u (nth q P []).
  Proof.
    intros u q Hq. unfold fs_at, fluxes. rewrite (nth_indep _ 0 (gflux u [])) by (rewrite map_length; exact Hq).
    apply map_nth.
  Qed.

  Lemma gflux_pm : forall u q, PMF u -> length u = nE -> (q < nF)%nat -> pm (gflux u (nth q P [])).
  Proof.
    intros u q Hu Hl Hq. unfold gflux. apply pm_mul; [apply pre_pm |].
    pose proof (wf_entries q) as Hent. unfold fs_gprod. induction (nth q P []) as [| ed p IH]; simpl.
    - now left.
    - apply pm_mul.
      + destruct (Hent ed Hq (or_introl eq_refl)) as [He Hd]. apply f_pm; [| assumption].
        apply PMF_at; [assumption | unfold nE in Hl; lia].
      + apply IH. intros ed' Hq' Hin. apply Hent; [assumption | now right].
  Qed.

  Lemma gflux_single_flip : forall e u q, (e < nE)%nat -> (q < nF)%nat ->
    gflux (fs_neg_at e u) (nth q P []) = fs_sgn (fs_sides ep e q) * gflux u (nth q P []).
  Proof.
    intros e u q He Hq. unfold gflux. rewrite (fs_single_flip f f_odd), wf_count by assumption. ring.
  Qed.

  Lemma gflux_path_flip : forall a b ns es u q, fs_path_ok ep a b (Some (ns, es)) = true -> (q < nF)%nat ->
    gflux (fs_neg_set es u) (nth q P []) = fs_sgn (fs_b2n (b =? q)%nat + fs_b2n (a =? q)%nat) * gflux u (nth q P []).
  Proof.
    intros a b ns es u q Hok Hq. unfold gflux. simpl in Hok.
    rewrite (fs_path_flip_two_ends f f_odd P ep wf_count a b ns es u q Hok Hq). ring.
  Qed.

  (* --- the loop invariant: bonds and fluxes_to_flip are +-1 arrays and flux(bonds) * ftf = target *)
  Variable target : list Z.
  Hypothesis Htl : length target = nF.
  Hypothesis Htpm : PMF target.

  Record J (b ftf : list Z) : Prop := {
    J_bl : length b = nE; J_bpm : PMF b; J_fl : length ftf = nF; J_fpm : PMF ftf;
    J_eq : forall q, (q < nF)%nat -> gflux b (nth q P []) * fs_at ftf q = fs_at target q
  }.

  (* negating ftf at a and b together with a flux change by the same signs keeps J *)
  Lemma J_step : forall b ftf b' a c,
    J b ftf -> length b' = nE -> PMF b' -> (a < nF)%nat -> (c < nF)%nat ->
    (forall q, (q < nF)%nat -> gflux b' (nth q P []) = fs_sgn (fs_b2n (a =? q)%nat + fs_b2n (c =? q)%nat) * gflux b (nth q P [])) ->
    J b' (fs_neg_at c (fs_neg_at a ftf)).
  Proof.
    intros b ftf b' a c [Hbl Hbpm Hfl Hfpm Heq] Hl' Hpm' Ha Hc Hflux. constructor; auto.
    - now rewrite !fs_neg_at_length.
    - now apply PMF_neg_at, PMF_neg_at.
    - intros q Hq. rewrite Hflux, !fs_neg_at_at, <- (Heq q Hq) by assumption.
      rewrite fs_sgn_add.
      destruct (a =? q)%nat, (c =? q)%nat; unfold fs_b2n; rewrite ?fs_sgn_1, ?fs_sgn_0; ring.
  Qed.

  Lemma even_M_step : forall ftf a c, PMF ftf -> (a < length ftf)%nat -> (c < length ftf)%nat ->
    Nat.even (fs_count fs_is_m1 (fs_neg_at c (fs_neg_at a ftf))) = Nat.even (fs_count fs_is_m1 ftf).
  Proof.
    intros ftf a c Hpm Ha Hc.
    rewrite fs_count_neg_at_parity by (try apply PMF_neg_at; try rewrite fs_neg_at_length; assumption).
    rewrite fs_count_neg_at_parity by assumption. apply negb_involutive.
  Qed.

  (* --- step 2: _flip_adjacent_fluxes *)
  Lemma flip_adjacent_spec : forall rest e b ftf, J b ftf ->
    (forall i, nth_error rest i = nth_error ep (e + i)) ->
    let r := fs_flip_adjacent rest e b ftf in
    J (fst r) (snd r) /\ Nat.even (fs_count fs_is_m1 (snd r)) = Nat.even (fs_count fs_is_m1 ftf).
  Proof.
    induction rest as [| [[a |] [c |]] rest IH]; intros e b ftf HJ Hrest; simpl; try (split; [assumption | reflexivity]).
    assert (Hrest' : forall i, nth_error rest i = nth_error ep (S e + i)).
    { intros i. specialize (Hrest (S i)). simpl in Hrest. now rewrite <- plus_n_Sm in Hrest. }
    destruct ((fs_at ftf a =? -1) && (fs_at ftf c =? -1)) eqn:Hc; [| now apply IH].
    pose proof (Hrest 0%nat) as H0. simpl in H0. rewrite Nat.add_0_r in H0. symmetry in H0.
    destruct (wf_ep e a c H0) as [Ha Hcc].
    assert (He : (e < nE)%nat) by (unfold nE; apply nth_error_Some; congruence).
    destruct HJ as [Hbl Hbpm Hfl Hfpm Heq].
    assert (HJ' : J (fs_neg_at e b) (fs_neg_at c (fs_neg_at a ftf))).
    { apply J_step with (b := b); auto.
      - constructor; auto.
      - now rewrite fs_neg_at_length.
      - now apply PMF_neg_at.
      - intros q Hq. rewrite gflux_single_flip by assumption. f_equal. f_equal.
        unfold fs_sides. rewrite H0. reflexivity. }
    destruct (IH (S e) _ _ HJ' Hrest') as [IH1 IH2]. split; [exact IH1 |].
    rewrite IH2. apply even_M_step; auto; lia.
  Qed.

  (* --- steps 3-5: the pairs *)
  Lemma flip_pairs_spec : forall pairs b ftf, J b ftf ->
    (forall a c, In (a, c) pairs -> (a < nF)%nat /\ (c < nF)%nat /\ a <> c) ->
    exists b' f', fs_flip_pairs path pairs b ftf = Some (b', f') /\ J b' f'
      /\ Nat.even (fs_count fs_is_m1 f') = Nat.even (fs_count fs_is_m1 ftf)
      /\ forall q, fs_at f' q = fs_sgn (count_occ Nat.eq_dec (fs_flatten pairs) q) * fs_at ftf q.
  Proof.
    induction pairs as [| [a c] pairs IH]; intros b ftf HJ Hp.
    - exists b, ftf. split; [reflexivity |]. split; [assumption |]. split; [reflexivity |].
      intros q. cbn [fs_flatten count_occ]. rewrite fs_sgn_0. ring.
    - cbn [fs_flip_pairs].
      destruct (Hp a c (or_introl eq_refl)) as (Ha & Hc & Hac).
      pose proof (Hpath a c Ha Hc Hac) as Hok.
      destruct (path a c) as [[ns es] |] eqn:Hpa; [| discriminate].
      assert (HJ' : J (fs_neg_set es b) (fs_neg_at c (fs_neg_at a ftf))).
      { destruct HJ as [Hbl Hbpm Hfl Hfpm Heq]. apply J_step with (b := b); auto.
        - constructor; auto.
        - now rewrite fs_neg_set_length.
        - now apply PMF_neg_set.
        - intros q Hq. rewrite (gflux_path_flip a c ns es b q Hok Hq). f_equal. f_equal. lia. }
      destruct (IH _ _ HJ' (fun x y H => Hp x y (or_intror H))) as (b' & f' & Hrun & HJ'' & Hev & Hat).
      exists b', f'. split; [exact Hrun |]. split; [exact HJ'' |]. split.
      + rewrite Hev. destruct HJ. apply even_M_step; auto; lia.
      + intros q. rewrite Hat, !fs_neg_at_at. cbn [fs_flatten count_occ].
        destruct (Nat.eq_dec a q) as [Haq | Haq]; destruct (Nat.eq_dec c q) as [Hcq | Hcq].
        * congruence.
        * subst q. rewrite Nat.eqb_refl. destruct (Nat.eqb_spec c a); [congruence |]. rewrite fs_sgn_S. ring.
        * subst q. rewrite Nat.eqb_refl. destruct (Nat.eqb_spec a c); [congruence |]. rewrite fs_sgn_S. ring.
        * destruct (Nat.eqb_spec a q); [contradiction |]. destruct (Nat.eqb_spec c q); [contradiction |]. ring.
  Qed.

  Lemma fs_flatten_in : forall pairs a c, In (a, c) pairs -> In a (fs_flatten pairs) /\ In c (fs_flatten pairs).
  Proof.
    induction pairs as [| [x y] pairs IH]; intros a c H; simpl in *; [contradiction |].
    destruct H as [H | H]; [inversion H; subst; auto | destruct (IH a c H); auto].
  Qed.
  Lemma fs_flatten_pair_neq : forall pairs a c, NoDup (fs_flatten pairs) -> In (a, c) pairs -> a <> c.
  Proof.
    induction pairs as [| [x y] pairs IH]; intros a c Hnd H; simpl in *; [contradiction |].
    inversion Hnd as [| ? ? Hx Hnd']; subst. inversion Hnd' as [| ? ? Hy Hnd'']; subst.
    destruct H as [H | H]; [inversion H; subst; intros ->; apply Hx; now left | now apply IH].
  Qed.
  Lemma fs_subset_spec : forall a b, fs_subset a b = true -> forall x, In x a -> In x b.
  Proof.
    unfold fs_subset. intros a b H x Hx. rewrite forallb_forall in H. specialize (H x Hx).
    apply existsb_exists in H as (y & Hy & Hxy). apply Nat.eqb_eq in Hxy. now subst.
  Qed.
  Lemma removelast_in : forall (l : list nat) x, In x (removelast l) -> In x l.
  Proof.
    induction l as [| y l IH]; intros x H; simpl in *; [contradiction |].
    destruct l; [contradiction |]. destruct H; [now left | right; now apply IH].
  Qed.
  Lemma fs_drop_in : forall l x, In x (fs_drop_last_if_odd l) -> In x l.
  Proof. unfold fs_drop_last_if_odd. intros l x. destruct (Nat.odd (length l)); [apply removelast_in | auto]. Qed.

  (* --- the contract *)

  Theorem fs_solver_contract : forall guess, length guess = nE -> PMF guess ->
    exists u, fs_solve fluxes ep pairing path target guess = FS_Ok u
      /\ length u = nE /\ PMF u
      /\ ndiff (fluxes u) target = (if Nat.even (ndiff (fluxes guess) target) then 0 else 1)%nat.
  Proof.
    intros guess Hgl Hgpm. unfold fs_solve.
    set (init := fluxes guess). set (ftf0 := fs_map2 Z.div target init).
    assert (Hil : length init = nF) by apply fluxes_length.
    assert (Hinit : forall q, (q < nF)%nat -> pm (fs_at init q)).
    { intros q Hq. unfold init. rewrite fluxes_at by assumption. now apply gflux_pm. }
    assert (Hf0l : length ftf0 = nF) by (unfold ftf0; rewrite fs_map2_length; lia).
    assert (Hf0at : forall q, (q < nF)%nat -> fs_at ftf0 q = fs_at target q * fs_at init q).
    { intros q Hq. unfold ftf0. rewrite fs_map2_at by lia. apply pm_div; [apply PMF_at; [assumption | lia] | auto]. }
    assert (Hf0pm : PMF ftf0).
    { apply Forall_forall. intros x Hx. apply (In_nth _ _ 0) in Hx as (i & Hi & <-).
      change (nth i ftf0 0) with (fs_at ftf0 i). rewrite Hf0at by lia.
      apply pm_mul; [apply PMF_at; [assumption | lia] | apply Hinit; lia]. }
    assert (HJ0 : J guess ftf0).
    { constructor; auto. intros q Hq. rewrite Hf0at by assumption.
      unfold init. rewrite fluxes_at by assumption.
      pose proof (pm_sq _ (gflux_pm guess q Hgpm Hgl Hq)) as Hsq.
      transitivity (fs_at target q * (gflux guess (nth q P []) * gflux guess (nth q P []))); [ring | rewrite Hsq; ring]. }
    (* number of plaquettes to change = number of -1 in ftf0 *)
    assert (HD : ndiff init target = fs_count fs_is_m1 ftf0).
    { unfold ndiff. apply fs_count_ext; [rewrite fs_map2_length; lia |].
      rewrite fs_map2_length by lia. intros i Hi. rewrite fs_map2_at, Hf0at by lia.
      pose proof (Hinit i ltac:(lia)) as H1. pose proof (PMF_at target i Htpm ltac:(lia)) as H2.
      unfold fs_nonzero, fs_is_m1, pm in *. lia. }
    (* step 2 *)
    destruct (flip_adjacent_spec ep 0%nat guess ftf0 HJ0 (fun i => eq_refl)) as [HJ1 Hev1].
    destruct (fs_flip_adjacent ep 0 guess ftf0) as [b1 f1]. simpl in HJ1, Hev1.
    (* steps 3-5 *)
    unfold fs_flip_isolated.
    set (defects := fs_where_neg f1).
    assert (Hdnd : NoDup defects) by apply fs_where_neg_from_NoDup.
    pose proof (Hpairing defects Hdnd) as Hpok. unfold fs_pairing_ok in Hpok.
    apply andb_prop in Hpok as [Hpok Hsub2]. apply andb_prop in Hpok as [Hnd Hsub1].
    apply as_nodup_NoDup in Hnd.
    pose proof (fs_subset_spec _ _ Hsub1) as Hs1. pose proof (fs_subset_spec _ _ Hsub2) as Hs2.
    assert (Hpairs : forall a c, In (a, c) (pairing defects) -> (a < nF)%nat /\ (c < nF)%nat /\ a <> c).
    { intros a c Hin. destruct (fs_flatten_in _ _ _ Hin) as [Ha Hc].
      apply Hs1, fs_drop_in, fs_where_neg_spec in Ha. apply Hs1, fs_drop_in, fs_where_neg_spec in Hc.
      destruct HJ1. repeat split; try lia. eapply fs_flatten_pair_neq; eauto. }
    destruct (flip_pairs_spec (pairing defects) b1 f1 HJ1 Hpairs) as (b2 & f2 & Hrun & HJ2 & Hev2 & Hat2).
    rewrite Hrun.
    (* -1 entries of f2: none if the number of defects is even, only the dropped last one if odd *)
    assert (Hneg : forall q, In q (fs_where_neg f2) ->
                   Nat.odd (length defects) = true /\ q = last defects 0%nat).
    { intros q Hq. apply fs_where_neg_spec in Hq as [Hq1 Hq2]. rewrite Hat2 in Hq2.
      destruct HJ1 as [_ _ Hf1l Hf1pm _]. destruct HJ2 as [_ _ Hf2l _ _].
      pose proof (PMF_at f1 q Hf1pm ltac:(lia)) as Hpmq.
      destruct (in_dec Nat.eq_dec q (fs_flatten (pairing defects))) as [Hin | Hnin].
      - (* q was paired: it was a defect and is negated once *)
        rewrite (proj1 (NoDup_count_occ' Nat.eq_dec _) Hnd q Hin) in Hq2.
        pose proof (proj1 (fs_where_neg_spec f1 q) (fs_drop_in _ _ (Hs1 q Hin))) as [_ Hm].
        rewrite Hm in Hq2. change (fs_sgn 1) with (-1) in Hq2. lia.
      - rewrite (proj1 (count_occ_not_In Nat.eq_dec _ q) Hnin) in Hq2.
        change (fs_sgn 0) with 1 in Hq2.
        assert (Hqd : In q defects) by (apply fs_where_neg_spec; split; lia).
        unfold fs_drop_last_if_odd in Hs2. destruct (Nat.odd (length defects)) eqn:Hodd.
        + split; [reflexivity |].
          destruct defects as [| d0 dr] eqn:Hdef; [destruct Hqd |].
          rewrite (app_removelast_last 0%nat (l := d0 :: dr)) in Hqd by discriminate.
          apply in_app_or in Hqd as [Hqd | [Hqd | []]]; [| now symmetry].
          exfalso. apply Hnin. now apply Hs2.
        + exfalso. apply Hnin. now apply Hs2. }
    assert (HM2 : (fs_count fs_is_m1 f2 <= 1)%nat).
    { rewrite <- fs_where_neg_length.
      assert (Hincl : incl (fs_where_neg f2) [last defects 0%nat]).
      { intros q Hq. destruct (Hneg q Hq) as [_ ->]. now left. }
      apply (NoDup_incl_length (fs_where_neg_from_NoDup f2 0%nat)) in Hincl. exact Hincl. }
    assert (HM2' : fs_count fs_is_m1 f2 = (if Nat.even (ndiff init target) then 0 else 1)%nat).
    { rewrite HD, <- Hev1, <- Hev2. destruct (fs_count fs_is_m1 f2) as [| [| n]]; simpl; try reflexivity; lia. }
    destruct (Nat.ltb_spec 1 (fs_count fs_is_m1 f2)) as [Hbad | _]; [lia |].
    (* the final self-check compares found fluxes with the target *)
    assert (Hfound : ndiff (fluxes b2) target = fs_count fs_is_m1 f2).
    { destruct HJ2 as [Hb2l Hb2pm Hf2l Hf2pm Heq2]. unfold ndiff.
      pose proof (fluxes_length b2) as Hfl2.
      apply fs_count_ext; [rewrite fs_map2_length; lia |].
      rewrite fs_map2_length by lia. intros i Hi. rewrite fs_map2_at, fluxes_at by lia.
      pose proof (Heq2 i ltac:(lia)) as He. pose proof (gflux_pm b2 i Hb2pm Hb2l ltac:(lia)) as H1.
      pose proof (PMF_at f2 i Hf2pm ltac:(lia)) as H2.
      unfold fs_nonzero, fs_is_m1, pm in *. destruct H1 as [H1 | H1], H2 as [H2 | H2]; rewrite H1, H2 in *; lia. }
    fold (ndiff (fluxes b2) target). rewrite Hfound.
    destruct (Nat.ltb_spec 1 (fs_count fs_is_m1 f2)) as [Hbad | _]; [lia |].
    exists b2. destruct HJ2. repeat split; auto. now rewrite <- HM2'.
  Qed.

End Contract.

(* ------------------------------------------------------------------ the two conventions *)
Lemma fs_solve_ext : forall flux1 flux2 ep pairing path target guess,
  (forall u, flux1 u = flux2 u) ->
  fs_solve flux1 ep pairing path target guess = fs_solve flux2 ep pairing path target guess.
Proof.
  intros flux1 flux2 ep pairing path target guess H. unfold fs_solve. rewrite H.
  destruct (fs_flip_adjacent ep 0 guess (fs_map2 Z.div target (flux2 guess))) as [b1 f1].
  destruct (fs_flip_isolated pairing path b1 f1) as [[b2 f2] |]; [| reflexivity].
  now rewrite H.
Qed.

Lemma fluxes_ujk : forall P u, fluxes (fun x d => - x * d) (fun _ => 1) P u = fs_fluxes_ujk P u.
Proof.
  intros. unfold fluxes, fs_fluxes_ujk. apply map_ext. intros p. unfold gflux, fs_flux_ujk, fs_gprod. ring.
Qed.
Lemma fluxes_bonds : forall P u, fluxes (fun x d => x * d) (fun p => fs_sign_real (length p)) P u = fs_fluxes_bonds P u.
Proof. intros. unfold fluxes, fs_fluxes_bonds. apply map_ext. intros p. reflexivity. Qed.

Lemma fs_sign_real_pm : forall n, pm (fs_sign_real n).
Proof.
  intros n. unfold fs_sign_real, pm. pose proof (Nat.mod_upper_bound n 4 ltac:(lia)).
  destruct (n mod 4)%nat as [| [| [| [| k]]]]; auto; lia.
Qed.

Definition fs_contract_statement (flux : list fs_plaq -> list Z -> list Z) : Prop :=
  forall (P : list fs_plaq) (ep : list (option nat * option nat))
         (pairing : list nat -> list (nat * nat)) (path : nat -> nat -> option (list nat * list nat))
         (target guess : list Z),
    fs_wf P ep = true ->
    (forall defects, NoDup defects -> fs_pairing_ok defects (pairing defects) = true) ->
    (forall a b, (a < length P)%nat -> (b < length P)%nat -> a <> b -> fs_path_ok ep a b (path a b) = true) ->
    length target = length P -> fs_pm1 target = true ->
    length guess = length ep -> fs_pm1 guess = true ->
    exists u, fs_solve (flux P) ep pairing path target guess = FS_Ok u
      /\ length u = length ep /\ fs_pm1 u = true
      /\ (Nat.even (ndiff (flux P guess) target) = true -> flux P u = target)
      /\ (Nat.even (ndiff (flux P guess) target) = false -> ndiff (flux P u) target = 1%nat).

Lemma fs_contract_generic : forall f pre,
  (forall x d, f (- x) d = - f x d) -> (forall x d, pm x -> pm d -> pm (f x d)) -> (forall p, pm (pre p)) ->
  fs_contract_statement (fluxes f pre).
Proof.
  intros f pre Hodd Hpm Hpre P ep pairing path target guess Hwf Hpair Hpath Htl Htpm Hgl Hgpm.
  destruct (fs_solver_contract f pre Hodd Hpm Hpre P ep Hwf pairing path Hpair Hpath target Htl
              (fs_pm1_PMF _ Htpm) guess Hgl (fs_pm1_PMF _ Hgpm)) as (u & Hrun & Hul & Hupm & Hres).
  exists u. repeat split; auto.
  - now apply PMF_fs_pm1.
  - intros Hev. rewrite Hev in Hres. apply ndiff_zero_eq; [| assumption].
    unfold fluxes. rewrite map_length. now rewrite Htl.
  - intros Hev. rewrite Hev in Hres. exact Hres.
Qed.

Lemma fs_contract_transfer : forall flux1 flux2, (forall P u, flux1 P u = flux2 P u) ->
  fs_contract_statement flux1 -> fs_contract_statement flux2.
Proof.
  intros flux1 flux2 H H1 P ep pairing path target guess Hwf Hpair Hpath Htl Htpm Hgl Hgpm.
  destruct (H1 P ep pairing path target guess Hwf Hpair Hpath Htl Htpm Hgl Hgpm) as (u & Hrun & Hul & Hupm & He & Ho).
  exists u. rewrite <- (fs_solve_ext (flux1 P) (flux2 P)) by (intros; apply H).
  rewrite <- !H. repeat split; auto.
Qed.

(* solver_contract: ujk_from_fluxes with fluxes_from_ujk *)
Lemma fs_solver_contract_ujk : fs_contract_statement fs_fluxes_ujk.
Proof.
  apply (fs_contract_transfer _ _ fluxes_ujk). apply fs_contract_generic.
  - intros. ring.
  - intros x d Hx Hd. unfold pm in *. nia.
  - intros. now left.
Qed.
(* solver_deprecated_contract: find_flux_sector with fluxes_from_bonds *)
Lemma fs_solver_contract_bonds : fs_contract_statement fs_fluxes_bonds.
Proof.
  apply (fs_contract_transfer _ _ fluxes_bonds). apply fs_contract_generic.
  - intros. ring.
  - intros x d Hx Hd. unfold pm in *. nia.
  - intros. apply fs_sign_real_pm.
Qed.

(* ------------------------------------------------------------------ the contracts are satisfiable *)
(* a pairing function meeting the contract on every duplicate-free list: pair consecutive elements *)
Fixpoint fs_pair_consec (l : list nat) : list (nat * nat) :=
  match l with
  | a :: b :: r => (a, b) :: fs_pair_consec r
  | _ => []
  end.
Lemma fs_pair_consec_flatten : forall n l, (length l <= n)%nat ->
  fs_flatten (fs_pair_consec l) = fs_drop_last_if_odd l.
Proof.
  unfold fs_drop_last_if_odd.
  induction n as [n IH] using lt_wf_ind. intros [| a [| b r]] Hl; try reflexivity.
  assert (Hr : fs_flatten (fs_pair_consec r) = if Nat.odd (length r) then removelast r else r)
    by (apply (IH (length r)); simpl in Hl; lia).
  clear IH.
  change (fs_flatten (fs_pair_consec (a :: b :: r))) with (a :: b :: fs_flatten (fs_pair_consec r)).
  rewrite Hr. change (length (a :: b :: r)) with (S (S (length r))).
  rewrite Nat.odd_succ, Nat.even_succ. destruct (Nat.odd (length r)) eqn:Ho; [| reflexivity].
  destruct r as [| c r']; [discriminate |]. reflexivity.
Qed.
Lemma NoDup_removelast : forall l : list nat, NoDup l -> NoDup (removelast l).
Proof.
  induction l as [| x l IH]; intros H; simpl; [constructor |].
  destruct l as [| y l']; [constructor |]. inversion H as [| ? ? Hx Hnd]; subst.
  constructor; [| now apply IH]. intros Hin. apply Hx. now apply removelast_in.
Qed.
Lemma fs_subset_refl : forall l, fs_subset l l = true.
Proof.
  intros l. unfold fs_subset. apply forallb_forall. intros x Hx. apply existsb_exists.
  exists x. split; [assumption | apply Nat.eqb_refl].
Qed.
Lemma fs_pair_consec_ok : forall defects, NoDup defects -> fs_pairing_ok defects (fs_pair_consec defects) = true.
Proof.
  intros defects Hnd. unfold fs_pairing_ok. rewrite (fs_pair_consec_flatten (length defects)) by lia.
  rewrite !fs_subset_refl, !andb_true_r. apply NoDup_as_nodup.
  unfold fs_drop_last_if_odd. destruct (Nat.odd (length defects)); [now apply NoDup_removelast | assumption].
Qed.

(* the A* model is a path oracle meeting the contract whenever it returns a path and its adjacency lists
   agree with edges.adjacent_plaquettes *)
Lemma as_path_meets_contract : forall adj h ep a b early maxits ns es mg,
  (forall x y e, In (y, e) (adj x) -> (0 <= h x y) /\ (x <> y -> 0 < h x y)) ->
  (forall x e y, In (x, e) (adj y) -> as_joined ep e x y = true) ->
  as_path adj h a b early maxits = AS_Path ns es mg ->
  fs_path_ok ep a b (Some (ns, es)) = true.
Proof.
  intros adj h ep a b early maxits ns es mg Hh Hadj Hrun.
  pose proof (as_path_valid adj h a b early Hh maxits) as Hv. rewrite Hrun in Hv.
  destruct Hv as (Hhd & Hlast & Hlen & Hch & Hnd).
  destruct ns as [| g ns']; [discriminate |]. injection Hhd as ->.
  change (fs_path_ok ep a b (Some (b :: ns', es))) with
    ((b =? b)%nat && (last (b :: ns') b =? a)%nat && as_chain_ok (as_joined ep) (b :: ns') es && as_nodup (b :: ns')).
  rewrite Nat.eqb_refl, Hlast, Nat.eqb_refl, (as_chain_checker adj (as_joined ep) Hadj _ _ Hch), (NoDup_as_nodup _ Hnd).
  reflexivity.
Qed.

(* a concrete instance: two triangles sharing edge 2 *)
Lemma fs_contract_example :
  let P := [[(0%nat, 1); (1%nat, 1); (2%nat, 1)]; [(2%nat, -1); (3%nat, 1); (4%nat, 1)]] in
  let ep := [(Some 0, None); (Some 0, None); (Some 0, Some 1); (Some 1, None); (Some 1, None)]%nat in
  let path := (fun a b : nat => Some ([b; a], [2%nat])) in
  fs_wf P ep = true /\
  (forall defects, NoDup defects -> fs_pairing_ok defects (fs_pair_consec defects) = true) /\
  (forall a b, (a < length P)%nat -> (b < length P)%nat -> a <> b -> fs_path_ok ep a b (path a b) = true) /\
  fs_solve (fs_fluxes_ujk P) ep fs_pair_consec path [1; -1] [1; 1; 1; 1; 1] = FS_Ok [1; 1; -1; 1; 1] /\
  fs_solve (fs_fluxes_ujk P) ep fs_pair_consec path [1; 1] [1; 1; 1; 1; 1] = FS_Ok [1; 1; 1; 1; 1].
Proof.
  split; [reflexivity |]. split; [exact fs_pair_consec_ok |]. split; [| split; vm_compute; reflexivity].
  intros a b Ha Hb Hab. simpl in Ha, Hb.
  destruct a as [| [| a]]; destruct b as [| [| b]]; try lia; reflexivity.
Qed.

(* the A* model with early stopping and budget n_edges IS a total path oracle meeting the contract on a connected
   plaquette graph (C11_astar_budget + as_path_meets_contract): this discharges the path-oracle hypothesis of the solver
   contract for the model of path_between_plaquettes(l, a, b, maxits = l.n_edges) *)
Definition as_oracle (adj : nat -> list (nat * nat)) (h : nat -> nat -> Z) (maxits : nat) (a b : nat)
  : option (list nat * list nat) :=
  match as_path adj h a b true maxits with
  | AS_Path ns es _ => Some (ns, es)
  | _ => None
  end.

Lemma as_oracle_contract : forall adj h ep nF,
  (forall x y e, In (y, e) (adj x) -> 0 <= h x y /\ (x <> y -> 0 < h x y)) ->
  (forall g x y e, In (y, e) (adj x) -> h x g <= h x y + h y g) ->
  (forall x g, 0 <= h x g) ->
  (forall x y e, In (y, e) (adj x) -> as_joined ep e y x = true) ->
  (forall a b, (a < nF)%nat -> (b < nF)%nat -> exists ws es, as_chain adj ws es /\ hd_error ws = Some b /\ last ws b = a) ->
  forall a b, (a < nF)%nat -> (b < nF)%nat -> a <> b -> fs_path_ok ep a b (as_oracle adj h (length ep) a b) = true.
Proof.
  intros adj h ep nF Hh Hcons Hhg Hadj Hconn a b Ha Hb Hab.
  assert (G1 : forall x y e, In (y, e) (adj x) -> (e < length ep)%nat).
  { intros x y e Hin. apply (as_joined_sides ep e y x 0%nat (Hadj x y e Hin)). }
  assert (G2 : forall x y e x' y', In (y, e) (adj x) -> In (y', e) (adj x') -> (x = x' /\ y = y') \/ (x = y' /\ y = x')).
  { intros x y e x' y' H1 H2. pose proof (Hadj _ _ _ H1) as J1. pose proof (Hadj _ _ _ H2) as J2.
    unfold as_joined in J1, J2. destruct (nth_error ep e) as [[[u |] [v |]] |]; try discriminate. lia. }
  destruct (as_path_budget adj h a b (length ep) true Hh (Hcons b) (fun n => Hhg n b) (not_eq_sym Hab) G1 G2 (Hconn a b Ha Hb)
              (length ep) (le_n _)) as (ns & es & mg & Hrun & _).
  unfold as_oracle. rewrite Hrun.
  apply (as_path_meets_contract adj h ep a b true (length ep) ns es mg Hh); [| exact Hrun].
  intros x e y Hin. apply Hadj. exact Hin.
Qed.
