(* Proofs/PeriodicClosed.v — C10 polygons_all_sizes in the form of the bounded theorem (closed_tiling as a
   proposition): census, total, areas summing to 1, every edge two-sided in the edges_plaquettes table, Euler —
   for honeycomb, hex-square-oct, tri-non and the square lattice at ALL sizes >= 2. *)
From Coq Require Import List ZArith Bool Arith Lia.
From Koala Require Import Gen.TilingGen Model.Lattice Model.TableSpec Model.Tiling Model.Examples Proofs.LatticeFacts
     Proofs.PlaqTablesFacts Proofs.PeriodicExamples Proofs.PeriodicGenerators.
Import ListNotations.

(* every directed edge on exactly one plaquette  =>  every row of the table is [Some _, Some _] *)
Lemma two_sided_of_cover L ps :
  NoDup (flat_map plaq_darts ps) -> (forall d, valid_dart L d -> In d (flat_map plaq_darts ps)) ->
  two_sided L ps = true.
Proof.
  intros Hnd Hcov. unfold two_sided. apply forallb_forall. intros r Hr.
  apply (In_nth _ _ (None, None)) in Hr as (e & He & Er). rewrite edges_plaquettes_length in He.
  assert (Own : forall b, exists i, ep_col r b = Some i).
  { intros b. assert (Hcol : ep_col r b = find_last ps 0 (e, b) None)
      by (rewrite <- Er; exact (edges_plaquettes_col L ps e b He)). rewrite Hcol.
    pose proof (Hcov (e, b) He) as Hin. apply in_flat_map in Hin as (p & Hp & Hd).
    apply In_nth_error in Hp as (i & Hi). exists (0 + i).
    apply find_last_complete; [exact Hnd|]. exists p. split; assumption. }
  destruct (Own true) as (i & Hi). destruct (Own false) as (j & Hj).
  destruct r as [a b]. unfold ep_col in Hi, Hj. cbn [fst snd] in Hi, Hj. subst a b. reflexivity.
Qed.

Definition closed_tiling_prop (L : lattice) (census : list (nat * nat)) : Prop :=
  exists ps, find_all_plaquettes L = Some ps /\
    (forall k c, In (k, c) census -> count_sides ps k = c) /\
    length ps = fold_right Nat.add 0 (map snd census) /\
    area2_sum ps = (2 * scale L * scale L)%Z /\
    two_sided L ps = true /\
    nV L + length ps = nE L.

Lemma polygons_all_sizes_claim :
  (forall n, (2 <= n)%Z ->
     closed_tiling_prop (to_lattice (honeycomb n)) [(6, Z.to_nat (2 * n * honeycomb_nv n))]) /\
  (forall n, (2 <= n)%Z ->
     closed_tiling_prop (to_lattice (hex_square_oct n)) [(4, Z.to_nat (n * n)); (6, Z.to_nat (n * n)); (8, Z.to_nat (n * n))]) /\
  (forall nx ny, (2 <= nx)%Z -> (2 <= ny)%Z ->
     closed_tiling_prop (to_lattice (tri_non nx ny)) [(3, Z.to_nat (nx * ny)); (9, Z.to_nat (nx * ny))]) /\
  (forall nx ny, (2 <= nx)%Z -> (2 <= ny)%Z ->
     closed_tiling_prop (to_lattice (square nx ny)) [(4, Z.to_nat (nx * ny))]).
Proof.
  destruct areas_all_sizes_claim as (A1 & A2 & A3 & A4). split; [|split; [|split]].
  - intros n Hn. destruct (honeycomb_census_all_sizes n Hn) as (ps & Hf & C6 & Hl & _ & He & _ & Hnd & Hc).
    exists ps. split; [exact Hf|]. split; [|split; [|split; [|split]]].
    + intros k c [E|[]]. injection E as <- <-. exact C6.
    + cbn [map snd fold_right]. lia.
    + apply (A1 n Hn ps Hf).
    + apply two_sided_of_cover; [exact Hnd|intros d Hd; apply Hc, Hd].
    + exact He.
  - intros n Hn. destruct (hso_census_all_sizes n Hn) as (ps & Hf & C4 & C6 & C8 & Hl & _ & He & _ & Hnd & Hc).
    exists ps. split; [exact Hf|]. split; [|split; [|split; [|split]]].
    + intros k c [E|[E|[E|[]]]]; injection E as <- <-; assumption.
    + cbn [map snd fold_right]. lia.
    + apply (A2 n Hn ps Hf).
    + apply two_sided_of_cover; [exact Hnd|intros d Hd; apply Hc, Hd].
    + exact He.
  - intros nx ny Hx Hy. destruct (tri_non_census_all_sizes nx ny Hx Hy) as (ps & Hf & C3 & C9 & Hl & _ & He & _).
    destruct (tri_non_all_sizes nx ny Hx Hy) as (ps' & Hf' & _ & _ & _ & _ & Hnd & Hc).
    rewrite Hf in Hf'. injection Hf' as <-.
    exists ps. split; [exact Hf|]. split; [|split; [|split; [|split]]].
    + intros k c [E|[E|[]]]; injection E as <- <-; assumption.
    + cbn [map snd fold_right]. lia.
    + apply (A3 nx ny Hx Hy ps Hf).
    + apply two_sided_of_cover; [exact Hnd|intros d Hd; apply Hc, Hd].
    + exact He.
  - intros nx ny Hx Hy. destruct (square_census_all_sizes nx ny Hx Hy) as (ps & Hf & C4 & Hl & _ & He & _ & Hnd & Hc).
    exists ps. split; [exact Hf|]. split; [|split; [|split; [|split]]].
    + intros k c [E|[]]. injection E as <- <-. exact C4.
    + cbn [map snd fold_right]. lia.
    + apply (A4 nx ny Hx Hy ps Hf).
    + apply two_sided_of_cover; [exact Hnd|intros d Hd; apply Hc, Hd].
    + exact He.
Qed.
