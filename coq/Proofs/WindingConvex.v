(* Proofs/WindingConvex.v — geometry fact G1 for CONVEX polygons with any number of sides:
   on a closed walk whose edge directions are cyclically sorted by angle (every vertex a strict left turn,
   one revolution in total) the coded orientation filter says  winding = -1  and the shoelace area is
   positive; on the same polygon traversed the other way round  winding = +1  and the area is negative. *)
From Coq Require Import List ZArith Bool Arith Lia ZifyBool Permutation Sorted.
From Koala Require Import Model.Lattice Proofs.WindingConvexTri.
Import ListNotations.
Open Scope Z_scope.

(* ---------- cyclic pairs of a list ---------- *)
Fixpoint adj {A} (l : list A) : list (A * A) :=
  match l with
  | x :: (y :: _) as r => (x, y) :: adj r
  | _ => []
  end.
(* (predecessor, element) for every element, cyclically: exactly the pairing used by [winding] *)
Definition cycp {A} (d : A) (l : list A) : list (A * A) :=
  match l with [] => [] | _ => combine (last l d :: removelast l) l end.

Lemma combine_removelast {A} (x : A) r : combine (removelast (x :: r)) r = adj (x :: r).
Proof.
  revert x; induction r as [|y r IH]; intro x; [reflexivity|].
  change (removelast (x :: y :: r)) with (x :: removelast (y :: r)).
  cbn [combine adj]. f_equal. apply IH.
Qed.

Lemma cycp_cons {A} (d : A) x r : cycp d (x :: r) = (last (x :: r) d, x) :: adj (x :: r).
Proof. unfold cycp. cbn [combine]. f_equal. apply combine_removelast. Qed.

Lemma adj_app {A} (l : list A) y r : l <> [] ->
  adj (l ++ y :: r) = adj l ++ (last l y, y) :: adj (y :: r).
Proof.
  induction l as [|x l IH]; [congruence|]. intros _.
  destruct l as [|z l]; [reflexivity|].
  change ((x :: z :: l) ++ y :: r) with (x :: (z :: l) ++ y :: r).
  change (adj (x :: (z :: l) ++ y :: r)) with ((x, z) :: adj ((z :: l) ++ y :: r)).
  rewrite IH by congruence. reflexivity.
Qed.

Lemma last_app_cons' {A} (l : list A) y r d : last (l ++ y :: r) d = last (y :: r) d.
Proof. induction l as [|x l IH]; [reflexivity|]. cbn [app]. rewrite <- IH. destruct (l ++ y :: r) eqn:E; [destruct l; discriminate|reflexivity]. Qed.

Lemma last_indep {A} (l : list A) d d' : l <> [] -> last l d = last l d'.
Proof. induction l as [|x l IH]; [congruence|]. intros _. destruct l; [reflexivity|]. cbn [last]. apply IH. congruence. Qed.

(* rotating a list permutes its cyclic pairs *)
Lemma cycp_rot {A} (d : A) (l1 l2 : list A) : Permutation (cycp d (l1 ++ l2)) (cycp d (l2 ++ l1)).
Proof.
  destruct l1 as [|a l1]; [rewrite app_nil_r; reflexivity|].
  destruct l2 as [|b l2]; [rewrite app_nil_r; reflexivity|].
  change ((a :: l1) ++ b :: l2) with (a :: (l1 ++ b :: l2)).
  change ((b :: l2) ++ a :: l1) with (b :: (l2 ++ a :: l1)).
  rewrite !cycp_cons.
  change (a :: l1 ++ b :: l2) with ((a :: l1) ++ b :: l2).
  change (b :: l2 ++ a :: l1) with ((b :: l2) ++ a :: l1).
  rewrite !adj_app by congruence. rewrite !last_app_cons'.
  rewrite (last_indep (a :: l1) b d), (last_indep (b :: l2) a d) by congruence.
  set (pa := (last (b :: l2) d, a)). set (pb := (last (a :: l1) d, b)).
  change (pa :: adj (a :: l1) ++ pb :: adj (b :: l2)) with ((pa :: adj (a :: l1)) ++ (pb :: adj (b :: l2))).
  change (pb :: adj (b :: l2) ++ pa :: adj (a :: l1)) with ((pb :: adj (b :: l2)) ++ (pa :: adj (a :: l1))).
  apply Permutation_app_comm.
Qed.

Lemma adj_map {A B} (f : A -> B) l : adj (map f l) = map (fun ab => (f (fst ab), f (snd ab))) (adj l).
Proof.
  induction l as [|x l IH]; [reflexivity|]. destruct l as [|y l]; [reflexivity|].
  change (map f (x :: y :: l)) with (f x :: map f (y :: l)).
  change (map f (y :: l)) with (f y :: map f l) at 1.
  change (adj (f x :: f y :: map f l)) with ((f x, f y) :: adj (f y :: map f l)).
  change (f y :: map f l) with (map f (y :: l)). rewrite IH. reflexivity.
Qed.

Lemma last_map {A B} (f : A -> B) l d : last (map f l) (f d) = f (last l d).
Proof. induction l as [|x l IH]; [reflexivity|]. destruct l; [reflexivity|]. exact IH. Qed.

Lemma cycp_map {A B} (f : A -> B) d l :
  cycp (f d) (map f l) = map (fun ab => (f (fst ab), f (snd ab))) (cycp d l).
Proof.
  destruct l as [|x l]; [reflexivity|]. change (map f (x :: l)) with (f x :: map f l).
  rewrite !cycp_cons. change (f x :: map f l) with (map f (x :: l)).
  rewrite last_map, adj_map. reflexivity.
Qed.

Definition swap {A} (ab : A * A) : A * A := (snd ab, fst ab).

Lemma adj_snoc {A} (l : list A) x : l <> [] -> adj (l ++ [x]) = adj l ++ [(last l x, x)].
Proof. intro H. rewrite adj_app by assumption. reflexivity. Qed.

Lemma last_rev_cons {A} (x : A) l d : last (rev (x :: l)) d = x.
Proof. cbn [rev]. apply last_last. Qed.

Lemma adj_rev {A} (l : list A) : adj (rev l) = map swap (rev (adj l)).
Proof.
  induction l as [|x l IH]; [reflexivity|]. destruct l as [|y l]; [reflexivity|].
  change (rev (x :: y :: l)) with (rev (y :: l) ++ [x]).
  rewrite adj_snoc by (cbn [rev]; intro E; apply app_eq_nil in E; destruct E; discriminate).
  rewrite IH. rewrite last_rev_cons.
  change (adj (x :: y :: l)) with ((x, y) :: adj (y :: l)). cbn [rev]. rewrite map_app. reflexivity.
Qed.

(* reversing a list reverses every cyclic pair *)
Lemma cycp_rev {A} (d : A) l : Permutation (cycp d (rev l)) (map swap (cycp d l)).
Proof.
  destruct l as [|x l]; [reflexivity|].
  rewrite (cycp_cons d x l).
  destruct (rev (x :: l)) as [|z t] eqn:E.
  { cbn [rev] in E. apply app_eq_nil in E. destruct E; discriminate. }
  rewrite cycp_cons. rewrite <- E. rewrite adj_rev.
  assert (Hz : z = last (x :: l) d).
  { rewrite <- (rev_involutive (x :: l)). rewrite E. cbn [rev]. rewrite last_last. reflexivity. }
  assert (Hl : last (rev (x :: l)) d = x) by apply last_rev_cons.
  rewrite Hl, Hz. cbn [map]. unfold swap at 2; cbn [fst snd].
  apply perm_skip. apply Permutation_map. apply Permutation_sym, Permutation_rev.
Qed.

(* ---------- sums ---------- *)
Definition zsum (l : list Z) : Z := fold_right Z.add 0 l.
Lemma zsum_app l1 l2 : zsum (l1 ++ l2) = zsum l1 + zsum l2.
Proof. unfold zsum. induction l1 as [|x l1 IH]; cbn [app fold_right]; lia. Qed.
Lemma zsum_perm l1 l2 : Permutation l1 l2 -> zsum l1 = zsum l2.
Proof. unfold zsum. induction 1; cbn [fold_right] in *; lia. Qed.

Definition wcp (ab : vec * vec) : Z := wrap_count (fst ab) (snd ab).
Lemma winding_cycp vs : winding vs = zsum (map wcp (cycp vzero (map wP vs))).
Proof. destruct vs; reflexivity. Qed.

(* ---------- shoelace area of the unwrapped polygon = sum over ordered pairs of edge vectors ---------- *)
Fixpoint pairsum (l : list vec) : Z :=
  match l with [] => 0 | v :: r => vcross v (vsum r) + pairsum r end.

Lemma vsum_app l1 l2 : vsum (l1 ++ l2) = vadd (vsum l1) (vsum l2).
Proof.
  induction l1 as [|x l1 IH]; cbn [app vsum fold_right].
  - fold (vsum l2). destruct (vsum l2); reflexivity.
  - fold (vsum (l1 ++ l2)) (vsum l1). rewrite IH. unfold vadd; cbn [fst snd]. f_equal; ring.
Qed.

Lemma vcross_add_r a b c : vcross a (vadd b c) = vcross a b + vcross a c.
Proof. unfold vcross, vadd; cbn [fst snd]; ring. Qed.
Lemma vcross_add_l a b c : vcross (vadd a b) c = vcross a c + vcross b c.
Proof. unfold vcross, vadd; cbn [fst snd]; ring. Qed.
Lemma vcross_anti a b : vcross a b = - vcross b a.
Proof. unfold vcross; ring. Qed.
Lemma vcross_self a : vcross a a = 0.
Proof. unfold vcross; ring. Qed.
Lemma vcross_zero_r a : vcross a vzero = 0.
Proof. unfold vcross, vzero; cbn [fst snd]; ring. Qed.

Lemma pairsum_app l1 l2 : pairsum (l1 ++ l2) = pairsum l1 + pairsum l2 + vcross (vsum l1) (vsum l2).
Proof.
  induction l1 as [|x l1 IH]; cbn [app pairsum].
  - unfold vsum at 1; cbn [fold_right]. unfold vcross, vzero; cbn [fst snd]. ring.
  - rewrite IH, vsum_app, vcross_add_r. change (vsum (x :: l1)) with (vadd x (vsum l1)).
    rewrite vcross_add_l. ring.
Qed.

(* the cyclic shoelace sum along  q, q+w1, q+w1+w2, ...  closed by an arbitrary last point y *)
Lemma shoelace_chain q l y :
  zsum (map (fun pq => vcross (fst pq) (snd pq)) (combine (q :: cumsum_from q l) (cumsum_from q l ++ [y])))
  = vcross q (vsum l) + pairsum l + vcross (vadd q (vsum l)) y.
Proof.
  revert q; induction l as [|w l IH]; intro q.
  - cbn. unfold vcross, vadd, vzero; cbn [fst snd]. ring.
  - change (cumsum_from q (w :: l)) with (vadd q w :: cumsum_from (vadd q w) l).
    set (q' := vadd q w) in *. set (c := cumsum_from q' l).
    change (combine (q :: q' :: c) ((q' :: c) ++ [y])) with ((q, q') :: combine (q' :: c) (c ++ [y])).
    cbn [map]. unfold zsum in *. cbn [fold_right fst snd]. subst c. rewrite IH. subst q'. cbn [pairsum]. change (vsum (w :: l)) with (vadd w (vsum l)).
    unfold vcross, vadd; cbn [fst snd]. ring.
Qed.

Lemma area2_pairsum p vs : vsum vs = vzero -> area2 (cumsum_from p vs) = pairsum vs.
Proof.
  destruct vs as [|v r]; [reflexivity|]. intro Hs.
  cbn [cumsum_from]. unfold area2, rotl. fold (zsum (map (fun pq => vcross (fst pq) (snd pq))
    (combine (vadd p v :: cumsum_from (vadd p v) r) (cumsum_from (vadd p v) r ++ [vadd p v])))).
  rewrite shoelace_chain. cbn [pairsum].
  change (vsum (v :: r)) with (vadd v (vsum r)) in Hs.
  destruct p as [px py], v as [vx vy], (vsum r) as [sx sy]. unfold vadd, vzero in Hs; cbn [fst snd] in Hs.
  injection Hs as Hx Hy. unfold vcross, vadd; cbn [fst snd]. nia.
Qed.

(* rotation and reversal of a closed polygon *)
Lemma vsum_rot l1 l2 : vsum (l1 ++ l2) = vsum (l2 ++ l1).
Proof. rewrite !vsum_app. unfold vadd. f_equal; ring. Qed.

Lemma pairsum_rot l1 l2 : vsum (l1 ++ l2) = vzero -> pairsum (l1 ++ l2) = pairsum (l2 ++ l1).
Proof.
  rewrite vsum_app, !pairsum_app. destruct (vsum l1) as [ax ay], (vsum l2) as [bx by_].
  unfold vadd, vzero, vcross; cbn [fst snd]. intro H; injection H as Hx Hy. nia.
Qed.

Definition rv (vs : list vec) : list vec := map vneg (rev vs).   (* the same polygon walked the other way *)

Lemma vsum_map_vneg l : vsum (map vneg l) = vneg (vsum l).
Proof.
  induction l as [|x l IH]; [reflexivity|]. cbn [map]. change (vsum (vneg x :: map vneg l)) with (vadd (vneg x) (vsum (map vneg l))).
  rewrite IH. change (vsum (x :: l)) with (vadd x (vsum l)). unfold vadd, vneg; cbn [fst snd]. f_equal; ring.
Qed.
Lemma vsum_single x : vsum [x] = x.
Proof. destruct x as [a b]. unfold vsum, vadd, vzero; cbn [fold_right fst snd]. f_equal; ring. Qed.
Lemma vsum_rev l : vsum (rev l) = vsum l.
Proof.
  induction l as [|x l IH]; [reflexivity|]. cbn [rev]. rewrite vsum_app, IH, vsum_single.
  change (vsum (x :: l)) with (vadd x (vsum l)). unfold vadd; cbn [fst snd]. f_equal; ring.
Qed.
Lemma vsum_rv l : vsum l = vzero -> vsum (rv l) = vzero.
Proof. intro H. unfold rv. rewrite vsum_map_vneg, vsum_rev, H. reflexivity. Qed.

Lemma pairsum_map_vneg l : pairsum (map vneg l) = pairsum l.
Proof.
  induction l as [|x l IH]; [reflexivity|]. cbn [map pairsum]. rewrite IH, vsum_map_vneg.
  unfold vcross, vneg; cbn [fst snd]. ring.
Qed.
Lemma pairsum_rev l : pairsum (rev l) = - pairsum l.
Proof.
  induction l as [|x l IH]; [reflexivity|]. cbn [rev]. rewrite pairsum_app, IH, vsum_rev, vsum_single.
  cbn [pairsum]. change (vsum []) with vzero. rewrite vcross_zero_r, (vcross_anti x (vsum l)). ring.
Qed.
Lemma pairsum_rv l : pairsum (rv l) = - pairsum l.
Proof. unfold rv. rewrite pairsum_map_vneg. apply pairsum_rev. Qed.

(* ---------- angular order of directions ---------- *)
(* angle of v measured anticlockwise from the direction (0,-1), in [0, 2 pi):  vup v  <->  angle in [0, pi).
   (0,-1) is the direction of the code's branch cut: angs = atan2(v_x, v_y) = pi.) *)
Definition ang_lt (a b : vec) : bool :=
  (vup a && negb (vup b)) || (eqb (vup a) (vup b) && (0 <? vcross a b)).
Definition ang_sorted (l : list vec) : Prop := Sorted (fun a b => ang_lt a b = true) l.

Lemma ang_lt_trans a b c : ang_lt a b = true -> ang_lt b c = true -> ang_lt a c = true.
Proof.
  destruct a as [ax ay], b as [bx by_], c as [cx cy].
  unfold ang_lt, vup, w_up, wP, vcross; cbn [fst snd].
  intros H1 H2.
  assert (I : (ax * cy - ay * cx) * bx = (ax * by_ - ay * bx) * cx + (bx * cy - by_ * cx) * ax) by ring.
  destruct (Z.ltb_spec 0 ax); destruct (Z.ltb_spec 0 bx); destruct (Z.ltb_spec 0 cx);
  destruct (Z.eqb_spec ax 0); destruct (Z.eqb_spec bx 0); destruct (Z.eqb_spec cx 0); try lia;
  cbn [andb orb negb eqb] in *; try discriminate; try reflexivity.
  all: try (destruct (Z.ltb_spec ay 0); cbn [andb orb negb eqb] in *; try discriminate; try reflexivity).
  all: try (destruct (Z.ltb_spec by_ 0); cbn [andb orb negb eqb] in *; try discriminate; try reflexivity).
  all: try (destruct (Z.ltb_spec cy 0); cbn [andb orb negb eqb] in *; try discriminate; try reflexivity).
  all: try nia.
Qed.

Lemma ang_sorted_strong l : ang_sorted l -> StronglySorted (fun a b => ang_lt a b = true) l.
Proof. apply Sorted_StronglySorted. intros a b c. apply ang_lt_trans. Qed.

Lemma ang_lt_lo_lo a b : ang_lt a b = true -> vup a = false -> vup b = false.
Proof. unfold ang_lt. intros H Ha. rewrite Ha in H. destruct (vup b); [discriminate|reflexivity]. Qed.
Lemma ang_lt_up_up a b : ang_lt a b = true -> vup b = true -> vup a = true.
Proof. unfold ang_lt. intros H Hb. rewrite Hb in H. destruct (vup a); [reflexivity|discriminate]. Qed.
Lemma ang_lt_same a b : ang_lt a b = true -> vup a = vup b -> 0 < vcross a b.
Proof. unfold ang_lt. intros H E. rewrite E in H. destruct (vup b); cbn in H; lia. Qed.

(* the classes are closed under addition, and neither contains the zero vector *)
Lemma vup_add a b : vup a = true -> vup b = true -> vup (vadd a b) = true.
Proof. destruct a, b. unfold vup, w_up, wP, vadd; cbn [fst snd]. lia. Qed.
Lemma vlo_add a b : vlo a = true -> vlo b = true -> vlo (vadd a b) = true.
Proof. destruct a, b. unfold vlo, w_lo, wP, vadd; cbn [fst snd]. lia. Qed.
Lemma vup_sum l : l <> [] -> Forall (fun v => vup v = true) l -> vup (vsum l) = true.
Proof.
  induction l as [|x l IH]; [congruence|]. intros _ H. inversion H as [|? ? Hx Hl]; subst.
  destruct l as [|y l]; [rewrite vsum_single; exact Hx|].
  change (vsum (x :: y :: l)) with (vadd x (vsum (y :: l))). apply vup_add; [exact Hx|apply IH; [congruence|exact Hl]].
Qed.
Lemma vlo_sum l : l <> [] -> Forall (fun v => vlo v = true) l -> vlo (vsum l) = true.
Proof.
  induction l as [|x l IH]; [congruence|]. intros _ H. inversion H as [|? ? Hx Hl]; subst.
  destruct l as [|y l]; [rewrite vsum_single; exact Hx|].
  change (vsum (x :: y :: l)) with (vadd x (vsum (y :: l))). apply vlo_add; [exact Hx|apply IH; [congruence|exact Hl]].
Qed.

(* ---------- left turns ---------- *)
Definition left_turns (vs : list vec) : Prop :=
  Forall (fun ab => 0 < vcross (fst ab) (snd ab)) (cycp vzero vs).

Lemma adj_snd {A} (x : A) r : map snd (adj (x :: r)) = r.
Proof. revert x; induction r as [|y r IH]; intro x; [reflexivity|]. cbn [adj map snd]. f_equal. apply IH. Qed.
Lemma cycp_snd {A} (d : A) l : map snd (cycp d l) = l.
Proof. destruct l as [|x r]; [reflexivity|]. rewrite cycp_cons. cbn [map snd]. f_equal. apply adj_snd. Qed.

Lemma left_turns_nonzero vs : left_turns vs -> Forall (fun v => v <> vzero) vs.
Proof.
  unfold left_turns. intro H. rewrite <- (cycp_snd vzero vs).
  induction H as [|ab l Hab Hl IH]; [constructor|]. cbn [map]. constructor; [|exact IH].
  apply (cross_nonzero_r (fst ab)). lia.
Qed.

Lemma left_turns_rot l1 l2 : left_turns (l1 ++ l2) -> left_turns (l2 ++ l1).
Proof. unfold left_turns. apply Permutation_Forall. apply cycp_rot. Qed.

(* ---------- winding as a count of class changes ---------- *)
Definition lu (ab : vec * vec) : Z := if vlo (fst ab) && vup (snd ab) then 1 else 0.   (* crosses the cut *)
Definition ul (ab : vec * vec) : Z := if vup (fst ab) && vlo (snd ab) then 1 else 0.

Lemma winding_pairs vs :
  winding vs = zsum (map (fun ab => wrap_count (wP (fst ab)) (wP (snd ab))) (cycp vzero vs)).
Proof.
  rewrite winding_cycp. change vzero with (wP vzero) at 1. rewrite cycp_map, map_map. reflexivity.
Qed.

Lemma zsum_map_ext {A} (f g : A -> Z) l : Forall (fun x => f x = g x) l -> zsum (map f l) = zsum (map g l).
Proof. unfold zsum. induction 1 as [|x l Hx Hl IH]; cbn [map fold_right]; [reflexivity|]. rewrite Hx, IH. reflexivity. Qed.

Lemma zsum_map_opp {A} (f : A -> Z) l : zsum (map (fun x => - f x) l) = - zsum (map f l).
Proof. unfold zsum. induction l as [|x l IH]; cbn [map fold_right]; [reflexivity|]. rewrite IH. ring. Qed.

Lemma winding_left vs : left_turns vs -> winding vs = - zsum (map lu (cycp vzero vs)).
Proof.
  intro H. rewrite winding_pairs, <- zsum_map_opp. apply zsum_map_ext.
  eapply Forall_impl; [|exact H]. intros [a b]; cbn [fst snd]; intro Hc.
  rewrite wc_left by exact Hc. unfold lu; cbn [fst snd]. destruct (vlo a && vup b); reflexivity.
Qed.

Lemma vup_vneg v : vup (vneg v) = vlo v.
Proof. destruct v as [x y]. unfold vup, vlo, w_up, w_lo, wP, vneg; cbn [fst snd]. lia. Qed.
Lemma vlo_vneg v : vlo (vneg v) = vup v.
Proof. destruct v as [x y]. unfold vup, vlo, w_up, w_lo, wP, vneg; cbn [fst snd]. lia. Qed.
Lemma vcross_vneg a b : vcross (vneg b) (vneg a) = - vcross a b.
Proof. unfold vcross, vneg; cbn [fst snd]. ring. Qed.

Lemma winding_rv vs : left_turns vs -> winding (rv vs) = zsum (map ul (cycp vzero vs)).
Proof.
  intro H. rewrite winding_pairs. unfold rv.
  change vzero with (vneg vzero) at 1. rewrite cycp_map, map_map.
  rewrite (zsum_perm _ _ (Permutation_map _ (cycp_rev vzero vs))). rewrite map_map.
  apply zsum_map_ext. eapply Forall_impl; [|exact H]. intros [a b]; cbn [fst snd swap]; intro Hc.
  rewrite wc_right by (rewrite vcross_vneg; lia).
  rewrite vup_vneg, vlo_vneg. unfold ul; cbn [fst snd]. rewrite andb_comm. reflexivity.
Qed.

(* cyclically, the class changes lo->up and up->lo are equally many *)
Lemma adj_telescope (f : vec -> Z) x r :
  zsum (map (fun ab => f (snd ab) - f (fst ab)) (adj (x :: r))) = f (last (x :: r) vzero) - f x.
Proof.
  unfold zsum. revert x; induction r as [|y r IH]; intro x; [cbn; ring|].
  change (adj (x :: y :: r)) with ((x, y) :: adj (y :: r)). cbn [map fold_right fst snd]. rewrite IH.
  change (last (x :: y :: r) vzero) with (last (y :: r) vzero). ring.
Qed.

Lemma zsum_map_sub {A} (f g : A -> Z) l : zsum (map (fun x => f x - g x) l) = zsum (map f l) - zsum (map g l).
Proof. unfold zsum. induction l as [|x l IH]; cbn [map fold_right]; [reflexivity|]. rewrite IH. ring. Qed.

Lemma lu_ul_cyclic vs : Forall (fun v => v <> vzero) vs ->
  zsum (map ul (cycp vzero vs)) = zsum (map lu (cycp vzero vs)).
Proof.
  intro Hn. set (u := fun v : vec => if vup v then 1 else 0).
  assert (E : zsum (map (fun ab => lu ab - ul ab) (cycp vzero vs)) = 0).
  { rewrite (zsum_map_ext _ (fun ab => u (snd ab) - u (fst ab))).
    - destruct vs as [|x r]; [reflexivity|]. rewrite cycp_cons. cbn [map]. unfold zsum; cbn [fold_right].
      fold (zsum (map (fun ab => u (snd ab) - u (fst ab)) (adj (x :: r)))). rewrite adj_telescope.
      cbn [fst snd]. ring.
    - assert (Hf : Forall (fun ab => fst ab <> vzero /\ snd ab <> vzero) (cycp vzero vs)).
      { destruct vs as [|x r]; [constructor|]. 
        apply Forall_forall. intros [a b] Hin. unfold cycp in Hin.
        split; [apply in_combine_l in Hin|apply in_combine_r in Hin]; cbn [fst snd].
        - rewrite Forall_forall in Hn. apply Hn.
          destruct Hin as [<-|Hin].
          + destruct (@exists_last _ (x :: r)) as [l' [z E]]; [discriminate|]. rewrite E, last_last. apply in_or_app; right; left; reflexivity.
          + destruct (@exists_last _ (x :: r)) as [l' [z E]]; [discriminate|]. rewrite E in *. rewrite removelast_last in Hin. apply in_or_app; left; exact Hin.
        - rewrite Forall_forall in Hn. apply Hn. exact Hin. }
      eapply Forall_impl; [|exact Hf]. intros [a b]; cbn [fst snd]; intros [Ha Hb].
      unfold lu, ul, u; cbn [fst snd]. rewrite !vlo_negb_vup by assumption.
      destruct (vup a), (vup b); reflexivity. }
  rewrite zsum_map_sub in E. lia.
Qed.

(* ---------- the sorted representative ---------- *)
Lemma sorted_adj {A} (R : A -> A -> Prop) l : Sorted R l -> Forall (fun ab => R (fst ab) (snd ab)) (adj l).
Proof.
  induction 1 as [|x l Hs IH Hh]; [constructor|]. destruct l as [|y l]; [constructor|].
  change (adj (x :: y :: l)) with ((x, y) :: adj (y :: l)). constructor; [|exact IH].
  inversion Hh; subst. assumption.
Qed.

Lemma strong_first_lo l : StronglySorted (fun a b => ang_lt a b = true) l ->
  vup (hd vzero l) = false -> Forall (fun v => vup v = false) l.
Proof.
  intros H Hx. destruct l as [|x r]; [constructor|]. inversion H as [|? ? Hr Hf]; subst.
  cbn [hd] in Hx. constructor; [exact Hx|].
  eapply Forall_impl; [|exact Hf]. intros b Hb. exact (ang_lt_lo_lo x b Hb Hx).
Qed.

Lemma strong_last_up l : StronglySorted (fun a b => ang_lt a b = true) l ->
  vup (last l vzero) = true -> Forall (fun v => vup v = true) l.
Proof.
  induction 1 as [|x r Hr IH Hf]; [constructor|]. intro Hl.
  destruct r as [|y r]; [constructor; [exact Hl|constructor]|].
  change (last (x :: y :: r) vzero) with (last (y :: r) vzero) in Hl.
  constructor; [|apply IH; exact Hl].
  rewrite Forall_forall in Hf. apply (ang_lt_up_up x (last (y :: r) vzero)); [|exact Hl].
  apply Hf. destruct (@exists_last _ (y :: r)) as [l' [z E]]; [discriminate|]. rewrite E, last_last.
  apply in_or_app; right; left; reflexivity.
Qed.

Lemma vup_vzero : vup vzero = false. Proof. reflexivity. Qed.
Lemma vlo_vzero : vlo vzero = false. Proof. reflexivity. Qed.

Lemma last_In {A} (l : list A) d : l <> [] -> In (last l d) l.
Proof.
  intro H. destruct (@exists_last _ l H) as [l' [z E]]. rewrite E, last_last. apply in_or_app; right; left; reflexivity.
Qed.

Lemma sorted_first_up ws : ws <> [] -> vsum ws = vzero -> Forall (fun v => v <> vzero) ws -> ang_sorted ws ->
  vup (hd vzero ws) = true.
Proof.
  intros Hne Hs Hn Hsort. destruct (vup (hd vzero ws)) eqn:E; [reflexivity|exfalso].
  pose proof (strong_first_lo ws (ang_sorted_strong ws Hsort) E) as Hall.
  assert (Hlo : Forall (fun v => vlo v = true) ws).
  { rewrite Forall_forall in *. intros v Hv. rewrite vlo_negb_vup by (apply Hn; exact Hv). rewrite (Hall v Hv). reflexivity. }
  pose proof (vlo_sum ws Hne Hlo) as Hc. rewrite Hs, vlo_vzero in Hc. discriminate.
Qed.

Lemma sorted_last_lo ws : ws <> [] -> vsum ws = vzero -> Forall (fun v => v <> vzero) ws -> ang_sorted ws ->
  vlo (last ws vzero) = true.
Proof.
  intros Hne Hs Hn Hsort.
  assert (Hnz : last ws vzero <> vzero) by (rewrite Forall_forall in Hn; apply Hn, last_In, Hne).
  rewrite vlo_negb_vup by exact Hnz.
  destruct (vup (last ws vzero)) eqn:E; [exfalso|reflexivity].
  pose proof (strong_last_up ws (ang_sorted_strong ws Hsort) E) as Hall.
  pose proof (vup_sum ws Hne Hall) as Hc. rewrite Hs, vup_vzero in Hc. discriminate.
Qed.

Lemma sorted_lu ws : ws <> [] -> vsum ws = vzero -> left_turns ws -> ang_sorted ws ->
  zsum (map lu (cycp vzero ws)) = 1.
Proof.
  intros Hne Hs Hlt Hsort. pose proof (left_turns_nonzero ws Hlt) as Hn.
  pose proof (sorted_first_up ws Hne Hs Hn Hsort) as Hfirst.
  pose proof (sorted_last_lo ws Hne Hs Hn Hsort) as Hlast.
  destruct ws as [|x r]; [congruence|]. cbn [hd] in Hfirst.
  rewrite cycp_cons. cbn [map]. unfold zsum; cbn [fold_right].
  fold (zsum (map lu (adj (x :: r)))).
  unfold lu at 1; cbn [fst snd]. rewrite Hlast, Hfirst. cbn [andb].
  assert (E : zsum (map lu (adj (x :: r))) = zsum (map (fun _ => 0) (adj (x :: r)))).
  { apply zsum_map_ext. eapply Forall_impl; [|apply sorted_adj; exact Hsort].
    intros [a b]; cbn [fst snd]; intro Hab. unfold lu; cbn [fst snd].
    destruct (vlo a) eqn:Ea; [|reflexivity]. destruct (vup b) eqn:Eb; [|reflexivity]. exfalso.
    pose proof (ang_lt_up_up a b Hab Eb) as Ua.
    destruct a as [ax ay]. unfold vlo, vup, w_lo, w_up, wP in Ea, Ua; cbn [fst snd] in Ea, Ua. lia. }
  rewrite E. clear. induction (adj (x :: r)) as [|p l IH]; [reflexivity|]. cbn [map]. unfold zsum in *; cbn [fold_right]. lia.
Qed.

(* ---------- positivity of the pair sum ---------- *)
Lemma vcross_vsum_r v l : vcross v (vsum l) = zsum (map (vcross v) l).
Proof.
  induction l as [|x l IH]; [apply vcross_zero_r|]. change (vsum (x :: l)) with (vadd x (vsum l)).
  rewrite vcross_add_r, IH. reflexivity.
Qed.

Definition lturn (a b : vec) : Prop := 0 < vcross a b.

Lemma pairsum_pos l : StronglySorted lturn l -> 0 <= pairsum l /\ ((2 <= length l)%nat -> 0 < pairsum l).
Proof.
  induction 1 as [|x r Hr IH Hf]; [cbn; split; [lia|intro; lia]|].
  cbn [pairsum length]. rewrite vcross_vsum_r.
  assert (Hx : 0 <= zsum (map (vcross x) r) /\ (r <> [] -> 0 < zsum (map (vcross x) r))).
  { clear -Hf. induction Hf as [|y r Hy Hr IH]; [cbn; split; [lia|congruence]|].
    cbn [map]. unfold zsum in *; cbn [fold_right]. unfold lturn in Hy. split; [lia|intros _; lia]. }
  destruct IH as [IH1 IH2]. destruct Hx as [Hx1 Hx2]. split; [lia|].
  intro Hlen. destruct r as [|y r]; [cbn in Hlen; lia|]. specialize (Hx2 ltac:(discriminate)). lia.
Qed.

Lemma strong_app {A} (R : A -> A -> Prop) l1 l2 : StronglySorted R (l1 ++ l2) -> StronglySorted R l1 /\ StronglySorted R l2.
Proof.
  induction l1 as [|x l1 IH]; cbn [app]; intro H; [split; [constructor|exact H]|].
  inversion H as [|? ? Hs Hf]; subst. destruct (IH Hs) as [H1 H2]. split; [|exact H2].
  constructor; [exact H1|]. apply Forall_app in Hf. apply Hf.
Qed.

Lemma strong_impl {A} (R R' : A -> A -> Prop) (P : A -> Prop) l :
  (forall a b, P a -> P b -> R a b -> R' a b) -> Forall P l -> StronglySorted R l -> StronglySorted R' l.
Proof.
  intros Himp Hp H. induction H as [|x r Hr IH Hf]; [constructor|].
  inversion Hp as [|? ? Px Pr]; subst. constructor; [apply IH; exact Pr|].
  rewrite Forall_forall in *. intros y Hy. apply Himp; auto.
Qed.

(* a sorted list is a run of "up" directions followed by a run of "lo" directions *)
Lemma strong_split l : StronglySorted (fun a b => ang_lt a b = true) l ->
  exists U L, l = U ++ L /\ Forall (fun v => vup v = true) U /\ Forall (fun v => vup v = false) L.
Proof.
  induction 1 as [|x r Hr IH Hf]; [exists [], []; repeat split; constructor|].
  destruct (vup x) eqn:E.
  - destruct IH as [U [L [-> [HU HL]]]]. exists (x :: U), L. repeat split; [constructor; assumption|exact HL].
  - exists [], (x :: r). repeat split; [constructor|].
    constructor; [exact E|]. eapply Forall_impl; [|exact Hf]. intros b Hb. exact (ang_lt_lo_lo x b Hb E).
Qed.

Lemma left_turns_length vs : vs <> [] -> left_turns vs -> (3 <= length vs)%nat.
Proof.
  intros Hne H. destruct vs as [|a [|b [|c r]]]; [congruence| | |cbn; lia]; exfalso.
  - unfold left_turns, cycp in H; cbn in H. inversion H as [|? ? H1 _]; subst. cbn [fst snd] in H1. rewrite vcross_self in H1. lia.
  - unfold left_turns, cycp in H; cbn in H. inversion H as [|? ? H1 H2]; subst. inversion H2 as [|? ? H3 _]; subst.
    cbn [fst snd] in *. rewrite (vcross_anti b a) in H1. lia.
Qed.

Lemma sorted_pairsum ws : ws <> [] -> vsum ws = vzero -> left_turns ws -> ang_sorted ws -> 0 < pairsum ws.
Proof.
  intros Hne Hs Hlt Hsort. pose proof (left_turns_length ws Hne Hlt) as Hlen.
  pose proof (ang_sorted_strong ws Hsort) as Hst.
  destruct (strong_split ws Hst) as [U [L [-> [HU HL]]]].
  destruct (strong_app _ _ _ Hst) as [SU SL].
  assert (PU : StronglySorted lturn U).
  { eapply strong_impl; [|exact HU|exact SU]. cbn beta. intros a b Ha Hb Hab. apply ang_lt_same; congruence. }
  assert (PL : StronglySorted lturn L).
  { eapply strong_impl; [|exact HL|exact SL]. cbn beta. intros a b Ha Hb Hab. apply ang_lt_same; congruence. }
  destruct (pairsum_pos U PU) as [U1 U2]. destruct (pairsum_pos L PL) as [L1 L2].
  rewrite pairsum_app. rewrite vsum_app in Hs.
  assert (Hc : vcross (vsum U) (vsum L) = 0).
  { destruct (vsum U) as [ax ay], (vsum L) as [bx by_]. unfold vadd, vzero in Hs; cbn [fst snd] in Hs.
    injection Hs as Hx Hy. unfold vcross; cbn [fst snd]. nia. }
  rewrite Hc. rewrite app_length in Hlen.
  destruct (le_lt_dec 2 (length U)) as [HU2|HU2]; [specialize (U2 HU2); lia|].
  assert (HL2 : (2 <= length L)%nat) by lia. specialize (L2 HL2). lia.
Qed.

(* ---------- convex polygons ---------- *)
(* a closed walk all of whose vertices are strict left turns and whose edge directions, read cyclically from a
   suitable edge, are in strictly increasing angular order within one revolution [0, 2 pi) *)
Definition convex_ccw (vs : list vec) : Prop :=
  vs <> [] /\ vsum vs = vzero /\ left_turns vs /\
  exists l1 l2, vs = l1 ++ l2 /\ ang_sorted (l2 ++ l1).

Theorem convex_winding vs : convex_ccw vs -> winding vs = -1.
Proof.
  intros [Hne [Hs [Hlt [l1 [l2 [-> Hsort]]]]]].
  rewrite winding_left by exact Hlt.
  rewrite (zsum_perm _ _ (Permutation_map lu (cycp_rot vzero l1 l2))).
  rewrite sorted_lu; [reflexivity| |rewrite vsum_rot; exact Hs|apply left_turns_rot; exact Hlt|exact Hsort].
  intro E. apply app_eq_nil in E. destruct E; subst. apply Hne. reflexivity.
Qed.

Theorem convex_area vs p : convex_ccw vs -> 0 < area2 (cumsum_from p vs).
Proof.
  intros [Hne [Hs [Hlt [l1 [l2 [-> Hsort]]]]]].
  rewrite area2_pairsum by exact Hs. rewrite pairsum_rot by exact Hs.
  apply sorted_pairsum; [|rewrite vsum_rot; exact Hs|apply left_turns_rot; exact Hlt|exact Hsort].
  intro E. apply app_eq_nil in E. destruct E; subst. apply Hne. reflexivity.
Qed.

Theorem convex_rv_winding vs : convex_ccw vs -> winding (rv vs) = 1.
Proof.
  intros H. pose proof (convex_winding vs H) as Hw. destruct H as [Hne [Hs [Hlt _]]].
  rewrite winding_rv by exact Hlt. rewrite lu_ul_cyclic by (apply left_turns_nonzero; exact Hlt).
  rewrite winding_left in Hw by exact Hlt. lia.
Qed.

Theorem convex_rv_area vs p : convex_ccw vs -> area2 (cumsum_from p (rv vs)) < 0.
Proof.
  intros H. pose proof (convex_area vs p H) as Ha. destruct H as [Hne [Hs [Hlt _]]].
  rewrite area2_pairsum in Ha by exact Hs.
  rewrite area2_pairsum by (apply vsum_rv; exact Hs). rewrite pairsum_rv. lia.
Qed.

Theorem convex_length vs : convex_ccw vs -> (3 <= length vs)%nat.
Proof. intros [Hne [_ [Hlt _]]]. apply left_turns_length; assumption. Qed.

(* ---------- both orientations ---------- *)
Lemma vneg_involutive v : vneg (vneg v) = v.
Proof. destruct v as [x y]. unfold vneg; cbn [fst snd]. f_equal; ring. Qed.
Lemma rv_involutive vs : rv (rv vs) = vs.
Proof.
  unfold rv. rewrite <- map_rev, rev_involutive, map_map.
  rewrite (map_ext _ (fun v => v)) by apply vneg_involutive. apply map_id.
Qed.

(* clockwise convex polygon = an anticlockwise convex polygon walked the other way *)
Definition convex_cw (vs : list vec) : Prop := convex_ccw (rv vs).

Theorem G1_convex vs p :
  (convex_ccw vs -> winding vs = -1 /\ 0 < area2 (cumsum_from p vs)) /\
  (convex_cw vs -> winding vs = 1 /\ area2 (cumsum_from p vs) < 0).
Proof.
  split; intro H.
  - split; [apply convex_winding|apply convex_area]; exact H.
  - unfold convex_cw in H. rewrite <- (rv_involutive vs).
    split; [apply convex_rv_winding|apply convex_rv_area]; exact H.
Qed.

Corollary G1_convex_iff vs p : convex_ccw vs \/ convex_cw vs ->
  (winding vs = -1 <-> 0 < area2 (cumsum_from p vs)).
Proof. destruct (G1_convex vs p) as [H1 H2]. intros [H|H]; [destruct (H1 H)|destruct (H2 H)]; lia. Qed.

(* on the model's plaquette record: for a walk whose directed edge vectors form a convex polygon (either way
   round) the recorded winding number is -1 exactly when the recorded shoelace area is positive *)
Theorem G1_convex_plaquette L w :
  convex_ccw (map (dvec L) w) \/ convex_cw (map (dvec L) w) ->
  (p_winding (mk_plaquette L w) = -1 <-> 0 < p_area2 (mk_plaquette L w)).
Proof.
  intro H. destruct w as [|s w'].
  - exfalso. destruct H as [H|H]; destruct H as [Hne _]; apply Hne; reflexivity.
  - cbn [mk_plaquette p_winding p_area2]. unfold poly_points. apply G1_convex_iff. exact H.
Qed.
