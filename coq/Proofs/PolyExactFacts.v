(* Proofs/PolyExactFacts.v — the four clips of clip_polygon (Model/Clip.v) on a strictly convex
   polygon in general position: the region of the clipped polygon is EXACTLY
   region(P) /\ closed unit cell.

     cell_exact   convex_ccw P, strictly_convex P, no vertex of P on a cell line, no cell corner on
                  the line of an edge of P, clip_polygon P <> []   ==>   for every point p
                  in_poly (clip_polygon P) p  <->  in_poly P p /\ in_unit_square p

   (clip_polygon P = [] means that some stage found the whole polygon strictly outside; an empty
   vertex list has no edges, so in_poly [] is the whole plane and the statement is about the
   non-empty pieces — the ones with a clipped area.) *)
From Coq Require Import List ZArith QArith Bool Qminmax Lqa Lia.
From Koala Require Import Model.Clip Proofs.ClipFacts Proofs.PolyAreaFacts Proofs.PolyCellFacts Proofs.PolyRegionFacts Proofs.PolyStrictFacts.
Import ListNotations.
Open Scope Q_scope.

(* ---------- where the vertices of a clipped polygon come from ---------- *)
Lemma sh_step_vertex_kind (x : bool) (v : Q) (ge : bool) (w : point) (l : list point) : forall prev,
  In w (sh_step x v ge prev l) ->
  In w l \/ exists a b, In (a, b) (edges_from prev l) /\ hp_inside x v ge a <> hp_inside x v ge b /\ w = hp_intersect x v a b.
Proof.
  induction l as [|c r IH]; intros prev H; [destruct H|].
  cbn [sh_step] in H. apply in_app_or in H. destruct H as [H|H].
  - destruct (hp_inside x v ge c) eqn:Ec; destruct (hp_inside x v ge prev) eqn:Ep; cbn [In] in H.
    + destruct H as [<-|[]]. left. left. reflexivity.
    + destruct H as [<-|[<-|[]]]; [right|left; left; reflexivity].
      exists prev, c. split; [left; reflexivity|]. split; [congruence|reflexivity].
    + destruct H as [<-|[]]. right. exists prev, c. split; [left; reflexivity|]. split; [congruence|reflexivity].
    + destruct H.
  - destruct (IH c H) as [K|(a & b & K1 & K2 & K3)]; [left; right; exact K|].
    right. exists a, b. split; [right; exact K1|]. split; assumption.
Qed.

Lemma sh_clip1_vertex_kind (x : bool) (v : Q) (ge : bool) (P : polygon) (w : point) :
  In w (sh_clip1 x v ge P) ->
  In w P \/ exists a b, In (a, b) (edges P) /\ hp_inside x v ge a <> hp_inside x v ge b /\ w = hp_intersect x v a b.
Proof. destruct P as [|p0 r]; [intros []|]. apply sh_step_vertex_kind. Qed.

Lemma sh_clip1_vertex_line (x : bool) (v : Q) (ge : bool) (P : polygon) (w : point) :
  In w (sh_clip1 x v ge P) -> In w P \/ on_line x v w.
Proof.
  intro H. destruct (sh_clip1_vertex_kind x v ge P w H) as [K|(a & b & _ & M & ->)]; [left; exact K|].
  right. apply (mixed_on_line x v ge). exact M.
Qed.

Lemma clip_nonempty_inv (x : bool) (v : Q) (ge : bool) (P : polygon) :
  sh_clip1 x v ge P <> [] -> P <> [] /\ exists w, In w P /\ hp_inside x v ge w = true.
Proof.
  intro H. split; [intro E; rewrite E in H; apply H; reflexivity|].
  assert (D : forall p : point, {hp_inside x v ge p = false} + {~ hp_inside x v ge p = false}).
  { intro p. destruct (hp_inside x v ge p); [right; discriminate|left; reflexivity]. }
  destruct (Forall_Exists_dec _ D P) as [F|E].
  - exfalso. apply H. apply sh_clip1_all_out. exact F.
  - apply Exists_exists in E. destruct E as (w & Hw & Nw). exists w. split; [exact Hw|].
    destruct (hp_inside x v ge w); [reflexivity|exfalso; apply Nw; reflexivity].
Qed.

(* ---------- points on the line of an edge of P ---------- *)
Definition on_edge_line (P : polygon) (w : point) : Prop := exists a b, In (a, b) (edges P) /\ side a b w == 0.

Lemma segment_on_line (a b p q I : point) (t : Q) :
  side a b p == 0 -> side a b q == 0 ->
  px I == px p + t * (px q - px p) -> py I == py p + t * (py q - py p) -> side a b I == 0.
Proof. intros Hp Hq Hx Hy. rewrite (side_affine a b p q I t Hx Hy), Hp, Hq. ring. Qed.

Lemma intersect_on_line (x : bool) (v : Q) (ge : bool) (a b p q : point) :
  side a b p == 0 -> side a b q == 0 -> hp_inside x v ge p <> hp_inside x v ge q ->
  side a b (hp_intersect x v p q) == 0.
Proof.
  intros Hp Hq M. destruct (hp_mixed x v ge p q M) as (t & _ & _ & Hx & Hy & _).
  exact (segment_on_line a b p q _ t Hp Hq Hx Hy).
Qed.

Definition corners : list point := [(0, 0); (1, 0); (0, 1); (1, 1)].
Definition no_corner_on_boundary (P : polygon) : Prop :=
  forall a b k, In (a, b) (edges P) -> In k corners -> ~ side a b k == 0.

Section Cell.
Variable P : polygon.
Hypothesis HC : convex_ccw P.
Hypothesis HS : strictly_convex P.
Hypothesis Gx0 : generic_line true 0 P.
Hypothesis Gx1 : generic_line true 1 P.
Hypothesis Gy0 : generic_line false 0 P.
Hypothesis Gy1 : generic_line false 1 P.
Hypothesis HK : no_corner_on_boundary P.

Lemma stage1_vertices (w : point) : In w (stage1 P) -> In w P \/ (on_edge_line P w /\ on_line true 0 w).
Proof.
  intro H. destruct (sh_clip1_vertex_kind true 0 true P w H) as [K|(a & b & He & M & ->)]; [left; exact K|].
  right. split; [|apply (mixed_on_line true 0 true); exact M].
  exists a, b. split; [exact He|]. destruct (side_self a b) as [Z1 Z2].
  apply (intersect_on_line true 0 true a b a b Z1 Z2 M).
Qed.

Lemma stage1_edge_on_line (u w : point) : In (u, w) (edges (stage1 P)) ->
  (exists a b, In (a, b) (edges P) /\ side a b u == 0 /\ side a b w == 0) \/ (on_line true 0 u /\ on_line true 0 w).
Proof.
  intro He. pose proof (etype_all true 0 true P HC HS Gx0 (u, w) He) as T.
  inversion T as [a1 b1 Hab Ia Ib|p1 b1 Hpb Op Ib|a1 q1 Haq Ia Oq|u1 w1 Hu Hw]; subst.
  - left. exists u, w. destruct (side_self u w) as [Z1 Z2]. repeat split; assumption.
  - left. exists p1, w. destruct (side_self p1 w) as [Z1 Z2]. split; [exact Hpb|]. split; [|exact Z2].
    apply (intersect_on_line true 0 true p1 w p1 w Z1 Z2). congruence.
  - left. exists u, q1. destruct (side_self u q1) as [Z1 Z2]. split; [exact Haq|]. split; [exact Z1|].
    apply (intersect_on_line true 0 true u q1 u q1 Z1 Z2). congruence.
  - right. split; [apply (exit_on_line true 0 true P Gx0 u Hu)|apply (entry_on_line true 0 true P Gx0 w Hw)].
Qed.

Lemma stage2_vertices (w : point) : In w (stage2 P) ->
  In w P \/ (on_edge_line P w /\ (on_line true 0 w \/ on_line true 1 w)).
Proof.
  intro H. destruct (sh_clip1_vertex_kind true 1 false (stage1 P) w H) as [K|(a & b & He & M & ->)].
  - destruct (stage1_vertices w K) as [K1|[K1 K2]]; [left; exact K1|right; split; [exact K1|left; exact K2]].
  - right. destruct (stage1_edge_on_line a b He) as [(a0 & b0 & He0 & Za & Zb)|[La Lb]].
    + split; [|right; apply (mixed_on_line true 1 false); exact M].
      exists a0, b0. split; [exact He0|]. apply (intersect_on_line true 1 false a0 b0 a b Za Zb M).
    + exfalso. apply M. unfold on_line, coord in La, Lb.
      rewrite (proj2 (hp_in_le true 1 a)), (proj2 (hp_in_le true 1 b)); [reflexivity|unfold coord; lra|unfold coord; lra].
Qed.

Lemma gen_stage1 : generic_line true 1 (stage1 P).
Proof.
  intros w Hw L. destruct (sh_clip1_vertex_line true 0 true P w Hw) as [K|K]; [exact (Gx1 w K L)|].
  unfold on_line, coord in *. lra.
Qed.

Lemma corner_hit (w k : point) : on_edge_line P w -> In k corners -> peq w k -> False.
Proof.
  intros (a & b & He & Z) Hk Hp. apply (HK a b k He Hk).
  rewrite <- (side_peq a a b b w k (peq_refl a) (peq_refl b) Hp). exact Z.
Qed.

Lemma gen_stage2 : generic_line false 0 (stage2 P).
Proof.
  intros w Hw L. destruct (stage2_vertices w Hw) as [K|[K [K0|K1]]]; [exact (Gy0 w K L)| |];
    unfold on_line, coord in *.
  - apply (corner_hit w (0, 0) K); [unfold corners; cbn [In]; tauto|split; assumption].
  - apply (corner_hit w (1, 0) K); [unfold corners; cbn [In]; tauto|split; assumption].
Qed.

Lemma gen_stage3 : generic_line false 1 (stage3 P).
Proof.
  intros w Hw L. destruct (sh_clip1_vertex_line false 0 true (stage2 P) w Hw) as [K2|K2].
  - destruct (stage2_vertices w K2) as [K|[K [K0|K1]]]; [exact (Gy1 w K L)| |]; unfold on_line, coord in *.
    + apply (corner_hit w (0, 1) K); [unfold corners; cbn [In]; tauto|split; assumption].
    + apply (corner_hit w (1, 1) K); [unfold corners; cbn [In]; tauto|split; assumption].
  - unfold on_line, coord in *. lra.
Qed.

Lemma stage1_convex : convex_ccw (stage1 P) /\ strictly_convex (stage1 P).
Proof. split; [apply clip_convex; exact HC|apply clip_strictly_convex; assumption]. Qed.
Lemma stage2_convex : convex_ccw (stage2 P) /\ strictly_convex (stage2 P).
Proof.
  destruct stage1_convex as [C1 S1].
  split; [apply clip_convex; exact C1|apply clip_strictly_convex; [exact C1|exact S1|exact gen_stage1]].
Qed.
Lemma stage3_convex : convex_ccw (stage3 P) /\ strictly_convex (stage3 P).
Proof.
  destruct stage2_convex as [C2 S2].
  split; [apply clip_convex; exact C2|apply clip_strictly_convex; [exact C2|exact S2|exact gen_stage2]].
Qed.

Theorem cell_exact_sec (p : point) : clip_polygon P <> [] ->
  (in_poly (clip_polygon P) p <-> in_poly P p /\ in_unit_square p).
Proof.
  intro NE. change (clip_polygon P) with (sh_clip1 false 1 false (stage3 P)) in *.
  destruct (clip_nonempty_inv _ _ _ _ NE) as [NE3 N4].
  change (stage3 P) with (sh_clip1 false 0 true (stage2 P)) in NE3.
  destruct (clip_nonempty_inv _ _ _ _ NE3) as [NE2 N3].
  change (stage2 P) with (sh_clip1 true 1 false (stage1 P)) in NE2.
  destruct (clip_nonempty_inv _ _ _ _ NE2) as [NE1 N2].
  change (stage1 P) with (sh_clip1 true 0 true P) in NE1.
  destruct (clip_nonempty_inv _ _ _ _ NE1) as [_ N1].
  destruct stage1_convex as [C1 S1]. destruct stage2_convex as [C2 S2]. destruct stage3_convex as [C3 S3].
  pose proof (clip_halfplane_exact false 1 false (stage3 P) p C3 S3 gen_stage3 N4) as E4.
  pose proof (clip_halfplane_exact false 0 true (stage2 P) p C2 S2 gen_stage2 N3) as E3.
  change (sh_clip1 false 0 true (stage2 P)) with (stage3 P) in E3.
  pose proof (clip_halfplane_exact true 1 false (stage1 P) p C1 S1 gen_stage1 N2) as E2.
  change (sh_clip1 true 1 false (stage1 P)) with (stage2 P) in E2.
  pose proof (clip_halfplane_exact true 0 true P p HC HS Gx0 N1) as E1.
  change (sh_clip1 true 0 true P) with (stage1 P) in E1.
  pose proof (in_unit_square_hp p) as EU. tauto.
Qed.

(* the clipped polygon is again a strictly convex anticlockwise polygon *)
Theorem cell_strictly_convex_sec : convex_ccw (clip_polygon P) /\ strictly_convex (clip_polygon P).
Proof.
  destruct stage3_convex as [C3 S3]. change (clip_polygon P) with (sh_clip1 false 1 false (stage3 P)).
  split; [apply clip_convex; exact C3|apply clip_strictly_convex; [exact C3|exact S3|exact gen_stage3]].
Qed.
End Cell.

Theorem cell_exact (P : polygon) (p : point) :
  convex_ccw P -> strictly_convex P ->
  generic_line true 0 P -> generic_line true 1 P -> generic_line false 0 P -> generic_line false 1 P ->
  no_corner_on_boundary P -> clip_polygon P <> [] ->
  (in_poly (clip_polygon P) p <-> in_poly P p /\ in_unit_square p).
Proof. intros. apply cell_exact_sec; assumption. Qed.

Theorem cell_strictly_convex (P : polygon) :
  convex_ccw P -> strictly_convex P ->
  generic_line true 0 P -> generic_line true 1 P -> generic_line false 0 P -> generic_line false 1 P ->
  no_corner_on_boundary P -> convex_ccw (clip_polygon P) /\ strictly_convex (clip_polygon P).
Proof. intros. apply cell_strictly_convex_sec; assumption. Qed.

(* a polygon with non-zero clipped area has a non-empty clipped polygon *)
Lemma clipped_area_nonempty (P : polygon) : ~ clipped_area2 P == 0 -> clip_polygon P <> [].
Proof. intros H E. apply H. unfold clipped_area2. rewrite E. reflexivity. Qed.

(* ---------- the hypotheses of cell_exact as one boolean test (for instances) ---------- *)
Definition generic_lineb (x : bool) (v : Q) (P : polygon) : bool := forallb (fun w => negb (Qeqb (coord x w) v)) P.
Definition no_cornerb (P : polygon) : bool :=
  forallb (fun e : point * point => forallb (fun k => negb (Qeqb (side (fst e) (snd e) k) 0)) corners) (edges P).
Definition cell_hypsb (P : polygon) : bool :=
  convex_ccwb P && strictly_convexb P &&
  generic_lineb true 0 P && generic_lineb true 1 P && generic_lineb false 0 P && generic_lineb false 1 P &&
  no_cornerb P && negb (match clip_polygon P with [] => true | _ => false end).

Lemma generic_lineb_sound (x : bool) (v : Q) (P : polygon) : generic_lineb x v P = true -> generic_line x v P.
Proof.
  unfold generic_lineb. rewrite forallb_forall. intros H w Hw L. pose proof (H w Hw) as K.
  apply negb_true_iff in K. unfold on_line in L. apply Qeqb_iff in L. congruence.
Qed.
Lemma no_cornerb_sound (P : polygon) : no_cornerb P = true -> no_corner_on_boundary P.
Proof.
  unfold no_cornerb. rewrite forallb_forall. intros H a b k He Hk Z. pose proof (H (a, b) He) as K.
  rewrite forallb_forall in K. pose proof (K k Hk) as K2. cbn [fst snd] in K2.
  apply negb_true_iff in K2. apply Qeqb_iff in Z. congruence.
Qed.

Theorem cell_exact_checked (P : polygon) (p : point) : cell_hypsb P = true ->
  (in_poly (clip_polygon P) p <-> in_poly P p /\ in_unit_square p).
Proof.
  unfold cell_hypsb. rewrite !andb_true_iff. intros [[[[[[[H1 H2] H3] H4] H5] H6] H7] H8].
  apply cell_exact.
  - apply convex_ccwb_sound; exact H1.
  - apply strictly_convexb_sound; exact H2.
  - apply generic_lineb_sound; exact H3.
  - apply generic_lineb_sound; exact H4.
  - apply generic_lineb_sound; exact H5.
  - apply generic_lineb_sound; exact H6.
  - apply no_cornerb_sound; exact H7.
  - intro E. rewrite E in H8. discriminate.
Qed.
