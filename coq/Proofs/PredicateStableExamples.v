(* Proofs/PredicateStableExamples.v — concrete instances for the predicate-stability theorems (C09):
   a periodic honeycomb lattice and its float32 rounding on which every predicate keeps its verdict, and a thin
   triangle whose float32 rounding flips one orientation predicate and changes the plaquette list. *)
From Coq Require Import List ZArith Bool Arith QArith.
From Koala Require Import Model.Pickle Model.Lattice Proofs.PredicateStableDefs Proofs.PredicateStable.
Import ListNotations.
Open Scope Z_scope.

(* koala.example_graphs.honeycomb_lattice(2): 8 vertices, 12 edges (5 of them crossing the cell boundary),
   4 hexagonal plaquettes; float64 positions times 2^55 *)
Definition hc2 : lattice :=
  mkLattice 36028797018963968
    [(4503599627370496, 3210412108155103); (4503599627370496, 15220011114476426); (13510798882111488, 21224810617637088); (13510798882111488, 33234409623958412); (22517998136852480, 3210412108155103); (22517998136852480, 15220011114476426); (31525197391593472, 21224810617637088); (31525197391593472, 33234409623958412)]
    [(0, 1)%nat; (2, 1)%nat; (2, 3)%nat; (4, 5)%nat; (6, 5)%nat; (6, 7)%nat; (2, 5)%nat; (6, 1)%nat; (0, 3)%nat; (4, 7)%nat; (4, 3)%nat; (0, 7)%nat]
    [(0, 0); (0, 0); (0, 0); (0, 0); (0, 0); (0, 0); (0, 0); (1, 0); (0, -1); (0, -1); (0, -1); (-1, -1)].
Definition hc2_f32 : lattice :=
  mkLattice 36028797018963968
    [(4503599627370496, 3210412086525952); (4503599627370496, 15220011182325760); (13510798882111488, 21224811401314304); (13510798882111488, 33234409691807744); (22517998136852480, 3210412086525952); (22517998136852480, 15220011182325760); (31525197391593472, 21224811401314304); (31525197391593472, 33234409691807744)]
    [(0, 1)%nat; (2, 1)%nat; (2, 3)%nat; (4, 5)%nat; (6, 5)%nat; (6, 7)%nat; (2, 5)%nat; (6, 1)%nat; (0, 3)%nat; (4, 7)%nat; (4, 3)%nat; (0, 7)%nat]
    [(0, 0); (0, 0); (0, 0); (0, 0); (0, 0); (0, 0); (0, 0); (1, 0); (0, -1); (0, -1); (0, -1); (-1, -1)].

Example hc2_preds_agree :
  wf_lattice hc2 = true /\ same_connectivity_b hc2 hc2_f32 = true /\
  is_round32_copy hc2 hc2_f32 = true /\ pos hc2 <> pos hc2_f32 /\
  preds_agree_fine hc2 hc2_f32 = true /\ preds_agree hc2 hc2_f32 = true /\ preds_agree_weak hc2 hc2_f32 = true /\
  option_map (map pproj) (find_all_plaquettes hc2) =
    Some [([0; 1; 6; 5; 4; 7], [0; 7; 4; 3; 9; 11], [true; false; true; false; true; false]);
          ([1; 0; 3; 4; 5; 2], [0; 8; 10; 3; 6; 1], [false; true; false; true; false; true]);
          ([1; 2; 3; 0; 7; 6], [1; 2; 8; 11; 5; 7], [false; true; false; true; false; true]);
          ([3; 2; 5; 6; 7; 4], [2; 6; 4; 5; 9; 10], [false; true; false; true; false; true])]%nat.
Proof.
  repeat split; try (vm_compute; reflexivity). vm_compute. discriminate.
Qed.

(* a thin triangle 0 = (0,0), 1 = (3/4, 1/4), 2 = (3/16 + 5/8 ulp, 1/16 + 7/16 ulp) in units of 2^-31: vertex 2 lies
   just LEFT of the segment 0-1 (cross product of the two edge vectors at vertex 0: 3*7 - 20 = +1 > 0, times 2^29);
   float32 rounds its x up by 3/8 ulp and its y down by 7/16 ulp, which puts it just RIGHT of the segment
   (0 - 32 < 0).  The triangle changes orientation: the reversed closed walk is now the plaquette (the code keeps
   the walk of winding number -1, which is the counter-clockwise one: f_area2 > 0). *)
Definition thin : lattice :=
  mkLattice 2147483648 [(0, 0); (1610612736, 536870912); (402653204, 134217735)]
            [(0, 1)%nat; (1, 2)%nat; (2, 0)%nat] [(0, 0); (0, 0); (0, 0)].
Definition thin_f32 : lattice :=
  mkLattice 2147483648 [(0, 0); (1610612736, 536870912); (402653216, 134217728)]
            [(0, 1)%nat; (1, 2)%nat; (2, 0)%nat] [(0, 0); (0, 0); (0, 0)].

Example thin_needs_preds :
  wf_lattice thin = true /\ same_connectivity_b thin thin_f32 = true /\ is_round32_copy thin thin_f32 = true /\
  rot_agree thin thin_f32 = false /\ valid_agree thin thin_f32 = false /\ preds_agree_weak thin thin_f32 = false /\
  adj_table thin <> adj_table thin_f32 /\
  option_map (map pproj) (find_all_plaquettes thin) = Some [([0; 1; 2], [0; 1; 2], [true; true; true])]%nat /\
  option_map (map pproj) (find_all_plaquettes thin_f32) = Some [([1; 0; 2], [0; 2; 1], [false; false; false])]%nat /\
  tables thin <> tables thin_f32.
Proof.
  repeat split; try (vm_compute; reflexivity); try (vm_compute; discriminate).
Qed.
