(* honeycomb census, n = 14..15 (see ExamplesCensus.v) *)
From Coq Require Import List ZArith Bool.
From Koala Require Import Model.Lattice Model.Tiling Model.Examples Proofs.ExamplesCensus.
Open Scope Z_scope.
Lemma honeycomb_census_14_15 : forall n, 14 <= n <= 15 -> honeycomb_ok n = true.
Proof. apply forallb_zrange_from. vm_compute. reflexivity. Qed.
