(* Proofs/SortFacts.v — the rotation system rows: sorted_adj L v is a duplicate-free permutation of
   the edges incident on v, sorted for the exact comparator ang_lt (C02). *)
From Coq Require Import List ZArith Bool Arith Lia ZifyBool Permutation Sorted.
From Koala Require Import Model.Lattice.
Import ListNotations.
Open Scope Z_scope.

(* ---------- the comparator ---------- *)
Lemma half_01 : forall v, half v = 0 \/ half v = 1.
Proof. intros v. unfold half. destruct (_ || _); auto. Qed.

Lemma ang_lt_irrefl : forall v, ang_lt v v = false.
Proof. intros v. unfold ang_lt. destruct (half_01 v); lia. Qed.

Lemma ang_lt_asym : forall v w, ang_lt v w = true -> ang_lt w v = false.
Proof.
  intros v w. unfold ang_lt.
  destruct (half_01 v) as [Hv|Hv], (half_01 w) as [Hw|Hw]; rewrite Hv, Hw; simpl; lia.
Qed.

(* 12 o'clock itself sorts last in a table row: nothing has a strictly smaller key alpha *)
Lemma ang_lt_twelve_last : forall y w, 0 < y -> ang_lt w (0, y) = false.
Proof.
  intros y [xw yw] Hy. unfold ang_lt, half. simpl.
  destruct (Z.ltb_spec 0 y), (Z.ltb_spec 0 (- xw)), (Z.eqb_spec (- xw) 0), (Z.ltb_spec 0 yw); simpl; try lia; try nia.
Qed.

(* "alpha a >= alpha b": b does not sort strictly before... i.e. no ascent from a to b *)
Definition desc_ok (key : nat -> vec) (a b : nat) : Prop := ang_lt (key a) (key b) = false.

(* transitivity of >= needs a non-zero middle vector (the zero vector compares equal to everything
   in its half-plane) *)
Lemma ang_ge_trans : forall v w u,
  w <> vzero -> ang_lt v w = false -> ang_lt w u = false -> ang_lt v u = false.
Proof.
  intros [xv yv] [xw yw] [xu yu] Hw. unfold ang_lt, half, vzero in *. simpl.
  assert (Hnz : xw <> 0 \/ yw <> 0).
  { destruct (Z.eq_dec xw 0), (Z.eq_dec yw 0); subst; auto. }
  clear Hw.
  (* (X,Y) = (y, -x) *)
  intros H1 H2.
  assert (I1 : (yv * - xu - - xv * yu) * - xw = (yv * - xw - - xv * yw) * - xu + (yw * - xu - - xw * yu) * - xv) by ring.
  assert (I2 : (yv * - xu - - xv * yu) * yw = (yv * - xw - - xv * yw) * yu + (yw * - xu - - xw * yu) * yv) by ring.
  destruct (Z.ltb_spec 0 (- xv)), (Z.eqb_spec (- xv) 0), (Z.ltb_spec 0 yv),
           (Z.ltb_spec 0 (- xw)), (Z.eqb_spec (- xw) 0), (Z.ltb_spec 0 yw),
           (Z.ltb_spec 0 (- xu)), (Z.eqb_spec (- xu) 0), (Z.ltb_spec 0 yu);
    simpl in *; try lia; try nia.
Qed.

(* ---------- insertion sort ---------- *)
Lemma insert_desc_perm : forall key x l, Permutation (insert_desc key x l) (x :: l).
Proof.
  intros key x l. induction l as [|y r IH]; simpl. reflexivity.
  destruct (ang_lt (key y) (key x)). reflexivity.
  rewrite IH. apply perm_swap.
Qed.

Lemma sort_desc_perm_gen : forall key l acc,
  Permutation (fold_left (fun acc x => insert_desc key x acc) l acc) (l ++ acc).
Proof.
  intros key l. induction l as [|x r IH]; intros acc; simpl. reflexivity.
  rewrite IH. rewrite insert_desc_perm. symmetry. apply Permutation_middle.
Qed.

Lemma sort_desc_perm : forall key l, Permutation (sort_desc key l) l.
Proof. intros. unfold sort_desc. rewrite sort_desc_perm_gen, app_nil_r. reflexivity. Qed.

Lemma insert_desc_hdrel : forall key x y r,
  HdRel (desc_ok key) y r -> desc_ok key y x -> HdRel (desc_ok key) y (insert_desc key x r).
Proof.
  intros key x y r H Hyx. destruct r as [|z r']; simpl. constructor; assumption.
  destruct (ang_lt (key z) (key x)); constructor. assumption. inversion H; assumption.
Qed.

Lemma insert_desc_sorted : forall key x l,
  Sorted (desc_ok key) l -> Sorted (desc_ok key) (insert_desc key x l).
Proof.
  intros key x l. induction l as [|y r IH]; intros Hs; simpl.
  - repeat constructor.
  - inversion Hs as [|? ? Hr Hd]; subst.
    destruct (ang_lt (key y) (key x)) eqn:E.
    + constructor. assumption. constructor. unfold desc_ok. apply ang_lt_asym. assumption.
    + constructor. apply IH; assumption. apply insert_desc_hdrel; assumption.
Qed.

Lemma sort_desc_sorted : forall key l, Sorted (desc_ok key) (sort_desc key l).
Proof.
  intros key l. unfold sort_desc.
  assert (G : forall acc, Sorted (desc_ok key) acc ->
                          Sorted (desc_ok key) (fold_left (fun acc x => insert_desc key x acc) l acc)).
  { induction l as [|x r IH]; intros acc Ha; simpl. assumption. apply IH, insert_desc_sorted, Ha. }
  apply G. constructor.
Qed.

(* with non-zero keys the local order is a global one *)
Lemma sorted_strongly : forall key l,
  (forall x, In x l -> key x <> vzero) ->
  Sorted (desc_ok key) l -> StronglySorted (desc_ok key) l.
Proof.
  intros key l. induction l as [|a r IH]; intros Hnz Hs. constructor.
  inversion Hs as [|? ? Hr Hd]; subst.
  assert (IHr : StronglySorted (desc_ok key) r) by (apply IH; [intros; apply Hnz; right; assumption|assumption]).
  constructor. assumption.
  destruct r as [|b r']. constructor.
  inversion Hd as [|? ? Hab]; subst. inversion IHr as [|? ? _ Hall]; subst.
  constructor. assumption.
  eapply Forall_impl; [|exact Hall]. intros c Hbc. unfold desc_ok in *.
  eapply ang_ge_trans; [|exact Hab|exact Hbc]. apply Hnz. right; left; reflexivity.
Qed.

(* ---------- incident edges ---------- *)
Lemma incident_in : forall L v e,
  In e (incident L v) <-> (e < nE L)%nat /\ (fst (edge_at L e) = v \/ snd (edge_at L e) = v).
Proof.
  intros L v e. unfold incident, incident_b. rewrite filter_In, in_seq.
  destruct (edge_at L e) as [j k]. simpl. rewrite orb_true_iff, !Nat.eqb_eq. intuition lia.
Qed.

Lemma incident_nodup : forall L v, NoDup (incident L v).
Proof. intros. apply NoDup_filter, seq_NoDup. Qed.

Lemma sorted_adj_perm : forall L v, Permutation (sorted_adj L v) (incident L v).
Proof. intros. apply sort_desc_perm. Qed.

Lemma adj_table_length : forall L, length (adj_table L) = nV L.
Proof. intros. unfold adj_table. now rewrite map_length, seq_length. Qed.

Lemma adj_table_nth : forall L v, (v < nV L)%nat -> nth v (adj_table L) [] = sorted_adj L v.
Proof.
  intros L v Hv. unfold adj_table.
  rewrite nth_indep with (d' := sorted_adj L 0%nat) by now rewrite map_length, seq_length.
  rewrite map_nth, seq_nth by assumption. reflexivity.
Qed.

Lemma adjacent_edges_complete_sorted_lemma : forall L,
  length (adj_table L) = nV L /\
  forall v, (v < nV L)%nat ->
    let row := nth v (adj_table L) [] in
    Permutation row (incident L v) /\
    NoDup row /\
    (forall e, In e row <-> (e < nE L)%nat /\ (fst (edge_at L e) = v \/ snd (edge_at L e) = v)) /\
    Sorted (fun a b => ang_lt (outvec L v a) (outvec L v b) = false) row /\
    ((forall e, In e row -> outvec L v e <> vzero) ->
     StronglySorted (fun a b => ang_lt (outvec L v a) (outvec L v b) = false) row).
Proof.
  intros L. split. apply adj_table_length.
  intros v Hv row. subst row. rewrite adj_table_nth by assumption.
  pose proof (sorted_adj_perm L v) as P.
  split; [exact P|]. split; [|split; [|split]].
  - eapply Permutation_NoDup; [symmetry; exact P|apply incident_nodup].
  - intros e. rewrite <- incident_in. split; apply Permutation_in; [exact P|symmetry; exact P].
  - apply (sort_desc_sorted (outvec L v)).
  - intros Hnz. apply (sorted_strongly (outvec L v)). exact Hnz. apply (sort_desc_sorted (outvec L v)).
Qed.
