(* Proofs/ChainFlipFacts.v — single_flip and path_flip_two_ends over the abstract flux
   "flux of p = product over its (edge, direction) entries" (Model/FluxSolver.v), for any
   per-bond factor f that is odd in the bond variable.  Used by C11 (two-ends law) and C06. *)
From Coq Require Import List ZArith Bool Arith Lia ZifyBool.
From Koala Require Import Model.AStar Model.FluxSolver.
Import ListNotations.
Open Scope Z_scope.

(* ------------------------------------------------------------------ signs *)
Definition fs_sgn (n : nat) : Z := if Nat.even n then 1 else -1.
Lemma fs_sgn_add : forall a b, fs_sgn (a + b) = fs_sgn a * fs_sgn b.
Proof. intros. unfold fs_sgn. rewrite Nat.even_add. destruct (Nat.even a), (Nat.even b); reflexivity. Qed.
Lemma fs_sgn_0 : fs_sgn 0 = 1. Proof. reflexivity. Qed.
Lemma fs_sgn_1 : fs_sgn 1 = -1. Proof. reflexivity. Qed.
Lemma fs_sgn_2 : fs_sgn 2 = 1. Proof. reflexivity. Qed.
Lemma fs_sgn_double : forall a, fs_sgn (a + a) = 1.
Proof. intros. rewrite fs_sgn_add. unfold fs_sgn. destruct (Nat.even a); reflexivity. Qed.
Lemma fs_sgn_sq : forall a, fs_sgn a * fs_sgn a = 1.
Proof. intros. unfold fs_sgn. destruct (Nat.even a); reflexivity. Qed.
Lemma fs_sgn_pm1 : forall a, fs_sgn a = 1 \/ fs_sgn a = -1.
Proof. intros. unfold fs_sgn. destruct (Nat.even a); auto. Qed.

(* ------------------------------------------------------------------ array updates *)
Lemma fs_neg_at_at : forall i u j, fs_at (fs_neg_at i u) j = if (i =? j)%nat then - fs_at u j else fs_at u j.
Proof.
  unfold fs_at. induction i as [| i IH]; intros [| x u] [| j]; simpl; try reflexivity.
  - destruct (i =? j)%nat; reflexivity.
  - apply IH.
Qed.
Lemma fs_neg_at_length : forall i u, length (fs_neg_at i u) = length u.
Proof. induction i; intros [| x u]; simpl; auto. Qed.

Lemma fs_neg_set_from_at : forall idx u k j,
  fs_at (fs_neg_set_from k idx u) j = if existsb (Nat.eqb (k + j)%nat) idx then - fs_at u j else fs_at u j.
Proof.
  unfold fs_at. induction u as [| x u IH]; intros k j; simpl.
  - destruct j; destruct (existsb _ idx); reflexivity.
  - destruct j as [| j].
    + now rewrite Nat.add_0_r.
    + rewrite IH. now replace (S k + j)%nat with (k + S j)%nat by lia.
Qed.
Lemma fs_neg_set_at : forall idx u j,
  fs_at (fs_neg_set idx u) j = if existsb (Nat.eqb j) idx then - fs_at u j else fs_at u j.
Proof. intros. unfold fs_neg_set. now rewrite fs_neg_set_from_at. Qed.
Lemma fs_neg_set_from_length : forall idx u k, length (fs_neg_set_from k idx u) = length u.
Proof. induction u; intros; simpl; auto. Qed.
Lemma fs_neg_set_length : forall idx u, length (fs_neg_set idx u) = length u.
Proof. intros. apply fs_neg_set_from_length. Qed.

(* ------------------------------------------------------------------ the generic product *)
Section GProd.
  Variable f : Z -> Z -> Z.
  Hypothesis f_odd : forall x d, f (- x) d = - f x d.

  Definition fs_gprod (u : list Z) (p : fs_plaq) : Z :=
    fs_prod (map (fun ed => f (fs_at u (fst ed)) (snd ed)) p).

  (* flipping the bonds selected by [m] multiplies the product by (-1)^(number of entries of p selected) *)
  Lemma fs_gprod_flip : forall (m : nat -> bool) u u' p,
    (forall e, fs_at u' e = if m e then - fs_at u e else fs_at u e) ->
    fs_gprod u' p = fs_sgn (length (filter (fun ed => m (fst ed)) p)) * fs_gprod u p.
  Proof.
    intros m u u' p Hu. unfold fs_gprod. induction p as [| [e d] p IH]; simpl; [reflexivity |].
    rewrite IH, Hu. destruct (m e); simpl.
    - rewrite f_odd. change (S (length (filter (fun ed => m (fst ed)) p)))
        with (1 + length (filter (fun ed => m (fst ed)) p))%nat.
      rewrite fs_sgn_add, fs_sgn_1. ring.
    - ring.
  Qed.

  (* single_flip: negating bond e multiplies the product over p by (-1)^(occurrences of e in p) *)
  Lemma fs_single_flip : forall e u p,
    fs_gprod (fs_neg_at e u) p = fs_sgn (fs_count_edge p e) * fs_gprod u p.
  Proof.
    intros e u p. unfold fs_count_edge.
    rewrite (fs_gprod_flip (fun j => (j =? e)%nat) u (fs_neg_at e u) p); [reflexivity |].
    intros j. rewrite fs_neg_at_at. now rewrite Nat.eqb_sym.
  Qed.
End GProd.

(* ------------------------------------------------------------------ counting *)
Fixpoint fs_sum_over (g : nat -> nat) (l : list nat) : nat :=
  match l with [] => 0%nat | x :: r => (g x + fs_sum_over g r)%nat end.

Lemma fs_sum_over_add : forall g1 g2 l,
  fs_sum_over (fun x => (g1 x + g2 x)%nat) l = (fs_sum_over g1 l + fs_sum_over g2 l)%nat.
Proof. induction l; simpl; lia. Qed.

Lemma fs_sum_indicator : forall (e : nat) l, NoDup l ->
  fs_sum_over (fun x => fs_b2n (e =? x)%nat) l = fs_b2n (existsb (Nat.eqb e) l).
Proof.
  induction l as [| x l IH]; intros Hnd; simpl; [reflexivity |].
  inversion Hnd as [| ? ? Hnin Hnd']; subst. rewrite IH by assumption.
  destruct (Nat.eqb_spec e x) as [-> | Hne]; simpl; [| reflexivity].
  destruct (existsb (Nat.eqb x) l) eqn:Hex; [| reflexivity].
  exfalso. apply existsb_exists in Hex as (y & Hy & Heq). apply Nat.eqb_eq in Heq. subst. contradiction.
Qed.

(* entries of p whose edge is in a duplicate-free index list = sum over the list of the occurrences *)
Lemma fs_count_selected : forall idx (p : fs_plaq), NoDup idx ->
  length (filter (fun ed => existsb (Nat.eqb (fst ed)) idx) p) = fs_sum_over (fs_count_edge p) idx.
Proof.
  intros idx p Hnd. induction p as [| [e d] p IH]; simpl.
  - clear Hnd. induction idx; simpl; auto.
  - unfold fs_count_edge in *. simpl.
    assert (Hsplit : fs_sum_over (fun e0 => length (if (e =? e0)%nat then (e, d) :: filter (fun ed => (fst ed =? e0)%nat) p
                                               else filter (fun ed => (fst ed =? e0)%nat) p)) idx
                     = (fs_sum_over (fun x => fs_b2n (e =? x)%nat) idx
                        + fs_sum_over (fun e0 => length (filter (fun ed => (fst ed =? e0)%nat) p)) idx)%nat).
    { rewrite <- fs_sum_over_add. clear. induction idx as [| x idx IH]; simpl; [reflexivity |].
      rewrite IH. destruct (e =? x)%nat; simpl; lia. }
    rewrite Hsplit, fs_sum_indicator by assumption. rewrite <- IH.
    destruct (existsb (Nat.eqb e) idx); simpl; lia.
Qed.

(* ------------------------------------------------------------------ chains over adjacent_plaquettes *)
Lemma as_joined_sides : forall ep e a b q, as_joined ep e a b = true ->
  fs_sides ep e q = (fs_b2n (a =? q)%nat + fs_b2n (b =? q)%nat)%nat /\ (e < length ep)%nat.
Proof.
  unfold as_joined, fs_sides. intros ep e a b q H.
  destruct (nth_error ep e) as [[[x |] [y |]] |] eqn:Hn; try discriminate.
  split; [| apply nth_error_Some; congruence].
  simpl. apply orb_prop in H as [H | H]; apply andb_prop in H as [H1 H2];
    apply Nat.eqb_eq in H1, H2; subst; lia.
Qed.

Lemma as_joined_fun : forall ep e a b x y, as_joined ep e a b = true -> as_joined ep e x y = true ->
  a = x \/ a = y.
Proof.
  unfold as_joined. intros ep e a b x y H1 H2.
  destruct (nth_error ep e) as [[[u |] [v |]] |]; try discriminate.
  apply orb_prop in H1 as [H | H]; apply andb_prop in H as [Ha Hb];
  apply orb_prop in H2 as [H' | H']; apply andb_prop in H' as [Hx Hy];
  apply Nat.eqb_eq in Ha, Hb, Hx, Hy; subst; auto.
Qed.

Lemma as_chain_ok_edges : forall ep ns es, as_chain_ok (as_joined ep) ns es = true ->
  forall e, In e es -> exists x y, In x ns /\ In y ns /\ as_joined ep e x y = true.
Proof.
  intros ep. induction ns as [| a ns IH]; intros es H e He; simpl in H; [discriminate |].
  destruct ns as [| b r].
  - destruct es; [destruct He | discriminate].
  - destruct es as [| e0 es']; [discriminate |].
    apply andb_prop in H as [Hj Hc]. destruct He as [<- | He].
    + exists a, b. repeat split; simpl; auto.
    + destruct (IH es' Hc e He) as (x & y & Hx & Hy & Hxy). exists x, y. repeat split; simpl; auto.
Qed.

Lemma as_nodup_NoDup : forall l, as_nodup l = true -> NoDup l.
Proof.
  induction l as [| x l IH]; simpl; intros H; [constructor |].
  apply andb_prop in H as [H1 H2]. constructor; [| auto].
  intros Hin. apply negb_true_iff in H1. assert (existsb (Nat.eqb x) l = true); [| congruence].
  apply existsb_exists. exists x. split; [assumption | apply Nat.eqb_refl].
Qed.

(* a simple chain uses every edge once *)
Lemma as_chain_edges_NoDup : forall ep ns es, as_chain_ok (as_joined ep) ns es = true -> NoDup ns -> NoDup es.
Proof.
  intros ep. induction ns as [| a ns IH]; intros es H Hnd; simpl in H; [discriminate |].
  destruct ns as [| b r].
  - destruct es; [constructor | discriminate].
  - destruct es as [| e es']; [discriminate |].
    apply andb_prop in H as [Hj Hc]. inversion Hnd as [| ? ? Hnin Hnd']; subst.
    constructor; [| now apply IH].
    intros Hin. destruct (as_chain_ok_edges ep (b :: r) es' Hc e Hin) as (x & y & Hx & Hy & Hxy).
    destruct (as_joined_fun ep e a b x y Hj Hxy) as [-> | ->]; contradiction.
Qed.

Lemma as_chain_edges_in_range : forall ep ns es, as_chain_ok (as_joined ep) ns es = true ->
  forall e, In e es -> (e < length ep)%nat.
Proof.
  intros ep ns es H e He. destruct (as_chain_ok_edges ep ns es H e He) as (x & y & _ & _ & Hxy).
  apply (as_joined_sides ep e x y 0%nat Hxy).
Qed.

(* parity of the number of chain edges that have q as a side: only the two ends count *)
Lemma as_chain_sides_parity : forall ep q ns es d, as_chain_ok (as_joined ep) ns es = true ->
  fs_sgn (fs_sum_over (fun e => fs_sides ep e q) es)
  = fs_sgn (fs_b2n (hd d ns =? q)%nat + fs_b2n (last ns d =? q)%nat).
Proof.
  intros ep q. induction ns as [| a ns IH]; intros es d H; simpl in H; [discriminate |].
  destruct ns as [| b r].
  - destruct es; [| discriminate]. simpl. now rewrite fs_sgn_double.
  - destruct es as [| e es']; [discriminate |].
    apply andb_prop in H as [Hj Hc].
    change (fs_sum_over (fun e0 => fs_sides ep e0 q) (e :: es'))
      with (fs_sides ep e q + fs_sum_over (fun e0 => fs_sides ep e0 q) es')%nat.
    rewrite fs_sgn_add, (IH es' d Hc).
    destruct (as_joined_sides ep e a b q Hj) as [-> _].
    change (hd d (a :: b :: r)) with a. change (hd d (b :: r)) with b.
    change (last (a :: b :: r) d) with (last (b :: r) d).
    rewrite !fs_sgn_add. rewrite <- !Z.mul_assoc, (Z.mul_assoc (fs_sgn (fs_b2n (b =? q)%nat))), fs_sgn_sq. ring.
Qed.

(* ------------------------------------------------------------------ path_flip_two_ends *)
Section TwoEnds.
  Variable f : Z -> Z -> Z.
  Hypothesis f_odd : forall x d, f (- x) d = - f x d.
  Variable P : list fs_plaq.
  Variable ep : list (option nat * option nat).
  (* each plaquette contains an edge exactly as often as it is listed as a side of that edge *)
  Hypothesis Hwf : forall e q, (e < length ep)%nat -> (q < length P)%nat ->
    fs_count_edge (nth q P []) e = fs_sides ep e q.

  Lemma fs_path_flip_two_ends : forall start goal ns es u q,
    as_valid_path (as_joined ep) start goal ns es = true -> (q < length P)%nat ->
    fs_gprod f (fs_neg_set es u) (nth q P [])
    = fs_sgn (fs_b2n (goal =? q)%nat + fs_b2n (start =? q)%nat) * fs_gprod f u (nth q P []).
  Proof.
    intros start goal ns es u q Hv Hq. unfold as_valid_path in Hv.
    destruct ns as [| g ns']; [discriminate |].
    apply andb_prop in Hv as [Hv Hnd]. apply andb_prop in Hv as [Hv Hch]. apply andb_prop in Hv as [Hg Hs].
    apply Nat.eqb_eq in Hg, Hs. apply as_nodup_NoDup in Hnd.
    pose proof (as_chain_edges_NoDup ep _ _ Hch Hnd) as Hnde.
    rewrite (fs_gprod_flip f f_odd (fun e => existsb (Nat.eqb e) es) u (fs_neg_set es u) (nth q P []))
      by (intros e; apply fs_neg_set_at).
    f_equal. rewrite fs_count_selected by assumption.
    assert (Heq : fs_sum_over (fs_count_edge (nth q P [])) es = fs_sum_over (fun e => fs_sides ep e q) es).
    { pose proof (as_chain_edges_in_range ep _ _ Hch) as Hr. clear - Hr Hwf Hq.
      induction es as [| e es IH]; simpl; [reflexivity |].
      rewrite Hwf by (auto; apply Hr; now left). rewrite IH; [reflexivity |]. intros e' He'. apply Hr. now right. }
    rewrite Heq, (as_chain_sides_parity ep q (g :: ns') es g Hch).
    change (hd g (g :: ns')) with g. rewrite Hs, Hg. reflexivity.
  Qed.
End TwoEnds.

(* ------------------------------------------------------------------ the chain checker *)
(* soundness: what as_valid_path = true means *)
Lemma as_chain_ok_nth : forall joined ns es, as_chain_ok joined ns es = true ->
  S (length es) = length ns /\
  forall i, (i < length es)%nat -> joined (nth i es 0%nat) (nth i ns 0%nat) (nth (S i) ns 0%nat) = true.
Proof.
  intros joined. induction ns as [| a ns IH]; intros es H; simpl in H; [discriminate |].
  destruct ns as [| b r].
  - destruct es; [| discriminate]. split; [reflexivity | intros i Hi; simpl in Hi; lia].
  - destruct es as [| e es']; [discriminate |].
    apply andb_prop in H as [Hj Hc]. destruct (IH es' Hc) as [Hlen Hnth]. split; [simpl in *; lia |].
    intros [| i] Hi; [exact Hj |]. simpl in Hi. apply (Hnth i). lia.
Qed.

Lemma as_valid_path_sound : forall joined start goal ns es,
  as_valid_path joined start goal ns es = true ->
  hd_error ns = Some goal /\ last ns goal = start /\ S (length es) = length ns /\ NoDup ns /\
  forall i, (i < length es)%nat -> joined (nth i es 0%nat) (nth i ns 0%nat) (nth (S i) ns 0%nat) = true.
Proof.
  intros joined start goal ns es H. unfold as_valid_path in H.
  destruct ns as [| g ns']; [discriminate |].
  apply andb_prop in H as [H Hnd]. apply andb_prop in H as [H Hch]. apply andb_prop in H as [Hg Hs].
  apply Nat.eqb_eq in Hg, Hs. subst g. destruct (as_chain_ok_nth _ _ _ Hch) as [Hlen Hnth].
  repeat split; auto. now apply as_nodup_NoDup.
Qed.

Lemma NoDup_as_nodup : forall l, NoDup l -> as_nodup l = true.
Proof.
  induction l as [| x l IH]; intros H; simpl; [reflexivity |].
  inversion H as [| ? ? Hnin Hnd]; subst. rewrite IH by assumption. rewrite andb_true_r.
  apply negb_true_iff. destruct (existsb (Nat.eqb x) l) eqn:E; [| reflexivity].
  apply existsb_exists in E as (y & Hy & Hxy). apply Nat.eqb_eq in Hxy. subst. contradiction.
Qed.

(* ------------------------------------------------------------------ the two flux conventions *)
Lemma fs_flux_ujk_gprod : forall u p, fs_flux_ujk u p = fs_gprod (fun x d => - x * d) u p.
Proof. reflexivity. Qed.
Lemma fs_flux_bonds_gprod : forall u p,
  fs_flux_bonds u p = fs_sign_real (length p) * fs_gprod (fun x d => x * d) u p.
Proof. reflexivity. Qed.
Lemma fs_odd_ujk : forall x d : Z, - - x * d = - (- x * d). Proof. intros. ring. Qed.
Lemma fs_odd_bonds : forall x d : Z, - x * d = - (x * d). Proof. intros. ring. Qed.

Lemma fs_path_flip_two_ends_ujk :
  forall (P : list fs_plaq) (ep : list (option nat * option nat)),
    (forall e q, (e < length ep)%nat -> (q < length P)%nat -> fs_count_edge (nth q P []) e = fs_sides ep e q) ->
    forall start goal ns es u q,
      as_valid_path (as_joined ep) start goal ns es = true -> (q < length P)%nat -> start <> goal ->
      fs_flux_ujk (fs_neg_set es u) (nth q P [])
      = (if (q =? start)%nat || (q =? goal)%nat then - fs_flux_ujk u (nth q P []) else fs_flux_ujk u (nth q P [])).
Proof.
  intros P ep Hwf start goal ns es u q Hv Hq Hsg. rewrite !fs_flux_ujk_gprod.
  rewrite (fs_path_flip_two_ends _ fs_odd_ujk P ep Hwf start goal ns es u q Hv Hq).
  unfold fs_flux_ujk, fs_gprod.
  destruct (Nat.eqb_spec q start) as [H1 | H1]; destruct (Nat.eqb_spec q goal) as [H2 | H2].
  - congruence.
  - subst q. rewrite Nat.eqb_refl. destruct (Nat.eqb_spec goal start); [congruence |].
    change (fs_sgn (fs_b2n false + fs_b2n true)) with (-1). cbv [orb]. ring.
  - subst q. rewrite Nat.eqb_refl. destruct (Nat.eqb_spec start goal); [congruence |].
    change (fs_sgn (fs_b2n true + fs_b2n false)) with (-1). cbv [orb]. ring.
  - destruct (Nat.eqb_spec goal q); [congruence |]. destruct (Nat.eqb_spec start q); [congruence |].
    change (fs_sgn (fs_b2n false + fs_b2n false)) with 1. cbv [orb]. ring.
Qed.

Lemma fs_flip_example :
  let P := [[(0%nat, 1%Z); (1%nat, 1%Z); (2%nat, 1%Z)]; [(2%nat, (-1)%Z); (3%nat, 1%Z); (4%nat, 1%Z)]] in
  let ep := [(Some 0, None); (Some 0, None); (Some 0, Some 1); (Some 1, None); (Some 1, None)]%nat in
  (forall e q, (e < length ep)%nat -> (q < length P)%nat -> fs_count_edge (nth q P []) e = fs_sides ep e q) /\
  as_valid_path (as_joined ep) 0 1 [1; 0]%nat [2]%nat = true.
Proof.
  split; [| reflexivity].
  intros e q He Hq. simpl in He, Hq.
  destruct q as [| [| q]]; [| | lia]; destruct e as [| [| [| [| [| e]]]]]; try lia; reflexivity.
Qed.
