(* Proofs/PlotFacts.v — facts about Model/Plot.v. *)
From Coq Require Import List ZArith QArith Bool Qminmax Qabs Lqa Lia ZifyBool Arith.
From Koala Require Import Model.Clip Model.Plot Proofs.ClipFacts.
Import ListNotations.

Lemma broadcast_scalar (z : Z) (idx : list nat) (N : nat) :
  Forall (fun i => (i < N)%nat) idx ->
  broadcast_args (LScalar z) idx N = Ok (repeat z (length idx)).
Proof.
  intro Hidx. unfold broadcast_args. rewrite repeat_length, Nat.eqb_refl. f_equal.
  induction Hidx as [|i l Hi _ IH]; simpl; auto. rewrite IH. f_equal.
  clear IH. revert i Hi. induction N; intros i Hi; [lia|]. destruct i; simpl; auto. apply IHN. lia.
Qed.

Open Scope Q_scope.

(* ---------- line_intersection agrees with exact arithmetic for non-parallel segments ---------- *)
(* exists s t in [0,1] with  s1 + s*d1 = s2 + t*d2 *)
Definition segments_meet (l1 l2 : seg) : Prop :=
  exists s t : Q, 0 <= s /\ s <= 1 /\ 0 <= t /\ t <= 1 /\
    px (fst l1) + s * (px (snd l1) - px (fst l1)) == px (fst l2) + t * (px (snd l2) - px (fst l2)) /\
    py (fst l1) + s * (py (snd l1) - py (fst l1)) == py (fst l2) + t * (py (snd l2) - py (fst l2)).

Definition dir_cross (l1 l2 : seg) : Q :=
  cross2 (psub (snd l2) (fst l2)) (psub (snd l1) (fst l1)).     (* d2 x d1 *)

Lemma Qabs_zero_iff (c : Q) : Qabs c == 0 <-> c == 0.
Proof.
  split; intro H.
  - destruct (Qlt_le_dec c 0) as [Hn|Hp].
    + rewrite Qabs_neg in H by lra. lra.
    + rewrite Qabs_pos in H by lra. exact H.
  - rewrite H. reflexivity.
Qed.

Theorem segment_intersection_exact (tol : Q) (l1 l2 : seg) :
  ~ dir_cross l1 l2 == 0 -> tol <= Qabs (dir_cross l1 l2) ->
  (line_intersection tol l1 l2 = true <-> segments_meet l1 l2).
Proof.
  destruct l1 as [[s1x s1y] [e1x e1y]]. destruct l2 as [[s2x s2y] [e2x e2y]].
  unfold dir_cross, line_intersection, segments_meet, cross2, psub. cbn [px py fst snd].
  set (c := (e2x - s2x) * (e1y - s1y) - (e2y - s2y) * (e1x - s1x)).
  intros Hc Htol.
  assert (Hpar : Qltb (Qabs c) tol = false).
  { destruct (Qltb (Qabs c) tol) eqn:E; auto. apply Qltb_iff in E. lra. }
  rewrite Hpar. cbn [negb].
  assert (Hc' : ~ (e1x - s1x) * (e2y - s2y) - (e1y - s1y) * (e2x - s2x) == 0) by (unfold c in Hc; lra).
  assert (Hne : Qeqb c 0 = false).
  { destruct (Qeqb c 0) eqn:E; auto. apply Qeqb_iff in E. contradiction. }
  rewrite Hne. cbn [negb andb].
  rewrite !andb_true_iff, !Qleb_iff.
  set (t1 := ((s1x - s2x) * (e1y - s1y) - (s1y - s2y) * (e1x - s1x)) / c).
  set (t2 := ((s2x - s1x) * (e2y - s2y) - (s2y - s1y) * (e2x - s2x)) / ((e1x - s1x) * (e2y - s2y) - (e1y - s1y) * (e2x - s2x))).
  split.
  - intros [[[H1 H2] H3] H4]. exists t2, t1. repeat split; try assumption.
    + unfold t1, t2, c. field. split; assumption.
    + unfold t1, t2, c. field. split; assumption.
  - intros (s & t & Hs0 & Hs1 & Ht0 & Ht1 & Ex & Ey).
    assert (E1 : s1x - s2x == t * (e2x - s2x) - s * (e1x - s1x)) by lra.
    assert (E2 : s1y - s2y == t * (e2y - s2y) - s * (e1y - s1y)) by lra.
    assert (Et : t1 == t).
    { unfold t1. rewrite E1, E2. unfold c. field. exact Hc. }
    assert (E3 : s2x - s1x == s * (e1x - s1x) - t * (e2x - s2x)) by lra.
    assert (E4 : s2y - s1y == s * (e1y - s1y) - t * (e2y - s2y)) by lra.
    assert (Es : t2 == s).
    { unfold t2. rewrite E3, E4. field. exact Hc'. }
    rewrite Et, Es. tauto.
Qed.

(* ---------- subset indices are in range ---------- *)
Close Scope Q_scope.
Open Scope nat_scope.

Lemma mapM_Forall {A B : Type} (f : A -> result B) (P : B -> Prop) :
  (forall a b, f a = Ok b -> P b) ->
  forall l bs, mapM f l = Ok bs -> Forall P bs.
Proof.
  intros Hf. induction l as [|a l IH]; simpl; intros bs H.
  - injection H as <-. constructor.
  - destruct (f a) eqn:Ea; simpl in H; [|discriminate].
    destruct (mapM f l) eqn:El; simpl in H; [|discriminate].
    injection H as <-. constructor; eauto.
Qed.

Lemma mapM_length {A B : Type} (f : A -> result B) :
  forall l bs, mapM f l = Ok bs -> length bs = length l.
Proof.
  induction l as [|a l IH]; simpl; intros bs H.
  - injection H as <-. reflexivity.
  - destruct (f a) eqn:Ea; simpl in H; [|discriminate].
    destruct (mapM f l) eqn:El; simpl in H; [|discriminate].
    injection H as <-. simpl. f_equal. auto.
Qed.

Lemma wrap_index_range (N : nat) (z : Z) (i : nat) :
  wrap_index (Z.of_nat N) z = Ok i -> i < N.
Proof.
  unfold wrap_index. destruct ((- Z.of_nat N <=? z)%Z && (z <? Z.of_nat N)%Z) eqn:E; [|discriminate].
  intro H. injection H as <-. apply andb_true_iff in E. destruct E as [E1 E2].
  destruct (z <? 0)%Z eqn:E3; lia.
Qed.

Lemma mask_indices_range (m : list bool) : forall i, Forall (fun k => i <= k < i + length m) (mask_indices i m).
Proof.
  induction m as [|b m IH]; intro i; simpl; [constructor|].
  apply Forall_app. split.
  - destruct b; constructor; [lia|constructor].
  - eapply Forall_impl; [|apply (IH (S i))]. simpl. intros; lia.
Qed.

Lemma slice_clamp_range (N : nat) (st v : Z) :
  (slice_lower st <= slice_clamp (Z.of_nat N) st v <= slice_upper (Z.of_nat N) st)%Z.
Proof. unfold slice_clamp, slice_lower, slice_upper. destruct (0 <? st)%Z eqn:E0; destruct (v <? 0)%Z eqn:E1; lia. Qed.

Lemma slice_indices_range (N : nat) (a b c : option Z) (idx : list nat) :
  slice_indices (Z.of_nat N) a b c = Ok idx -> Forall (fun i => i < N) idx.
Proof.
  unfold slice_indices. cbv zeta.
  set (st := slice_step c).
  destruct (st =? 0)%Z eqn:Est; [discriminate|].
  assert (Hs : (slice_lower st <= slice_start (Z.of_nat N) st a <= slice_upper (Z.of_nat N) st)%Z).
  { unfold slice_start. destruct a; [apply slice_clamp_range|]. unfold slice_lower, slice_upper. destruct (0 <? st)%Z eqn:E0; destruct (st <? 0)%Z eqn:E1; lia. }
  assert (He : (slice_lower st <= slice_stop (Z.of_nat N) st b <= slice_upper (Z.of_nat N) st)%Z).
  { unfold slice_stop. destruct b; [apply slice_clamp_range|]. unfold slice_lower, slice_upper. destruct (0 <? st)%Z eqn:E0; destruct (st <? 0)%Z eqn:E1; lia. }
  set (s := slice_start (Z.of_nat N) st a) in *. set (e := slice_stop (Z.of_nat N) st b) in *.
  clearbody s e. clearbody st.
  intro H. injection H as <-.
  apply Forall_forall. intros x Hx. apply in_map_iff in Hx. destruct Hx as (i & <- & Hi).
  apply in_seq in Hi. simpl in Hi. destruct Hi as [_ Hi].
  unfold slice_count, slice_lower, slice_upper in *.
  destruct (0 <? st)%Z eqn:E0.
  - destruct (s <? e)%Z eqn:E1; [|simpl in Hi; lia].
    assert (Hq : (0 <= (e - s - 1) / st)%Z) by (apply Z.div_pos; lia).
    assert (Hd : (st * ((e - s - 1) / st) <= e - s - 1)%Z) by (apply Z.mul_div_le; lia).
    assert (Hi' : (Z.of_nat i <= (e - s - 1) / st)%Z) by lia.
    assert ((Z.of_nat i * st <= st * ((e - s - 1) / st))%Z) by nia.
    lia.
  - assert (Hst : (st < 0)%Z) by lia.
    destruct (e <? s)%Z eqn:E1; [|simpl in Hi; lia].
    assert (Hq : (0 <= (s - e - 1) / (- st))%Z) by (apply Z.div_pos; lia).
    assert (Hd : ((- st) * ((s - e - 1) / (- st)) <= s - e - 1)%Z) by (apply Z.mul_div_le; lia).
    assert (Hi' : (Z.of_nat i <= (s - e - 1) / (- st))%Z) by lia.
    assert ((Z.of_nat i * (- st) <= (- st) * ((s - e - 1) / (- st)))%Z) by nia.
    lia.
Qed.

Lemma subset_indices_range (N : nat) (s : subset) (idx : list nat) :
  subset_indices N s = Ok idx -> Forall (fun i => i < N) idx.
Proof.
  destruct s as [a b c|m|l]; simpl.
  - apply slice_indices_range.
  - destruct ((length m =? N) || (length m =? 0)) eqn:E; [|discriminate]. intro H. injection H as <-.
    apply orb_true_iff in E. destruct E as [E|E]; apply Nat.eqb_eq in E.
    + eapply Forall_impl; [|apply mask_indices_range]. simpl. intros; lia.
    + destruct m; [constructor|discriminate].
  - apply mapM_Forall. intros a b. apply wrap_index_range.
Qed.

(* a boolean mask selecting N of N elements selects all of them, in order *)
Lemma mask_indices_length_le (m : list bool) : forall i, length (mask_indices i m) <= length m.
Proof.
  induction m as [|b m IH]; intro i; simpl; [lia|]. rewrite app_length. specialize (IH (S i)). destruct b; simpl; lia.
Qed.
Lemma mask_indices_full (m : list bool) : forall i,
  length (mask_indices i m) = length m -> mask_indices i m = seq i (length m).
Proof.
  induction m as [|b m IH]; intro i; simpl; [reflexivity|].
  rewrite app_length. intro H. pose proof (mask_indices_length_le m (S i)).
  destruct b; simpl in *; [|lia]. f_equal. apply IH. lia.
Qed.

(* ---------- label broadcasting ---------- *)
Lemma nth_repeat_lt {A : Type} (z d : A) (N i : nat) : i < N -> nth i (repeat z N) d = z.
Proof.
  revert i. induction N; intros i Hi; [lia|]. destruct i; simpl; auto. apply IHN. lia.
Qed.

Lemma map_nth_seq {A : Type} (l : list A) (d : A) : map (fun i => nth i l d) (seq 0 (length l)) = l.
Proof.
  induction l as [|a l IH]; simpl; [reflexivity|]. f_equal.
  rewrite <- seq_shift, map_map. exact IH.
Qed.

(* labels per element vs the same labels per subset element: identical result *)
Lemma broadcast_args_equiv (lab : list Z) (idx : list nat) (N : nat) :
  length lab = N -> (length idx <> N \/ idx = seq 0 N) ->
  broadcast_args (LList (map (fun i => nth i lab 0%Z) idx)) idx N = broadcast_args (LList lab) idx N.
Proof.
  intros Hlen Hcase. unfold broadcast_args. rewrite map_length, Hlen, Nat.eqb_refl.
  destruct Hcase as [Hne|Heq].
  - apply Nat.eqb_neq in Hne. rewrite Hne, Nat.eqb_refl. reflexivity.
  - subst idx. rewrite seq_length, Nat.eqb_refl. subst N. rewrite !map_nth_seq. reflexivity.
Qed.

Theorem broadcast_equiv {C : Type} (N : nat) (s : subset) (lab : list Z) (scheme : list C) (idx : list nat) :
  subset_indices N s = Ok idx -> length lab = N -> (length idx <> N \/ idx = seq 0 N) ->
  process_plot_args N s (LList (map (fun i => nth i lab 0%Z) idx)) scheme = process_plot_args N s (LList lab) scheme.
Proof.
  intros Hs Hlen Hcase. unfold process_plot_args. rewrite Hs. simpl.
  rewrite (broadcast_args_equiv lab idx N Hlen Hcase). reflexivity.
Qed.

(* for a boolean mask the side condition is automatic *)
Theorem broadcast_equiv_mask {C : Type} (N : nat) (m : list bool) (lab : list Z) (scheme : list C) (idx : list nat) :
  subset_indices N (SMask m) = Ok idx -> length lab = N ->
  process_plot_args N (SMask m) (LList (map (fun i => nth i lab 0%Z) idx)) scheme = process_plot_args N (SMask m) (LList lab) scheme.
Proof.
  intros Hs Hlen. apply broadcast_equiv; auto.
  simpl in Hs. destruct ((length m =? N) || (length m =? 0)) eqn:E; [|discriminate]. injection Hs as <-.
  destruct (Nat.eq_dec (length (mask_indices 0 m)) N) as [Heq|Hne]; [right|left; exact Hne].
  apply orb_true_iff in E. destruct E as [E|E]; apply Nat.eqb_eq in E.
  - rewrite <- E in *. apply mask_indices_full. exact Heq.
  - destruct m; [|discriminate]. simpl in *. rewrite <- Heq. reflexivity.
Qed.

(* scalar label = constant colour array *)
Lemma mapM_repeat {A B : Type} (f : A -> result B) (a : A) (b : B) (n : nat) :
  f a = Ok b -> mapM f (repeat a n) = Ok (repeat b n).
Proof. intro H. induction n; simpl; [reflexivity|]. rewrite H. simpl. rewrite IHn. reflexivity. Qed.

Theorem broadcast_scalar_constant {C : Type} (N : nat) (s : subset) (z : Z) (scheme : list C) (idx : list nat) (c : C) :
  subset_indices N s = Ok idx -> scheme_at scheme z = Ok c ->
  process_plot_args N s (LScalar z) scheme = Ok (idx, repeat c (length idx)).
Proof.
  intros Hs Hc. unfold process_plot_args. rewrite Hs. simpl.
  rewrite (broadcast_scalar z idx N (subset_indices_range N s idx Hs)). simpl.
  rewrite (mapM_repeat _ _ _ _ Hc). reflexivity.
Qed.

(* wrong length => ValueError *)
Theorem broadcast_wrong_length {C : Type} (N : nat) (s : subset) (lab : list Z) (scheme : list C) (idx : list nat) :
  subset_indices N s = Ok idx -> length lab <> N -> length lab <> length idx ->
  process_plot_args N s (LList lab) scheme = Error ValueError.
Proof.
  intros Hs H1 H2. unfold process_plot_args. rewrite Hs. simpl. unfold broadcast_args.
  apply Nat.eqb_neq in H1. apply Nat.eqb_neq in H2. rewrite H1, H2. reflexivity.
Qed.

(* colours are looked up element by element: element idx[k] gets scheme[lab[idx[k]]] *)
Theorem colours_pointwise {C : Type} (N : nat) (s : subset) (lab : list Z) (scheme : list C) (idx : list nat) (cols : list C) :
  length lab = N -> process_plot_args N s (LList lab) scheme = Ok (idx, cols) ->
  subset_indices N s = Ok idx /\ length cols = length idx /\
  forall k d dc, k < length idx -> scheme_at scheme (nth (nth k idx d) lab 0%Z) = Ok (nth k cols dc).
Proof.
  intros Hlen. unfold process_plot_args.
  destruct (subset_indices N s) as [idx'|] eqn:Hs; simpl; [|discriminate].
  unfold broadcast_args. rewrite Hlen, Nat.eqb_refl. simpl.
  destruct (mapM (scheme_at scheme) (map (fun i => nth i lab 0%Z) idx')) as [cols'|] eqn:Hm; simpl; [|discriminate].
  intro H. injection H as <- <-. split; [reflexivity|].
  pose proof (mapM_length _ _ _ Hm) as Hl. rewrite map_length in Hl. split; [exact Hl|].
  clear Hs. revert cols' Hm Hl. induction idx' as [|i idx' IH]; intros cols' Hm Hl k d dc Hk; simpl in Hk; [lia|].
  simpl in Hm. destruct (scheme_at scheme (nth i lab 0%Z)) eqn:E1; simpl in Hm; [|discriminate].
  destruct (mapM (scheme_at scheme) (map (fun i => nth i lab 0%Z) idx')) eqn:E2; simpl in Hm; [|discriminate].
  injection Hm as <-. destruct k; simpl; [exact E1|]. apply IH; auto; simpl in Hl; lia.
Qed.
