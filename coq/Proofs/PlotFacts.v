(* Proofs/PlotFacts.v — facts about Model/Plot.v. *)
From Coq Require Import List ZArith QArith Bool Qminmax Lqa Lia Arith.
From Koala Require Import Model.Clip Model.Plot Proofs.ClipFacts.
Import ListNotations.

Lemma broadcast_scalar (z : Z) (idx : list nat) (N : nat) :
  Forall (fun i => (i < N)%nat) idx ->
  broadcast_args (LScalar z) idx N = Ok (repeat z (length idx)).
Proof.
  intro Hidx. unfold broadcast_args. rewrite repeat_length, Nat.eqb_refl. f_equal.
  induction Hidx as [|i l Hi _ IH]; simpl; auto. rewrite IH. f_equal.
  clear IH. revert i Hi. induction N; intros i Hi; [lia|]. destruct i; simpl; auto. apply IHN. lia.
Qed.
