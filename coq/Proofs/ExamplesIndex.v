(* Proofs/ExamplesIndex.v — index arithmetic of the built-in generators (Model/Examples.v), for ALL
   sizes: lengths of the position / edge / crossing / colouring arrays and the exact entry at every
   index, in terms of the cell coordinates (cx, cy). *)
From Coq Require Import List ZArith Bool Arith Lia ZifyBool.
From Koala Require Import Gen.TilingGen Model.Lattice Model.Tiling Model.Examples Proofs.TilingFacts.
Import ListNotations.
Open Scope Z_scope.

(* ------------------------------------------------------------------ general list lemmas *)
Lemma zlen_nonneg {A} (l : list A) : 0 <= zlen l.
Proof. unfold zlen. lia. Qed.

Lemma zlen_app {A} (l1 l2 : list A) : zlen (l1 ++ l2) = zlen l1 + zlen l2.
Proof. unfold zlen. rewrite app_length. lia. Qed.

Lemma znth_app_l {A} i (l1 l2 : list A) d : 0 <= i < zlen l1 -> znth i (l1 ++ l2) d = znth i l1 d.
Proof. intros H. unfold znth, zlen in *. apply app_nth1. lia. Qed.

Lemma znth_app_r {A} i (l1 l2 : list A) d : zlen l1 <= i -> znth i (l1 ++ l2) d = znth (i - zlen l1) l2 d.
Proof. intros H. unfold znth, zlen in *. rewrite app_nth2 by lia. f_equal. lia. Qed.

Lemma znth_app_off {A} n i (l1 l2 : list A) d :
  zlen l1 = n -> 0 <= i -> znth (n + i) (l1 ++ l2) d = znth i l2 d.
Proof.
  intros Hl Hi. pose proof (zlen_nonneg l1). rewrite znth_app_r by lia. f_equal. lia.
Qed.

Lemma zlen_map_zrange {B} (f : Z -> B) N : 0 <= N -> zlen (map f (zrange N)) = N.
Proof. intros. rewrite zlen_map. now apply zlen_zrange. Qed.

Lemma znth_map_zrange {B} (f : Z -> B) N i d : 0 <= i < N -> znth i (map f (zrange N)) d = f i.
Proof.
  intros Hi. rewrite znth_map with (d' := 0) by (rewrite zlen_zrange; lia).
  now rewrite znth_zrange.
Qed.

(* a flat_map of a constant block *)
Lemma znth_flat_map_const_zrange {B} (l : list B) N k i d :
  zlen l = k -> 0 <= i < N * k ->
  znth i (flat_map (fun _ => l) (zrange N)) d = znth (i mod k) l d.
Proof.
  intros Hk Hi. pose proof (zlen_nonneg l).
  assert (Hk0 : 0 < k).
  { assert (k <> 0) by (intro Ek; rewrite Ek in Hi; lia). lia. }
  pose proof (Z.div_mod i k ltac:(lia)) as E. pose proof (Z.mod_pos_bound i k Hk0) as Hm.
  assert (Hq : 0 <= i / k < N).
  { split; [apply Z.div_pos; lia|]. apply Z.div_lt_upper_bound; [lia|]. lia. }
  rewrite E at 1. replace (k * (i / k) + i mod k) with ((i / k) * k + i mod k) by lia.
  rewrite znth_flat_map_zrange with (f := fun _ : Z => l) (N := N) (k := k); auto.
Qed.

(* four blocks l0 ++ l1 ++ l2 ++ l3, the last three of one length N *)
Lemma znth_blocks {A} (l0 l1 l2 l3 : list A) d n0 N c :
  zlen l0 = n0 -> zlen l1 = N -> zlen l2 = N -> 0 <= c < N ->
  (forall i, 0 <= i < n0 -> znth i (l0 ++ l1 ++ l2 ++ l3) d = znth i l0 d) /\
  znth (n0 + c) (l0 ++ l1 ++ l2 ++ l3) d = znth c l1 d /\
  znth (n0 + N + c) (l0 ++ l1 ++ l2 ++ l3) d = znth c l2 d /\
  znth (n0 + 2 * N + c) (l0 ++ l1 ++ l2 ++ l3) d = znth c l3 d.
Proof.
  intros H0 H1 H2 Hc. split; [|split; [|split]].
  - intros i Hi. apply znth_app_l. lia.
  - rewrite znth_app_off by (assumption || lia). apply znth_app_l. lia.
  - replace (n0 + N + c) with (n0 + (N + c)) by lia.
    rewrite znth_app_off by (assumption || lia).
    rewrite znth_app_off by (assumption || lia). apply znth_app_l. lia.
  - replace (n0 + 2 * N + c) with (n0 + (N + (N + c))) by lia.
    rewrite znth_app_off by (assumption || lia).
    rewrite znth_app_off by (assumption || lia).
    rewrite znth_app_off by (assumption || lia). reflexivity.
Qed.

Lemma znth_0 {A} (a : A) l d : znth 0 (a :: l) d = a.
Proof. reflexivity. Qed.
Lemma znth_1 {A} (a b : A) l d : znth 1 (a :: b :: l) d = b.
Proof. reflexivity. Qed.
Lemma znth_2 {A} (a b c : A) l d : znth 2 (a :: b :: c :: l) d = c.
Proof. reflexivity. Qed.
Lemma znth_3 {A} (a b c e : A) l d : znth 3 (a :: b :: c :: e :: l) d = e.
Proof. reflexivity. Qed.
Lemma znth_4 {A} (a b c e f : A) l d : znth 4 (a :: b :: c :: e :: f :: l) d = f.
Proof. reflexivity. Qed.
Lemma znth_5 {A} (a b c e f g : A) l d : znth 5 (a :: b :: c :: e :: f :: g :: l) d = g.
Proof. reflexivity. Qed.

(* ------------------------------------------------------------------ the generated closures *)
Ltac closure_eq :=
  first [ reflexivity
        | unfold honeycomb_next_direction, hso_next_direction, py_next_cell_number; cbn [fst snd]; cbv zeta;
          mod_norm; first [ reflexivity | lia | ring ] ].
Lemma honeycomb_next_direction_eq n nv c s :
  honeycomb_next_direction n nv c s = py_next_cell_number n nv c s.
Proof. closure_eq. Qed.

Lemma hso_next_direction_eq n c s : hso_next_direction n c s = py_next_cell_number n n c s.
Proof. closure_eq. Qed.

Lemma honeycomb_nv_pos n : 1 <= n -> 1 <= honeycomb_nv n.
Proof.
  intros Hn. unfold honeycomb_nv.
  assert (H9 : 9 <= 12 * n * n) by nia.
  pose proof (Z.sqrt_le_mono _ _ H9) as Hs. change (Z.sqrt 9) with 3 in Hs.
  apply Z.div_le_lower_bound; lia.
Qed.

(* the two crossing masks in cell coordinates *)
Lemma hc_cross_h_spec n cx cy x : 1 <= n -> 0 <= cx < n ->
  hc_cross_h n (cy * n + cx) x = x * ((cx + 1) / n).
Proof.
  intros Hn Hcx. unfold hc_cross_h. rewrite cell_mod by lia.
  rewrite wrap_indicator by lia.
  destruct (Z.eqb_spec cx (n - 1)), (Z.ltb_spec (cx + 1) 0), (Z.leb_spec n (cx + 1)); lia.
Qed.

Lemma hc_cross_v_spec n nv cx cy y : 1 <= n -> 1 <= nv -> 0 <= cx < n -> 0 <= cy < nv ->
  hc_cross_v n nv (cy * n + cx) y = y * ((cy + 1) / nv).
Proof.
  intros Hn Hnv Hcx Hcy. unfold hc_cross_v.
  rewrite wrap_indicator by lia.
  destruct (Z.leb_spec (n * (nv - 1)) (cy * n + cx)), (Z.ltb_spec (cy + 1) 0), (Z.leb_spec nv (cy + 1));
    try lia; nia.
Qed.

(* ================================================================== (A) honeycomb *)
Lemma honeycomb_lengths n : 1 <= n ->
  let nv := honeycomb_nv n in
  let N := nv * n in
  let L := honeycomb n in
  zlen (z_pos L) = 4 * N /\ zlen (z_edges L) = 6 * N /\ zlen (z_crossing L) = 6 * N /\
  zlen (honeycomb_coloring n) = 6 * N /\ zlen (make_honeycomb_ujk n) = 6 * N.
Proof.
  intros Hn nv N L. pose proof (honeycomb_nv_pos n Hn) as Hnv. fold nv in Hnv.
  assert (HN : 0 <= N) by (subst N; nia).
  assert (He : zlen (honeycomb_edges n) = 6 * N).
  { unfold honeycomb_edges. cbv zeta. fold nv. fold N.
    rewrite !zlen_app, !zlen_map_zrange by lia.
    rewrite zlen_flat_map_zrange with (k := 3) by (lia || reflexivity). lia. }
  subst L. unfold honeycomb. cbn [z_pos z_edges z_crossing].
  split; [|split; [|split; [|split]]].
  - unfold honeycomb_pos. cbv zeta. fold nv. fold N.
    rewrite zlen_flat_map_zrange with (k := 4) by (lia || reflexivity). lia.
  - exact He.
  - unfold honeycomb_crossing. cbv zeta. fold nv. fold N.
    rewrite !zlen_app, !zlen_map_zrange by lia.
    rewrite zlen_flat_map_zrange with (k := 3) by (lia || reflexivity). lia.
  - unfold honeycomb_coloring. cbv zeta. fold nv. fold N.
    rewrite !zlen_app.
    rewrite zlen_flat_map_zrange with (k := 3) by (lia || reflexivity).
    rewrite zlen_flat_map_zrange with (k := 2) by (lia || reflexivity).
    rewrite zlen_flat_map_zrange with (k := 1) by (lia || reflexivity). lia.
  - unfold make_honeycomb_ujk. rewrite zlen_map. exact He.
Qed.

Lemma honeycomb_index n : 1 <= n ->
  let nv := honeycomb_nv n in
  let N := nv * n in
  let L := honeycomb n in
  forall cx cy, 0 <= cx < n -> 0 <= cy < nv ->
  let c := cy * n + cx in
  (* internal edges and their colours 0,2,0; crossing (0,0) *)
  znth (3 * c) (z_edges L) (0,0) = (4 * c, 4 * c + 1) /\
  znth (3 * c + 1) (z_edges L) (0,0) = (4 * c + 2, 4 * c + 1) /\
  znth (3 * c + 2) (z_edges L) (0,0) = (4 * c + 2, 4 * c + 3) /\
  znth (3 * c) (z_crossing L) (0,0) = (0,0) /\
  znth (3 * c + 1) (z_crossing L) (0,0) = (0,0) /\
  znth (3 * c + 2) (z_crossing L) (0,0) = (0,0) /\
  znth (3 * c) (honeycomb_coloring n) 0 = 0 /\
  znth (3 * c + 1) (honeycomb_coloring n) 0 = 2 /\
  znth (3 * c + 2) (honeycomb_coloring n) 0 = 0 /\
  (* horizontal: site 2 of cell (cx,cy) -- site 1 of cell ((cx+1) mod n, cy) *)
  znth (3 * N + c) (z_edges L) (0,0) = (4 * c + 2, 4 * (cy * n + (cx + 1) mod n) + 1) /\
  znth (3 * N + c) (z_crossing L) (0,0) = ((cx + 1) / n, 0) /\
  znth (3 * N + c) (honeycomb_coloring n) 0 = 1 /\
  (* vertical: site 0 of cell (cx, (cy+1) mod nv) -- site 3 of cell (cx,cy) *)
  znth (4 * N + c) (z_edges L) (0,0) = (4 * (((cy + 1) mod nv) * n + cx), 4 * c + 3) /\
  znth (4 * N + c) (z_crossing L) (0,0) = (0, - ((cy + 1) / nv)) /\
  znth (4 * N + c) (honeycomb_coloring n) 0 = 1 /\
  (* diagonal: site 0 of cell ((cx+1) mod n, (cy+1) mod nv) -- site 3 of cell (cx,cy) *)
  znth (5 * N + c) (z_edges L) (0,0) = (4 * (((cy + 1) mod nv) * n + (cx + 1) mod n), 4 * c + 3) /\
  znth (5 * N + c) (z_crossing L) (0,0) = (- ((cx + 1) / n), - ((cy + 1) / nv)) /\
  znth (5 * N + c) (honeycomb_coloring n) 0 = 2.
Proof.
  intros Hn nv N L cx cy Hcx Hcy c.
  pose proof (honeycomb_nv_pos n Hn) as Hnv. fold nv in Hnv.
  assert (Hc : 0 <= c < N) by (subst c N; nia).
  assert (HN : 0 <= N) by lia.
  subst L. unfold honeycomb, honeycomb_edges, honeycomb_crossing, honeycomb_coloring.
  cbn [z_edges z_crossing]. cbv zeta. fold nv. fold N.
  (* the block decompositions *)
  match goal with |- context [znth (3 * c) (?l0 ++ ?l1 ++ ?l2 ++ ?l3) (0, 0) = (4 * c, _)] =>
    destruct (znth_blocks l0 l1 l2 l3 (0,0) (3 * N) N c) as (E0 & E1 & E2 & E3);
      [rewrite zlen_flat_map_zrange with (k := 3) by (lia || reflexivity); lia
      |now apply zlen_map_zrange|now apply zlen_map_zrange|exact Hc|] end.
  match goal with |- context [znth (3 * c) (?l0 ++ ?l1 ++ ?l2 ++ ?l3) (0, 0) = (0, 0)] =>
    destruct (znth_blocks l0 l1 l2 l3 (0,0) (3 * N) N c) as (X0 & X1 & X2 & X3);
      [rewrite zlen_flat_map_zrange with (k := 3) by (lia || reflexivity); lia
      |now apply zlen_map_zrange|now apply zlen_map_zrange|exact Hc|] end.
  replace (4 * N + c) with (3 * N + N + c) by lia.
  replace (5 * N + c) with (3 * N + 2 * N + c) by lia.
  rewrite E1, E2, E3, X1, X2, X3.
  rewrite !E0, !X0 by lia.
  rewrite !znth_map_zrange by exact Hc.
  rewrite !honeycomb_next_direction_eq.
  replace (3 * c) with (c * 3 + 0) by lia.
  replace (c * 3 + 0 + 1) with (c * 3 + 1) by lia.
  replace (c * 3 + 0 + 2) with (c * 3 + 2) by lia.
  rewrite !(znth_flat_map_zrange _ N 3 c) by (lia || reflexivity).
  rewrite !znth_0, !znth_1, !znth_2.
  (* colouring *)
  assert (C0 : forall e, 0 <= e < 3 ->
     znth (c * 3 + e) (flat_map (fun _ : Z => [0; 2; 0]) (zrange N) ++
        flat_map (fun _ : Z => [1; 1]) (zrange N) ++ flat_map (fun _ : Z => [2]) (zrange N)) 0
     = znth e [0; 2; 0] 0).
  { intros e He. rewrite znth_app_l
      by (rewrite zlen_flat_map_zrange with (k := 3) by (lia || reflexivity); lia).
    apply znth_flat_map_zrange with (f := fun _ : Z => [0; 2; 0]); (lia || reflexivity). }
  assert (C1 : forall i, 0 <= i < 2 * N ->
     znth (3 * N + i) (flat_map (fun _ : Z => [0; 2; 0]) (zrange N) ++
        flat_map (fun _ : Z => [1; 1]) (zrange N) ++ flat_map (fun _ : Z => [2]) (zrange N)) 0 = 1).
  { intros i Hi. rewrite znth_app_off
      by (try (rewrite zlen_flat_map_zrange with (k := 3) by (lia || reflexivity)); lia).
    rewrite znth_app_l
      by (rewrite zlen_flat_map_zrange with (k := 2) by (lia || reflexivity); lia).
    rewrite znth_flat_map_const_zrange with (k := 2) by (reflexivity || lia).
    pose proof (Z.mod_pos_bound i 2 ltac:(lia)) as Hm.
    assert (Hm' : i mod 2 = 0 \/ i mod 2 = 1) by lia.
    destruct Hm' as [-> | ->]; reflexivity. }
  assert (C2 : forall i, 0 <= i < N ->
     znth (3 * N + 2 * N + i) (flat_map (fun _ : Z => [0; 2; 0]) (zrange N) ++
        flat_map (fun _ : Z => [1; 1]) (zrange N) ++ flat_map (fun _ : Z => [2]) (zrange N)) 0 = 2).
  { intros i Hi. replace (3 * N + 2 * N + i) with (3 * N + (2 * N + i)) by lia.
    rewrite znth_app_off
      by (try (rewrite zlen_flat_map_zrange with (k := 3) by (lia || reflexivity)); lia).
    rewrite znth_app_off
      by (try (rewrite zlen_flat_map_zrange with (k := 2) by (lia || reflexivity)); lia).
    rewrite znth_flat_map_const_zrange with (k := 1) by (reflexivity || lia).
    rewrite Z.mod_1_r. reflexivity. }
  rewrite !C0 by lia. rewrite (C1 c) by lia.
  replace (3 * N + N + c) with (3 * N + (N + c)) by lia.
  rewrite (C1 (N + c)) by lia. rewrite (C2 c) by lia.
  rewrite !znth_0, !znth_1, !znth_2.
  (* the generated closure and the masks in cell coordinates *)
  subst c.
  rewrite !next_cell_number_spec by lia.
  rewrite !hc_cross_h_spec, !hc_cross_v_spec by lia.
  rewrite !Z.add_0_r, (Z.mod_small cy nv), (Z.mod_small cx n) by lia.
  repeat split; try (f_equal; lia).
Qed.

Lemma honeycomb_pos_index n : 1 <= n ->
  let nv := honeycomb_nv n in
  let L := honeycomb n in
  z_scale L = 12 * n * nv * hc_D /\
  forall cx cy, 0 <= cx < n -> 0 <= cy < nv ->
  let c := cy * n + cx in
  znth (4 * c) (z_pos L) (0,0)
    = ((1 + 4 * cx) * (3 * nv * hc_D), ((1 + 12 * cy) * hc_D + hc_delta12) * n) /\
  znth (4 * c + 1) (z_pos L) (0,0)
    = ((1 + 4 * cx) * (3 * nv * hc_D), ((5 + 12 * cy) * hc_D + hc_delta12) * n) /\
  znth (4 * c + 2) (z_pos L) (0,0)
    = ((3 + 4 * cx) * (3 * nv * hc_D), ((7 + 12 * cy) * hc_D + hc_delta12) * n) /\
  znth (4 * c + 3) (z_pos L) (0,0)
    = ((3 + 4 * cx) * (3 * nv * hc_D), ((11 + 12 * cy) * hc_D + hc_delta12) * n).
Proof.
  intros Hn nv L. split; [reflexivity|].
  intros cx cy Hcx Hcy c.
  pose proof (honeycomb_nv_pos n Hn) as Hnv. fold nv in Hnv.
  assert (Hc : 0 <= c < nv * n) by (subst c; nia).
  subst L. unfold honeycomb, honeycomb_pos. cbn [z_pos]. cbv zeta. fold nv.
  replace (4 * c) with (c * 4 + 0) by lia.
  replace (c * 4 + 0 + 1) with (c * 4 + 1) by lia.
  replace (c * 4 + 0 + 2) with (c * 4 + 2) by lia.
  replace (c * 4 + 0 + 3) with (c * 4 + 3) by lia.
  rewrite !(znth_flat_map_zrange _ (nv * n) 4 c) by (lia || reflexivity).
  cbn [map fst snd]. rewrite znth_0, znth_1, znth_2, znth_3.
  subst c. rewrite !cell_div, !cell_mod by lia. repeat split.
Qed.

(* ================================================================== (C) square *)
Lemma square_lengths nx ny : 1 <= nx -> 1 <= ny ->
  let N := nx * ny in
  let L := square nx ny in
  zlen (z_pos L) = N /\ zlen (z_edges L) = 2 * N /\ zlen (z_crossing L) = 2 * N.
Proof.
  intros Hx Hy N L. assert (HN : 0 <= N) by (subst N; nia).
  subst L. unfold square, square_pos, square_edges, square_crossing.
  cbn [z_pos z_edges z_crossing]. cbv zeta. fold N.
  rewrite !zlen_app, !zlen_map_zrange by lia. lia.
Qed.

Lemma square_index nx ny : 1 <= nx -> 1 <= ny ->
  let N := nx * ny in
  let L := square nx ny in
  forall i j, 0 <= i < nx -> 0 <= j < ny ->
  let c := i * ny + j in
  znth c (z_pos L) (0,0) = ((2 * i + 1) * ny, (2 * j + 1) * nx) /\
  z_scale L = 2 * nx * ny /\
  znth c (z_edges L) (0,0) = (((i - 1) mod nx) * ny + j, c) /\
  znth c (z_crossing L) (0,0) = (b2z (i =? 0), 0) /\
  znth (N + c) (z_edges L) (0,0) = (i * ny + (j - 1) mod ny, c) /\
  znth (N + c) (z_crossing L) (0,0) = (0, b2z (j =? 0)).
Proof.
  intros Hx Hy N L i j Hi Hj c.
  assert (Hc : 0 <= c < N) by (subst c N; nia).
  assert (Hd : c / ny = i) by (subst c; apply cell_div; lia).
  assert (Hm : c mod ny = j) by (subst c; apply cell_mod; lia).
  subst L. unfold square, square_pos, square_edges, square_crossing.
  cbn [z_pos z_edges z_crossing z_scale]. cbv zeta. fold N.
  rewrite !znth_app_off by (try apply zlen_map_zrange; lia).
  rewrite !znth_app_l by (rewrite zlen_map_zrange; lia).
  rewrite !znth_map_zrange by exact Hc.
  rewrite Hd, Hm. repeat split.
Qed.

(* ================================================================== (B) hex_square_oct *)
Lemma hso_lengths n : 1 <= n ->
  let N := n * n in
  let L := hex_square_oct n in
  zlen (z_pos L) = 6 * N /\ zlen (z_edges L) = 9 * N /\ zlen (z_crossing L) = 9 * N.
Proof.
  intros Hn N L. assert (HN : 0 <= N) by (subst N; nia).
  subst L. unfold hex_square_oct, hso_pos, hso_edges, hso_crossing.
  cbn [z_pos z_edges z_crossing]. cbv zeta. fold N.
  rewrite !zlen_app, !zlen_map_zrange by lia.
  rewrite !zlen_flat_map_zrange with (k := 6) by (lia || reflexivity). lia.
Qed.

Lemma hso_index n : 1 <= n ->
  let N := n * n in
  let L := hex_square_oct n in
  forall cx cy, 0 <= cx < n -> 0 <= cy < n ->
  let c := cy * n + cx in
  (forall k, 0 <= k < 6 ->
     znth (6 * c + k) (z_edges L) (0,0) = (6 * c + k, 6 * c + (k + 1) mod 6) /\
     znth (6 * c + k) (z_crossing L) (0,0) = (0,0)) /\
  znth (6 * N + c) (z_edges L) (0,0) = (6 * c + 4, 6 * (cy * n + (cx + 1) mod n) + 2) /\
  znth (6 * N + c) (z_crossing L) (0,0) = ((cx + 1) / n, 0) /\
  znth (7 * N + c) (z_edges L) (0,0) = (6 * (cy * n + (cx + 1) mod n) + 1, 6 * c + 5) /\
  znth (7 * N + c) (z_crossing L) (0,0) = (- ((cx + 1) / n), 0) /\
  znth (8 * N + c) (z_edges L) (0,0) = (6 * (((cy + 1) mod n) * n + cx), 6 * c + 3) /\
  znth (8 * N + c) (z_crossing L) (0,0) = (0, - ((cy + 1) / n)).
Proof.
  intros Hn N L cx cy Hcx Hcy c.
  assert (Hc : 0 <= c < N) by (subst c N; nia).
  assert (HN : 0 <= N) by lia.
  subst L. unfold hex_square_oct, hso_edges, hso_crossing.
  cbn [z_edges z_crossing]. cbv zeta. fold N.
  match goal with |- context [znth (6 * N + c) (?l0 ++ ?l1 ++ ?l2 ++ ?l3) (0, 0) = (6 * c + 4, _)] =>
    destruct (znth_blocks l0 l1 l2 l3 (0,0) (6 * N) N c) as (E0 & E1 & E2 & E3);
      [rewrite zlen_flat_map_zrange with (k := 6) by (lia || reflexivity); lia
      |now apply zlen_map_zrange|now apply zlen_map_zrange|exact Hc|] end.
  match goal with |- context [znth (6 * N + c) (?l0 ++ ?l1 ++ ?l2 ++ ?l3) (0, 0) = ((cx + 1) / n, 0)] =>
    destruct (znth_blocks l0 l1 l2 l3 (0,0) (6 * N) N c) as (X0 & X1 & X2 & X3);
      [rewrite zlen_flat_map_zrange with (k := 6) by (lia || reflexivity); lia
      |now apply zlen_map_zrange|now apply zlen_map_zrange|exact Hc|] end.
  replace (7 * N + c) with (6 * N + N + c) by lia.
  replace (8 * N + c) with (6 * N + 2 * N + c) by lia.
  rewrite E1, E2, E3, X1, X2, X3.
  split.
  - intros k Hk. rewrite E0, X0 by lia.
    replace (6 * c + k) with (c * 6 + k) by lia.
    rewrite !(znth_flat_map_zrange _ N 6 c) by (lia || reflexivity).
    assert (Hk' : k = 0 \/ k = 1 \/ k = 2 \/ k = 3 \/ k = 4 \/ k = 5) by lia.
    destruct Hk' as [-> | [-> | [-> | [-> | [-> | ->]]]]];
      (split; [|reflexivity]).
    + rewrite znth_0. change ((0 + 1) mod 6) with 1. f_equal; lia.
    + rewrite znth_1. change ((1 + 1) mod 6) with 2. f_equal; lia.
    + rewrite znth_2. change ((2 + 1) mod 6) with 3. f_equal; lia.
    + rewrite znth_3. change ((3 + 1) mod 6) with 4. f_equal; lia.
    + rewrite znth_4. change ((4 + 1) mod 6) with 5. f_equal; lia.
    + rewrite znth_5. change ((5 + 1) mod 6) with 0. f_equal; lia.
  - rewrite !znth_map_zrange by exact Hc.
    rewrite !hso_next_direction_eq. subst c.
    rewrite !next_cell_number_spec by lia.
    rewrite !hc_cross_h_spec, !hc_cross_v_spec by lia.
    rewrite !Z.add_0_r, (Z.mod_small cy n), (Z.mod_small cx n) by lia.
    repeat split; try (f_equal; lia).
Qed.

Lemma hso_pos_index n : 1 <= n ->
  let L := hex_square_oct n in
  z_scale L = 100 * n /\
  forall cx cy, 0 <= cx < n -> 0 <= cy < n ->
  let c := cy * n + cx in
  znth (6 * c) (z_pos L) (0,0) = (50 + 100 * cx, 17 + 100 * cy) /\
  znth (6 * c + 1) (z_pos L) (0,0) = (20 + 100 * cx, 35 + 100 * cy) /\
  znth (6 * c + 2) (z_pos L) (0,0) = (20 + 100 * cx, 65 + 100 * cy) /\
  znth (6 * c + 3) (z_pos L) (0,0) = (50 + 100 * cx, 82 + 100 * cy) /\
  znth (6 * c + 4) (z_pos L) (0,0) = (80 + 100 * cx, 65 + 100 * cy) /\
  znth (6 * c + 5) (z_pos L) (0,0) = (80 + 100 * cx, 35 + 100 * cy).
Proof.
  intros Hn L. split; [reflexivity|].
  intros cx cy Hcx Hcy c.
  assert (Hc : 0 <= c < n * n) by (subst c; nia).
  subst L. unfold hex_square_oct, hso_pos. cbn [z_pos]. cbv zeta.
  replace (6 * c) with (c * 6 + 0) by lia.
  replace (c * 6 + 0 + 1) with (c * 6 + 1) by lia.
  replace (c * 6 + 0 + 2) with (c * 6 + 2) by lia.
  replace (c * 6 + 0 + 3) with (c * 6 + 3) by lia.
  replace (c * 6 + 0 + 4) with (c * 6 + 4) by lia.
  replace (c * 6 + 0 + 5) with (c * 6 + 5) by lia.
  rewrite !(znth_flat_map_zrange _ (n * n) 6 c) by (lia || reflexivity).
  cbn [map fst snd]. rewrite znth_0, znth_1, znth_2, znth_3, znth_4, znth_5.
  subst c. rewrite !cell_div, !cell_mod by lia. repeat split.
Qed.

(* ================================================================== (D) polygon / wheel / ladder *)
Lemma polygon_edges_index n : 0 <= n ->
  zlen (polygon_edges n) = n /\
  forall i, 0 <= i < n -> znth i (polygon_edges n) (0,0) = (i, (i + 1) mod n).
Proof.
  intros Hn. unfold polygon_edges. split; [now apply zlen_map_zrange|].
  intros i Hi. now rewrite znth_map_zrange.
Qed.

Lemma single_plaquette_index s ps n : 0 <= n ->
  let L := single_plaquette s ps n in
  zlen (z_edges L) = n /\ zlen (z_crossing L) = n /\
  forall i, 0 <= i < n ->
    znth i (z_edges L) (0,0) = (i, (i + 1) mod n) /\ znth i (z_crossing L) (0,0) = (0,0).
Proof.
  intros Hn L. subst L. unfold single_plaquette. cbn [z_edges z_crossing].
  destruct (polygon_edges_index n Hn) as (Hl & Hi).
  split; [exact Hl|]. split; [now apply zlen_map_zrange|].
  intros i H. split; [now apply Hi|]. now rewrite znth_map_zrange.
Qed.

Lemma higher_coordination_index s ps n : 0 <= n -> zlen ps = n ->
  let L := higher_coordination s ps n in
  zlen (z_pos L) = n + 1 /\ zlen (z_edges L) = 2 * n /\ zlen (z_crossing L) = 2 * n /\
  znth n (z_pos L) (0,0) = (s / 2, s / 2) /\
  (forall i, 0 <= i < n -> znth i (z_pos L) (0,0) = znth i ps (0,0)) /\
  forall i, 0 <= i < n ->
    znth i (z_edges L) (0,0) = (i, (i + 1) mod n) /\
    znth (n + i) (z_edges L) (0,0) = (i, n) /\
    znth i (z_crossing L) (0,0) = (0,0) /\
    znth (n + i) (z_crossing L) (0,0) = (0,0).
Proof.
  intros Hn Hps L. subst L. unfold higher_coordination. cbn [z_pos z_edges z_crossing].
  destruct (polygon_edges_index n Hn) as (Hl & Hpi).
  rewrite !zlen_app, Hl, Hps, !zlen_map_zrange by lia.
  split; [reflexivity|]. split; [lia|]. split; [lia|]. split.
  - rewrite znth_app_r by lia. rewrite Hps, Z.sub_diag. reflexivity.
  - split; [intros i Hi; apply znth_app_l; lia|].
    intros i Hi.
    rewrite !znth_app_off by (try apply zlen_map_zrange; lia).
    rewrite !znth_app_l by (rewrite ?zlen_map_zrange by lia; lia).
    rewrite Hpi, !znth_map_zrange by lia. repeat split.
Qed.

Lemma ladder_index n : 0 <= n ->
  zlen (ladder_edges n) = 3 * n /\ zlen (ladder_crossing n) = 3 * n /\ zlen (ladder_pos n) = 2 * n /\
  forall i, 0 <= i < n ->
    znth i (ladder_edges n) (0,0) = (i, (i + 1) mod n) /\
    znth (n + i) (ladder_edges n) (0,0) = (i + n, (i + 1) mod n + n) /\
    znth (2 * n + i) (ladder_edges n) (0,0) = (i, i + n) /\
    znth i (ladder_crossing n) (0,0) = (b2z (i =? n - 1), 0) /\
    znth (n + i) (ladder_crossing n) (0,0) = (b2z (i =? n - 1), 0) /\
    znth (2 * n + i) (ladder_crossing n) (0,0) = (0,0) /\
    znth i (ladder_pos n) (0,0) = (n - 1 + 18 * i, 6 * (n - 1)) /\
    znth (n + i) (ladder_pos n) (0,0) = (n - 1 + 18 * i, 14 * (n - 1)).
Proof.
  intros Hn. unfold ladder_edges, ladder_crossing, ladder_pos. cbv zeta.
  rewrite !zlen_app, !zlen_map_zrange by lia.
  split; [lia|]. split; [lia|]. split; [lia|].
  intros i Hi.
  replace (2 * n + i) with (n + (n + i)) by lia.
  rewrite !znth_app_off by (try apply zlen_map_zrange; lia).
  rewrite !znth_app_l by (rewrite zlen_map_zrange by lia; lia).
  rewrite !znth_map_zrange by lia. repeat split.
Qed.
