(* Proofs/FixturesFacts.v — C10: the fixed fixture graphs of example_graphs.py, as translated from the source
   literals on every run (Gen/FixturesGen.v), are the graphs they are named after (computed through the shared
   plaquette finder; positions of tutte_graph are recentred with float arithmetic in the source and therefore not
   part of the translated record: only its combinatorics is stated). *)
From Coq Require Import List ZArith Bool Arith.
From Koala Require Import Gen.TilingGen Gen.FixturesGen Model.Lattice Model.Tiling.
Import ListNotations.
Open Scope Z_scope.

Definition fx_L (f : fixture) : lattice := to_lattice (fx_lat f).
Definition regular_b (f : fixture) (nv d : Z) : bool :=
  forallb (fun v => zdegree (z_edges (fx_lat f)) v =? d) (zrange nv).

Lemma fixtures_named_claim :
  (* two_triangles: exactly two triangles *)
  open_census (fx_L fixture_two_triangles) [(3%nat, 2%nat)] = true /\
  (* tri_square_pent: one triangle, one square, one pentagon *)
  open_census (fx_L fixture_tri_square_pent) [(3%nat, 1%nat); (4%nat, 1%nat); (5%nat, 1%nat)] = true /\
  (* tutte_graph: 46 vertices, 69 edges, cubic, no boundary crossing *)
  (zlen (z_edges (fx_lat fixture_tutte_graph)) = 69 /\ regular_b fixture_tutte_graph 46 3 = true /\
   forallb (fun c => (fst c =? 0) && (snd c =? 0)) (z_crossing (fx_lat fixture_tutte_graph)) = true /\
   fx_pos_from_impl fixture_tutte_graph = true) /\
  (* multi_graph: two vertices, a doubled edge and two self-loops *)
  (z_edges (fx_lat fixture_multi_graph) = [(0, 1); (0, 0); (0, 1); (1, 1)] /\
   no_self_loops (fx_L fixture_multi_graph) = false) /\
  (* bridge_graph: two triangles joined by a bridge (edge 3 = (2,3) lies on no plaquette) *)
  (open_census (fx_L fixture_bridge_graph) [(3%nat, 2%nat)] = true /\
   option_map (fun ps => nth 3 (edges_plaquettes (fx_L fixture_bridge_graph) ps) (Some 0%nat, Some 0%nat))
              (find_all_plaquettes (fx_L fixture_bridge_graph)) = Some (None, None)) /\
  (* concave_plaquette: one quadrilateral *)
  open_census (fx_L fixture_concave_plaquette) [(4%nat, 1%nat)] = true /\
  (* star_lattice_sheared: 6 sites, 9 edges, cubic, the supplied colouring is a proper 3-edge-colouring *)
  (regular_b fixture_star_lattice_sheared 6 3 = true /\
   proper_coloring 6 (z_edges (fx_lat fixture_star_lattice_sheared)) (fx_col fixture_star_lattice_sheared) = true /\
   length (fx_ujk fixture_star_lattice_sheared) = 9%nat).
Proof. vm_compute. repeat split; reflexivity. Qed.
