(* Proofs/PhaseDiagramFacts.v — compute_phase_diagram end to end (Model/PhaseDiagram.v): every entry of the
   returned array is the function value at the sampling point with that index, for scalar-, vector- and
   matrix-valued functions; no point is dropped or evaluated twice; the plot transforms over Q. *)
From Coq Require Import List ZArith QArith Bool Arith Lia Lqa Permutation.
From Koala Require Import Model.Sampling Model.ParMap Model.PhaseDiagram Proofs.SamplingFacts Proofs.ParMapFacts Proofs.SamplingCount.
Import ListNotations.

(* ------------------------------------------------------------------ generic: picking one entry per row *)
Section Pick.
Context {X C : Type}.
Variable g : X -> option C.
Definition pick (rows : list X) : list C :=
  flat_map (fun m => match g m with Some c => [c] | None => [] end) rows.

Lemma pick_total : forall rows, (forall m, In m rows -> g m <> None) ->
  length (pick rows) = length rows /\
  forall i m, nth_error rows i = Some m -> nth_error (pick rows) i = g m.
Proof.
  induction rows as [|r rows IH]; intros H.
  - split; [reflexivity|]. intros [|i] m E; discriminate.
  - destruct (IH (fun m Hm => H m (or_intror Hm))) as [IHl IHn].
    assert (Hr := H r (or_introl eq_refl)).
    unfold pick in *. simpl. destruct (g r) as [c|] eqn:E; [|congruence]. simpl. split.
    + now rewrite IHl.
    + intros [|i] m Em; simpl in *.
      * inversion Em; subst. now rewrite E.
      * now apply IHn.
Qed.
End Pick.

(* ------------------------------------------------------------------ chunks: nothing dropped, nothing repeated *)
Section Chunks.
Context {A : Type}.

Theorem koala_chunks_concat : forall (n_jobs : positive) (xs : list A), concat (koala_chunks n_jobs xs) = xs.
Proof. intros. unfold koala_chunks. apply chunks_by_concat. Qed.

Theorem evaluated_points_are_the_points : forall (n_jobs : positive) (xs : list A), evaluated_points n_jobs xs = xs.
Proof. intros. apply koala_chunks_concat. Qed.

Lemma koala_chunks_nonempty : forall (n_jobs : positive) (xs : list A) ch, In ch (koala_chunks n_jobs xs) -> ch <> [].
Proof. intros n_jobs xs ch. unfold koala_chunks, chunk_tasks_by. apply chunk_by_nonempty. Qed.

Lemma chunk_by_const_bound : forall fuel (cs i : nat) (xs : list A) ch,
  (1 <= cs)%nat -> In ch (chunk_by fuel (fun _ => Z.of_nat cs) i xs) -> (length ch <= cs)%nat.
Proof.
  induction fuel as [|fuel IH]; intros cs i xs ch Hcs Hin; simpl in Hin; [contradiction|].
  replace (Z.to_nat (Z.max 1 (Z.of_nat cs))) with cs in Hin by lia.
  destruct (firstn cs xs) as [|a l] eqn:E; [contradiction|].
  destruct Hin as [H|H].
  - subst ch. rewrite <- E. rewrite firstn_length. lia.
  - eapply IH; eauto.
Qed.

Lemma koala_chunks_bound : forall (n_jobs : positive) (xs : list A) ch,
  In ch (koala_chunks n_jobs xs) -> (1 <= length ch <= koala_chunk_size (length xs) n_jobs)%nat.
Proof.
  intros n_jobs xs ch Hin. split.
  - apply koala_chunks_nonempty in Hin. destruct ch; [congruence|simpl; lia].
  - unfold koala_chunks, chunk_tasks_by in Hin. eapply chunk_by_const_bound; eauto.
    unfold koala_chunk_size. lia.
Qed.
(* positional form: point i is evaluated by task i div chunk_size, at offset i mod chunk_size of that task *)
Lemma chunk_by_const_position : forall fuel (cs k : nat) (xs : list A) (i : nat) (x : A),
  (1 <= cs)%nat -> (length xs < fuel)%nat -> nth_error xs i = Some x ->
  exists ch, nth_error (chunk_by fuel (fun _ => Z.of_nat cs) k xs) (i / cs) = Some ch /\ nth_error ch (i mod cs) = Some x.
Proof.
  induction fuel as [|fuel IH]; intros cs k xs i x Hcs Hlen Hi; [lia|].
  simpl. replace (Z.to_nat (Z.max 1 (Z.of_nat cs))) with cs by lia.
  assert (Hil : (i < length xs)%nat) by (apply nth_error_Some; congruence).
  destruct (firstn cs xs) as [|a l] eqn:E.
  - exfalso. assert (H : length (firstn cs xs) = 0%nat) by now rewrite E. rewrite firstn_length in H. lia.
  - rewrite <- E. destruct (Nat.lt_ge_cases i cs) as [Hlt|Hge].
    + rewrite Nat.div_small, Nat.mod_small by exact Hlt. exists (firstn cs xs). split; [reflexivity|].
      rewrite <- Hi. rewrite <- (firstn_skipn cs xs) at 2. rewrite nth_error_app1; [reflexivity|].
      rewrite firstn_length. lia.
    + destruct (IH cs (S k) (skipn cs xs) (i - cs)%nat x Hcs) as (ch & H1 & H2).
      * rewrite skipn_length. simpl in Hlen. lia.
      * rewrite <- Hi. rewrite <- (firstn_skipn cs xs) at 2. rewrite nth_error_app2 by (rewrite firstn_length; lia).
        rewrite firstn_length. f_equal. lia.
      * exists ch. replace i with ((i - cs) + 1 * cs)%nat at 1 2 by lia.
        rewrite Nat.div_add, Nat.mod_add by lia. replace ((i - cs) / cs + 1)%nat with (S ((i - cs) / cs)) by lia.
        simpl. split; assumption.
Qed.

Theorem koala_chunk_of_point : forall (n_jobs : positive) (xs : list A) (i : nat) (x : A),
  nth_error xs i = Some x ->
  exists ch, nth_error (koala_chunks n_jobs xs) (i / koala_chunk_size (length xs) n_jobs) = Some ch /\
             nth_error ch (i mod koala_chunk_size (length xs) n_jobs) = Some x.
Proof.
  intros n_jobs xs i x Hi. unfold koala_chunks, chunk_tasks_by. apply chunk_by_const_position; [|lia|exact Hi].
  unfold koala_chunk_size. lia.
Qed.
End Chunks.

(* with the points named 0 .. n-1: every index is evaluated exactly once, for every n and every n_jobs *)
Theorem every_point_evaluated_exactly_once : forall (n : nat) (n_jobs : positive) (i : nat),
  (i < n)%nat -> count_occ Nat.eq_dec (evaluated_points n_jobs (seq 0 n)) i = 1%nat.
Proof.
  intros n n_jobs i Hi. rewrite evaluated_points_are_the_points.
  apply NoDup_count_occ'; [apply seq_NoDup|]. apply in_seq. lia.
Qed.

Theorem no_other_point_evaluated : forall (n : nat) (n_jobs : positive) (i : nat),
  (n <= i)%nat -> count_occ Nat.eq_dec (evaluated_points n_jobs (seq 0 n)) i = 0%nat.
Proof.
  intros n n_jobs i Hi. rewrite evaluated_points_are_the_points.
  apply count_occ_not_In. rewrite in_seq. lia.
Qed.

(* ------------------------------------------------------------------ scalar-valued function *)
Section Scalar.
Context {A C : Type}.
Variable pool : (list A -> list C) -> list (nat * list A) -> list (nat * list C).
Hypothesis pool_ok : forall g tasks, Permutation (pool g tasks) (map (fun t => (fst t, g (snd t))) tasks).

Theorem cpd_scalar_entry : forall (f : A -> C) (n_jobs : positive) (xs : list A),
  exists data, cpd_scalar f pool n_jobs xs = Some data /\ length data = length xs /\
    forall i x, nth_error xs i = Some x -> nth_error data i = Some (f x).
Proof.
  intros f n_jobs xs. exists (map f xs). unfold cpd_scalar.
  rewrite (parallel_equals_serial f pool pool_ok). unfold serial. repeat split.
  - apply map_length.
  - intros i x E. rewrite nth_error_map, E. reflexivity.
Qed.
End Scalar.

Lemma nth_error_map_seq : forall {Y : Type} (h : nat -> Y) (d j : nat),
  (j < d)%nat -> nth_error (map h (seq 0 d)) j = Some (h j).
Proof.
  intros Y h d j Hj. rewrite nth_error_map.
  rewrite nth_error_nth' with (d := 0%nat) by (now rewrite seq_length).
  now rewrite seq_nth.
Qed.

Lemma in_map_seq : forall {Y : Type} (h : nat -> Y) (d : nat) y,
  In y (map h (seq 0 d)) -> exists j, (j < d)%nat /\ y = h j.
Proof.
  intros Y h d y H. apply in_map_iff in H. destruct H as (j & E & Hj). apply in_seq in Hj.
  exists j. split; [lia|now symmetry].
Qed.

(* ------------------------------------------------------------------ vector-valued function, every length d *)
Section Vector.
Context {A C : Type}.
Variable pool : (list A -> list (list C)) -> list (nat * list A) -> list (nat * list (list C)).
Hypothesis pool_ok : forall g tasks, Permutation (pool g tasks) (map (fun t => (fst t, g (snd t))) tasks).

Lemma column_as_pick : forall (j : nat) (rows : list (list C)),
  column j rows = pick (fun r => nth_error r j) rows.
Proof. reflexivity. Qed.

Lemma column_shape : forall (d j : nat) (rows : list (list C)),
  (forall r, In r rows -> length r = d) -> (j < d)%nat ->
  length (column j rows) = length rows /\
  forall i r, nth_error rows i = Some r -> nth_error (column j rows) i = nth_error r j.
Proof.
  intros d j rows Hrect Hj. rewrite column_as_pick. apply pick_total.
  intros r Hr. apply nth_error_Some. rewrite (Hrect r Hr). exact Hj.
Qed.

Theorem cpd_vector_entry : forall (d : nat) (f : A -> list C) (n_jobs : positive) (xs : list A),
  xs <> [] -> (forall x, In x xs -> length (f x) = d) ->
  exists data, cpd_vector f pool n_jobs xs = Some data /\ length data = d /\
    (forall col, In col data -> length col = length xs) /\
    (forall i j x c, nth_error xs i = Some x -> nth_error (f x) j = Some c ->
       exists col, nth_error data j = Some col /\ nth_error col i = Some c).
Proof.
  intros d f n_jobs xs Hne Hd.
  assert (Hrect : forall r, In r (map f xs) -> length r = d).
  { intros r Hr. apply in_map_iff in Hr. destruct Hr as (x & E & Hx). subst r. now apply Hd. }
  assert (Hnc : ncols (map f xs) = d).
  { destruct xs as [|x xs']; [congruence|]. simpl. apply Hd. now left. }
  exists (transpose d (map f xs)). unfold cpd_vector.
  rewrite (parallel_equals_serial f pool pool_ok). unfold serial. simpl. rewrite Hnc.
  split; [reflexivity|]. split; [unfold transpose; now rewrite map_length, seq_length|]. split.
  - intros col Hc. unfold transpose in Hc. apply in_map_seq in Hc. destruct Hc as (j & Hj & E). subst col.
    destruct (column_shape d j (map f xs) Hrect Hj) as [Hl _]. now rewrite Hl, map_length.
  - intros i j x c Ei Ej.
    assert (Hj : (j < d)%nat).
    { rewrite <- (Hd x) by (eapply nth_error_In; eauto). apply nth_error_Some. congruence. }
    exists (column j (map f xs)). split.
    + unfold transpose. now apply (nth_error_map_seq (fun j => column j (map f xs))).
    + destruct (column_shape d j (map f xs) Hrect Hj) as [_ Hn].
      rewrite (Hn i (f x)); [exact Ej|]. rewrite nth_error_map, Ei. reflexivity.
Qed.
End Vector.

(* ------------------------------------------------------------------ matrix-valued function (a x b): .T reverses the axes *)
Section Matrix.
Context {A C : Type}.
Variable pool : (list A -> list (list (list C))) -> list (nat * list A) -> list (nat * list (list (list C))).
Hypothesis pool_ok : forall g tasks, Permutation (pool g tasks) (map (fun t => (fst t, g (snd t))) tasks).

Definition entry (j k : nat) (m : list (list C)) : option C :=
  match nth_error m j with Some r => nth_error r k | None => None end.

Lemma fibre_as_pick : forall (j k : nat) (rows : list (list (list C))), fibre j k rows = pick (entry j k) rows.
Proof.
  intros. unfold fibre, pick. apply flat_map_ext. intros m. unfold entry.
  destruct (nth_error m j) as [r|]; reflexivity.
Qed.

Definition shape_ok (a b : nat) (m : list (list C)) : Prop := length m = a /\ forall r, In r m -> length r = b.

Lemma fibre_shape : forall (a b j k : nat) (rows : list (list (list C))),
  (forall m, In m rows -> shape_ok a b m) -> (j < a)%nat -> (k < b)%nat ->
  length (fibre j k rows) = length rows /\
  forall i m, nth_error rows i = Some m -> nth_error (fibre j k rows) i = entry j k m.
Proof.
  intros a b j k rows Hs Hj Hk. rewrite fibre_as_pick. apply pick_total.
  intros m Hm. destruct (Hs m Hm) as [Ha Hb]. unfold entry.
  destruct (nth_error m j) as [r|] eqn:E.
  - apply nth_error_Some. rewrite (Hb r) by (eapply nth_error_In; eauto). exact Hk.
  - apply nth_error_None in E. lia.
Qed.

Theorem cpd_matrix_entry : forall (a b : nat) (f : A -> list (list C)) (n_jobs : positive) (xs : list A),
  xs <> [] -> (0 < a)%nat -> (forall x, In x xs -> shape_ok a b (f x)) ->
  exists data, cpd_matrix f pool n_jobs xs = Some data /\ length data = b /\
    (forall plane, In plane data -> length plane = a /\ forall col, In col plane -> length col = length xs) /\
    (forall i j k x r c, nth_error xs i = Some x -> nth_error (f x) j = Some r -> nth_error r k = Some c ->
       exists plane col, nth_error data k = Some plane /\ nth_error plane j = Some col /\ nth_error col i = Some c).
Proof.
  intros a b f n_jobs xs Hne Ha Hs.
  assert (Hrows : forall m, In m (map f xs) -> shape_ok a b m).
  { intros m Hm. apply in_map_iff in Hm. destruct Hm as (x & E & Hx). subst m. now apply Hs. }
  assert (Hshape : ncols (map f xs) = a /\ match map f xs with [] => 0%nat | m :: _ => ncols m end = b).
  { destruct xs as [|x xs']; [congruence|]. simpl. destruct (Hs x (or_introl eq_refl)) as [Hl Hb]. split; [exact Hl|].
    destruct (f x) as [|r m]; [simpl in Hl; lia|]. simpl. apply Hb. now left. }
  destruct Hshape as [Hnc Hnb].
  exists (transpose3 a b (map f xs)). unfold cpd_matrix.
  rewrite (parallel_equals_serial f pool pool_ok). unfold serial. cbn [option_map]. rewrite Hnc, Hnb.
  split; [reflexivity|]. split; [unfold transpose3; now rewrite map_length, seq_length|]. split.
  - intros plane Hp. unfold transpose3 in Hp. apply in_map_seq in Hp. destruct Hp as (k & Hk & E). subst plane.
    split; [now rewrite map_length, seq_length|].
    intros col Hc. apply in_map_seq in Hc. destruct Hc as (j & Hj & E). subst col.
    destruct (fibre_shape a b j k (map f xs) Hrows Hj Hk) as [Hl _]. now rewrite Hl, map_length.
  - intros i j k x r c Ei Ej Ek.
    destruct (Hs x (nth_error_In _ _ Ei)) as [Hla Hlb].
    assert (Hj : (j < a)%nat) by (rewrite <- Hla; apply nth_error_Some; congruence).
    assert (Hk : (k < b)%nat).
    { rewrite <- (Hlb r) by (eapply nth_error_In; eauto). apply nth_error_Some. congruence. }
    exists (map (fun j => fibre j k (map f xs)) (seq 0 a)), (fibre j k (map f xs)). split; [|split].
    + unfold transpose3. now apply (nth_error_map_seq (fun k => map (fun j => fibre j k (map f xs)) (seq 0 a))).
    + now apply (nth_error_map_seq (fun j => fibre j k (map f xs))).
    + destruct (fibre_shape a b j k (map f xs) Hrows Hj Hk) as [_ Hn].
      rewrite (Hn i (f x)) by (rewrite nth_error_map, Ei; reflexivity).
      unfold entry. now rewrite Ej.
Qed.
End Matrix.

(* ------------------------------------------------------------------ plot transforms (barycentric -> cartesian), exact *)
Open Scope Q_scope.

Definition peq (p q : Q * Q) : Prop := fst p == fst q /\ snd p == snd q.

(* the skew of both sampling functions IS the barycentric -> cartesian map with corners (1,0), (1/2,1), (0,0) *)
Theorem skew_is_bary_to_cart : forall p, peq (skew p) (bary_to_cart (triple p)).
Proof. intros [x y]. unfold peq, skew, bary_to_cart, triple. simpl. split; ring. Qed.

(* each of the six point lists of the symmetric scheme is the barycentric -> cartesian image of the triples with
   their coordinates permuted: the three rotations are the cyclic shifts, the reflection swaps Jx and Jy *)
Theorem plot_transform_is_coordinate_permutation : forall (reflect : bool) (i : nat) (p : Q * Q),
  peq (plot_transform reflect i p) (bary_to_cart (permute_triple reflect i (triple p))).
Proof.
  intros [|] [|[|i]] [x y]; unfold peq, plot_transform, rotate_about_centre, skew, centerp, rot_cos, rot_sgn,
    bary_to_cart, permute_triple, triple; simpl; split; ring.
Qed.

Theorem permute_triple_valid : forall (reflect : bool) (i : nat) (t : Q * Q * Q),
  valid_triple t -> valid_triple (permute_triple reflect i t).
Proof.
  intros [|] [|[|i]] [[x y] z]; unfold valid_triple, permute_triple; simpl; intros (Hx & Hy & Hz & Hs);
    repeat split; try assumption; rewrite <- Hs; ring.
Qed.

(* every node drawn lies in the triangle (0,0), (1,0), (1/2, 1 [* sqrt(3)/2]) whenever the point is a valid triple *)
Definition in_triangle (q : Q * Q) : Prop := 0 <= snd q /\ snd q * (1 # 2) <= fst q /\ fst q <= 1 - snd q * (1 # 2).

Lemma bary_in_triangle : forall t, valid_triple t -> in_triangle (bary_to_cart t).
Proof.
  intros [[x y] z] (Hx & Hy & Hz & Hs). unfold in_triangle, bary_to_cart. simpl. repeat split; lra.
Qed.

Theorem nodes_in_triangle : forall (reflect : bool) (i : nat) (p : Q * Q),
  valid_triple (triple p) -> in_triangle (plot_transform reflect i p).
Proof.
  intros reflect i p Hv.
  destruct (plot_transform_is_coordinate_permutation reflect i p) as [E1 E2].
  pose proof (bary_in_triangle _ (permute_triple_valid reflect i _ Hv)) as (H1 & H2 & H3).
  unfold in_triangle. rewrite E1, E2. repeat split; assumption.
Qed.

(* the squared cartesian distance (second coordinate in units of sqrt(3)/2, whose square is 3/4) *)
Definition dist2 (p q : Q * Q) : Q :=
  (fst p - fst q) * (fst p - fst q) + (3 # 4) * ((snd p - snd q) * (snd p - snd q)).

(* "six congruent images": every one of the six transforms preserves all distances between nodes *)
Theorem plot_transform_isometry : forall (reflect : bool) (i : nat) (p q : Q * Q),
  dist2 (plot_transform reflect i p) (plot_transform reflect i q) == dist2 (skew p) (skew q).
Proof.
  intros [|] [|[|i]] [x y] [u v]; unfold dist2, plot_transform, rotate_about_centre, skew, centerp, rot_cos, rot_sgn;
    simpl; ring.
Qed.

(* distinct sampling points are drawn at distinct nodes *)
Theorem plot_transform_injective : forall (reflect : bool) (i : nat) (p q : Q * Q),
  peq (plot_transform reflect i p) (plot_transform reflect i q) -> peq p q.
Proof.
  intros [|] [|[|i]] [x y] [u v]; unfold peq, plot_transform, rotate_about_centre, skew, centerp, rot_cos, rot_sgn;
    simpl; intros [H1 H2]; split; lra.
Qed.

(* "each triangulation is built from exactly the returned point list": one node per sampling point, node k the
   image of sampling point k; six lists for the symmetric scheme, in the order of the two loops *)
Theorem nonsym_nodes_match : forall s,
  length (nonsym_nodes s) = length (nonsym_triples s) /\
  forall k p, nth_error (nonsym_points s) k = Some p ->
    nth_error (nonsym_nodes s) k = Some (skew p) /\ nth_error (nonsym_triples s) k = Some (triple p).
Proof.
  intros s. unfold nonsym_nodes, nonsym_triples. split; [now rewrite !map_length|].
  intros k p E. now rewrite !nth_error_map, E.
Qed.

Theorem sym_nodes_match : forall s,
  sym_nodes s = map (fun ri => map (plot_transform (fst ri) (snd ri)) (sym_points s))
                    [(false, 0); (false, 1); (false, 2); (true, 0); (true, 1); (true, 2)]%nat /\
  length (sym_nodes s) = 6%nat /\
  (forall nodes, In nodes (sym_nodes s) -> length nodes = length (sym_triples s)).
Proof.
  intros s. split; [reflexivity|]. split; [reflexivity|].
  intros nodes H. unfold sym_nodes in H. simpl in H. unfold sym_triples.
  repeat (destruct H as [H|H]; [subst nodes; now rewrite !map_length|]). contradiction.
Qed.

(* ------------------------------------------------------------------ sampling points -> parallel map -> returned array *)
Close Scope Q_scope.
Section EndToEnd.
Context {C : Type}.
Variable pool : (list (Q * Q * Q) -> list C) -> list (nat * list (Q * Q * Q)) -> list (nat * list C).
Hypothesis pool_ok : forall g tasks, Permutation (pool g tasks) (map (fun t => (fst t, g (snd t))) tasks).

Theorem phase_diagram_plain : forall (s : nat) (f : Q * Q * Q -> C) (n_jobs : positive), 2 <= s ->
  exists data, cpd_scalar f pool n_jobs (nonsym_triples s) = Some data /\ length data = s * s /\
    forall i t, nth_error (nonsym_triples s) i = Some t -> nth_error data i = Some (f t).
Proof.
  intros s f n_jobs Hs. destruct (cpd_scalar_entry pool pool_ok f n_jobs (nonsym_triples s)) as (data & E & Hl & Hn).
  exists data. rewrite Hl, nonsym_count by exact Hs. auto.
Qed.

Theorem phase_diagram_symmetric : forall (s : nat) (f : Q * Q * Q -> C) (n_jobs : positive), 2 <= s ->
  exists data, cpd_scalar f pool n_jobs (sym_triples s) = Some data /\ length data = (s * s + s + 1) / 3 + 1 /\
    forall i t, nth_error (sym_triples s) i = Some t -> nth_error data i = Some (f t).
Proof.
  intros s f n_jobs Hs. destruct (cpd_scalar_entry pool pool_ok f n_jobs (sym_triples s)) as (data & E & Hl & Hn).
  exists data. rewrite Hl, sym_count by exact Hs. auto.
Qed.
End EndToEnd.

(* ------------------------------------------------------------------ the combined forms quoted in Props/C20.v *)
Theorem chunks_as_coded : forall (A : Type) (n_jobs : positive) (xs : list A),
  concat (koala_chunks n_jobs xs) = xs /\
  forall ch, In ch (koala_chunks n_jobs xs) -> (1 <= length ch <= koala_chunk_size (length xs) n_jobs)%nat.
Proof. intros A n_jobs xs. split; [apply koala_chunks_concat|apply koala_chunks_bound]. Qed.

Theorem evaluated_exactly_once : forall (n : nat) (n_jobs : positive) (i : nat),
  ((i < n)%nat -> count_occ Nat.eq_dec (evaluated_points n_jobs (seq 0 n)) i = 1%nat) /\
  ((n <= i)%nat -> count_occ Nat.eq_dec (evaluated_points n_jobs (seq 0 n)) i = 0%nat).
Proof. intros n n_jobs i. split; [apply every_point_evaluated_exactly_once|apply no_other_point_evaluated]. Qed.

Open Scope Q_scope.
Theorem transforms_are_coordinate_permutations : forall (reflect : bool) (i : nat) (p : Q * Q),
  peq (skew p) (bary_to_cart (triple p)) /\
  peq (plot_transform reflect i p) (bary_to_cart (permute_triple reflect i (triple p))).
Proof. intros. split; [apply skew_is_bary_to_cart|apply plot_transform_is_coordinate_permutation]. Qed.

Theorem transforms_isometric_injective : forall (reflect : bool) (i : nat) (p q : Q * Q),
  dist2 (plot_transform reflect i p) (plot_transform reflect i q) == dist2 (skew p) (skew q) /\
  (peq (plot_transform reflect i p) (plot_transform reflect i q) -> peq p q).
Proof. intros. split; [apply plot_transform_isometry|apply plot_transform_injective]. Qed.

Theorem nodes_match : forall s,
  (length (nonsym_nodes s) = length (nonsym_triples s) /\
   forall k p, nth_error (nonsym_points s) k = Some p ->
     nth_error (nonsym_nodes s) k = Some (skew p) /\ nth_error (nonsym_triples s) k = Some (triple p)) /\
  (sym_nodes s = map (fun ri => map (plot_transform (fst ri) (snd ri)) (sym_points s))
                     [(false, 0); (false, 1); (false, 2); (true, 0); (true, 1); (true, 2)]%nat /\
   length (sym_nodes s) = 6%nat /\
   forall nodes, In nodes (sym_nodes s) -> length nodes = length (sym_triples s)).
Proof. intros s. split; [apply nonsym_nodes_match|apply sym_nodes_match]. Qed.
