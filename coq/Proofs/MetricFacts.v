(* Proofs/MetricFacts.v — metric axioms over Q for the squared Euclidean distance and for the
   periodic (minimum-image) distance AS CODED in pathfinding.py:79-85 (Model/Metric.v). *)
From Coq Require Import QArith Qabs Qminmax Lqa Lia.
From Koala Require Import Model.Metric.
Open Scope Q_scope.

(* ------------------------------------------------------------------ squared Euclidean distance *)
Lemma mt_euclid_sym : forall a b, mt_euclid_sq a b == mt_euclid_sq b a.
Proof. intros [ax ay] [bx by']. unfold mt_euclid_sq, mt_sq. simpl. ring. Qed.

Lemma mt_sq_nn : forall x : Q, 0 <= x * x.
Proof. intros. destruct (Qlt_le_dec x 0); nra. Qed.

Lemma mt_euclid_nonneg : forall a b, 0 <= mt_euclid_sq a b.
Proof.
  intros a b. unfold mt_euclid_sq, mt_sq.
  pose proof (mt_sq_nn (fst a - fst b)). pose proof (mt_sq_nn (snd a - snd b)). lra.
Qed.

Lemma mt_euclid_zero_iff : forall a b,
  mt_euclid_sq a b == 0 <-> (fst a == fst b /\ snd a == snd b).
Proof.
  intros [ax ay] [bx by']. unfold mt_euclid_sq, mt_sq. simpl.
  pose proof (mt_sq_nn (ax - bx)). pose proof (mt_sq_nn (ay - by')). split.
  - intros H1. split; nra.
  - intros [H1 H2]. rewrite H1, H2. ring.
Qed.

(* triangle inequality of the (unsquared) distance, stated on squares:
   sqrt z <= sqrt x + sqrt y  <->  z <= x + y  \/  (z - x - y)^2 <= 4 x y *)
Lemma mt_euclid_triangle_sq : forall a b c,
  let x := mt_euclid_sq a b in let y := mt_euclid_sq b c in let z := mt_euclid_sq a c in
  z <= x + y \/ (z - x - y) * (z - x - y) <= 4 * x * y.
Proof.
  intros [ax ay] [bx by'] [cx cy]. unfold mt_euclid_sq, mt_sq. simpl. right.
  (* with p = a-b, q = b-c:  z - x - y = 2 p.q  and  (p.q)^2 <= |p|^2 |q|^2  (Cauchy-Schwarz) *)
  set (p1 := ax - bx). set (p2 := ay - by'). set (q1 := bx - cx). set (q2 := by' - cy).
  setoid_replace (ax - cx) with (p1 + q1) by (unfold p1, q1; ring).
  setoid_replace (ay - cy) with (p2 + q2) by (unfold p2, q2; ring).
  pose proof (mt_sq_nn (p1 * q2 - p2 * q1)) as H.
  nra.
Qed.

(* ------------------------------------------------------------------ periodic distance as coded *)
Lemma mt_abs_cases : forall d, 0 <= Qabs d /\ (Qabs d == d \/ Qabs d == - d).
Proof.
  intros d. split; [apply Qabs_nonneg |].
  destruct (Qlt_le_dec d 0) as [H | H].
  - right. apply Qabs_neg. lra.
  - left. now apply Qabs_pos.
Qed.

Lemma mt_wrap_cases : forall d,
  (mt_wrap d == Qabs d /\ Qabs d <= 1 - Qabs d) \/ (mt_wrap d == 1 - Qabs d /\ 1 - Qabs d <= Qabs d).
Proof.
  intros d. unfold mt_wrap.
  destruct (Q.min_spec (Qabs d) (1 - Qabs d)) as [[H1 H2] | [H1 H2]]; [left | right]; split; auto; lra.
Qed.

Lemma mt_wrap_sym : forall x y, mt_wrap (x - y) = mt_wrap (y - x).
Proof. intros. unfold mt_wrap. now rewrite (Qabs_Qminus x y). Qed.

Lemma mt_periodic_sym : forall a b, mt_periodic_sq a b == mt_periodic_sq b a.
Proof.
  intros a b. unfold mt_periodic_sq.
  rewrite (mt_wrap_sym (fst a) (fst b)), (mt_wrap_sym (snd a) (snd b)). reflexivity.
Qed.

Lemma mt_periodic_nonneg : forall a b, 0 <= mt_periodic_sq a b.
Proof.
  intros a b. unfold mt_periodic_sq, mt_sq.
  pose proof (mt_sq_nn (mt_wrap (fst a - fst b))). pose proof (mt_sq_nn (mt_wrap (snd a - snd b))). lra.
Qed.

(* one coordinate: the wrapped difference is never longer than the plain one *)
Lemma mt_wrap_sq_le : forall d, mt_wrap d * mt_wrap d <= d * d.
Proof.
  intros d. destruct (mt_abs_cases d) as [Hn Ha].
  destruct (mt_wrap_cases d) as [[Hw Hle] | [Hw Hle]]; rewrite Hw; destruct Ha as [Ha | Ha]; rewrite Ha in *; nra.
Qed.

(* never longer than the Euclidean distance (all points) *)
Lemma mt_periodic_le_euclid : forall a b, mt_periodic_sq a b <= mt_euclid_sq a b.
Proof.
  intros a b. unfold mt_periodic_sq, mt_euclid_sq, mt_sq.
  pose proof (mt_wrap_sq_le (fst a - fst b)). pose proof (mt_wrap_sq_le (snd a - snd b)). lra.
Qed.

(* one coordinate, both points in [0,1): wrapped difference zero iff equal *)
Lemma mt_wrap_zero_iff : forall x y, 0 <= x -> x < 1 -> 0 <= y -> y < 1 ->
  (mt_wrap (x - y) == 0 <-> x == y).
Proof.
  intros x y Hx0 Hx1 Hy0 Hy1. destruct (mt_abs_cases (x - y)) as [Hn Ha].
  destruct (mt_wrap_cases (x - y)) as [[Hw Hle] | [Hw Hle]]; rewrite Hw;
    destruct Ha as [Ha | Ha]; rewrite Ha in *; split; intros; lra.
Qed.

Lemma mt_wrap_nonneg_unit : forall x y, 0 <= x -> x < 1 -> 0 <= y -> y < 1 -> 0 <= mt_wrap (x - y).
Proof.
  intros x y Hx0 Hx1 Hy0 Hy1. destruct (mt_abs_cases (x - y)) as [Hn Ha].
  destruct (mt_wrap_cases (x - y)) as [[Hw Hle] | [Hw Hle]]; rewrite Hw;
    destruct Ha as [Ha | Ha]; rewrite Ha in *; lra.
Qed.

(* zero only for coincident points (points of the unit torus are represented in [0,1)^2) *)
Lemma mt_periodic_zero_iff : forall a b, mt_in_unit a -> mt_in_unit b ->
  (mt_periodic_sq a b == 0 <-> (fst a == fst b /\ snd a == snd b)).
Proof.
  intros a b (Ha1 & Ha2 & Ha3 & Ha4) (Hb1 & Hb2 & Hb3 & Hb4). unfold mt_periodic_sq, mt_sq.
  pose proof (mt_wrap_zero_iff (fst a) (fst b) Ha1 Ha2 Hb1 Hb2) as [Hx1 Hx2].
  pose proof (mt_wrap_zero_iff (snd a) (snd b) Ha3 Ha4 Hb3 Hb4) as [Hy1 Hy2].
  split.
  - intros H. split; [apply Hx1 | apply Hy1]; nra.
  - intros [H1 H2]. rewrite (Hx2 H1), (Hy2 H2). ring.
Qed.

(* it IS the minimum-image distance: for every integer shift (k1, k2) of b the plain distance is no
   shorter (points in [0,1)^2), and the shifts in {-1,0,1}^2 attain it *)
Lemma mt_wrap_sq_min_image : forall x y (k : Z), 0 <= x -> x < 1 -> 0 <= y -> y < 1 ->
  mt_wrap (x - y) * mt_wrap (x - y) <= (x - y + inject_Z k) * (x - y + inject_Z k).
Proof.
  intros x y k Hx0 Hx1 Hy0 Hy1. destruct (mt_abs_cases (x - y)) as [Hn Ha].
  assert (Hk : inject_Z k <= -1 \/ inject_Z k == 0 \/ 1 <= inject_Z k).
  { destruct (Z_lt_le_dec k 0) as [H | H]; [left | destruct (Z_le_lt_eq_dec 0 k H) as [H' | H']; [right; right | right; left]].
    - change (-1) with (inject_Z (-1)). rewrite <- Zle_Qle. lia.
    - change 1 with (inject_Z 1). rewrite <- Zle_Qle. lia.
    - subst. reflexivity. }
  destruct (mt_wrap_cases (x - y)) as [[Hw Hle] | [Hw Hle]]; rewrite Hw;
    destruct Ha as [Ha | Ha]; rewrite Ha in *; destruct Hk as [Hk | [Hk | Hk]]; try rewrite Hk; nra.
Qed.

(* ...and the bound is ATTAINED by a shift in {-1,0,1}: the coded value is the minimum over integer images,
   not merely a lower bound of it *)
Lemma mt_wrap_sq_attained : forall x y, 0 <= x -> x < 1 -> 0 <= y -> y < 1 ->
  exists k : Z, (-1 <= k <= 1)%Z /\
    mt_wrap (x - y) * mt_wrap (x - y) == (x - y + inject_Z k) * (x - y + inject_Z k).
Proof.
  intros x y Hx0 Hx1 Hy0 Hy1. destruct (mt_abs_cases (x - y)) as [Hn Ha].
  destruct (mt_wrap_cases (x - y)) as [[Hw Hle] | [Hw Hle]]; destruct Ha as [Ha | Ha].
  - exists 0%Z. split; [lia |]. rewrite Hw, Ha. change (inject_Z 0) with 0. ring.
  - exists 0%Z. split; [lia |]. rewrite Hw, Ha. change (inject_Z 0) with 0. ring.
  - exists (-1)%Z. split; [lia |]. rewrite Hw, Ha. change (inject_Z (-1)) with (-1). ring.
  - exists 1%Z. split; [lia |]. rewrite Hw, Ha. change (inject_Z 1) with 1. ring.
Qed.

(* each wrapped coordinate difference of two points of [0,1) lies in [0, 1/2] *)
Lemma mt_wrap_le_half : forall x y, 0 <= x -> x < 1 -> 0 <= y -> y < 1 -> mt_wrap (x - y) <= 1 # 2.
Proof.
  intros x y Hx0 Hx1 Hy0 Hy1. destruct (mt_abs_cases (x - y)) as [Hn Ha].
  destruct (mt_wrap_cases (x - y)) as [[Hw Hle] | [Hw Hle]]; rewrite Hw; lra.
Qed.

(* two dimensions: the coded periodic distance of two points of the unit cell is the minimum of the plain
   distance over all integer translates of the second point (lower bound for every shift + attained) *)
Definition mt_shift (b : mt_pt) (k1 k2 : Z) : mt_pt := (fst b - inject_Z k1, snd b - inject_Z k2).

Lemma mt_periodic_le_image : forall a b (k1 k2 : Z), mt_in_unit a -> mt_in_unit b ->
  mt_periodic_sq a b <= mt_euclid_sq a (mt_shift b k1 k2).
Proof.
  intros a b k1 k2 (Ha1 & Ha2 & Ha3 & Ha4) (Hb1 & Hb2 & Hb3 & Hb4).
  unfold mt_periodic_sq, mt_euclid_sq, mt_shift, mt_sq. cbn [fst snd].
  pose proof (mt_wrap_sq_min_image (fst a) (fst b) k1 Ha1 Ha2 Hb1 Hb2) as H1.
  pose proof (mt_wrap_sq_min_image (snd a) (snd b) k2 Ha3 Ha4 Hb3 Hb4) as H2.
  setoid_replace (fst a - (fst b - inject_Z k1)) with (fst a - fst b + inject_Z k1) by ring.
  setoid_replace (snd a - (snd b - inject_Z k2)) with (snd a - snd b + inject_Z k2) by ring.
  lra.
Qed.

Lemma mt_periodic_image_attained : forall a b, mt_in_unit a -> mt_in_unit b ->
  exists k1 k2 : Z, (-1 <= k1 <= 1)%Z /\ (-1 <= k2 <= 1)%Z /\
    mt_periodic_sq a b == mt_euclid_sq a (mt_shift b k1 k2).
Proof.
  intros a b (Ha1 & Ha2 & Ha3 & Ha4) (Hb1 & Hb2 & Hb3 & Hb4).
  destruct (mt_wrap_sq_attained (fst a) (fst b) Ha1 Ha2 Hb1 Hb2) as (k1 & Hk1 & E1).
  destruct (mt_wrap_sq_attained (snd a) (snd b) Ha3 Ha4 Hb3 Hb4) as (k2 & Hk2 & E2).
  exists k1, k2. split; [exact Hk1 | split; [exact Hk2 |]].
  unfold mt_periodic_sq, mt_euclid_sq, mt_shift, mt_sq. cbn [fst snd].
  setoid_replace (fst a - (fst b - inject_Z k1)) with (fst a - fst b + inject_Z k1) by ring.
  setoid_replace (snd a - (snd b - inject_Z k2)) with (snd a - snd b + inject_Z k2) by ring.
  rewrite E1, E2. reflexivity.
Qed.

(* no two points of the unit torus are further apart than half the diagonal: d^2 <= 1/2 *)
Lemma mt_periodic_le_half : forall a b, mt_in_unit a -> mt_in_unit b -> mt_periodic_sq a b <= 1 # 2.
Proof.
  intros a b (Ha1 & Ha2 & Ha3 & Ha4) (Hb1 & Hb2 & Hb3 & Hb4). unfold mt_periodic_sq, mt_sq.
  pose proof (mt_wrap_le_half (fst a) (fst b) Ha1 Ha2 Hb1 Hb2).
  pose proof (mt_wrap_le_half (snd a) (snd b) Ha3 Ha4 Hb3 Hb4).
  pose proof (mt_wrap_nonneg_unit (fst a) (fst b) Ha1 Ha2 Hb1 Hb2).
  pose proof (mt_wrap_nonneg_unit (snd a) (snd b) Ha3 Ha4 Hb3 Hb4).
  nra.
Qed.

(* non-vacuity: the bound 1/2 is met by (0,0) and (1/2,1/2), and a shift is really needed for (0,0), (9/10, 0) *)
Example mt_periodic_half_witness : mt_periodic_sq (0, 0) (1 # 2, 1 # 2) == 1 # 2.
Proof. vm_compute. reflexivity. Qed.
Example mt_periodic_shift_witness :
  mt_periodic_sq (0, 0) (9 # 10, 0) == mt_euclid_sq (0, 0) (mt_shift (9 # 10, 0) 1 0)
  /\ mt_periodic_sq (0, 0) (9 # 10, 0) < mt_euclid_sq (0, 0) (9 # 10, 0).
Proof. split; vm_compute; reflexivity. Qed.

(* triangle inequality of the coded periodic metric on the unit cell, in the same squared form as
   mt_euclid_triangle_sq (sqrt z <= sqrt x + sqrt y).  Route: take the images attaining d(a,b) and d(b,c),
   apply the Euclidean triangle inequality to a, b - k, c - k - m, and the every-image lower bound for d(a,c). *)
Lemma mt_euclid_shift_shift : forall b c (k1 k2 m1 m2 : Z),
  mt_euclid_sq (mt_shift b k1 k2) (mt_shift c (k1 + m1) (k2 + m2)) == mt_euclid_sq b (mt_shift c m1 m2).
Proof.
  intros [bx by'] [cx cy] k1 k2 m1 m2. unfold mt_euclid_sq, mt_shift, mt_sq. cbn [fst snd].
  rewrite !inject_Z_plus. ring.
Qed.

Lemma mt_periodic_triangle_sq : forall a b c, mt_in_unit a -> mt_in_unit b -> mt_in_unit c ->
  let x := mt_periodic_sq a b in let y := mt_periodic_sq b c in let z := mt_periodic_sq a c in
  z <= x + y \/ (z - x - y) * (z - x - y) <= 4 * x * y.
Proof.
  intros a b c Ha Hb Hc.
  destruct (mt_periodic_image_attained a b Ha Hb) as (k1 & k2 & _ & _ & Ex).
  destruct (mt_periodic_image_attained b c Hb Hc) as (m1 & m2 & _ & _ & Ey).
  pose proof (mt_periodic_le_image a c (k1 + m1) (k2 + m2) Ha Hc) as Hz.
  pose proof (mt_euclid_triangle_sq a (mt_shift b k1 k2) (mt_shift c (k1 + m1) (k2 + m2))) as Ht.
  cbv zeta in Ht. rewrite mt_euclid_shift_shift in Ht. rewrite <- Ex, <- Ey in Ht.
  pose proof (mt_periodic_nonneg a b) as Hx0. pose proof (mt_periodic_nonneg b c) as Hy0.
  cbv zeta.
  set (x := mt_periodic_sq a b) in *. set (y := mt_periodic_sq b c) in *. set (z := mt_periodic_sq a c) in *.
  set (z' := mt_euclid_sq a (mt_shift c (k1 + m1) (k2 + m2))) in *.
  destruct (Qlt_le_dec (x + y) z) as [Hgt | Hle]; [right | left; exact Hle].
  destruct Ht as [Ht | Ht]; [lra |].
  assert (H1 : 0 <= z - x - y) by lra. assert (H2 : z - x - y <= z' - x - y) by lra.
  nra.
Qed.

(* the hypothesis mt_in_unit is needed: outside the unit cell the coded function is NOT the torus distance
   ((0,0) and (2,0) are the same torus point but get distance 1).  koala only passes vertex positions and
   plaquette centres, which it keeps in [0,1)^2 (checked on the implementation by C01/C02's spec checks). *)
Example mt_periodic_outside_unit_refuted :
  exists a b (k1 k2 : Z), mt_in_unit a /\ ~ mt_in_unit b /\
    ~ mt_periodic_sq a b <= mt_euclid_sq a (mt_shift b k1 k2).
Proof.
  exists (0, 0), (2, 0), 2%Z, 0%Z. split; [| split].
  - unfold mt_in_unit; cbn [fst snd]; lra.
  - unfold mt_in_unit; cbn [fst snd]; lra.
  - vm_compute. intros H. apply H. reflexivity.
Qed.
