(* Proofs/HamFermionMx.v — the fermionic form as a MathComp matrix over any numClosedFieldType:
     Fmx n A  := \matrix_(r,c) giC (fermion_entry n A r c)   (tabulated from the executable entry function)
     H2mx n A := \matrix_(r,c) giC (twoH A r c)  = 2 * (i * A)
     Wmx      := [[1, i], [1, -i]] (x) 1_n,   Wmx *m Wimx = 1 with Wimx = Wmx^* / 2
   W (2H) = F W  (lifted from the entry-wise HamFermion.fermion_intertwines)  ==>  F = W (2H) W^-1
   ==>  char_poly (t F) = char_poly (2 * majorana t): the fermionic spectrum is exactly twice the Majorana one. *)
From Coq Require Import ZArith.
From Coq Require List.
From mathcomp Require Import all_ssreflect all_algebra.
From mathcomp Require Import ssrZ zify ring.
From Koala Require Import Model.Ham Proofs.HamFacts Proofs.HamFermion Proofs.HamMx.
Set Implicit Arguments. Unset Strict Implicit. Unset Printing Implicit Defensive.
Import Order.Theory GRing.Theory Num.Theory.
Local Open Scope ring_scope.

Section FermionMx.
Variable C : numClosedFieldType.
Variable n : nat.
Local Notation zC := (intr \o int_of_Z : Z -> C).

(* Gaussian integers of the model embedded in C *)
Definition giC (g : gi) : C := zC g.1 + 'i * zC g.2.

Lemma giC_add a b : giC (giadd a b) = giC a + giC b.
Proof.
rewrite /giC /giadd /= -[Z.add a.1 b.1]/(a.1 + b.1) -[Z.add a.2 b.2]/(a.2 + b.2) !rmorphD /=.
by rewrite mulrDr addrACA.
Qed.

Lemma giC_sub a b : giC (gisub a b) = giC a - giC b.
Proof.
rewrite /giC /gisub /= -[Z.sub a.1 b.1]/(a.1 - b.1) -[Z.sub a.2 b.2]/(a.2 - b.2) !rmorphB /=.
by rewrite mulrBr opprD addrACA.
Qed.

Lemma giC_i a : giC (gi_i a) = 'i * giC a.
Proof.
rewrite /giC /gi_i /= -[Z.opp a.2]/(- a.2) rmorphN /= rmorphN /= mulrDr mulrA -expr2 sqrCi.
by rewrite mulN1r addrC.
Qed.

Variable A : list (list Z).
Hypothesis HA : antisym A.

(* tabulated from the executable entry functions *)
Definition Fmx : 'M[C]_(n + n) := \matrix_(r, c) giC (fermion_entry n A r c).
Definition H2mx : 'M[C]_(n + n) := \matrix_(r, c) giC (twoH A r c).
Definition Wmx : 'M[C]_(n + n) := block_mx 1%:M ('i)%:M 1%:M (- 'i)%:M.
Definition Wimx : 'M[C]_(n + n) := 2%:R^-1 *: block_mx 1%:M 1%:M (- 'i)%:M ('i)%:M.

Lemma ltb_ord (i : 'I_n) : Nat.ltb i n = true.
Proof. exact/PeanoNat.Nat.ltb_lt/ssrnat.ltP. Qed.
Lemma ltb_shift (i : 'I_n) : Nat.ltb (n + i) n = false.
Proof. by apply/PeanoNat.Nat.ltb_ge/ssrnat.leP; rewrite leq_addr. Qed.
Lemma lt2n (r : 'I_(n + n)) : (r < 2 * n)%coq_nat.
Proof. by apply/ssrnat.ltP; rewrite mul2n -addnn. Qed.

Lemma W_H2 : Wmx *m H2mx = Fmx *m Wmx.
Proof.
rewrite -[H2mx]submxK -[Fmx]submxK /Wmx !mulmx_block.
rewrite !mul1mx !mulmx1 !mul_scalar_mx !mul_mx_scalar.
congr block_mx; apply/matrixP=> i j; rewrite !mxE.
- have := @fermion_intertwines n A _ _ HA (lt2n (lshift n i)) (lt2n (lshift n j)).
  rewrite /W_twoH /F_W /= !ltb_ord => /(congr1 giC).
  by rewrite !giC_add giC_i.
- have := @fermion_intertwines n A _ _ HA (lt2n (lshift n i)) (lt2n (rshift n j)).
  rewrite /W_twoH /F_W /= ltb_ord ltb_shift => /(congr1 giC).
  rewrite giC_add !giC_i giC_sub (_ : (n + j - n)%coq_nat = j); last by lia.
  by move=> ->; rewrite mulrBr mulNr.
- have := @fermion_intertwines n A _ _ HA (lt2n (rshift n i)) (lt2n (lshift n j)).
  rewrite /W_twoH /F_W /= ltb_ord ltb_shift => /(congr1 giC).
  rewrite giC_sub giC_i giC_add (_ : (n + i - n)%coq_nat = i); last by lia.
  by move=> e; rewrite mulNr.
- have := @fermion_intertwines n A _ _ HA (lt2n (rshift n i)) (lt2n (rshift n j)).
  rewrite /W_twoH /F_W /= !ltb_shift => /(congr1 giC).
  rewrite giC_sub !giC_i giC_sub (_ : (n + i - n)%coq_nat = i); last by lia.
  rewrite (_ : (n + j - n)%coq_nat = j); last by lia.
  by move=> e; rewrite mulNr e mulrBr mulNr.
Qed.


(* W W^* = 2: Wimx = W^* / 2 is a right inverse of W *)
Lemma W_Wi : Wmx *m Wimx = 1%:M.
Proof.
rewrite /Wmx /Wimx -scalemxAr mulmx_block !mul1mx -!scalar_mxM.
have ii : 'i * 'i = -1 :> C by rewrite -expr2 sqrCi.
rewrite mulrNN !mulrN !mulNr ii opprK -!raddfD /= subrr raddf0 -scalar_mx_block.
apply/matrixP=> i j; rewrite !mxE; case: (i == j); rewrite ?mulr1n ?mulr0n ?mulr0 //.
by rewrite -[1 + 1]/(2%:R) mulVf // pnatr_eq0.
Qed.

Lemma Fmx_similar : Fmx = Wmx *m H2mx *m Wimx.
Proof. by rewrite W_H2 -mulmxA W_Wi mulmx1. Qed.

(* t * (fermionic form / numerators) and t * 2H numerators have the same characteristic polynomial *)
Theorem fermion_char_poly (t : C) : char_poly (t *: Fmx) = char_poly (t *: H2mx).
Proof.
rewrite Fmx_similar scalemxAl scalemxAr.
by apply: char_poly_sim; apply: W_Wi.
Qed.

(* t *: H2mx is twice the Hamiltonian (i t) *: A *)
Lemma H2mx_twice (t : C) : t *: H2mx = 2%:R *: Hc t (mxZ (n + n) (entry A)).
Proof.
apply/matrixP=> r c; rewrite !mxE /giC /twoH /=.
set x := entry A r c.
have -> : (int_of_Z (Z.mul (Zpos 2) x))%:~R = 2%:R * (int_of_Z x)%:~R :> C.
  by rewrite -[Z.mul _ _]/((Zpos 2 : Z) * x) rmorphM /= rmorphM /=.
have -> : (int_of_Z Z0)%:~R = 0 :> C by [].
by ring.
Qed.


Lemma giC_conj g : (giC g)^* = giC (giconj g).
Proof.
rewrite /giC /giconj /= rmorphD rmorphM conjCi !(conj_Creal (realz _ _)).
by rewrite -[Z.opp g.2]/(- g.2) rmorphN /= rmorphN /= mulrN mulNr.
Qed.

Lemma Fmx_hermitian (t : C) : t \is Num.real -> (map_mx conjC (t *: Fmx))^T = t *: Fmx.
Proof.
move=> rt; apply/matrixP=> r c; rewrite !mxE rmorphM (CrealP rt) giC_conj.
by rewrite -(@fermion_hermitian n A _ _ HA (lt2n c) (lt2n r)).
Qed.

End FermionMx.

(* for the array built by majorana_hamiltonian on V = n + n sites *)
Theorem fermion_spectrum_twice (C : numClosedFieldType) (n : nat) (t : C) (edges : list edge) (hop : list Z) :
  no_loops edges = true ->
  char_poly (t *: Fmx C n (ham_matrix (n + n) edges hop))
  = char_poly (2%:R *: majorana (n + n) t edges hop).
Proof.
move=> nl; rewrite fermion_char_poly ?H2mx_twice //.
exact: ham_matrix_antisym.
Qed.

Theorem fermion_form_hermitian (C : numClosedFieldType) (n : nat) (t : C) (edges : list edge) (hop : list Z) :
  no_loops edges = true -> t \is Num.real ->
  (map_mx conjC (t *: Fmx C n (ham_matrix (n + n) edges hop)))^T = t *: Fmx C n (ham_matrix (n + n) edges hop).
Proof. by move=> nl rt; apply: Fmx_hermitian => //; exact: ham_matrix_antisym. Qed.
