(* Proofs/VoronoiPostFacts.v — facts about Model/VoronoiPost.v (the post-processing of koala's Voronoi
   generator, voronization.py:82-204).  All statements are unbounded (induction over lists). *)
From Coq Require Import List ZArith Bool Arith Lia Sorted.
From Koala Require Import Model.Lattice Model.Delaunay Model.VoronoiPost Proofs.DelaunayFacts.
Import ListNotations.
Open Scope Z_scope.

(* ------------------------------------------------------------------ the row order of np.unique *)
Definition klt (a b : key) : Prop :=
  let '(a1, a2, a3, a4) := a in
  let '(b1, b2, b3, b4) := b in
  a1 < b1 \/ (a1 = b1 /\ (a2 < b2 \/ (a2 = b2 /\ (a3 < b3 \/ (a3 = b3 /\ a4 < b4))))).

Ltac key_cases a1 b1 a2 b2 a3 b3 a4 b4 :=
  unfold key_cmp, klt;
  destruct (Z.compare_spec a1 b1); destruct (Z.compare_spec a2 b2);
  destruct (Z.compare_spec a3 b3); destruct (Z.compare_spec a4 b4).

Lemma key_cmp_Lt : forall a b, key_cmp a b = Lt <-> klt a b.
Proof.
  intros [[[a1 a2] a3] a4] [[[b1 b2] b3] b4]. key_cases a1 b1 a2 b2 a3 b3 a4 b4;
  split; intro H'; first [reflexivity | discriminate | lia | exfalso; lia].
Qed.

Lemma key_cmp_Gt : forall a b, key_cmp a b = Gt <-> klt b a.
Proof.
  intros [[[a1 a2] a3] a4] [[[b1 b2] b3] b4]. key_cases a1 b1 a2 b2 a3 b3 a4 b4;
  split; intro H'; first [reflexivity | discriminate | lia | exfalso; lia].
Qed.

Lemma key_cmp_Eq : forall a b, key_cmp a b = Eq <-> a = b.
Proof.
  intros [[[a1 a2] a3] a4] [[[b1 b2] b3] b4]. key_cases a1 b1 a2 b2 a3 b3 a4 b4;
  split; intro H'; first [reflexivity | discriminate | subst; reflexivity | exfalso; inversion H'; lia].
Qed.

Lemma klt_irrefl : forall a, ~ klt a a.
Proof. intros [[[a1 a2] a3] a4]. unfold klt. lia. Qed.

Lemma klt_trans : forall a b c, klt a b -> klt b c -> klt a c.
Proof. intros [[[a1 a2] a3] a4] [[[b1 b2] b3] b4] [[[c1 c2] c3] c4]. unfold klt. lia. Qed.

Lemma klt_sorted_notin : forall k l, Forall (klt k) l -> ~ In k l.
Proof.
  intros k l HF HI. rewrite Forall_forall in HF. exact (klt_irrefl k (HF k HI)).
Qed.

Lemma klt_sorted_NoDup : forall l, StronglySorted klt l -> NoDup l.
Proof.
  induction 1 as [|a l HS IH HF]; constructor; auto using klt_sorted_notin.
Qed.

(* ------------------------------------------------------------------ insert_first / unique_first *)
Definition keys {A} (l : list (key * A)) : list key := map fst l.

Lemma insert_first_keys : forall A (k : key) (x : A) l k',
  In k' (keys (insert_first k x l)) <-> k' = k \/ In k' (keys l).
Proof.
  intros A k x l k'. induction l as [|[k1 x1] t IH]; simpl.
  - intuition.
  - destruct (key_cmp k k1) eqn:E; simpl.
    + apply key_cmp_Eq in E. subst. intuition.
    + intuition.
    + unfold keys in IH. rewrite IH. intuition.
Qed.

Lemma insert_first_sorted : forall A (k : key) (x : A) l,
  StronglySorted klt (keys l) -> StronglySorted klt (keys (insert_first k x l)).
Proof.
  intros A k x l. induction l as [|[k1 x1] t IH]; simpl; intro HS.
  - constructor; constructor.
  - inversion HS as [|? ? HSt HF]; subst.
    destruct (key_cmp k k1) eqn:E; simpl.
    + exact HS.
    + apply key_cmp_Lt in E. constructor; [exact HS|].
      constructor; [exact E|]. rewrite Forall_forall in *. intros y Hy. eapply klt_trans; eauto.
    + apply key_cmp_Gt in E. constructor; [apply IH; exact HSt|].
      rewrite Forall_forall in *. intros y Hy. apply (insert_first_keys A k x t y) in Hy.
      destruct Hy as [->|Hy]; auto.
Qed.

Lemma insert_first_keep : forall A (k : key) (x : A) l e, In e l -> In e (insert_first k x l).
Proof.
  intros A k x l e. induction l as [|[k1 x1] t IH]; simpl; intro H; [tauto|].
  destruct (key_cmp k k1); simpl; intuition.
Qed.

Lemma insert_first_in : forall A (k : key) (x : A) l e,
  StronglySorted klt (keys l) -> In e (insert_first k x l) ->
  In e l \/ (e = (k, x) /\ ~ In k (keys l)).
Proof.
  intros A k x l e. induction l as [|[k1 x1] t IH]; simpl; intros HS H.
  - destruct H as [<-|[]]. right. split; auto.
  - inversion HS as [|? ? HSt HF]; subst.
    destruct (key_cmp k k1) eqn:E; simpl in H.
    + left. exact H.
    + apply key_cmp_Lt in E. destruct H as [<-|H]; [|left; exact H].
      right. split; [reflexivity|]. intros [->|HI].
      * exact (klt_irrefl _ E).
      * rewrite Forall_forall in HF. apply (klt_irrefl k). eapply klt_trans; eauto.
    + destruct H as [<-|H]; [left; left; reflexivity|].
      destruct (IH HSt H) as [HI|[-> HN]]; [left; right; exact HI|].
      right. split; [reflexivity|]. intros [->|HI]; [|exact (HN HI)].
      apply key_cmp_Gt in E. exact (klt_irrefl _ E).
Qed.

Lemma unique_first_gen : forall A (l acc : list (key * A)),
  StronglySorted klt (keys acc) ->
  let u := fold_left (fun acc kx => insert_first (fst kx) (snd kx) acc) l acc in
  StronglySorted klt (keys u) /\
  (forall k, In k (keys u) <-> In k (keys acc) \/ In k (keys l)) /\
  (forall e, In e acc -> In e u) /\
  (forall e, In e u -> In e acc \/
     (~ In (fst e) (keys acc) /\ exists l1 l2, l = l1 ++ e :: l2 /\ ~ In (fst e) (keys l1))).
Proof.
  intros A l. induction l as [|[k0 x0] l' IH]; intros acc HS; simpl.
  - repeat split; auto; intuition.
  - specialize (IH (insert_first k0 x0 acc) (insert_first_sorted A k0 x0 acc HS)).
    simpl in IH. destruct IH as (I1 & I2 & I3 & I4).
    split; [exact I1|]. split; [|split].
    + intro k. rewrite I2. rewrite insert_first_keys. intuition.
    + intros e He. apply I3. apply insert_first_keep. exact He.
    + intros e He. destruct (I4 e He) as [Hin|(Hn & l1 & l2 & -> & Hn1)].
      * destruct (insert_first_in A k0 x0 acc e HS Hin) as [Ha|[-> Hn]]; [left; exact Ha|].
        right. split; [exact Hn|]. exists [], l'. split; auto.
      * right. assert (Hk : forall k, In k (keys (insert_first k0 x0 acc)) <-> k = k0 \/ In k (keys acc))
          by (intro k; apply insert_first_keys).
        split.
        -- intro Hc. apply Hn. apply Hk. right. exact Hc.
        -- exists ((k0, x0) :: l1), l2. split; [reflexivity|].
           simpl. intros [Hc|Hc]; [|exact (Hn1 Hc)].
           apply Hn. apply Hk. left. symmetry. exact Hc.
Qed.

(* np.unique(rows, axis=0, return_index=True): strictly increasing keys, the same set of keys, every kept
   row is the first occurrence of its key *)
Lemma unique_first_spec : forall A (l : list (key * A)),
  StronglySorted klt (keys (unique_first l)) /\
  (forall k, In k (keys (unique_first l)) <-> In k (keys l)) /\
  (forall e, In e (unique_first l) ->
     exists l1 l2, l = l1 ++ e :: l2 /\ ~ In (fst e) (keys l1)).
Proof.
  intros A l. unfold unique_first.
  destruct (unique_first_gen A l [] (SSorted_nil _)) as (I1 & I2 & _ & I4).
  split; [exact I1|]. split.
  - intro k. rewrite I2. simpl. intuition.
  - intros e He. destruct (I4 e He) as [[]|(_ & H)]. exact H.
Qed.

Lemma keys_NoDup_fun : forall A (l : list (key * A)) k x y,
  NoDup (keys l) -> In (k, x) l -> In (k, y) l -> x = y.
Proof.
  intros A l k x y. induction l as [|[k1 x1] t IH]; simpl; intros HN Hx Hy; [tauto|].
  inversion HN as [|? ? Hnin HN']; subst.
  destruct Hx as [Hx|Hx]; destruct Hy as [Hy|Hy].
  - congruence.
  - inversion Hx; subst. exfalso. apply Hnin. apply (in_map fst) in Hy. exact Hy.
  - inversion Hy; subst. exfalso. apply Hnin. apply (in_map fst) in Hx. exact Hx.
  - auto.
Qed.

(* ------------------------------------------------------------------ the de-duplication of crossing ridges *)
Definition rev_edge (e : edge) : edge :=
  ((snd (fst e), fst (fst e)), (- fst (snd e), - snd (snd e))).
Definition is_loop (e : edge) : Prop := fst (fst e) = snd (fst e).

Lemma edge_key_rev : forall e, ~ is_loop e -> edge_key (rev_edge e) = edge_key e.
Proof.
  intros [[j k] [cx cy]] H. unfold is_loop in H. simpl in H. unfold edge_key, rev_edge. simpl.
  destruct (Nat.ltb_spec k j); destruct (Nat.ltb_spec j k); try lia;
    rewrite ?Z.opp_involutive; reflexivity.
Qed.

(* the key identifies an edge up to reversal (j,k,c) ~ (k,j,-c) *)
Lemma edge_key_inj : forall e e', ~ is_loop e -> edge_key e' = edge_key e -> e' = e \/ e' = rev_edge e.
Proof.
  intros [[j k] [cx cy]] [[j' k'] [cx' cy']] H. unfold is_loop in H. simpl in H.
  unfold edge_key, rev_edge. simpl.
  destruct (Nat.ltb_spec k j); destruct (Nat.ltb_spec k' j'); intro E; inversion E; subst;
    repeat match goal with HH : Z.of_nat _ = Z.of_nat _ |- _ => apply Nat2Z.inj in HH; subst end;
    try lia;
    first [ left; reflexivity | right; reflexivity
          | left; repeat f_equal; lia | right; repeat f_equal; lia ].
Qed.

Lemma edge_key_class : forall e e', ~ is_loop e ->
  (edge_key e' = edge_key e <-> e' = e \/ e' = rev_edge e).
Proof.
  intros e e' Hl. split; [exact (edge_key_inj e e' Hl)|].
  intros [->| ->]; [reflexivity|exact (edge_key_rev e Hl)].
Qed.

(* a self-loop (j,j,c) and its reversal (j,j,-c) get DIFFERENT keys unless c = 0 (swapped = 0 for both):
   the code would keep both.  Outside the property's domain: a Voronoi vertex adjacent to its own periodic
   image needs a Delaunay triangle sharing a side with its own translate. *)
Lemma edge_key_loop_not_identified :
  exists e, is_loop e /\ edge_key (rev_edge e) <> edge_key e.
Proof. exists ((0%nat, 0%nat), (1, 0)). split; [reflexivity|]. vm_compute. discriminate. Qed.

Definition tag (e : edge) : key * edge := (edge_key e, e).

Lemma dedup_tagged : forall es p, In p (unique_first (map tag es)) -> p = tag (snd p) /\ In (snd p) es.
Proof.
  intros es p Hp. destruct (unique_first_spec _ (map tag es)) as (_ & _ & H3).
  destruct (H3 p Hp) as (l1 & l2 & E & _).
  assert (Hin : In p (map tag es)) by (rewrite E; apply in_or_app; right; left; reflexivity).
  apply in_map_iff in Hin. destruct Hin as (e & <- & He). simpl. auto.
Qed.

Theorem dedup_edges_spec : forall es : list edge,
  let d := dedup_edges es in
  (* nothing invented *)
  (forall e, In e d -> In e es) /\
  (* every class is represented *)
  (forall e, In e es -> exists e', In e' d /\ edge_key e' = edge_key e) /\
  (* by exactly one edge *)
  (forall e e', In e d -> In e' d -> edge_key e = edge_key e' -> e = e') /\
  (* which is the first of its class in ridge order *)
  (forall e, In e d -> exists l1 l2, es = l1 ++ e :: l2 /\ forall e', In e' l1 -> edge_key e' <> edge_key e) /\
  (* rows come out in increasing key order (np.unique) *)
  StronglySorted klt (map edge_key d).
Proof.
  intro es. unfold dedup_edges. fold tag.
  destruct (unique_first_spec _ (map tag es)) as (H1 & H2 & H3).
  set (u := unique_first (map tag es)) in *.
  assert (Hu : forall p, In p u -> p = tag (snd p) /\ In (snd p) es) by (apply dedup_tagged).
  assert (Hkeys : map edge_key (map snd u) = keys u).
  { unfold keys. rewrite map_map. apply map_ext_in. intros p Hp. destruct (Hu p Hp) as [E _].
    rewrite E at 2. reflexivity. }
  split; [|split; [|split; [|split]]].
  - intros e He. apply in_map_iff in He. destruct He as (p & <- & Hp). apply Hu. exact Hp.
  - intros e He.
    assert (Hk : In (edge_key e) (keys u)).
    { apply H2. unfold keys. rewrite map_map. simpl. apply in_map_iff. exists e. auto. }
    unfold keys in Hk. apply in_map_iff in Hk. destruct Hk as (p & Ek & Hp).
    exists (snd p). split; [apply in_map; exact Hp|].
    destruct (Hu p Hp) as [E _]. rewrite E in Ek. exact Ek.
  - intros e e' He He' Ek.
    apply in_map_iff in He. destruct He as (p & <- & Hp).
    apply in_map_iff in He'. destruct He' as (p' & <- & Hp').
    destruct (Hu p Hp) as [E _]. destruct (Hu p' Hp') as [E' _].
    rewrite E in Hp. rewrite E' in Hp'. unfold tag in Hp, Hp'. rewrite Ek in Hp.
    eapply keys_NoDup_fun; [apply klt_sorted_NoDup; exact H1|exact Hp|exact Hp'].
  - intros e He. apply in_map_iff in He. destruct He as (p & <- & Hp).
    destruct (H3 p Hp) as (l1 & l2 & E & Hn). destruct (Hu p Hp) as [Ep _].
    apply map_eq_app in E. destruct E as (es1 & es2' & -> & <- & E2).
    apply map_eq_cons in E2. destruct E2 as (e0 & es2 & -> & E0 & _).
    exists es1, es2. split.
    + f_equal. f_equal. rewrite <- E0. reflexivity.
    + intros e' He' Ek. apply Hn. rewrite Ep. simpl. unfold keys. rewrite map_map. simpl.
      apply in_map_iff. exists e'. auto.
  - rewrite Hkeys. exact H1.
Qed.

(* "exactly one representative of each unordered pair of (vertex, vertex, +-crossing) classes" *)
Corollary dedup_edges_classes : forall (es : list edge) e, In e es -> ~ is_loop e ->
  (In e (dedup_edges es) \/ In (rev_edge e) (dedup_edges es)) /\
  (forall e', In e' (dedup_edges es) -> e' = e \/ e' = rev_edge e ->
     forall e'', In e'' (dedup_edges es) -> e'' = e \/ e'' = rev_edge e -> e'' = e').
Proof.
  intros es e He Hl. destruct (dedup_edges_spec es) as (_ & H2 & H3 & _).
  split.
  - destruct (H2 e He) as (e' & He' & Ek).
    destruct (edge_key_inj e e' Hl Ek) as [->| ->]; auto.
  - intros e' He' Hc e'' He'' Hc'. apply H3; auto.
    assert (K : forall x, x = e \/ x = rev_edge e -> edge_key x = edge_key e)
      by (intros x [->| ->]; [reflexivity|apply edge_key_rev; exact Hl]).
    rewrite (K _ Hc), (K _ Hc'). reflexivity.
Qed.

(* ------------------------------------------------------------------ nearest vertex (model of KDTree.query) *)
Lemma dist2_nonneg : forall p q, 0 <= dist2 p q.
Proof.
  intros p q. unfold dist2.
  pose proof (Z.square_nonneg (fst p - fst q)). pose proof (Z.square_nonneg (snd p - snd q)). lia.
Qed.

Lemma dist2_zero : forall p q, dist2 p q = 0 -> p = q.
Proof.
  intros [px py] [qx qy]. unfold dist2. simpl. intro H.
  pose proof (Z.square_nonneg (px - qx)). pose proof (Z.square_nonneg (py - qy)).
  assert (px - qx = 0) by nia. assert (py - qy = 0) by nia. f_equal; lia.
Qed.

Lemma dist2_refl : forall p, dist2 p p = 0.
Proof. intros [px py]. unfold dist2. simpl. ring. Qed.

Lemma bound_of_spec : forall s, 0 <= s -> 0 <= bound_of s /\ s < bound_of s * bound_of s.
Proof.
  intros s Hs. unfold bound_of. pose proof (Z.sqrt_spec s Hs) as H. simpl in H.
  pose proof (Z.sqrt_nonneg s). unfold Z.succ in H. split; lia.
Qed.

Lemma far_coord : forall p q rb, 0 <= rb ->
  (rb <=? Z.abs (fst p - fst q)) || (rb <=? Z.abs (snd p - snd q)) = true -> rb * rb <= dist2 p q.
Proof.
  intros [px py] [qx qy] rb Hrb H. unfold dist2. simpl in *.
  pose proof (Z.square_nonneg (px - qx)). pose proof (Z.square_nonneg (py - qy)).
  apply orb_true_iff in H. destruct H as [H|H]; apply Z.leb_le in H.
  - assert (rb * rb <= (px - qx) * (px - qx))
      by (rewrite <- (Z.abs_square (px - qx)); apply Z.mul_le_mono_nonneg; lia). lia.
  - assert (rb * rb <= (py - qy) * (py - qy))
      by (rewrite <- (Z.abs_square (py - qy)); apply Z.mul_le_mono_nonneg; lia). lia.
Qed.

Definition near_inv (q : pt) (pre : list pt) (bi : nat) (bd : Z) (sd : option (Z * Z)) : Prop :=
  (bi < length pre)%nat /\ bd = dist2 (nth bi pre (0, 0)) q /\
  (forall j, (j < length pre)%nat -> bd <= dist2 (nth j pre (0, 0)) q) /\
  (forall j, (j < bi)%nat -> bd < dist2 (nth j pre (0, 0)) q) /\
  match sd with
  | None => length pre = 1%nat
  | Some (s, rb) => bd <= s /\ s < rb * rb /\ 0 <= rb /\
                    (forall j, (j < length pre)%nat -> j <> bi -> s <= dist2 (nth j pre (0, 0)) q)
  end.

Lemma nth_snoc_lt : forall (pre : list pt) p j, (j < length pre)%nat -> nth j (pre ++ [p]) (0, 0) = nth j pre (0, 0).
Proof. intros. apply app_nth1. assumption. Qed.
Lemma nth_snoc_eq : forall (pre : list pt) p, nth (length pre) (pre ++ [p]) (0, 0) = p.
Proof. intros. apply nth_middle. Qed.

Lemma near_inv_step : forall q pre p bi bd sd, near_inv q pre bi bd sd ->
  let st := (if (match sd with
                 | Some (_, rb) => (rb <=? Z.abs (fst p - fst q)) || (rb <=? Z.abs (snd p - snd q))
                 | None => false end)
             then (bi, bd, sd)
             else if dist2 p q <? bd then (length pre, dist2 p q, Some (bd, bound_of bd))
                  else (bi, bd, upd2 sd (dist2 p q))) in
  near_inv q (pre ++ [p]) (fst (fst st)) (snd (fst st)) (snd st).
Proof.
  intros q pre p bi bd sd (Hbi & Hbd & Hall & Hlt & Hsd).
  assert (Hlen : length (pre ++ [p]) = S (length pre)) by (rewrite app_length; simpl; lia).
  assert (Hcase : forall j, (j < S (length pre))%nat -> (j < length pre)%nat \/ j = length pre) by lia.
  pose proof (dist2_nonneg p q) as Hd0.
  assert (Hbd0 : 0 <= bd) by (rewrite Hbd; apply dist2_nonneg).
  destruct (match sd with
            | Some (_, rb) => (rb <=? Z.abs (fst p - fst q)) || (rb <=? Z.abs (snd p - snd q))
            | None => false end) eqn:Erej; simpl.
  - (* rejected without computing the distance *)
    destruct sd as [[s rb]|]; [|discriminate]. destruct Hsd as (H1 & H2 & H3 & H4).
    pose proof (far_coord p q rb H3 Erej) as Hfar.
    unfold near_inv. rewrite Hlen. repeat split.
    + lia.
    + rewrite nth_snoc_lt by lia. exact Hbd.
    + intros j Hj. destruct (Hcase j Hj) as [Hj'| ->].
      * rewrite nth_snoc_lt by lia. auto.
      * rewrite nth_snoc_eq. lia.
    + intros j Hj. rewrite nth_snoc_lt by lia. auto.
    + exact H1.
    + exact H2.
    + exact H3.
    + intros j Hj Hne. destruct (Hcase j Hj) as [Hj'| ->].
      * rewrite nth_snoc_lt by lia. auto.
      * rewrite nth_snoc_eq. lia.
  - destruct (Z.ltb_spec (dist2 p q) bd) as [Hnew|Hold]; simpl.
    + (* new best; the old best becomes the runner-up *)
      destruct (bound_of_spec bd Hbd0) as [Hb1 Hb2].
      unfold near_inv. rewrite Hlen. repeat split.
      * lia.
      * rewrite nth_snoc_eq. reflexivity.
      * intros j Hj. destruct (Hcase j Hj) as [Hj'| ->].
        -- rewrite nth_snoc_lt by lia. specialize (Hall j Hj'). lia.
        -- rewrite nth_snoc_eq. lia.
      * intros j Hj. rewrite nth_snoc_lt by lia. specialize (Hall j Hj). lia.
      * lia.
      * exact Hb2.
      * exact Hb1.
      * intros j Hj Hne. destruct (Hcase j Hj) as [Hj'| ->]; [|congruence].
        rewrite nth_snoc_lt by lia. auto.
    + (* not better than the best: candidate for runner-up *)
      destruct (bound_of_spec (dist2 p q) Hd0) as [Hb1 Hb2].
      unfold near_inv. rewrite Hlen.
      split; [lia|]. split; [rewrite nth_snoc_lt by lia; exact Hbd|].
      split; [|split].
      * intros j Hj. destruct (Hcase j Hj) as [Hj'| ->].
        -- rewrite nth_snoc_lt by lia. auto.
        -- rewrite nth_snoc_eq. lia.
      * intros j Hj. rewrite nth_snoc_lt by lia. auto.
      * destruct sd as [[s rb]|]; simpl.
        -- destruct Hsd as (H1 & H2 & H3 & H4).
           destruct (Z.ltb_spec (dist2 p q) s) as [Hls|Hge].
           ++ repeat split; try lia.
              intros j Hj Hne. destruct (Hcase j Hj) as [Hj'| ->].
              ** rewrite nth_snoc_lt by lia. specialize (H4 j Hj' Hne). lia.
              ** rewrite nth_snoc_eq. lia.
           ++ repeat split; try lia.
              intros j Hj Hne. destruct (Hcase j Hj) as [Hj'| ->].
              ** rewrite nth_snoc_lt by lia. auto.
              ** rewrite nth_snoc_eq. lia.
        -- repeat split; try lia.
           intros j Hj Hne. assert (j = length pre) by lia. subst j. rewrite nth_snoc_eq. lia.
Qed.

Lemma nearest_go_inv : forall q t pre bi bd sd, near_inv q pre bi bd sd ->
  let r := nearest_go q t (length pre) bi bd sd in
  near_inv q (pre ++ t) (fst (fst r)) (snd (fst r)) (snd r).
Proof.
  intros q t. induction t as [|p t IH]; intros pre bi bd sd Hinv; simpl.
  - rewrite app_nil_r. exact Hinv.
  - pose proof (near_inv_step q pre p bi bd sd Hinv) as Hstep. simpl in Hstep.
    assert (Hl : S (length pre) = length (pre ++ [p])) by (rewrite app_length; simpl; lia).
    replace (pre ++ p :: t) with ((pre ++ [p]) ++ t) by (rewrite <- app_assoc; reflexivity).
    destruct (match sd with
              | Some (_, rb) => (rb <=? Z.abs (fst p - fst q)) || (rb <=? Z.abs (snd p - snd q))
              | None => false end).
    + rewrite Hl. apply IH. exact Hstep.
    + destruct (dist2 p q <? bd); rewrite Hl; apply IH; exact Hstep.
Qed.

Lemma nearest_info_inv : forall vs q, vs <> [] ->
  let r := nearest_info vs q in near_inv q vs (fst (fst r)) (snd (fst r)) (snd r).
Proof.
  intros [|p t] q Hne; [congruence|]. unfold nearest_info.
  change (p :: t) with ([p] ++ t). change 1%nat with (length [p]).
  apply nearest_go_inv. unfold near_inv. simpl. repeat split; try lia.
  - intros j Hj. assert (j = 0)%nat by lia. subst. simpl. lia.
Qed.

(* the contract of KDTree.query(k=1) as modelled: the FIRST vertex of minimal squared distance *)
Theorem nearest_spec : forall vs q, vs <> [] ->
  (nearest vs q < length vs)%nat /\
  (forall j, (j < length vs)%nat -> dist2 (nth (nearest vs q) vs (0, 0)) q <= dist2 (nth j vs (0, 0)) q) /\
  (forall j, (j < nearest vs q)%nat -> dist2 (nth (nearest vs q) vs (0, 0)) q < dist2 (nth j vs (0, 0)) q).
Proof.
  intros vs q Hne. destruct (nearest_info_inv vs q Hne) as (H1 & H2 & H3 & H4 & _).
  unfold nearest. rewrite <- H2. auto.
Qed.

(* the reported margin: first component = the winner's squared distance, second = a lower bound for (in fact the
   minimum of) the squared distances of all other vertices; so "runner-up - winner small" is detected *)
Theorem nearest_margin_spec : forall vs q bd s, vs <> [] ->
  margin_of (nearest_info vs q) = (bd, Some s) ->
  bd = dist2 (nth (nearest vs q) vs (0, 0)) q /\
  forall j, (j < length vs)%nat -> j <> nearest vs q -> s <= dist2 (nth j vs (0, 0)) q.
Proof.
  intros vs q bd s Hne Hm. destruct (nearest_info_inv vs q Hne) as (H1 & H2 & H3 & H4 & H5).
  unfold margin_of in Hm. unfold nearest.
  destruct (nearest_info vs q) as [[bi bd'] sd]. simpl in *.
  destruct sd as [[s' rb]|]; inversion Hm; subst. destruct H5 as (_ & _ & _ & H5). auto.
Qed.

(* when the query point IS a vertex position (exact replication), the query returns a vertex at that position *)
Theorem nearest_exact : forall vs q, In q vs -> nth (nearest vs q) vs (0, 0) = q.
Proof.
  intros vs q Hin. assert (Hne : vs <> []) by (intro E; subst; inversion Hin).
  destruct (nearest_spec vs q Hne) as (_ & H2 & _).
  destruct (In_nth vs q (0, 0) Hin) as (j & Hj & Ej).
  specialize (H2 j Hj). rewrite Ej, dist2_refl in H2.
  apply dist2_zero. pose proof (dist2_nonneg (nth (nearest vs q) vs (0, 0)) q). lia.
Qed.

(* ------------------------------------------------------------------ the cell (0,1] and the image in it *)
Lemma in_unit_spec : forall S p, in_unit S p = true <-> (0 < fst p <= S /\ 0 < snd p <= S).
Proof.
  intros S p. unfold in_unit. rewrite !andb_true_iff, !Z.ltb_lt, !Z.leb_le. lia.
Qed.

Lemma wrap_coord : forall S x, 0 < S -> 0 < x - S * cell_of x S <= S.
Proof.
  intros S x HS. pose proof (proj1 (cell_of_spec x S (cell_of x S) HS) eq_refl). nia.
Qed.

Lemma wrap_in_unit : forall S p, 0 < S -> in_unit S (wrap S p) = true.
Proof.
  intros S p HS. apply in_unit_spec. unfold wrap. simpl.
  split; apply wrap_coord; exact HS.
Qed.

Lemma wrap_id : forall S p, 0 < S -> in_unit S p = true -> wrap S p = p.
Proof.
  intros S [x y] HS H. apply in_unit_spec in H. simpl in H. unfold wrap. simpl.
  assert (cell_of x S = 0) by (apply cell_of_spec; lia).
  assert (cell_of y S = 0) by (apply cell_of_spec; lia).
  f_equal; lia.
Qed.

(* ------------------------------------------------------------------ what the returned ridges are *)
Lemma select_spec : forall S vs k rv r,
  In r (select S vs k rv) <-> In r rv /\ count_in S vs r = k /\ finite r = true.
Proof.
  intros. unfold select. rewrite filter_In, andb_true_iff, Nat.eqb_eq. tauto.
Qed.

Lemma cross_edge_eq : forall S vs r,
  cross_edge S vs r =
  let lo := Nat.min (fst r) (snd r) in
  let hi := Nat.max (fst r) (snd r) in
  let plo := nth lo vs (0, 0) in
  let phi := nth hi vs (0, 0) in
  ((nearest vs (wrap S plo), nearest vs (wrap S phi)),
   (cell_of (fst phi) S - cell_of (fst plo) S, cell_of (snd phi) S - cell_of (snd plo) S)).
Proof. reflexivity. Qed.

Lemma crossing_edges_eq : forall S vs rv,
  crossing_edges S vs rv = map (fun r => cross_edge S vs (to_nat_pair r)) (select S vs 1 rv).
Proof. intros. unfold crossing_edges, crossing_info. rewrite map_map. reflexivity. Qed.

Lemma pbc_edges_eq : forall S vs rv,
  pbc_edges S vs rv =
  map (fun r => (to_nat_pair r, (0, 0))) (select S vs 2 rv) ++ dedup_edges (crossing_edges S vs rv).
Proof. reflexivity. Qed.

(* every returned ridge comes from a finite Voronoi ridge: either both ends lie in the cell (0,1]^2, it is
   returned as it is with crossing 0; or exactly one end does, and it is [cross_edge] of that ridge *)
Theorem pbc_edges_origin : forall S vs rv e, In e (pbc_edges S vs rv) ->
  (exists r, In r rv /\ finite r = true /\ count_in S vs r = 2%nat /\ e = (to_nat_pair r, (0, 0))) \/
  (exists r, In r rv /\ finite r = true /\ count_in S vs r = 1%nat /\ e = cross_edge S vs (to_nat_pair r)).
Proof.
  intros S vs rv e He. rewrite pbc_edges_eq in He. apply in_app_or in He. destruct He as [He|He].
  - left. apply in_map_iff in He. destruct He as (r & <- & Hr). apply select_spec in Hr.
    exists r. tauto.
  - right. destruct (dedup_edges_spec (crossing_edges S vs rv)) as (H1 & _).
    specialize (H1 e He). rewrite crossing_edges_eq in H1. apply in_map_iff in H1.
    destruct H1 as (r & <- & Hr). apply select_spec in Hr. exists r. tauto.
Qed.

(* conversely no ridge is lost: an inside ridge is returned, a crossing ridge is represented by an edge with
   the same key (itself or an earlier ridge of the same class) *)
Theorem pbc_edges_complete : forall S vs rv r, In r rv -> finite r = true ->
  (count_in S vs r = 2%nat -> In (to_nat_pair r, (0, 0)) (pbc_edges S vs rv)) /\
  (count_in S vs r = 1%nat -> exists e, In e (pbc_edges S vs rv) /\
                                  edge_key e = edge_key (cross_edge S vs (to_nat_pair r))).
Proof.
  intros S vs rv r Hr Hf. rewrite pbc_edges_eq. split; intro Hc.
  - apply in_or_app. left. apply in_map_iff. exists r. split; [reflexivity|]. apply select_spec. tauto.
  - destruct (dedup_edges_spec (crossing_edges S vs rv)) as (_ & H2 & _).
    destruct (H2 (cross_edge S vs (to_nat_pair r))) as (e & He & Ek).
    + rewrite crossing_edges_eq. apply in_map_iff. exists r. split; [reflexivity|]. apply select_spec. tauto.
    + exists e. split; [apply in_or_app; right; exact He|exact Ek].
Qed.

(* geometric meaning of a crossing edge ((j,k),c) made from the ridge with sorted ends lo < hi:
   the two query points are the images of the ridge's ends in the cell (0,1]^2 (lattice translates by the
   cells they lie in), the crossing is the difference of those cells; and if the images are themselves
   vertices (koala's premise: replication is exact) then j, k sit exactly there, so that
   pos[k] + c - pos[j] = ridge vector: the periodic edge IS the ridge, translated. *)
Theorem cross_edge_geometry : forall S vs r, 0 < S ->
  let lo := Nat.min (fst r) (snd r) in
  let hi := Nat.max (fst r) (snd r) in
  let plo := nth lo vs (0, 0) in
  let phi := nth hi vs (0, 0) in
  let e := cross_edge S vs r in
  let j := fst (fst e) in let k := snd (fst e) in let c := snd e in
  c = (cell_of (fst phi) S - cell_of (fst plo) S, cell_of (snd phi) S - cell_of (snd plo) S) /\
  in_unit S (wrap S plo) = true /\ in_unit S (wrap S phi) = true /\
  (forall i, (i < length vs)%nat -> dist2 (nth j vs (0, 0)) (wrap S plo) <= dist2 (nth i vs (0, 0)) (wrap S plo)) /\
  (forall i, (i < length vs)%nat -> dist2 (nth k vs (0, 0)) (wrap S phi) <= dist2 (nth i vs (0, 0)) (wrap S phi)) /\
  (In (wrap S plo) vs -> In (wrap S phi) vs ->
     nth j vs (0, 0) = wrap S plo /\ nth k vs (0, 0) = wrap S phi /\
     in_unit S (nth j vs (0, 0)) = true /\ in_unit S (nth k vs (0, 0)) = true /\
     fst (nth k vs (0, 0)) + S * fst c - fst (nth j vs (0, 0)) = fst phi - fst plo /\
     snd (nth k vs (0, 0)) + S * snd c - snd (nth j vs (0, 0)) = snd phi - snd plo).
Proof.
  intros S vs r HS lo hi plo phi e j k c.
  assert (Ee : e = ((nearest vs (wrap S plo), nearest vs (wrap S phi)),
                    (cell_of (fst phi) S - cell_of (fst plo) S, cell_of (snd phi) S - cell_of (snd plo) S)))
    by reflexivity.
  assert (Ej : j = nearest vs (wrap S plo)) by (unfold j; rewrite Ee; reflexivity).
  assert (Ek : k = nearest vs (wrap S phi)) by (unfold k; rewrite Ee; reflexivity).
  assert (Ec : c = (cell_of (fst phi) S - cell_of (fst plo) S, cell_of (snd phi) S - cell_of (snd plo) S))
    by (unfold c; rewrite Ee; reflexivity).
  split; [exact Ec|]. split; [apply wrap_in_unit; exact HS|]. split; [apply wrap_in_unit; exact HS|].
  split; [|split; [|]].
  - intros i Hi. rewrite Ej. apply nearest_spec; [intro E; rewrite E in Hi; simpl in Hi; lia|exact Hi].
  - intros i Hi. rewrite Ek. apply nearest_spec; [intro E; rewrite E in Hi; simpl in Hi; lia|exact Hi].
  - intros Hlo Hhi.
    assert (Nj : nth j vs (0, 0) = wrap S plo) by (rewrite Ej; apply nearest_exact; exact Hlo).
    assert (Nk : nth k vs (0, 0) = wrap S phi) by (rewrite Ek; apply nearest_exact; exact Hhi).
    rewrite Nj, Nk, Ec. repeat split; try (apply wrap_in_unit; exact HS); unfold wrap; simpl; ring.
Qed.

(* the end lying in the cell is mapped to a vertex at the same position *)
Corollary cross_edge_inner_end : forall S vs i, 0 < S -> (i < length vs)%nat ->
  in_unit S (nth i vs (0, 0)) = true ->
  nth (nearest vs (wrap S (nth i vs (0, 0)))) vs (0, 0) = nth i vs (0, 0).
Proof.
  intros S vs i HS Hi Hin. rewrite (wrap_id S _ HS Hin). apply nearest_exact. apply nth_In. exact Hi.
Qed.

(* ------------------------------------------------------------------ re-indexing *)
Lemma pos_in_spec : forall x l, In x l -> (pos_in x l < length l)%nat /\ nth (pos_in x l) l 0%nat = x.
Proof.
  intros x l. induction l as [|a t IH]; simpl; intro H; [tauto|].
  destruct (Nat.eqb_spec x a) as [->|Hne].
  - split; [lia|reflexivity].
  - destruct H as [H|H]; [congruence|]. destruct (IH H). split; [lia|assumption].
Qed.

Lemma pos_in_nth : forall l i, NoDup l -> (i < length l)%nat -> pos_in (nth i l 0%nat) l = i.
Proof.
  intros l. induction l as [|a t IH]; intros i HN Hi; simpl in *; [lia|].
  inversion HN as [|? ? Hnin HN']; subst.
  destruct i as [|i]; [rewrite Nat.eqb_refl; reflexivity|].
  destruct (Nat.eqb_spec (nth i t 0%nat) a) as [E|_].
  - exfalso. apply Hnin. rewrite <- E. apply nth_In. lia.
  - f_equal. apply IH; [exact HN'|lia].
Qed.

Lemma memb_spec : forall x l, memb x l = true <-> In x l.
Proof.
  intros x l. unfold memb. rewrite existsb_exists. split.
  - intros (y & Hy & E). apply Nat.eqb_eq in E. subst. exact Hy.
  - intro H. exists x. split; [exact H|apply Nat.eqb_refl].
Qed.

Lemma NoDup_nodupb : forall l : list nat, NoDup l -> nodupb l = true.
Proof.
  induction 1 as [|x l Hnin HN IH]; simpl; [reflexivity|].
  rewrite IH, andb_true_r. apply negb_true_iff. apply not_true_is_false. intro H.
  apply Hnin. apply (memb_spec x l). exact H.
Qed.

(* the contract of list(set(.)) *)
Lemma order_ok_spec : forall order l,
  order_ok order l = true <-> NoDup order /\ (forall x, In x l <-> In x order).
Proof.
  intros order l. unfold order_ok. rewrite !andb_true_iff, !forallb_forall. split.
  - intros [[H1 H2] H3]. split; [apply nodupb_NoDup; exact H1|].
    intro x. split; intro H; apply memb_spec; auto.
  - intros [H1 H2]. split; [split|].
    + apply NoDup_nodupb. exact H1.
    + intros x Hx. apply memb_spec. apply H2. exact Hx.
    + intros x Hx. apply memb_spec. apply H2. exact Hx.
Qed.

Lemma edge_ends_In : forall (es : list edge) e, In e es ->
  In (fst (fst e)) (edge_ends es) /\ In (snd (fst e)) (edge_ends es).
Proof.
  intros es e He. unfold edge_ends. split; apply in_flat_map; exists e; simpl; auto.
Qed.

Definition edge0 : edge := ((0%nat, 0%nat), (0, 0)).

(* voronization.py:191-199: for ANY enumeration of the surviving vertices satisfying the set contract, the new index
   of a vertex is its position in the enumeration, new_vertices[new] = vor.vertices[old], all indices are in range,
   every new vertex is an end of some edge, crossings are untouched *)
Theorem reindex_spec : forall vs order (es : list edge) ps ed cr,
  reindex vs order es = Ok (ps, ed, cr) ->
  NoDup order /\ (forall x, In x (edge_ends es) <-> In x order) /\
  ps = map (fun i => nth i vs (0, 0)) order /\ length ps = length order /\
  length ed = length es /\ cr = map snd es /\
  forall i, (i < length es)%nat ->
    let e := nth i es edge0 in
    let jk := nth i ed (0%nat, 0%nat) in
    (fst jk < length ps)%nat /\ (snd jk < length ps)%nat /\
    nth (fst jk) order 0%nat = fst (fst e) /\ nth (snd jk) order 0%nat = snd (fst e) /\
    nth (fst jk) ps (0, 0) = nth (fst (fst e)) vs (0, 0) /\
    nth (snd jk) ps (0, 0) = nth (snd (fst e)) vs (0, 0).
Proof.
  intros vs order es ps ed cr H. unfold reindex in H.
  destruct (order_ok order (edge_ends es)) eqn:Eok; [|discriminate].
  inversion H; subst; clear H. apply order_ok_spec in Eok. destruct Eok as [HN Hmem].
  split; [exact HN|]. split; [exact Hmem|]. split; [reflexivity|].
  split; [apply map_length|]. split; [apply map_length|]. split; [reflexivity|].
  intros i Hi e jk.
  set (f := fun e : edge => (pos_in (fst (fst e)) order, pos_in (snd (fst e)) order)).
  assert (Ejk : jk = f e).
  { unfold jk, e. rewrite (nth_indep _ (0%nat, 0%nat) (f edge0)) by (rewrite map_length; exact Hi).
    apply map_nth. }
  assert (He : In e es) by (apply nth_In; exact Hi).
  destruct (edge_ends_In es e He) as [H1 H2].
  apply Hmem in H1. apply Hmem in H2.
  destruct (pos_in_spec _ _ H1) as [L1 N1]. destruct (pos_in_spec _ _ H2) as [L2 N2].
  rewrite Ejk. unfold f. simpl. rewrite map_length.
  assert (G : forall j, (j < length order)%nat ->
              nth j (map (fun i0 : nat => nth i0 vs (0, 0)) order) (0, 0) = nth (nth j order 0%nat) vs (0, 0)).
  { intros j Hj. rewrite (nth_indep _ (0, 0) ((fun i0 : nat => nth i0 vs (0, 0)) 0%nat)) by (rewrite map_length; exact Hj).
    apply (map_nth (fun i0 : nat => nth i0 vs (0, 0))). }
  repeat split; auto.
  - rewrite G by exact L1. rewrite N1. reflexivity.
  - rewrite G by exact L2. rewrite N2. reflexivity.
Qed.

(* ---- the canonical enumeration: increasing old index; the new index is then the rank *)
Lemma insert_nodup_In : forall x l y, In y (insert_nodup x l) <-> y = x \/ In y l.
Proof.
  intros x l y. induction l as [|a t IH]; simpl; [intuition|].
  destruct (Nat.ltb_spec x a); [simpl; intuition|].
  destruct (Nat.eqb_spec x a); [subst; simpl; intuition|].
  simpl. rewrite IH. intuition.
Qed.

Lemma insert_nodup_sorted : forall x l, StronglySorted lt l -> StronglySorted lt (insert_nodup x l).
Proof.
  intros x l. induction l as [|a t IH]; simpl; intro HS; [constructor; constructor|].
  inversion HS as [|? ? HSt HF]; subst.
  destruct (Nat.ltb_spec x a).
  - constructor; [exact HS|]. constructor; [exact H|]. rewrite Forall_forall in *. intros y Hy.
    specialize (HF y Hy). lia.
  - destruct (Nat.eqb_spec x a); [exact HS|].
    constructor; [apply IH; exact HSt|]. rewrite Forall_forall in *. intros y Hy.
    apply insert_nodup_In in Hy. destruct Hy as [->|Hy]; [lia|auto].
Qed.

Lemma sorted_nodup_spec : forall l,
  StronglySorted lt (sorted_nodup l) /\ forall x, In x (sorted_nodup l) <-> In x l.
Proof.
  induction l as [|a t [IH1 IH2]]; simpl.
  - split; [constructor|tauto].
  - split; [apply insert_nodup_sorted; exact IH1|].
    intro x. rewrite insert_nodup_In, IH2. intuition.
Qed.

Lemma lt_sorted_NoDup : forall l, StronglySorted lt l -> NoDup l.
Proof.
  induction 1 as [|a l HS IH HF]; constructor; auto.
  intro Hin. rewrite Forall_forall in HF. specialize (HF a Hin). lia.
Qed.

Lemma sorted_nodup_ok : forall l, order_ok (sorted_nodup l) l = true.
Proof.
  intro l. apply order_ok_spec. destruct (sorted_nodup_spec l) as [H1 H2].
  split; [apply lt_sorted_NoDup; exact H1|]. intro x. symmetry. apply H2.
Qed.

Lemma pos_in_rank : forall l x, StronglySorted lt l -> In x l ->
  pos_in x l = length (filter (fun y => (y <? x)%nat) l).
Proof.
  intros l x. induction l as [|a t IH]; simpl; intros HS Hin; [tauto|].
  inversion HS as [|? ? HSt HF]; subst. rewrite Forall_forall in HF.
  destruct (Nat.eqb_spec x a) as [->|Hne].
  - rewrite Nat.ltb_irrefl.
    assert (E : filter (fun y => (y <? a)%nat) t = []).
    { clear IH Hin HS HSt. induction t as [|b t IHt]; simpl; [reflexivity|].
      assert (a < b)%nat by (apply HF; left; reflexivity).
      destruct (Nat.ltb_spec b a); [lia|]. apply IHt. intros y Hy. apply HF. right. exact Hy. }
    rewrite E. reflexivity.
  - destruct Hin as [Hin|Hin]; [congruence|]. specialize (HF x Hin).
    destruct (Nat.ltb_spec a x); [|lia]. simpl. f_equal. apply IH; assumption.
Qed.

(* with the sorted enumeration the re-indexing never fails, and the new index of a vertex is the number of
   surviving vertices with a smaller old index *)
Theorem reindex_sorted : forall vs (es : list edge),
  exists ps ed cr, reindex vs (sorted_nodup (edge_ends es)) es = Ok (ps, ed, cr) /\
  forall i, (i < length es)%nat ->
    let e := nth i es edge0 in
    nth i ed (0%nat, 0%nat) =
      (length (filter (fun y => (y <? fst (fst e))%nat) (sorted_nodup (edge_ends es))),
       length (filter (fun y => (y <? snd (fst e))%nat) (sorted_nodup (edge_ends es)))).
Proof.
  intros vs es. unfold reindex. rewrite sorted_nodup_ok.
  eexists. eexists. eexists. split; [reflexivity|].
  intros i Hi. set (e := nth i es edge0).
  set (f := fun e : edge => (pos_in (fst (fst e)) (sorted_nodup (edge_ends es)),
                              pos_in (snd (fst e)) (sorted_nodup (edge_ends es)))).
  rewrite (nth_indep _ (0%nat, 0%nat) (f edge0)) by (rewrite map_length; exact Hi).
  rewrite (map_nth f). fold e. unfold f.
  destruct (sorted_nodup_spec (edge_ends es)) as [H1 H2].
  assert (He : In e es) by (apply nth_In; exact Hi).
  destruct (edge_ends_In es e He) as [Ha Hb].
  rewrite !pos_in_rank; auto; apply H2; assumption.
Qed.

(* ------------------------------------------------------------------ shift_vertices *)
Lemma adjacent_seeds_eq : forall v rv rp,
  adjacent_seeds v rv rp =
  map (fun x : (Z * Z) * (nat * nat) => [fst (snd x); snd (snd x)])
      (filter (fun x : (Z * Z) * (nat * nat) => (fst (fst x) =? v) || (snd (fst x) =? v)) (combine rv rp)).
Proof.
  intros v rv. induction rv as [|r rv IH]; intros [|p rp]; simpl; try reflexivity.
  destruct ((fst r =? v) || (snd r =? v)); simpl; rewrite IH; reflexivity.
Qed.

(* a shifted vertex is the sum of exactly three distinct seeds i < j < k: the seeds separated by the three
   ridges that touch the vertex (koala divides by 3: the scale of the model is multiplied by 3 instead) *)
Theorem centroid3_spec : forall points rv rp v c, centroid3 points rv rp v = Ok c ->
  length (adjacent_seeds (Z.of_nat v) rv rp) = 3%nat /\
  exists i j k, sorted_nodup (concat (adjacent_seeds (Z.of_nat v) rv rp)) = [i; j; k] /\
    (i < j < k)%nat /\ (k < length points)%nat /\
    (forall x, In x [i; j; k] <-> In x (concat (adjacent_seeds (Z.of_nat v) rv rp))) /\
    c = pt_add (pt_add (nth i points (0, 0)) (nth j points (0, 0))) (nth k points (0, 0)).
Proof.
  intros points rv rp v c H. unfold centroid3 in H.
  set (adj := adjacent_seeds (Z.of_nat v) rv rp) in *.
  destruct (length adj =? 3)%nat eqn:E1; simpl in H; [|discriminate]. apply Nat.eqb_eq in E1.
  destruct (sorted_nodup_spec (concat adj)) as [HS HI].
  destruct (sorted_nodup (concat adj)) as [|i [|j [|k [|? ?]]]] eqn:Eu; simpl in H; try discriminate.
  destruct (Nat.ltb_spec i (length points)); destruct (Nat.ltb_spec j (length points));
    destruct (Nat.ltb_spec k (length points)) as [Hk|Hk]; simpl in H; try discriminate.
  inversion H; subst c; clear H.
  split; [exact E1|]. exists i, j, k. split; [reflexivity|].
  inversion HS as [|? ? HS2 HF]; subst. inversion HF as [|? ? Hij HF']; subst.
  inversion HF' as [|? ? Hik _]; subst.
  inversion HS2 as [|? ? _ HF2]; subst. inversion HF2 as [|? ? Hjk _]; subst.
  split; [lia|]. split; [exact Hk|]. split; [exact HI|].
  unfold pt_add. simpl. destruct (nth i points (0, 0)), (nth j points (0, 0)), (nth k points (0, 0)). simpl.
  f_equal; ring.
Qed.

Lemma centroids_spec : forall points rv rp n v0 cs, centroids points rv rp n v0 = Ok cs ->
  length cs = n /\ forall i, (i < n)%nat -> centroid3 points rv rp (v0 + i) = Ok (nth i cs (0, 0)).
Proof.
  intros points rv rp n. induction n as [|n IH]; intros v0 cs H; simpl in H.
  - inversion H. split; [reflexivity|]. intros i Hi. lia.
  - destruct (centroid3 points rv rp v0) as [c|] eqn:E; [|discriminate].
    destruct (centroids points rv rp n (S v0)) as [cs'|] eqn:E'; [|discriminate].
    inversion H; subst. destruct (IH _ _ E') as [L Hn]. split; [simpl; lia|].
    intros [|i] Hi; simpl.
    + rewrite Nat.add_0_r. exact E.
    + rewrite <- plus_n_Sm. apply (Hn i). lia.
Qed.

Theorem shifted_vertices_spec : forall shift S points v S' vs,
  shifted_vertices shift S points v = Ok (S', vs) ->
  length vs = length (vertices v) /\
  (shift = false -> S' = S /\ vs = vertices v) /\
  (shift = true -> S' = 3 * S /\
     forall i, (i < length vs)%nat ->
       centroid3 points (ridge_vertices v) (ridge_points v) i = Ok (nth i vs (0, 0))).
Proof.
  intros shift S points v S' vs H. unfold shifted_vertices in H. destruct shift.
  - destruct (centroids points (ridge_vertices v) (ridge_points v) (length (vertices v)) 0) as [cs|] eqn:E; [|discriminate].
    inversion H; subst. destruct (centroids_spec _ _ _ _ _ _ E) as [L Hn].
    split; [exact L|]. split; [discriminate|]. intros _. split; [reflexivity|].
    intros i Hi. rewrite L in Hi. apply (Hn i Hi).
  - inversion H; subst. split; [reflexivity|]. split; [auto|discriminate].
Qed.

(* ------------------------------------------------------------------ the whole function *)
Theorem post_process_inv : forall order_of shift S points v S' ps ed cr,
  post_process order_of shift S points v = Ok (S', (ps, ed, cr)) ->
  exists vs,
    shifted_vertices shift S points v = Ok (S', vs) /\
    (forall r, In r (ridge_vertices v) -> ridge_wf (length (vertices v)) r = true) /\
    let es := pbc_edges S' vs (ridge_vertices v) in
    reindex vs (order_of (edge_ends es)) es = Ok (ps, ed, cr).
Proof.
  intros order_of shift S points v S' ps ed cr H. unfold post_process, post_stages in H.
  destruct (vor_wf (length points) v) eqn:Ewf; [|discriminate].
  destruct (shifted_vertices shift S points v) as [[S2 vs]|] eqn:Es; [|discriminate].
  destruct (pbc_info S2 vs (ridge_vertices v)) as [es ms] eqn:Ep.
  destruct (reindex vs (order_of (edge_ends es)) es) as [out|] eqn:Er; [|discriminate].
  inversion H; subst. exists vs. split; [reflexivity|]. split.
  - unfold vor_wf in Ewf.
    destruct (forallb (ridge_wf (length (vertices v))) (ridge_vertices v)) eqn:Ef; simpl in Ewf; [|discriminate].
    rewrite forallb_forall in Ef. exact Ef.
  - unfold pbc_edges. rewrite Ep. simpl. exact Er.
Qed.

(* with the canonical enumeration the model fails only on a malformed Voronoi record / a vertex without exactly three
   ridges and seeds, never in the re-indexing *)
Theorem post_process_sorted_total : forall shift S points v S' vs,
  vor_wf (length points) v = Ok tt -> shifted_vertices shift S points v = Ok (S', vs) ->
  exists out, post_process_sorted shift S points v = Ok (S', out).
Proof.
  intros shift S points v S' vs Hwf Hs. unfold post_process_sorted, post_process, post_stages.
  rewrite Hwf, Hs. destruct (pbc_info S' vs (ridge_vertices v)) as [es ms].
  destruct (reindex_sorted vs es) as (ps & ed & cr & E & _). rewrite E. eexists. reflexivity.
Qed.
