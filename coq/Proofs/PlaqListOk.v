(* Proofs/PlaqListOk.v — bridge between C01 and C02: the boolean hypothesis [plaq_list_ok] of the
   plaquette-table theorems (Model/TableSpec.v) holds for the plaquette list the sweep returns on
   every well-formed lattice without self-loops.  With it the C02 table theorems are unconditional. *)
From Coq Require Import List ZArith Bool Arith Lia.
From Koala Require Import Model.Lattice Model.TableSpec Proofs.LatticeFacts.
Import ListNotations.

Lemma dart_nodupb_NoDup l : NoDup l -> dart_nodupb l = true.
Proof.
  induction l as [|d l IH]; [reflexivity|]. intros H. apply NoDup_cons_iff in H as [Hn H].
  cbn [dart_nodupb]. rewrite (IH H), andb_true_r. apply negb_true_iff.
  destruct (existsb (dart_eqb d) l) eqn:E; [|reflexivity]. exfalso. apply Hn.
  apply existsb_exists in E as (x & Hx & He). apply dart_eqb_eq in He. congruence.
Qed.

Lemma list_nat_eqb_refl l : list_nat_eqb l l = true.
Proof. induction l as [|x l IH]; [reflexivity|]. cbn. rewrite Nat.eqb_refl. exact IH. Qed.

Lemma walk_verts_tails L w :
  (forall s, In s w -> step_ok L s) -> walk_verts w = map (dtail L) (walk_darts w).
Proof.
  intros H. unfold walk_verts, walk_darts. rewrite map_map. apply map_ext_in.
  intros s Hs. apply (H s Hs).
Qed.

Theorem sweep_plaq_list_ok L ps :
  good L -> find_all_plaquettes L = Some ps -> plaq_list_ok L ps = true.
Proof.
  intros HG E. destruct (plaquettes_spec L HG) as (fs & Ef & Ep & Hnd & Hin).
  rewrite Ep in E. injection E as <-.
  unfold plaq_list_ok. apply andb_true_intro. split.
  - unfold darts_disjoint, all_plaq_darts. apply dart_nodupb_NoDup. exact Hnd.
  - apply forallb_forall. intros p Hp.
    destruct (plaquette_closed_walk L fs p HG Ef Hp)
      as (w & -> & HO & _ & Hv & He & Hd & _ & _ & _ & Hnodup & _).
    apply andb_true_intro. split; [|apply nodupb_NoDup; exact Hnodup].
    unfold plaq_walk_ok. rewrite !andb_true_iff. repeat split.
    + apply Nat.eqb_eq. rewrite Hd, He. unfold walk_dirs, walk_edges. rewrite !map_length. reflexivity.
    + apply forallb_forall. intros e Hin'. apply Nat.ltb_lt. rewrite He in Hin'.
      unfold walk_edges in Hin'. apply in_map_iff in Hin' as (s & <- & Hs).
      apply (ow_ok _ _ HO s Hs).
    + rewrite Hv. unfold TableSpec.plaq_darts. rewrite He, Hd.
      rewrite combine_walk, (walk_verts_tails L w (ow_ok _ _ HO)). apply list_nat_eqb_refl.
Qed.

From Koala Require Import Proofs.PlaqTablesFacts.

Lemma forallb_and_l {A} (f g : A -> bool) l :
  forallb (fun x => f x && g x) l = true -> forallb f l = true.
Proof.
  rewrite !forallb_forall. intros H x Hx. specialize (H x Hx). apply andb_prop in H. apply H.
Qed.

(* the hypotheses of every C02 plaquette-table theorem hold for the real plaquette list, and the
   vertex table never raises (IndexError in set_first_invalid is unreachable) *)
Theorem sweep_tables_total L :
  good L ->
  exists ps, find_all_plaquettes L = Some ps /\ plaq_list_ok L ps = true /\
             darts_disjoint ps = true /\ forallb (plaq_walk_ok L) ps = true /\
             exists t, vertices_plaquettes L ps = Some t.
Proof.
  intros HG. destruct (plaquettes_spec L HG) as (fs & _ & Ep & _).
  exists (plaq_of_faces L fs). split; [exact Ep|].
  pose proof (sweep_plaq_list_ok L _ HG Ep) as Hok. split; [exact Hok|].
  unfold plaq_list_ok in Hok. apply andb_prop in Hok as [Hd Hw].
  apply forallb_and_l in Hw. split; [exact Hd|]. split; [exact Hw|].
  apply (vertex_plaquettes_total_lemma L _ (proj1 HG) Hd Hw).
Qed.
