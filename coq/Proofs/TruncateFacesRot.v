(* Proofs/TruncateFacesRot.v — the rotation system of the lattice returned by vertices_to_polygon at the
   new corners (C13, towards "the new polygon as an extra plaquette").
   L' = trunc_spec L vs (= vertices_to_polygon L vs by vertices_to_polygon_spec).  For a truncated vertex v of
   degree d (> 2) with clockwise edge list e_0 .. e_{d-1} = sorted_adj L v and outward vectors w_u = wv L v u:
     corner u          cn u = base_index v + u
     polygon edge u    pe u = nE L + sumdeg v + u      joins cn u -> cn ((u+1) mod d)
   Results (all for every good L, every selection vs, every truncated v, every u < d):
     trunc_spec_good          L' is well-formed and has no self-loops
     corner_incident_perm     sorted_adj L' (cn u) is a permutation of [e_u; pe u; pe (u-1)]  (exactly three edges)
     corner_outvec_*          their outward vectors: lam * w_u (lam in {1,2}),  w_{u+1} - w_u,  w_{u-1} - w_u
     corner_rotation          if consecutive outward vectors at v turn clockwise by less than pi
                              (turns_cw L v = true) the clockwise cyclic order at cn u is e_u, pe u, pe (u-1). *)
From Coq Require Import List ZArith Bool Arith Lia ZifyBool Permutation Sorted.
From Koala Require Import Model.Lattice Model.Truncate Proofs.LatticeFacts Proofs.TruncateFacts
     Proofs.TruncateDegrees Proofs.TruncateFacesGeom.
Import ListNotations.
Local Open Scope nat_scope.

(* ================================================================== definitions *)
(* u-th outward vector at v, clockwise (the order of vertices.adjacent_edges[v]) *)
Definition wv (L : lattice) (v u : nat) : vec := outvec L v (nth u (sorted_adj L v) 0).

(* the hypothesis: every outward vector at v is followed, clockwise, by the next one after a turn of more
   than 0 and less than pi:  w_u x w_{u+1} < 0  for all u (cyclically) *)
Definition turns_cw (L : lattice) (v : nat) : bool :=
  let d := length (sorted_adj L v) in
  forallb (fun u => (vcross (wv L v u) (wv L v (Nat.modulo (u + 1) d)) <? 0)%Z) (seq 0 d).

Definition pe (L : lattice) (vs : option (list nat)) (v u : nat) : nat := nE L + sumdeg L vs v + u.
Definition cn (L : lattice) (vs : option (list nat)) (v u : nat) : nat := base_index L vs v + u.
(* cyclic predecessor *)
Definition pu (d u : nat) : nat := Nat.modulo (u + d - 1) d.

Lemma turns_cw_at L v u :
  turns_cw L v = true -> u < length (sorted_adj L v) ->
  (vcross (wv L v u) (wv L v (Nat.modulo (u + 1) (length (sorted_adj L v)))) < 0)%Z.
Proof.
  intros H Hu. unfold turns_cw in H. cbv zeta in H. rewrite forallb_forall in H.
  specialize (H u). apply Z.ltb_lt. apply H. apply in_seq. lia.
Qed.

(* ================================================================== modular arithmetic, once *)
Lemma mod_succ_spec d u : u < d -> Nat.modulo (u + 1) d = if u + 1 =? d then 0 else u + 1.
Proof.
  intros Hu. destruct (Nat.eqb_spec (u + 1) d) as [E|E].
  - rewrite E. apply Nat.mod_same. lia.
  - apply Nat.mod_small. lia.
Qed.

Lemma pu_spec d u : u < d -> pu d u = if u =? 0 then d - 1 else u - 1.
Proof.
  intros Hu. unfold pu. destruct (Nat.eqb_spec u 0) as [E|E].
  - subst u. replace (0 + d - 1) with (d - 1) by lia. apply Nat.mod_small. lia.
  - replace (u + d - 1) with (u - 1 + 1 * d) by lia. rewrite Nat.mod_add by lia. apply Nat.mod_small. lia.
Qed.

Lemma pu_lt d u : u < d -> pu d u < d.
Proof. intros Hu. unfold pu. apply Nat.mod_upper_bound. lia. Qed.

Lemma succ_pu d u : u < d -> Nat.modulo (pu d u + 1) d = u.
Proof.
  intros Hu. pose proof (pu_lt d u Hu) as Hp. rewrite mod_succ_spec by assumption.
  rewrite pu_spec in * by assumption.
  destruct (Nat.eqb_spec u 0) as [E|E].
  - destruct (Nat.eqb_spec (d - 1 + 1) d); lia.
  - destruct (Nat.eqb_spec (u - 1 + 1) d); lia.
Qed.

Lemma pu_neq d u : 2 <= d -> u < d -> pu d u <> u.
Proof. intros Hd Hu. rewrite pu_spec by assumption. destruct (Nat.eqb_spec u 0); lia. Qed.

Lemma mod_succ_neq d u : 2 <= d -> u < d -> Nat.modulo (u + 1) d <> u.
Proof. intros Hd Hu. rewrite mod_succ_spec by assumption. destruct (Nat.eqb_spec (u + 1) d); lia. Qed.

Lemma mod_succ_lt d u : u < d -> Nat.modulo (u + 1) d < d.
Proof. intros Hu. apply Nat.mod_upper_bound. lia. Qed.

Lemma is_truncated_deg L vs v : is_truncated L vs v = true -> 2 < length (sorted_adj L v).
Proof.
  unfold is_truncated. intros H. apply andb_prop in H as [_ H]. apply Nat.ltb_lt in H. exact H.
Qed.

(* ================================================================== L' is a good lattice *)
Lemma trunc_nV L vs : nV (trunc_spec L vs) = base_index L vs (nV L).
Proof. unfold nV, trunc_spec. cbn [pos]. apply positions_length. Qed.

Lemma trunc_nE L vs : nE (trunc_spec L vs) = nE L + sumdeg L vs (nV L).
Proof. unfold nE, trunc_spec. cbn [edges]. rewrite app_length, oe_spec_length, aedges_length. reflexivity. Qed.

Lemma trunc_edges_ok L vs p :
  good L -> In p (edges (trunc_spec L vs)) ->
  fst p < base_index L vs (nV L) /\ snd p < base_index L vs (nV L) /\ fst p <> snd p.
Proof.
  intros Hg Hin. unfold trunc_spec in Hin. cbn [edges] in Hin. apply in_app_or in Hin as [Hin|Hin].
  - unfold oe_spec in Hin. apply in_map_iff in Hin as (e & <- & He). apply in_seq in He.
    assert (He' : e < nE L) by lia. destruct (good_edge L e Hg He') as (Hj & Hk & Hjk).
    set (j := fst (edge_at L e)) in *. set (k := snd (edge_at L e)) in *. cbn [fst snd].
    assert (Hinj : In e (sorted_adj L j)) by (apply in_sorted_adj_ends; auto).
    assert (Hink : In e (sorted_adj L k)) by (apply in_sorted_adj_ends; auto).
    pose proof (newidx_range L vs j e Hinj) as Rj. pose proof (newidx_range L vs k e Hink) as Rk.
    pose proof (base_index_lt L vs j (nV L) Hj). pose proof (base_index_lt L vs k (nV L) Hk).
    split; [lia|]. split; [lia|]. intros E. apply Hjk.
    apply (interval_inj L vs j k (newidx L vs j e)); [exact Rj|rewrite E; exact Rk].
  - apply in_flat_map in Hin as (w & Hw & Hin). apply in_seq in Hw. assert (Hw' : w < nV L) by lia.
    unfold aeblk, aeblk_rt in Hin. destruct (is_truncated L vs w) eqn:Htr; [|destruct Hin].
    apply in_map_iff in Hin as (u & <- & Hu). apply in_seq in Hu. cbn [fst snd].
    pose proof (is_truncated_deg L vs w Htr) as Hd.
    pose proof (base_index_lt L vs w (nV L) Hw') as Hb. unfold blklen in Hb. rewrite Htr in Hb.
    assert (Hm : Nat.modulo (u + 1) (length (sorted_adj L w)) < length (sorted_adj L w)) by (apply mod_succ_lt; lia).
    pose proof (mod_succ_neq (length (sorted_adj L w)) u). lia.
Qed.

Theorem trunc_spec_good L vs : good L -> good (trunc_spec L vs).
Proof.
  intros Hg. split.
  - unfold wf_lattice. rewrite !andb_true_iff. split; [split|].
    + apply Z.ltb_lt. change (scale (trunc_spec L vs)) with (3 * scale L)%Z. pose proof (good_scale L Hg). lia.
    + apply Nat.eqb_eq. rewrite trunc_nE. unfold trunc_spec. cbn [crossing].
      rewrite app_length, oc_spec_length, across_length. reflexivity.
    + apply forallb_forall. intros p Hp. destruct (trunc_edges_ok L vs p Hg Hp) as (H1 & H2 & _).
      unfold wf_edge. rewrite trunc_nV. apply andb_true_iff. split; apply Nat.ltb_lt; assumption.
  - unfold no_self_loops. apply forallb_forall. intros p Hp.
    destruct (trunc_edges_ok L vs p Hg Hp) as (_ & _ & H3). apply negb_true_iff, Nat.eqb_neq. exact H3.
Qed.

(* the number of incident edges is at most the coordination number *)
Lemma filter_length_le_nsum {A} (p : A -> bool) (g : A -> nat) l :
  (forall a, In a l -> p a = true -> 1 <= g a) -> length (filter p l) <= nsum g l.
Proof.
  induction l as [|a l IH]; intros H; [cbn; lia|]. cbn [filter]. rewrite nsum_cons.
  assert (IH' : length (filter p l) <= nsum g l) by (apply IH; intros; apply H; [right|]; assumption).
  destruct (p a) eqn:E; cbn [length]; [|lia]. specialize (H a (or_introl eq_refl) E). lia.
Qed.

Lemma incident_le_count M c : length (incident M c) <= count_ends M c.
Proof.
  rewrite count_ends_cnt. rewrite (edges_map M) at 1. rewrite cnt_map. unfold incident.
  apply filter_length_le_nsum. intros e _ He. apply incident_b_iff in He. unfold term.
  destruct He as [->| ->]; rewrite Nat.eqb_refl; lia.
Qed.

(* ================================================================== the setting: one truncated vertex *)
Section Corner.
Variables (L : lattice) (vs : option (list nat)) (v : nat).
Hypothesis Hg : good L.
Hypothesis Hv : v < nV L.
Hypothesis Htr : is_truncated L vs v = true.
Local Set Default Proof Using "Hg Hv Htr".

Let L' := trunc_spec L vs.
Let d := length (sorted_adj L v).
Let eu (u : nat) := nth u (sorted_adj L v) 0.

Lemma deg_ge3 : 2 < d.
Proof. apply (is_truncated_deg L vs v Htr). Qed.

Lemma eu_in u : u < d -> In (eu u) (sorted_adj L v).
Proof. intros Hu. apply nth_In. exact Hu. Qed.

Lemma eu_lt u : u < d -> eu u < nE L.
Proof. intros Hu. apply (in_sorted_adj_ends L v (eu u)), eu_in, Hu. Qed.

Lemma eu_ends u : u < d -> fst (edge_at L (eu u)) = v \/ snd (edge_at L (eu u)) = v.
Proof. intros Hu. apply (in_sorted_adj_ends L v (eu u)), eu_in, Hu. Qed.

Lemma pos_in_eu u : u < d -> pos_in (eu u) (sorted_adj L v) = u.
Proof. intros Hu. apply pos_in_nth; [apply sorted_adj_NoDup|exact Hu]. Qed.

Lemma pe_lt u : u < d -> pe L vs v u < nE L'.
Proof.
  intros Hu. unfold L'. rewrite trunc_nE. unfold pe.
  assert (sumdeg L vs v + d <= sumdeg L vs (nV L)); [|lia].
  clear Hu. unfold d. revert Hv. generalize (nV L). intros n Hn.
  induction n as [|n IH]; [lia|]. rewrite sumdeg_S. destruct (Nat.eq_dec v n) as [->|E].
  - unfold polylen. rewrite Htr. lia.
  - assert (v < n) by lia. specialize (IH H). lia.
Qed.

Lemma cn_lt u : u < d -> cn L vs v u < nV L'.
Proof.
  intros Hu. unfold L'. rewrite trunc_nV. unfold cn.
  pose proof (base_index_lt L vs v (nV L) Hv) as Hb. unfold blklen in Hb. rewrite Htr in Hb. fold d in Hb. lia.
Qed.

(* ---------- the three edges at corner u ---------- *)
Lemma newidx_self u : u < d -> newidx L vs v (eu u) = cn L vs v u.
Proof. intros Hu. unfold newidx, cn. rewrite Htr, pos_in_eu by exact Hu. reflexivity. Qed.

Lemma newidx_corner_iff u j :
  u < d -> In (eu u) (sorted_adj L j) -> (newidx L vs j (eu u) = cn L vs v u <-> j = v).
Proof.
  intros Hu Hin. unfold cn. rewrite (newidx_hit L vs j (eu u) v u Hin) by (unfold blklen; rewrite Htr; exact Hu).
  rewrite Htr. split; [tauto|]. intros ->. split; [reflexivity|apply pos_in_eu, Hu].
Qed.

Lemma edge_eu u : u < d ->
  edge_at L' (eu u) = (newidx L vs (fst (edge_at L (eu u))) (eu u), newidx L vs (snd (edge_at L (eu u))) (eu u)).
Proof. intros Hu. apply edge_at_spec_orig, eu_lt, Hu. Qed.

Lemma fst_eu_iff u : u < d -> (fst (edge_at L' (eu u)) = cn L vs v u <-> fst (edge_at L (eu u)) = v).
Proof.
  intros Hu. rewrite edge_eu by exact Hu. cbn [fst]. apply newidx_corner_iff; [exact Hu|].
  apply in_sorted_adj_ends. split; [apply eu_lt, Hu|left; reflexivity].
Qed.

Lemma snd_eu_iff u : u < d -> (snd (edge_at L' (eu u)) = cn L vs v u <-> snd (edge_at L (eu u)) = v).
Proof.
  intros Hu. rewrite edge_eu by exact Hu. cbn [snd]. apply newidx_corner_iff; [exact Hu|].
  apply in_sorted_adj_ends. split; [apply eu_lt, Hu|right; reflexivity].
Qed.

Lemma edge_pe u : u < d ->
  edge_at L' (pe L vs v u) = (cn L vs v u, cn L vs v (Nat.modulo (u + 1) d)).
Proof. intros Hu. apply edge_at_spec_poly; assumption. Qed.

Lemma edge_pe_pred u : u < d ->
  edge_at L' (pe L vs v (pu d u)) = (cn L vs v (pu d u), cn L vs v u).
Proof.
  intros Hu. rewrite edge_pe by (apply pu_lt, Hu). rewrite succ_pu by exact Hu. reflexivity.
Qed.

Lemma inc_eu u : u < d -> incident_b L' (cn L vs v u) (eu u) = true.
Proof.
  intros Hu. apply incident_b_iff. destruct (eu_ends u Hu) as [E|E].
  - left. apply fst_eu_iff; assumption.
  - right. apply snd_eu_iff; assumption.
Qed.

Lemma inc_pe u : u < d -> incident_b L' (cn L vs v u) (pe L vs v u) = true.
Proof. intros Hu. apply incident_b_iff. rewrite edge_pe by exact Hu. left. reflexivity. Qed.

Lemma inc_pe_pred u : u < d -> incident_b L' (cn L vs v u) (pe L vs v (pu d u)) = true.
Proof. intros Hu. apply incident_b_iff. rewrite edge_pe_pred by exact Hu. right. reflexivity. Qed.

Lemma three_distinct u : u < d -> NoDup [eu u; pe L vs v u; pe L vs v (pu d u)].
Proof.
  intros Hu. pose proof (eu_lt u Hu). pose proof deg_ge3. pose proof (pu_neq d u ltac:(lia) Hu).
  unfold pe. repeat constructor; cbn [In]; lia.
Qed.
(* (1a) exactly three edges at every new corner: the shortened original edge and the two polygon edges *)
Theorem corner_incident_perm u : u < d ->
  Permutation [eu u; pe L vs v u; pe L vs v (pu d u)] (sorted_adj L' (cn L vs v u)).
Proof.
  intros Hu. apply NoDup_Permutation_bis.
  - apply three_distinct; assumption.
  - rewrite (Permutation_length (sorted_adj_perm L' (cn L vs v u))).
    eapply Nat.le_trans; [apply incident_le_count|]. unfold L', cn.
    rewrite truncate_degrees_corner by assumption. cbn. lia.
  - intros e He. apply in_sorted_adj. cbn [In] in He.
    destruct He as [<-|[<-|[<-|[]]]].
    + split; [|apply inc_eu; assumption]. pose proof (eu_lt u Hu). unfold L'. rewrite trunc_nE. lia.
    + split; [apply pe_lt; assumption|apply inc_pe; assumption].
    + split; [apply pe_lt; try assumption; apply pu_lt, Hu|apply inc_pe_pred; assumption].
Qed.

Corollary corner_three_edges u : u < d ->
  length (sorted_adj L' (cn L vs v u)) = 3 /\
  forall e, In e (sorted_adj L' (cn L vs v u)) <-> e = eu u \/ e = pe L vs v u \/ e = pe L vs v (pu d u).
Proof.
  intros Hu. pose proof (corner_incident_perm u Hu) as P. split.
  - rewrite <- (Permutation_length P). reflexivity.
  - intros e. split.
    + intros He. apply (Permutation_in _ (Permutation_sym P)) in He. cbn [In] in He.
      destruct He as [<-|[<-|[<-|[]]]]; auto.
    + intros He. apply (Permutation_in _ P). cbn [In]. destruct He as [->|[->| ->]]; auto.
Qed.

(* ---------- outward vectors at the corner ---------- *)
Local Open Scope Z_scope.

(* the original edge leaves the corner along w_u, with (1 - k/3) of its length (k = 1 or 2 truncated ends) *)
Theorem corner_outvec_orig u : (u < d)%nat ->
  exists lam, 0 < lam /\ outvec L' (cn L vs v u) (eu u) = vscale lam (wv L v u).
Proof.
  intros Hu. pose proof (eu_lt u Hu) as He.
  pose proof (of_spec L vs _ Hg (truncate_vectors_original L vs (eu u) Hg He)) as Hev. fold L' in Hev.
  set (lam := 3 - Z.of_nat ((if is_truncated L vs (fst (edge_at L (eu u))) then 1 else 0) +
                            (if is_truncated L vs (snd (edge_at L (eu u))) then 1 else 0))) in *.
  exists lam. split.
  - unfold lam. destruct (is_truncated L vs (fst (edge_at L (eu u)))), (is_truncated L vs (snd (edge_at L (eu u)))); cbn; lia.
  - unfold wv, outvec. change (nth u (sorted_adj L v) 0%nat) with (eu u). rewrite Hev.
    pose proof (fst_eu_iff u Hu) as Hiff.
    destruct (Nat.eqb_spec (fst (edge_at L' (eu u))) (cn L vs v u)) as [E|E];
      destruct (Nat.eqb_spec (fst (edge_at L (eu u))) v) as [F|F]; try tauto; try reflexivity.
    generalize (evec L (eu u)). intros [x y]. unfold vneg, vscale. cbn [fst snd]. f_equal; ring.
Qed.

(* the polygon edge to the next corner (clockwise): w_{u+1} - w_u *)
Theorem corner_outvec_next u : (u < d)%nat ->
  outvec L' (cn L vs v u) (pe L vs v u) = vsub (wv L v (Nat.modulo (u + 1) d)) (wv L v u).
Proof.
  intros Hu. unfold outvec. rewrite (edge_pe u Hu). cbn [fst]. rewrite Nat.eqb_refl.
  destruct (of_spec L vs _ Hg (truncate_vectors_polygon L vs v u Hg Hv Htr Hu)) as [_ H]. exact H.
Qed.

(* the polygon edge to the previous corner: w_{u-1} - w_u *)
Theorem corner_outvec_prev u : (u < d)%nat ->
  outvec L' (cn L vs v u) (pe L vs v (pu d u)) = vsub (wv L v (pu d u)) (wv L v u).
Proof.
  intros Hu. unfold outvec. rewrite (edge_pe_pred u Hu). cbn [fst].
  pose proof deg_ge3 as Hd.
  pose proof (pu_neq d u ltac:(lia) Hu) as Hne.
  replace (cn L vs v (pu d u) =? cn L vs v u)%nat with false
    by (symmetry; apply Nat.eqb_neq; unfold cn; lia).
  destruct (of_spec L vs _ Hg (truncate_vectors_polygon L vs v (pu d u) Hg Hv Htr (pu_lt d u Hu))) as [_ H].
  cbv zeta in H. fold d in H. rewrite (succ_pu d u Hu) in H.
  change (evec L' (pe L vs v (pu d u))) with (evec (trunc_spec L vs) (nE L + sumdeg L vs v + pu d u)). rewrite H.
  unfold wv. generalize (outvec L v (nth u (sorted_adj L v) 0%nat)) (outvec L v (nth (pu d u) (sorted_adj L v) 0%nat)).
  intros [a b] [a' b']. unfold vneg, vsub. cbn [fst snd]. f_equal; ring.
Qed.

(* (1b) the clockwise cyclic order at corner u is: original edge, polygon edge to the next corner, polygon
   edge to the previous corner *)
Theorem corner_rotation u : turns_cw L v = true -> (u < d)%nat ->
  let row := sorted_adj L' (cn L vs v u) in
  succ_in row (eu u) = Some (pe L vs v u) /\
  succ_in row (pe L vs v u) = Some (pe L vs v (pu d u)) /\
  succ_in row (pe L vs v (pu d u)) = Some (eu u).
Proof.
  intros Hcw Hu row.
  apply (three_cycle (outvec L' (cn L vs v u))).
  - apply corner_incident_perm, Hu.
  - apply three_distinct; assumption.
  - apply tf_sorted_adj_sorted.
  - destruct (corner_outvec_orig u Hu) as (lam & Hlam & ->). rewrite corner_outvec_next by exact Hu.
    pose proof (turns_cw_at L v u Hcw Hu) as Hc. fold d in Hc.
    revert Hc. generalize (wv L v u) (wv L v (Nat.modulo (u + 1) d)). intros [a b] [a' b'].
    unfold vcross, vscale, vsub. cbn [fst snd]. nia.
  - destruct (corner_outvec_orig u Hu) as (lam & Hlam & ->). rewrite corner_outvec_prev by exact Hu.
    pose proof (turns_cw_at L v (pu d u) Hcw (pu_lt d u Hu)) as Hc. fold d in Hc. rewrite (succ_pu d u Hu) in Hc.
    revert Hc. generalize (wv L v u) (wv L v (pu d u)). intros [a b] [a' b'].
    unfold vcross, vscale, vsub. cbn [fst snd]. nia.
Qed.
End Corner.
