(* Extraction for the "c03" driver (C03: periodic Delaunay / Voronoi certificate checkers).
   ExtrOcamlBasic only; nat, positive, Z stay the extracted inductive types. *)
From Koala Require Import Model.Lattice Model.Delaunay Model.VoronoiPost Model.VoronoiPeriodic Model.VoronoiDual Model.VoronoiPeriodicTol.
Require Extraction.
Require Import ExtrOcamlBasic.
Extraction "model.ml"
  mkLattice wf_lattice check_delaunay check_dual dense_ok
  pts_in_cell tri_ok sides_paired area2_sum used_sides in_cell ref_point tri_pts pos_close nth_tri
  orient2d incircle cell_of
  (* Model/VoronoiPost.v: the post-processing of voronization.generate_lattice *)
  mkVor padding_of generate_point_array post_stages edge_ends sorted_nodup reindex post_process post_process_sorted
  (* Model/VoronoiPeriodic.v: the hypotheses of post_correct, evaluated on scipy's record *)
  post_hyps
  (* Model/VoronoiDual.v: the record-level duality hypotheses of C03_post_correct_dual *)
  post_dual_hyp cert_of
  (* Model/VoronoiPeriodicTol.v: index-level periodicity (also holds for float circumcentres) *)
  post_hyps_t.
