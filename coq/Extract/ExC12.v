(* Extraction for the "c12" driver (lattice surgery).  ExtrOcamlBasic only. *)
From Koala Require Import Model.Lattice Model.Surgery.
Require Extraction.
Require Import ExtrOcamlBasic.
Extraction "model.ml"
  mkLattice wf_lattice no_self_loops
  cut_boundaries remove_vertices remove_trailing_edges trailing_survivors
  permute_vertices reorder_vertices sub_lattice kept_vertices kept_edges vectors.
