(* Extraction for the "c01s" driver: the proved spec checker of C01 (Model/SpecC01.v) run on the
   implementation's plaquette list.  ExtrOcamlBasic only; nat, positive, Z stay inductive. *)
From Koala Require Import Model.Lattice Model.SpecC01.
Require Extraction.
Require Import ExtrOcamlBasic.
Extraction "model.ml"
  mkLattice good_b spec_checks spec_c01 spec_c01n spec_c01_first_fail g1_holds
  all_faces t_len_ok t_walk_ok t_is_face t_nodup t_netzero t_area t_legit face_legit f_reported
  is_rot dart_eqb tdarts model_triples.
