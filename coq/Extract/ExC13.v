(* Extraction for the "c13" driver (dual and vertex-truncated lattices).  ExtrOcamlBasic only;
   nat, positive, Z, Q stay the extracted inductive types. *)
From Koala Require Import Model.Lattice Model.Dual Model.Truncate.
Require Extraction.
Require Import ExtrOcamlBasic.
Extraction "model.ml"
  mkLattice wf_lattice no_self_loops find_all_plaquettes
  make_dual qevec vertices_to_polygon is_truncated base_index.
