(* Extraction for the "c15" driver: the effect analysis run on the generated IR. ExtrOcamlBasic only. *)
From Coq Require Import ZArith.
From Koala Require Import Model.Effects Gen.EffectsIR.
Require Extraction.
Require Import ExtrOcamlBasic.
Extraction "model.ml" prog public_functions public_extra escaping_functions
  no_arg_write_mask no_arg_write_entry no_arg_write written_params
  Z.succ.  (* Z.succ only so that the shared hexio.ml (positive, Z) links *)
