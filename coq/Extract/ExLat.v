(* Extraction for the "lat" driver (C01, C02, C05, ...).  ExtrOcamlBasic only:
   bool/option/unit/list/prod/sumbool map to OCaml's, andb/orb/negb/fst/snd inlined;
   nat, positive, Z stay the extracted inductive types. *)
From Koala Require Import Model.Lattice.
Require Extraction.
Require Import ExtrOcamlBasic.
Extraction "model.ml"
  mkLattice wf_lattice no_self_loops vectors adj_table coordination_bincount coordination
  edge_neighbours find_all_plaquettes edges_plaquettes vertices_plaquettes
  all_plaquette_neighbours n_sides adjacency_true all_faces.
