(* Extraction for the "c17" driver (C17: rhombus-tiling checker).  ExtrOcamlBasic only. *)
From Koala Require Import Model.Lattice Model.Tiling2 Model.DeBruijn.
Require Extraction.
Require Import ExtrOcamlBasic.
Extraction "model.ml"
  mkLattice wf_lattice no_self_loops find_all_plaquettes n_sides
  check_rhombus_tiling zero_crossing all_distinct degrees_ok in_unit_square connected_check
  no_crossing_check lengths_ok directions_ok faces_ok face_ok len2 reached
  db_eval face_certs quad_steps mkGrid grid_point start_positions pent_index_raw map_to_position in_window.
