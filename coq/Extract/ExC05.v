(* Extraction for the "c05" driver.  ExtrOcamlBasic only; nat, positive, Z stay inductive. *)
From Koala Require Import Model.Lattice Model.Flux.
Require Extraction.
Require Import ExtrOcamlBasic.
Extraction "model.ml"
  mkLattice wf_lattice no_self_loops find_all_plaquettes nodupb
  fluxes_real fluxes_cplx fluxes_to_labels flux_spec plaq_darts flip_at gauge
  plaq_consistent darts_cover plaq_of_arrays all_pm1.
