(* Extraction for the "c08" driver (C08 Bloch Hamiltonian).  ExtrOcamlBasic only:
   nat, positive, Z, Q stay the extracted inductive types. *)
From Koala Require Import Gen.TilingGen Model.Lattice Model.Tiling Model.Bloch.
Require Extraction.
Require Import ExtrOcamlBasic.
Extraction "model.ml"
  mkCell tile_edges tile_crossings tile_weights
  hk_gauss ham_gauss matrix_of gi_pow
  k_grid lower_half ground_state_per_site gap_size gaps.
