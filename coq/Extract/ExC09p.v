(* Extraction for the "c09p" driver (C09: do the geometric predicates keep their verdicts across the float32
   round trip?).  ExtrOcamlBasic only: nat, positive, Z, Q stay the extracted inductive types.
   The definitions live in Proofs/PredicateStableDefs.v (definitions only). *)
From Koala Require Import Model.Pickle Model.Lattice Proofs.PredicateStableDefs.
Require Extraction.
Require Import ExtrOcamlBasic.
Extraction "model.ml"
  mkLattice wf_lattice same_connectivity_b is_round32_copy
  rot_agree rot_agree_at wind_agree valid_agree wrap_agree preds_agree preds_agree_weak preds_agree_fine
  all_faces tables.
