(* Extraction for the "c04" driver (C04 SAT colourings / dimerisations).  ExtrOcamlBasic only:
   nat, positive, Z stay the extracted inductive types. *)
From Koala Require Import Model.Cnf Model.Color.
Require Extraction.
Require Import ExtrOcamlBasic.
Extraction "model.ml"
  equals1 maxvar eval_cnf val wf_model brute_models argmax
  edge_neighbours edge_conflicts edge_color_cnf vertex_color_cnf nverts dimer_cnf incident
  decode_colors decode_dimer encode_colors encode_dimer
  edge_color vertex_color color_lattice dimerise
  valid_edge_coloringb valid_vertex_coloringb valid_dimerb
  list_edge_colourings count_edge_colourings exists_edge_colouring
  list_vertex_colourings count_vertex_colourings exists_vertex_colouring
  list_dimerisations count_dimerisations exists_dimerisation
  brute_edge_colourings brute_vertex_colourings brute_dimerisations.
