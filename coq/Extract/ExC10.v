(* Extraction for the "c10" driver (C10 generators / tile_unit_cell).  ExtrOcamlBasic only:
   nat, positive, Z stay the extracted inductive types. *)
From Koala Require Import Gen.TilingGen Model.Lattice Model.Tiling Model.Examples Gen.FixturesGen.
Require Extraction.
Require Import ExtrOcamlBasic.
Extraction "model.ml"
  py_next_cell_number py_crossing honeycomb_next_direction hso_next_direction
  mkLattice mkZL mkCell to_lattice wf_lattice wf_cell
  tile_unit_cell tile_sites tile_edges tile_crossings tile_coloring
  proper_coloring zdegree closed_tiling open_census all_degree
  find_all_plaquettes n_sides two_sided area2_sum coordination count_sides
  honeycomb honeycomb_nv honeycomb_coloring hex_square_oct tri_non tri_non_coloring square
  single_plaquette higher_coordination n_ladder n_ladder_straight
  make_honeycomb_ujk flux_of
  honeycomb_ok hso_ok tri_non_ok square_ok ladder_ok honeycomb_flux_sector_ok
  fixture_by_id n_fixtures mkFx.
