(* Extraction for the "c18" driver.  ExtrOcamlBasic only: nat, positive, Z stay inductive. *)
From Koala Require Import Model.Marker.
Require Extraction.
Require Import ExtrOcamlBasic.
Extraction "model.ml" crosshair_num chern_num gz_marker theta gz_projb.
