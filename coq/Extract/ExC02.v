(* Extraction for the "c02" driver.  ExtrOcamlBasic only: bool/option/unit/list/prod/sumbool map to
   OCaml's, andb/orb/negb/fst/snd inlined; nat, positive, Z stay the extracted inductive types. *)
From Koala Require Import Model.Lattice Model.TableSpec Model.Cache Model.Queries.
Require Extraction.
Require Import ExtrOcamlBasic.
Extraction "model.ml"
  mkLattice wf_lattice no_self_loops vectors adj_table coordination
  edge_neighbours find_all_plaquettes edges_plaquettes vertices_plaquettes
  all_plaquette_neighbours adjacency_true plaq_list_ok generic_count
  cinit step run pure_value pure_value_of compute_plaquettes
  all_vertex_neighbours all_q_edge_neighbours all_clockwise_about all_edge_vectors all_q_adjacent_plaquettes.
