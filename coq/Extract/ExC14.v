(* Extraction for the "c14" driver.  ExtrOcamlBasic only; nat, positive, Z stay inductive. *)
From Koala Require Import Model.Lattice Model.Flux Model.SpanTree.
Require Extraction.
Require Import ExtrOcamlBasic.
Extraction "model.ml"
  mkLattice wf_lattice no_self_loops find_all_plaquettes edges_plaquettes p_edges
  order_id order_by_key order_front plaquette_spanning_tree spanning_tree_of_lattice all_some
  n_to_ujk_flipped is_spanning_tree ep_agrees fluxes_real plaq_of_arrays.
