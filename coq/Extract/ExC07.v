(* Extraction for the "c07" driver.  ExtrOcamlBasic only: nat, positive, Z stay inductive. *)
From Koala Require Import Model.Ham.
Require Extraction.
Require Import ExtrOcamlBasic.
Extraction "model.ml" majorana4 ham_matrix hoppings bond_sum wf_edges no_loops gauge_u
  inverse_ordering permute_edges is_perm_of_range dimer_edges sublattice_labels is_argsort
  perfect_matching opposite_halves fermion4.
