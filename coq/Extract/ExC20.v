(* Extraction for the "c20" driver (C20 sampling points and parallel map).  ExtrOcamlBasic only:
   nat, positive, Z, Q stay the extracted inductive types. *)
From Koala Require Import Model.Sampling Model.ParMap Model.PhaseDiagram.
Require Extraction.
Require Import ExtrOcamlBasic.
Extraction "model.ml"
  linspace_half grid nonsym_triples sym_triples on_simplex centre_in_grid
  chunk_tasks chunk_tasks_by tag sort_by_index computation collect parmap parmap_default parmap_by parmap_checked koala_chunk_size n_chunks_exact serial transpose schedule_pool
  koala_chunks evaluated_points cpd_scalar cpd_vector cpd_matrix skew plot_transform nonsym_nodes sym_nodes bary_to_cart permute_triple.
