(* Extraction for the "c09" driver (C09 pickling / equality).  ExtrOcamlBasic only:
   nat, positive, Z, Q stay the extracted inductive types. *)
From Koala Require Import Model.Pickle.
Require Extraction.
Require Import ExtrOcamlBasic.
Extraction "model.ml"
  mkLat mkCache fresh_cache with_cache wf_lat getstate setstate roundtrip lat_eq lat_eq_noshape
  py_eq py_ne round32 f32_overflows select_index_dtype close2.
