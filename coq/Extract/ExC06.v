(* Extraction for the "c06" driver (C06 flux-sector solver).  ExtrOcamlBasic only:
   nat, positive, Z stay the extracted inductive types. *)
From Koala Require Import Model.AStar Model.FluxSolver Gen.AnsatzGen.
Require Extraction.
Require Import ExtrOcamlBasic.
Extraction "model.ml"
  fs_solve fs_fluxes_ujk fs_fluxes_bonds fs_wf fs_pm1 fs_pairing_ok fs_path_ok fs_where_neg
  fs_flip_adjacent fs_map2 fs_sign_real ground_state_ansatz
  fs_greedy_run greedy_pairing fs_replay_pick fs_replay_nearest.
