(* Extraction for the "c06" driver (C06 flux-sector solver).  ExtrOcamlBasic only:
   nat, positive, Z stay the extracted inductive types. *)
From Koala Require Import Model.Lattice Model.AStar Model.Flux Model.FluxSolver Model.FluxSolverLattice Gen.AnsatzGen.
Require Extraction.
Require Import ExtrOcamlBasic.
Extraction "model.ml"
  fs_solve fs_fluxes_ujk fs_fluxes_bonds fs_wf fs_pm1 fs_pairing_ok fs_path_ok fs_where_neg
  fs_flip_adjacent fs_map2 fs_sign_real ground_state_ansatz
  fs_greedy_run greedy_pairing fs_replay_pick fs_replay_nearest
  plaq_of_arrays fsl_plaqs fsl_adj fsl_path as_path fs_solve_astar fs_connected_b fs_find_boundary fs_complete_open.
