(* Extraction for the "c16" driver (C16 plotting).  ExtrOcamlBasic only; nat, positive, Z, Q
   stay the extracted inductive types. *)
From Koala Require Import Model.Clip Model.Plot Model.Lattice Model.Dual Model.PlotGlue.
From Coq Require Import QArith.
Require Extraction.
Require Import ExtrOcamlBasic.
Extraction "model.ml"
  Qred clip_interval clip_len intervals_overlap overlap_len clip_polygon area2 clipped_area2 convexb
  overlap_area2_in_cell ptranslate
  mkPlat mkPlaq subset_indices broadcast_args process_plot_args colours
  plot_vertices plot_edges arrow_of plaq_points plaq_polygons plot_plaquettes
  visible lines_cross_unit_cell line_fully_in_unit_cell
  line_intersection segments_meet_exact
  mkLattice resolve_scheme process_plot_args_c plot_vertices_c plot_edges_c plot_plaquettes_c final_colour
  plot_vertices_default plot_edges_default plot_plaquettes_default make_dual plat_of_dual plot_dual.
