(* Extraction for the "c11" driver (C11 path finding and metrics).  ExtrOcamlBasic only:
   nat, positive, Z, Q stay the extracted inductive types. *)
From Koala Require Import Model.AStar Model.Metric.
Require Extraction.
Require Import ExtrOcamlBasic.
Extraction "model.ml"
  as_path as_forward as_backward as_valid_path as_joined as_chain_cost
  mt_euclid_sq mt_periodic_sq.
