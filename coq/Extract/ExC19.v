(* Extraction for the "c19" driver (C19 point-set generators).  ExtrOcamlBasic only:
   nat, positive, Z, Q stay the extracted inductive types. *)
From Koala Require Import Model.Points Model.PointsGrid.
Require Extraction.
Require Import ExtrOcamlBasic.
Extraction "model.ml"
  mkState init step run_trace run finished normalise bluenoise inside_open_unit hyperuniform_crop
  hyperuniform uniform out_of_domain far_from_all d2
  run_trace_window cells_after point_to_coord far_from_window far_from_cells hu_final_l hyperuniform_full_l hu_den hu_to_unit max_samples.
