(* Extraction for the "c19" driver (C19 point-set generators).  ExtrOcamlBasic only:
   nat, positive, Z, Q stay the extracted inductive types. *)
From Koala Require Import Model.Points.
Require Extraction.
Require Import ExtrOcamlBasic.
Extraction "model.ml"
  mkState init step run_trace run finished normalise bluenoise inside_open_unit hyperuniform_crop
  hyperuniform uniform out_of_domain far_from_all d2.
