From Coq Require Import List ZArith Bool Arith.
From Koala Require Import Model.Cnf Model.Color Proofs.CnfFacts.
Import ListNotations.

(* mechanism "exactly-one constraint per item via pairwise cardinality encoding": the clauses
   CardEnc.equals(lits, bound=1, pairwise) emits hold exactly when one of the literals is true *)
Theorem C04_pairwise_exactly_one :
  forall (nu : valuation) (l : list Z), Forall (fun a => (0 < a)%Z) l ->
    eval_cnf nu (equals1 l) = (length (filter nu l) =? 1).
Proof. exact eval_equals1. Qed.
Print Assumptions C04_pairwise_exactly_one.
