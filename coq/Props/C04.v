(* Props/C04.v — SAT-based colourings and dimerisations are sound, complete and exact.

   Model: coq/Model/Cnf.v (CNF, pysat model lists, pairwise exactly-one = CardEnc contract, argmax),
   coq/Model/Color.v (edge_color / vertex_color / color_lattice / dimerise as coded in /repo, the
   independent backtracking counter, the boolean spec checkers).  Every statement below is for
   EVERY multigraph (list of vertex pairs; parallel edges and self-loops allowed) and EVERY number of
   colours; nothing is bounded.

   Reading guide.  A "model" m is the list [±1;...;±N] pysat returns; "wf_model (maxvar f) m" says it
   is a total assignment over the variables 1..maxvar f; "eval_cnf (val m) f" that it satisfies f.
   proper_edge_coloring / proper_vertex_coloring / perfect_matching are the property's notions of a
   valid answer (Proofs/ColorFacts.v, stated with equalities on endpoints only).

   NOT covered by a theorem (S/K in harness/c04.py only): that koala's Python produces exactly the
   model's clauses (K: clause-set comparison at the pysat boundary), the behaviour of glucose3 and of
   CardEnc (Section-variable contract [solver_contract] / definition [equals1], exercised at run time),
   the float arctan2 order computed by clockwise_edges_about (an input [cw] of color_lattice), numpy's
   IndexError / negative-index wrapping for fixed pairs out of range ([Invalid]). *)
From Coq Require Import List ZArith Bool Arith Lia.
From Koala Require Import Model.Cnf Model.Color Proofs.CnfFacts Proofs.ColorFacts Proofs.ColorCount.
Import ListNotations.

(* ---------------------------------------------------------------- mechanism: exactly-one per item *)

(* the clauses CardEnc.equals(lits, bound=1, pairwise) emits hold exactly when one literal is true *)
Theorem C04_pairwise_exactly_one :
  forall (nu : valuation) (l : list Z), Forall (fun a => (0 < a)%Z) l ->
    eval_cnf nu (equals1 l) = (length (filter nu l) =? 1).
Proof. exact eval_equals1. Qed.
Print Assumptions C04_pairwise_exactly_one.

(* ---------------------------------------------------------------- edge_color: the formula *)

(* soundness: every satisfying total assignment decodes (reshape + argmax) to colours in range,
   different on edges meeting at a vertex, with the fixed colours honoured *)
Theorem C04_edge_color_sound :
  forall (edges : list edge) (n : nat) (fixed : list (nat * nat)) (f : cnf) (m : model),
    edge_color_cnf edges n fixed = Some f ->
    wf_model (maxvar f) m = true -> eval_cnf (val m) f = true ->
    proper_edge_coloring edges n fixed (decode_colors (length edges) n m).
Proof. exact edge_color_cnf_sound. Qed.
Print Assumptions C04_edge_color_sound.

(* completeness: every valid colouring is the decoding of a satisfying assignment, hence the formula
   is unsatisfiable only when no valid colouring exists *)
Theorem C04_edge_color_complete :
  forall (edges : list edge) (n : nat) (fixed : list (nat * nat)) (f : cnf) (c : list nat),
    edge_color_cnf edges n fixed = Some f -> proper_edge_coloring edges n fixed c ->
    exists m, wf_model (maxvar f) m = true /\ eval_cnf (val m) f = true /\ decode_colors (length edges) n m = c.
Proof. exact edge_color_cnf_complete. Qed.
Print Assumptions C04_edge_color_complete.

(* exactness: decoding is injective on the satisfying total assignments (so, with the two theorems
   above, a bijection onto the valid colourings: enumerating models lists each colouring once) *)
Theorem C04_edge_color_exact :
  forall (edges : list edge) (n : nat) (fixed : list (nat * nat)) (f : cnf) (m1 m2 : model),
    edge_color_cnf edges n fixed = Some f ->
    wf_model (maxvar f) m1 = true -> eval_cnf (val m1) f = true ->
    wf_model (maxvar f) m2 = true -> eval_cnf (val m2) f = true ->
    decode_colors (length edges) n m1 = decode_colors (length edges) n m2 -> m1 = m2.
Proof. exact edge_color_cnf_exact. Qed.
Print Assumptions C04_edge_color_exact.

(* the formula exists for every n_colors >= 1 and every in-range fixed list *)
Theorem C04_edge_color_defined :
  forall (edges : list edge) (n : nat) (fixed : list (nat * nat)),
    0 < n -> fixed_in_range (length edges) n fixed -> exists f, edge_color_cnf edges n fixed = Some f.
Proof. exact edge_color_cnf_defined. Qed.
Print Assumptions C04_edge_color_defined.

(* ---------------------------------------------------------------- vertex_color: the formula (after fix c7f4827) *)

Theorem C04_vertex_color_sound :
  forall (adj : list edge) (n : nat) (f : cnf) (m : model),
    vertex_color_cnf adj n = Some f ->
    wf_model (maxvar f) m = true -> eval_cnf (val m) f = true ->
    proper_vertex_coloring adj n (decode_colors (nverts adj) n m).
Proof. exact vertex_color_cnf_sound. Qed.
Print Assumptions C04_vertex_color_sound.

Theorem C04_vertex_color_complete :
  forall (adj : list edge) (n : nat) (f : cnf) (c : list nat),
    vertex_color_cnf adj n = Some f -> proper_vertex_coloring adj n c ->
    exists m, wf_model (maxvar f) m = true /\ eval_cnf (val m) f = true /\ decode_colors (nverts adj) n m = c.
Proof. exact vertex_color_cnf_complete. Qed.
Print Assumptions C04_vertex_color_complete.

Theorem C04_vertex_color_exact :
  forall (adj : list edge) (n : nat) (f : cnf) (m1 m2 : model),
    vertex_color_cnf adj n = Some f ->
    wf_model (maxvar f) m1 = true -> eval_cnf (val m1) f = true ->
    wf_model (maxvar f) m2 = true -> eval_cnf (val m2) f = true ->
    decode_colors (nverts adj) n m1 = decode_colors (nverts adj) n m2 -> m1 = m2.
Proof. exact vertex_color_cnf_exact. Qed.
Print Assumptions C04_vertex_color_exact.

Theorem C04_vertex_color_defined :
  forall (adj : list edge) (n : nat), 0 < n -> adj <> [] -> exists f, vertex_color_cnf adj n = Some f.
Proof. exact vertex_color_cnf_defined. Qed.
Print Assumptions C04_vertex_color_defined.

(* ---------------------------------------------------------------- dimerise: the formula *)

(* every vertex v < n_vertices touches exactly one chosen edge; output (sign + 1) // 2 *)
Theorem C04_dimerise_sound :
  forall (nv : nat) (edges : list edge) (m : model),
    edges_in_range nv edges ->
    wf_model (maxvar (dimer_cnf nv edges)) m = true -> eval_cnf (val m) (dimer_cnf nv edges) = true ->
    perfect_matching nv edges (decode_dimer m).
Proof. exact dimer_cnf_sound. Qed.
Print Assumptions C04_dimerise_sound.

Theorem C04_dimerise_complete :
  forall (nv : nat) (edges : list edge) (d : list nat),
    edges_in_range nv edges -> perfect_matching nv edges d ->
    exists m, wf_model (maxvar (dimer_cnf nv edges)) m = true /\ eval_cnf (val m) (dimer_cnf nv edges) = true
              /\ decode_dimer m = d.
Proof. exact dimer_cnf_complete. Qed.
Print Assumptions C04_dimerise_complete.

Theorem C04_dimerise_exact :
  forall (nv : nat) (edges : list edge) (m1 m2 : model),
    edges_in_range nv edges ->
    wf_model (maxvar (dimer_cnf nv edges)) m1 = true -> eval_cnf (val m1) (dimer_cnf nv edges) = true ->
    wf_model (maxvar (dimer_cnf nv edges)) m2 = true -> eval_cnf (val m2) (dimer_cnf nv edges) = true ->
    decode_dimer m1 = decode_dimer m2 -> m1 = m2.
Proof. exact dimer_cnf_exact. Qed.
Print Assumptions C04_dimerise_exact.

(* ---------------------------------------------------------------- end to end, solver = Section variable

   [solver_contract solve get_model enum_models]: solve f = true iff a total model over 1..maxvar f
   exists; get_model f is one after a successful solve; enum_models f lists every total model exactly
   once.  Under it, EVERY outcome of EVERY mode is characterised:
     Unsolvable        -> no valid assignment exists                      (completeness of the verdict)
     Solution c        -> c is valid                                      (soundness)
     Solutions cs, all -> cs has no repeats and is exactly the valid ones (exactness)
     Solutions cs, first j -> cs = the first j of such a complete repeat-free list
     Invalid           -> only outside the stated domain. *)

Theorem C04_edge_color_end_to_end :
  forall solve get_model enum_models, solver_contract solve get_model enum_models ->
  forall (edges : list edge) (n : nat) (md : mode) (fixed : list (nat * nat)),
    let P := proper_edge_coloring edges n fixed in
    match edge_color solve get_model enum_models edges n md fixed with
    | Invalid => ~ (0 < n /\ fixed_in_range (length edges) n fixed)
    | Unsolvable => forall c, ~ P c
    | Solution c => md = Single /\ P c
    | Solutions cs =>
        NoDup cs /\ (forall c, In c cs -> P c)
        /\ match md with
           | AllSolutions => forall c, P c -> In c cs
           | FirstN j => exists all, NoDup all /\ (forall c, In c all <-> P c) /\ cs = firstn j all
           | Single => False
           end
    end.
Proof. exact edge_color_end_to_end. Qed.
Print Assumptions C04_edge_color_end_to_end.

Theorem C04_vertex_color_end_to_end :
  forall solve get_model enum_models, solver_contract solve get_model enum_models ->
  forall (adj : list edge) (n : nat) (all_solutions : bool),
    let P := proper_vertex_coloring adj n in
    match vertex_color solve get_model enum_models adj n all_solutions with
    | Invalid => ~ (0 < n /\ adj <> [])
    | Unsolvable => forall c, ~ P c
    | Solution c => all_solutions = false /\ P c
    | Solutions cs => all_solutions = true /\ NoDup cs /\ (forall c, In c cs <-> P c)
    end.
Proof. exact vertex_color_end_to_end. Qed.
Print Assumptions C04_vertex_color_end_to_end.

(* Unsolvable = the ValueError of the wrapper *)
Theorem C04_dimerise_end_to_end :
  forall solve get_model enum_models, solver_contract solve get_model enum_models ->
  forall (nv : nat) (edges : list edge) (ns : option nat), edges_in_range nv edges ->
    let P := perfect_matching nv edges in
    match dimerise solve enum_models nv edges ns with
    | Invalid => False
    | Unsolvable => forall d, ~ P d
    | Solution d => ns = Some 1 /\ P d
    | Solutions ds =>
        NoDup ds /\ (forall d, In d ds -> P d)
        /\ match ns with
           | None => forall d, P d -> In d ds
           | Some j => exists all, NoDup all /\ (forall d, In d all <-> P d) /\ ds = firstn j all
           end
    end.
Proof. exact dimerise_end_to_end. Qed.
Print Assumptions C04_dimerise_end_to_end.

(* color_lattice: a valid 3-colouring in which the i-th edge of clockwise_edges_about(0) has colour i;
   ValueError (Unsolvable) only when no such colouring exists *)
Theorem C04_color_lattice_fixes_vertex0 :
  forall solve get_model enum_models, solver_contract solve get_model enum_models ->
  forall (edges : list edge) (cw : list nat),
    let P := fun c => proper_edge_coloring edges 3 [] c /\ forall i, i < length cw -> nth (nth i cw 0) c 0 = i in
    match color_lattice solve get_model enum_models edges cw with
    | Invalid => ~ (length cw <= 3 /\ forall e, In e cw -> e < length edges)
    | Unsolvable => forall c, ~ P c
    | Solution c => P c
    | Solutions _ => False
    end.
Proof. exact color_lattice_end_to_end. Qed.
Print Assumptions C04_color_lattice_fixes_vertex0.

(* the contract is realisable (exhaustive search implements it): the four theorems above are not vacuous *)
Theorem C04_solver_contract_realisable : solver_contract brute_solve brute_get brute_enum.
Proof. exact brute_solver_contract. Qed.
Print Assumptions C04_solver_contract_realisable.

(* ---------------------------------------------------------------- the oracle and the checkers used by S

   The independent backtracking enumerator (no CNF involved) lists exactly the valid assignments, each
   once; its count is the length of ANY repeat-free complete list; its existence test is exact. *)

Theorem C04_edge_counter_correct :
  forall (edges : list edge) (n : nat) (fixed : list (nat * nat)),
    fixed_in_range (length edges) n fixed ->
    let P := proper_edge_coloring edges n fixed in
    NoDup (list_edge_colourings edges n fixed)
    /\ (forall c, In c (list_edge_colourings edges n fixed) <-> P c)
    /\ (exists_edge_colouring edges n fixed = true <-> exists c, P c)
    /\ forall all, NoDup all -> (forall c, In c all <-> P c) ->
                   count_edge_colourings edges n fixed = Z.of_nat (length all).
Proof. exact edge_counter_correct. Qed.
Print Assumptions C04_edge_counter_correct.

Theorem C04_vertex_counter_correct :
  forall (adj : list edge) (n : nat),
    let P := proper_vertex_coloring adj n in
    NoDup (list_vertex_colourings adj n)
    /\ (forall c, In c (list_vertex_colourings adj n) <-> P c)
    /\ (exists_vertex_colouring adj n = true <-> exists c, P c)
    /\ forall all, NoDup all -> (forall c, In c all <-> P c) ->
                   count_vertex_colourings adj n = Z.of_nat (length all).
Proof. exact vertex_counter_correct. Qed.
Print Assumptions C04_vertex_counter_correct.

Theorem C04_dimer_counter_correct :
  forall (nv : nat) (edges : list edge),
    edges_in_range nv edges ->
    let P := perfect_matching nv edges in
    NoDup (list_dimerisations nv edges)
    /\ (forall d, In d (list_dimerisations nv edges) <-> P d)
    /\ (exists_dimerisation nv edges = true <-> exists d, P d)
    /\ forall all, NoDup all -> (forall d, In d all <-> P d) ->
                   count_dimerisations nv edges = Z.of_nat (length all).
Proof. exact dimer_counter_correct. Qed.
Print Assumptions C04_dimer_counter_correct.

(* the boolean checkers run on koala's outputs decide the property's notions *)
Theorem C04_edge_checker_correct :
  forall edges n fixed c, valid_edge_coloringb edges n fixed c = true <-> proper_edge_coloring edges n fixed c.
Proof. exact valid_edge_coloringb_spec. Qed.
Print Assumptions C04_edge_checker_correct.

Theorem C04_vertex_checker_correct :
  forall adj n c, valid_vertex_coloringb adj n c = true <-> proper_vertex_coloring adj n c.
Proof. exact valid_vertex_coloringb_spec. Qed.
Print Assumptions C04_vertex_checker_correct.

Theorem C04_dimer_checker_correct :
  forall nv edges d, valid_dimerb nv edges d = true <-> perfect_matching nv edges d.
Proof. exact valid_dimerb_spec. Qed.
Print Assumptions C04_dimer_checker_correct.

(* ---------------------------------------------------------------- non-vacuity on concrete instances *)

Definition triangle : list edge := [(0, 1); (1, 2); (2, 0)].
(* a multigraph: a doubled edge, a pendant edge and a self-loop at vertex 3 *)
Definition multi : list edge := [(0, 1); (1, 0); (1, 2); (3, 3); (2, 3)].

(* hypotheses of sound/exact are satisfiable: triangle, 3 colours, edge 0 fixed to colour 1 *)
Example C04_edge_color_nonvacuous :
  exists f m, edge_color_cnf triangle 3 [(1, 0)] = Some f
              /\ wf_model (maxvar f) m = true /\ eval_cnf (val m) f = true
              /\ decode_colors 3 3 m = [1; 0; 2]
              /\ proper_edge_coloring triangle 3 [(1, 0)] [1; 0; 2].
Proof.
  eexists. exists (encode_colors 3 3 [1; 0; 2]).
  split; [reflexivity|]. split; [vm_compute; reflexivity|]. split; [vm_compute; reflexivity|].
  split; [vm_compute; reflexivity|].
  apply valid_edge_coloringb_spec. vm_compute. reflexivity.
Qed.

(* end to end with the exhaustive solver: vertex 1 of the multigraph has degree 3, so 2 colours are
   reported unsolvable (and the independent counter agrees); 3 colours suffice *)
Example C04_edge_color_unsat_nonvacuous :
  edge_color brute_solve brute_get brute_enum multi 2 Single [] = Unsolvable
  /\ exists_edge_colouring multi 2 [] = false
  /\ exists_edge_colouring multi 3 [] = true.
Proof. vm_compute. auto. Qed.

Example C04_vertex_color_nonvacuous :
  exists cs, vertex_color brute_solve brute_get brute_enum triangle 3 true = Solutions cs
             /\ length cs = 6 /\ count_vertex_colourings triangle 3 = 6%Z.
Proof. eexists. vm_compute. auto. Qed.

(* the 4-cycle has two perfect matchings *)
Example C04_dimerise_nonvacuous :
  dimerise brute_solve brute_enum 4 [(0, 1); (1, 2); (2, 3); (3, 0)] None = Solutions [[0; 1; 0; 1]; [1; 0; 1; 0]]
  /\ count_dimerisations 4 [(0, 1); (1, 2); (2, 3); (3, 0)] = 2%Z
  /\ edges_in_range 4 [(0, 1); (1, 2); (2, 3); (3, 0)].
Proof.
  split; [vm_compute; reflexivity|]. split; [vm_compute; reflexivity|].
  intros e [<-|[<-|[<-|[<-|[]]]]]; simpl; lia.
Qed.

(* vertex 0 has the three edges 0,1,2; cw = [2; 0; 1] is a possible clockwise order *)
Example C04_color_lattice_nonvacuous :
  exists c, color_lattice brute_solve brute_get brute_enum [(0, 1); (0, 2); (0, 3); (1, 2)] [2; 0; 1] = Solution c
            /\ nth 2 c 9 = 0 /\ nth 0 c 9 = 1 /\ nth 1 c 9 = 2.
Proof. eexists. vm_compute. auto. Qed.
