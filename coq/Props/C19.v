(* Props/C19.v — point-set generators stay in the unit square, keep spacing, are reproducible.
   Model: coq/Model/Points.v (accept/reject core of bluenoise over an ARBITRARY stream of chosen
   indices and candidate points; crop of hyperuniform over ARBITRARY kicked points; uniform) and
   coq/Gen/RngUse.v (regenerated on every run from pointsets.py by translate/rng_use.py).
   A model point (X, Y) stands for (X / sc, Y / sc): sc > 0 is the common power-of-two scale of one run.

   NOT covered by a theorem (S / K only, see harness/c19.py):
     * "given >= 20 attempts per sample the points extend to within two grid spacings of all four
       sides" — probabilistic (depends on the RNG), evaluated per grid shape on the implementation;
     * termination of bluenoise in full (probabilistic): only the measure is proved — at most 2 * max_samples - 1
       iterations change the state, so the loop ends unless it keeps making NoChange iterations
       (C19_bluenoise_terminates_partial, C19_bluenoise_nochange_cause);
     * that numpy's Generator is deterministic given its seed and that rng.uniform returns values in
       [0, 1) — the RNG is outside the model: its draws are the arbitrary streams / hypotheses below. *)
From Coq Require Import List ZArith Bool Arith QArith String.
From Koala Require Import Model.Points Model.PointsGrid Model.RngIR Gen.RngUse Proofs.PointsFacts Proofs.PointsGridFacts Proofs.RngUseFacts.
Import ListNotations.
Open Scope Z_scope.

(* clause "blue-noise points are pairwise farther apart than one grid spacing (distance > 1 before
   normalisation by (nx, ny))": invariant of every reachable state, for every stream *)
Theorem C19_bluenoise_spacing : forall (sc nx ny : Z) (k : nat) (x0 : pt) (its : list (nat * list pt)) (st : state),
  run sc nx ny k (init x0) its = Some st ->
  forall (i j : nat) (a b : pt), i <> j ->
    nth_error (samples st) i = Some a -> nth_error (samples st) j = Some b ->
    sc * sc < d2 a b.
Proof. exact bluenoise_spacing. Qed.
Print Assumptions C19_bluenoise_spacing.

(* clause "every generated point lies in the unit square [0,1]^2 for every grid shape" (bluenoise):
   all nx, ny >= 1, nx <> ny included; the hypothesis on x0 is the contract of
   rng.uniform(size=(2,)) in [0,1) times (nx, ny) (pointsets.py:24) *)
Theorem C19_bluenoise_in_unit_square : forall (sc nx ny : Z) (k : nat) (x0 : pt) (its : list (nat * list pt)) (out : list (Q * Q)),
  0 < sc -> 1 <= nx -> 1 <= ny ->
  (0 <= fst x0 <= sc * nx /\ 0 <= snd x0 <= sc * ny) ->
  bluenoise sc nx ny k x0 its = Some out ->
  forall q, In q out -> (0 <= fst q <= 1 /\ 0 <= snd q <= 1)%Q.
Proof. exact bluenoise_in_unit_square. Qed.
Print Assumptions C19_bluenoise_in_unit_square.

(* same clause, hyperuniform: whatever the jittered and kicked points are, what is returned lies
   strictly inside the unit square (pointsets.py:74-75) *)
Theorem C19_hyperuniform_in_unit_square : forall (sc : Z) (final_points : list pt) (q : Q * Q),
  0 < sc -> In q (hyperuniform sc final_points) ->
  (0 < fst q < 1 /\ 0 < snd q < 1)%Q.
Proof. exact hyperuniform_in_open_unit_square. Qed.
Print Assumptions C19_hyperuniform_in_unit_square.

(* clause "uniform returns exactly n points", all n >= 0 *)
Theorem C19_uniform_count : forall (n : nat) (draw : nat -> pt), List.length (uniform n draw) = n.
Proof. exact uniform_length. Qed.
Print Assumptions C19_uniform_count.

(* clause "every generated point lies in the unit square", uniform: nothing but the contract of rng.uniform
   (draws in [0, 1), hypothesis) *)
Theorem C19_uniform_in_unit_square : forall (sc : Z) (n : nat) (draw : nat -> pt) (q : Q * Q),
  0 < sc -> (forall i, 0 <= fst (draw i) <= sc /\ 0 <= snd (draw i) <= sc) ->
  In q (map (to_unit sc) (uniform n draw)) -> (0 <= fst q <= 1 /\ 0 <= snd q <= 1)%Q.
Proof. exact uniform_in_unit_square. Qed.
Print Assumptions C19_uniform_in_unit_square.

(* clause "nothing depends on or disturbs the global random state when a generator is supplied":
   in today's pointsets.py every call on the global np.random module is np.random.default_rng under
   `if rng is None`; every other random call goes through the rng parameter *)
Theorem C19_uses_only_supplied_rng : uses_only_supplied_rng pointsets_functions = true.
Proof. exact pointsets_use_only_supplied_rng. Qed.
Print Assumptions C19_uses_only_supplied_rng.

(* error paths of the loop (not a clause of the property; they are what makes "the points returned" well defined):
   active_cells always holds distinct valid indices, so samples[idx] cannot raise IndexError and
   active_cells.remove(idx) removes the only occurrence — for every stream whose chosen indices come from
   active_cells (the contract of rng.choice; the model answers None otherwise) *)
Theorem C19_bluenoise_active_cells_valid : forall (sc nx ny : Z) (k : nat) (x0 : pt) (its : list (nat * list pt)) (st : state),
  run sc nx ny k (init x0) its = Some st ->
  NoDup (active st) /\ Forall (fun i => (i < List.length (samples st))%nat) (active st).
Proof. exact bluenoise_active_ok. Qed.
Print Assumptions C19_bluenoise_active_cells_valid.

(* OBSERVATION outside the property (termination is not claimed; reported to the lead; the harness counts such
   calls as skipped): on the 1 x 1 grid, when the first sample is closer than r to all four corners of the domain
   (e.g. x0 = (1/2, 1/2)), every candidate at distance >= r from it — and the candidates are x0 + disk(r, 2r) — lies
   outside the domain, line 37 `continue` skips the removal at i == k - 1, and the while loop never ends:
   bluenoise(k, 1, 1, rng) does not return for such an x0, whatever k and the stream are. *)
Theorem C19_bluenoise_returns_on_unit_grid_refuted : forall (sc : Z) (k : nat) (x0 : pt) (its : list (nat * list pt)) (st : state),
  0 < sc ->
  (d2 x0 (0, 0) < sc * sc /\ d2 x0 (sc, 0) < sc * sc /\ d2 x0 (0, sc) < sc * sc /\ d2 x0 (sc, sc) < sc * sc) ->
  (forall it c, In it its -> In c (snd it) -> sc * sc <= d2 c x0) ->
  run sc 1 1 k (init x0) its = Some st ->
  st = init x0 /\ finished st = false.
Proof. exact bluenoise_unit_grid_never_finishes. Qed.
Print Assumptions C19_bluenoise_returns_on_unit_grid_refuted.

Example C19_unit_grid_nonvacuous :
  (d2 (1, 1) (0, 0) < 2 * 2 /\ d2 (1, 1) (2, 0) < 2 * 2 /\ d2 (1, 1) (0, 2) < 2 * 2 /\ d2 (1, 1) (2, 2) < 2 * 2) /\
  run 2 1 1 3 (init (1, 1)) [(0%nat, [(3, 1); (1, 3); (-1, 1)]); (0%nat, [(1, -1); (3, 3); (4, 1)])] = Some (init (1, 1)).
Proof. vm_compute. repeat split; reflexivity. Qed.

(* ------------------------------------------------------------------ non-vacuity *)
(* a run on a 3 x 2 grid (nx <> ny), k = 2, scale 4: accepts (5/4... ) one candidate, rejects a close one,
   skips one outside, removes an index; hypotheses of the theorems above hold and the output is not trivial *)
Example C19_bluenoise_nonvacuous :
  let its := [ (0%nat, [ (20, 2) (* x > nx: outside *) ; (9, 6) (* accepted *) ]) ;
               (1%nat, [ (10, 7) (* too close *) ; (8, 5) (* too close, last: remove 1 *) ]) ;
               (0%nat, [ (2, 9) (* y > ny: outside *) ; (5, 3) (* too close, last: remove 0 *) ]) ] in
  exists st, run 4 3 2 2 (init (2, 2)) its = Some st /\ samples st = [(2, 2); (9, 6)] /\ finished st = true /\
    bluenoise 4 3 2 2 (2, 2) its = Some [(2 # 12, 2 # 8)%Q; (9 # 12, 6 # 8)%Q].
Proof. vm_compute. eexists. repeat split; reflexivity. Qed.

Example C19_hyperuniform_nonvacuous :
  hyperuniform 8 [(1, 1); (0, 3); (8, 2); (7, 7); (-1, 4); (3, 9)] = [(1 # 8, 1 # 8)%Q; (7 # 8, 7 # 8)%Q].
Proof. vm_compute. reflexivity. Qed.

Example C19_rng_use_nonvacuous :
  forallb draws_from_rng pointsets_functions = true /\ (3 <= List.length pointsets_functions)%nat.
Proof. exact pointsets_draw_from_rng. Qed.

(* ================================================================== deepening: grid bookkeeping, neighbour window,
   counts / termination measure, hyperuniform's jittered grid (Model/PointsGrid.v, Proofs/PointsGridFacts.v).

   READ THIS FIRST: today's bluenoise has NO neighbour window.  The acceptance test scans all samples
   (pointsets.py:40; the TODO at :38-39 says so), the `cells` dictionary is written and never read, and its cell size
   is 1 = r, not Bridson's r / sqrt 2.  So "the window the code scans contains every point closer than r" is
   trivially true of the code (the window is everything).  What is proved here is (a) the window theorem for EVERY
   grid-accelerated variant (any rational cell size (b/a) r, any half-width m with r <= m * cell size), end to end:
   such a variant goes through exactly the states of the coded loop; (b) what the coded dictionary contains; and
   (c) that the coded dictionary (one entry per cell of size r) can NOT serve as that window (refuted with witness). *)

(* the classic Bridson invariant, all grid sizes (nx, ny do not occur), all points: a sample within r of the candidate
   lies within +-m cells of it on both axes whenever r <= m * cell size (a <= m * b for cell size (b/a) r).
   a = b = 1 (the code's cells): m = 1, the 3 x 3 block.  r/2 <= cell <= r/sqrt 2, e.g. a = 3, b = 2: m = 2, 5 x 5. *)
Theorem C19_window_contains_all_within_r : forall (a b sc m : Z) (p s : pt),
  0 < sc -> 0 < a -> 0 < b -> a <= m * b ->
  d2 p s <= sc * sc -> in_window a b sc m p s = true.
Proof. exact window_complete. Qed.
Print Assumptions C19_window_contains_all_within_r.

Theorem C19_windowed_test_is_full_test : forall (a b sc m : Z) (samples : list pt) (p : pt),
  0 < sc -> 0 < a -> 0 < b -> a <= m * b ->
  far_from_window a b sc m samples p = far_from_all sc samples p.
Proof. exact far_from_window_eq. Qed.
Print Assumptions C19_windowed_test_is_full_test.

(* Bridson's other half: cell size <= r / sqrt 2 (2 b^2 <= a^2) => two points of one cell are closer than r, so a
   cell holds at most one sample *)
Theorem C19_same_cell_closer_than_r : forall (a b sc : Z) (p s : pt),
  0 < sc -> 0 < a -> 0 < b -> 2 * b * b <= a * a ->
  cellq a b sc p = cellq a b sc s -> d2 p s < sc * sc.
Proof. exact same_cell_close. Qed.
Print Assumptions C19_same_cell_closer_than_r.

(* end to end: the loop with the windowed test = the coded loop (same states, same outcomes), every stream, every grid *)
Theorem C19_bluenoise_windowed_run_is_coded_run : forall (a b m sc nx ny : Z) (k : nat) (st : state) (its : list (nat * list pt)),
  0 < sc -> 0 < a -> 0 < b -> a <= m * b ->
  run_trace_window a b m sc nx ny k st its = run_trace sc nx ny k st its.
Proof. exact run_trace_window_eq. Qed.
Print Assumptions C19_bluenoise_windowed_run_is_coded_run.

Theorem C19_bluenoise_windowed_spacing : forall (a b m sc nx ny : Z) (k : nat) (x0 : pt) (its : list (nat * list pt)) (st : state) (os : list outcome),
  0 < sc -> 0 < a -> 0 < b -> a <= m * b ->
  run_trace_window a b m sc nx ny k (init x0) its = Some (st, os) ->
  forall (i j : nat) (p q : pt), i <> j -> nth_error (samples st) i = Some p -> nth_error (samples st) j = Some q -> sc * sc < d2 p q.
Proof. exact bluenoise_window_spacing. Qed.
Print Assumptions C19_bluenoise_windowed_spacing.

(* the write-only dictionary as coded: an integer entry j under a key <=> sample j is the LAST sample in that cell *)
Theorem C19_cells_hold_last_sample_of_cell : forall (sc nx ny : Z) (samples : list pt),
  (forall key j, dict_get (cells_after sc nx ny samples) key = Some (Some j) ->
     exists p, nth_error samples j = Some p /\ point_to_coord sc p = key /\
       forall j' q, (j < j')%nat -> nth_error samples j' = Some q -> point_to_coord sc q <> key) /\
  (forall i p, nth_error samples i = Some p ->
     exists j, dict_get (cells_after sc nx ny samples) (point_to_coord sc p) = Some (Some j) /\ (i <= j)%nat).
Proof. exact cells_after_spec. Qed.
Print Assumptions C19_cells_hold_last_sample_of_cell.

(* "the coded dictionary supports the neighbour-window test": false (cell size r lets two samples share a cell) *)
Theorem C19_cells_window_test_sound_refuted :
  exists sc nx ny k x0 its st p,
    run sc nx ny k (init x0) its = Some st /\ out_of_domain sc nx ny p = false /\
    far_from_cells sc 2 (cells_after sc nx ny (samples st)) (samples st) p = true /\
    far_from_all sc (samples st) p = false /\
    (exists i j a b, i <> j /\ nth_error (samples st) i = Some a /\ nth_error (samples st) j = Some b /\
                     point_to_coord sc a = point_to_coord sc b).
Proof. exact cells_window_test_sound_refuted. Qed.
Print Assumptions C19_cells_window_test_sound_refuted.

(* ------------------------------------------------------------------ counts and termination measure *)
(* number of returned points, every stream, every grid: between 1 and (3nx/2 + 1)(3ny/2 + 1) (packing: cells of side
   2r/3 hold at most one sample) *)
Theorem C19_bluenoise_count_bounded : forall (sc nx ny : Z) (k : nat) (x0 : pt) (its : list (nat * list pt)) (st : state),
  0 < sc -> 0 <= nx -> 0 <= ny -> (0 <= fst x0 <= sc * nx /\ 0 <= snd x0 <= sc * ny) ->
  run sc nx ny k (init x0) its = Some st ->
  1 <= Z.of_nat (List.length (samples st)) <= max_samples nx ny.
Proof. exact bluenoise_count_bounded. Qed.
Print Assumptions C19_bluenoise_count_bounded.

(* #points = 1 + #Accept;  |active| = #points - #Remove;  the loop has ended iff #Remove = #points *)
Theorem C19_bluenoise_counts : forall (sc nx ny : Z) (k : nat) (x0 : pt) (its : list (nat * list pt)) (st : state) (os : list outcome),
  run_trace sc nx ny k (init x0) its = Some (st, os) ->
  List.length (samples st) = S (count_out is_accept os) /\
  (List.length (active st) + count_out is_remove os = List.length (samples st))%nat /\
  (finished st = true <-> count_out is_remove os = List.length (samples st)).
Proof. exact bluenoise_counts. Qed.
Print Assumptions C19_bluenoise_counts.

(* termination measure: at most 2 * max_samples - 1 iterations change the state, over ANY stream *)
Theorem C19_bluenoise_effective_iterations_bounded : forall (sc nx ny : Z) (k : nat) (x0 : pt) (its : list (nat * list pt)) (st : state) (os : list outcome),
  0 < sc -> 0 <= nx -> 0 <= ny -> (0 <= fst x0 <= sc * nx /\ 0 <= snd x0 <= sc * ny) ->
  run_trace sc nx ny k (init x0) its = Some (st, os) ->
  Z.of_nat (count_out is_accept os + count_out is_remove os) <= 2 * max_samples nx ny - 1.
Proof. exact bluenoise_effective_iterations_bounded. Qed.
Print Assumptions C19_bluenoise_effective_iterations_bounded.

(* PARTIAL termination: the while loop cannot run longer than 2 * max_samples - 1 iterations unless it makes NoChange
   iterations.  Missing for full termination: NoChange iterations do occur (see the next theorem and
   C19_bluenoise_returns_on_unit_grid_refuted); that they are finitely many is a probabilistic fact about the RNG. *)
Theorem C19_bluenoise_terminates_partial : forall (sc nx ny : Z) (k : nat) (x0 : pt) (its : list (nat * list pt)) (st : state) (os : list outcome),
  0 < sc -> 0 <= nx -> 0 <= ny -> (0 <= fst x0 <= sc * nx /\ 0 <= snd x0 <= sc * ny) ->
  run_trace sc nx ny k (init x0) its = Some (st, os) ->
  count_out is_nochange os = 0%nat ->
  Z.of_nat (List.length its) <= 2 * max_samples nx ny - 1.
Proof. exact bluenoise_terminates_without_nochange. Qed.
Print Assumptions C19_bluenoise_terminates_partial.

(* a NoChange iteration has exactly one cause in a run of the code (k >= 1, k candidates available): the LAST candidate
   is outside the domain, so pointsets.py:37 `continue` skips the `elif i == k - 1: active_cells.remove(idx)` *)
Theorem C19_bluenoise_nochange_cause : forall (sc nx ny : Z) (ss : list pt) (k i : nat) (cands : list pt),
  inner sc nx ny ss i k cands = NoChange ->
  k = O \/ (List.length cands < k)%nat \/
  exists c, nth_error cands (k - 1) = Some c /\ out_of_domain sc nx ny c = true.
Proof. exact inner_nochange. Qed.
Print Assumptions C19_bluenoise_nochange_cause.

(* ------------------------------------------------------------------ hyperuniform's jittered grid as coded *)
Theorem C19_hyperuniform_grid_count : forall (sc : Z) (nx ny : nat) (offs kicks : nat -> pt),
  List.length (hu_final sc nx ny offs kicks) = (ny * nx)%nat.
Proof. exact hu_final_length. Qed.
Print Assumptions C19_hyperuniform_grid_count.

(* what the model's numerator / denominator stand for: the exact value of the code's expression
   linspace(0,1,n)[i] + offset * (1/n) + kick  =  i/(n-1) + (o/sc)(1/n) + k/sc   (n >= 2) *)
Theorem C19_hyperuniform_grid_exact_value : forall (sc : Z) (n i : nat) (o k : Z), 0 < sc -> (2 <= n)%nat ->
  (Qmake (hu_num sc n i o k) (Z.to_pos (hu_den sc n)) ==
   inject_Z (Z.of_nat i) / inject_Z (Z.of_nat n - 1)
   + (inject_Z o / inject_Z sc) * (1 / inject_Z (Z.of_nat n)) + inject_Z k / inject_Z sc)%Q.
Proof. exact hu_exact_value. Qed.
Print Assumptions C19_hyperuniform_grid_exact_value.

(* clause "every generated point lies in the unit square", now from the grid + offsets + kicks as coded *)
Theorem C19_hyperuniform_full_in_unit_square : forall (sc : Z) (nx ny : nat) (offs kicks : nat -> pt) (q : Q * Q),
  0 < sc -> (1 <= nx)%nat -> (1 <= ny)%nat ->
  In q (map (hu_to_unit sc nx ny) (hyperuniform_full sc nx ny offs kicks)) ->
  (0 < fst q < 1 /\ 0 < snd q < 1)%Q.
Proof. exact hyperuniform_full_in_open_unit. Qed.
Print Assumptions C19_hyperuniform_full_in_unit_square.

(* OBSERVATION outside the property (reported to the lead): with kickstrength = 0 and offsets strictly inside (0, 1),
   hyperuniform(nx, ny) returns exactly (nx-1)(ny-1) points, never nx * ny: the last row and column of origins sit on
   the border (linspace includes 1) and are always cropped *)
Theorem C19_hyperuniform_zero_kick_count : forall (sc : Z) (nx ny : nat) (offs kicks : nat -> pt),
  0 < sc -> (2 <= nx)%nat -> (2 <= ny)%nat ->
  (forall j, kicks j = (0, 0)) ->
  (forall j, 0 < fst (offs j) < sc /\ 0 < snd (offs j) < sc) ->
  List.length (hyperuniform_full sc nx ny offs kicks) = ((ny - 1) * (nx - 1))%nat.
Proof. exact hyperuniform_zero_kick_count. Qed.
Print Assumptions C19_hyperuniform_zero_kick_count.

(* ------------------------------------------------------------------ non-vacuity of the new hypotheses *)
(* cell size 2r/3: both Bridson conditions hold with the 5 x 5 block (m = 2); the code's cell size r: 3 x 3 (m = 1)
   suffices for the window, but the one-per-cell condition 2 b^2 <= a^2 fails *)
Example C19_window_hypotheses_nonvacuous :
  (3 <= 2 * 2 /\ 2 * 2 * 2 <= 3 * 3) /\ (1 <= 1 * 1 /\ ~ (2 * 1 * 1 <= 1 * 1)) /\
  in_window 3 2 100 2 (150, 150) (60, 220) = true /\ in_window 3 2 100 1 (150, 150) (60, 220) = false /\
  d2 (150, 150) (60, 220) > 100 * 100 /\ in_window 1 1 100 1 (150, 150) (60, 220) = true.
Proof. vm_compute. repeat split; try reflexivity; try discriminate. intro H; apply H; reflexivity. Qed.

(* the run of C19_bluenoise_nonvacuous: 2 points <= max_samples 3 2 = 20; 1 Accept, 2 Remove, no NoChange, 3 iterations
   <= 39; the windowed loop gives the same; the dictionary ends with cells[(0,0)] = 0, cells[(2,1)] = 1 *)
Example C19_counts_nonvacuous :
  let its := [ (0%nat, [ (20, 2) ; (9, 6) ]) ; (1%nat, [ (10, 7) ; (8, 5) ]) ; (0%nat, [ (2, 9) ; (5, 3) ]) ] in
  exists st os, run_trace 4 3 2 2 (init (2, 2)) its = Some (st, os) /\
    run_trace_window 3 2 2 4 3 2 2 (init (2, 2)) its = Some (st, os) /\
    os = [Accept 1 (9, 6); Remove; Remove] /\ count_out is_nochange os = 0%nat /\ max_samples 3 2 = 20 /\
    dict_get (cells_after 4 3 2 (samples st)) (0, 0) = Some (Some 0%nat) /\
    dict_get (cells_after 4 3 2 (samples st)) (2, 1) = Some (Some 1%nat) /\
    dict_get (cells_after 4 3 2 (samples st)) (1, 1) = Some None /\
    List.length (cells_after 4 3 2 (samples st)) = 6%nat.
Proof. vm_compute. do 2 eexists. repeat split; reflexivity. Qed.

(* hyperuniform(3, 3), scale 8, offsets (1/2, 1/4) everywhere, no kicks: 9 grid points, the 4 = (3-1)(3-1) of the
   first two rows / columns are returned; first point = (0 + (1/2)/3, 0 + (1/4)/3) = (8/48, 4/48) *)
Example C19_hyperuniform_grid_nonvacuous :
  List.length (hu_final 8 3 3 (fun _ => (4, 2)) (fun _ => (0, 0))) = 9%nat /\
  hyperuniform_full 8 3 3 (fun _ => (4, 2)) (fun _ => (0, 0)) = [(8, 4); (32, 4); (8, 28); (32, 28)] /\
  hu_den 8 3 = 48.
Proof. vm_compute. repeat split; reflexivity. Qed.
