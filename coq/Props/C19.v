From Coq Require Import List ZArith Bool Arith QArith.
From Koala Require Import Model.Points Proofs.PointsFacts.
Import ListNotations.
Open Scope Z_scope.

(* clause "uniform returns exactly n points" *)
Theorem C19_uniform_count : forall (n : nat) (draw : nat -> pt), length (uniform n draw) = n.
Proof. exact uniform_length. Qed.
Print Assumptions C19_uniform_count.
