(* Props/C19.v — point-set generators stay in the unit square, keep spacing, are reproducible.
   Model: coq/Model/Points.v (accept/reject core of bluenoise over an ARBITRARY stream of chosen
   indices and candidate points; crop of hyperuniform over ARBITRARY kicked points; uniform) and
   coq/Gen/RngUse.v (regenerated on every run from pointsets.py by translate/rng_use.py).
   A model point (X, Y) stands for (X / sc, Y / sc): sc > 0 is the common power-of-two scale of one run.

   NOT covered by a theorem (S / K only, see harness/c19.py):
     * "given >= 20 attempts per sample the points extend to within two grid spacings of all four
       sides" — probabilistic (depends on the RNG), evaluated per grid shape on the implementation;
     * termination of bluenoise (probabilistic);
     * that numpy's Generator is deterministic given its seed and that rng.uniform returns values in
       [0, 1) — the RNG is outside the model: its draws are the arbitrary streams / hypotheses below. *)
From Coq Require Import List ZArith Bool Arith QArith String.
From Koala Require Import Model.Points Model.RngIR Gen.RngUse Proofs.PointsFacts Proofs.RngUseFacts.
Import ListNotations.
Open Scope Z_scope.

(* clause "blue-noise points are pairwise farther apart than one grid spacing (distance > 1 before
   normalisation by (nx, ny))": invariant of every reachable state, for every stream *)
Theorem C19_bluenoise_spacing : forall (sc nx ny : Z) (k : nat) (x0 : pt) (its : list (nat * list pt)) (st : state),
  run sc nx ny k (init x0) its = Some st ->
  forall (i j : nat) (a b : pt), i <> j ->
    nth_error (samples st) i = Some a -> nth_error (samples st) j = Some b ->
    sc * sc < d2 a b.
Proof. exact bluenoise_spacing. Qed.
Print Assumptions C19_bluenoise_spacing.

(* clause "every generated point lies in the unit square [0,1]^2 for every grid shape" (bluenoise):
   all nx, ny >= 1, nx <> ny included; the hypothesis on x0 is the contract of
   rng.uniform(size=(2,)) in [0,1) times (nx, ny) (pointsets.py:24) *)
Theorem C19_bluenoise_in_unit_square : forall (sc nx ny : Z) (k : nat) (x0 : pt) (its : list (nat * list pt)) (out : list (Q * Q)),
  0 < sc -> 1 <= nx -> 1 <= ny ->
  (0 <= fst x0 <= sc * nx /\ 0 <= snd x0 <= sc * ny) ->
  bluenoise sc nx ny k x0 its = Some out ->
  forall q, In q out -> (0 <= fst q <= 1 /\ 0 <= snd q <= 1)%Q.
Proof. exact bluenoise_in_unit_square. Qed.
Print Assumptions C19_bluenoise_in_unit_square.

(* same clause, hyperuniform: whatever the jittered and kicked points are, what is returned lies
   strictly inside the unit square (pointsets.py:74-75) *)
Theorem C19_hyperuniform_in_unit_square : forall (sc : Z) (final_points : list pt) (q : Q * Q),
  0 < sc -> In q (hyperuniform sc final_points) ->
  (0 < fst q < 1 /\ 0 < snd q < 1)%Q.
Proof. exact hyperuniform_in_open_unit_square. Qed.
Print Assumptions C19_hyperuniform_in_unit_square.

(* clause "uniform returns exactly n points", all n >= 0 *)
Theorem C19_uniform_count : forall (n : nat) (draw : nat -> pt), List.length (uniform n draw) = n.
Proof. exact uniform_length. Qed.
Print Assumptions C19_uniform_count.

(* clause "every generated point lies in the unit square", uniform: nothing but the contract of rng.uniform
   (draws in [0, 1), hypothesis) *)
Theorem C19_uniform_in_unit_square : forall (sc : Z) (n : nat) (draw : nat -> pt) (q : Q * Q),
  0 < sc -> (forall i, 0 <= fst (draw i) <= sc /\ 0 <= snd (draw i) <= sc) ->
  In q (map (to_unit sc) (uniform n draw)) -> (0 <= fst q <= 1 /\ 0 <= snd q <= 1)%Q.
Proof. exact uniform_in_unit_square. Qed.
Print Assumptions C19_uniform_in_unit_square.

(* clause "nothing depends on or disturbs the global random state when a generator is supplied":
   in today's pointsets.py every call on the global np.random module is np.random.default_rng under
   `if rng is None`; every other random call goes through the rng parameter *)
Theorem C19_uses_only_supplied_rng : uses_only_supplied_rng pointsets_functions = true.
Proof. exact pointsets_use_only_supplied_rng. Qed.
Print Assumptions C19_uses_only_supplied_rng.

(* error paths of the loop (not a clause of the property; they are what makes "the points returned" well defined):
   active_cells always holds distinct valid indices, so samples[idx] cannot raise IndexError and
   active_cells.remove(idx) removes the only occurrence — for every stream whose chosen indices come from
   active_cells (the contract of rng.choice; the model answers None otherwise) *)
Theorem C19_bluenoise_active_cells_valid : forall (sc nx ny : Z) (k : nat) (x0 : pt) (its : list (nat * list pt)) (st : state),
  run sc nx ny k (init x0) its = Some st ->
  NoDup (active st) /\ Forall (fun i => (i < List.length (samples st))%nat) (active st).
Proof. exact bluenoise_active_ok. Qed.
Print Assumptions C19_bluenoise_active_cells_valid.

(* OBSERVATION outside the property (termination is not claimed; reported to the lead; the harness counts such
   calls as skipped): on the 1 x 1 grid, when the first sample is closer than r to all four corners of the domain
   (e.g. x0 = (1/2, 1/2)), every candidate at distance >= r from it — and the candidates are x0 + disk(r, 2r) — lies
   outside the domain, line 37 `continue` skips the removal at i == k - 1, and the while loop never ends:
   bluenoise(k, 1, 1, rng) does not return for such an x0, whatever k and the stream are. *)
Theorem C19_bluenoise_returns_on_unit_grid_refuted : forall (sc : Z) (k : nat) (x0 : pt) (its : list (nat * list pt)) (st : state),
  0 < sc ->
  (d2 x0 (0, 0) < sc * sc /\ d2 x0 (sc, 0) < sc * sc /\ d2 x0 (0, sc) < sc * sc /\ d2 x0 (sc, sc) < sc * sc) ->
  (forall it c, In it its -> In c (snd it) -> sc * sc <= d2 c x0) ->
  run sc 1 1 k (init x0) its = Some st ->
  st = init x0 /\ finished st = false.
Proof. exact bluenoise_unit_grid_never_finishes. Qed.
Print Assumptions C19_bluenoise_returns_on_unit_grid_refuted.

Example C19_unit_grid_nonvacuous :
  (d2 (1, 1) (0, 0) < 2 * 2 /\ d2 (1, 1) (2, 0) < 2 * 2 /\ d2 (1, 1) (0, 2) < 2 * 2 /\ d2 (1, 1) (2, 2) < 2 * 2) /\
  run 2 1 1 3 (init (1, 1)) [(0%nat, [(3, 1); (1, 3); (-1, 1)]); (0%nat, [(1, -1); (3, 3); (4, 1)])] = Some (init (1, 1)).
Proof. vm_compute. repeat split; reflexivity. Qed.

(* ------------------------------------------------------------------ non-vacuity *)
(* a run on a 3 x 2 grid (nx <> ny), k = 2, scale 4: accepts (5/4... ) one candidate, rejects a close one,
   skips one outside, removes an index; hypotheses of the theorems above hold and the output is not trivial *)
Example C19_bluenoise_nonvacuous :
  let its := [ (0%nat, [ (20, 2) (* x > nx: outside *) ; (9, 6) (* accepted *) ]) ;
               (1%nat, [ (10, 7) (* too close *) ; (8, 5) (* too close, last: remove 1 *) ]) ;
               (0%nat, [ (2, 9) (* y > ny: outside *) ; (5, 3) (* too close, last: remove 0 *) ]) ] in
  exists st, run 4 3 2 2 (init (2, 2)) its = Some st /\ samples st = [(2, 2); (9, 6)] /\ finished st = true /\
    bluenoise 4 3 2 2 (2, 2) its = Some [(2 # 12, 2 # 8)%Q; (9 # 12, 6 # 8)%Q].
Proof. vm_compute. eexists. repeat split; reflexivity. Qed.

Example C19_hyperuniform_nonvacuous :
  hyperuniform 8 [(1, 1); (0, 3); (8, 2); (7, 7); (-1, 4); (3, 9)] = [(1 # 8, 1 # 8)%Q; (7 # 8, 7 # 8)%Q].
Proof. vm_compute. reflexivity. Qed.

Example C19_rng_use_nonvacuous :
  forallb draws_from_rng pointsets_functions = true /\ (3 <= List.length pointsets_functions)%nat.
Proof. exact pointsets_draw_from_rng. Qed.
