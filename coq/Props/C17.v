(* Props/C17.v — C17: the de Bruijn-grid generator yields a planar edge-to-edge rhombus tiling.
   PARTIAL, checker-level: the generator (cos/sin/inv/argsort on irrational data) is not modelled; the theorems
   state what the exact checker check_rhombus_tiling establishes about an output lattice when it answers [true].
   The harness runs the extracted checker on every generated output.  NOT covered by a theorem: "for all offsets"
   (explored, not proved); that the plaquettes found by Lattice.find_all_plaquettes are all bounded faces (Euler's
   theorem / C01); the 36/72 degree classification for five bundles (python census in the harness). *)
From Coq Require Import List ZArith Bool Arith QArith.
From Koala Require Import Model.Lattice Model.Tiling2 Proofs.Tiling2Facts.
Import ListNotations.
Open Scope Z_scope.

(* clause "connected": the search succeeds only if every vertex is joined to vertex 0 by a path of edges *)
Theorem C17_bfs_connected_sound : forall L, connected_check L = true ->
  forall v, (v < nV L)%nat -> reach L 0%nat v.
Proof. exact bfs_connected_sound. Qed.
Print Assumptions C17_bfs_connected_sound.

(* clause "no two edges cross": any point (rational coordinates, exact) common to two distinct edges is the
   position of a common end vertex *)
Theorem C17_no_crossing_sound : forall L, no_crossing_check L = true ->
  forall e f, (e < f)%nat -> (f < nE L)%nat -> meet_only_at_common_vertex L (edge_at L e) (edge_at L f).
Proof. exact no_crossing_sound. Qed.
Print Assumptions C17_no_crossing_sound.

(* clause "every plaquette is a rhombus": a closed 4-gon with four equal sides and non-degenerate diagonals
   (guaranteed by "no two vertices coincide") has equal opposite side vectors *)
Theorem C17_rhombus_exact : forall P0 P1 P2 P3 : vec,
  norm2 (vsub P1 P0) = norm2 (vsub P2 P1) ->
  norm2 (vsub P2 P1) = norm2 (vsub P3 P2) ->
  norm2 (vsub P3 P2) = norm2 (vsub P0 P3) ->
  P0 <> P2 -> P1 <> P3 ->
  vsub P1 P0 = vsub P2 P3 /\ vsub P2 P1 = vsub P3 P0.
Proof. exact rhombus_exact. Qed.
Print Assumptions C17_rhombus_exact.

(* all clauses: what acceptance by the checker means (float positions: equal lengths / parallelogram /
   star directions hold up to the stated tolerance tn/td, everything else exactly) *)
Theorem C17_check_rhombus_tiling_sound : forall tn td use_dirs dirs L,
  check_rhombus_tiling tn td use_dirs dirs L = true ->
  wf_lattice L = true /\ 0 <= tn /\ 0 < td /\
  (forall c, In c (crossing L) -> c = vzero) /\
  (forall e, In e (edges L) -> fst e <> snd e) /\
  NoDup (pos L) /\
  (forall v, (v < nV L)%nat -> (2 <= count_ends L v)%nat) /\
  (forall p, In p (pos L) -> 0 <= fst p <= scale L /\ 0 <= snd p <= scale L) /\
  (forall v, (v < nV L)%nat -> reach L 0%nat v) /\
  (forall e f, (e < f)%nat -> (f < nE L)%nat -> meet_only_at_common_vertex L (edge_at L e) (edge_at L f)) /\
  (exists e0 rest, edges L = e0 :: rest /\ 0 < len2 L e0 /\
     (forall e, In e (edges L) -> Z.abs (len2 L e - len2 L e0) * td <= tn * len2 L e0) /\
     exists ps, find_all_plaquettes L = Some ps /\
       (forall p, In p ps -> face_P tn td (len2 L e0) L p) /\
       Z.of_nat (nV L) - Z.of_nat (nE L) + Z.of_nat (length ps) = 1) /\
  (use_dirs = true -> forall e, In e (edges L) ->
     exists d, In d dirs /\ parallel_P tn td (vsub (pos_at L (snd e)) (pos_at L (fst e))) d).
Proof. exact check_rhombus_tiling_sound. Qed.
Print Assumptions C17_check_rhombus_tiling_sound.

(* clause "V-E+F=1": arithmetic on the counts *)
Theorem C17_euler_count : forall V E F : Z, V - E + F = 1 <-> F = E - V + 1.
Proof. exact euler_count. Qed.
Print Assumptions C17_euler_count.

(* ---- non-vacuity: koala's actual output de_brujin_grid(5, 3) (43 vertices, 72 edges, 30 rhombi; float64
   positions as exact dyadics), tolerance 1e-9, star directions of 3 bundles: the checker accepts *)
Definition ex_tiling : lattice := mkLattice 18014398509481984
  [(4953959590107548, 16027616289139560); (3940649673949185, 14272512030539918); (4953959590107546, 12517407771940276); (3940649673949184, 10762303513340634); (4953959590107544, 9007199254740994); (3940649673949182, 7252094996141352); (4953959590107544, 5496990737541711); (3940649673949180, 3741886478942070); (4953959590107542, 1986782220342428); (6980579422424270, 16027616289139560); (7993889338582632, 14272512030539916); (5967269506265908, 14272512030539916); (6980579422424269, 12517407771940276); (7993889338582630, 10762303513340634); (5967269506265907, 10762303513340634); (6980579422424268, 9007199254740994); (7993889338582629, 7252094996141352); (5967269506265906, 7252094996141352); (6980579422424266, 5496990737541711); (7993889338582628, 3741886478942069); (5967269506265904, 3741886478942069); (6980579422424265, 1986782220342428); (10020509170899356, 14272512030539916); (11033819087057716, 12517407771940276); (9007199254740992, 12517407771940276); (10020509170899354, 10762303513340634); (11033819087057714, 9007199254740992); (9007199254740992, 9007199254740992); (10020509170899352, 7252094996141352); (11033819087057714, 5496990737541710); (9007199254740990, 5496990737541710); (10020509170899350, 3741886478942069); (13060438919374440, 12517407771940276); (14073748835532800, 10762303513340634); (12047129003216078, 10762303513340634); (13060438919374438, 9007199254740992); (14073748835532800, 7252094996141351); (12047129003216076, 7252094996141351); (13060438919374436, 5496990737541710); (16100368667849524, 10762303513340634); (17113678584007884, 9007199254740992); (15087058751691162, 9007199254740992); (16100368667849522, 7252094996141351)]
  [(9, 0)%nat; (10, 11)%nat; (12, 2)%nat; (13, 14)%nat; (15, 4)%nat; (16, 17)%nat; (18, 6)%nat; (19, 20)%nat; (21, 8)%nat; (22, 10)%nat; (23, 24)%nat; (25, 13)%nat; (26, 27)%nat; (28, 16)%nat; (29, 30)%nat; (31, 19)%nat; (32, 23)%nat; (33, 34)%nat; (35, 26)%nat; (36, 37)%nat; (38, 29)%nat; (39, 33)%nat; (40, 41)%nat; (42, 36)%nat; (7, 8)%nat; (6, 20)%nat; (18, 19)%nat; (16, 30)%nat; (28, 29)%nat; (26, 37)%nat; (35, 36)%nat; (33, 41)%nat; (39, 40)%nat; (5, 6)%nat; (4, 17)%nat; (15, 16)%nat; (13, 27)%nat; (25, 26)%nat; (23, 34)%nat; (32, 33)%nat; (3, 4)%nat; (2, 14)%nat; (12, 13)%nat; (10, 24)%nat; (22, 23)%nat; (1, 2)%nat; (0, 11)%nat; (9, 10)%nat; (42, 40)%nat; (36, 41)%nat; (35, 33)%nat; (26, 34)%nat; (25, 23)%nat; (13, 24)%nat; (12, 10)%nat; (2, 11)%nat; (1, 0)%nat; (38, 36)%nat; (29, 37)%nat; (28, 26)%nat; (16, 27)%nat; (15, 13)%nat; (4, 14)%nat; (3, 2)%nat; (31, 29)%nat; (19, 30)%nat; (18, 16)%nat; (6, 17)%nat; (5, 4)%nat; (21, 19)%nat; (8, 20)%nat; (7, 6)%nat]
  [(0, 0); (0, 0); (0, 0); (0, 0); (0, 0); (0, 0); (0, 0); (0, 0); (0, 0); (0, 0); (0, 0); (0, 0); (0, 0); (0, 0); (0, 0); (0, 0); (0, 0); (0, 0); (0, 0); (0, 0); (0, 0); (0, 0); (0, 0); (0, 0); (0, 0); (0, 0); (0, 0); (0, 0); (0, 0); (0, 0); (0, 0); (0, 0); (0, 0); (0, 0); (0, 0); (0, 0); (0, 0); (0, 0); (0, 0); (0, 0); (0, 0); (0, 0); (0, 0); (0, 0); (0, 0); (0, 0); (0, 0); (0, 0); (0, 0); (0, 0); (0, 0); (0, 0); (0, 0); (0, 0); (0, 0); (0, 0); (0, 0); (0, 0); (0, 0); (0, 0); (0, 0); (0, 0); (0, 0); (0, 0); (0, 0); (0, 0); (0, 0); (0, 0); (0, 0); (0, 0); (0, 0); (0, 0)].
Definition ex_dirs : list vec := [(1152921504606846976, 0); ((-576460752303423232), 998459311558907264); ((-576460752303424000), (-998459311558906880))].

Example C17_check_nonvacuous : check_rhombus_tiling 1 1000000000 true ex_dirs ex_tiling = true.
Proof. vm_compute. reflexivity. Qed.
