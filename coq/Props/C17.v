(* Props/C17.v — C17: the de Bruijn-grid generator yields a planar edge-to-edge rhombus tiling.
   PARTIAL.  Two groups of theorems:
   (a) checker level: what the exact checker check_rhombus_tiling establishes about an output lattice when it answers [true]
       (the harness runs the extracted checker on every generated output), incl. the tolerance version of "rhombus";
   (b) the dual construction itself (Model/DeBruijn.v: grid lines, intersection by Cramer's rule, find_pent_index,
       map_to_position, the clipping window, over Q with abstract direction vectors): the four vertices produced for the four
       cells touching an intersection of a line of bundle i with a line of bundle j form a parallelogram with sides exactly
       e_i, e_j (a rhombus for unit star vectors), for ANY points in those cells, and such points exist at every generic
       intersection.  The correspondence run evaluates the same functions on the arrays the running generator passes from
       its grid stage to its dual stage (floats as exact dyadics) and compares index vectors, window, positions.
   NOT covered by a theorem: that the point koala uses for a grid face (average of its corners) lies in that face's cell
   (checked per face by the proved certificate quad_steps instead); argsort/edge construction of the grid graph, make_dual,
   clipping and trailing-edge removal as a whole ("for all offsets" is explored, not proved); that the plaquettes found by
   Lattice.find_all_plaquettes are all bounded faces (Euler's theorem / C01); the 36/72 degree classification for five
   bundles (python census in the harness). *)
From Coq Require Import List ZArith Bool Arith QArith.
From Koala Require Import Model.Lattice Model.Tiling2 Proofs.Tiling2Facts.
From Koala Require Import Model.DeBruijn Proofs.DeBruijnFacts Proofs.RhombusTol.
Import ListNotations.
Open Scope Z_scope.

(* clause "connected": the search succeeds only if every vertex is joined to vertex 0 by a path of edges *)
Theorem C17_bfs_connected_sound : forall L, connected_check L = true ->
  forall v, (v < nV L)%nat -> reach L 0%nat v.
Proof. exact bfs_connected_sound. Qed.
Print Assumptions C17_bfs_connected_sound.

(* clause "no two edges cross": any point (rational coordinates, exact) common to two distinct edges is the
   position of a common end vertex *)
Theorem C17_no_crossing_sound : forall L, no_crossing_check L = true ->
  forall e f, (e < f)%nat -> (f < nE L)%nat -> meet_only_at_common_vertex L (edge_at L e) (edge_at L f).
Proof. exact no_crossing_sound. Qed.
Print Assumptions C17_no_crossing_sound.

(* clause "every plaquette is a rhombus": a closed 4-gon with four equal sides and non-degenerate diagonals
   (guaranteed by "no two vertices coincide") has equal opposite side vectors *)
Theorem C17_rhombus_exact : forall P0 P1 P2 P3 : vec,
  norm2 (vsub P1 P0) = norm2 (vsub P2 P1) ->
  norm2 (vsub P2 P1) = norm2 (vsub P3 P2) ->
  norm2 (vsub P3 P2) = norm2 (vsub P0 P3) ->
  P0 <> P2 -> P1 <> P3 ->
  vsub P1 P0 = vsub P2 P3 /\ vsub P2 P1 = vsub P3 P0.
Proof. exact rhombus_exact. Qed.
Print Assumptions C17_rhombus_exact.

(* all clauses: what acceptance by the checker means (float positions: equal lengths / parallelogram /
   star directions hold up to the stated tolerance tn/td, everything else exactly) *)
Theorem C17_check_rhombus_tiling_sound : forall tn td use_dirs dirs L,
  check_rhombus_tiling tn td use_dirs dirs L = true ->
  wf_lattice L = true /\ 0 <= tn /\ 0 < td /\
  (forall c, In c (crossing L) -> c = vzero) /\
  (forall e, In e (edges L) -> fst e <> snd e) /\
  NoDup (pos L) /\
  (forall v, (v < nV L)%nat -> (2 <= count_ends L v)%nat) /\
  (forall p, In p (pos L) -> 0 <= fst p <= scale L /\ 0 <= snd p <= scale L) /\
  (forall v, (v < nV L)%nat -> reach L 0%nat v) /\
  (forall e f, (e < f)%nat -> (f < nE L)%nat -> meet_only_at_common_vertex L (edge_at L e) (edge_at L f)) /\
  (exists e0 rest, edges L = e0 :: rest /\ 0 < len2 L e0 /\
     (forall e, In e (edges L) -> Z.abs (len2 L e - len2 L e0) * td <= tn * len2 L e0) /\
     exists ps, find_all_plaquettes L = Some ps /\
       (forall p, In p ps -> face_P tn td (len2 L e0) L p) /\
       Z.of_nat (nV L) - Z.of_nat (nE L) + Z.of_nat (length ps) = 1) /\
  (use_dirs = true -> forall e, In e (edges L) ->
     exists d, In d dirs /\ parallel_P tn td (vsub (pos_at L (snd e)) (pos_at L (fst e))) d).
Proof. exact check_rhombus_tiling_sound. Qed.
Print Assumptions C17_check_rhombus_tiling_sound.

(* clause "V-E+F=1": arithmetic on the counts *)
Theorem C17_euler_count : forall V E F : Z, V - E + F = 1 <-> F = E - V + 1.
Proof. exact euler_count. Qed.
Print Assumptions C17_euler_count.

(* clause "every plaquette is a rhombus", tolerance version (floats): four squared side lengths within E/td of l0 bound the
   parallelogram defect w = P0+P2-P1-P3 by |w|^2 X^2 td^2 <= 8 E^2 (|D1|^2+|D2|^2), D1, D2 the diagonals, X = D1 x D2
   (for a rhombus of side l and angle theta: |w|/l <= 2 sqrt2 (E/td/l^2) / sin theta) *)
Theorem C17_rhombus_tol : forall (P0 P1 P2 P3 : vec) (l0 td E : Z),
  0 < td ->
  Z.abs (norm2 (vsub P1 P0) - l0) * td <= E ->
  Z.abs (norm2 (vsub P2 P1) - l0) * td <= E ->
  Z.abs (norm2 (vsub P3 P2) - l0) * td <= E ->
  Z.abs (norm2 (vsub P0 P3) - l0) * td <= E ->
  let w := vsub (vadd P0 P2) (vadd P1 P3) in
  let D1 := vsub P2 P0 in let D2 := vsub P3 P1 in
  norm2 w * (vcross D1 D2 * vcross D1 D2) * (td * td) <= 8 * (E * E) * (norm2 D1 + norm2 D2).
Proof. exact rhombus_tol. Qed.
Print Assumptions C17_rhombus_tol.

(* the same with the checker's relative tolerance (what lengths_ok establishes for the four sides of a face) *)
Theorem C17_rhombus_tol_rel : forall (P0 P1 P2 P3 : vec) (l0 tn td : Z),
  0 < td ->
  Z.abs (norm2 (vsub P1 P0) - l0) * td <= tn * l0 ->
  Z.abs (norm2 (vsub P2 P1) - l0) * td <= tn * l0 ->
  Z.abs (norm2 (vsub P3 P2) - l0) * td <= tn * l0 ->
  Z.abs (norm2 (vsub P0 P3) - l0) * td <= tn * l0 ->
  let w := vsub (vadd P0 P2) (vadd P1 P3) in
  let D1 := vsub P2 P0 in let D2 := vsub P3 P1 in
  norm2 w * (vcross D1 D2 * vcross D1 D2) * (td * td) <= 8 * (tn * l0 * (tn * l0)) * (norm2 D1 + norm2 D2).
Proof. exact rhombus_tol_rel. Qed.
Print Assumptions C17_rhombus_tol_rel.

(* ---- the dual construction itself (Model/DeBruijn.v: quasicrystals.py:70-75, 96-107, 148-150, 164-175, 179 over Q with
   abstract direction vectors; tied to the code by the correspondence run on the arrays the code passes around) ---- *)
Open Scope Q_scope.

(* the intersection point computed by the code's formula (Cramer / la.inv) lies on both grid lines: in the coordinates of
   find_pent_index it sits exactly at the integers li and lj *)
Theorem C17_grid_vertex_on_lines : forall g i li j lj nu0 nu1 P,
  grid_ok g -> (i < n_bundles g)%nat -> (j < n_bundles g)%nat ->
  grid_vertex g i li j lj = Some (nu0, nu1, P) ->
  cell_coord g i (scaled g P) == inject_Z (Z.of_nat li) /\
  cell_coord g j (scaled g P) == inject_Z (Z.of_nat lj) /\
  ~ qv_cross (grad g i) (grad g j) == 0.
Proof. exact grid_vertex_on_lines. Qed.
Print Assumptions C17_grid_vertex_on_lines.

(* THE ALGEBRAIC HEART: for ANY four points in the four cells touching the intersection of line li of bundle i with line lj
   of bundle j (any directions, offsets, scaling; the other bundles arbitrary), map_to_position(find_pent_index(.)) gives a
   parallelogram whose sides are exactly the star vectors e_i and e_j *)
Theorem C17_dual_parallelogram : forall g i j li lj Ps q00 q10 q11 q01,
  length (g_normals g) = n_bundles g -> (i < n_bundles g)%nat -> (j < n_bundles g)%nat -> i <> j ->
  in_cell g i j li lj Ps 0 0 q00 -> in_cell g i j li lj Ps 1 0 q10 ->
  in_cell g i j li lj Ps 1 1 q11 -> in_cell g i j li lj Ps 0 1 q01 ->
  let V := dual_vertex g in
  qv_eq (V q10) (qv_add (V q00) (grad g i)) /\ qv_eq (V q11) (qv_add (V q01) (grad g i)) /\
  qv_eq (V q01) (qv_add (V q00) (grad g j)) /\ qv_eq (V q11) (qv_add (V q10) (grad g j)).
Proof. exact dual_parallelogram. Qed.
Print Assumptions C17_dual_parallelogram.

(* the hypotheses of C17_dual_parallelogram are inhabited at EVERY generic intersection (no third bundle has a line through
   it): four points, one in each of the four cells touching the intersection, exist (explicit small displacements) *)
Theorem C17_generic_cells_exist : forall g i j li lj nu0 nu1 P,
  grid_ok g -> (i < n_bundles g)%nat -> (j < n_bundles g)%nat -> i <> j ->
  grid_vertex g i li j lj = Some (nu0, nu1, P) ->
  generic_at g i j (scaled g P) ->
  exists q00 q10 q11 q01,
    in_cell g i j li lj (scaled g P) 0 0 q00 /\ in_cell g i j li lj (scaled g P) 1 0 q10 /\
    in_cell g i j li lj (scaled g P) 1 1 q11 /\ in_cell g i j li lj (scaled g P) 0 1 q01.
Proof. exact generic_cells_exist. Qed.
Print Assumptions C17_generic_cells_exist.

(* ... a rhombus when the star vectors are unit vectors: all four sides have squared length 1 *)
Theorem C17_dual_rhombus : forall g i j li lj Ps q00 q10 q11 q01,
  grid_ok g -> (i < n_bundles g)%nat -> (j < n_bundles g)%nat -> i <> j ->
  in_cell g i j li lj Ps 0 0 q00 -> in_cell g i j li lj Ps 1 0 q10 ->
  in_cell g i j li lj Ps 1 1 q11 -> in_cell g i j li lj Ps 0 1 q01 ->
  let V := dual_vertex g in
  qv_norm2 (qv_sub (V q10) (V q00)) == 1 /\ qv_norm2 (qv_sub (V q11) (V q10)) == 1 /\
  qv_norm2 (qv_sub (V q01) (V q11)) == 1 /\ qv_norm2 (qv_sub (V q00) (V q01)) == 1.
Proof. exact dual_rhombus. Qed.
Print Assumptions C17_dual_rhombus.

(* without unit vectors: equal star lengths |e_i| = |e_j| already give four equal sides *)
Theorem C17_dual_rhombus_equal_sides : forall g i j li lj Ps q00 q10 q11 q01,
  length (g_normals g) = n_bundles g -> (i < n_bundles g)%nat -> (j < n_bundles g)%nat -> i <> j ->
  qv_norm2 (grad g i) == qv_norm2 (grad g j) ->
  in_cell g i j li lj Ps 0 0 q00 -> in_cell g i j li lj Ps 1 0 q10 ->
  in_cell g i j li lj Ps 1 1 q11 -> in_cell g i j li lj Ps 0 1 q01 ->
  let V := dual_vertex g in
  let l2 := qv_norm2 (grad g i) in
  qv_norm2 (qv_sub (V q10) (V q00)) == l2 /\ qv_norm2 (qv_sub (V q11) (V q10)) == l2 /\
  qv_norm2 (qv_sub (V q01) (V q11)) == l2 /\ qv_norm2 (qv_sub (V q00) (V q01)) == l2.
Proof. exact dual_rhombus_equal_sides. Qed.
Print Assumptions C17_dual_rhombus_equal_sides.

(* index-level certificate run on every face of every generated tiling: if the four index vectors met around a face are
   K, K + s e_i, K + s e_i + t e_j, K + t e_j (i <> j, s, t = +-1) then the four positions map_to_position gives form a
   parallelogram with sides exactly s*star_i and t*star_j *)
Theorem C17_quad_steps_sound : forall stars B K0 K1 K2 K3 i s j t,
  quad_steps B K0 K1 K2 K3 = Some (i, s, (j, t)) ->
  let V := map_to_position stars in
  let ei := qv_scale (inject_Z s) (nth i stars qv_zero) in
  let ej := qv_scale (inject_Z t) (nth j stars qv_zero) in
  i <> j /\ (s = 1 \/ s = -1)%Z /\ (t = 1 \/ t = -1)%Z /\
  qv_eq (V K1) (qv_add (V K0) ei) /\ qv_eq (V K2) (qv_add (V K1) ej) /\
  qv_eq (V K2) (qv_add (V K3) ei) /\ qv_eq (V K3) (qv_add (V K0) ej).
Proof. exact quad_steps_sound. Qed.
Print Assumptions C17_quad_steps_sound.

(* the function the correspondence driver evaluates on the generator's own arrays is literally composed of the functions
   the theorems above are about (find_pent_index, the window test, map_to_position) *)
Theorem C17_db_eval_spec : forall n sc starts normals stars q,
  db_eval n sc starts normals stars q =
  (pent_index_raw sc starts normals q, point_margin sc starts normals q,
   in_window n (pent_index_raw sc starts normals q), dual_vertex_raw sc starts normals stars q).
Proof. exact db_eval_spec. Qed.
Print Assumptions C17_db_eval_spec.
Close Scope Q_scope.

(* ---- non-vacuity: koala's actual output de_brujin_grid(5, 3) (43 vertices, 72 edges, 30 rhombi; float64
   positions as exact dyadics), tolerance 1e-9, star directions of 3 bundles: the checker accepts *)
Definition ex_tiling : lattice := mkLattice 18014398509481984
  [(4953959590107548, 16027616289139560); (3940649673949185, 14272512030539918); (4953959590107546, 12517407771940276); (3940649673949184, 10762303513340634); (4953959590107544, 9007199254740994); (3940649673949182, 7252094996141352); (4953959590107544, 5496990737541711); (3940649673949180, 3741886478942070); (4953959590107542, 1986782220342428); (6980579422424270, 16027616289139560); (7993889338582632, 14272512030539916); (5967269506265908, 14272512030539916); (6980579422424269, 12517407771940276); (7993889338582630, 10762303513340634); (5967269506265907, 10762303513340634); (6980579422424268, 9007199254740994); (7993889338582629, 7252094996141352); (5967269506265906, 7252094996141352); (6980579422424266, 5496990737541711); (7993889338582628, 3741886478942069); (5967269506265904, 3741886478942069); (6980579422424265, 1986782220342428); (10020509170899356, 14272512030539916); (11033819087057716, 12517407771940276); (9007199254740992, 12517407771940276); (10020509170899354, 10762303513340634); (11033819087057714, 9007199254740992); (9007199254740992, 9007199254740992); (10020509170899352, 7252094996141352); (11033819087057714, 5496990737541710); (9007199254740990, 5496990737541710); (10020509170899350, 3741886478942069); (13060438919374440, 12517407771940276); (14073748835532800, 10762303513340634); (12047129003216078, 10762303513340634); (13060438919374438, 9007199254740992); (14073748835532800, 7252094996141351); (12047129003216076, 7252094996141351); (13060438919374436, 5496990737541710); (16100368667849524, 10762303513340634); (17113678584007884, 9007199254740992); (15087058751691162, 9007199254740992); (16100368667849522, 7252094996141351)]
  [(9, 0)%nat; (10, 11)%nat; (12, 2)%nat; (13, 14)%nat; (15, 4)%nat; (16, 17)%nat; (18, 6)%nat; (19, 20)%nat; (21, 8)%nat; (22, 10)%nat; (23, 24)%nat; (25, 13)%nat; (26, 27)%nat; (28, 16)%nat; (29, 30)%nat; (31, 19)%nat; (32, 23)%nat; (33, 34)%nat; (35, 26)%nat; (36, 37)%nat; (38, 29)%nat; (39, 33)%nat; (40, 41)%nat; (42, 36)%nat; (7, 8)%nat; (6, 20)%nat; (18, 19)%nat; (16, 30)%nat; (28, 29)%nat; (26, 37)%nat; (35, 36)%nat; (33, 41)%nat; (39, 40)%nat; (5, 6)%nat; (4, 17)%nat; (15, 16)%nat; (13, 27)%nat; (25, 26)%nat; (23, 34)%nat; (32, 33)%nat; (3, 4)%nat; (2, 14)%nat; (12, 13)%nat; (10, 24)%nat; (22, 23)%nat; (1, 2)%nat; (0, 11)%nat; (9, 10)%nat; (42, 40)%nat; (36, 41)%nat; (35, 33)%nat; (26, 34)%nat; (25, 23)%nat; (13, 24)%nat; (12, 10)%nat; (2, 11)%nat; (1, 0)%nat; (38, 36)%nat; (29, 37)%nat; (28, 26)%nat; (16, 27)%nat; (15, 13)%nat; (4, 14)%nat; (3, 2)%nat; (31, 29)%nat; (19, 30)%nat; (18, 16)%nat; (6, 17)%nat; (5, 4)%nat; (21, 19)%nat; (8, 20)%nat; (7, 6)%nat]
  [(0, 0); (0, 0); (0, 0); (0, 0); (0, 0); (0, 0); (0, 0); (0, 0); (0, 0); (0, 0); (0, 0); (0, 0); (0, 0); (0, 0); (0, 0); (0, 0); (0, 0); (0, 0); (0, 0); (0, 0); (0, 0); (0, 0); (0, 0); (0, 0); (0, 0); (0, 0); (0, 0); (0, 0); (0, 0); (0, 0); (0, 0); (0, 0); (0, 0); (0, 0); (0, 0); (0, 0); (0, 0); (0, 0); (0, 0); (0, 0); (0, 0); (0, 0); (0, 0); (0, 0); (0, 0); (0, 0); (0, 0); (0, 0); (0, 0); (0, 0); (0, 0); (0, 0); (0, 0); (0, 0); (0, 0); (0, 0); (0, 0); (0, 0); (0, 0); (0, 0); (0, 0); (0, 0); (0, 0); (0, 0); (0, 0); (0, 0); (0, 0); (0, 0); (0, 0); (0, 0); (0, 0); (0, 0)].
Definition ex_dirs : list vec := [(1152921504606846976, 0); ((-576460752303423232), 998459311558907264); ((-576460752303424000), (-998459311558906880))].

Example C17_check_nonvacuous : check_rhombus_tiling 1 1000000000 true ex_dirs ex_tiling = true.
Proof. vm_compute. reflexivity. Qed.
