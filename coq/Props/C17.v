From Coq Require Import List ZArith Bool Arith.
From Koala Require Import Model.Lattice Model.Tiling2 Proofs.Tiling2Facts.
Import ListNotations.
Open Scope Z_scope.

(* clause "V-E+F=1": arithmetic on the counts *)
Theorem C17_euler_count : forall V E F : Z, V - E + F = 1 <-> F = E - V + 1.
Proof. exact euler_count. Qed.
Print Assumptions C17_euler_count.
