(* Props/C20.v — phase-diagram sampling lies on the coupling simplex; parallel map equals serial.
   Models: coq/Model/Sampling.v (exact rationals) and coq/Model/ParMap.v (mpire's map on a numpy array as read
   from its source + koala's computation wrapper + the final transpose).

   NOT covered by a theorem (S / K only, see harness/c20.py):
     * "each accompanying triangulation has exactly one node per sampling point": matplotlib.tri.Triangulation
       (Qhull) is outside the model; node counts are checked on the implementation for samples 2..40;
     * float rounding of linspace / 1 - x - y (S: 4 ulp; K: implementation floats vs the model's rationals, 1 ulp);
     * that mpire's pool delivers the result of every task exactly once: hypothesis
       [pool_delivers_each_result_once] (Section variable contract), exercised on the implementation with
       n_jobs in 1..16 and skewed per-point cost;
     * mpire's float carry arithmetic for the chunk sizes: the theorems hold for EVERY sequence of ceil values
       ([..._any_carry]) and for the exact rational carry; K compares the chunk boundaries with mpire's. *)
From Coq Require Import List ZArith QArith Bool Arith Permutation.
From Koala Require Import Model.Sampling Model.ParMap Proofs.SamplingFacts Proofs.ParMapFacts.
Import ListNotations.

(* clause "all sampling points returned are valid coupling triples (non-negative components summing to 1)",
   plain scheme, every samples >= 2, exactly over Q *)
Theorem C20_points_on_simplex_plain : forall (s : nat) (x y z : Q),
  (2 <= s)%nat -> In (x, y, z) (nonsym_triples s) ->
  (0 <= x /\ 0 <= y /\ 0 <= z /\ x + y + z == 1)%Q.
Proof. intros s x y z Hs H. exact (nonsym_points_on_simplex s (x, y, z) Hs H). Qed.
Print Assumptions C20_points_on_simplex_plain.

(* same clause, symmetric scheme, the appended centre point included *)
Theorem C20_points_on_simplex_symmetric : forall (s : nat) (x y z : Q),
  (2 <= s)%nat -> In (x, y, z) (sym_triples s) ->
  (0 <= x /\ 0 <= y /\ 0 <= z /\ x + y + z == 1)%Q.
Proof. intros s x y z Hs H. exact (sym_points_on_simplex s (x, y, z) Hs H). Qed.
Print Assumptions C20_points_on_simplex_symmetric.

(* no point is dropped or duplicated by the chunking: exact carry, every list, every number of splits *)
Theorem C20_chunks_concat : forall (A : Type) (xs : list A) (m : positive), concat (chunk_tasks xs m) = xs.
Proof. exact @chunks_concat. Qed.
Print Assumptions C20_chunks_concat.

(* ... and for whatever values the float carry arithmetic produces *)
Theorem C20_chunks_concat_any_carry : forall (A : Type) (ceil_at : nat -> Z) (xs : list A),
  concat (chunk_tasks_by ceil_at xs) = xs.
Proof. exact @chunks_by_concat. Qed.
Print Assumptions C20_chunks_concat_any_carry.

(* sorting the index-tagged results undoes EVERY completion order *)
Theorem C20_collect_any_completion_order : forall (A B : Type) (f : A -> B) (chunks : list (list A)) (delivered : list (nat * list B)),
  Permutation delivered (tagged_results f chunks) ->
  collect delivered = map f (concat chunks).
Proof. exact @collect_any_order. Qed.
Print Assumptions C20_collect_any_completion_order.

(* clause "evaluating a function over the sampling points in parallel returns, for every number of worker
   processes, the same array in the same order as evaluating it serially", for compute_phase_diagram as it is NOW
   (integer chunk_size = max(1, ceil(n / (4 n_jobs))), after fix 14cf9ed): every n_jobs >= 1, every function, every
   list of points, every pool that delivers each result exactly once in any order: the call does not raise
   (Some ...) and returns the serial result *)
Theorem C20_parallel_equals_serial : forall (A B : Type) (f : A -> B)
    (pool : (list A -> list B) -> list (nat * list A) -> list (nat * list B)),
  (forall g tasks, Permutation (pool g tasks) (map (fun t => (fst t, g (snd t))) tasks)) ->
  forall (n_jobs : positive) (xs : list A), parmap f pool n_jobs xs = Some (serial f xs).
Proof. exact @parallel_equals_serial. Qed.
Print Assumptions C20_parallel_equals_serial.

(* the same for mpire's default chunking (n_splits = 4 n_jobs) with the carry computed exactly ... *)
Theorem C20_parallel_equals_serial_default_chunking : forall (A B : Type) (f : A -> B)
    (pool : (list A -> list B) -> list (nat * list A) -> list (nat * list B)),
  (forall g tasks, Permutation (pool g tasks) (map (fun t => (fst t, g (snd t))) tasks)) ->
  forall (n_jobs : positive) (xs : list A), parmap_default f pool n_jobs xs = serial f xs.
Proof. exact @parallel_equals_serial_default. Qed.
Print Assumptions C20_parallel_equals_serial_default_chunking.

(* ... and for whatever the float carry produces *)
Theorem C20_parallel_equals_serial_any_carry : forall (A B : Type) (f : A -> B)
    (pool : (list A -> list B) -> list (nat * list A) -> list (nat * list B)),
  (forall g tasks, Permutation (pool g tasks) (map (fun t => (fst t, g (snd t))) tasks)) ->
  forall (ceil_at : nat -> Z) (xs : list A), parmap_by f pool ceil_at xs = serial f xs.
Proof. exact @parallel_equals_serial_any_carry. Qed.
Print Assumptions C20_parallel_equals_serial_any_carry.

(* the same clause with mpire's error path in the model: whenever the call returns, it returns the serial result;
   it raises (None) exactly when the number of chunks announced by get_n_chunks differs from the number produced *)
Theorem C20_parallel_equals_serial_when_it_returns : forall (A B : Type) (f : A -> B)
    (pool : (list A -> list B) -> list (nat * list A) -> list (nat * list B)),
  (forall g tasks, Permutation (pool g tasks) (map (fun t => (fst t, g (snd t))) tasks)) ->
  forall (ceil_at : nat -> Z) (predicted : nat) (xs : list A) (r : list B),
  parmap_checked f pool ceil_at predicted xs = Some r -> r = serial f xs.
Proof. exact @parmap_checked_returns_serial. Qed.
Print Assumptions C20_parallel_equals_serial_when_it_returns.

Theorem C20_parallel_raises_iff : forall (A B : Type) (f : A -> B)
    (pool : (list A -> list B) -> list (nat * list A) -> list (nat * list B))
    (ceil_at : nat -> Z) (predicted : nat) (xs : list A),
  parmap_checked f pool ceil_at predicted xs = None <-> predicted <> length (chunk_tasks_by ceil_at xs).
Proof. exact @parmap_checked_raises_iff. Qed.
Print Assumptions C20_parallel_raises_iff.

(* FINDING, fixed in /repo by 14cf9ed (the harness replays it when that fix is reverted): with mpire's DEFAULT
   chunking — the call koala made before the fix — "for every number of worker processes" is false once the float
   values are put in.  For the 49 sampling points of the plain scheme with samples = 7 and n_jobs = 11
   IEEE double arithmetic gives chunk_size = 49/44, the ceil sequence below (44 chunks) and
   get_n_chunks = ceil(49 / (49/44)) = ceil(44.00000000000001) = 45: the call raises ValueError instead of
   returning.  (That these are the float values is outside Coq; the harness recomputes them with the same float
   expressions and compares with mpire on every run.) *)
Definition ceils_49_44 : list Z :=
  [2;1;1;1;1;1;1;1;2;1;1;1;1;1;1;1;1;2;1;1;1;1;1;1;1;1;2;1;1;1;1;1;1;1;1;2;1;1;1;1;1;1;1;1]%Z.
Theorem C20_default_chunking_never_raises_refuted :
  exists (ceil_at : nat -> Z) (predicted : nat),
    ceil_at = (fun i => nth i ceils_49_44 1%Z) /\ predicted = 45%nat /\
    forall (B : Type) (f : nat -> B) pool, parmap_checked f pool ceil_at predicted (seq 0 49) = None.
Proof.
  exists (fun i => nth i ceils_49_44 1%Z), 45%nat. split; [reflexivity|]. split; [reflexivity|].
  intros B f pool. apply parmap_checked_raises_iff. vm_compute. discriminate.
Qed.
Print Assumptions C20_default_chunking_never_raises_refuted.

(* complement of the refuted statement: with the carry computed exactly the default chunking produces
   min(n, n_splits) chunks, which is what get_n_chunks = min(n, ceil(n / (n / n_splits))) is when computed exactly;
   so the ValueError is purely an effect of float rounding *)
Theorem C20_default_chunking_exact_carry_chunk_count : forall (A : Type) (xs : list A) (m : positive),
  length (chunk_tasks xs m) = Nat.min (length xs) (Pos.to_nat m).
Proof. exact @chunk_tasks_count. Qed.
Print Assumptions C20_default_chunking_exact_carry_chunk_count.

(* the final .T for vector-valued functions: data[j][i] is component j of the result of point i *)
Theorem C20_transpose_entry : forall (C : Type) (d : nat) (rows : list (list C)) (i j : nat) (r : list C) (c : C),
  (forall r, In r rows -> length r = d) ->
  nth_error rows i = Some r -> nth_error r j = Some c ->
  exists col, nth_error (transpose d rows) j = Some col /\ nth_error col i = Some c /\ length col = length rows.
Proof. exact @transpose_entry. Qed.
Print Assumptions C20_transpose_entry.

(* ------------------------------------------------------------------ non-vacuity *)
Example C20_sampling_nonvacuous :
  length (nonsym_triples 4) = 16%nat /\ length (sym_triples 4) = 8%nat /\
  forallb on_simplex (nonsym_triples 4 ++ sym_triples 4) = true /\
  existsb (fun t => let '(x, y, z) := t in Qeq_bool x (1 # 2) && Qeq_bool y (1 # 2) && Qeq_bool z 0) (nonsym_triples 4) = true.
Proof. vm_compute. repeat split; reflexivity. Qed.

(* a pool honouring the contract exists (results handed back in reversed order), the chunking is not trivial
   (7 points, n_jobs = 1: four chunks), and the parallel result is the serial one *)
Example C20_parmap_nonvacuous :
  let xs := [10; 11; 12; 13; 14; 15; 16]%nat in
  let pool := fun (g : list nat -> list nat) tasks => schedule_pool g (rev (seq 0 (length tasks))) tasks in
  koala_chunk_size 7 1 = 2%nat /\
  chunk_tasks xs 4 = [[10; 11]; [12; 13]; [14; 15]; [16]]%nat /\
  pool (computation S) (tag (chunk_tasks xs 4)) = [(3, [17]); (2, [15; 16]); (1, [13; 14]); (0, [11; 12])]%nat /\
  parmap_default S pool 1 xs = map S xs /\
  parmap S pool 1 xs = Some (map S xs).
Proof. vm_compute. repeat split; reflexivity. Qed.

Example C20_reversed_pool_honours_contract : forall (g : list nat -> list nat) tasks,
  Permutation (schedule_pool g (rev (seq 0 (length tasks))) tasks) (map (fun t => (fst t, g (snd t))) tasks).
Proof. intros. apply schedule_pool_contract. apply Permutation_sym, Permutation_rev. Qed.

(* observation (not claimed by the property): for samples = 1 (mod 3) the grid already contains (1/3, 1/3), so the
   appended centre point is a duplicate sampling point *)
Example C20_centre_duplicated_at_4 : centre_in_grid 4 = true /\ centre_in_grid 5 = false.
Proof. vm_compute. split; reflexivity. Qed.
