(* Props/C20.v — phase-diagram sampling lies on the coupling simplex; parallel map equals serial.
   Models: coq/Model/Sampling.v (exact rationals), coq/Model/ParMap.v (mpire's map on a numpy array as read
   from its source + koala's computation wrapper + the final transpose) and coq/Model/PhaseDiagram.v
   (compute_phase_diagram end to end for scalar-, vector- and matrix-valued functions; the plot transforms).

   NOT covered by a theorem (S / K only, see harness/c20.py):
     * "each accompanying triangulation has exactly one node per sampling point": the point lists HANDED TO
       matplotlib.tri.Triangulation are modelled exactly (Model/PhaseDiagram.v: skew, reflection, three rotations,
       second coordinate in units of sin(pi/3)) and C20_nodes_match / C20_plot_* are about them; what Triangulation
       (Qhull) does with the list is outside the model; node counts and node positions are checked on the
       implementation for samples 2..40 (S) and compared with the model's rationals (K);
     * sin(pi/3), cos(pi/3), tan(pi/6) as floats: the model uses cos(pi/3) = 1/2 and sqrt(3)/2 as a unit (K tolerance 1e-12);
     * float rounding of linspace / 1 - x - y (S: 4 ulp; K: implementation floats vs the model's rationals, 1 ulp);
     * that mpire's pool delivers the result of every task exactly once: hypothesis
       [pool_delivers_each_result_once] (Section variable contract), exercised on the implementation with
       n_jobs in 1..16 and skewed per-point cost;
     * mpire's float carry arithmetic for the chunk sizes: the theorems hold for EVERY sequence of ceil values
       ([..._any_carry]) and for the exact rational carry; K compares the chunk boundaries with mpire's. *)
From Coq Require Import List ZArith QArith Bool Arith Permutation Sorted.
From Koala Require Import Model.Sampling Model.ParMap Model.PhaseDiagram Proofs.SamplingFacts Proofs.ParMapFacts
  Proofs.SamplingCount Proofs.PhaseDiagramFacts.
Import ListNotations.

(* clause "all sampling points returned are valid coupling triples (non-negative components summing to 1)",
   plain scheme, every samples >= 2, exactly over Q *)
Theorem C20_points_on_simplex_plain : forall (s : nat) (x y z : Q),
  (2 <= s)%nat -> In (x, y, z) (nonsym_triples s) ->
  (0 <= x /\ 0 <= y /\ 0 <= z /\ x + y + z == 1)%Q.
Proof. intros s x y z Hs H. exact (nonsym_points_on_simplex s (x, y, z) Hs H). Qed.
Print Assumptions C20_points_on_simplex_plain.

(* same clause, symmetric scheme, the appended centre point included *)
Theorem C20_points_on_simplex_symmetric : forall (s : nat) (x y z : Q),
  (2 <= s)%nat -> In (x, y, z) (sym_triples s) ->
  (0 <= x /\ 0 <= y /\ 0 <= z /\ x + y + z == 1)%Q.
Proof. intros s x y z Hs H. exact (sym_points_on_simplex s (x, y, z) Hs H). Qed.
Print Assumptions C20_points_on_simplex_symmetric.

(* no point is dropped or duplicated by the chunking: exact carry, every list, every number of splits *)
Theorem C20_chunks_concat : forall (A : Type) (xs : list A) (m : positive), concat (chunk_tasks xs m) = xs.
Proof. exact @chunks_concat. Qed.
Print Assumptions C20_chunks_concat.

(* ... and for whatever values the float carry arithmetic produces *)
Theorem C20_chunks_concat_any_carry : forall (A : Type) (ceil_at : nat -> Z) (xs : list A),
  concat (chunk_tasks_by ceil_at xs) = xs.
Proof. exact @chunks_by_concat. Qed.
Print Assumptions C20_chunks_concat_any_carry.

(* sorting the index-tagged results undoes EVERY completion order *)
Theorem C20_collect_any_completion_order : forall (A B : Type) (f : A -> B) (chunks : list (list A)) (delivered : list (nat * list B)),
  Permutation delivered (tagged_results f chunks) ->
  collect delivered = map f (concat chunks).
Proof. exact @collect_any_order. Qed.
Print Assumptions C20_collect_any_completion_order.

(* clause "evaluating a function over the sampling points in parallel returns, for every number of worker
   processes, the same array in the same order as evaluating it serially", for compute_phase_diagram as it is NOW
   (integer chunk_size = max(1, ceil(n / (4 n_jobs))), after fix 14cf9ed): every n_jobs >= 1, every function, every
   list of points, every pool that delivers each result exactly once in any order: the call does not raise
   (Some ...) and returns the serial result *)
Theorem C20_parallel_equals_serial : forall (A B : Type) (f : A -> B)
    (pool : (list A -> list B) -> list (nat * list A) -> list (nat * list B)),
  (forall g tasks, Permutation (pool g tasks) (map (fun t => (fst t, g (snd t))) tasks)) ->
  forall (n_jobs : positive) (xs : list A), parmap f pool n_jobs xs = Some (serial f xs).
Proof. exact @parallel_equals_serial. Qed.
Print Assumptions C20_parallel_equals_serial.

(* the same for mpire's default chunking (n_splits = 4 n_jobs) with the carry computed exactly ... *)
Theorem C20_parallel_equals_serial_default_chunking : forall (A B : Type) (f : A -> B)
    (pool : (list A -> list B) -> list (nat * list A) -> list (nat * list B)),
  (forall g tasks, Permutation (pool g tasks) (map (fun t => (fst t, g (snd t))) tasks)) ->
  forall (n_jobs : positive) (xs : list A), parmap_default f pool n_jobs xs = serial f xs.
Proof. exact @parallel_equals_serial_default. Qed.
Print Assumptions C20_parallel_equals_serial_default_chunking.

(* ... and for whatever the float carry produces *)
Theorem C20_parallel_equals_serial_any_carry : forall (A B : Type) (f : A -> B)
    (pool : (list A -> list B) -> list (nat * list A) -> list (nat * list B)),
  (forall g tasks, Permutation (pool g tasks) (map (fun t => (fst t, g (snd t))) tasks)) ->
  forall (ceil_at : nat -> Z) (xs : list A), parmap_by f pool ceil_at xs = serial f xs.
Proof. exact @parallel_equals_serial_any_carry. Qed.
Print Assumptions C20_parallel_equals_serial_any_carry.

(* the same clause with mpire's error path in the model: whenever the call returns, it returns the serial result;
   it raises (None) exactly when the number of chunks announced by get_n_chunks differs from the number produced *)
Theorem C20_parallel_equals_serial_when_it_returns : forall (A B : Type) (f : A -> B)
    (pool : (list A -> list B) -> list (nat * list A) -> list (nat * list B)),
  (forall g tasks, Permutation (pool g tasks) (map (fun t => (fst t, g (snd t))) tasks)) ->
  forall (ceil_at : nat -> Z) (predicted : nat) (xs : list A) (r : list B),
  parmap_checked f pool ceil_at predicted xs = Some r -> r = serial f xs.
Proof. exact @parmap_checked_returns_serial. Qed.
Print Assumptions C20_parallel_equals_serial_when_it_returns.

Theorem C20_parallel_raises_iff : forall (A B : Type) (f : A -> B)
    (pool : (list A -> list B) -> list (nat * list A) -> list (nat * list B))
    (ceil_at : nat -> Z) (predicted : nat) (xs : list A),
  parmap_checked f pool ceil_at predicted xs = None <-> predicted <> length (chunk_tasks_by ceil_at xs).
Proof. exact @parmap_checked_raises_iff. Qed.
Print Assumptions C20_parallel_raises_iff.

(* FINDING, fixed in /repo by 14cf9ed (the harness replays it when that fix is reverted): with mpire's DEFAULT
   chunking — the call koala made before the fix — "for every number of worker processes" is false once the float
   values are put in.  For the 49 sampling points of the plain scheme with samples = 7 and n_jobs = 11
   IEEE double arithmetic gives chunk_size = 49/44, the ceil sequence below (44 chunks) and
   get_n_chunks = ceil(49 / (49/44)) = ceil(44.00000000000001) = 45: the call raises ValueError instead of
   returning.  (That these are the float values is outside Coq; the harness recomputes them with the same float
   expressions and compares with mpire on every run.) *)
Definition ceils_49_44 : list Z :=
  [2;1;1;1;1;1;1;1;2;1;1;1;1;1;1;1;1;2;1;1;1;1;1;1;1;1;2;1;1;1;1;1;1;1;1;2;1;1;1;1;1;1;1;1]%Z.
Theorem C20_default_chunking_never_raises_refuted :
  exists (ceil_at : nat -> Z) (predicted : nat),
    ceil_at = (fun i => nth i ceils_49_44 1%Z) /\ predicted = 45%nat /\
    forall (B : Type) (f : nat -> B) pool, parmap_checked f pool ceil_at predicted (seq 0 49) = None.
Proof.
  exists (fun i => nth i ceils_49_44 1%Z), 45%nat. split; [reflexivity|]. split; [reflexivity|].
  intros B f pool. apply parmap_checked_raises_iff. vm_compute. discriminate.
Qed.
Print Assumptions C20_default_chunking_never_raises_refuted.

(* complement of the refuted statement: with the carry computed exactly the default chunking produces
   min(n, n_splits) chunks, which is what get_n_chunks = min(n, ceil(n / (n / n_splits))) is when computed exactly;
   so the ValueError is purely an effect of float rounding *)
Theorem C20_default_chunking_exact_carry_chunk_count : forall (A : Type) (xs : list A) (m : positive),
  length (chunk_tasks xs m) = Nat.min (length xs) (Pos.to_nat m).
Proof. exact @chunk_tasks_count. Qed.
Print Assumptions C20_default_chunking_exact_carry_chunk_count.

(* the final .T for vector-valued functions: data[j][i] is component j of the result of point i *)
Theorem C20_transpose_entry : forall (C : Type) (d : nat) (rows : list (list C)) (i j : nat) (r : list C) (c : C),
  (forall r, In r rows -> length r = d) ->
  nth_error rows i = Some r -> nth_error r j = Some c ->
  exists col, nth_error (transpose d rows) j = Some col /\ nth_error col i = Some c /\ length col = length rows.
Proof. exact @transpose_entry. Qed.
Print Assumptions C20_transpose_entry.

(* ================================================================== compute_phase_diagram END TO END
   (Model/PhaseDiagram.v: chunk size as coded -> pool.map -> np.concatenate -> .T -> returned array) *)

(* scalar-valued function: the call returns, the array has one entry per point, entry i is f(point i) —
   every list of points, every n_jobs, every completion order *)
Theorem C20_returned_entry_scalar : forall (A C : Type)
    (pool : (list A -> list C) -> list (nat * list A) -> list (nat * list C)),
  (forall g tasks, Permutation (pool g tasks) (map (fun t => (fst t, g (snd t))) tasks)) ->
  forall (f : A -> C) (n_jobs : positive) (xs : list A),
  exists data, cpd_scalar f pool n_jobs xs = Some data /\ length data = length xs /\
    forall i x, nth_error xs i = Some x -> nth_error data i = Some (f x).
Proof. exact @cpd_scalar_entry. Qed.
Print Assumptions C20_returned_entry_scalar.

(* vector-valued function of EVERY length d: the returned array has shape (d, n) and data[j][i] = f(point i)[j] *)
Theorem C20_returned_entry_vector : forall (A C : Type)
    (pool : (list A -> list (list C)) -> list (nat * list A) -> list (nat * list (list C))),
  (forall g tasks, Permutation (pool g tasks) (map (fun t => (fst t, g (snd t))) tasks)) ->
  forall (d : nat) (f : A -> list C) (n_jobs : positive) (xs : list A),
  xs <> [] -> (forall x, In x xs -> length (f x) = d) ->
  exists data, cpd_vector f pool n_jobs xs = Some data /\ length data = d /\
    (forall col, In col data -> length col = length xs) /\
    (forall i j x c, nth_error xs i = Some x -> nth_error (f x) j = Some c ->
       exists col, nth_error data j = Some col /\ nth_error col i = Some c).
Proof. exact @cpd_vector_entry. Qed.
Print Assumptions C20_returned_entry_vector.

(* matrix-valued function (a x b, every a >= 1 and b): .T reverses ALL axes — shape (b, a, n) and
   data[k][j][i] = f(point i)[j][k] *)
Theorem C20_returned_entry_matrix : forall (A C : Type)
    (pool : (list A -> list (list (list C))) -> list (nat * list A) -> list (nat * list (list (list C)))),
  (forall g tasks, Permutation (pool g tasks) (map (fun t => (fst t, g (snd t))) tasks)) ->
  forall (a b : nat) (f : A -> list (list C)) (n_jobs : positive) (xs : list A),
  xs <> [] -> (0 < a)%nat -> (forall x, In x xs -> length (f x) = a /\ forall r, In r (f x) -> length r = b) ->
  exists data, cpd_matrix f pool n_jobs xs = Some data /\ length data = b /\
    (forall plane, In plane data -> length plane = a /\ forall col, In col plane -> length col = length xs) /\
    (forall i j k x r c, nth_error xs i = Some x -> nth_error (f x) j = Some r -> nth_error r k = Some c ->
       exists plane col, nth_error data k = Some plane /\ nth_error plane j = Some col /\ nth_error col i = Some c).
Proof. exact @cpd_matrix_entry. Qed.
Print Assumptions C20_returned_entry_matrix.

(* no point is dropped or evaluated twice: the chunks handed to the workers concatenate to the point list, no
   chunk is empty or longer than the chunk size; with the points named 0..n-1 every name is evaluated exactly
   once and nothing else is evaluated *)
Theorem C20_chunks_as_coded : forall (A : Type) (n_jobs : positive) (xs : list A),
  concat (koala_chunks n_jobs xs) = xs /\
  forall ch, In ch (koala_chunks n_jobs xs) -> (1 <= length ch <= koala_chunk_size (length xs) n_jobs)%nat.
Proof. exact @chunks_as_coded. Qed.
Print Assumptions C20_chunks_as_coded.

Theorem C20_every_point_evaluated_exactly_once : forall (n : nat) (n_jobs : positive) (i : nat),
  ((i < n)%nat -> count_occ Nat.eq_dec (evaluated_points n_jobs (seq 0 n)) i = 1%nat) /\
  ((n <= i)%nat -> count_occ Nat.eq_dec (evaluated_points n_jobs (seq 0 n)) i = 0%nat).
Proof. exact evaluated_exactly_once. Qed.
Print Assumptions C20_every_point_evaluated_exactly_once.

(* positional form: point i is evaluated by task number i div chunk_size, at offset i mod chunk_size *)
Theorem C20_chunk_of_point : forall (A : Type) (n_jobs : positive) (xs : list A) (i : nat) (x : A),
  nth_error xs i = Some x ->
  exists ch, nth_error (koala_chunks n_jobs xs) (i / koala_chunk_size (length xs) n_jobs) = Some ch /\
             nth_error ch (i mod koala_chunk_size (length xs) n_jobs) = Some x.
Proof. exact @koala_chunk_of_point. Qed.
Print Assumptions C20_chunk_of_point.

(* sampling points -> parallel map -> returned array, both schemes, with the closed-form lengths *)
Theorem C20_phase_diagram_plain : forall (C : Type)
    (pool : (list (Q * Q * Q) -> list C) -> list (nat * list (Q * Q * Q)) -> list (nat * list C)),
  (forall g tasks, Permutation (pool g tasks) (map (fun t => (fst t, g (snd t))) tasks)) ->
  forall (s : nat) (f : Q * Q * Q -> C) (n_jobs : positive), (2 <= s)%nat ->
  exists data, cpd_scalar f pool n_jobs (nonsym_triples s) = Some data /\ length data = (s * s)%nat /\
    forall i t, nth_error (nonsym_triples s) i = Some t -> nth_error data i = Some (f t).
Proof. exact @phase_diagram_plain. Qed.
Print Assumptions C20_phase_diagram_plain.

Theorem C20_phase_diagram_symmetric : forall (C : Type)
    (pool : (list (Q * Q * Q) -> list C) -> list (nat * list (Q * Q * Q)) -> list (nat * list C)),
  (forall g tasks, Permutation (pool g tasks) (map (fun t => (fst t, g (snd t))) tasks)) ->
  forall (s : nat) (f : Q * Q * Q -> C) (n_jobs : positive), (2 <= s)%nat ->
  exists data, cpd_scalar f pool n_jobs (sym_triples s) = Some data /\ length data = ((s * s + s + 1) / 3 + 1)%nat /\
    forall i t, nth_error (sym_triples s) i = Some t -> nth_error data i = Some (f t).
Proof. exact @phase_diagram_symmetric. Qed.
Print Assumptions C20_phase_diagram_symmetric.

(* ================================================================== sampling points: COUNT, ORDER, DISTINCTNESS
   for every samples >= 2 (Proofs/SamplingCount.v) *)

(* closed-form number of sampling points: samples^2 for the plain scheme (the filter xs + ys <= 1 removes
   nothing), (samples^2 + samples + 1) div 3 grid points + the appended centre for the symmetric scheme *)
Theorem C20_point_count_plain : forall s, (2 <= s)%nat -> length (nonsym_triples s) = (s * s)%nat.
Proof. exact nonsym_count. Qed.
Print Assumptions C20_point_count_plain.

Theorem C20_point_count_symmetric : forall s, (2 <= s)%nat -> length (sym_triples s) = ((s * s + s + 1) / 3 + 1)%nat.
Proof. exact sym_count. Qed.
Print Assumptions C20_point_count_symmetric.

(* the grid part of the symmetric scheme is exactly the sixth Jx <= Jy <= Jz of the grid (integer form of the
   two float-looking thresholds -grid_spacing/2) *)
Theorem C20_symmetric_grid_points_explicit : forall s p, (2 <= s)%nat ->
  (In p (filter (sym_keep s) (grid s)) <->
   exists i j, p = ((Z.of_nat i # Pos.of_nat (2 * (s - 1)))%Q, (Z.of_nat j # Pos.of_nat (2 * (s - 1)))%Q) /\
               (i <= j /\ i + 2 * j <= 2 * (s - 1))%nat).
Proof. exact sym_grid_points_explicit. Qed.
Print Assumptions C20_symmetric_grid_points_explicit.

(* order and distinctness, plain scheme: the points are strictly increasing in (Jy, Jx) — position a < b implies
   point a before point b — hence pairwise distinct as rationals *)
Theorem C20_plain_points_increasing_distinct : forall s a b p q, (a < b)%nat ->
  nth_error (nonsym_points s) a = Some p -> nth_error (nonsym_points s) b = Some q ->
  (snd p < snd q \/ (snd p == snd q /\ fst p < fst q))%Q /\ ~ (fst p == fst q /\ snd p == snd q)%Q.
Proof. exact nonsym_points_distinct. Qed.
Print Assumptions C20_plain_points_increasing_distinct.

(* symmetric scheme: the returned list is the strictly increasing (hence duplicate-free) grid part followed by the
   centre, and the centre repeats a grid point exactly when samples = 1 (mod 3) — so the symmetric sampling points
   are pairwise distinct iff samples <> 1 (mod 3) (the default samples = 10 has the duplicate) *)
Theorem C20_symmetric_points_order_and_duplicate : forall s, (2 <= s)%nat ->
  sym_points s = filter (sym_keep s) (grid s) ++ [centre] /\
  StronglySorted (fun p q => snd p < snd q \/ (snd p == snd q /\ fst p < fst q))%Q (filter (sym_keep s) (grid s)) /\
  ((exists p, In p (filter (sym_keep s) (grid s)) /\ (fst p == 1 # 3)%Q /\ (snd p == 1 # 3)%Q) <-> (s mod 3 = 1)%nat) /\
  (centre_in_grid s = true <-> (s mod 3 = 1)%nat).
Proof. exact sym_points_order_and_duplicate. Qed.
Print Assumptions C20_symmetric_points_order_and_duplicate.

(* the complete distinctness statement: the symmetric sampling points are pairwise distinct (as rationals)
   exactly when samples <> 1 (mod 3) *)
Theorem C20_symmetric_points_pairwise_distinct_iff : forall s, (2 <= s)%nat ->
  ((forall a b p q, (a < b)%nat -> nth_error (sym_points s) a = Some p -> nth_error (sym_points s) b = Some q ->
      ~ (fst p == fst q /\ snd p == snd q)%Q) <-> (s mod 3 <> 1)%nat).
Proof. exact sym_points_pairwise_distinct_iff. Qed.
Print Assumptions C20_symmetric_points_pairwise_distinct_iff.

(* why float rounding cannot flip the symmetric filter: on the grid z - y and y - x are either >= 0 or
   <= -1/(2(s-1)), and the code's threshold -grid_spacing/2 = -1/(2s) lies strictly between the two *)
Theorem C20_symmetric_filter_margin : forall s p, (2 <= s)%nat -> In p (grid s) ->
  let x := fst p in let y := snd p in let z := (1 - x - y)%Q in
  ((0 <= z - y \/ z - y <= - (1 # Pos.of_nat (2 * (s - 1)))) /\ (0 <= y - x \/ y - x <= - (1 # Pos.of_nat (2 * (s - 1)))) /\
   - (1 # Pos.of_nat (2 * (s - 1))) < - grid_spacing s / 2 /\ - grid_spacing s / 2 < 0)%Q.
Proof. exact sym_filter_margin. Qed.
Print Assumptions C20_symmetric_filter_margin.

(* ================================================================== barycentric -> cartesian (plot transforms), exact
   rationals; second cartesian coordinate in units of sin(pi/3) (Model/PhaseDiagram.v) *)

(* the skew IS the barycentric -> cartesian map with corners (1,0), (1/2, sin), (0,0), and each of the six point
   lists of the symmetric scheme is that map applied to a coordinate permutation of the triples (rotations =
   cyclic shifts, reflection = Jx <-> Jy) *)
Theorem C20_plot_transform_is_coordinate_permutation : forall (reflect : bool) (i : nat) (p : Q * Q),
  (fst (skew p) == fst (bary_to_cart (triple p)) /\ snd (skew p) == snd (bary_to_cart (triple p)))%Q /\
  (fst (plot_transform reflect i p) == fst (bary_to_cart (permute_triple reflect i (triple p))) /\
   snd (plot_transform reflect i p) == snd (bary_to_cart (permute_triple reflect i (triple p))))%Q.
Proof. exact transforms_are_coordinate_permutations. Qed.
Print Assumptions C20_plot_transform_is_coordinate_permutation.

(* every node drawn for a valid coupling triple lies in the triangle, all six transforms preserve distances
   ("six congruent images") and are injective (distinct points -> distinct nodes) *)
Theorem C20_plot_nodes_in_triangle : forall (reflect : bool) (i : nat) (p : Q * Q),
  (0 <= fst p /\ 0 <= snd p /\ 0 <= 1 - fst p - snd p /\ fst p + snd p + (1 - fst p - snd p) == 1)%Q ->
  let q := plot_transform reflect i p in
  (0 <= snd q /\ snd q * (1 # 2) <= fst q /\ fst q <= 1 - snd q * (1 # 2))%Q.
Proof. exact nodes_in_triangle. Qed.
Print Assumptions C20_plot_nodes_in_triangle.

Theorem C20_plot_transform_isometry_injective : forall (reflect : bool) (i : nat) (p q : Q * Q),
  (dist2 (plot_transform reflect i p) (plot_transform reflect i q) == dist2 (skew p) (skew q))%Q /\
  ((fst (plot_transform reflect i p) == fst (plot_transform reflect i q) /\
    snd (plot_transform reflect i p) == snd (plot_transform reflect i q))%Q -> (fst p == fst q /\ snd p == snd q)%Q).
Proof. exact transforms_isometric_injective. Qed.
Print Assumptions C20_plot_transform_isometry_injective.

(* "each accompanying triangulation has exactly one node per sampling point" for the point lists handed to
   mtri.Triangulation (what Qhull does with them stays outside): one list for the plain scheme, six for the
   symmetric scheme in the order of the two loops, each of the length of the returned triples, node k = image of point k *)
Theorem C20_nodes_match : forall s,
  (length (nonsym_nodes s) = length (nonsym_triples s) /\
   forall k p, nth_error (nonsym_points s) k = Some p ->
     nth_error (nonsym_nodes s) k = Some (skew p) /\ nth_error (nonsym_triples s) k = Some (triple p)) /\
  (sym_nodes s = map (fun ri => map (plot_transform (fst ri) (snd ri)) (sym_points s))
                     [(false, 0); (false, 1); (false, 2); (true, 0); (true, 1); (true, 2)]%nat /\
   length (sym_nodes s) = 6%nat /\
   forall nodes, In nodes (sym_nodes s) -> length nodes = length (sym_triples s)).
Proof. exact nodes_match. Qed.
Print Assumptions C20_nodes_match.

(* ------------------------------------------------------------------ non-vacuity *)
Example C20_sampling_nonvacuous :
  length (nonsym_triples 4) = 16%nat /\ length (sym_triples 4) = 8%nat /\
  forallb on_simplex (nonsym_triples 4 ++ sym_triples 4) = true /\
  existsb (fun t => let '(x, y, z) := t in Qeq_bool x (1 # 2) && Qeq_bool y (1 # 2) && Qeq_bool z 0) (nonsym_triples 4) = true.
Proof. vm_compute. repeat split; reflexivity. Qed.

(* a pool honouring the contract exists (results handed back in reversed order), the chunking is not trivial
   (7 points, n_jobs = 1: four chunks), and the parallel result is the serial one *)
Example C20_parmap_nonvacuous :
  let xs := [10; 11; 12; 13; 14; 15; 16]%nat in
  let pool := fun (g : list nat -> list nat) tasks => schedule_pool g (rev (seq 0 (length tasks))) tasks in
  koala_chunk_size 7 1 = 2%nat /\
  chunk_tasks xs 4 = [[10; 11]; [12; 13]; [14; 15]; [16]]%nat /\
  pool (computation S) (tag (chunk_tasks xs 4)) = [(3, [17]); (2, [15; 16]); (1, [13; 14]); (0, [11; 12])]%nat /\
  parmap_default S pool 1 xs = map S xs /\
  parmap S pool 1 xs = Some (map S xs).
Proof. vm_compute. repeat split; reflexivity. Qed.

Example C20_reversed_pool_honours_contract : forall (g : list nat -> list nat) tasks,
  Permutation (schedule_pool g (rev (seq 0 (length tasks))) tasks) (map (fun t => (fst t, g (snd t))) tasks).
Proof. intros. apply schedule_pool_contract. apply Permutation_sym, Permutation_rev. Qed.

(* observation (not claimed by the property): for samples = 1 (mod 3) the grid already contains (1/3, 1/3), so the
   appended centre point is a duplicate sampling point *)
Example C20_centre_duplicated_at_4 : centre_in_grid 4 = true /\ centre_in_grid 5 = false.
Proof. vm_compute. split; reflexivity. Qed.

(* the new hypotheses are inhabited and the closed forms are what the model computes *)
Example C20_counts_nonvacuous :
  map (fun s => length (sym_triples s)) [2; 3; 4; 5; 10; 20]%nat = [3; 5; 8; 11; 38; 141]%nat /\
  map (fun s => ((s * s + s + 1) / 3 + 1)%nat) [2; 3; 4; 5; 10; 20]%nat = [3; 5; 8; 11; 38; 141]%nat.
Proof. vm_compute. split; reflexivity. Qed.

Example C20_end_to_end_nonvacuous :
  let pool := fun (g : list nat -> list (list nat)) tasks => schedule_pool g (rev (seq 0 (length tasks))) tasks in
  cpd_vector (fun x => [x; 10 * x; 7]%nat) pool 2 [1; 2; 3; 4; 5; 6; 7; 8; 9]%nat
    = Some [[1; 2; 3; 4; 5; 6; 7; 8; 9]; [10; 20; 30; 40; 50; 60; 70; 80; 90]; [7; 7; 7; 7; 7; 7; 7; 7; 7]]%nat /\
  koala_chunks 2 [1; 2; 3; 4; 5; 6; 7; 8; 9]%nat = [[1; 2]; [3; 4]; [5; 6]; [7; 8]; [9]]%nat /\
  cpd_matrix (fun x => [[x; 2 * x; 3 * x]; [0; 1; x]]%nat) (fun g tasks => schedule_pool g (rev (seq 0 (length tasks))) tasks) 1 [1; 2]%nat
    = Some [[[1; 2]; [0; 0]]; [[2; 4]; [1; 1]]; [[3; 6]; [1; 2]]]%nat.
Proof. vm_compute. repeat split; reflexivity. Qed.

Example C20_plot_transform_nonvacuous :
  Qeq_bool (fst (plot_transform false 1 ((1 # 2)%Q, 0%Q))) (1 # 4)%Q && Qeq_bool (snd (plot_transform false 1 ((1 # 2)%Q, 0%Q))) (1 # 2)%Q = true /\
  on_simplex (triple ((1 # 2)%Q, 0%Q)) = true.
Proof. vm_compute. split; reflexivity. Qed.
