(* Props/C06.v — the flux-sector solver reaches every target sector up to the parity obstruction.
   Only the property theorems; proofs in Proofs/FluxSolverFacts.v, ChainFlipFacts.v, AnsatzFacts.v.

   NOT covered by a theorem here (S/K only, see harness/c06.py): that the implementation's float A* path search
   meets the path contract (checked on every run on the captured paths; proved for the A* MODEL:
   C06_astar_oracle_contract; the greedy pairing is modelled as coded and PROVED to meet the pairing contract
   for every admissible choice oracle: C06_greedy_pairing_ok, C06_solver_contract_greedy, at the end of this file), non-mutation of the arguments (the model is functional; observed by fingerprints), dtype of the
   result, make_amorphous (Voronoi + SAT colouring + RNG: shell) beyond the ansatz table. *)
From Coq Require Import List ZArith Bool Arith.
From Koala Require Import Model.AStar Model.FluxSolver Gen.AnsatzGen
     Proofs.AStarFacts Proofs.ChainFlipFacts Proofs.FluxSolverFacts Proofs.AnsatzFacts Proofs.GreedyPairingFacts.
Import ListNotations.

(* ---- clause "any target, any guess ... bonds in {-1,+1} whose fluxes equal the target on every plaquette when the
   number of plaquettes that must change is even, and on all but exactly one when it is odd; it never raises".
   ujk_from_fluxes / fluxes_from_ujk.  For every (plaquettes, adjacent_plaquettes) pair of tables that is
   well-formed (fs_wf: each plaquette contains an edge as often as it is listed as a side of it, entries in range,
   directions +-1), every target and guess in {-1,+1}, EVERY pairing function that returns a perfect matching of the
   defect list minus its last element when odd, and EVERY path oracle returning a valid simple chain between two
   distinct plaquettes (this presupposes a connected plaquette graph):
   the solver returns FS_Ok u (so neither ValueError branch nor a PathFindingError is reachable), u in {-1,+1}^E,
   and with k = #{p | flux(guess) p <> target p}:  k even -> flux u = target;  k odd -> they differ on exactly one plaquette. *)
Theorem C06_solver_contract :
  forall (P : list fs_plaq) (ep : list (option nat * option nat))
         (pairing : list nat -> list (nat * nat)) (path : nat -> nat -> option (list nat * list nat))
         (target guess : list Z),
    fs_wf P ep = true ->
    (forall defects, NoDup defects -> fs_pairing_ok defects (pairing defects) = true) ->
    (forall a b, (a < length P)%nat -> (b < length P)%nat -> a <> b -> fs_path_ok ep a b (path a b) = true) ->
    length target = length P -> fs_pm1 target = true ->
    length guess = length ep -> fs_pm1 guess = true ->
    exists u, fs_solve (fs_fluxes_ujk P) ep pairing path target guess = FS_Ok u
      /\ length u = length ep /\ fs_pm1 u = true
      /\ (Nat.even (ndiff (fs_fluxes_ujk P guess) target) = true -> fs_fluxes_ujk P u = target)
      /\ (Nat.even (ndiff (fs_fluxes_ujk P guess) target) = false -> ndiff (fs_fluxes_ujk P u) target = 1%nat).
Proof. exact fs_solver_contract_ujk. Qed.
Print Assumptions C06_solver_contract.

(* ---- clause "the deprecated solver/flux pair obeys the same contract with its own flux convention"
   find_flux_sector / fluxes_from_bonds (sign table per n_sides mod 4) *)
Theorem C06_solver_deprecated_contract :
  forall (P : list fs_plaq) (ep : list (option nat * option nat))
         (pairing : list nat -> list (nat * nat)) (path : nat -> nat -> option (list nat * list nat))
         (target guess : list Z),
    fs_wf P ep = true ->
    (forall defects, NoDup defects -> fs_pairing_ok defects (pairing defects) = true) ->
    (forall a b, (a < length P)%nat -> (b < length P)%nat -> a <> b -> fs_path_ok ep a b (path a b) = true) ->
    length target = length P -> fs_pm1 target = true ->
    length guess = length ep -> fs_pm1 guess = true ->
    exists u, fs_solve (fs_fluxes_bonds P) ep pairing path target guess = FS_Ok u
      /\ length u = length ep /\ fs_pm1 u = true
      /\ (Nat.even (ndiff (fs_fluxes_bonds P guess) target) = true -> fs_fluxes_bonds P u = target)
      /\ (Nat.even (ndiff (fs_fluxes_bonds P guess) target) = false -> ndiff (fs_fluxes_bonds P u) target = 1%nat).
Proof. exact fs_solver_contract_bonds. Qed.
Print Assumptions C06_solver_deprecated_contract.

(* ---- ingredient: single_flip — negating bond e multiplies the flux of p by (-1)^(occurrences of e in p) *)
Theorem C06_single_flip :
  forall (f : Z -> Z -> Z), (forall x d, f (- x)%Z d = (- f x d)%Z) ->
  forall e u p, fs_gprod f (fs_neg_at e u) p = (fs_sgn (fs_count_edge p e) * fs_gprod f u p)%Z.
Proof. exact fs_single_flip. Qed.
Print Assumptions C06_single_flip.

(* ---- the contracts are satisfiable: pairing consecutive defects meets the pairing contract on every list;
   the A* model of C11 meets the path contract whenever it returns a path and its adjacency lists agree with
   edges.adjacent_plaquettes *)
Theorem C06_pairing_contract_satisfiable :
  forall defects, NoDup defects -> fs_pairing_ok defects (fs_pair_consec defects) = true.
Proof. exact fs_pair_consec_ok. Qed.
Print Assumptions C06_pairing_contract_satisfiable.

Theorem C06_astar_meets_path_contract :
  forall adj h ep a b early maxits ns es mg,
    (forall x y e, In (y, e) (adj x) -> (0 <= h x y)%Z /\ (x <> y -> (0 < h x y)%Z)) ->
    (forall x e y, In (x, e) (adj y) -> as_joined ep e x y = true) ->
    as_path adj h a b early maxits = AS_Path ns es mg ->
    fs_path_ok ep a b (Some (ns, es)) = true.
Proof. exact as_path_meets_contract. Qed.
Print Assumptions C06_astar_meets_path_contract.

(* ---- the path-oracle hypothesis is discharged by the A* model itself: on a connected plaquette graph (a walk exists
   between any two plaquettes), with adjacency lists that agree with edges.adjacent_plaquettes and a metric-like cost
   (consistent towards every goal), the model of  path_between_plaquettes(l, a, b, maxits = l.n_edges)  (early stopping,
   budget = number of edges) returns a path for every pair of distinct plaquettes and that path meets the contract:
   no PathFindingError can reach the solver (uses C11_astar_budget) *)
Theorem C06_astar_oracle_contract :
  forall (adj : nat -> list (nat * nat)) (h : nat -> nat -> Z) (ep : list (option nat * option nat)) (nF : nat),
    (forall x y e, In (y, e) (adj x) -> (0 <= h x y)%Z /\ (x <> y -> (0 < h x y)%Z)) ->
    (forall g x y e, In (y, e) (adj x) -> (h x g <= h x y + h y g)%Z) ->
    (forall x g, (0 <= h x g)%Z) ->
    (forall x y e, In (y, e) (adj x) -> as_joined ep e y x = true) ->
    (forall a b, (a < nF)%nat -> (b < nF)%nat -> exists ws es, as_chain adj ws es /\ hd_error ws = Some b /\ last ws b = a) ->
    forall a b, (a < nF)%nat -> (b < nF)%nat -> a <> b -> fs_path_ok ep a b (as_oracle adj h (length ep) a b) = true.
Proof. exact as_oracle_contract. Qed.
Print Assumptions C06_astar_oracle_contract.

(* ---- clause "bonds realising its ground-state ansatz": the table, over the ground_state_ansatz GENERATED from
   example_graphs.py: sign_real[n mod 4] * ground_state_ansatz(n) = -1 for every n >= 3, i.e. the ansatz asks for
   prod(u d) = -1 around every plaquette whatever its number of sides *)
Theorem C06_ansatz_table :
  forall n : nat, (3 <= n)%nat -> (fs_sign_real n * ground_state_ansatz (Z.of_nat n) = -1)%Z.
Proof. exact ansatz_table. Qed.
Print Assumptions C06_ansatz_table.

(* ---- non-vacuity: two triangles sharing edge 2; hypotheses hold; even case reaches the target, odd case leaves one *)
Example C06_solver_nonvacuous :
  let P := [[(0%nat, 1%Z); (1%nat, 1%Z); (2%nat, 1%Z)]; [(2%nat, (-1)%Z); (3%nat, 1%Z); (4%nat, 1%Z)]] in
  let ep := [(Some 0, None); (Some 0, None); (Some 0, Some 1); (Some 1, None); (Some 1, None)]%nat in
  let path := (fun a b : nat => Some ([b; a], [2%nat])) in
  fs_wf P ep = true /\
  (forall defects, NoDup defects -> fs_pairing_ok defects (fs_pair_consec defects) = true) /\
  (forall a b, (a < length P)%nat -> (b < length P)%nat -> a <> b -> fs_path_ok ep a b (path a b) = true) /\
  fs_solve (fs_fluxes_ujk P) ep fs_pair_consec path [1; -1]%Z [1; 1; 1; 1; 1]%Z = FS_Ok [1; 1; -1; 1; 1]%Z /\
  fs_solve (fs_fluxes_ujk P) ep fs_pair_consec path [1; 1]%Z [1; 1; 1; 1; 1]%Z = FS_Ok [1; 1; 1; 1; 1]%Z.
Proof. exact fs_contract_example. Qed.

(* ==== the pairing hypothesis discharged: koala's OWN greedy pairing (_greedy_plaquette_pairing, flux_finder.py:141-154, modelled
   as coded: odd array loses its last entry, set(), while-loop of  cur = pop(); closest = min(...); remove(closest)).
   The two implementation-defined choices are oracles constrained ONLY by what Python guarantees of them:
   set.pop() returns a member of the non-empty set, min(...) over to_pair returns (the second component of) a member.
   This supersedes the header remark about the greedy pairing: what is left to S/K for the pairing is only that the Python
   function IS this model (harness/c06.py check_greedy: the model replaying the implementation's pop/min choices reproduces
   its pairs exactly, on every solver call). ==== *)

(* ---- for every such oracle pair and every duplicate-free defect list the run ends normally (min() is never called on an
   empty sequence; fuel = size of the set suffices) ... *)
Theorem C06_greedy_pairing_no_error :
  forall (pick : list nat -> nat) (nearest : nat -> list nat -> nat),
    (forall l, l <> [] -> In (pick l) l) ->
    (forall c l, l <> [] -> In (nearest c l) l) ->
    forall defects, NoDup defects ->
      fs_greedy_run pick nearest defects = FG_Pairs (greedy_pairing pick nearest defects).
Proof. exact greedy_pairing_no_error. Qed.
Print Assumptions C06_greedy_pairing_no_error.

(* ---- ... and its pairs are a perfect matching of the defects minus the last one when odd: the pairing contract *)
Theorem C06_greedy_pairing_ok :
  forall (pick : list nat -> nat) (nearest : nat -> list nat -> nat),
    (forall l, l <> [] -> In (pick l) l) ->
    (forall c l, l <> [] -> In (nearest c l) l) ->
    forall defects, NoDup defects ->
      fs_pairing_ok defects (greedy_pairing pick nearest defects) = true.
Proof. exact greedy_pairing_ok. Qed.
Print Assumptions C06_greedy_pairing_ok.

(* ---- clause "any target, any guess ... never raises" with NO hypothesis left about the pairing: the solver contract of
   C06_solver_contract with  pairing := greedy_pairing pick nearest,  for all admissible oracles *)
Theorem C06_solver_contract_greedy :
  forall (P : list fs_plaq) (ep : list (option nat * option nat))
         (pick : list nat -> nat) (nearest : nat -> list nat -> nat)
         (path : nat -> nat -> option (list nat * list nat))
         (target guess : list Z),
    fs_wf P ep = true ->
    (forall l, l <> [] -> In (pick l) l) ->
    (forall c l, l <> [] -> In (nearest c l) l) ->
    (forall a b, (a < length P)%nat -> (b < length P)%nat -> a <> b -> fs_path_ok ep a b (path a b) = true) ->
    length target = length P -> fs_pm1 target = true ->
    length guess = length ep -> fs_pm1 guess = true ->
    exists u, fs_solve (fs_fluxes_ujk P) ep (greedy_pairing pick nearest) path target guess = FS_Ok u
      /\ length u = length ep /\ fs_pm1 u = true
      /\ (Nat.even (ndiff (fs_fluxes_ujk P guess) target) = true -> fs_fluxes_ujk P u = target)
      /\ (Nat.even (ndiff (fs_fluxes_ujk P guess) target) = false -> ndiff (fs_fluxes_ujk P u) target = 1%nat).
Proof. exact fs_solver_contract_greedy_ujk. Qed.
Print Assumptions C06_solver_contract_greedy.

(* ---- the same for the deprecated pair find_flux_sector / fluxes_from_bonds *)
Theorem C06_solver_deprecated_contract_greedy :
  forall (P : list fs_plaq) (ep : list (option nat * option nat))
         (pick : list nat -> nat) (nearest : nat -> list nat -> nat)
         (path : nat -> nat -> option (list nat * list nat))
         (target guess : list Z),
    fs_wf P ep = true ->
    (forall l, l <> [] -> In (pick l) l) ->
    (forall c l, l <> [] -> In (nearest c l) l) ->
    (forall a b, (a < length P)%nat -> (b < length P)%nat -> a <> b -> fs_path_ok ep a b (path a b) = true) ->
    length target = length P -> fs_pm1 target = true ->
    length guess = length ep -> fs_pm1 guess = true ->
    exists u, fs_solve (fs_fluxes_bonds P) ep (greedy_pairing pick nearest) path target guess = FS_Ok u
      /\ length u = length ep /\ fs_pm1 u = true
      /\ (Nat.even (ndiff (fs_fluxes_bonds P guess) target) = true -> fs_fluxes_bonds P u = target)
      /\ (Nat.even (ndiff (fs_fluxes_bonds P guess) target) = false -> ndiff (fs_fluxes_bonds P u) target = 1%nat).
Proof. exact fs_solver_contract_greedy_bonds. Qed.
Print Assumptions C06_solver_deprecated_contract_greedy.

(* ---- the oracles used by the correspondence run (replaying the pairs captured from the implementation) are admissible
   whatever was captured, so every replayed run is an instance of C06_greedy_pairing_ok *)
Theorem C06_replay_oracles_admissible :
  forall caps, (forall l, l <> [] -> In (fs_replay_pick caps l) l)
            /\ (forall c l, l <> [] -> In (fs_replay_nearest caps c l) l).
Proof. exact fs_replay_oracles_mem. Qed.
Print Assumptions C06_replay_oracles_admissible.

(* ---- non-vacuity: admissible oracles exist; five defects (odd: the last one, 4, is dropped); replaying 9->7 then 3->1 the
   model returns exactly those pairs; other oracles (pop the last, take the head) give another matching of the same set *)
Example C06_greedy_nonvacuous :
  let caps := [(9, 7); (3, 1)]%nat in
  let pick := fs_replay_pick caps in
  let nearest := fs_replay_nearest caps in
  (forall l, l <> [] -> In (pick l) l) /\ (forall c l, l <> [] -> In (nearest c l) l) /\
  NoDup [3; 7; 1; 9; 4]%nat /\
  fs_greedy_run pick nearest [3; 7; 1; 9; 4]%nat = FG_Pairs caps /\
  greedy_pairing pick nearest [3; 7; 1; 9; 4]%nat = caps /\
  greedy_pairing (fun l => last l 0%nat) (fun _ l => hd 0%nat l) [3; 7; 1; 9; 4]%nat = [(9, 3); (1, 7)]%nat.
Proof. exact greedy_example. Qed.
