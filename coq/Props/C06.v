(* Props/C06.v — the flux-sector solver reaches every target sector up to the parity obstruction.
   Only the property theorems; proofs in Proofs/FluxSolverFacts.v, ChainFlipFacts.v, AnsatzFacts.v, GreedyPairingFacts.v,
   FluxSolverLatticeFacts.v, FluxSolverOpen.v, FluxSolverLatticeExamples.v.

   Three layers:
   1. tables level (C06_solver_contract ...): any well-formed (plaquettes, adjacent_plaquettes) tables, pairing and path search as
      oracles with contracts; the greedy pairing is then modelled as coded and its contract PROVED (C06_solver_contract_greedy);
   2. END TO END on the shared lattice model (C06_lattice_solver_contract, second half of this file): tables, adjacency lists, A* paths
      (budget n_edges) and pairing are all computed by models of the koala functions from a lattice L; A* completeness on the lattice is
      proved (C06_lattice_astar_complete, C06_lattice_astar_finds_iff_exists); no oracle hypothesis is left, only the two
      implementation-defined choices of the pairing (any member) and the cost function (metric-like);
   3. which sectors exist at all: closed lattice = exactly the parity-compatible ones, lattice with a boundary = all of them
      (C06_closed_reachable_iff_parity, C06_open_all_sectors_reachable, C06_open_completion).

   NOT covered by a theorem here (S/K only, see harness/c06.py): that the Python functions ARE these models (correspondence runs:
   captured paths/pairs replayed; e2e run with the A* model's own paths), float rounding of the cost function (hypothesis fsl_cost_ok
   is evaluated per run), non-mutation of the arguments (the model is functional; observed by fingerprints), dtype of the
   result, make_amorphous (Voronoi + SAT colouring + RNG: shell) beyond the ansatz table. *)
From Coq Require Import List ZArith Bool Arith.
From Koala Require Import Model.Lattice Model.AStar Model.Flux Model.SpanTree Model.FluxSolver Model.FluxSolverLattice Gen.AnsatzGen
     Proofs.AStarFacts Proofs.ChainFlipFacts Proofs.FluxSolverFacts Proofs.AnsatzFacts Proofs.GreedyPairingFacts
     Proofs.FluxFacts Proofs.SpanTreeFacts Proofs.SpanTreeComplete Proofs.FluxSolverLatticeFacts Proofs.FluxSolverOpen Proofs.FluxSolverLatticeExamples.
Import ListNotations.

(* ---- clause "any target, any guess ... bonds in {-1,+1} whose fluxes equal the target on every plaquette when the
   number of plaquettes that must change is even, and on all but exactly one when it is odd; it never raises".
   ujk_from_fluxes / fluxes_from_ujk.  For every (plaquettes, adjacent_plaquettes) pair of tables that is
   well-formed (fs_wf: each plaquette contains an edge as often as it is listed as a side of it, entries in range,
   directions +-1), every target and guess in {-1,+1}, EVERY pairing function that returns a perfect matching of the
   defect list minus its last element when odd, and EVERY path oracle returning a valid simple chain between two
   distinct plaquettes (this presupposes a connected plaquette graph):
   the solver returns FS_Ok u (so neither ValueError branch nor a PathFindingError is reachable), u in {-1,+1}^E,
   and with k = #{p | flux(guess) p <> target p}:  k even -> flux u = target;  k odd -> they differ on exactly one plaquette. *)
Theorem C06_solver_contract :
  forall (P : list fs_plaq) (ep : list (option nat * option nat))
         (pairing : list nat -> list (nat * nat)) (path : nat -> nat -> option (list nat * list nat))
         (target guess : list Z),
    fs_wf P ep = true ->
    (forall defects, NoDup defects -> fs_pairing_ok defects (pairing defects) = true) ->
    (forall a b, (a < length P)%nat -> (b < length P)%nat -> a <> b -> fs_path_ok ep a b (path a b) = true) ->
    length target = length P -> fs_pm1 target = true ->
    length guess = length ep -> fs_pm1 guess = true ->
    exists u, fs_solve (fs_fluxes_ujk P) ep pairing path target guess = FS_Ok u
      /\ length u = length ep /\ fs_pm1 u = true
      /\ (Nat.even (ndiff (fs_fluxes_ujk P guess) target) = true -> fs_fluxes_ujk P u = target)
      /\ (Nat.even (ndiff (fs_fluxes_ujk P guess) target) = false -> ndiff (fs_fluxes_ujk P u) target = 1%nat).
Proof. exact fs_solver_contract_ujk. Qed.
Print Assumptions C06_solver_contract.

(* ---- clause "the deprecated solver/flux pair obeys the same contract with its own flux convention"
   find_flux_sector / fluxes_from_bonds (sign table per n_sides mod 4) *)
Theorem C06_solver_deprecated_contract :
  forall (P : list fs_plaq) (ep : list (option nat * option nat))
         (pairing : list nat -> list (nat * nat)) (path : nat -> nat -> option (list nat * list nat))
         (target guess : list Z),
    fs_wf P ep = true ->
    (forall defects, NoDup defects -> fs_pairing_ok defects (pairing defects) = true) ->
    (forall a b, (a < length P)%nat -> (b < length P)%nat -> a <> b -> fs_path_ok ep a b (path a b) = true) ->
    length target = length P -> fs_pm1 target = true ->
    length guess = length ep -> fs_pm1 guess = true ->
    exists u, fs_solve (fs_fluxes_bonds P) ep pairing path target guess = FS_Ok u
      /\ length u = length ep /\ fs_pm1 u = true
      /\ (Nat.even (ndiff (fs_fluxes_bonds P guess) target) = true -> fs_fluxes_bonds P u = target)
      /\ (Nat.even (ndiff (fs_fluxes_bonds P guess) target) = false -> ndiff (fs_fluxes_bonds P u) target = 1%nat).
Proof. exact fs_solver_contract_bonds. Qed.
Print Assumptions C06_solver_deprecated_contract.

(* ---- ingredient: single_flip — negating bond e multiplies the flux of p by (-1)^(occurrences of e in p) *)
Theorem C06_single_flip :
  forall (f : Z -> Z -> Z), (forall x d, f (- x)%Z d = (- f x d)%Z) ->
  forall e u p, fs_gprod f (fs_neg_at e u) p = (fs_sgn (fs_count_edge p e) * fs_gprod f u p)%Z.
Proof. exact fs_single_flip. Qed.
Print Assumptions C06_single_flip.

(* ---- the contracts are satisfiable: pairing consecutive defects meets the pairing contract on every list;
   the A* model of C11 meets the path contract whenever it returns a path and its adjacency lists agree with
   edges.adjacent_plaquettes *)
Theorem C06_pairing_contract_satisfiable :
  forall defects, NoDup defects -> fs_pairing_ok defects (fs_pair_consec defects) = true.
Proof. exact fs_pair_consec_ok. Qed.
Print Assumptions C06_pairing_contract_satisfiable.

Theorem C06_astar_meets_path_contract :
  forall adj h ep a b early maxits ns es mg,
    (forall x y e, In (y, e) (adj x) -> (0 <= h x y)%Z /\ (x <> y -> (0 < h x y)%Z)) ->
    (forall x e y, In (x, e) (adj y) -> as_joined ep e x y = true) ->
    as_path adj h a b early maxits = AS_Path ns es mg ->
    fs_path_ok ep a b (Some (ns, es)) = true.
Proof. exact as_path_meets_contract. Qed.
Print Assumptions C06_astar_meets_path_contract.

(* ---- the path-oracle hypothesis is discharged by the A* model itself: on a connected plaquette graph (a walk exists
   between any two plaquettes), with adjacency lists that agree with edges.adjacent_plaquettes and a metric-like cost
   (consistent towards every goal), the model of  path_between_plaquettes(l, a, b, maxits = l.n_edges)  (early stopping,
   budget = number of edges) returns a path for every pair of distinct plaquettes and that path meets the contract:
   no PathFindingError can reach the solver (uses C11_astar_budget) *)
Theorem C06_astar_oracle_contract :
  forall (adj : nat -> list (nat * nat)) (h : nat -> nat -> Z) (ep : list (option nat * option nat)) (nF : nat),
    (forall x y e, In (y, e) (adj x) -> (0 <= h x y)%Z /\ (x <> y -> (0 < h x y)%Z)) ->
    (forall g x y e, In (y, e) (adj x) -> (h x g <= h x y + h y g)%Z) ->
    (forall x g, (0 <= h x g)%Z) ->
    (forall x y e, In (y, e) (adj x) -> as_joined ep e y x = true) ->
    (forall a b, (a < nF)%nat -> (b < nF)%nat -> exists ws es, as_chain adj ws es /\ hd_error ws = Some b /\ last ws b = a) ->
    forall a b, (a < nF)%nat -> (b < nF)%nat -> a <> b -> fs_path_ok ep a b (as_oracle adj h (length ep) a b) = true.
Proof. exact as_oracle_contract. Qed.
Print Assumptions C06_astar_oracle_contract.

(* ---- clause "bonds realising its ground-state ansatz": the table, over the ground_state_ansatz GENERATED from
   example_graphs.py: sign_real[n mod 4] * ground_state_ansatz(n) = -1 for every n >= 3, i.e. the ansatz asks for
   prod(u d) = -1 around every plaquette whatever its number of sides *)
Theorem C06_ansatz_table :
  forall n : nat, (3 <= n)%nat -> (fs_sign_real n * ground_state_ansatz (Z.of_nat n) = -1)%Z.
Proof. exact ansatz_table. Qed.
Print Assumptions C06_ansatz_table.

(* ---- non-vacuity: two triangles sharing edge 2; hypotheses hold; even case reaches the target, odd case leaves one *)
Example C06_solver_nonvacuous :
  let P := [[(0%nat, 1%Z); (1%nat, 1%Z); (2%nat, 1%Z)]; [(2%nat, (-1)%Z); (3%nat, 1%Z); (4%nat, 1%Z)]] in
  let ep := [(Some 0, None); (Some 0, None); (Some 0, Some 1); (Some 1, None); (Some 1, None)]%nat in
  let path := (fun a b : nat => Some ([b; a], [2%nat])) in
  fs_wf P ep = true /\
  (forall defects, NoDup defects -> fs_pairing_ok defects (fs_pair_consec defects) = true) /\
  (forall a b, (a < length P)%nat -> (b < length P)%nat -> a <> b -> fs_path_ok ep a b (path a b) = true) /\
  fs_solve (fs_fluxes_ujk P) ep fs_pair_consec path [1; -1]%Z [1; 1; 1; 1; 1]%Z = FS_Ok [1; 1; -1; 1; 1]%Z /\
  fs_solve (fs_fluxes_ujk P) ep fs_pair_consec path [1; 1]%Z [1; 1; 1; 1; 1]%Z = FS_Ok [1; 1; 1; 1; 1]%Z.
Proof. exact fs_contract_example. Qed.

(* ==== the pairing hypothesis discharged: koala's OWN greedy pairing (_greedy_plaquette_pairing, flux_finder.py:141-154, modelled
   as coded: odd array loses its last entry, set(), while-loop of  cur = pop(); closest = min(...); remove(closest)).
   The two implementation-defined choices are oracles constrained ONLY by what Python guarantees of them:
   set.pop() returns a member of the non-empty set, min(...) over to_pair returns (the second component of) a member.
   This supersedes the header remark about the greedy pairing: what is left to S/K for the pairing is only that the Python
   function IS this model (harness/c06.py check_greedy: the model replaying the implementation's pop/min choices reproduces
   its pairs exactly, on every solver call). ==== *)

(* ---- for every such oracle pair and every duplicate-free defect list the run ends normally (min() is never called on an
   empty sequence; fuel = size of the set suffices) ... *)
Theorem C06_greedy_pairing_no_error :
  forall (pick : list nat -> nat) (nearest : nat -> list nat -> nat),
    (forall l, l <> [] -> In (pick l) l) ->
    (forall c l, l <> [] -> In (nearest c l) l) ->
    forall defects, NoDup defects ->
      fs_greedy_run pick nearest defects = FG_Pairs (greedy_pairing pick nearest defects).
Proof. exact greedy_pairing_no_error. Qed.
Print Assumptions C06_greedy_pairing_no_error.

(* ---- ... and its pairs are a perfect matching of the defects minus the last one when odd: the pairing contract *)
Theorem C06_greedy_pairing_ok :
  forall (pick : list nat -> nat) (nearest : nat -> list nat -> nat),
    (forall l, l <> [] -> In (pick l) l) ->
    (forall c l, l <> [] -> In (nearest c l) l) ->
    forall defects, NoDup defects ->
      fs_pairing_ok defects (greedy_pairing pick nearest defects) = true.
Proof. exact greedy_pairing_ok. Qed.
Print Assumptions C06_greedy_pairing_ok.

(* ---- clause "any target, any guess ... never raises" with NO hypothesis left about the pairing: the solver contract of
   C06_solver_contract with  pairing := greedy_pairing pick nearest,  for all admissible oracles *)
Theorem C06_solver_contract_greedy :
  forall (P : list fs_plaq) (ep : list (option nat * option nat))
         (pick : list nat -> nat) (nearest : nat -> list nat -> nat)
         (path : nat -> nat -> option (list nat * list nat))
         (target guess : list Z),
    fs_wf P ep = true ->
    (forall l, l <> [] -> In (pick l) l) ->
    (forall c l, l <> [] -> In (nearest c l) l) ->
    (forall a b, (a < length P)%nat -> (b < length P)%nat -> a <> b -> fs_path_ok ep a b (path a b) = true) ->
    length target = length P -> fs_pm1 target = true ->
    length guess = length ep -> fs_pm1 guess = true ->
    exists u, fs_solve (fs_fluxes_ujk P) ep (greedy_pairing pick nearest) path target guess = FS_Ok u
      /\ length u = length ep /\ fs_pm1 u = true
      /\ (Nat.even (ndiff (fs_fluxes_ujk P guess) target) = true -> fs_fluxes_ujk P u = target)
      /\ (Nat.even (ndiff (fs_fluxes_ujk P guess) target) = false -> ndiff (fs_fluxes_ujk P u) target = 1%nat).
Proof. exact fs_solver_contract_greedy_ujk. Qed.
Print Assumptions C06_solver_contract_greedy.

(* ---- the same for the deprecated pair find_flux_sector / fluxes_from_bonds *)
Theorem C06_solver_deprecated_contract_greedy :
  forall (P : list fs_plaq) (ep : list (option nat * option nat))
         (pick : list nat -> nat) (nearest : nat -> list nat -> nat)
         (path : nat -> nat -> option (list nat * list nat))
         (target guess : list Z),
    fs_wf P ep = true ->
    (forall l, l <> [] -> In (pick l) l) ->
    (forall c l, l <> [] -> In (nearest c l) l) ->
    (forall a b, (a < length P)%nat -> (b < length P)%nat -> a <> b -> fs_path_ok ep a b (path a b) = true) ->
    length target = length P -> fs_pm1 target = true ->
    length guess = length ep -> fs_pm1 guess = true ->
    exists u, fs_solve (fs_fluxes_bonds P) ep (greedy_pairing pick nearest) path target guess = FS_Ok u
      /\ length u = length ep /\ fs_pm1 u = true
      /\ (Nat.even (ndiff (fs_fluxes_bonds P guess) target) = true -> fs_fluxes_bonds P u = target)
      /\ (Nat.even (ndiff (fs_fluxes_bonds P guess) target) = false -> ndiff (fs_fluxes_bonds P u) target = 1%nat).
Proof. exact fs_solver_contract_greedy_bonds. Qed.
Print Assumptions C06_solver_deprecated_contract_greedy.

(* ---- the oracles used by the correspondence run (replaying the pairs captured from the implementation) are admissible
   whatever was captured, so every replayed run is an instance of C06_greedy_pairing_ok *)
Theorem C06_replay_oracles_admissible :
  forall caps, (forall l, l <> [] -> In (fs_replay_pick caps l) l)
            /\ (forall c l, l <> [] -> In (fs_replay_nearest caps c l) l).
Proof. exact fs_replay_oracles_mem. Qed.
Print Assumptions C06_replay_oracles_admissible.

(* ---- non-vacuity: admissible oracles exist; five defects (odd: the last one, 4, is dropped); replaying 9->7 then 3->1 the
   model returns exactly those pairs; other oracles (pop the last, take the head) give another matching of the same set *)
Example C06_greedy_nonvacuous :
  let caps := [(9, 7); (3, 1)]%nat in
  let pick := fs_replay_pick caps in
  let nearest := fs_replay_nearest caps in
  (forall l, l <> [] -> In (pick l) l) /\ (forall c l, l <> [] -> In (nearest c l) l) /\
  NoDup [3; 7; 1; 9; 4]%nat /\
  fs_greedy_run pick nearest [3; 7; 1; 9; 4]%nat = FG_Pairs caps /\
  greedy_pairing pick nearest [3; 7; 1; 9; 4]%nat = caps /\
  greedy_pairing (fun l => last l 0%nat) (fun _ l => hd 0%nat l) [3; 7; 1; 9; 4]%nat = [(9, 3); (1, 7)]%nat.
Proof. exact greedy_example. Qed.

(* ==== END TO END on the shared lattice model (Model/Lattice.v): no oracle hypothesis on paths, pairing or tables is left.
   lat_ujk_from_fluxes L h pick nearest (Model/FluxSolverLattice.v) computes everything ujk_from_fluxes reads off the lattice
   FROM L: plaquettes = find_all_plaquettes L (C01), edges.adjacent_plaquettes = edges_plaquettes (C02), the neighbour lists
   of graph_utils.adjacent_plaquettes (Model/Queries.v, C02), the paths by the A* model of pathfinding.py with early stopping and
   budget maxits = n_edges (C11), the pairing by the model of _greedy_plaquette_pairing.  What remains quantified:
   pick / nearest (CPython's set.pop order, float min: any member), and the cost function h (float centre distances), required to
   be metric-like along the adjacency lists (fsl_cost_ok: non-negative, positive between distinct neighbours, triangle inequality
   along every listed edge; any metric qualifies: C06_metric_cost_ok).
   Connectivity is C14's plaquette_graph_connected (every plaquette linked to plaquette 0 through two-sided edges); it is decided by
   the boolean fs_connected_b (C06_connected_checker_sound). ==== *)

(* ---- clause "Given any target flux sector and any initial bond guess on a lattice whose plaquettes are connected through shared
   edges, the solver returns bond variables in {-1,+1} whose fluxes equal the target on every plaquette when the number of plaquettes
   that must change is even, and on all but exactly one when it is odd; it never raises" — for EVERY well-formed lattice without
   self-loops: the run ends with FS_Ok u (no LatticeException, ValueError or PathFindingError), and the fluxes are those of
   Model/Flux.v (C05's fluxes_from_ujk) on L *)
Theorem C06_lattice_solver_contract :
  forall (L : lattice) (ps : list plaquette) (h : nat -> nat -> Z)
         (pick : list nat -> nat) (nearest : nat -> list nat -> nat) (target guess : list Z),
    wf_lattice L = true -> no_self_loops L = true -> find_all_plaquettes L = Some ps ->
    plaquette_graph_connected (edges_plaquettes L ps) (length ps) ->
    fsl_cost_ok (fsl_adj ps (edges_plaquettes L ps)) h ->
    (forall l, l <> [] -> In (pick l) l) -> (forall c l, l <> [] -> In (nearest c l) l) ->
    length target = length ps -> all_pm1 target = true ->
    length guess = Lattice.nE L -> all_pm1 guess = true ->
    exists u, lat_ujk_from_fluxes L h pick nearest target guess = Some (FS_Ok u)
      /\ length u = Lattice.nE L /\ all_pm1 u = true
      /\ (Nat.even (ndiff (fluxes_real guess ps) target) = true -> fluxes_from_ujk L u = Some target)
      /\ (Nat.even (ndiff (fluxes_real guess ps) target) = false -> ndiff (fluxes_real u ps) target = 1%nat).
Proof. exact lat_solver_contract_ujk. Qed.
Print Assumptions C06_lattice_solver_contract.

(* ---- the same for the deprecated pair find_flux_sector / fluxes_from_bonds on L *)
Theorem C06_lattice_solver_deprecated_contract :
  forall (L : lattice) (ps : list plaquette) (h : nat -> nat -> Z)
         (pick : list nat -> nat) (nearest : nat -> list nat -> nat) (target guess : list Z),
    wf_lattice L = true -> no_self_loops L = true -> find_all_plaquettes L = Some ps ->
    plaquette_graph_connected (edges_plaquettes L ps) (length ps) ->
    fsl_cost_ok (fsl_adj ps (edges_plaquettes L ps)) h ->
    (forall l, l <> [] -> In (pick l) l) -> (forall c l, l <> [] -> In (nearest c l) l) ->
    length target = length ps -> all_pm1 target = true ->
    length guess = Lattice.nE L -> all_pm1 guess = true ->
    exists u f0, lat_find_flux_sector L h pick nearest target guess = Some (FS_Ok u)
      /\ length u = Lattice.nE L /\ all_pm1 u = true
      /\ lat_fluxes_from_bonds L guess = Some f0
      /\ (Nat.even (ndiff f0 target) = true -> lat_fluxes_from_bonds L u = Some target)
      /\ (Nat.even (ndiff f0 target) = false -> exists f1, lat_fluxes_from_bonds L u = Some f1 /\ ndiff f1 target = 1%nat).
Proof. exact lat_solver_contract_bonds. Qed.
Print Assumptions C06_lattice_solver_deprecated_contract.

(* ---- ingredients of the end-to-end theorem, each a hypothesis of C06_solver_contract discharged on the lattice model:
   (a) the tables of the model are well-formed in the solver's sense (from C01's plaquettes_spec and C02's edge_sides lemma) *)
Theorem C06_lattice_tables_wf :
  forall L ps, wf_lattice L = true /\ no_self_loops L = true -> find_all_plaquettes L = Some ps ->
    fs_wf (fsl_plaqs ps) (edges_plaquettes L ps) = true.
Proof. exact fsl_wf. Qed.
Print Assumptions C06_lattice_tables_wf.

(* (b) the two flux models (C05's on plaquette records, C06's on (edge, +-1) lists) coincide *)
Theorem C06_lattice_fluxes_agree :
  forall u ps, fs_fluxes_ujk (fsl_plaqs ps) u = fluxes_real u ps.
Proof. exact fsl_fluxes_ujk_eq. Qed.
Print Assumptions C06_lattice_fluxes_agree.

(* (c) A* COMPLETENESS on the lattice: with budget maxits = n_edges and early stopping the modelled path_between_plaquettes returns,
   for every pair of distinct plaquettes of a connected plaquette graph, a valid simple chain between them (it finds a path whenever
   one exists, within the budget the solver passes; uses C11_astar_budget) *)
Theorem C06_lattice_astar_complete :
  forall (ps : list plaquette) (ep : list ep_row) (h : nat -> nat -> Z),
    tables_agree ep (map p_edges ps) ->
    plaquette_graph_connected ep (length ps) ->
    fsl_cost_ok (fsl_adj ps ep) h ->
    forall a b, (a < length ps)%nat -> (b < length ps)%nat -> a <> b ->
      fs_path_ok ep a b (fsl_path ps ep h (length ep) a b) = true.
Proof. exact fsl_path_contract. Qed.
Print Assumptions C06_lattice_astar_complete.

(* (d) any metric is an admissible cost function, whatever the graph; the discrete metric is one (used as the witness below) *)
Theorem C06_metric_cost_ok :
  forall adj h, (forall x y, (0 <= h x y)%Z) -> (forall x y, x <> y -> (0 < h x y)%Z) ->
    (forall x y z, (h x z <= h x y + h y z)%Z) -> fsl_cost_ok adj h.
Proof. exact fsl_metric_cost_ok. Qed.
Print Assumptions C06_metric_cost_ok.

(* (e) the connectivity hypothesis is decided by a boolean checker (run by the harness on every generated lattice) *)
Theorem C06_connected_checker_sound :
  forall (ep : list ep_row) F, fs_connected_b ep F = true -> plaquette_graph_connected ep F.
Proof. exact fs_connected_b_sound. Qed.
Print Assumptions C06_connected_checker_sound.

(* ==== which sectors are reachable at all — closed versus open lattices.  (The property's "up to the parity obstruction": on a closed
   lattice an odd number of defects cannot be removed by ANY bond configuration; on a lattice with a boundary it could be, through an
   edge that has a plaquette on one side only, but koala's solver, whose paths use two-sided edges only, does not do it.) ==== *)

(* ---- closed lattice (every directed edge lies in a plaquette), connected plaquette graph: the flux patterns realised by bond
   configurations are EXACTLY those of total flux (-1)^n_edges ("=>": C05's global parity; "<=": the modelled solver, from the all +1
   guess, reaches every such pattern) *)
Theorem C06_closed_reachable_iff_parity :
  forall (L : lattice) (ps : list plaquette) (target : list Z),
    wf_lattice L = true -> no_self_loops L = true -> find_all_plaquettes L = Some ps ->
    plaquette_graph_connected (edges_plaquettes L ps) (length ps) ->
    (forall d, In d (all_darts L) -> In d (flat_map Flux.plaq_darts ps)) ->
    length target = length ps -> all_pm1 target = true ->
    ((exists u, length u = Lattice.nE L /\ all_pm1 u = true /\ fluxes_from_ujk L u = Some target)
     <-> zprod target = ((-1) ^ Z.of_nat (Lattice.nE L))%Z).
Proof. exact lat_closed_reachable_iff. Qed.
Print Assumptions C06_closed_reachable_iff_parity.

(* ---- open lattice (some edge has a plaquette on exactly one side), connected plaquette graph: EVERY pattern in {-1,+1}^F is
   realised by some bond configuration — there is no parity obstruction *)
Theorem C06_open_all_sectors_reachable :
  forall (L : lattice) (ps : list plaquette) (target : list Z),
    wf_lattice L = true -> no_self_loops L = true -> find_all_plaquettes L = Some ps ->
    plaquette_graph_connected (edges_plaquettes L ps) (length ps) ->
    (exists e q, fs_boundary_of (edges_plaquettes L ps) e = Some q) ->
    length target = length ps -> all_pm1 target = true ->
    exists u, length u = Lattice.nE L /\ all_pm1 u = true /\ fluxes_from_ujk L u = Some target.
Proof. exact lat_open_all_sectors_reachable. Qed.
Print Assumptions C06_open_all_sectors_reachable.

(* ---- the witness is explicit: bonds u that miss the target on at most one plaquette (the solver's output) are completed by
   fs_complete_open (flip a plaquette chain from the leftover defect to a boundary plaquette, and its boundary edge); tables level,
   both flux conventions, any path oracle meeting the contract *)
Theorem C06_open_completion :
  forall (P : list fs_plaq) (ep : list (option nat * option nat)) (path : nat -> nat -> option (list nat * list nat))
         (target u : list Z) (e0 q0 : nat),
    fs_wf P ep = true ->
    (forall a b, (a < length P)%nat -> (b < length P)%nat -> a <> b -> fs_path_ok ep a b (path a b) = true) ->
    fs_find_boundary ep = Some (e0, q0) ->
    length target = length P -> fs_pm1 target = true -> length u = length ep -> fs_pm1 u = true ->
    (ndiff (fs_fluxes_ujk P u) target <= 1)%nat ->
    exists u', fs_complete_open (fs_fluxes_ujk P) ep path target u = Some u'
      /\ length u' = length ep /\ fs_pm1 u' = true /\ fs_fluxes_ujk P u' = target.
Proof. exact fs_open_ujk. Qed.
Print Assumptions C06_open_completion.

Theorem C06_open_completion_deprecated :
  forall (P : list fs_plaq) (ep : list (option nat * option nat)) (path : nat -> nat -> option (list nat * list nat))
         (target u : list Z) (e0 q0 : nat),
    fs_wf P ep = true ->
    (forall a b, (a < length P)%nat -> (b < length P)%nat -> a <> b -> fs_path_ok ep a b (path a b) = true) ->
    fs_find_boundary ep = Some (e0, q0) ->
    length target = length P -> fs_pm1 target = true -> length u = length ep -> fs_pm1 u = true ->
    (ndiff (fs_fluxes_bonds P u) target <= 1)%nat ->
    exists u', fs_complete_open (fs_fluxes_bonds P) ep path target u = Some u'
      /\ length u' = length ep /\ fs_pm1 u' = true /\ fs_fluxes_bonds P u' = target.
Proof. exact fs_open_bonds. Qed.
Print Assumptions C06_open_completion_deprecated.

(* ---- "the solver returns the target whenever some bond configuration realises it" is FALSE on lattices with a boundary (not a
   defect against the property, which promises "all but exactly one" there; recorded so that nobody reads more into the contract):
   two unit squares side by side, target [-1; +1] from the all +1 guess: the solver returns the guess, flipping boundary edge 0 works *)
Theorem C06_open_solver_stops_short_refuted :
  exists L ps target guess u u',
    wf_lattice L = true /\ no_self_loops L = true /\ find_all_plaquettes L = Some ps /\
    plaquette_graph_connected (edges_plaquettes L ps) (length ps) /\
    lat_ujk_from_fluxes L fsl_discrete ex_pick ex_nearest target guess = Some (FS_Ok u) /\
    fluxes_from_ujk L u <> Some target /\
    all_pm1 u' = true /\ length u' = Lattice.nE L /\ fluxes_from_ujk L u' = Some target.
Proof. exact lat_open_solver_stops_short. Qed.
Print Assumptions C06_open_solver_stops_short_refuted.

(* ---- non-vacuity of the lattice-level hypotheses: a closed lattice (2 x 2 square grid on the torus) with every hypothesis of
   C06_lattice_solver_contract / C06_closed_reachable_iff_parity and the model run; an open one (two unit squares) with every
   hypothesis of C06_open_all_sectors_reachable, the solver's run and its completion *)
Example C06_lattice_nonvacuous_closed :
  exists ps,
    wf_lattice torus22 = true /\ no_self_loops torus22 = true /\ find_all_plaquettes torus22 = Some ps /\ length ps = 4%nat /\
    plaquette_graph_connected (edges_plaquettes torus22 ps) (length ps) /\
    fsl_cost_ok (fsl_adj ps (edges_plaquettes torus22 ps)) fsl_discrete /\
    (forall l, l <> [] -> In (ex_pick l) l) /\ (forall c l, l <> [] -> In (ex_nearest c l) l) /\
    fluxes_from_ujk torus22 [1;1;1;1;1;1;1;1]%Z = Some [1;1;1;1]%Z /\
    lat_ujk_from_fluxes torus22 fsl_discrete ex_pick ex_nearest [1;-1;-1;1]%Z [1;1;1;1;1;1;1;1]%Z
      = Some (FS_Ok [-1;1;1;1;1;1;-1;1]%Z) /\
    fluxes_from_ujk torus22 [-1;1;1;1;1;1;-1;1]%Z = Some [1;-1;-1;1]%Z /\
    lat_ujk_from_fluxes torus22 fsl_discrete ex_pick ex_nearest [1;-1;1;1]%Z [1;1;1;1;1;1;1;1]%Z
      = Some (FS_Ok [1;1;1;1;1;1;1;1]%Z).
Proof. exact lat_example_closed. Qed.

Example C06_lattice_nonvacuous_closed_cover :
  exists ps, find_all_plaquettes torus22 = Some ps /\
    (forall d, In d (all_darts torus22) -> In d (flat_map Flux.plaq_darts ps)) /\
    zprod [1;-1;-1;1]%Z = ((-1) ^ Z.of_nat (Lattice.nE torus22))%Z.
Proof. exact lat_example_closed_cover. Qed.

Example C06_lattice_nonvacuous_open :
  exists ps,
    wf_lattice strip2 = true /\ no_self_loops strip2 = true /\ find_all_plaquettes strip2 = Some ps /\ length ps = 2%nat /\
    plaquette_graph_connected (edges_plaquettes strip2 ps) (length ps) /\
    fs_boundary_of (edges_plaquettes strip2 ps) 0 = Some 0%nat /\
    fluxes_from_ujk strip2 [1;1;1;1;1;1;1]%Z = Some [1;1]%Z /\
    lat_ujk_from_fluxes strip2 fsl_discrete ex_pick ex_nearest [-1;1]%Z [1;1;1;1;1;1;1]%Z
      = Some (FS_Ok [1;1;1;1;1;1;1]%Z) /\
    fs_complete_open (fs_fluxes_ujk (fsl_plaqs ps)) (edges_plaquettes strip2 ps)
       (fsl_path ps (edges_plaquettes strip2 ps) fsl_discrete 7) [-1;1]%Z [1;1;1;1;1;1;1]%Z = Some [-1;1;1;1;1;1;1]%Z /\
    fluxes_from_ujk strip2 [-1;1;1;1;1;1;1]%Z = Some [-1;1]%Z /\
    fs_complete_open (fs_fluxes_ujk (fsl_plaqs ps)) (edges_plaquettes strip2 ps)
       (fsl_path ps (edges_plaquettes strip2 ps) fsl_discrete 7) [1;-1]%Z [1;1;1;1;1;1;1]%Z = Some [-1;1;1;1;1;-1;1]%Z /\
    fluxes_from_ujk strip2 [-1;1;1;1;1;-1;1]%Z = Some [1;-1]%Z.
Proof. exact lat_example_open. Qed.

(* ---- A* completeness in full: "it finds a path whenever one exists".  With budget maxits = n_edges and early stopping the modelled
   path_between_plaquettes(l, a, b) DECIDES reachability in the plaquette graph: for distinct a, b it returns a path exactly when b is
   linked to a through two-sided edges (gconn, no global connectivity assumed), and what it returns then meets the path contract.
   So a PathFindingError out of the solver means precisely that the greedy pairing joined two plaquettes of different components. *)
Theorem C06_lattice_astar_finds_iff_exists :
  forall (ps : list plaquette) (ep : list ep_row) (h : nat -> nat -> Z),
    tables_agree ep (map p_edges ps) -> fsl_cost_ok (fsl_adj ps ep) h ->
    forall a b, a <> b ->
      (gconn ep a b <-> fs_path_ok ep a b (fsl_path ps ep h (length ep) a b) = true)
      /\ (fsl_path ps ep h (length ep) a b <> None <-> gconn ep a b).
Proof. exact fsl_path_iff_reachable. Qed.
Print Assumptions C06_lattice_astar_finds_iff_exists.
