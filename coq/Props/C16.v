(* Props/C16.v — property C16: plots draw the periodic lattice completely, once, and in the
   right colours; label broadcasting; exact segment intersection.
   Model: Model/Plot.v (plotting.py) and Model/Clip.v (exact clipping), over Q.

   NOT covered by a theorem (S/K only): plaquette coverage (Sutherland–Hodgman clipped areas
   sum to the plaquette area, no overlap), vertices at their positions (definitional in the
   model), arrows, the parallel/colinear tolerance branches of line_intersection (K only).
   (The plaquette part of this note is superseded by the sections "PLAQUETTES, second part", "EXACT regions" and
   "ARBITRARY POLYGONS" below; the last section states the lattice-level theorems — each selected edge drawn as exactly
   its visible translates, total length for a whole call, plot_dual — and the colour glue of Model/PlotGlue.v.) *)
From Coq Require Import List ZArith QArith Bool Qminmax Qabs.
From Coq Require Import Lqa Lia.
From Koala Require Import Model.Clip Model.Plot Proofs.ClipFacts Proofs.PlotFacts Proofs.VisFacts Proofs.CoverFacts Proofs.PlaqFacts.
Import ListNotations.

(* ---- clause "labels may be given per element or per subset element with the same result" ----
   for every subset form (slice / mask / index list: [s] is arbitrary).  Side condition: the
   subset does not have exactly N elements, or is the identity — when it has exactly N
   elements a length-N array IS the per-element form by definition (API convention). *)
Theorem C16_broadcast_equiv : forall (C : Type) (N : nat) (s : subset) (lab : list Z) (scheme : list C) (idx : list nat),
  subset_indices N s = Ok idx -> length lab = N -> (length idx <> N \/ idx = seq 0 N) ->
  process_plot_args N s (LList (map (fun i => nth i lab 0%Z) idx)) scheme
  = process_plot_args N s (LList lab) scheme.
Proof. exact @broadcast_equiv. Qed.
Print Assumptions C16_broadcast_equiv.

(* boolean masks: no side condition *)
Theorem C16_broadcast_equiv_mask : forall (C : Type) (N : nat) (m : list bool) (lab : list Z) (scheme : list C) (idx : list nat),
  subset_indices N (SMask m) = Ok idx -> length lab = N ->
  process_plot_args N (SMask m) (LList (map (fun i => nth i lab 0%Z) idx)) scheme
  = process_plot_args N (SMask m) (LList lab) scheme.
Proof. exact @broadcast_equiv_mask. Qed.
Print Assumptions C16_broadcast_equiv_mask.

(* scalar label = constant colour array *)
Theorem C16_broadcast_scalar : forall (C : Type) (N : nat) (s : subset) (z : Z) (scheme : list C) (idx : list nat) (c : C),
  subset_indices N s = Ok idx -> scheme_at scheme z = Ok c ->
  process_plot_args N s (LScalar z) scheme = Ok (idx, repeat c (length idx)).
Proof. exact @broadcast_scalar_constant. Qed.
Print Assumptions C16_broadcast_scalar.

(* wrong length => ValueError *)
Theorem C16_broadcast_wrong_length : forall (C : Type) (N : nat) (s : subset) (lab : list Z) (scheme : list C) (idx : list nat),
  subset_indices N s = Ok idx -> length lab <> N -> length lab <> length idx ->
  process_plot_args N s (LList lab) scheme = Error ValueError.
Proof. exact @broadcast_wrong_length. Qed.
Print Assumptions C16_broadcast_wrong_length.

(* ---- clause "each drawn piece carries the colour selected by that element's label" ----
   element idx[k] of the subset is given colour scheme[lab[idx[k]]] *)
Theorem C16_colours_pointwise : forall (C : Type) (N : nat) (s : subset) (lab : list Z) (scheme : list C) (idx : list nat) (cols : list C),
  length lab = N -> process_plot_args N s (LList lab) scheme = Ok (idx, cols) ->
  subset_indices N s = Ok idx /\ length cols = length idx /\
  forall k d dc, (k < length idx)%nat -> scheme_at scheme (nth (nth k idx d) lab 0%Z) = Ok (nth k cols dc).
Proof. exact @colours_pointwise. Qed.
Print Assumptions C16_colours_pointwise.

(* subset indices are valid element indices, for the three forms *)
Theorem C16_subset_indices_range : forall (N : nat) (s : subset) (idx : list nat),
  subset_indices N s = Ok idx -> Forall (fun i => (i < N)%nat) idx.
Proof. exact subset_indices_range. Qed.
Print Assumptions C16_subset_indices_range.

Open Scope Q_scope.

(* ---- the measure used by the spec checker: the Liang–Barsky interval is exactly the set of
   parameters at which the segment is inside the closed unit cell ---- *)
Theorem C16_clip_interval_correct : forall (s : seg) (t : Q),
  (exists lo hi, clip_interval s = Some (lo, hi) /\ lo <= t /\ t <= hi)
  <-> (0 <= t /\ t <= 1 /\ in_unit_square (seg_point s t)).
Proof. exact clip_interval_correct. Qed.
Print Assumptions C16_clip_interval_correct.

(* ---- clause "every edge appears ... in every periodic image that meets the cell":
   the nine translates of plot_edges suffice ---- *)
Theorem C16_nine_suffice : forall (s : seg) (n m : Z),
  0 <= px (seg_end s) -> px (seg_end s) < 1 -> 0 <= py (seg_end s) -> py (seg_end s) < 1 ->
  -(1) < px (seg_start s) - px (seg_end s) -> px (seg_start s) - px (seg_end s) < 1 ->
  -(1) < py (seg_start s) - py (seg_end s) -> py (seg_start s) - py (seg_end s) < 1 ->
  (2 <= Z.abs n \/ 2 <= Z.abs m)%Z ->
  clip_interval (seg_translate s (zpoint (n, m))) = None.
Proof. exact nine_suffice. Qed.
Print Assumptions C16_nine_suffice.

(* ---- "... appears in full": a translate whose part inside the cell has positive length
   passes the visibility rule (generic position: no end-point coordinate on a cell line,
   segment not through the corner (0,0)) ---- *)
Theorem C16_visibility_complete : forall (s : seg) (lo hi : Q),
  generic_seg s -> misses_origin s ->
  clip_interval s = Some (lo, hi) -> lo < hi ->
  visible s = true.
Proof. exact visibility_complete. Qed.
Print Assumptions C16_visibility_complete.

(* conversely whatever passes the rule meets the closed cell (no hypotheses) *)
Theorem C16_visibility_sound : forall s : seg,
  visible s = true -> exists lo hi, clip_interval s = Some (lo, hi).
Proof. exact visibility_sound. Qed.
Print Assumptions C16_visibility_sound.

(* ---- "... and nowhere twice": the clip intervals of two different integer translates of
   one segment share at most one parameter value (segment not lying on a cell line) ---- *)
Theorem C16_translates_disjoint : forall (s : seg) (d1 d2 : Z * Z) (i1 i2 : Q * Q),
  off_cell_lines s -> d1 <> d2 ->
  clip_interval (seg_translate s (zpoint d1)) = Some i1 ->
  clip_interval (seg_translate s (zpoint d2)) = Some i2 ->
  overlap_len i1 i2 <= 0.
Proof. exact translates_disjoint. Qed.
Print Assumptions C16_translates_disjoint.

(* ---- "the total length of the drawn segments inside the unit cell equals the total length
   of those edges": over the nine translates the clip lengths add up to exactly 1 ... ---- *)
Theorem C16_translates_sum_one : forall s : seg,
  0 <= px (seg_end s) -> px (seg_end s) < 1 -> 0 <= py (seg_end s) -> py (seg_end s) < 1 ->
  -(1) < px (seg_start s) - px (seg_end s) -> px (seg_start s) - px (seg_end s) < 1 ->
  -(1) < py (seg_start s) - py (seg_end s) -> py (seg_start s) - py (seg_end s) < 1 ->
  off_cell_lines s ->
  fold_right Qplus 0 (map (fun d => clip_len (seg_translate s (zpoint d))) nine) == 1.
Proof. exact translates_sum_one. Qed.
Print Assumptions C16_translates_sum_one.

(* ... and the pieces that pass the visibility rule of plot_edges already carry all of it
   (generic position: no end-point coordinate an integer, no cell-grid corner on the edge) *)
Theorem C16_drawn_in_full : forall s : seg,
  0 <= px (seg_end s) -> px (seg_end s) < 1 -> 0 <= py (seg_end s) -> py (seg_end s) < 1 ->
  -(1) < px (seg_start s) - px (seg_end s) -> px (seg_start s) - px (seg_end s) < 1 ->
  -(1) < py (seg_start s) - py (seg_end s) -> py (seg_start s) - py (seg_end s) < 1 ->
  generic_edge s ->
  drawn_len s == 1.
Proof. exact drawn_in_full. Qed.
Print Assumptions C16_drawn_in_full.

(* ---- clause "the segment-intersection helper agrees with exact arithmetic for segments in
   general position" (non-parallel: |d2 x d1| >= tol and d2 x d1 <> 0) ---- *)
Theorem C16_segment_intersection_exact : forall (tol : Q) (l1 l2 : seg),
  ~ dir_cross l1 l2 == 0 -> tol <= Qabs (dir_cross l1 l2) ->
  (line_intersection tol l1 l2 = true <-> segments_meet l1 l2).
Proof. exact segment_intersection_exact. Qed.
Print Assumptions C16_segment_intersection_exact.

(* ---- non-vacuity ---- *)
(* an edge of the honeycomb kind crossing x = 0: two of the nine translates are drawn, the
   clip lengths are 1/3 and 2/3 *)
Definition ex_seg : seg := ((-(1#4), 1#4), (1#8, 5#8)).
Example C16_visibility_complete_nonvacuous :
  clip_len ex_seg == 1#3 /\ visible ex_seg = true /\
  clip_len (seg_translate ex_seg (zpoint (1, 0)%Z)) == 2#3 /\ visible (seg_translate ex_seg (zpoint (1, 0)%Z)) = true /\
  generic_seg ex_seg.
Proof.
  split; [vm_compute; reflexivity|]. split; [vm_compute; reflexivity|].
  split; [vm_compute; reflexivity|]. split; [vm_compute; reflexivity|].
  unfold generic_seg, ex_seg; simpl. repeat split; intro H; vm_compute in H; discriminate.
Qed.
Example C16_broadcast_equiv_nonvacuous :
  subset_indices 5 (SSlice (Some (-1)%Z) None (Some (-2)%Z)) = Ok [4; 2; 0]%nat /\
  process_plot_args 5 (SSlice (Some (-1)%Z) None (Some (-2)%Z)) (LList [0; 1; 2; 1; 0]%Z) [10; 20; 30]%Z
  = Ok ([4; 2; 0]%nat, [10; 30; 10]%Z) /\
  process_plot_args 5 (SSlice (Some (-1)%Z) None (Some (-2)%Z)) (LList [0; 2; 0]%Z) [10; 20; 30]%Z
  = Ok ([4; 2; 0]%nat, [10; 30; 10]%Z).
Proof. repeat split; vm_compute; reflexivity. Qed.
Example C16_segment_intersection_nonvacuous :
  let l1 : seg := ((0, 0), (1, 1)) in let l2 : seg := ((0, 1), (1, 0)) in
  ~ dir_cross l1 l2 == 0 /\ (1 # 100000000000000) <= Qabs (dir_cross l1 l2) /\
  line_intersection (1 # 100000000000000) l1 l2 = true.
Proof. cbv zeta. split; [intro H; vm_compute in H; discriminate|]. split; vm_compute; [intro H; discriminate|reflexivity]. Qed.

Lemma ex_not_int (a : Z) (b : positive) : (forall k : Z, (a <> k * Zpos b)%Z) -> forall k : Z, ~ (a # b) == inject_Z k.
Proof. intros H k E. unfold Qeq in E. simpl in E. apply (H k). lia. Qed.
Example C16_drawn_in_full_nonvacuous :
  generic_edge ex_seg /\ off_cell_lines ex_seg /\
  0 <= px (seg_end ex_seg) /\ px (seg_end ex_seg) < 1 /\ 0 <= py (seg_end ex_seg) /\ py (seg_end ex_seg) < 1 /\
  -(1) < px (seg_start ex_seg) - px (seg_end ex_seg) /\ px (seg_start ex_seg) - px (seg_end ex_seg) < 1 /\
  -(1) < py (seg_start ex_seg) - py (seg_end ex_seg) /\ py (seg_start ex_seg) - py (seg_end ex_seg) < 1 /\
  drawn_len ex_seg == 1 /\
  length (filter (fun d => visible (seg_translate ex_seg (zpoint d))) nine) = 2%nat.
Proof.
  assert (G : generic_edge ex_seg).
  { unfold generic_edge, ex_seg, seg_start, seg_end, seg_point, px, py. cbn [fst snd].
    split; [apply ex_not_int; intro; simpl; lia|]. split; [apply ex_not_int; intro; simpl; lia|].
    split; [apply ex_not_int; intro; simpl; lia|]. split; [apply ex_not_int; intro; simpl; lia|].
    intros t n m Ht0 Ht1 [Hx Hy]. unfold lerp, seg_start, seg_end in Hx, Hy. cbn [fst snd] in Hx, Hy.
    assert (E : inject_Z n - inject_Z m == -(1#2)) by lra.
    assert (E2 : inject_Z (2 * (n - m) + 1) == 0).
    { rewrite inject_Z_plus, inject_Z_mult. unfold Z.sub. rewrite inject_Z_plus, inject_Z_opp.
      change (inject_Z 2) with 2. change (inject_Z 1) with 1. lra. }
    unfold Qeq, inject_Z in E2. cbn [Qnum Qden] in E2. lia. }
  split; [exact G|]. split; [apply generic_edge_off_cell_lines; exact G|].
  unfold ex_seg, seg_start, seg_end, px, py. cbn [fst snd].
  repeat split; try lra; vm_compute; reflexivity.
Qed.

(* ---- plaquettes (PARTIAL, see Proofs/PlaqFacts.v): every translate (dx,dy) in {-1,0,1}^2
   for which the unwrapped polygon has vertices strictly on both sides of the cell line(s) it
   has to reach across is drawn by the replication rule — diagonal translates included ---- *)
Theorem C16_plaquette_translates_drawn_partial : forall (pts : polygon) (dx dy : Z),
  off_line pts true 0 -> off_line pts true 1 -> off_line pts false 0 -> off_line pts false 1 ->
  needs_shift pts true dx -> needs_shift pts false dy ->
  In (ptranslate pts (zpoint (dx, dy)))
     (replicate_polygon pts (pads (poly_lines pts) true) (pads (poly_lines pts) false)).
Proof. exact plaquette_translates_drawn_partial. Qed.
Print Assumptions C16_plaquette_translates_drawn_partial.

(* a square plaquette across the corner (1,1) of the cell: four translates are drawn *)
Example C16_plaquette_translates_nonvacuous :
  let pts : polygon := [(5#4, 3#4); (5#4, 5#4); (3#4, 5#4); (3#4, 3#4)] in
  needs_shift pts true (-1)%Z /\ needs_shift pts false (-1)%Z /\
  off_line pts true 0 /\ off_line pts true 1 /\ off_line pts false 0 /\ off_line pts false 1 /\
  length (replicate_polygon pts (pads (poly_lines pts) true) (pads (poly_lines pts) false)) = 4%nat.
Proof.
  cbv zeta. split.
  { right; right. split; [reflexivity|]. split; [exists (5#4, 3#4)|exists (3#4, 3#4)]; (split; [simpl; tauto|vm_compute; reflexivity]). }
  split.
  { right; right. split; [reflexivity|]. split; [exists (5#4, 5#4)|exists (3#4, 3#4)]; (split; [simpl; tauto|vm_compute; reflexivity]). }
  repeat split; try (vm_compute; reflexivity);
    intros v Hv; simpl in Hv; repeat (destruct Hv as [<-|Hv]; [intro K; vm_compute in K; discriminate|]); destruct Hv.
Qed.

(* ======================================================================================
   PLAQUETTES, second part (supersedes the "NOT covered" note at the top of this file for the
   plaquette clause): the Sutherland–Hodgman clipper and the shoelace area used by the spec
   checker are proved, and the replication rule is tied to the clipped areas.
   Proofs/PolyAreaFacts.v, PolyCellFacts.v, PolyRegionFacts.v, PlaqCoverFacts.v.

   Reading.  pts = the unwrapped vertex list of a plaquette (plaq_points), anticlockwise.
   area2 = twice the signed shoelace area; clipped_area2 = area2 o clip_polygon is exactly what
   the spec check S sums.  region of a polygon: in_poly P p = p on the left of (or on) every
   directed edge; convex_ccw P = every vertex in the region (global convexity).
   All statements are for vertex lists of ANY length.

   NOT covered: non-convex plaquettes have no pointwise theorem at all (for them only the
   signed-area identities C16_clip_area_additive / C16_nine_cells_area / C16_plaquette_drawn_area
   hold, which do not need convexity, and their reading as "area of the region" is not proved);
   that two DIFFERENT translates of one plaquette do not overlap inside the cell is a property
   of the lattice (plaquettes tile the torus, C01), not of the plotting code — "exactly one"
   is proved as: all of the area / every point is drawn (at least once) and each point of the
   unwrapped plaquette reaches the open cell under one offset only (C16_offset_unique);
   C16_clip_halfplane_sound needs the clipped polygon to be strictly convex — derived from the
   input for strictly convex polygons in general position further down (C16_clip_halfplane_exact,
   C16_cell_exact); convex polygons with collinear or repeated vertices, or with a vertex on a
   cell line, only have the inclusion C16_clip_halfplane_complete; that area2 of a convex
   anticlockwise polygon is twice the Lebesgue measure of its region is the definition of area
   used here (no measure theory). ====================================================== *)
From Koala Require Import Proofs.PolyAreaFacts Proofs.PolyCellFacts Proofs.PolyRegionFacts Proofs.PlaqCoverFacts.

(* ---- the clipper, one half-plane  coord >= v (ge = true) / coord <= v (ge = false),
   coord = x (xaxis = true) or y ---- *)
(* area additivity: the two sides of any clip line share the (signed) area — every polygon *)
Theorem C16_clip_area_additive : forall (xaxis : bool) (v : Q) (P : polygon),
  area2 (sh_clip1 xaxis v true P) + area2 (sh_clip1 xaxis v false P) == area2 P.
Proof. exact clip_area_add. Qed.
Print Assumptions C16_clip_area_additive.

(* clipping at v1 and then at v2 > v1 has the area of clipping at v2 *)
Theorem C16_clip_area_absorb : forall (xaxis : bool) (v1 v2 : Q) (P : polygon), v1 < v2 ->
  area2 (sh_clip1 xaxis v2 true (sh_clip1 xaxis v1 true P)) == area2 (sh_clip1 xaxis v2 true P).
Proof. exact clip_area_absorb. Qed.
Print Assumptions C16_clip_area_absorb.

(* every vertex of the clipped polygon is a point of region(P) inside the half-plane *)
Theorem C16_clip_vertices_sound : forall (xaxis : bool) (v : Q) (ge : bool) (P : polygon),
  convex_ccw P ->
  Forall (fun w => in_poly P w /\ hp_inside xaxis v ge w = true) (sh_clip1 xaxis v ge P).
Proof. exact clip_vertices_sound. Qed.
Print Assumptions C16_clip_vertices_sound.

(* complete: region(P) /\ half-plane is contained in region(clip P) — every convex polygon,
   no general-position hypothesis *)
Theorem C16_clip_halfplane_complete : forall (xaxis : bool) (v : Q) (ge : bool) (P : polygon) (p : point),
  convex_ccw P -> in_poly P p -> hp_inside xaxis v ge p = true -> in_poly (sh_clip1 xaxis v ge P) p.
Proof. exact clip_halfplane_complete. Qed.
Print Assumptions C16_clip_halfplane_complete.

(* the clipped polygon is again convex anticlockwise *)
Theorem C16_clip_convex : forall (xaxis : bool) (v : Q) (ge : bool) (P : polygon),
  convex_ccw P -> convex_ccw (sh_clip1 xaxis v ge P).
Proof. exact clip_convex. Qed.
Print Assumptions C16_clip_convex.

(* sound: region(clip P) is contained in region(P) /\ half-plane, for a strictly convex
   non-empty output (false without: an output reduced to a point has the whole plane as
   "region") *)
Theorem C16_clip_halfplane_sound : forall (xaxis : bool) (v : Q) (ge : bool) (P : polygon) (p : point),
  convex_ccw P -> strictly_convex (sh_clip1 xaxis v ge P) -> sh_clip1 xaxis v ge P <> [] ->
  in_poly (sh_clip1 xaxis v ge P) p -> in_poly P p /\ hp_inside xaxis v ge p = true.
Proof. exact clip_halfplane_sound. Qed.
Print Assumptions C16_clip_halfplane_sound.

(* the four clips of clip_polygon: region(P) /\ closed unit cell  =  region(clip_polygon P) *)
Theorem C16_cell_complete : forall (P : polygon) (p : point),
  convex_ccw P -> in_poly P p -> in_unit_square p -> in_poly (clip_polygon P) p.
Proof. exact cell_complete. Qed.
Print Assumptions C16_cell_complete.
Theorem C16_cell_sound : forall (P : polygon) (p : point),
  convex_ccw P -> proper (stage1 P) -> proper (stage2 P) -> proper (stage3 P) -> proper (clip_polygon P) ->
  in_poly (clip_polygon P) p -> in_poly P p /\ in_unit_square p.
Proof. exact cell_sound. Qed.
Print Assumptions C16_cell_sound.

(* ---- "covered exactly once", in measure: a polygon inside the 3x3 block of cells — the clipped
   areas of its nine integer translates add up to its area (the pieces are the polygon cut
   along the cell lines, moved into the cell) ---- *)
Theorem C16_nine_cells_area : forall P : polygon, in_block P ->
  fold_right Qplus 0 (map (fun d => clipped_area2 (ptranslate P (zpoint d))) nine) == area2 P.
Proof. exact nine_cells_area. Qed.
Print Assumptions C16_nine_cells_area.

(* translates by 2 or more never reach the cell *)
Theorem C16_plaquette_nine_suffice : forall (pts : polygon) (dx dy : Z),
  in_open_block pts -> (2 <= Z.abs dx \/ 2 <= Z.abs dy)%Z ->
  clipped_area2 (ptranslate pts (zpoint (dx, dy))) == 0.
Proof. exact plaquette_nine_suffice. Qed.
Print Assumptions C16_plaquette_nine_suffice.

(* each point of the unwrapped plaquette is inside the open cell under at most one offset *)
Theorem C16_offset_unique : forall (c : Q) (a b : Z),
  0 < c + inject_Z a -> c + inject_Z a < 1 -> 0 < c + inject_Z b -> c + inject_Z b < 1 -> a = b.
Proof. exact offset_unique. Qed.
Print Assumptions C16_offset_unique.

(* ---- the replication rule of plot_plaquettes (generic position: no vertex on a cell line;
   one vertex in the cell: the walk of plot_plaquettes ends at a stored position) ---- *)
(* a translate whose clipped area is not zero is drawn *)
Theorem C16_plaquette_cover_translates : forall (pts : polygon) (dx dy : Z),
  off_line pts true 0 -> off_line pts true 1 -> off_line pts false 0 -> off_line pts false 1 ->
  has_cell_vertex pts ->
  (dx = (-1)%Z \/ dx = 0%Z \/ dx = 1%Z) -> (dy = (-1)%Z \/ dy = 0%Z \/ dy = 1%Z) ->
  ~ clipped_area2 (ptranslate pts (zpoint (dx, dy))) == 0 ->
  In (ptranslate pts (zpoint (dx, dy)))
     (replicate_polygon pts (pads (poly_lines pts) true) (pads (poly_lines pts) false)).
Proof. exact plaquette_cover_translates. Qed.
Print Assumptions C16_plaquette_cover_translates.

(* the drawn polygons carry all of the plaquette's area *)
Theorem C16_plaquette_drawn_area : forall pts : polygon,
  off_line pts true 0 -> off_line pts true 1 -> off_line pts false 0 -> off_line pts false 1 ->
  has_cell_vertex pts -> in_block pts ->
  fold_right Qplus 0 (map clipped_area2
     (replicate_polygon pts (pads (poly_lines pts) true) (pads (poly_lines pts) false))) == area2 pts.
Proof. exact plaquette_drawn_area. Qed.
Print Assumptions C16_plaquette_drawn_area.

(* pointwise, strictly convex plaquettes: a point r of the plaquette that lies in the open cell
   under the offset (dx,dy) — any integers — is covered: that translate is drawn *)
Theorem C16_plaquette_cover_pointwise : forall (pts : polygon) (r : point) (dx dy : Z),
  strictly_convex pts ->
  off_line pts true 0 -> off_line pts true 1 -> off_line pts false 0 -> off_line pts false 1 ->
  has_cell_vertex pts -> in_block pts ->
  in_poly pts r -> in_open_cell (padd r (zpoint (dx, dy))) ->
  In (ptranslate pts (zpoint (dx, dy)))
     (replicate_polygon pts (pads (poly_lines pts) true) (pads (poly_lines pts) false)).
Proof. exact plaquette_cover_pointwise. Qed.
Print Assumptions C16_plaquette_cover_pointwise.

(* the drawn polygons are translates by pairwise different offsets out of the nine *)
Theorem C16_replicate_offsets_nodup : forall (pts : polygon) (lines : list seg),
  exists ds : list (Z * Z), NoDup ds /\ incl ds nine /\
    replicate_polygon pts (pads lines true) (pads lines false) = map (fun d => ptranslate pts (zpoint d)) ds.
Proof. exact replicate_offsets_nodup. Qed.
Print Assumptions C16_replicate_offsets_nodup.

(* ---- non-vacuity: a hexagon (honeycomb plaquette) around the cell corner (1,1) ---- *)
Definition ex_hex : polygon :=
  [(53#40, 21#20); (47#40, 13#10); (7#8, 13#10); (29#40, 21#20); (7#8, 4#5); (47#40, 4#5)].
Definition ex_hex_drawn : list polygon :=
  replicate_polygon ex_hex (pads (poly_lines ex_hex) true) (pads (poly_lines ex_hex) false).

Lemma ex_hex_off (xaxis : bool) (l : Q) : (l = 0 \/ l = 1) -> off_line ex_hex xaxis l.
Proof.
  intros [-> | ->] w Hw; destruct xaxis; unfold ex_hex in Hw; cbn [In] in Hw;
    repeat (destruct Hw as [<-|Hw]; [intro K; vm_compute in K; discriminate|]); destruct Hw.
Qed.

Example C16_plaquette_cover_nonvacuous :
  convex_ccw ex_hex /\ strictly_convex ex_hex /\
  off_line ex_hex true 0 /\ off_line ex_hex true 1 /\ off_line ex_hex false 0 /\ off_line ex_hex false 1 /\
  has_cell_vertex ex_hex /\ in_block ex_hex /\
  (* four polygons are drawn, the offsets (-1,-1) (-1,0) (0,-1) (0,0) *)
  ex_hex_drawn = map (fun d => ptranslate ex_hex (zpoint d)) [(-1, -1); (-1, 0); (0, -1); (0, 0)]%Z /\
  (* their clipped areas: each positive, together the hexagon's *)
  Forall (fun Q0 => 0 < clipped_area2 Q0) ex_hex_drawn /\
  fold_right Qplus 0 (map clipped_area2 ex_hex_drawn) == area2 ex_hex /\ 0 < area2 ex_hex /\
  (* the other five translates have clipped area 0 *)
  Forall (fun d => clipped_area2 (ptranslate ex_hex (zpoint d)) == 0) [(-1, 1); (0, 1); (1, -1); (1, 0); (1, 1)]%Z /\
  (* the cell corner (1,1) is a point of the hexagon; it is in the clipped piece of the drawn translate (0,0) *)
  in_poly ex_hex (1, 1) /\ in_poly (clip_polygon ex_hex) (1, 1).
Proof.
  assert (HC : convex_ccw ex_hex) by (apply convex_ccwb_sound; vm_compute; reflexivity).
  assert (HI : in_poly ex_hex (1, 1)).
  { intros e He. unfold edges, ex_hex in He. cbn [last edges_from In] in He.
    repeat (destruct He as [<-|He]; [unfold left_of; cbn [fst snd]; apply Qleb_iff; vm_compute; reflexivity|]). destruct He. }
  split; [exact HC|]. split; [apply strictly_convexb_sound; vm_compute; reflexivity|].
  split; [apply ex_hex_off; tauto|]. split; [apply ex_hex_off; tauto|].
  split; [apply ex_hex_off; tauto|]. split; [apply ex_hex_off; tauto|].
  split. { exists (7#8, 4#5). split; [unfold ex_hex; cbn [In]; tauto|]. unfold in_cell, px, py; cbn [fst snd]. repeat split; apply Qleb_iff || apply Qltb_iff; vm_compute; reflexivity. }
  split. { unfold in_block, ex_hex. repeat (apply Forall_cons || apply Forall_nil);
           unfold px, py; cbn [fst snd]; repeat split; apply Qleb_iff; vm_compute; reflexivity. }
  split; [vm_compute; reflexivity|].
  split. { assert (E : forallb (fun Q0 => Qltb 0 (clipped_area2 Q0)) ex_hex_drawn = true) by (vm_compute; reflexivity).
           rewrite forallb_forall in E. apply Forall_forall. intros Q0 HQ. apply Qltb_iff. exact (E Q0 HQ). }
  split; [apply Qeqb_iff; vm_compute; reflexivity|]. split; [apply Qltb_iff; vm_compute; reflexivity|].
  split. { repeat (apply Forall_cons || apply Forall_nil); apply Qeqb_iff; vm_compute; reflexivity. }
  split; [exact HI|].
  apply cell_complete; [exact HC|exact HI|]. unfold in_unit_square, px, py; cbn [fst snd]. repeat split; apply Qleb_iff; vm_compute; reflexivity.
Qed.

(* the hypotheses of C16_cell_sound hold for every drawn translate of the hexagon: each of the
   four clipping stages yields a strictly convex, non-empty polygon *)
Example C16_cell_sound_nonvacuous :
  Forall (fun Q0 => convex_ccw Q0 /\ proper (stage1 Q0) /\ proper (stage2 Q0) /\ proper (stage3 Q0) /\ proper (clip_polygon Q0))
         ex_hex_drawn.
Proof.
  assert (E : forallb (fun Q0 => convex_ccwb Q0 &&
      forallb (fun S0 => strictly_convexb S0 && negb (Nat.eqb (length S0) 0)) [stage1 Q0; stage2 Q0; stage3 Q0; clip_polygon Q0]) ex_hex_drawn = true)
    by (vm_compute; reflexivity).
  rewrite forallb_forall in E. apply Forall_forall. intros Q0 HQ. pose proof (E Q0 HQ) as K.
  apply andb_true_iff in K. destruct K as [K1 K2]. rewrite forallb_forall in K2.
  assert (P0 : forall S0, In S0 [stage1 Q0; stage2 Q0; stage3 Q0; clip_polygon Q0] -> proper S0).
  { intros S0 HS. pose proof (K2 S0 HS) as K3. apply andb_true_iff in K3. destruct K3 as [K4 K5].
    split; [apply strictly_convexb_sound; exact K4|]. intro E0. rewrite E0 in K5. discriminate. }
  split; [apply convex_ccwb_sound; exact K1|].
  repeat split; apply P0; cbn [In]; tauto.
Qed.

(* ---- the same two statements on the model of plot_plaquettes itself: plaq_polygons L pl is
   the list of polygons handed to PolyCollection, plaq_points L pl the unwrapped walk ---- *)
Theorem C16_plaq_polygons_drawn_area : forall (L : plat) (pl : plaq),
  let pts := plaq_points L pl in
  off_line pts true 0 -> off_line pts true 1 -> off_line pts false 0 -> off_line pts false 1 ->
  has_cell_vertex pts -> in_block pts ->
  fold_right Qplus 0 (map clipped_area2 (plaq_polygons L pl)) == area2 pts.
Proof. exact plaq_polygons_drawn_area. Qed.
Print Assumptions C16_plaq_polygons_drawn_area.

Theorem C16_plaq_polygons_cover_pointwise : forall (L : plat) (pl : plaq) (r : point) (dx dy : Z),
  let pts := plaq_points L pl in
  strictly_convex pts ->
  off_line pts true 0 -> off_line pts true 1 -> off_line pts false 0 -> off_line pts false 1 ->
  has_cell_vertex pts -> in_block pts ->
  in_poly pts r -> in_open_cell (padd r (zpoint (dx, dy))) ->
  In (ptranslate pts (zpoint (dx, dy))) (plaq_polygons L pl).
Proof. exact plaq_polygons_cover_pointwise. Qed.
Print Assumptions C16_plaq_polygons_cover_pointwise.

(* ---- EXACT regions (Proofs/PolyStrictFacts.v, PolyExactFacts.v): for a strictly convex polygon in
   general position the hypothesis of C16_clip_halfplane_sound on the OUTPUT is discharged — the
   clipped polygon is strictly convex again — so all hypotheses are on the input polygon ---- *)
From Koala Require Import Proofs.PolyStrictFacts Proofs.PolyExactFacts.

Theorem C16_clip_strictly_convex : forall (xaxis : bool) (v : Q) (ge : bool) (P : polygon),
  convex_ccw P -> strictly_convex P -> generic_line xaxis v P -> strictly_convex (sh_clip1 xaxis v ge P).
Proof. exact clip_strictly_convex. Qed.
Print Assumptions C16_clip_strictly_convex.

(* clip_halfplane_sound + complete: the region of the clipped polygon is exactly the
   intersection (no vertex on the clip line, one vertex inside the half-plane) *)
Theorem C16_clip_halfplane_exact : forall (xaxis : bool) (v : Q) (ge : bool) (P : polygon) (p : point),
  convex_ccw P -> strictly_convex P -> generic_line xaxis v P ->
  (exists w, In w P /\ hp_inside xaxis v ge w = true) ->
  (in_poly (sh_clip1 xaxis v ge P) p <-> in_poly P p /\ hp_inside xaxis v ge p = true).
Proof. exact clip_halfplane_exact. Qed.
Print Assumptions C16_clip_halfplane_exact.

(* the unit cell (apply it to a drawn translate Q0 = ptranslate pts (zpoint d)): a point is in the
   region of clip_polygon Q0 iff it is a point of Q0 inside the closed cell.  General position: no
   vertex on a cell line, no cell corner on the line of an edge; the piece is non-empty (it is
   when clipped_area2 Q0 is not 0). *)
Theorem C16_cell_exact : forall (Q0 : polygon) (p : point),
  convex_ccw Q0 -> strictly_convex Q0 ->
  generic_line true 0 Q0 -> generic_line true 1 Q0 -> generic_line false 0 Q0 -> generic_line false 1 Q0 ->
  no_corner_on_boundary Q0 -> clip_polygon Q0 <> [] ->
  (in_poly (clip_polygon Q0) p <-> in_poly Q0 p /\ in_unit_square p).
Proof. exact cell_exact. Qed.
Print Assumptions C16_cell_exact.

Theorem C16_cell_strictly_convex : forall Q0 : polygon,
  convex_ccw Q0 -> strictly_convex Q0 ->
  generic_line true 0 Q0 -> generic_line true 1 Q0 -> generic_line false 0 Q0 -> generic_line false 1 Q0 ->
  no_corner_on_boundary Q0 -> convex_ccw (clip_polygon Q0) /\ strictly_convex (clip_polygon Q0).
Proof. exact cell_strictly_convex. Qed.
Print Assumptions C16_cell_strictly_convex.

(* the same with all hypotheses as one executable test *)
Theorem C16_cell_exact_checked : forall (Q0 : polygon) (p : point), cell_hypsb Q0 = true ->
  (in_poly (clip_polygon Q0) p <-> in_poly Q0 p /\ in_unit_square p).
Proof. exact cell_exact_checked. Qed.
Print Assumptions C16_cell_exact_checked.

(* non-vacuity: every drawn translate of the hexagon around the corner (1,1) satisfies the
   hypotheses of C16_cell_exact; the four clipped pieces have 5, 4, 5 and 4 vertices *)
Example C16_cell_exact_nonvacuous :
  Forall (fun Q0 => cell_hypsb Q0 = true) ex_hex_drawn /\
  map (fun Q0 => length (clip_polygon Q0)) ex_hex_drawn = [5; 4; 5; 4]%nat.
Proof. split; [repeat (apply Forall_cons || apply Forall_nil)|]; vm_compute; reflexivity. Qed.

(* ---- the plaquette clause pointwise (Proofs/PlaqPointFacts.v): "every point of the unit cell
   inside a selected plaquette is covered by a drawn polygon" — r a point of the unwrapped
   plaquette, (dx,dy) ANY integer offset bringing it into the open cell: the translate by (dx,dy)
   is drawn and r+(dx,dy) lies in the region of its clipped piece.  Strictly convex plaquettes,
   general position.  ("by exactly one": the offset is unique, C16_offset_unique; that pieces of
   DIFFERENT translates do not overlap is the lattice's tiling property, not proved here.) ---- *)
From Koala Require Import Proofs.PlaqPointFacts.
Theorem C16_plaquette_point_covered : forall (pts : polygon) (r : point) (dx dy : Z),
  convex_ccw pts -> strictly_convex pts ->
  off_line pts true 0 -> off_line pts true 1 -> off_line pts false 0 -> off_line pts false 1 ->
  has_cell_vertex pts -> in_block pts ->
  in_poly pts r -> in_open_cell (padd r (zpoint (dx, dy))) ->
  exists Q0, In Q0 (replicate_polygon pts (pads (poly_lines pts) true) (pads (poly_lines pts) false)) /\
             Q0 = ptranslate pts (zpoint (dx, dy)) /\
             in_poly Q0 (padd r (zpoint (dx, dy))) /\
             in_poly (clip_polygon Q0) (padd r (zpoint (dx, dy))).
Proof. exact plaquette_point_covered. Qed.
Print Assumptions C16_plaquette_point_covered.

(* non-vacuity: the point (41/40, 21/20) of the hexagon (its centre) falls into the open cell under
   the offset (-1,-1) *)
Example C16_plaquette_point_covered_nonvacuous :
  in_poly ex_hex (41#40, 21#20) /\ in_open_cell (padd (41#40, 21#20) (zpoint (-1, -1)%Z)) /\
  In (ptranslate ex_hex (zpoint (-1, -1)%Z)) ex_hex_drawn.
Proof.
  split.
  { intros e He. unfold edges, ex_hex in He. cbn [last edges_from In] in He.
    repeat (destruct He as [<-|He]; [unfold left_of; cbn [fst snd]; apply Qleb_iff; vm_compute; reflexivity|]). destruct He. }
  split; [unfold in_open_cell, padd, zpoint, px, py; cbn [fst snd]; repeat split; apply Qltb_iff; vm_compute; reflexivity|].
  vm_compute. tauto.
Qed.

(* ======================================================================================
   ARBITRARY POLYGONS (Proofs/ClipAnyFacts.v) — no convexity hypothesis: non-convex,
   self-intersecting, repeated vertices.  Together with C16_clip_area_additive /
   C16_nine_cells_area / C16_plaquette_drawn_area (which never needed convexity) this is what
   holds for non-convex plaquettes: the drawn translates' clipped pieces are polygons INSIDE the
   closed cell whose vertices lie on the plaquette's boundary, and their signed areas add up to
   the plaquette's.  Still NOT proved for non-convex plaquettes: pointwise cover (that the piece's
   region is the intersection of the regions) and that signed area = measure of the region.
   The overlap clipper (gsh_*: subject against a convex clip polygon, edge by edge) used by S for
   "no two drawn polygons overlap": the piece it measures lies inside the clip polygon and inside
   the cell, for ANY subject polygon. ================================================== *)
From Koala Require Import Proofs.ClipAnyFacts.

Theorem C16_clip_polygon_in_cell : forall P : polygon, Forall in_unit_square (clip_polygon P).
Proof. exact clip_polygon_in_cell. Qed.
Print Assumptions C16_clip_polygon_in_cell.

(* the piece stays inside every convex set (seg_closed) that contains the polygon's vertices *)
Theorem C16_clip_polygon_in_hull : forall (C : point -> Prop) (P : polygon),
  seg_closed C -> Forall C P -> Forall C (clip_polygon P).
Proof. exact clip_polygon_Forall. Qed.
Print Assumptions C16_clip_polygon_in_hull.

(* every vertex of a clipped polygon is a vertex of P or a point of a closed edge of P *)
Theorem C16_clip_vertices_on_boundary : forall (xaxis : bool) (v : Q) (ge : bool) (P : polygon),
  Forall (fun w => In w P \/ on_edge_of (edges P) w) (sh_clip1 xaxis v ge P).
Proof. exact sh_clip1_on_boundary. Qed.
Print Assumptions C16_clip_vertices_on_boundary.

Theorem C16_clip_polygon_in_block : forall P : polygon, in_block P -> in_block (clip_polygon P).
Proof. exact clip_polygon_in_block. Qed.
Print Assumptions C16_clip_polygon_in_block.

(* the general clipper: every output vertex on the kept side of the line through a, b *)
Theorem C16_overlap_clip_inside : forall (ccw : bool) (a b : point) (S : polygon),
  Forall (insP ccw a b) (gsh_clip1 ccw a b S).
Proof. exact gsh_clip1_inside. Qed.
Print Assumptions C16_overlap_clip_inside.

(* the overlap piece of ANY subject S with an anticlockwise clip polygon p :: r lies on the left of
   every edge of the clip polygon, also after the four cell clips, and inside the closed cell *)
Theorem C16_overlap_piece_in_clipper : forall (S : polygon) (p : point) (r : list point),
  Forall (in_poly (p :: r)) (clip_polygon (gsh_edges true p p r S)).
Proof. exact overlap_piece_in_clipper. Qed.
Print Assumptions C16_overlap_piece_in_clipper.

Theorem C16_overlap_piece_in_cell : forall (S : polygon) (ccw : bool) (p : point) (r : list point),
  Forall in_unit_square (clip_polygon (gsh_edges ccw p p r S)).
Proof. exact overlap_piece_in_cell. Qed.
Print Assumptions C16_overlap_piece_in_cell.

(* the two sides of ANY line (through a and b, a <> b) share the signed area of ANY polygon: the
   general clipper is area-additive like the axis-parallel one (C16_clip_area_additive) *)
From Koala Require Import Proofs.ClipGenArea.
Theorem C16_overlap_clip_area_additive : forall (a b : point) (S : polygon),
  ~ (px a == px b /\ py a == py b) ->
  area2 (gsh_clip1 true a b S) + area2 (gsh_clip1 false a b S) == area2 S.
Proof. exact gsh_clip1_area_add. Qed.
Print Assumptions C16_overlap_clip_area_additive.

(* non-vacuity: the diagonal x = y cuts the L-shaped hexagon ex_L (below) into two pieces of (twice the) area 15/16 each *)
Example C16_overlap_clip_area_nonvacuous :
  let S : polygon := [(1#2, 1#2); (3#2, 1#2); (3#2, 5#4); (5#4, 5#4); (5#4, 3#2); (1#2, 3#2)] in
  area2 (gsh_clip1 true (0, 0) (1, 1) S) == 15#16 /\ area2 (gsh_clip1 false (0, 0) (1, 1) S) == 15#16 /\ area2 S == 15#8.
Proof. cbv zeta. repeat split; apply Qeqb_iff; vm_compute; reflexivity. Qed.

(* non-vacuity / a NON-CONVEX plaquette: an L-shaped hexagon around the cell corner (1,1) (not convex,
   in the block, no vertex on a cell line, one vertex in the cell): four translates are drawn, the
   clipped areas add up to the area, every clipped vertex is in the cell *)
Definition ex_L : polygon := [(1#2, 1#2); (3#2, 1#2); (3#2, 5#4); (5#4, 5#4); (5#4, 3#2); (1#2, 3#2)].
Example C16_nonconvex_nonvacuous :
  convexb ex_L = false /\ in_block ex_L /\
  length (replicate_polygon ex_L (pads (poly_lines ex_L) true) (pads (poly_lines ex_L) false)) = 4%nat /\
  fold_right Qplus 0 (map clipped_area2
     (replicate_polygon ex_L (pads (poly_lines ex_L) true) (pads (poly_lines ex_L) false))) == area2 ex_L /\
  0 < area2 ex_L /\
  map (fun Q0 => length (clip_polygon Q0))
      (replicate_polygon ex_L (pads (poly_lines ex_L) true) (pads (poly_lines ex_L) false)) = [6; 4; 4; 4]%nat.
Proof.
  split; [vm_compute; reflexivity|].
  split. { unfold in_block, ex_L. repeat (apply Forall_cons || apply Forall_nil);
           unfold px, py; cbn [fst snd]; repeat split; apply Qleb_iff; vm_compute; reflexivity. }
  split; [vm_compute; reflexivity|].
  split; [apply Qeqb_iff; vm_compute; reflexivity|].
  split; [apply Qltb_iff; vm_compute; reflexivity|vm_compute; reflexivity].
Qed.

(* ======================================================================================
   THE LATTICE-LEVEL STATEMENTS AND THE GLUE (Model/PlotGlue.v, Proofs/PlotGlueFacts.v)
   ====================================================================================== *)
From Coq Require Import Permutation.
From Koala Require Import Model.Lattice Model.Dual Model.PlotGlue Proofs.PlotGlueFacts.
Open Scope Q_scope.

(* ---- "each edge is drawn exactly once": for EVERY lattice record, subset, labels, scheme and
   directions for which plot_edges returns, the drawn list is — up to the order inside the
   LineCollection — occurrence by occurrence of the selection, exactly the visible ones among the
   nine translates of that edge, each carrying that occurrence's colour and direction.  No hypothesis:
   this is the selection of the translates itself (an edge crossing the boundary is drawn as both of
   its visible translates, each once; nothing else is drawn). ---- *)
Theorem C16_plot_edges_each_once : forall (C : Type) (L : plat) (s : subset) (lab : labels) (scheme : list C) (dirs : labels)
    (dr : list (seg * (C * Z))),
  plot_edges L s lab scheme dirs = Ok dr ->
  exists idx cols ds,
    process_plot_args (length (pedges L)) s lab scheme = Ok (idx, cols) /\
    broadcast_args dirs idx (length (pedges L)) = Ok ds /\
    Permutation dr (flat_map (pieces_of L) (combine idx (combine cols ds))).
Proof. exact @plot_edges_each_once. Qed.
Print Assumptions C16_plot_edges_each_once.

(* the pieces of one occurrence: translates by pairwise different offsets out of the nine — precisely
   the visible ones *)
Theorem C16_pieces_offsets_nodup : forall (C : Type) (L : plat) (icd : nat * (C * Z)),
  exists ds : list (Z * Z), NoDup ds /\ incl ds nine /\
    (forall d, In d ds <-> In d nine /\ visible (seg_translate (edge_seg L (fst icd)) (zpoint d)) = true) /\
    pieces_of L icd = map (fun d => (seg_translate (edge_seg L (fst icd)) (zpoint d), snd icd)) ds.
Proof. exact @pieces_offsets_nodup. Qed.
Print Assumptions C16_pieces_offsets_nodup.

(* ---- "the total length of the drawn segments inside the unit cell equals the total length of those
   edges", for a whole call: selected edges in range (end point in [0,1)^2, less than one cell per
   coordinate) and in generic position; clip_len = fraction of the edge inside the closed cell ---- *)
Theorem C16_plot_edges_total_length : forall (C : Type) (L : plat) (s : subset) (lab : labels) (scheme : list C) (dirs : labels)
    (dr : list (seg * (C * Z))) (idx : list nat) (cols : list C),
  plot_edges L s lab scheme dirs = Ok dr ->
  process_plot_args (length (pedges L)) s lab scheme = Ok (idx, cols) ->
  Forall (fun i => edge_ok (edge_seg L i)) idx ->
  drawn_total dr == inject_Z (Z.of_nat (length idx)).
Proof. exact @plot_edges_total_length. Qed.
Print Assumptions C16_plot_edges_total_length.

(* ---- plot_dual = plot_edges on make_dual's lattice: the range hypotheses are PROVED for every
   lattice (dual vertices are centres mod 1, dual crossings are rounded differences) ---- *)
Theorem C16_dual_edge_in_range : forall (L : lattice) (D : qlattice) (e : nat),
  make_dual L = DualOk D -> (e < length (qedges D))%nat ->
  let s := edge_seg (plat_of_dual D) e in
  in01 (seg_end s) /\
  -(1#2) <= px (seg_start s) - px (seg_end s) /\ px (seg_start s) - px (seg_end s) <= 1#2 /\
  -(1#2) <= py (seg_start s) - py (seg_end s) /\ py (seg_start s) - py (seg_end s) <= 1#2.
Proof. exact dual_edge_in_range. Qed.
Print Assumptions C16_dual_edge_in_range.

(* so plot_dual draws every selected dual edge in full, each translate once; the only hypothesis left
   is generic position of the selected dual edges *)
Theorem C16_plot_dual_total_length : forall (C : Type) (L : lattice) (D : qlattice) (s : subset) (lab : labels)
    (scheme : list C) (dirs : labels) (dr : list (seg * (C * Z))) (idx : list nat) (cols : list C),
  make_dual L = DualOk D ->
  plot_dual L s lab scheme dirs = DPDrawn (Ok dr) ->
  process_plot_args (length (qedges D)) s lab scheme = Ok (idx, cols) ->
  Forall (fun i => generic_edge (edge_seg (plat_of_dual D) i)) idx ->
  drawn_total dr == inject_Z (Z.of_nat (length idx)) /\
  Permutation dr (flat_map (pieces_of (plat_of_dual D))
                           (combine idx (combine cols (match broadcast_args dirs idx (length (qedges D)) with Ok ds => ds | Error _ => [] end)))).
Proof. exact @plot_dual_total_length. Qed.
Print Assumptions C16_plot_dual_total_length.

(* ---- colour resolution ---- *)
(* a str scheme is the one-colour scheme *)
Theorem C16_str_scheme_constant : forall (N : nat) (s : subset) (c : ustr) (idx : list nat),
  subset_indices N s = Ok idx ->
  process_plot_args_c N s (LScalar 0) (SchemeStr c) None = Ok (idx, repeat c (length idx)).
Proof. exact str_scheme_constant. Qed.
Print Assumptions C16_str_scheme_constant.

(* color= replaces the first scheme entry by the keyword's colour cut to the scheme's dtype width *)
Theorem C16_resolve_scheme_kw : forall (sa : scheme_arg) (c : ustr) (sch : list ustr),
  resolve_scheme sa (Some c) = Ok sch ->
  exists c0 r, scheme_list sa = c0 :: r /\ sch = firstn (ustr_width (c0 :: r)) c :: r.
Proof. exact resolve_scheme_kw. Qed.
Print Assumptions C16_resolve_scheme_kw.

Theorem C16_resolve_scheme_kw_fits : forall (sa : scheme_arg) (c c0 : ustr) (r : list ustr),
  scheme_list sa = c0 :: r -> (length c <= ustr_width (c0 :: r))%nat ->
  resolve_scheme sa (Some c) = Ok (c :: r).
Proof. exact resolve_scheme_kw_fits. Qed.
Print Assumptions C16_resolve_scheme_kw_fits.

Theorem C16_resolve_scheme_kw_other_labels : forall (sa : scheme_arg) (c : ustr) (sch : list ustr) (z : Z),
  resolve_scheme sa (Some c) = Ok sch ->
  z <> 0%Z -> z <> (- Z.of_nat (length (scheme_list sa)))%Z ->
  scheme_at sch z = scheme_at (scheme_list sa) z.
Proof. exact resolve_scheme_kw_other_labels. Qed.
Print Assumptions C16_resolve_scheme_kw_other_labels.

(* REFUTED (finding, replayed on the implementation): "with color=c the label-0 elements are handed
   the colour c" — default scheme and color='lightgrey' give 'lightgr' *)
Theorem C16_color_kw_refuted :
  exists (sa : scheme_arg) (c : ustr) (sch : list ustr),
    resolve_scheme sa (Some c) = Ok sch /\ nth_error sch 0 <> Some c /\
    nth_error sch 0 = Some (firstn 7 c).
Proof. exact color_kw_refuted. Qed.
Print Assumptions C16_color_kw_refuted.

Theorem C16_plot_plaquettes_kw : forall (L : plat) (pls : list plaq) (s : subset) (lab : labels) (sa : scheme_arg) (k : ustr)
    (r : list (list polygon * ustr)),
  plot_plaquettes_c L pls s lab sa (Some k) = Ok r -> Forall (fun pc => snd pc = k) r.
Proof. exact plot_plaquettes_c_kw. Qed.
Print Assumptions C16_plot_plaquettes_kw.

Theorem C16_plot_vertices_kw_raises : forall (L : plat) (s : subset) (lab : labels) (sa : scheme_arg) (k : ustr) (r : list (point * ustr)),
  plot_vertices_c L s lab sa (Some k) <> Ok r.
Proof. exact plot_vertices_c_kw. Qed.
Print Assumptions C16_plot_vertices_kw_raises.

(* ---- the defaults ---- *)
Theorem C16_default_subset_all : forall N : nat, subset_indices N default_subset = Ok (seq 0 N).
Proof. exact default_subset_all. Qed.
Print Assumptions C16_default_subset_all.

Theorem C16_plot_vertices_default_all : forall L : plat,
  plot_vertices_default L = Ok (map (fun p => (p, [98; 108; 97; 99; 107]%Z)) (ppos L)).
Proof. exact plot_vertices_default_all. Qed.
Print Assumptions C16_plot_vertices_default_all.

Theorem C16_plot_edges_default_colour : forall (L : plat) (dr : list (seg * (ustr * Z))),
  plot_edges_default L = Ok dr ->
  Forall (fun x => fst (snd x) = [35; 69; 55; 52; 49; 52; 69]%Z /\ snd (snd x) = 0%Z) dr.
Proof. exact plot_edges_default_colour. Qed.
Print Assumptions C16_plot_edges_default_colour.

(* ---- non-vacuity ---- *)
(* a two-vertex lattice whose only edge crosses x = 0 (its unwrapped segment is ex_seg): edge_ok
   holds, two translates are drawn, the total is 1 *)
Definition ex_plat : plat := mkPlat [(3#4, 1#4); (1#8, 5#8)] [(0, 1)%nat] [(1, 0)%Z].
Example C16_plot_edges_total_length_nonvacuous :
  edge_seg ex_plat 0 = ex_seg /\ edge_ok (edge_seg ex_plat 0) /\
  exists dr, plot_edges ex_plat default_subset default_labels [7%Z] default_labels = Ok dr /\
             length dr = 2%nat /\ drawn_total dr == 1.
Proof.
  assert (E : edge_seg ex_plat 0 = ex_seg) by (vm_compute; reflexivity).
  split; [exact E|]. split.
  - rewrite E. destruct C16_drawn_in_full_nonvacuous as (G & _ & H1 & H2 & H3 & H4 & H5 & H6 & H7 & H8 & _).
    unfold edge_ok. repeat (split; [assumption|]). exact G.
  - eexists. split; [vm_compute; reflexivity|]. split; [reflexivity|]. apply Qeqb_iff. vm_compute. reflexivity.
Qed.

(* plot_dual: the 3x3 square torus (vertices at (1+4i)/12): the dual has 18 edges; dual edge 1 runs from
   (11/12, 1/4) to (1/4, 1/4) across x = 0 — in generic position, drawn as two pieces *)
Definition sq3 : lattice := mkLattice 12 [(1, 1); (1, 5); (1, 9); (5, 1); (5, 5); (5, 9); (9, 1); (9, 5); (9, 9)]%Z [(0, 3); (0, 1); (1, 4); (1, 2); (2, 5); (2, 0); (3, 6); (3, 4); (4, 7); (4, 5); (5, 8); (5, 3); (6, 0); (6, 7); (7, 1); (7, 8); (8, 2); (8, 6)]%nat [(0, 0); (0, 0); (0, 0); (0, 0); (0, 0); (0, 1); (0, 0); (0, 0); (0, 0); (0, 0); (0, 0); (0, 1); (1, 0); (0, 0); (1, 0); (0, 0); (1, 0); (0, 1)]%Z.
Definition sq3_dual : qlattice := match make_dual sq3 with DualOk D => D | _ => mkQLattice [] [] [] end.
Example C16_plot_dual_nonvacuous :
  make_dual sq3 = DualOk sq3_dual /\ length (qedges sq3_dual) = 18%nat /\
  generic_edge (edge_seg (plat_of_dual sq3_dual) 1) /\
  exists dr, plot_dual sq3 (SIdx [1%Z]) default_labels [7%Z] default_labels = DPDrawn (Ok dr) /\ length dr = 2%nat.
Proof.
  split; [vm_compute; reflexivity|]. split; [vm_compute; reflexivity|]. split.
  - set (s := edge_seg (plat_of_dual sq3_dual) 1).
    assert (Xs : px (seg_start s) == -(1#12)) by (apply Qeqb_iff; vm_compute; reflexivity).
    assert (Ys : py (seg_start s) == 1#4) by (apply Qeqb_iff; vm_compute; reflexivity).
    assert (Xe : px (seg_end s) == 1#4) by (apply Qeqb_iff; vm_compute; reflexivity).
    assert (Ye : py (seg_end s) == 1#4) by (apply Qeqb_iff; vm_compute; reflexivity).
    unfold generic_edge.
    split; [intros k K; rewrite Xs in K; revert K; apply ex_not_int; intro; simpl; lia|].
    split; [intros k K; rewrite Ys in K; revert K; apply ex_not_int; intro; simpl; lia|].
    split; [intros k K; rewrite Xe in K; revert K; apply ex_not_int; intro; simpl; lia|].
    split; [intros k K; rewrite Ye in K; revert K; apply ex_not_int; intro; simpl; lia|].
    intros t n m _ _ [_ Hy]. unfold seg_point, lerp in Hy. cbn [py snd] in Hy.
    fold (py (seg_start s)) in Hy. fold (py (seg_end s)) in Hy. rewrite Ys, Ye in Hy.
    assert (K : 1#4 == inject_Z m) by lra. revert K. apply ex_not_int. intro; simpl; lia.
  - eexists. split; [vm_compute; reflexivity|reflexivity].
Qed.

(* colour keyword: 'black' fits the default scheme's width 7 and arrives intact *)
Example C16_resolve_scheme_kw_nonvacuous :
  resolve_scheme default_scheme (Some [98; 108; 97; 99; 107]%Z)
  = Ok ([98; 108; 97; 99; 107]%Z :: tl colourblind_friendly_scheme) /\
  ustr_width colourblind_friendly_scheme = 7%nat.
Proof. split; vm_compute; reflexivity. Qed.

(* ---- WHICH of the nine translates are drawn, explicitly (Proofs/EdgePiecesFacts.v): an edge inside the
   cell is drawn once, as itself; an edge stored with crossing (1,0) (unwrapped start point beyond x = 0)
   is drawn as exactly its two halves, the translates (0,0) and (1,0), each once; likewise the other three
   directions.  (Edges crossing two cell lines — three translates — are covered in measure by
   C16_drawn_in_full / C16_plot_edges_total_length.) ---- *)
From Koala Require Import Proofs.EdgePiecesFacts.
Open Scope Q_scope.

Theorem C16_invisible_outside : forall (s : seg) (xaxis : bool),
  (1 < coord xaxis (seg_start s) /\ 1 < coord xaxis (seg_end s)) \/
  (coord xaxis (seg_start s) < 0 /\ coord xaxis (seg_end s) < 0) ->
  visible s = false.
Proof. exact invisible_outside. Qed.
Print Assumptions C16_invisible_outside.

Theorem C16_inner_edge_drawn_once : forall s : seg,
  open01 (px (seg_start s)) -> open01 (py (seg_start s)) -> open01 (px (seg_end s)) -> open01 (py (seg_end s)) ->
  filter (fun d => visible (seg_translate s (zpoint d))) nine = [(0, 0)%Z].
Proof. exact inner_edge_drawn_once. Qed.
Print Assumptions C16_inner_edge_drawn_once.

Theorem C16_crossing_edge_two_halves : forall s : seg,
  -(1) < px (seg_start s) -> px (seg_start s) < 0 -> open01 (py (seg_start s)) ->
  open01 (px (seg_end s)) -> open01 (py (seg_end s)) ->
  filter (fun d => visible (seg_translate s (zpoint d))) nine = [(0, 0)%Z; (1, 0)%Z].
Proof. exact crossing_edge_two_halves. Qed.
Print Assumptions C16_crossing_edge_two_halves.

(* the other three directions: crossing (-1,0), (0,1), (0,-1) *)
Theorem C16_crossing_edge_two_halves_xhi : forall s : seg,
  1 < px (seg_start s) -> px (seg_start s) < 2 -> open01 (py (seg_start s)) ->
  open01 (px (seg_end s)) -> open01 (py (seg_end s)) ->
  filter (fun d => visible (seg_translate s (zpoint d))) nine = [(-1, 0)%Z; (0, 0)%Z].
Proof. exact crossing_edge_two_halves_xhi. Qed.
Print Assumptions C16_crossing_edge_two_halves_xhi.

Theorem C16_crossing_edge_two_halves_ylo : forall s : seg,
  open01 (px (seg_start s)) -> -(1) < py (seg_start s) -> py (seg_start s) < 0 ->
  open01 (px (seg_end s)) -> open01 (py (seg_end s)) ->
  filter (fun d => visible (seg_translate s (zpoint d))) nine = [(0, 0)%Z; (0, 1)%Z].
Proof. exact crossing_edge_two_halves_ylo. Qed.
Print Assumptions C16_crossing_edge_two_halves_ylo.

Theorem C16_crossing_edge_two_halves_yhi : forall s : seg,
  open01 (px (seg_start s)) -> 1 < py (seg_start s) -> py (seg_start s) < 2 ->
  open01 (px (seg_end s)) -> open01 (py (seg_end s)) ->
  filter (fun d => visible (seg_translate s (zpoint d))) nine = [(0, -1)%Z; (0, 0)%Z].
Proof. exact crossing_edge_two_halves_yhi. Qed.
Print Assumptions C16_crossing_edge_two_halves_yhi.

(* the same as entries of plot_edges' drawn list (C16_plot_edges_each_once) *)
Theorem C16_inner_edge_one_piece : forall (C : Type) (L : plat) (icd : nat * (C * Z)),
  let s := edge_seg L (fst icd) in
  open01 (px (seg_start s)) -> open01 (py (seg_start s)) -> open01 (px (seg_end s)) -> open01 (py (seg_end s)) ->
  pieces_of L icd = [(seg_translate s (zpoint (0, 0)%Z), snd icd)].
Proof. exact @inner_edge_one_piece. Qed.
Print Assumptions C16_inner_edge_one_piece.

Theorem C16_crossing_edge_two_pieces : forall (C : Type) (L : plat) (icd : nat * (C * Z)),
  let s := edge_seg L (fst icd) in
  -(1) < px (seg_start s) -> px (seg_start s) < 0 -> open01 (py (seg_start s)) ->
  open01 (px (seg_end s)) -> open01 (py (seg_end s)) ->
  pieces_of L icd = [(seg_translate s (zpoint (0, 0)%Z), snd icd); (seg_translate s (zpoint (1, 0)%Z), snd icd)].
Proof. exact @crossing_edge_two_pieces. Qed.
Print Assumptions C16_crossing_edge_two_pieces.

(* non-vacuity: ex_seg (the only edge of ex_plat) satisfies the hypotheses of the crossing case *)
Example C16_crossing_edge_nonvacuous :
  -(1) < px (seg_start ex_seg) /\ px (seg_start ex_seg) < 0 /\ open01 (py (seg_start ex_seg)) /\
  open01 (px (seg_end ex_seg)) /\ open01 (py (seg_end ex_seg)) /\
  open01 (px (seg_start ((1#4, 1#4), (1#2, 3#4)))) /\
  filter (fun d => visible (seg_translate ex_seg (zpoint d))) nine = [(0, 0)%Z; (1, 0)%Z].
Proof.
  unfold ex_seg, open01, seg_start, seg_end, px, py. cbn [fst snd].
  repeat split; try lra.
Qed.
