(* Props/C16.v — property C16: plots draw the periodic lattice completely, once, and in the
   right colours; label broadcasting; exact segment intersection.
   Model: Model/Plot.v (plotting.py) and Model/Clip.v (exact clipping), over Q.

   NOT covered by a theorem (S/K only): plaquette coverage (Sutherland–Hodgman clipped areas
   sum to the plaquette area, no overlap), vertices at their positions (definitional in the
   model), arrows, the parallel/colinear tolerance branches of line_intersection (K only). *)
From Coq Require Import List ZArith QArith Bool Qminmax Qabs.
From Coq Require Import Lqa Lia.
From Koala Require Import Model.Clip Model.Plot Proofs.ClipFacts Proofs.PlotFacts Proofs.VisFacts Proofs.CoverFacts Proofs.PlaqFacts.
Import ListNotations.

(* ---- clause "labels may be given per element or per subset element with the same result" ----
   for every subset form (slice / mask / index list: [s] is arbitrary).  Side condition: the
   subset does not have exactly N elements, or is the identity — when it has exactly N
   elements a length-N array IS the per-element form by definition (API convention). *)
Theorem C16_broadcast_equiv : forall (C : Type) (N : nat) (s : subset) (lab : list Z) (scheme : list C) (idx : list nat),
  subset_indices N s = Ok idx -> length lab = N -> (length idx <> N \/ idx = seq 0 N) ->
  process_plot_args N s (LList (map (fun i => nth i lab 0%Z) idx)) scheme
  = process_plot_args N s (LList lab) scheme.
Proof. exact @broadcast_equiv. Qed.
Print Assumptions C16_broadcast_equiv.

(* boolean masks: no side condition *)
Theorem C16_broadcast_equiv_mask : forall (C : Type) (N : nat) (m : list bool) (lab : list Z) (scheme : list C) (idx : list nat),
  subset_indices N (SMask m) = Ok idx -> length lab = N ->
  process_plot_args N (SMask m) (LList (map (fun i => nth i lab 0%Z) idx)) scheme
  = process_plot_args N (SMask m) (LList lab) scheme.
Proof. exact @broadcast_equiv_mask. Qed.
Print Assumptions C16_broadcast_equiv_mask.

(* scalar label = constant colour array *)
Theorem C16_broadcast_scalar : forall (C : Type) (N : nat) (s : subset) (z : Z) (scheme : list C) (idx : list nat) (c : C),
  subset_indices N s = Ok idx -> scheme_at scheme z = Ok c ->
  process_plot_args N s (LScalar z) scheme = Ok (idx, repeat c (length idx)).
Proof. exact @broadcast_scalar_constant. Qed.
Print Assumptions C16_broadcast_scalar.

(* wrong length => ValueError *)
Theorem C16_broadcast_wrong_length : forall (C : Type) (N : nat) (s : subset) (lab : list Z) (scheme : list C) (idx : list nat),
  subset_indices N s = Ok idx -> length lab <> N -> length lab <> length idx ->
  process_plot_args N s (LList lab) scheme = Error ValueError.
Proof. exact @broadcast_wrong_length. Qed.
Print Assumptions C16_broadcast_wrong_length.

(* ---- clause "each drawn piece carries the colour selected by that element's label" ----
   element idx[k] of the subset is given colour scheme[lab[idx[k]]] *)
Theorem C16_colours_pointwise : forall (C : Type) (N : nat) (s : subset) (lab : list Z) (scheme : list C) (idx : list nat) (cols : list C),
  length lab = N -> process_plot_args N s (LList lab) scheme = Ok (idx, cols) ->
  subset_indices N s = Ok idx /\ length cols = length idx /\
  forall k d dc, (k < length idx)%nat -> scheme_at scheme (nth (nth k idx d) lab 0%Z) = Ok (nth k cols dc).
Proof. exact @colours_pointwise. Qed.
Print Assumptions C16_colours_pointwise.

(* subset indices are valid element indices, for the three forms *)
Theorem C16_subset_indices_range : forall (N : nat) (s : subset) (idx : list nat),
  subset_indices N s = Ok idx -> Forall (fun i => (i < N)%nat) idx.
Proof. exact subset_indices_range. Qed.
Print Assumptions C16_subset_indices_range.

Open Scope Q_scope.

(* ---- the measure used by the spec checker: the Liang–Barsky interval is exactly the set of
   parameters at which the segment is inside the closed unit cell ---- *)
Theorem C16_clip_interval_correct : forall (s : seg) (t : Q),
  (exists lo hi, clip_interval s = Some (lo, hi) /\ lo <= t /\ t <= hi)
  <-> (0 <= t /\ t <= 1 /\ in_unit_square (seg_point s t)).
Proof. exact clip_interval_correct. Qed.
Print Assumptions C16_clip_interval_correct.

(* ---- clause "every edge appears ... in every periodic image that meets the cell":
   the nine translates of plot_edges suffice ---- *)
Theorem C16_nine_suffice : forall (s : seg) (n m : Z),
  0 <= px (seg_end s) -> px (seg_end s) < 1 -> 0 <= py (seg_end s) -> py (seg_end s) < 1 ->
  -(1) < px (seg_start s) - px (seg_end s) -> px (seg_start s) - px (seg_end s) < 1 ->
  -(1) < py (seg_start s) - py (seg_end s) -> py (seg_start s) - py (seg_end s) < 1 ->
  (2 <= Z.abs n \/ 2 <= Z.abs m)%Z ->
  clip_interval (seg_translate s (zpoint (n, m))) = None.
Proof. exact nine_suffice. Qed.
Print Assumptions C16_nine_suffice.

(* ---- "... appears in full": a translate whose part inside the cell has positive length
   passes the visibility rule (generic position: no end-point coordinate on a cell line,
   segment not through the corner (0,0)) ---- *)
Theorem C16_visibility_complete : forall (s : seg) (lo hi : Q),
  generic_seg s -> misses_origin s ->
  clip_interval s = Some (lo, hi) -> lo < hi ->
  visible s = true.
Proof. exact visibility_complete. Qed.
Print Assumptions C16_visibility_complete.

(* conversely whatever passes the rule meets the closed cell (no hypotheses) *)
Theorem C16_visibility_sound : forall s : seg,
  visible s = true -> exists lo hi, clip_interval s = Some (lo, hi).
Proof. exact visibility_sound. Qed.
Print Assumptions C16_visibility_sound.

(* ---- "... and nowhere twice": the clip intervals of two different integer translates of
   one segment share at most one parameter value (segment not lying on a cell line) ---- *)
Theorem C16_translates_disjoint : forall (s : seg) (d1 d2 : Z * Z) (i1 i2 : Q * Q),
  off_cell_lines s -> d1 <> d2 ->
  clip_interval (seg_translate s (zpoint d1)) = Some i1 ->
  clip_interval (seg_translate s (zpoint d2)) = Some i2 ->
  overlap_len i1 i2 <= 0.
Proof. exact translates_disjoint. Qed.
Print Assumptions C16_translates_disjoint.

(* ---- "the total length of the drawn segments inside the unit cell equals the total length
   of those edges": over the nine translates the clip lengths add up to exactly 1 ... ---- *)
Theorem C16_translates_sum_one : forall s : seg,
  0 <= px (seg_end s) -> px (seg_end s) < 1 -> 0 <= py (seg_end s) -> py (seg_end s) < 1 ->
  -(1) < px (seg_start s) - px (seg_end s) -> px (seg_start s) - px (seg_end s) < 1 ->
  -(1) < py (seg_start s) - py (seg_end s) -> py (seg_start s) - py (seg_end s) < 1 ->
  off_cell_lines s ->
  fold_right Qplus 0 (map (fun d => clip_len (seg_translate s (zpoint d))) nine) == 1.
Proof. exact translates_sum_one. Qed.
Print Assumptions C16_translates_sum_one.

(* ... and the pieces that pass the visibility rule of plot_edges already carry all of it
   (generic position: no end-point coordinate an integer, no cell-grid corner on the edge) *)
Theorem C16_drawn_in_full : forall s : seg,
  0 <= px (seg_end s) -> px (seg_end s) < 1 -> 0 <= py (seg_end s) -> py (seg_end s) < 1 ->
  -(1) < px (seg_start s) - px (seg_end s) -> px (seg_start s) - px (seg_end s) < 1 ->
  -(1) < py (seg_start s) - py (seg_end s) -> py (seg_start s) - py (seg_end s) < 1 ->
  generic_edge s ->
  drawn_len s == 1.
Proof. exact drawn_in_full. Qed.
Print Assumptions C16_drawn_in_full.

(* ---- clause "the segment-intersection helper agrees with exact arithmetic for segments in
   general position" (non-parallel: |d2 x d1| >= tol and d2 x d1 <> 0) ---- *)
Theorem C16_segment_intersection_exact : forall (tol : Q) (l1 l2 : seg),
  ~ dir_cross l1 l2 == 0 -> tol <= Qabs (dir_cross l1 l2) ->
  (line_intersection tol l1 l2 = true <-> segments_meet l1 l2).
Proof. exact segment_intersection_exact. Qed.
Print Assumptions C16_segment_intersection_exact.

(* ---- non-vacuity ---- *)
(* an edge of the honeycomb kind crossing x = 0: two of the nine translates are drawn, the
   clip lengths are 1/3 and 2/3 *)
Definition ex_seg : seg := ((-(1#4), 1#4), (1#8, 5#8)).
Example C16_visibility_complete_nonvacuous :
  clip_len ex_seg == 1#3 /\ visible ex_seg = true /\
  clip_len (seg_translate ex_seg (zpoint (1, 0)%Z)) == 2#3 /\ visible (seg_translate ex_seg (zpoint (1, 0)%Z)) = true /\
  generic_seg ex_seg.
Proof.
  split; [vm_compute; reflexivity|]. split; [vm_compute; reflexivity|].
  split; [vm_compute; reflexivity|]. split; [vm_compute; reflexivity|].
  unfold generic_seg, ex_seg; simpl. repeat split; intro H; vm_compute in H; discriminate.
Qed.
Example C16_broadcast_equiv_nonvacuous :
  subset_indices 5 (SSlice (Some (-1)%Z) None (Some (-2)%Z)) = Ok [4; 2; 0]%nat /\
  process_plot_args 5 (SSlice (Some (-1)%Z) None (Some (-2)%Z)) (LList [0; 1; 2; 1; 0]%Z) [10; 20; 30]%Z
  = Ok ([4; 2; 0]%nat, [10; 30; 10]%Z) /\
  process_plot_args 5 (SSlice (Some (-1)%Z) None (Some (-2)%Z)) (LList [0; 2; 0]%Z) [10; 20; 30]%Z
  = Ok ([4; 2; 0]%nat, [10; 30; 10]%Z).
Proof. repeat split; vm_compute; reflexivity. Qed.
Example C16_segment_intersection_nonvacuous :
  let l1 : seg := ((0, 0), (1, 1)) in let l2 : seg := ((0, 1), (1, 0)) in
  ~ dir_cross l1 l2 == 0 /\ (1 # 100000000000000) <= Qabs (dir_cross l1 l2) /\
  line_intersection (1 # 100000000000000) l1 l2 = true.
Proof. cbv zeta. split; [intro H; vm_compute in H; discriminate|]. split; vm_compute; [intro H; discriminate|reflexivity]. Qed.

Lemma ex_not_int (a : Z) (b : positive) : (forall k : Z, (a <> k * Zpos b)%Z) -> forall k : Z, ~ (a # b) == inject_Z k.
Proof. intros H k E. unfold Qeq in E. simpl in E. apply (H k). lia. Qed.
Example C16_drawn_in_full_nonvacuous :
  generic_edge ex_seg /\ off_cell_lines ex_seg /\
  0 <= px (seg_end ex_seg) /\ px (seg_end ex_seg) < 1 /\ 0 <= py (seg_end ex_seg) /\ py (seg_end ex_seg) < 1 /\
  -(1) < px (seg_start ex_seg) - px (seg_end ex_seg) /\ px (seg_start ex_seg) - px (seg_end ex_seg) < 1 /\
  -(1) < py (seg_start ex_seg) - py (seg_end ex_seg) /\ py (seg_start ex_seg) - py (seg_end ex_seg) < 1 /\
  drawn_len ex_seg == 1 /\
  length (filter (fun d => visible (seg_translate ex_seg (zpoint d))) nine) = 2%nat.
Proof.
  assert (G : generic_edge ex_seg).
  { unfold generic_edge, ex_seg, seg_start, seg_end, seg_point, px, py. cbn [fst snd].
    split; [apply ex_not_int; intro; simpl; lia|]. split; [apply ex_not_int; intro; simpl; lia|].
    split; [apply ex_not_int; intro; simpl; lia|]. split; [apply ex_not_int; intro; simpl; lia|].
    intros t n m Ht0 Ht1 [Hx Hy]. unfold lerp, seg_start, seg_end in Hx, Hy. cbn [fst snd] in Hx, Hy.
    assert (E : inject_Z n - inject_Z m == -(1#2)) by lra.
    assert (E2 : inject_Z (2 * (n - m) + 1) == 0).
    { rewrite inject_Z_plus, inject_Z_mult. unfold Z.sub. rewrite inject_Z_plus, inject_Z_opp.
      change (inject_Z 2) with 2. change (inject_Z 1) with 1. lra. }
    unfold Qeq, inject_Z in E2. cbn [Qnum Qden] in E2. lia. }
  split; [exact G|]. split; [apply generic_edge_off_cell_lines; exact G|].
  unfold ex_seg, seg_start, seg_end, px, py. cbn [fst snd].
  repeat split; try lra; vm_compute; reflexivity.
Qed.

(* ---- plaquettes (PARTIAL, see Proofs/PlaqFacts.v): every translate (dx,dy) in {-1,0,1}^2
   for which the unwrapped polygon has vertices strictly on both sides of the cell line(s) it
   has to reach across is drawn by the replication rule — diagonal translates included ---- *)
Theorem C16_plaquette_translates_drawn_partial : forall (pts : polygon) (dx dy : Z),
  off_line pts true 0 -> off_line pts true 1 -> off_line pts false 0 -> off_line pts false 1 ->
  needs_shift pts true dx -> needs_shift pts false dy ->
  In (ptranslate pts (zpoint (dx, dy)))
     (replicate_polygon pts (pads (poly_lines pts) true) (pads (poly_lines pts) false)).
Proof. exact plaquette_translates_drawn_partial. Qed.
Print Assumptions C16_plaquette_translates_drawn_partial.

(* a square plaquette across the corner (1,1) of the cell: four translates are drawn *)
Example C16_plaquette_translates_nonvacuous :
  let pts : polygon := [(5#4, 3#4); (5#4, 5#4); (3#4, 5#4); (3#4, 3#4)] in
  needs_shift pts true (-1)%Z /\ needs_shift pts false (-1)%Z /\
  off_line pts true 0 /\ off_line pts true 1 /\ off_line pts false 0 /\ off_line pts false 1 /\
  length (replicate_polygon pts (pads (poly_lines pts) true) (pads (poly_lines pts) false)) = 4%nat.
Proof.
  cbv zeta. split.
  { right; right. split; [reflexivity|]. split; [exists (5#4, 3#4)|exists (3#4, 3#4)]; (split; [simpl; tauto|vm_compute; reflexivity]). }
  split.
  { right; right. split; [reflexivity|]. split; [exists (5#4, 5#4)|exists (3#4, 3#4)]; (split; [simpl; tauto|vm_compute; reflexivity]). }
  repeat split; try (vm_compute; reflexivity);
    intros v Hv; simpl in Hv; repeat (destruct Hv as [<-|Hv]; [intro K; vm_compute in K; discriminate|]); destruct Hv.
Qed.
