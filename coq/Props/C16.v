(* Props/C16.v — property C16: plots draw the periodic lattice completely, once, and in the
   right colours; label broadcasting; exact segment intersection.
   Model: Model/Plot.v (plotting.py) and Model/Clip.v (exact clipping), over Q.

   NOT covered by a theorem (S/K only): plaquette coverage (Sutherland–Hodgman clipped areas
   sum to the plaquette area, no overlap), vertices at their positions (definitional in the
   model), arrows, the parallel/colinear tolerance branches of line_intersection (K only). *)
From Coq Require Import List ZArith QArith Bool Qminmax Qabs.
From Coq Require Import Lqa Lia.
From Koala Require Import Model.Clip Model.Plot Proofs.ClipFacts Proofs.PlotFacts Proofs.VisFacts Proofs.CoverFacts Proofs.PlaqFacts.
Import ListNotations.

(* ---- clause "labels may be given per element or per subset element with the same result" ----
   for every subset form (slice / mask / index list: [s] is arbitrary).  Side condition: the
   subset does not have exactly N elements, or is the identity — when it has exactly N
   elements a length-N array IS the per-element form by definition (API convention). *)
Theorem C16_broadcast_equiv : forall (C : Type) (N : nat) (s : subset) (lab : list Z) (scheme : list C) (idx : list nat),
  subset_indices N s = Ok idx -> length lab = N -> (length idx <> N \/ idx = seq 0 N) ->
  process_plot_args N s (LList (map (fun i => nth i lab 0%Z) idx)) scheme
  = process_plot_args N s (LList lab) scheme.
Proof. exact @broadcast_equiv. Qed.
Print Assumptions C16_broadcast_equiv.

(* boolean masks: no side condition *)
Theorem C16_broadcast_equiv_mask : forall (C : Type) (N : nat) (m : list bool) (lab : list Z) (scheme : list C) (idx : list nat),
  subset_indices N (SMask m) = Ok idx -> length lab = N ->
  process_plot_args N (SMask m) (LList (map (fun i => nth i lab 0%Z) idx)) scheme
  = process_plot_args N (SMask m) (LList lab) scheme.
Proof. exact @broadcast_equiv_mask. Qed.
Print Assumptions C16_broadcast_equiv_mask.

(* scalar label = constant colour array *)
Theorem C16_broadcast_scalar : forall (C : Type) (N : nat) (s : subset) (z : Z) (scheme : list C) (idx : list nat) (c : C),
  subset_indices N s = Ok idx -> scheme_at scheme z = Ok c ->
  process_plot_args N s (LScalar z) scheme = Ok (idx, repeat c (length idx)).
Proof. exact @broadcast_scalar_constant. Qed.
Print Assumptions C16_broadcast_scalar.

(* wrong length => ValueError *)
Theorem C16_broadcast_wrong_length : forall (C : Type) (N : nat) (s : subset) (lab : list Z) (scheme : list C) (idx : list nat),
  subset_indices N s = Ok idx -> length lab <> N -> length lab <> length idx ->
  process_plot_args N s (LList lab) scheme = Error ValueError.
Proof. exact @broadcast_wrong_length. Qed.
Print Assumptions C16_broadcast_wrong_length.

(* ---- clause "each drawn piece carries the colour selected by that element's label" ----
   element idx[k] of the subset is given colour scheme[lab[idx[k]]] *)
Theorem C16_colours_pointwise : forall (C : Type) (N : nat) (s : subset) (lab : list Z) (scheme : list C) (idx : list nat) (cols : list C),
  length lab = N -> process_plot_args N s (LList lab) scheme = Ok (idx, cols) ->
  subset_indices N s = Ok idx /\ length cols = length idx /\
  forall k d dc, (k < length idx)%nat -> scheme_at scheme (nth (nth k idx d) lab 0%Z) = Ok (nth k cols dc).
Proof. exact @colours_pointwise. Qed.
Print Assumptions C16_colours_pointwise.

(* subset indices are valid element indices, for the three forms *)
Theorem C16_subset_indices_range : forall (N : nat) (s : subset) (idx : list nat),
  subset_indices N s = Ok idx -> Forall (fun i => (i < N)%nat) idx.
Proof. exact subset_indices_range. Qed.
Print Assumptions C16_subset_indices_range.

Open Scope Q_scope.

(* ---- the measure used by the spec checker: the Liang–Barsky interval is exactly the set of
   parameters at which the segment is inside the closed unit cell ---- *)
Theorem C16_clip_interval_correct : forall (s : seg) (t : Q),
  (exists lo hi, clip_interval s = Some (lo, hi) /\ lo <= t /\ t <= hi)
  <-> (0 <= t /\ t <= 1 /\ in_unit_square (seg_point s t)).
Proof. exact clip_interval_correct. Qed.
Print Assumptions C16_clip_interval_correct.

(* ---- clause "every edge appears ... in every periodic image that meets the cell":
   the nine translates of plot_edges suffice ---- *)
Theorem C16_nine_suffice : forall (s : seg) (n m : Z),
  0 <= px (seg_end s) -> px (seg_end s) < 1 -> 0 <= py (seg_end s) -> py (seg_end s) < 1 ->
  -(1) < px (seg_start s) - px (seg_end s) -> px (seg_start s) - px (seg_end s) < 1 ->
  -(1) < py (seg_start s) - py (seg_end s) -> py (seg_start s) - py (seg_end s) < 1 ->
  (2 <= Z.abs n \/ 2 <= Z.abs m)%Z ->
  clip_interval (seg_translate s (zpoint (n, m))) = None.
Proof. exact nine_suffice. Qed.
Print Assumptions C16_nine_suffice.

(* ---- "... appears in full": a translate whose part inside the cell has positive length
   passes the visibility rule (generic position: no end-point coordinate on a cell line,
   segment not through the corner (0,0)) ---- *)
Theorem C16_visibility_complete : forall (s : seg) (lo hi : Q),
  generic_seg s -> misses_origin s ->
  clip_interval s = Some (lo, hi) -> lo < hi ->
  visible s = true.
Proof. exact visibility_complete. Qed.
Print Assumptions C16_visibility_complete.

(* conversely whatever passes the rule meets the closed cell (no hypotheses) *)
Theorem C16_visibility_sound : forall s : seg,
  visible s = true -> exists lo hi, clip_interval s = Some (lo, hi).
Proof. exact visibility_sound. Qed.
Print Assumptions C16_visibility_sound.

(* ---- "... and nowhere twice": the clip intervals of two different integer translates of
   one segment share at most one parameter value (segment not lying on a cell line) ---- *)
Theorem C16_translates_disjoint : forall (s : seg) (d1 d2 : Z * Z) (i1 i2 : Q * Q),
  off_cell_lines s -> d1 <> d2 ->
  clip_interval (seg_translate s (zpoint d1)) = Some i1 ->
  clip_interval (seg_translate s (zpoint d2)) = Some i2 ->
  overlap_len i1 i2 <= 0.
Proof. exact translates_disjoint. Qed.
Print Assumptions C16_translates_disjoint.

(* ---- "the total length of the drawn segments inside the unit cell equals the total length
   of those edges": over the nine translates the clip lengths add up to exactly 1 ... ---- *)
Theorem C16_translates_sum_one : forall s : seg,
  0 <= px (seg_end s) -> px (seg_end s) < 1 -> 0 <= py (seg_end s) -> py (seg_end s) < 1 ->
  -(1) < px (seg_start s) - px (seg_end s) -> px (seg_start s) - px (seg_end s) < 1 ->
  -(1) < py (seg_start s) - py (seg_end s) -> py (seg_start s) - py (seg_end s) < 1 ->
  off_cell_lines s ->
  fold_right Qplus 0 (map (fun d => clip_len (seg_translate s (zpoint d))) nine) == 1.
Proof. exact translates_sum_one. Qed.
Print Assumptions C16_translates_sum_one.

(* ... and the pieces that pass the visibility rule of plot_edges already carry all of it
   (generic position: no end-point coordinate an integer, no cell-grid corner on the edge) *)
Theorem C16_drawn_in_full : forall s : seg,
  0 <= px (seg_end s) -> px (seg_end s) < 1 -> 0 <= py (seg_end s) -> py (seg_end s) < 1 ->
  -(1) < px (seg_start s) - px (seg_end s) -> px (seg_start s) - px (seg_end s) < 1 ->
  -(1) < py (seg_start s) - py (seg_end s) -> py (seg_start s) - py (seg_end s) < 1 ->
  generic_edge s ->
  drawn_len s == 1.
Proof. exact drawn_in_full. Qed.
Print Assumptions C16_drawn_in_full.

(* ---- clause "the segment-intersection helper agrees with exact arithmetic for segments in
   general position" (non-parallel: |d2 x d1| >= tol and d2 x d1 <> 0) ---- *)
Theorem C16_segment_intersection_exact : forall (tol : Q) (l1 l2 : seg),
  ~ dir_cross l1 l2 == 0 -> tol <= Qabs (dir_cross l1 l2) ->
  (line_intersection tol l1 l2 = true <-> segments_meet l1 l2).
Proof. exact segment_intersection_exact. Qed.
Print Assumptions C16_segment_intersection_exact.

(* ---- non-vacuity ---- *)
(* an edge of the honeycomb kind crossing x = 0: two of the nine translates are drawn, the
   clip lengths are 1/3 and 2/3 *)
Definition ex_seg : seg := ((-(1#4), 1#4), (1#8, 5#8)).
Example C16_visibility_complete_nonvacuous :
  clip_len ex_seg == 1#3 /\ visible ex_seg = true /\
  clip_len (seg_translate ex_seg (zpoint (1, 0)%Z)) == 2#3 /\ visible (seg_translate ex_seg (zpoint (1, 0)%Z)) = true /\
  generic_seg ex_seg.
Proof.
  split; [vm_compute; reflexivity|]. split; [vm_compute; reflexivity|].
  split; [vm_compute; reflexivity|]. split; [vm_compute; reflexivity|].
  unfold generic_seg, ex_seg; simpl. repeat split; intro H; vm_compute in H; discriminate.
Qed.
Example C16_broadcast_equiv_nonvacuous :
  subset_indices 5 (SSlice (Some (-1)%Z) None (Some (-2)%Z)) = Ok [4; 2; 0]%nat /\
  process_plot_args 5 (SSlice (Some (-1)%Z) None (Some (-2)%Z)) (LList [0; 1; 2; 1; 0]%Z) [10; 20; 30]%Z
  = Ok ([4; 2; 0]%nat, [10; 30; 10]%Z) /\
  process_plot_args 5 (SSlice (Some (-1)%Z) None (Some (-2)%Z)) (LList [0; 2; 0]%Z) [10; 20; 30]%Z
  = Ok ([4; 2; 0]%nat, [10; 30; 10]%Z).
Proof. repeat split; vm_compute; reflexivity. Qed.
Example C16_segment_intersection_nonvacuous :
  let l1 : seg := ((0, 0), (1, 1)) in let l2 : seg := ((0, 1), (1, 0)) in
  ~ dir_cross l1 l2 == 0 /\ (1 # 100000000000000) <= Qabs (dir_cross l1 l2) /\
  line_intersection (1 # 100000000000000) l1 l2 = true.
Proof. cbv zeta. split; [intro H; vm_compute in H; discriminate|]. split; vm_compute; [intro H; discriminate|reflexivity]. Qed.

Lemma ex_not_int (a : Z) (b : positive) : (forall k : Z, (a <> k * Zpos b)%Z) -> forall k : Z, ~ (a # b) == inject_Z k.
Proof. intros H k E. unfold Qeq in E. simpl in E. apply (H k). lia. Qed.
Example C16_drawn_in_full_nonvacuous :
  generic_edge ex_seg /\ off_cell_lines ex_seg /\
  0 <= px (seg_end ex_seg) /\ px (seg_end ex_seg) < 1 /\ 0 <= py (seg_end ex_seg) /\ py (seg_end ex_seg) < 1 /\
  -(1) < px (seg_start ex_seg) - px (seg_end ex_seg) /\ px (seg_start ex_seg) - px (seg_end ex_seg) < 1 /\
  -(1) < py (seg_start ex_seg) - py (seg_end ex_seg) /\ py (seg_start ex_seg) - py (seg_end ex_seg) < 1 /\
  drawn_len ex_seg == 1 /\
  length (filter (fun d => visible (seg_translate ex_seg (zpoint d))) nine) = 2%nat.
Proof.
  assert (G : generic_edge ex_seg).
  { unfold generic_edge, ex_seg, seg_start, seg_end, seg_point, px, py. cbn [fst snd].
    split; [apply ex_not_int; intro; simpl; lia|]. split; [apply ex_not_int; intro; simpl; lia|].
    split; [apply ex_not_int; intro; simpl; lia|]. split; [apply ex_not_int; intro; simpl; lia|].
    intros t n m Ht0 Ht1 [Hx Hy]. unfold lerp, seg_start, seg_end in Hx, Hy. cbn [fst snd] in Hx, Hy.
    assert (E : inject_Z n - inject_Z m == -(1#2)) by lra.
    assert (E2 : inject_Z (2 * (n - m) + 1) == 0).
    { rewrite inject_Z_plus, inject_Z_mult. unfold Z.sub. rewrite inject_Z_plus, inject_Z_opp.
      change (inject_Z 2) with 2. change (inject_Z 1) with 1. lra. }
    unfold Qeq, inject_Z in E2. cbn [Qnum Qden] in E2. lia. }
  split; [exact G|]. split; [apply generic_edge_off_cell_lines; exact G|].
  unfold ex_seg, seg_start, seg_end, px, py. cbn [fst snd].
  repeat split; try lra; vm_compute; reflexivity.
Qed.

(* ---- plaquettes (PARTIAL, see Proofs/PlaqFacts.v): every translate (dx,dy) in {-1,0,1}^2
   for which the unwrapped polygon has vertices strictly on both sides of the cell line(s) it
   has to reach across is drawn by the replication rule — diagonal translates included ---- *)
Theorem C16_plaquette_translates_drawn_partial : forall (pts : polygon) (dx dy : Z),
  off_line pts true 0 -> off_line pts true 1 -> off_line pts false 0 -> off_line pts false 1 ->
  needs_shift pts true dx -> needs_shift pts false dy ->
  In (ptranslate pts (zpoint (dx, dy)))
     (replicate_polygon pts (pads (poly_lines pts) true) (pads (poly_lines pts) false)).
Proof. exact plaquette_translates_drawn_partial. Qed.
Print Assumptions C16_plaquette_translates_drawn_partial.

(* a square plaquette across the corner (1,1) of the cell: four translates are drawn *)
Example C16_plaquette_translates_nonvacuous :
  let pts : polygon := [(5#4, 3#4); (5#4, 5#4); (3#4, 5#4); (3#4, 3#4)] in
  needs_shift pts true (-1)%Z /\ needs_shift pts false (-1)%Z /\
  off_line pts true 0 /\ off_line pts true 1 /\ off_line pts false 0 /\ off_line pts false 1 /\
  length (replicate_polygon pts (pads (poly_lines pts) true) (pads (poly_lines pts) false)) = 4%nat.
Proof.
  cbv zeta. split.
  { right; right. split; [reflexivity|]. split; [exists (5#4, 3#4)|exists (3#4, 3#4)]; (split; [simpl; tauto|vm_compute; reflexivity]). }
  split.
  { right; right. split; [reflexivity|]. split; [exists (5#4, 5#4)|exists (3#4, 3#4)]; (split; [simpl; tauto|vm_compute; reflexivity]). }
  repeat split; try (vm_compute; reflexivity);
    intros v Hv; simpl in Hv; repeat (destruct Hv as [<-|Hv]; [intro K; vm_compute in K; discriminate|]); destruct Hv.
Qed.

(* ======================================================================================
   PLAQUETTES, second part (supersedes the "NOT covered" note at the top of this file for the
   plaquette clause): the Sutherland–Hodgman clipper and the shoelace area used by the spec
   checker are proved, and the replication rule is tied to the clipped areas.
   Proofs/PolyAreaFacts.v, PolyCellFacts.v, PolyRegionFacts.v, PlaqCoverFacts.v.

   Reading.  pts = the unwrapped vertex list of a plaquette (plaq_points), anticlockwise.
   area2 = twice the signed shoelace area; clipped_area2 = area2 o clip_polygon is exactly what
   the spec check S sums.  region of a polygon: in_poly P p = p on the left of (or on) every
   directed edge; convex_ccw P = every vertex in the region (global convexity).
   All statements are for vertex lists of ANY length.

   NOT covered: non-convex plaquettes have no pointwise theorem at all (for them only the
   signed-area identities C16_clip_area_additive / C16_nine_cells_area / C16_plaquette_drawn_area
   hold, which do not need convexity, and their reading as "area of the region" is not proved);
   that two DIFFERENT translates of one plaquette do not overlap inside the cell is a property
   of the lattice (plaquettes tile the torus, C01), not of the plotting code — "exactly one"
   is proved as: all of the area / every point is drawn (at least once) and each point of the
   unwrapped plaquette reaches the open cell under one offset only (C16_offset_unique);
   C16_clip_halfplane_sound needs the clipped polygon to be strictly convex — derived from the
   input for strictly convex polygons in general position further down (C16_clip_halfplane_exact,
   C16_cell_exact); convex polygons with collinear or repeated vertices, or with a vertex on a
   cell line, only have the inclusion C16_clip_halfplane_complete; that area2 of a convex
   anticlockwise polygon is twice the Lebesgue measure of its region is the definition of area
   used here (no measure theory). ====================================================== *)
From Koala Require Import Proofs.PolyAreaFacts Proofs.PolyCellFacts Proofs.PolyRegionFacts Proofs.PlaqCoverFacts.

(* ---- the clipper, one half-plane  coord >= v (ge = true) / coord <= v (ge = false),
   coord = x (xaxis = true) or y ---- *)
(* area additivity: the two sides of any clip line share the (signed) area — every polygon *)
Theorem C16_clip_area_additive : forall (xaxis : bool) (v : Q) (P : polygon),
  area2 (sh_clip1 xaxis v true P) + area2 (sh_clip1 xaxis v false P) == area2 P.
Proof. exact clip_area_add. Qed.
Print Assumptions C16_clip_area_additive.

(* clipping at v1 and then at v2 > v1 has the area of clipping at v2 *)
Theorem C16_clip_area_absorb : forall (xaxis : bool) (v1 v2 : Q) (P : polygon), v1 < v2 ->
  area2 (sh_clip1 xaxis v2 true (sh_clip1 xaxis v1 true P)) == area2 (sh_clip1 xaxis v2 true P).
Proof. exact clip_area_absorb. Qed.
Print Assumptions C16_clip_area_absorb.

(* every vertex of the clipped polygon is a point of region(P) inside the half-plane *)
Theorem C16_clip_vertices_sound : forall (xaxis : bool) (v : Q) (ge : bool) (P : polygon),
  convex_ccw P ->
  Forall (fun w => in_poly P w /\ hp_inside xaxis v ge w = true) (sh_clip1 xaxis v ge P).
Proof. exact clip_vertices_sound. Qed.
Print Assumptions C16_clip_vertices_sound.

(* complete: region(P) /\ half-plane is contained in region(clip P) — every convex polygon,
   no general-position hypothesis *)
Theorem C16_clip_halfplane_complete : forall (xaxis : bool) (v : Q) (ge : bool) (P : polygon) (p : point),
  convex_ccw P -> in_poly P p -> hp_inside xaxis v ge p = true -> in_poly (sh_clip1 xaxis v ge P) p.
Proof. exact clip_halfplane_complete. Qed.
Print Assumptions C16_clip_halfplane_complete.

(* the clipped polygon is again convex anticlockwise *)
Theorem C16_clip_convex : forall (xaxis : bool) (v : Q) (ge : bool) (P : polygon),
  convex_ccw P -> convex_ccw (sh_clip1 xaxis v ge P).
Proof. exact clip_convex. Qed.
Print Assumptions C16_clip_convex.

(* sound: region(clip P) is contained in region(P) /\ half-plane, for a strictly convex
   non-empty output (false without: an output reduced to a point has the whole plane as
   "region") *)
Theorem C16_clip_halfplane_sound : forall (xaxis : bool) (v : Q) (ge : bool) (P : polygon) (p : point),
  convex_ccw P -> strictly_convex (sh_clip1 xaxis v ge P) -> sh_clip1 xaxis v ge P <> [] ->
  in_poly (sh_clip1 xaxis v ge P) p -> in_poly P p /\ hp_inside xaxis v ge p = true.
Proof. exact clip_halfplane_sound. Qed.
Print Assumptions C16_clip_halfplane_sound.

(* the four clips of clip_polygon: region(P) /\ closed unit cell  =  region(clip_polygon P) *)
Theorem C16_cell_complete : forall (P : polygon) (p : point),
  convex_ccw P -> in_poly P p -> in_unit_square p -> in_poly (clip_polygon P) p.
Proof. exact cell_complete. Qed.
Print Assumptions C16_cell_complete.
Theorem C16_cell_sound : forall (P : polygon) (p : point),
  convex_ccw P -> proper (stage1 P) -> proper (stage2 P) -> proper (stage3 P) -> proper (clip_polygon P) ->
  in_poly (clip_polygon P) p -> in_poly P p /\ in_unit_square p.
Proof. exact cell_sound. Qed.
Print Assumptions C16_cell_sound.

(* ---- "covered exactly once", in measure: a polygon inside the 3x3 block of cells — the clipped
   areas of its nine integer translates add up to its area (the pieces are the polygon cut
   along the cell lines, moved into the cell) ---- *)
Theorem C16_nine_cells_area : forall P : polygon, in_block P ->
  fold_right Qplus 0 (map (fun d => clipped_area2 (ptranslate P (zpoint d))) nine) == area2 P.
Proof. exact nine_cells_area. Qed.
Print Assumptions C16_nine_cells_area.

(* translates by 2 or more never reach the cell *)
Theorem C16_plaquette_nine_suffice : forall (pts : polygon) (dx dy : Z),
  in_open_block pts -> (2 <= Z.abs dx \/ 2 <= Z.abs dy)%Z ->
  clipped_area2 (ptranslate pts (zpoint (dx, dy))) == 0.
Proof. exact plaquette_nine_suffice. Qed.
Print Assumptions C16_plaquette_nine_suffice.

(* each point of the unwrapped plaquette is inside the open cell under at most one offset *)
Theorem C16_offset_unique : forall (c : Q) (a b : Z),
  0 < c + inject_Z a -> c + inject_Z a < 1 -> 0 < c + inject_Z b -> c + inject_Z b < 1 -> a = b.
Proof. exact offset_unique. Qed.
Print Assumptions C16_offset_unique.

(* ---- the replication rule of plot_plaquettes (generic position: no vertex on a cell line;
   one vertex in the cell: the walk of plot_plaquettes ends at a stored position) ---- *)
(* a translate whose clipped area is not zero is drawn *)
Theorem C16_plaquette_cover_translates : forall (pts : polygon) (dx dy : Z),
  off_line pts true 0 -> off_line pts true 1 -> off_line pts false 0 -> off_line pts false 1 ->
  has_cell_vertex pts ->
  (dx = (-1)%Z \/ dx = 0%Z \/ dx = 1%Z) -> (dy = (-1)%Z \/ dy = 0%Z \/ dy = 1%Z) ->
  ~ clipped_area2 (ptranslate pts (zpoint (dx, dy))) == 0 ->
  In (ptranslate pts (zpoint (dx, dy)))
     (replicate_polygon pts (pads (poly_lines pts) true) (pads (poly_lines pts) false)).
Proof. exact plaquette_cover_translates. Qed.
Print Assumptions C16_plaquette_cover_translates.

(* the drawn polygons carry all of the plaquette's area *)
Theorem C16_plaquette_drawn_area : forall pts : polygon,
  off_line pts true 0 -> off_line pts true 1 -> off_line pts false 0 -> off_line pts false 1 ->
  has_cell_vertex pts -> in_block pts ->
  fold_right Qplus 0 (map clipped_area2
     (replicate_polygon pts (pads (poly_lines pts) true) (pads (poly_lines pts) false))) == area2 pts.
Proof. exact plaquette_drawn_area. Qed.
Print Assumptions C16_plaquette_drawn_area.

(* pointwise, strictly convex plaquettes: a point r of the plaquette that lies in the open cell
   under the offset (dx,dy) — any integers — is covered: that translate is drawn *)
Theorem C16_plaquette_cover_pointwise : forall (pts : polygon) (r : point) (dx dy : Z),
  strictly_convex pts ->
  off_line pts true 0 -> off_line pts true 1 -> off_line pts false 0 -> off_line pts false 1 ->
  has_cell_vertex pts -> in_block pts ->
  in_poly pts r -> in_open_cell (padd r (zpoint (dx, dy))) ->
  In (ptranslate pts (zpoint (dx, dy)))
     (replicate_polygon pts (pads (poly_lines pts) true) (pads (poly_lines pts) false)).
Proof. exact plaquette_cover_pointwise. Qed.
Print Assumptions C16_plaquette_cover_pointwise.

(* the drawn polygons are translates by pairwise different offsets out of the nine *)
Theorem C16_replicate_offsets_nodup : forall (pts : polygon) (lines : list seg),
  exists ds : list (Z * Z), NoDup ds /\ incl ds nine /\
    replicate_polygon pts (pads lines true) (pads lines false) = map (fun d => ptranslate pts (zpoint d)) ds.
Proof. exact replicate_offsets_nodup. Qed.
Print Assumptions C16_replicate_offsets_nodup.

(* ---- non-vacuity: a hexagon (honeycomb plaquette) around the cell corner (1,1) ---- *)
Definition ex_hex : polygon :=
  [(53#40, 21#20); (47#40, 13#10); (7#8, 13#10); (29#40, 21#20); (7#8, 4#5); (47#40, 4#5)].
Definition ex_hex_drawn : list polygon :=
  replicate_polygon ex_hex (pads (poly_lines ex_hex) true) (pads (poly_lines ex_hex) false).

Lemma ex_hex_off (xaxis : bool) (l : Q) : (l = 0 \/ l = 1) -> off_line ex_hex xaxis l.
Proof.
  intros [-> | ->] w Hw; destruct xaxis; unfold ex_hex in Hw; cbn [In] in Hw;
    repeat (destruct Hw as [<-|Hw]; [intro K; vm_compute in K; discriminate|]); destruct Hw.
Qed.

Example C16_plaquette_cover_nonvacuous :
  convex_ccw ex_hex /\ strictly_convex ex_hex /\
  off_line ex_hex true 0 /\ off_line ex_hex true 1 /\ off_line ex_hex false 0 /\ off_line ex_hex false 1 /\
  has_cell_vertex ex_hex /\ in_block ex_hex /\
  (* four polygons are drawn, the offsets (-1,-1) (-1,0) (0,-1) (0,0) *)
  ex_hex_drawn = map (fun d => ptranslate ex_hex (zpoint d)) [(-1, -1); (-1, 0); (0, -1); (0, 0)]%Z /\
  (* their clipped areas: each positive, together the hexagon's *)
  Forall (fun Q0 => 0 < clipped_area2 Q0) ex_hex_drawn /\
  fold_right Qplus 0 (map clipped_area2 ex_hex_drawn) == area2 ex_hex /\ 0 < area2 ex_hex /\
  (* the other five translates have clipped area 0 *)
  Forall (fun d => clipped_area2 (ptranslate ex_hex (zpoint d)) == 0) [(-1, 1); (0, 1); (1, -1); (1, 0); (1, 1)]%Z /\
  (* the cell corner (1,1) is a point of the hexagon; it is in the clipped piece of the drawn translate (0,0) *)
  in_poly ex_hex (1, 1) /\ in_poly (clip_polygon ex_hex) (1, 1).
Proof.
  assert (HC : convex_ccw ex_hex) by (apply convex_ccwb_sound; vm_compute; reflexivity).
  assert (HI : in_poly ex_hex (1, 1)).
  { intros e He. unfold edges, ex_hex in He. cbn [last edges_from In] in He.
    repeat (destruct He as [<-|He]; [unfold left_of; cbn [fst snd]; apply Qleb_iff; vm_compute; reflexivity|]). destruct He. }
  split; [exact HC|]. split; [apply strictly_convexb_sound; vm_compute; reflexivity|].
  split; [apply ex_hex_off; tauto|]. split; [apply ex_hex_off; tauto|].
  split; [apply ex_hex_off; tauto|]. split; [apply ex_hex_off; tauto|].
  split. { exists (7#8, 4#5). split; [unfold ex_hex; cbn [In]; tauto|]. unfold in_cell, px, py; cbn [fst snd]. repeat split; apply Qleb_iff || apply Qltb_iff; vm_compute; reflexivity. }
  split. { unfold in_block, ex_hex. repeat (apply Forall_cons || apply Forall_nil);
           unfold px, py; cbn [fst snd]; repeat split; apply Qleb_iff; vm_compute; reflexivity. }
  split; [vm_compute; reflexivity|].
  split. { assert (E : forallb (fun Q0 => Qltb 0 (clipped_area2 Q0)) ex_hex_drawn = true) by (vm_compute; reflexivity).
           rewrite forallb_forall in E. apply Forall_forall. intros Q0 HQ. apply Qltb_iff. exact (E Q0 HQ). }
  split; [apply Qeqb_iff; vm_compute; reflexivity|]. split; [apply Qltb_iff; vm_compute; reflexivity|].
  split. { repeat (apply Forall_cons || apply Forall_nil); apply Qeqb_iff; vm_compute; reflexivity. }
  split; [exact HI|].
  apply cell_complete; [exact HC|exact HI|]. unfold in_unit_square, px, py; cbn [fst snd]. repeat split; apply Qleb_iff; vm_compute; reflexivity.
Qed.

(* the hypotheses of C16_cell_sound hold for every drawn translate of the hexagon: each of the
   four clipping stages yields a strictly convex, non-empty polygon *)
Example C16_cell_sound_nonvacuous :
  Forall (fun Q0 => convex_ccw Q0 /\ proper (stage1 Q0) /\ proper (stage2 Q0) /\ proper (stage3 Q0) /\ proper (clip_polygon Q0))
         ex_hex_drawn.
Proof.
  assert (E : forallb (fun Q0 => convex_ccwb Q0 &&
      forallb (fun S0 => strictly_convexb S0 && negb (Nat.eqb (length S0) 0)) [stage1 Q0; stage2 Q0; stage3 Q0; clip_polygon Q0]) ex_hex_drawn = true)
    by (vm_compute; reflexivity).
  rewrite forallb_forall in E. apply Forall_forall. intros Q0 HQ. pose proof (E Q0 HQ) as K.
  apply andb_true_iff in K. destruct K as [K1 K2]. rewrite forallb_forall in K2.
  assert (P0 : forall S0, In S0 [stage1 Q0; stage2 Q0; stage3 Q0; clip_polygon Q0] -> proper S0).
  { intros S0 HS. pose proof (K2 S0 HS) as K3. apply andb_true_iff in K3. destruct K3 as [K4 K5].
    split; [apply strictly_convexb_sound; exact K4|]. intro E0. rewrite E0 in K5. discriminate. }
  split; [apply convex_ccwb_sound; exact K1|].
  repeat split; apply P0; cbn [In]; tauto.
Qed.

(* ---- the same two statements on the model of plot_plaquettes itself: plaq_polygons L pl is
   the list of polygons handed to PolyCollection, plaq_points L pl the unwrapped walk ---- *)
Theorem C16_plaq_polygons_drawn_area : forall (L : plat) (pl : plaq),
  let pts := plaq_points L pl in
  off_line pts true 0 -> off_line pts true 1 -> off_line pts false 0 -> off_line pts false 1 ->
  has_cell_vertex pts -> in_block pts ->
  fold_right Qplus 0 (map clipped_area2 (plaq_polygons L pl)) == area2 pts.
Proof. exact plaq_polygons_drawn_area. Qed.
Print Assumptions C16_plaq_polygons_drawn_area.

Theorem C16_plaq_polygons_cover_pointwise : forall (L : plat) (pl : plaq) (r : point) (dx dy : Z),
  let pts := plaq_points L pl in
  strictly_convex pts ->
  off_line pts true 0 -> off_line pts true 1 -> off_line pts false 0 -> off_line pts false 1 ->
  has_cell_vertex pts -> in_block pts ->
  in_poly pts r -> in_open_cell (padd r (zpoint (dx, dy))) ->
  In (ptranslate pts (zpoint (dx, dy))) (plaq_polygons L pl).
Proof. exact plaq_polygons_cover_pointwise. Qed.
Print Assumptions C16_plaq_polygons_cover_pointwise.

(* ---- EXACT regions (Proofs/PolyStrictFacts.v, PolyExactFacts.v): for a strictly convex polygon in
   general position the hypothesis of C16_clip_halfplane_sound on the OUTPUT is discharged — the
   clipped polygon is strictly convex again — so all hypotheses are on the input polygon ---- *)
From Koala Require Import Proofs.PolyStrictFacts Proofs.PolyExactFacts.

Theorem C16_clip_strictly_convex : forall (xaxis : bool) (v : Q) (ge : bool) (P : polygon),
  convex_ccw P -> strictly_convex P -> generic_line xaxis v P -> strictly_convex (sh_clip1 xaxis v ge P).
Proof. exact clip_strictly_convex. Qed.
Print Assumptions C16_clip_strictly_convex.

(* clip_halfplane_sound + complete: the region of the clipped polygon is exactly the
   intersection (no vertex on the clip line, one vertex inside the half-plane) *)
Theorem C16_clip_halfplane_exact : forall (xaxis : bool) (v : Q) (ge : bool) (P : polygon) (p : point),
  convex_ccw P -> strictly_convex P -> generic_line xaxis v P ->
  (exists w, In w P /\ hp_inside xaxis v ge w = true) ->
  (in_poly (sh_clip1 xaxis v ge P) p <-> in_poly P p /\ hp_inside xaxis v ge p = true).
Proof. exact clip_halfplane_exact. Qed.
Print Assumptions C16_clip_halfplane_exact.

(* the unit cell (apply it to a drawn translate Q0 = ptranslate pts (zpoint d)): a point is in the
   region of clip_polygon Q0 iff it is a point of Q0 inside the closed cell.  General position: no
   vertex on a cell line, no cell corner on the line of an edge; the piece is non-empty (it is
   when clipped_area2 Q0 is not 0). *)
Theorem C16_cell_exact : forall (Q0 : polygon) (p : point),
  convex_ccw Q0 -> strictly_convex Q0 ->
  generic_line true 0 Q0 -> generic_line true 1 Q0 -> generic_line false 0 Q0 -> generic_line false 1 Q0 ->
  no_corner_on_boundary Q0 -> clip_polygon Q0 <> [] ->
  (in_poly (clip_polygon Q0) p <-> in_poly Q0 p /\ in_unit_square p).
Proof. exact cell_exact. Qed.
Print Assumptions C16_cell_exact.

Theorem C16_cell_strictly_convex : forall Q0 : polygon,
  convex_ccw Q0 -> strictly_convex Q0 ->
  generic_line true 0 Q0 -> generic_line true 1 Q0 -> generic_line false 0 Q0 -> generic_line false 1 Q0 ->
  no_corner_on_boundary Q0 -> convex_ccw (clip_polygon Q0) /\ strictly_convex (clip_polygon Q0).
Proof. exact cell_strictly_convex. Qed.
Print Assumptions C16_cell_strictly_convex.

(* the same with all hypotheses as one executable test *)
Theorem C16_cell_exact_checked : forall (Q0 : polygon) (p : point), cell_hypsb Q0 = true ->
  (in_poly (clip_polygon Q0) p <-> in_poly Q0 p /\ in_unit_square p).
Proof. exact cell_exact_checked. Qed.
Print Assumptions C16_cell_exact_checked.

(* non-vacuity: every drawn translate of the hexagon around the corner (1,1) satisfies the
   hypotheses of C16_cell_exact; the four clipped pieces have 5, 4, 5 and 4 vertices *)
Example C16_cell_exact_nonvacuous :
  Forall (fun Q0 => cell_hypsb Q0 = true) ex_hex_drawn /\
  map (fun Q0 => length (clip_polygon Q0)) ex_hex_drawn = [5; 4; 5; 4]%nat.
Proof. split; [repeat (apply Forall_cons || apply Forall_nil)|]; vm_compute; reflexivity. Qed.

(* ---- the plaquette clause pointwise (Proofs/PlaqPointFacts.v): "every point of the unit cell
   inside a selected plaquette is covered by a drawn polygon" — r a point of the unwrapped
   plaquette, (dx,dy) ANY integer offset bringing it into the open cell: the translate by (dx,dy)
   is drawn and r+(dx,dy) lies in the region of its clipped piece.  Strictly convex plaquettes,
   general position.  ("by exactly one": the offset is unique, C16_offset_unique; that pieces of
   DIFFERENT translates do not overlap is the lattice's tiling property, not proved here.) ---- *)
From Koala Require Import Proofs.PlaqPointFacts.
Theorem C16_plaquette_point_covered : forall (pts : polygon) (r : point) (dx dy : Z),
  convex_ccw pts -> strictly_convex pts ->
  off_line pts true 0 -> off_line pts true 1 -> off_line pts false 0 -> off_line pts false 1 ->
  has_cell_vertex pts -> in_block pts ->
  in_poly pts r -> in_open_cell (padd r (zpoint (dx, dy))) ->
  exists Q0, In Q0 (replicate_polygon pts (pads (poly_lines pts) true) (pads (poly_lines pts) false)) /\
             Q0 = ptranslate pts (zpoint (dx, dy)) /\
             in_poly Q0 (padd r (zpoint (dx, dy))) /\
             in_poly (clip_polygon Q0) (padd r (zpoint (dx, dy))).
Proof. exact plaquette_point_covered. Qed.
Print Assumptions C16_plaquette_point_covered.

(* non-vacuity: the point (41/40, 21/20) of the hexagon (its centre) falls into the open cell under
   the offset (-1,-1) *)
Example C16_plaquette_point_covered_nonvacuous :
  in_poly ex_hex (41#40, 21#20) /\ in_open_cell (padd (41#40, 21#20) (zpoint (-1, -1)%Z)) /\
  In (ptranslate ex_hex (zpoint (-1, -1)%Z)) ex_hex_drawn.
Proof.
  split.
  { intros e He. unfold edges, ex_hex in He. cbn [last edges_from In] in He.
    repeat (destruct He as [<-|He]; [unfold left_of; cbn [fst snd]; apply Qleb_iff; vm_compute; reflexivity|]). destruct He. }
  split; [unfold in_open_cell, padd, zpoint, px, py; cbn [fst snd]; repeat split; apply Qltb_iff; vm_compute; reflexivity|].
  vm_compute. tauto.
Qed.
