(* Props/C16.v — property C16: plots draw the periodic lattice completely, once, in the right colours. *)
From Coq Require Import List ZArith QArith Bool.
From Koala Require Import Model.Clip Model.Plot Proofs.ClipFacts Proofs.PlotFacts.
Import ListNotations.

(* clause "labels ... scalar label = constant array" *)
Theorem C16_broadcast_scalar : forall (z : Z) (idx : list nat) (N : nat),
  Forall (fun i => (i < N)%nat) idx ->
  broadcast_args (LScalar z) idx N = Ok (repeat z (length idx)).
Proof. exact broadcast_scalar. Qed.
Print Assumptions C16_broadcast_scalar.
