(* Props/C16.v — property C16: plots draw the periodic lattice completely, once, and in the
   right colours; label broadcasting; exact segment intersection.
   Model: Model/Plot.v (plotting.py) and Model/Clip.v (exact clipping), over Q.

   NOT covered by a theorem (S/K only): plaquette coverage (Sutherland–Hodgman clipped areas
   sum to the plaquette area, no overlap), vertices at their positions (definitional in the
   model), arrows, the parallel/colinear tolerance branches of line_intersection (K only). *)
From Coq Require Import List ZArith QArith Bool Qminmax Qabs.
From Koala Require Import Model.Clip Model.Plot Proofs.ClipFacts Proofs.PlotFacts Proofs.VisFacts.
Import ListNotations.

(* ---- clause "labels may be given per element or per subset element with the same result" ----
   for every subset form (slice / mask / index list: [s] is arbitrary).  Side condition: the
   subset does not have exactly N elements, or is the identity — when it has exactly N
   elements a length-N array IS the per-element form by definition (API convention). *)
Theorem C16_broadcast_equiv : forall (C : Type) (N : nat) (s : subset) (lab : list Z) (scheme : list C) (idx : list nat),
  subset_indices N s = Ok idx -> length lab = N -> (length idx <> N \/ idx = seq 0 N) ->
  process_plot_args N s (LList (map (fun i => nth i lab 0%Z) idx)) scheme
  = process_plot_args N s (LList lab) scheme.
Proof. exact @broadcast_equiv. Qed.
Print Assumptions C16_broadcast_equiv.

(* boolean masks: no side condition *)
Theorem C16_broadcast_equiv_mask : forall (C : Type) (N : nat) (m : list bool) (lab : list Z) (scheme : list C) (idx : list nat),
  subset_indices N (SMask m) = Ok idx -> length lab = N ->
  process_plot_args N (SMask m) (LList (map (fun i => nth i lab 0%Z) idx)) scheme
  = process_plot_args N (SMask m) (LList lab) scheme.
Proof. exact @broadcast_equiv_mask. Qed.
Print Assumptions C16_broadcast_equiv_mask.

(* scalar label = constant colour array *)
Theorem C16_broadcast_scalar : forall (C : Type) (N : nat) (s : subset) (z : Z) (scheme : list C) (idx : list nat) (c : C),
  subset_indices N s = Ok idx -> scheme_at scheme z = Ok c ->
  process_plot_args N s (LScalar z) scheme = Ok (idx, repeat c (length idx)).
Proof. exact @broadcast_scalar_constant. Qed.
Print Assumptions C16_broadcast_scalar.

(* wrong length => ValueError *)
Theorem C16_broadcast_wrong_length : forall (C : Type) (N : nat) (s : subset) (lab : list Z) (scheme : list C) (idx : list nat),
  subset_indices N s = Ok idx -> length lab <> N -> length lab <> length idx ->
  process_plot_args N s (LList lab) scheme = Error ValueError.
Proof. exact @broadcast_wrong_length. Qed.
Print Assumptions C16_broadcast_wrong_length.

(* ---- clause "each drawn piece carries the colour selected by that element's label" ----
   element idx[k] of the subset is given colour scheme[lab[idx[k]]] *)
Theorem C16_colours_pointwise : forall (C : Type) (N : nat) (s : subset) (lab : list Z) (scheme : list C) (idx : list nat) (cols : list C),
  length lab = N -> process_plot_args N s (LList lab) scheme = Ok (idx, cols) ->
  subset_indices N s = Ok idx /\ length cols = length idx /\
  forall k d dc, (k < length idx)%nat -> scheme_at scheme (nth (nth k idx d) lab 0%Z) = Ok (nth k cols dc).
Proof. exact @colours_pointwise. Qed.
Print Assumptions C16_colours_pointwise.

(* subset indices are valid element indices, for the three forms *)
Theorem C16_subset_indices_range : forall (N : nat) (s : subset) (idx : list nat),
  subset_indices N s = Ok idx -> Forall (fun i => (i < N)%nat) idx.
Proof. exact subset_indices_range. Qed.
Print Assumptions C16_subset_indices_range.

Open Scope Q_scope.

(* ---- the measure used by the spec checker: the Liang–Barsky interval is exactly the set of
   parameters at which the segment is inside the closed unit cell ---- *)
Theorem C16_clip_interval_correct : forall (s : seg) (t : Q),
  (exists lo hi, clip_interval s = Some (lo, hi) /\ lo <= t /\ t <= hi)
  <-> (0 <= t /\ t <= 1 /\ in_unit_square (seg_point s t)).
Proof. exact clip_interval_correct. Qed.
Print Assumptions C16_clip_interval_correct.

(* ---- clause "every edge appears ... in every periodic image that meets the cell":
   the nine translates of plot_edges suffice ---- *)
Theorem C16_nine_suffice : forall (s : seg) (n m : Z),
  0 <= px (seg_end s) -> px (seg_end s) < 1 -> 0 <= py (seg_end s) -> py (seg_end s) < 1 ->
  -(1) < px (seg_start s) - px (seg_end s) -> px (seg_start s) - px (seg_end s) < 1 ->
  -(1) < py (seg_start s) - py (seg_end s) -> py (seg_start s) - py (seg_end s) < 1 ->
  (2 <= Z.abs n \/ 2 <= Z.abs m)%Z ->
  clip_interval (seg_translate s (zpoint (n, m))) = None.
Proof. exact nine_suffice. Qed.
Print Assumptions C16_nine_suffice.

(* ---- "... appears in full": a translate whose part inside the cell has positive length
   passes the visibility rule (generic position: no end-point coordinate on a cell line,
   segment not through the corner (0,0)) ---- *)
Theorem C16_visibility_complete : forall (s : seg) (lo hi : Q),
  generic_seg s -> misses_origin s ->
  clip_interval s = Some (lo, hi) -> lo < hi ->
  visible s = true.
Proof. exact visibility_complete. Qed.
Print Assumptions C16_visibility_complete.

(* conversely whatever passes the rule meets the closed cell (no hypotheses) *)
Theorem C16_visibility_sound : forall s : seg,
  visible s = true -> exists lo hi, clip_interval s = Some (lo, hi).
Proof. exact visibility_sound. Qed.
Print Assumptions C16_visibility_sound.

(* ---- clause "the segment-intersection helper agrees with exact arithmetic for segments in
   general position" (non-parallel: |d2 x d1| >= tol and d2 x d1 <> 0) ---- *)
Theorem C16_segment_intersection_exact : forall (tol : Q) (l1 l2 : seg),
  ~ dir_cross l1 l2 == 0 -> tol <= Qabs (dir_cross l1 l2) ->
  (line_intersection tol l1 l2 = true <-> segments_meet l1 l2).
Proof. exact segment_intersection_exact. Qed.
Print Assumptions C16_segment_intersection_exact.

(* ---- non-vacuity ---- *)
(* an edge of the honeycomb kind crossing x = 0: two of the nine translates are drawn, the
   clip lengths are 1/3 and 2/3 *)
Definition ex_seg : seg := ((-(1#4), 1#4), (1#8, 5#8)).
Example C16_visibility_complete_nonvacuous :
  clip_len ex_seg == 1#3 /\ visible ex_seg = true /\
  clip_len (seg_translate ex_seg (zpoint (1, 0)%Z)) == 2#3 /\ visible (seg_translate ex_seg (zpoint (1, 0)%Z)) = true /\
  generic_seg ex_seg.
Proof.
  split; [vm_compute; reflexivity|]. split; [vm_compute; reflexivity|].
  split; [vm_compute; reflexivity|]. split; [vm_compute; reflexivity|].
  unfold generic_seg, ex_seg; simpl. repeat split; intro H; vm_compute in H; discriminate.
Qed.
Example C16_broadcast_equiv_nonvacuous :
  subset_indices 5 (SSlice (Some (-1)%Z) None (Some (-2)%Z)) = Ok [4; 2; 0]%nat /\
  process_plot_args 5 (SSlice (Some (-1)%Z) None (Some (-2)%Z)) (LList [0; 1; 2; 1; 0]%Z) [10; 20; 30]%Z
  = Ok ([4; 2; 0]%nat, [10; 30; 10]%Z) /\
  process_plot_args 5 (SSlice (Some (-1)%Z) None (Some (-2)%Z)) (LList [0; 2; 0]%Z) [10; 20; 30]%Z
  = Ok ([4; 2; 0]%nat, [10; 30; 10]%Z).
Proof. repeat split; vm_compute; reflexivity. Qed.
Example C16_segment_intersection_nonvacuous :
  let l1 : seg := ((0, 0), (1, 1)) in let l2 : seg := ((0, 1), (1, 0)) in
  ~ dir_cross l1 l2 == 0 /\ (1 # 100000000000000) <= Qabs (dir_cross l1 l2) /\
  line_intersection (1 # 100000000000000) l1 l2 = true.
Proof. cbv zeta. split; [intro H; vm_compute in H; discriminate|]. split; vm_compute; [intro H; discriminate|reflexivity]. Qed.
