(* Props/C02.v — all adjacency tables of a lattice agree with its edges and plaquettes; same values
   whatever the order of first access; the query helpers agree with the tables (property C02).

   Model: Model/Lattice.v (tables), Model/Cache.v (cached_property state machine), Model/Queries.v
   (graph_utils helpers), Model/TableSpec.v (boolean hypotheses).  Numbers are exact: positions are
   integers scaled by [scale L]; INVALID is modelled by [None].

   NOT covered by a theorem here (S/K only, see harness/c02.py):
   * (now PROVED, see C02_sweep_satisfies_table_hypotheses at the end: the plaquette list produced by the
     sweep satisfies [plaq_list_ok] for EVERY well-formed lattice without self-loops — from C01's
     Proofs/LatticeFacts.v via Proofs/PlaqListOk.v — so the table theorems below hold unconditionally
     for the real plaquette list; the harness still evaluates the boolean on every generated lattice);
   * "clockwise_about is the table row in reverse cyclic order" is proved at vertices in generic position
     ([generic_at]: no self-loop, no zero vector, no two edges in the same direction); elsewhere only
     "same edge set, sorted for its own exact comparator";
   * the float arctan2 of the implementation versus the exact comparators (K with margin skip);
   * pickle transporting the state tuple (C09); an unpickled lattice starts in [cinit] because
     __setstate__ calls __init__, so C02_cache_history_independent applies to it verbatim. *)
From Coq Require Import List ZArith Bool Arith Permutation Sorted.
From Koala Require Import Model.Lattice Model.TableSpec Model.Cache Model.Queries.
From Koala Require Import Proofs.TablesFacts Proofs.SortFacts Proofs.PlaqTablesFacts Proofs.CacheFacts Proofs.QueriesFacts Proofs.CyclicFacts Proofs.SweepShapeFacts.
From Koala Require Import Proofs.LatticeFacts Proofs.PlaqListOk.
Import ListNotations.

(* ---- clause: "for every vertex the incident-edge list is complete and in clockwise cyclic order
   starting after 12 o'clock".  Row v of the table is a duplicate-free permutation of the edges
   touching v; no entry is followed by one with a strictly larger key alpha = arctan2(-x, y) mod 2pi
   (exact comparator ang_lt: descending alpha = clockwise from just after 12 o'clock, 12 o'clock itself
   last); if no outward vector is zero the order is global (StronglySorted). *)
Theorem C02_adjacent_edges_complete_sorted : forall L,
  length (adj_table L) = nV L /\
  forall v, (v < nV L)%nat ->
    let row := nth v (adj_table L) [] in
    Permutation row (incident L v) /\
    NoDup row /\
    (forall e, In e row <-> (e < nE L)%nat /\ (fst (edge_at L e) = v \/ snd (edge_at L e) = v)) /\
    Sorted (fun a b => ang_lt (outvec L v a) (outvec L v b) = false) row /\
    ((forall e, In e row -> outvec L v e <> vzero) ->
     StronglySorted (fun a b => ang_lt (outvec L v a) (outvec L v b) = false) row).
Proof. exact adjacent_edges_complete_sorted_lemma. Qed.
Print Assumptions C02_adjacent_edges_complete_sorted.

(* ---- clause: "coordination numbers count the edge ends at every vertex": one entry for EVERY vertex
   (isolated ones and the highest index included), equal to the number of edge ends at it *)
Theorem C02_coordination_counts_ends : forall L,
  length (coordination L) = nV L /\
  forall v, (v < nV L)%nat -> nth v (coordination L) 0%nat = ends_at v (edges L).
Proof. exact coordination_lemma. Qed.
Print Assumptions C02_coordination_counts_ends.

(* the table as coded before fix 6a0729e (np.bincount without minlength) is NOT one entry per vertex:
   triangle + isolated vertex 3.  (The harness replays this input on the implementation.) *)
Theorem C02_coordination_without_minlength_refuted :
  exists L v, wf_lattice L = true /\ (v < nV L)%nat /\ nth_error (coordination_bincount L) v = None.
Proof. exact coordination_bincount_short. Qed.
Print Assumptions C02_coordination_without_minlength_refuted.

(* ---- clause: "edge vectors equal end minus start plus crossing" *)
Theorem C02_vectors_def : forall L,
  length (vectors L) = nE L /\
  forall e, (e < nE L)%nat ->
    nth e (vectors L) vzero =
    vadd (vsub (pos_at L (snd (edge_at L e))) (pos_at L (fst (edge_at L e))))
         (vscale (scale L) (cross_at L e)).
Proof. exact vectors_def_lemma. Qed.
Print Assumptions C02_vectors_def.

(* ---- clause: "an edge's neighbours are exactly the other edges sharing a vertex with it" *)
Theorem C02_edge_neighbours_exact : forall L e,
  (forall f, In f (edge_neighbours L e) <->
     (f < nE L)%nat /\ f <> e /\
     (fst (edge_at L e) = fst (edge_at L f) \/ fst (edge_at L e) = snd (edge_at L f) \/
      snd (edge_at L e) = fst (edge_at L f) \/ snd (edge_at L e) = snd (edge_at L f)))
  /\ NoDup (edge_neighbours L e) /\ StronglySorted lt (edge_neighbours L e).
Proof. exact edge_neighbours_exact_lemma. Qed.
Print Assumptions C02_edge_neighbours_exact.

(* ---- clause: "the adjacency matrix is symmetric with True exactly at joined pairs" *)
Theorem C02_adjacency_matrix_sym_exact : forall L i j,
  adjacency_true L i j = adjacency_true L j i /\
  (adjacency_true L i j = true <-> (In (i, j) (edges L) \/ In (j, i) (edges L))).
Proof. exact adjacency_sym_exact_lemma. Qed.
Print Assumptions C02_adjacency_matrix_sym_exact.

(* ---- clause: "an edge's two adjacent plaquettes are the one traversing it forwards and the one
   traversing it backwards (INVALID where there is none)".  For ANY plaquette list in which no dart occurs
   twice: column 0 (d = true) of row e is Some n iff plaquette n contains dart (e,+1), column 1 iff it
   contains (e,-1); None iff no plaquette does. *)
Theorem C02_edge_sides : forall L ps,
  darts_disjoint ps = true ->
  length (edges_plaquettes L ps) = nE L /\
  forall e d, (e < nE L)%nat ->
    let c := ep_col (nth e (edges_plaquettes L ps) (None, None)) d in
    (forall n, c = Some n <-> owner ps (e, d) n) /\
    (c = None <-> forall n, ~ owner ps (e, d) n).
Proof. exact edge_sides_lemma. Qed.
Print Assumptions C02_edge_sides.

(* ---- clause: "a vertex's adjacent plaquettes are exactly those that contain it".  Whenever the table
   is produced, for ANY plaquette list: row v = the indices of the plaquettes whose vertex list contains v,
   ascending, each once (also when a plaquette visits v twice), then INVALID up to width max_coord. *)
Theorem C02_vertex_plaquettes_exact : forall L ps t,
  vertices_plaquettes L ps = Some t ->
  length t = nV L /\
  forall v, (v < nV L)%nat ->
    nth v t [] = vrow (max_coord L) (holders ps 0 v) /\
    (length (holders ps 0 v) <= max_coord L)%nat /\
    length (nth v t []) = max_coord L /\
    (forall n, In (Some n) (nth v t []) <-> exists p, nth_error ps n = Some p /\ In v (p_verts p)).
Proof. exact vertex_plaquettes_lemma. Qed.
Print Assumptions C02_vertex_plaquettes_exact.

(* [holders] is what it should be: ascending, duplicate free, exactly the containing plaquettes *)
Theorem C02_holders_spec : forall ps v,
  StronglySorted lt (holders ps 0 v) /\
  forall n, In n (holders ps 0 v) <-> exists p, nth_error ps n = Some p /\ In v (p_verts p).
Proof.
  intros ps v. split. apply holders_sorted.
  intros n. rewrite holders_in. split.
  - intros (i & p & -> & Hp & Hv). exists p. auto.
  - intros (p & Hp & Hv). exists n, p. auto.
Qed.
Print Assumptions C02_holders_spec.

(* the "first INVALID slot" search never raises IndexError: #plaquettes at v <= deg v <= max_coord *)
Theorem C02_vertex_plaquettes_never_fails : forall L ps,
  wf_lattice L = true ->
  darts_disjoint ps = true ->
  forallb (plaq_walk_ok L) ps = true ->
  (forall v, (length (holders ps 0 v) <= count_ends L v)%nat) /\
  exists t, vertices_plaquettes L ps = Some t.
Proof. exact vertex_plaquettes_total_lemma. Qed.
Print Assumptions C02_vertex_plaquettes_never_fails.

(* ---- clause: "a plaquette's neighbours are the plaquettes across its edges in edge order": entry i of
   plaquette n's list is the plaquette containing the REVERSED dart of its i-th edge, INVALID iff none
   (the np.where(row != n) idiom yields exactly one entry per row because a plaquette without a repeated
   edge never has itself on both sides) *)
Theorem C02_plaquette_neighbours_across : forall L ps n p,
  plaq_list_ok L ps = true ->
  nth_error ps n = Some p ->
  exists nbs,
    nth_error (all_plaquette_neighbours L ps) n = Some nbs /\
    length nbs = length (p_edges p) /\
    forall i e d, nth_error (plaq_darts p) i = Some (e, d) ->
      exists x, nth_error nbs i = Some x /\
        x = ep_col (nth e (edges_plaquettes L ps) (None, None)) (negb d) /\
        (forall m, x = Some m <-> owner ps (e, negb d) m) /\
        (x = None <-> forall m, ~ owner ps (e, negb d) m).
Proof. exact plaquette_neighbours_across_lemma. Qed.
Print Assumptions C02_plaquette_neighbours_across.

(* ---- clause: "the same values result whatever order these attributes are first accessed in": for EVERY
   finite history of accesses to plaquettes / n_plaquettes / edges.adjacent_plaquettes /
   vertices.adjacent_plaquettes from a fresh (or freshly unpickled) lattice, the i-th value returned is the
   history-free function [pure_value L] of the lattice; never an AttributeError *)
Theorem C02_cache_history_independent : forall L ops,
  snd (run L cinit ops) = map (pure_value L) ops.
Proof. exact cache_history_independent_lemma. Qed.
Print Assumptions C02_cache_history_independent.

Theorem C02_cache_order_irrelevant : forall L ops1 ops2 o,
  snd (step L (fst (run L cinit ops1)) o) = snd (step L (fst (run L cinit ops2)) o) /\
  pure_value L o <> VAttrError.
Proof. intros. split. apply cache_order_irrelevant. apply pure_value_no_attr_error. Qed.
Print Assumptions C02_cache_order_irrelevant.

(* ---- clause: "the query helpers agree with the tables" *)
(* vertex_neighbours: the edge list is the table row as a set (ascending ids), vertex i is the far end of edge i *)
Theorem C02_query_vertex_neighbours : forall L v,
  (v < nV L)%nat ->
  snd (vertex_neighbours L v) = incident L v /\
  Permutation (snd (vertex_neighbours L v)) (nth v (adj_table L) []) /\
  fst (vertex_neighbours L v) = map (q_far_end L v) (snd (vertex_neighbours L v)) /\
  (forall e, In e (snd (vertex_neighbours L v)) ->
     (fst (edge_at L e) = v /\ q_far_end L v e = snd (edge_at L e)) \/
     (snd (edge_at L e) = v /\ q_far_end L v e = fst (edge_at L e))).
Proof. exact vertex_neighbours_lemma. Qed.
Print Assumptions C02_query_vertex_neighbours.

(* edge_neighbours(lattice, e) = edges.adjacent_edges[e] *)
Theorem C02_query_edge_neighbours : forall L e, q_edge_neighbours L e = edge_neighbours L e.
Proof. exact q_edge_neighbours_lemma. Qed.
Print Assumptions C02_query_edge_neighbours.

(* get_edge_vectors(v, edges of v) = the outward vectors the table is sorted by (no self-loop at v) *)
Theorem C02_query_edge_vectors : forall L v,
  (forall e, In e (incident L v) -> fst (edge_at L e) <> snd (edge_at L e)) ->
  get_edge_vectors L v (snd (vertex_neighbours L v)) = map (outvec L v) (incident L v).
Proof. exact get_edge_vectors_lemma. Qed.
Print Assumptions C02_query_edge_vectors.

(* clockwise_about(v): the same edges as the table row, each once, with no descent in the polar angle
   measured ANTIclockwise from the positive x axis (the behaviour, not the docstring), paired with far ends *)
Theorem C02_query_clockwise_about : forall L v,
  (v < nV L)%nat ->
  let es := snd (clockwise_about L v) in
  Permutation es (nth v (adj_table L) []) /\
  NoDup es /\
  Sorted (fun a b => ang2_lt (q_edge_vector L v b) (q_edge_vector L v a) = false) es /\
  fst (clockwise_about L v) = map (q_far_end L v) es /\
  clockwise_edges_about L v = es.
Proof. exact clockwise_about_lemma. Qed.
Print Assumptions C02_query_clockwise_about.

(* "12 o'clock itself last" / "the positive x axis itself last": extreme keys of the two comparators *)
Theorem C02_comparator_extremes :
  (forall y w, (0 < y)%Z -> ang_lt w (0, y)%Z = false) /\
  (forall x w, (0 < x)%Z -> ang2_lt (x, 0)%Z w = false).
Proof. split. exact ang_lt_twelve_last. exact ang2_lt_xaxis_last. Qed.
Print Assumptions C02_comparator_extremes.

(* clockwise_about(v) is the table row of v in REVERSE CYCLIC order (the docstring says clockwise, the
   behaviour is anticlockwise from the +x axis), at every vertex in generic position *)
Theorem C02_query_clockwise_reverse_cyclic : forall L v,
  (v < nV L)%nat -> generic_at L v = true ->
  exists n, clockwise_edges_about L v =
            skipn n (rev (nth v (adj_table L) [])) ++ firstn n (rev (nth v (adj_table L) [])).
Proof. exact clockwise_reverse_cyclic_b. Qed.
Print Assumptions C02_query_clockwise_reverse_cyclic.

(* adjacent_plaquettes(lattice, n) = plaquette n's own adjacent_plaquettes paired with its edges, in edge
   order, INVALID entries dropped *)
Theorem C02_query_adjacent_plaquettes : forall L ps n p,
  darts_disjoint ps = true ->
  nth_error ps n = Some p ->
  nodupb (p_edges p) = true ->
  length (p_dirs p) = length (p_edges p) ->
  forallb (fun e => e <? nE L)%nat (p_edges p) = true ->
  let ep := edges_plaquettes L ps in
  let nbs := plaquette_neighbours ep n p in
  q_adjacent_plaquettes ps ep n =
  Some (flat_map (fun xe : option nat * nat => match fst xe with Some m => [m] | None => [] end) (combine nbs (p_edges p)),
        flat_map (fun xe : option nat * nat => match fst xe with Some m => [snd xe] | None => [] end) (combine nbs (p_edges p))).
Proof. exact q_adjacent_plaquettes_lemma. Qed.
Print Assumptions C02_query_adjacent_plaquettes.

(* part of the hypotheses that follows from the code of the sweep alone: every reported plaquette is a traced
   walk that passed the filters, so it has one direction and one vertex per edge and no repeated edge.
   (Dart disjointness, edge ids in range and "vertex i = tail of dart i" are C01's theorems.) *)
Theorem C02_sweep_plaquettes_shape : forall L ps,
  find_all_plaquettes L = Some ps ->
  forall p, In p ps ->
    from_valid_walk L p /\
    length (p_dirs p) = length (p_edges p) /\ length (p_verts p) = length (p_edges p) /\
    nodupb (p_edges p) = true.
Proof. exact c02_sweep_plaquettes_shape. Qed.
Print Assumptions C02_sweep_plaquettes_shape.

(* ---- non-vacuity: the hypotheses hold for the plaquette lists the sweep really produces ---- *)
(* open lattice: square with a diagonal plus an ISOLATED HIGHEST vertex 4; two triangles *)
Definition ExL1 := mkLattice 1 [(0,0);(4,0);(4,4);(0,4);(9,9)]%Z
  [(0,1);(1,2);(2,3);(3,0);(0,2)]%nat [(0,0);(0,0);(0,0);(0,0);(0,0)]%Z.
(* periodic lattice: 2x2 square lattice on the torus (multigraph: two edges between neighbours); 4 squares *)
Definition ExL2 := mkLattice 4 [(1,1);(3,1);(1,3);(3,3)]%Z
  [(0,1);(1,0);(2,3);(3,2);(0,2);(2,0);(1,3);(3,1)]%nat
  [(0,0);(1,0);(0,0);(1,0);(0,0);(0,1);(0,0);(0,1)]%Z.

Example C02_hypotheses_nonvacuous :
  (exists ps, find_all_plaquettes ExL1 = Some ps /\ length ps = 2%nat /\ wf_lattice ExL1 = true /\
              plaq_list_ok ExL1 ps = true /\ darts_disjoint ps = true /\ forallb (plaq_walk_ok ExL1) ps = true /\
              edges_plaquettes ExL1 ps = [(Some 0, None); (Some 0, None); (Some 1, None); (Some 1, None); (Some 1, Some 0)]%nat /\
              vertices_plaquettes ExL1 ps =
                Some [[Some 0; Some 1; None]; [Some 0; None; None]; [Some 0; Some 1; None]; [Some 1; None; None]; [None; None; None]]%nat /\
              all_plaquette_neighbours ExL1 ps = [[None; None; Some 1]; [None; None; Some 0]]%nat /\
              coordination ExL1 = [3; 2; 3; 2; 0]%nat) /\
  (exists ps, find_all_plaquettes ExL2 = Some ps /\ length ps = 4%nat /\ wf_lattice ExL2 = true /\
              plaq_list_ok ExL2 ps = true /\ darts_disjoint ps = true /\ forallb (plaq_walk_ok ExL2) ps = true /\
              nth 0 (edges_plaquettes ExL2 ps) (None, None) = (Some 0, Some 1)%nat /\
              pure_value ExL2 GetNPlaquettes = VNat 4 /\
              forallb (generic_at ExL2) (seq 0 (nV ExL2)) = true /\
              nth 0 (adj_table ExL2) [] = [0; 5; 1; 4]%nat /\ clockwise_edges_about ExL2 0 = [4; 1; 5; 0]%nat).
Proof.
  split.
  - eexists. split. vm_compute. reflexivity. vm_compute. repeat split; reflexivity.
  - eexists. split. vm_compute. reflexivity. vm_compute. repeat split; reflexivity.
Qed.

(* the hypotheses [darts_disjoint], [plaq_walk_ok], [plaq_list_ok] of the plaquette-table theorems above hold
   for the plaquette list the sweep really returns, for every well-formed lattice without self-loops of any
   size (C01), and filling the vertex table never fails *)
Theorem C02_sweep_satisfies_table_hypotheses : forall L ps,
  good L -> find_all_plaquettes L = Some ps -> plaq_list_ok L ps = true.
Proof. exact sweep_plaq_list_ok. Qed.
Print Assumptions C02_sweep_satisfies_table_hypotheses.

Theorem C02_tables_total : forall L,
  good L ->
  exists ps, find_all_plaquettes L = Some ps /\ plaq_list_ok L ps = true /\
             darts_disjoint ps = true /\ forallb (plaq_walk_ok L) ps = true /\
             exists t, vertices_plaquettes L ps = Some t.
Proof. exact sweep_tables_total. Qed.
Print Assumptions C02_tables_total.
