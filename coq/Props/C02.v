(* Props/C02.v — adjacency tables agree with edges and plaquettes (property C02). *)
From Coq Require Import List ZArith Bool Arith.
From Koala Require Import Model.Lattice Model.Cache Model.Queries Proofs.TablesFacts.
Import ListNotations.

(* clause "edge vectors equal end minus start plus crossing" (positions scaled by [scale L]) *)
Theorem C02_vectors_def : forall L,
  length (vectors L) = nE L /\
  forall e, (e < nE L)%nat ->
    nth e (vectors L) vzero =
    vadd (vsub (pos_at L (snd (edge_at L e))) (pos_at L (fst (edge_at L e))))
         (vscale (scale L) (cross_at L e)).
Proof. exact vectors_def_lemma. Qed.
Print Assumptions C02_vectors_def.

(* clause "coordination numbers count the edge ends at every vertex": one entry for EVERY vertex
   (also isolated ones, also the highest index), equal to the number of edge ends at it *)
Theorem C02_coordination_counts_ends : forall L,
  length (coordination L) = nV L /\
  forall v, (v < nV L)%nat -> nth v (coordination L) 0%nat = ends_at v (edges L).
Proof. exact coordination_lemma. Qed.
Print Assumptions C02_coordination_counts_ends.
