From Coq Require Import List ZArith Bool Arith.
From Koala Require Import Model.Ham Proofs.HamFacts.
Import ListNotations.
Open Scope Z_scope.

(* clause "the Majorana Hamiltonian is the sum over edges (j,k) of the bond term with entry +h at [k,j] and its
   negative at [j,k] and zero elsewhere, so parallel edges add" — for every lattice without self-loops, multigraphs
   included: the np.add.at program of hamiltonian.py:62-70 (before the factor i/4) equals the bond sum *)
Theorem C07_ham_is_bond_sum : forall V edges hop r c,
  no_loops edges = true -> (r < V)%nat -> (c < V)%nat ->
  ham_entry V edges hop r c = bond_sum edges hop r c.
Proof. exact ham_is_bond_sum. Qed.
Print Assumptions C07_ham_is_bond_sum.
