(* Props/C07.v — C07: the Majorana Hamiltonian is the sum of bond terms and transforms covariantly.

   Model (Model/Ham.v, extracted and compared entry for entry with koala/hamiltonian.py by harness/c07.py):
     ham_matrix V edges hop          the array `ham` of hamiltonian.py:62-70 (np.add.at: sequential accumulation)
     hoppings nE col u J             2 * J[colouring] * u   (J[0] when no colouring)
     bond_sum edges hop r c          the property's sum of bond terms (+h at [k,j], -h at [j,k], 0 elsewhere)
   MathComp (Proofs/HamMx.v), C an arbitrary numClosedFieldType, every V:
     mxZ V f := \matrix_(r,c) f r c : 'M[Z]_V      (tabulated from the executable entry function)
     majorana V t edges hop := ('i * t) *: map_mx (intr \o int_of_Z) (mxZ V (ham_entry V edges hop)) : 'M[C]_V
   (t = 1/4 in hamiltonian.py:72; any real t, so that the harness' dyadic scale is covered.)
   "Same spectrum" is stated as "same characteristic polynomial"; "spectrum symmetric about zero" as
   chi(-x) = (-1)^V chi(x).  NOT covered by a theorem: LAPACK, float rounding; the fermionic form is the matrix
   Fmx tabulated from the model's Gaussian-integer entries fermion_entry (4 SJ x the implementation's output). *)
From Coq Require Import ZArith Permutation.
From Coq Require List.
From mathcomp Require Import all_ssreflect all_algebra.
From mathcomp Require Import fingroup perm ssrZ.
From Koala Require Import Model.Ham Proofs.HamFacts Proofs.HamBisect Proofs.HamFermion Proofs.HamMx Proofs.HamFermionMx.
Set Implicit Arguments. Unset Strict Implicit. Unset Printing Implicit Defensive.
Import GRing.Theory Num.Theory.
Local Open Scope ring_scope.

(* ---- clause "sum over edges (j,k) of the bond term with entry +h at [k,j] and its negative at [j,k], zero
   elsewhere, so parallel edges add": every lattice without self-loops, multigraphs included ---- *)
Theorem C07_ham_is_bond_sum : forall (V : nat) (edges : list edge) (hop : list Z) (r c : nat),
  no_loops edges = true -> (r < V)%coq_nat -> (c < V)%coq_nat ->
  ham_entry V edges hop r c = bond_sum edges hop r c.
Proof. exact ham_is_bond_sum. Qed.
Print Assumptions C07_ham_is_bond_sum.

Theorem C07_ham_is_bond_sum_mx : forall (V : nat) (edges : list edge) (hop : list Z),
  no_loops edges = true -> mxZ V (ham_entry V edges hop) = Amx V edges hop.
Proof. exact ham_is_bond_sum_mx. Qed.
Print Assumptions C07_ham_is_bond_sum_mx.

Theorem C07_majorana_entry : forall (C : numClosedFieldType) (V : nat) (t : C) (edges : list edge) (hop : list Z) (r c : 'I_V),
  no_loops edges = true ->
  majorana V t edges hop r c = 'i * t * (int_of_Z (bond_sum edges hop r c))%:~R.
Proof. exact majorana_entry. Qed.
Print Assumptions C07_majorana_entry.

(* the literal bond term of the property text is not what is added for a self-loop: the hypothesis is needed *)
Theorem C07_ham_is_bond_sum_needs_no_loops :
  exists V edges hop r c, (r < V)%coq_nat /\ (c < V)%coq_nat /\ ham_entry V edges hop r c <> bond_sum edges hop r c.
Proof. exact ham_is_bond_sum_needs_no_loops. Qed.
Print Assumptions C07_ham_is_bond_sum_needs_no_loops.

(* ---- clause "zero elsewhere" ---- *)
Theorem C07_zero_off_edges : forall (C : numClosedFieldType) (V : nat) (t : C) (edges : list edge) (hop : list Z) (r c : 'I_V),
  no_loops edges = true -> (forall e, List.In e edges -> ~ joins e r c) -> majorana V t edges hop r c = 0.
Proof. exact majorana_zero_off_edges. Qed.
Print Assumptions C07_zero_off_edges.

(* ---- clause "Hermitian, purely imaginary and antisymmetric" ---- *)
Theorem C07_hermitian : forall (C : numClosedFieldType) (V : nat) (t : C) (edges : list edge) (hop : list Z),
  t \is Num.real -> no_loops edges = true ->
  (map_mx conjC (majorana V t edges hop))^T = majorana V t edges hop.
Proof. exact majorana_hermitian. Qed.
Print Assumptions C07_hermitian.

Theorem C07_purely_imaginary : forall (C : numClosedFieldType) (V : nat) (t : C) (edges : list edge) (hop : list Z) (r c : 'I_V),
  t \is Num.real -> 'Re (majorana V t edges hop r c) = 0.
Proof. exact majorana_imag. Qed.
Print Assumptions C07_purely_imaginary.

Theorem C07_antisymmetric : forall (C : numClosedFieldType) (V : nat) (t : C) (edges : list edge) (hop : list Z),
  no_loops edges = true -> (majorana V t edges hop)^T = - majorana V t edges hop.
Proof. exact majorana_antisym. Qed.
Print Assumptions C07_antisymmetric.

(* ---- clause "spectrum symmetric about zero": chi_H(-x) = (-1)^V chi_H(x) ---- *)
Theorem C07_spectrum_symmetric : forall (C : numClosedFieldType) (V : nat) (t : C) (edges : list edge) (hop : list Z),
  no_loops edges = true ->
  (char_poly (majorana V t edges hop)) \Po (- 'X) = (-1) ^+ V * char_poly (majorana V t edges hop).
Proof. exact majorana_spectrum_symmetric. Qed.
Print Assumptions C07_spectrum_symmetric.

(* general form: any antisymmetric matrix over any commutative ring *)
Theorem C07_char_poly_antisym : forall (R : comRingType) (n : nat) (M : 'M[R]_n),
  M^T = - M -> (char_poly M) \Po (- 'X) = (-1) ^+ n * char_poly M.
Proof. exact char_poly_antisym. Qed.
Print Assumptions C07_char_poly_antisym.

(* ---- clause "spectrum invariant under gauge transformations of u": u_jk -> g_j u_jk g_k ---- *)
Theorem C07_gauge_hoppings : forall (gl : list Z) (edges : list edge) (col : option (list nat)) (u J : list Z),
  length u = length edges ->
  hoppings (length edges) col (gauge_u edges gl u) J
  = gauge_hop (fun v => List.nth v gl Z0) edges (hoppings (length edges) col u J).
Proof. exact hoppings_gauge. Qed.
Print Assumptions C07_gauge_hoppings.

Theorem C07_gauge_DHD : forall (C : numClosedFieldType) (V : nat) (t : C) (g : nat -> Z) (edges : list edge) (hop : list Z),
  no_loops edges = true ->
  majorana V t edges (gauge_hop g edges hop)
  = map_mx (intr \o int_of_Z) (gmx V g) *m majorana V t edges hop *m map_mx (intr \o int_of_Z) (gmx V g).
Proof. exact majorana_gauge_DHD. Qed.
Print Assumptions C07_gauge_DHD.

Theorem C07_gauge_similar : forall (C : numClosedFieldType) (V : nat) (t : C) (g : nat -> Z) (edges : list edge) (hop : list Z),
  no_loops edges = true -> (forall v, (v < V)%N -> Z.mul (g v) (g v) = Zpos 1) ->
  char_poly (majorana V t edges (gauge_hop g edges hop)) = char_poly (majorana V t edges hop).
Proof. exact majorana_gauge_similar. Qed.
Print Assumptions C07_gauge_similar.

(* ---- clause "... and under relabelling the vertices": permute_vertices (lattice.py:523-548) ---- *)
Theorem C07_inverse_ordering : forall (V : nat) (ordering : list nat) (i : nat),
  List.NoDup ordering -> (forall x, List.In x ordering -> (x < V)%coq_nat) -> length ordering = V -> (i < V)%coq_nat ->
  List.nth (List.nth i ordering 0%N) (inverse_ordering V ordering) 0%N = i.
Proof. exact inverse_ordering_spec. Qed.
Print Assumptions C07_inverse_ordering.

Theorem C07_relabel_PHPt : forall (C : numClosedFieldType) (V : nat) (t : C) (s : 'S_V) (ordering : list nat) (edges : list edge) (hop : list Z),
  no_loops edges = true -> wf_edges V edges = true ->
  size ordering = V -> (forall i : 'I_V, nth 0%N ordering i = s i) ->
  majorana V t (permute_edges V ordering edges) hop = perm_mx s *m majorana V t edges hop *m (perm_mx s)^T.
Proof. exact majorana_relabel_PHPt. Qed.
Print Assumptions C07_relabel_PHPt.

Theorem C07_relabel_similar : forall (C : numClosedFieldType) (V : nat) (t : C) (s : 'S_V) (ordering : list nat) (edges : list edge) (hop : list Z),
  no_loops edges = true -> wf_edges V edges = true ->
  size ordering = V -> (forall i : 'I_V, nth 0%N ordering i = s i) ->
  char_poly (majorana V t (permute_edges V ordering edges) hop) = char_poly (majorana V t edges hop).
Proof. exact majorana_relabel_similar. Qed.
Print Assumptions C07_relabel_similar.

(* general form: P Q = 1 => same characteristic polynomial, over any commutative ring *)
Theorem C07_char_poly_sim : forall (R : comRingType) (n : nat) (P Q M : 'M[R]_n),
  P *m Q = 1%:M -> char_poly (P *m M *m Q) = char_poly M.
Proof. exact char_poly_sim. Qed.
Print Assumptions C07_char_poly_sim.

(* ---- clause "the sublattice bisection keeps edge order and, when the chosen colour class is a perfect
   matching, places the two ends of each of its edges in opposite halves" ---- *)
Theorem C07_bisect_keeps_edge_order : forall (V : nat) (ordering : list nat) (edges : list edge) (e : nat),
  (e < length edges)%coq_nat ->
  length (permute_edges V ordering edges) = length edges /\
  List.nth e (permute_edges V ordering edges) (0%N, 0%N)
  = (List.nth (fst (List.nth e edges (0%N, 0%N))) (inverse_ordering V ordering) 0%N,
     List.nth (snd (List.nth e edges (0%N, 0%N))) (inverse_ordering V ordering) 0%N).
Proof. exact (fun V o es e h => conj (permute_edges_length V o es) (permute_edges_nth V o es e h)). Qed.
Print Assumptions C07_bisect_keeps_edge_order.

Theorem C07_bisect_spec : forall (V : nat) (edges : list edge) (sol : list nat) (along : nat) (ordering : list nat),
  perfect_matching V (dimer_edges edges sol along) = true ->
  Permutation ordering (List.seq 0 V) ->
  sortedb (List.map (fun i => List.nth i (sublattice_labels V edges sol along) 0%N) ordering) = true ->
  opposite_halves V (dimer_edges (permute_edges V ordering edges) sol along) = true.
Proof. exact bisect_spec. Qed.
Print Assumptions C07_bisect_spec.

(* the same with the decidable contract of np.argsort evaluated by the extracted driver on the implementation's
   vertex order: matching = 1 and argsort = 1 imply halves = 1 *)
Theorem C07_bisect_spec_checked : forall (V : nat) (edges : list edge) (sol : list nat) (along : nat) (ordering : list nat),
  perfect_matching V (dimer_edges edges sol along) = true ->
  is_argsort (sublattice_labels V edges sol along) ordering = true ->
  opposite_halves V (dimer_edges (permute_edges V ordering edges) sol along) = true.
Proof. exact bisect_spec_checked. Qed.
Print Assumptions C07_bisect_spec_checked.

(* ---- clause "the fermionic form is Hermitian with Bogoliubov-de Gennes block structure and its spectrum is exactly
   twice the Majorana spectrum" — on the model's array (4 SJ x the fermionic matrix, Gaussian integers) ---- *)
Theorem C07_ham_matrix_antisym : forall (V : nat) (edges : list edge) (hop : list Z),
  no_loops edges = true -> antisym (ham_matrix V edges hop).
Proof. exact ham_matrix_antisym. Qed.
Print Assumptions C07_ham_matrix_antisym.

Theorem C07_fermion_hermitian : forall (n : nat) (A : list (list Z)) (r c : nat),
  antisym A -> (r < 2 * n)%coq_nat -> (c < 2 * n)%coq_nat ->
  fermion_entry n A c r = giconj (fermion_entry n A r c).
Proof. exact fermion_hermitian. Qed.
Print Assumptions C07_fermion_hermitian.

Theorem C07_fermion_bdg : forall (n : nat) (A : list (list Z)) (i j : nat), antisym A -> (i < n)%coq_nat -> (j < n)%coq_nat ->
  (* blocks [[h, d], [d^dagger, -h^T]] ... *)
  (fermion_entry n A i j = fh n A i j /\
   fermion_entry n A i (n + j) = fd n A i j /\
   fermion_entry n A (n + i) j = giconj (fd n A j i) /\
   fermion_entry n A (n + i) (n + j) = gineg (fh n A j i)) /\
  (* ... with h Hermitian and d antisymmetric *)
  fh n A j i = giconj (fh n A i j) /\ fd n A j i = gineg (fd n A i j).
Proof. exact (fun n A i j HA Hi Hj => conj (fermion_blocks n A i j Hi Hj) (conj (fh_hermitian n A i j HA) (fd_antisymmetric n A i j HA))). Qed.
Print Assumptions C07_fermion_bdg.

(* W (2H) = F W for W = [[1, i], [1, -i]] (x) 1_n, entry by entry (W_twoH, F_W: Model/Ham.v) *)
Theorem C07_fermion_intertwines : forall (n : nat) (A : list (list Z)) (r c : nat),
  antisym A -> (r < 2 * n)%coq_nat -> (c < 2 * n)%coq_nat -> W_twoH n A r c = F_W n A r c.
Proof. exact fermion_intertwines. Qed.
Print Assumptions C07_fermion_intertwines.

(* lifted to MathComp: W *m W^*/2 = 1, F = W (2H) W^-1, hence the characteristic polynomial of the fermionic form
   t *: Fmx (t = 1/(4 SJ)) is that of 2 * H: its spectrum is exactly twice the Majorana spectrum *)
Theorem C07_fermion_W_unitary : forall (C : numClosedFieldType) (n : nat), Wmx C n *m Wimx C n = 1%:M.
Proof. exact W_Wi. Qed.
Print Assumptions C07_fermion_W_unitary.

Theorem C07_fermion_similar : forall (C : numClosedFieldType) (n : nat) (A : list (list Z)),
  antisym A -> Fmx C n A = Wmx C n *m H2mx C n A *m Wimx C n.
Proof. exact Fmx_similar. Qed.
Print Assumptions C07_fermion_similar.

Theorem C07_fermion_spectrum_twice : forall (C : numClosedFieldType) (n : nat) (t : C) (edges : list edge) (hop : list Z),
  no_loops edges = true ->
  char_poly (t *: Fmx C n (ham_matrix (n + n) edges hop)) = char_poly (2%:R *: majorana (n + n) t edges hop).
Proof. exact fermion_spectrum_twice. Qed.
Print Assumptions C07_fermion_spectrum_twice.

Theorem C07_fermion_form_hermitian : forall (C : numClosedFieldType) (n : nat) (t : C) (edges : list edge) (hop : list Z),
  no_loops edges = true -> t \is Num.real ->
  (map_mx conjC (t *: Fmx C n (ham_matrix (n + n) edges hop)))^T = t *: Fmx C n (ham_matrix (n + n) edges hop).
Proof. exact fermion_form_hermitian. Qed.
Print Assumptions C07_fermion_form_hermitian.

(* ---- non-vacuity: the 4-site honeycomb cell honeycomb_lattice(1), a multigraph (edges (2,1) and (0,3) twice) ---- *)
Example C07_multigraph_nonvacuous :
  no_loops hc1_edges = true /\ wf_edges 4 hc1_edges = true /\
  majorana4 4 hc1_edges (Some [:: 0; 1; 2; 0; 1; 2]%N) [:: Zpos 1; Zpos 1; Zneg 1; Zpos 1; Zneg 1; Zpos 1] [:: Zpos 1; Zpos 2; Zpos 3]
  = [:: [:: Z0; Zneg 2; Z0; Zneg 2]; [:: Zpos 2; Z0; Zpos 6; Z0]; [:: Z0; Zneg 6; Z0; Zpos 6]; [:: Zpos 2; Z0; Zneg 6; Z0]].
Proof. exact hc1_example. Qed.
