(* Props/C10.v — property C10: built-in generators produce the tilings they are named after. *)
From Coq Require Import List ZArith Bool Arith.
From Koala Require Import Gen.TilingGen Model.Lattice Model.Tiling Model.Examples Proofs.TilingFacts.
Import ListNotations.
Open Scope Z_scope.

Theorem C10_zrange_length : forall n, length (zrange n) = Z.to_nat n.
Proof. exact zrange_length. Qed.
Print Assumptions C10_zrange_length.
